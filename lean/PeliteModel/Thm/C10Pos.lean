import PeliteModel.Thm.C10
import PeliteModel.Lemmas.ExecFrame
import PeliteModel.Lemmas.ParseShape
/-!
C10 — additions to `Thm/C10.lean`:

* the *ghost* match position `Res.pos` of the scanner model is observable: it is what a reported
  match leaves in `save[0]` (`C10_pos_is_save0`, `C10_scan_positions_are_save0`) — for every atom list
  that starts with `Save(0)` and does not write slot 0 again, in particular for every pattern that
  comes out of `pattern::parse` (`C10_pos_is_save0_parsed`);
* `next` / a whole scan never change the length of the caller's save array and write only below
  `save_len(pat)` (`C10_next_writes_below_save_len`, `C10_scan_writes_below_save_len`);
* every parsed pattern string satisfies the pattern half of `Hyp` (`C10_hyp_of_parse`,
  `C10_scan_exact_parsed`);
* witnesses: `Hyp` on a FILE view with two sections and a non-empty reference list; `SecWF` cannot be
  dropped from `Hyp` (`C10_scan_complete_needs_SecWF`: the same file with its two section headers in
  descending order of VirtualAddress — a file `PeFile::from_bytes` accepts — loses a match);
* the performance counter `Matches::hits` and the progress of `Matches::range` (last section): every
  returning call of `next` — any interpreter, any image, any atom list, no hypothesis — leaves
  `range.end` alone, moves `range.start` forward and not beyond `max range.start range.end`, and
  raises `hits` by at most the number of positions `range.start` advanced and by at least one per
  reported match (`C10_hits_bounded_with`, `C10_hits_bounded`, `C10_next_advance`, `C10_scan_hits`);
  hence over the life of a `Matches` object `hits ≤ range.end - lo < 2^32`: the checked `u32`
  increment `self.hits += 1` cannot overflow (`C10_hits_no_overflow`, `C10_hits_no_overflow_code`,
  `C10_scan_hits_no_overflow`).
-/
namespace Pelite.Scan
open Pelite.Pattern Pelite.Exec

/-! ## the reported position is `save[0]` -/

/-- **`Res.pos` is observable.**  Let the pattern start with `Save(0)` and let no later atom write
slot 0 (`slot0Reserved pat`, decidable).  Then one call of `next` returns normally, hands back a save
array of the length it was given, and — when it reports a match and the caller's array has a slot 0 —
that slot holds the model's ghost position `r.pos`.  So everything `Thm/C10.lean` says about `r.pos` / the positions in `All.hits`
is a statement about the value the Rust caller reads from `save[0]`. -/
theorem C10_pos_is_save0 (v : Pe.View) (hsz : v.b.size < 4294967296) (pat : List Atom)
    (hok : pat.all Atom.ok = true) (hres : slot0Reserved pat = true)
    (m : MSt) (save : Array Nat) (hstop : m.stop < 4294967296) :
    ∃ r, next v pat m save = .ok r ∧ r.save.size = save.size ∧
      (r.found = true → 0 < save.size → r.save[0]? = some r.pos) := by
  obtain ⟨h0, hno⟩ := slot0Reserved_spec hres
  obtain ⟨r, hr, hs⟩ := nextWith_sound (interp_total v hsz pat) v (setup pat) (setup_lt pat hok) m save hstop
  have hfr := next_frame v pat m save r hr
  refine ⟨r, hr, hfr.1, fun hf hpos => ?_⟩
  obtain ⟨_, _, _, _, s, hrun⟩ := hs.found hf
  obtain ⟨h1, h2⟩ := run_first_save (ofView v) pat 0 h0 hno r.pos s r.save true hrun
  exact h2 (by rw [← h1, hfr.1]; exact hpos)

/-- the same for the documented loop `while matches.next(&mut save) { … }`: every recorded pair
`(position, save array)` has the position in slot 0 of the array -/
theorem C10_scan_positions_are_save0 (v : Pe.View) (hsz : v.b.size < 4294967296) (pat : List Atom)
    (hok : pat.all Atom.ok = true) (hres : slot0Reserved pat = true)
    (lo hi : Nat) (hhi : hi < 4294967296) (n : Nat) (save : Array Nat) (hpos : 0 < save.size) :
    ∃ a, scanAll (next v pat) n (matchesInit lo hi) save = .ok a ∧
      ∀ x ∈ a.hits, x.2.size = save.size ∧ x.2[0]? = some x.1 := by
  obtain ⟨h0, hno⟩ := slot0Reserved_spec hres
  obtain ⟨a, ha, _, h2, _, _⟩ := scanAll_sound (ex := interp v pat) (nx := next v pat) hi
    (fun m save hm => nextWith_sound (interp_total v hsz pat) v (setup pat) (setup_lt pat hok) m save (by omega))
    n (matchesInit lo hi) save rfl
  refine ⟨a, ha, fun x hx => ?_⟩
  have hfr := ((scanAll_frame v pat n _ save a ha).2 x hx).1
  obtain ⟨_, _, s, hrun⟩ := h2 x hx
  obtain ⟨h1, h3⟩ := run_first_save (ofView v) pat 0 h0 hno x.1 s x.2 true hrun
  exact ⟨hfr, h3 (by rw [← h1, hfr]; exact hpos)⟩

/-- the hypotheses on a non-trivial instance (nested frames, alternatives, reads; slot 0 named once) -/
example : slot0Reserved [.save 0, .byte 0xe8, .push 4, .jump4, .save 1, .case 3, .byte 0x6a, .readU8 2, .brk 2,
    .nop, .byte 0x68, .pop, .zero 3, .check 0] = true ∧
    slot0Reserved [.save 0, .byte 1, .readU8 0] = false := by decide

/-- **every parsed pattern has that shape**: the parser emits `Save(0)` first and its slot counter
starts at 1 and never returns to 0 (`Thm/C11Frame.lean:C11_parse_slot0_only_first`) -/
theorem C10_parse_slot0_reserved (s : List UInt8) (pat : List Atom) (hp : parse s = .ok pat) :
    slot0Reserved pat = true := by
  have hsh := parse_shape hp
  obtain ⟨tail, hw, ht, hl⟩ := parse_ok_struct hp
  refine slot0Reserved_of (trimmedOK_of hw ht hl).first ?_
  intro j a hj ha hw'
  have := (hsh j a ha).2 0 (slotOf_of_wslot hw') hj
  omega

/-- … so for every pattern string that parses, a reported match leaves its position in `save[0]` — "the first entry in the save array is reserved for the rva where
the pattern was matched" (documentation of `pattern::parse`). -/
theorem C10_pos_is_save0_parsed (s : List UInt8) (pat : List Atom) (hp : parse s = .ok pat)
    (v : Pe.View) (hsz : v.b.size < 4294967296) (m : MSt) (save : Array Nat) (hstop : m.stop < 4294967296) :
    ∃ r, next v pat m save = .ok r ∧ r.save.size = save.size ∧
      (r.found = true → 0 < save.size → r.save[0]? = some r.pos) := by
  have hok : pat.all Atom.ok = true := by
    obtain ⟨tail, hw, ht, hl⟩ := parse_ok_struct hp
    rw [List.all_eq_true]
    intro a ha
    exact ok_of_argOf ((trimmedOK_of hw ht hl).args a ha)
  exact C10_pos_is_save0 v hsz pat hok (C10_parse_slot0_reserved s pat hp) m save hstop

/-! ## what a scan does to the rest of the save array -/

/-- one call of `next`, ANY atom list, any image: the caller's save array keeps its length, and every
index at or beyond `save_len(pat)` keeps its value — whether or not a match is reported, and however
many positions were tried and rejected on the way -/
theorem C10_next_writes_below_save_len (v : Pe.View) (pat : List Atom) (m : MSt) (save : Array Nat) (r : Res)
    (h : next v pat m save = .ok r) :
    r.save.size = save.size ∧ ∀ i : Nat, saveLen pat ≤ i → r.save[i]? = save[i]? := by
  obtain ⟨h1, h2⟩ := next_frame v pat m save r h
  exact ⟨h1, fun i hi => h2 i (not_written_of_saveLen_le hi)⟩

/-- … and a whole scan: every recorded save array and the final one -/
theorem C10_scan_writes_below_save_len (v : Pe.View) (pat : List Atom) (n : Nat) (m : MSt) (save : Array Nat)
    (a : All) (h : scanAll (next v pat) n m save = .ok a) :
    (a.save.size = save.size ∧ ∀ i : Nat, saveLen pat ≤ i → a.save[i]? = save[i]?) ∧
    ∀ x ∈ a.hits, x.2.size = save.size ∧ ∀ i : Nat, saveLen pat ≤ i → x.2[i]? = save[i]? := by
  obtain ⟨h1, h2⟩ := scanAll_frame v pat n m save a h
  exact ⟨⟨h1.1, fun i hi => h1.2 i (not_written_of_saveLen_le hi)⟩,
    fun x hx => ⟨(h2 x hx).1, fun i hi => (h2 x hx).2 i (not_written_of_saveLen_le hi)⟩⟩

/-! ## parsed patterns satisfy the pattern half of `Hyp` -/

/-- For a pattern that came out of `pattern::parse`, `Hyp` is a condition on the image and the range
only: buffer and range bounds below 4 GiB and, for file views, the `SecWF` section table.  No
documented pattern feature is outside the completeness theorems (the five atoms the parser never
emits — `Fuzzy`, `Back`, `Pir`, `VTypeName`, `Check` — are reachable through hand-written atom lists
only; of these `Pir` and `Check` are excluded by `noRead`). -/
theorem C10_hyp_of_parse (s : List UInt8) (pat : List Atom) (hp : parse s = .ok pat) (v : Pe.View) (lo hi : Nat)
    (hsz : v.b.size < 4294967296) (hlo : lo < 4294967296) (hhi : hi < 4294967296)
    (hwf : v.kind = .file → SecWF v.secs) : Hyp v pat lo hi := by
  obtain ⟨tail, hw, ht, hl⟩ := parse_ok_struct hp
  refine ⟨?_, ?_, hsz, hlo, hhi, hwf⟩
  · rw [List.all_eq_true]
    intro a ha
    exact ok_of_argOf ((trimmedOK_of hw ht hl).args a ha)
  · rw [List.all_eq_true]
    intro a ha
    obtain ⟨i, hi⟩ := List.mem_iff_getElem?.mp ha
    exact noRead_of_emitted (parse_shape hp i a hi).1

/-- **C10 for pattern strings.**  For every pattern string that parses, every image below 4 GiB (file
views: `SecWF` section table), every range and every save array with at least one slot: the
exhausted scan reports a strictly ascending list of positions of the range at which the pattern
executes, containing every candidate position at which it executes, and the caller finds each
reported position in `save[0]` of the array recorded with it. -/
theorem C10_scan_exact_parsed (s : List UInt8) (pat : List Atom) (hp : parse s = .ok pat) (v : Pe.View) (lo hi : Nat)
    (hsz : v.b.size < 4294967296) (hlo : lo < 4294967296) (hhi : hi < 4294967296)
    (hwf : v.kind = .file → SecWF v.secs) (n : Nat) (hn : hi - lo < n) (save : Array Nat) (hpos : 0 < save.size) :
    ∃ a, scanAll (next v pat) n (matchesInit lo hi) save = .ok a ∧ a.exhausted = true ∧
      (a.hits.map (·.1)).Pairwise (· < ·) ∧
      (∀ p ∈ a.hits.map (·.1), lo ≤ p ∧ p < hi ∧ execOK v pat p = true) ∧
      (∀ p ∈ specMatches v pat lo hi, p ∈ a.hits.map (·.1)) ∧
      ∀ x ∈ a.hits, x.2.size = save.size ∧ x.2[0]? = some x.1 := by
  have hH := C10_hyp_of_parse s pat hp v lo hi hsz hlo hhi hwf
  obtain ⟨a, ha, h1, h2, h3, h4⟩ := C10_scan_exact v pat lo hi hH n hn save
  obtain ⟨a', ha', h5⟩ := C10_scan_positions_are_save0 v hsz pat hH.1 (C10_parse_slot0_reserved s pat hp)
    lo hi hhi n save hpos
  rw [ha] at ha'
  cases ha'
  exact ⟨a, ha, h1, h2, h3, h4, h5⟩

/-! ## witnesses -/

/-- A PE32 file of 352 bytes with no data directories (`e_lfanew = 0x40`, `NumberOfSections = 2`,
`SizeOfOptionalHeader = 96`, `FileAlignment = 0x20`, `SizeOfHeaders = 0x120`, `SizeOfImage = 0x3000`); section
table at 184: `.text` (VirtualSize 0x20, VirtualAddress 0x1000, SizeOfRawData 0x20, PointerToRawData 0x120),
then `.data` (VirtualSize 0x18, VirtualAddress 0x2000, SizeOfRawData 0x20, PointerToRawData 0x140); raw data:
`aa bb 00 cc` at rva 0x1004, `aa bb 00 dd` at 0x1010, `aa bb 11 cc` at rva 0x2008 -/
def wSortedBytes : Bytes :=
  #[77, 90, 0, 0, 0, 0, 0, 0, 0, 0, 0, 0, 0, 0, 0, 0, 0, 0, 0, 0, 0, 0, 0, 0, 0, 0, 0, 0, 0, 0, 0, 0, 0, 0, 0, 0,
  0, 0, 0, 0, 0, 0, 0, 0, 0, 0, 0, 0, 0, 0, 0, 0, 0, 0, 0, 0, 0, 0, 0, 0, 64, 0, 0, 0, 80, 69, 0, 0, 76, 1, 2,
  0, 0, 0, 0, 95, 0, 0, 0, 0, 0, 0, 0, 0, 96, 0, 2, 33, 11, 1, 14, 0, 32, 0, 0, 0, 0, 2, 0, 0, 0, 0, 0, 0, 0,
  16, 0, 0, 0, 16, 0, 0, 0, 32, 0, 0, 0, 0, 64, 0, 0, 16, 0, 0, 32, 0, 0, 0, 6, 0, 0, 0, 0, 0, 0, 0, 6, 0, 0,
  0, 0, 0, 0, 0, 0, 48, 0, 0, 32, 1, 0, 0, 0, 0, 0, 0, 3, 0, 64, 129, 0, 0, 16, 0, 0, 16, 0, 0, 0, 0, 16, 0, 0,
  16, 0, 0, 0, 0, 0, 0, 0, 0, 0, 0, 46, 116, 101, 120, 116, 0, 0, 0, 32, 0, 0, 0, 0, 16, 0, 0, 32, 0, 0, 0, 32,
  1, 0, 0, 0, 0, 0, 0, 0, 0, 0, 0, 0, 0, 0, 0, 32, 0, 0, 96, 46, 100, 97, 116, 97, 0, 0, 0, 24, 0, 0, 0, 0, 32,
  0, 0, 32, 0, 0, 0, 64, 1, 0, 0, 0, 0, 0, 0, 0, 0, 0, 0, 0, 0, 0, 0, 64, 0, 0, 192, 0, 0, 0, 0, 0, 0, 0, 0, 0,
  0, 0, 0, 0, 0, 0, 0, 0, 0, 0, 0, 0, 0, 0, 0, 0, 0, 0, 0, 170, 187, 0, 204, 0, 0, 0, 0, 0, 0, 0, 0, 170, 187,
  0, 221, 0, 0, 0, 0, 0, 0, 0, 0, 0, 0, 0, 0, 0, 0, 0, 0, 0, 0, 0, 0, 170, 187, 17, 204, 0, 0, 0, 0, 0, 0, 0,
  0, 0, 0, 0, 0, 0, 0, 0, 0, 0, 0, 0, 0]
/-- the same file with the two 40-byte section headers exchanged: `.data` (0x2000) first, then `.text` (0x1000) -/
def wDescBytes : Bytes :=
  #[77, 90, 0, 0, 0, 0, 0, 0, 0, 0, 0, 0, 0, 0, 0, 0, 0, 0, 0, 0, 0, 0, 0, 0, 0, 0, 0, 0, 0, 0, 0, 0, 0, 0, 0, 0,
  0, 0, 0, 0, 0, 0, 0, 0, 0, 0, 0, 0, 0, 0, 0, 0, 0, 0, 0, 0, 0, 0, 0, 0, 64, 0, 0, 0, 80, 69, 0, 0, 76, 1, 2,
  0, 0, 0, 0, 95, 0, 0, 0, 0, 0, 0, 0, 0, 96, 0, 2, 33, 11, 1, 14, 0, 32, 0, 0, 0, 0, 2, 0, 0, 0, 0, 0, 0, 0,
  16, 0, 0, 0, 16, 0, 0, 0, 32, 0, 0, 0, 0, 64, 0, 0, 16, 0, 0, 32, 0, 0, 0, 6, 0, 0, 0, 0, 0, 0, 0, 6, 0, 0,
  0, 0, 0, 0, 0, 0, 48, 0, 0, 32, 1, 0, 0, 0, 0, 0, 0, 3, 0, 64, 129, 0, 0, 16, 0, 0, 16, 0, 0, 0, 0, 16, 0, 0,
  16, 0, 0, 0, 0, 0, 0, 0, 0, 0, 0, 46, 100, 97, 116, 97, 0, 0, 0, 24, 0, 0, 0, 0, 32, 0, 0, 32, 0, 0, 0, 64,
  1, 0, 0, 0, 0, 0, 0, 0, 0, 0, 0, 0, 0, 0, 0, 64, 0, 0, 192, 46, 116, 101, 120, 116, 0, 0, 0, 32, 0, 0, 0, 0,
  16, 0, 0, 32, 0, 0, 0, 32, 1, 0, 0, 0, 0, 0, 0, 0, 0, 0, 0, 0, 0, 0, 0, 32, 0, 0, 96, 0, 0, 0, 0, 0, 0, 0, 0,
  0, 0, 0, 0, 0, 0, 0, 0, 0, 0, 0, 0, 0, 0, 0, 0, 0, 0, 0, 0, 170, 187, 0, 204, 0, 0, 0, 0, 0, 0, 0, 0, 170,
  187, 0, 221, 0, 0, 0, 0, 0, 0, 0, 0, 0, 0, 0, 0, 0, 0, 0, 0, 0, 0, 0, 0, 170, 187, 17, 204, 0, 0, 0, 0, 0, 0,
  0, 0, 0, 0, 0, 0, 0, 0, 0, 0, 0, 0, 0, 0]

/-- the file with its section table in ascending order of VirtualAddress -/
def wSorted : Pe.View := ⟨⟨wSortedBytes, 0⟩, .pe32, .file, 0x400000⟩
/-- the same file with the two section headers exchanged (descending VirtualAddress) -/
def wDesc : Pe.View := ⟨⟨wDescBytes, 0⟩, .pe32, .file, 0x400000⟩
/-- "the same file": the two images differ in the order of the two section headers only -/
example : wDescBytes.toList = wSortedBytes.toList.take 184 ++ (wSortedBytes.toList.drop 224).take 40 ++
    (wSortedBytes.toList.drop 184).take 40 ++ wSortedBytes.toList.drop 264 := by decide +kernel

/-- `aa bb ' ? cc` -/
def wPat : List Atom := [.save 0, .byte 0xAA, .byte 0xBB, .save 1, .skip 1, .byte 0xCC]

/-- both are what `PeFile::from_bytes` constructs from those bytes (the headers validate) -/
theorem wSorted_from_bytes : Pe.fromBytes .pe32 .file wSorted.img = .ok wSorted := by
  have h1 : Pe.validate .pe32 wSorted.img = .ok 0x3000 := by decide +kernel
  have h2 : Pe.imageBaseField .pe32 wSorted.img.bytes = 0x400000 := by decide +kernel
  simp only [Pe.fromBytes, h1, h2]; rfl

theorem wDesc_from_bytes : Pe.fromBytes .pe32 .file wDesc.img = .ok wDesc := by
  have h1 : Pe.validate .pe32 wDesc.img = .ok 0x3000 := by decide +kernel
  have h2 : Pe.imageBaseField .pe32 wDesc.img.bytes = 0x400000 := by decide +kernel
  simp only [Pe.fromBytes, h1, h2]; rfl

/-- the pattern is what the parser makes of `aa bb ' ? cc` -/
example : parse "aa bb ' ? cc".toUTF8.toList = .ok wPat := by decide +kernel

/-- **`Hyp` on a file view** with two sections (so `SecWF` is a real condition), and the reference
list is not empty: one match in each section -/
example : Hyp wSorted wPat 0 0x3000 ∧ SecWF wSorted.secs ∧ wSorted.secs.length = 2 ∧
    specMatches wSorted wPat 0 0x3000 = [0x1004, 0x2008] := by
  decide +kernel

/-- … and the scan of that file reports exactly the reference list, with the positions in slot 0, the
bookmark in slot 1 and slot 2 (beyond `save_len = 2`) untouched -/
example : scanAll (next wSorted wPat) 4 (matchesInit 0 0x3000) #[0, 0, 7] =
    .ok ⟨[(0x1004, #[0x1004, 0x1006, 7]), (0x2008, #[0x2008, 0x200a, 7])], ⟨0x2020, 0x3000, 3⟩, #[0x2008, 0x200a, 7], true⟩ := by
  decide +kernel

/-- **`SecWF` is needed.**  Every conjunct of `Hyp` other than `SecWF` holds for the file with the
descending section table, the scan runs to exhaustion, and yet the match at rva 0x1004 — a member of
the reference list — is not reported: after the `.data` section (listed first) the section loop has
moved `range.start` to 0x2020 and the overlap test then skips `.text`.  The real code behaves the
same (corpus file `corpus/C10/secwf_witnesses.txt`, replayed against the real code on every check:
answer `[8200{8200,8202,0}]`; `finds` over the same range even answers `true`). -/
theorem C10_scan_complete_needs_SecWF :
    ∃ (v : Pe.View) (pat : List Atom) (lo hi n : Nat) (save : Array Nat) (a : All),
      Pe.fromBytes .pe32 .file v.img = .ok v ∧
      pat.all Atom.ok = true ∧ pat.all noRead = true ∧ v.b.size < 4294967296 ∧ lo < 4294967296 ∧ hi < 4294967296 ∧
      ¬ SecWF v.secs ∧
      scanAll (next v pat) n (matchesInit lo hi) save = .ok a ∧ a.exhausted = true ∧
      ∃ p ∈ specMatches v pat lo hi, p ∉ a.hits.map (·.1) := by
  refine ⟨wDesc, wPat, 0, 0x3000, 4, #[0, 0], ⟨[(0x2008, #[0x2008, 0x200a])], ⟨0x2020, 0x3000, 1⟩, #[0x2008, 0x200a], true⟩,
    wDesc_from_bytes, by decide, by decide, by decide +kernel, by decide, by decide, by decide +kernel,
    by decide +kernel, rfl, 0x1004, by decide +kernel, by decide⟩

/-- so the conclusion of `C10_scan_complete` is false for it: the hypothesis `SecWF` of `Hyp` cannot be removed -/
theorem C10_scan_complete_without_SecWF_false :
    ¬ ∀ (v : Pe.View) (pat : List Atom) (lo hi : Nat),
        (pat.all Atom.ok = true ∧ pat.all noRead = true ∧ v.b.size < 4294967296 ∧ lo < 4294967296 ∧ hi < 4294967296) →
        ∀ (n : Nat) (save : Array Nat) (a : All), scanAll (next v pat) n (matchesInit lo hi) save = .ok a →
          a.exhausted = true → ∀ p ∈ specMatches v pat lo hi, p ∈ a.hits.map (·.1) := by
  intro h
  obtain ⟨v, pat, lo, hi, n, save, a, _, h1, h2, h3, h4, h5, _, h7, h8, p, hp, hnp⟩ := C10_scan_complete_needs_SecWF
  exact hnp (h v pat lo hi ⟨h1, h2, h3, h4, h5⟩ n save a h7 h8 p hp)

/-! ## the performance counter `hits` and the progress of `range.start` -/

/-- **One returning call of `next`, ANY interpreter, any prefix list, any image** (file or mapped,
any section table), any `Matches` state and save array — no hypothesis besides "the call returns"
(a panic of the checked `u32` range arithmetic is a non-`ok` result; `C10_next_sound` shows when none
occurs).  `range.end` is untouched; `range.start` never decreases and never passes
`max range.start range.end`; `hits` never decreases and grows by at most the number of positions
`range.start` advanced; a reported position lies in `[range.start before, range.start after)` and
cost at least one interpreter call. -/
theorem C10_hits_bounded_with (ex : Interp) (v : Pe.View) (qs : List Nat) (m : MSt) (s : Array Nat) (r : Res)
    (h : nextWith ex v qs m s = .ok r) :
    r.m.stop = m.stop ∧ m.start ≤ r.m.start ∧ r.m.start ≤ max m.start m.stop ∧
    m.hits ≤ r.m.hits ∧ r.m.hits ≤ m.hits + (r.m.start - m.start) ∧
    (r.found = true → m.start ≤ r.pos ∧ r.pos < r.m.start ∧ m.hits + 1 ≤ r.m.hits) := by
  have A := nextWith_hits v qs m s r h
  have := A.hits_le; have := A.start_le
  exact ⟨A.stop_eq, A.start_le, A.start_bound, A.hits_ge, by omega, A.found⟩

/-- **`hits` is bounded by the progress of `range.start`** — `Matches::next` itself, every image,
every atom list, no hypothesis besides "the call returns" -/
theorem C10_hits_bounded (v : Pe.View) (pat : List Atom) (m : MSt) (s : Array Nat) (r : Res)
    (h : next v pat m s = .ok r) : m.start ≤ r.m.start ∧ r.m.hits ≤ m.hits + (r.m.start - m.start) := by
  obtain ⟨_, h2, _, _, h5, _⟩ := C10_hits_bounded_with (interp v pat) v (setup pat) m s r h
  exact ⟨h2, h5⟩

/-- the remaining facts of `C10_hits_bounded_with` for `Matches::next` -/
theorem C10_next_advance (v : Pe.View) (pat : List Atom) (m : MSt) (s : Array Nat) (r : Res)
    (h : next v pat m s = .ok r) :
    r.m.stop = m.stop ∧ r.m.start ≤ max m.start m.stop ∧ m.hits ≤ r.m.hits ∧
    (r.found = true → m.start ≤ r.pos ∧ r.pos < r.m.start ∧ m.hits + 1 ≤ r.m.hits) := by
  obtain ⟨h1, _, h3, h4, _, h6⟩ := C10_hits_bounded_with (interp v pat) v (setup pat) m s r h
  exact ⟨h1, h3, h4, h6⟩

/-- PE32 FILE (`wSorted`, two sections, first-byte scan): the first call examines rva 0x1004 only -/
example : (next wSorted wPat (matchesInit 0 0x3000) #[0, 0]).bind (fun r => .ok (r.found, r.pos, r.m)) =
    .ok (true, 0x1004, ⟨0x1005, 0x3000, 1⟩) := by decide +kernel
/-- … the second call examines 0x1010 (`aa bb 00 dd`, rejected) in `.text` and reports 0x2008 in `.data` -/
example : (next wSorted wPat ⟨0x1005, 0x3000, 1⟩ #[0, 0]).bind (fun r => .ok (r.found, r.pos, r.m)) =
    .ok (true, 0x2008, ⟨0x2009, 0x3000, 3⟩) := by decide +kernel

/-- A PE32+ image of 352 bytes whose file layout is its memory layout (`e_lfanew = 0x40`,
`NumberOfSections = 2`, `SizeOfOptionalHeader = 112`, no data directories, `SizeOfHeaders = 0x120`,
`SizeOfImage = 0x160`, `BaseOfCode = 0x120`, `SizeOfCode = 0x20`; section table at 0xC8: `.text`
VirtualSize 0x20, VirtualAddress = PointerToRawData = 0x120, SizeOfRawData 0x20; `.data` VirtualSize
0x18, VirtualAddress = PointerToRawData = 0x140, SizeOfRawData 0x20); `aa bb 00 cc` at 0x124,
`aa bb 00 dd` at 0x130, `aa bb 11 cc` at 0x148.  The real `PeFile::from_bytes` and
`PeView::from_bytes` (pe64) both accept these bytes. -/
def h64Bytes : Bytes :=
  #[77, 90, 0, 0, 0, 0, 0, 0, 0, 0, 0, 0, 0, 0, 0, 0, 0, 0, 0, 0, 0, 0, 0, 0, 0, 0, 0, 0, 0, 0, 0, 0, 0, 0,
  0, 0, 0, 0, 0, 0, 0, 0, 0, 0, 0, 0, 0, 0, 0, 0, 0, 0, 0, 0, 0, 0, 0, 0, 0, 0, 64, 0, 0, 0, 80, 69, 0, 0,
  100, 134, 2, 0, 0, 0, 0, 95, 0, 0, 0, 0, 0, 0, 0, 0, 112, 0, 34, 32, 11, 2, 14, 0, 32, 0, 0, 0, 32, 0, 0,
  0, 0, 0, 0, 0, 32, 1, 0, 0, 32, 1, 0, 0, 0, 0, 0, 64, 1, 0, 0, 0, 32, 0, 0, 0, 32, 0, 0, 0, 6, 0, 0, 0, 0,
  0, 0, 0, 6, 0, 0, 0, 0, 0, 0, 0, 96, 1, 0, 0, 32, 1, 0, 0, 0, 0, 0, 0, 3, 0, 64, 129, 0, 0, 16, 0, 0, 0,
  0, 0, 0, 16, 0, 0, 0, 0, 0, 0, 0, 0, 16, 0, 0, 0, 0, 0, 0, 16, 0, 0, 0, 0, 0, 0, 0, 0, 0, 0, 0, 0, 0, 0,
  46, 116, 101, 120, 116, 0, 0, 0, 32, 0, 0, 0, 32, 1, 0, 0, 32, 0, 0, 0, 32, 1, 0, 0, 0, 0, 0, 0, 0, 0, 0,
  0, 0, 0, 0, 0, 32, 0, 0, 96, 46, 100, 97, 116, 97, 0, 0, 0, 24, 0, 0, 0, 64, 1, 0, 0, 32, 0, 0, 0, 64, 1,
  0, 0, 0, 0, 0, 0, 0, 0, 0, 0, 0, 0, 0, 0, 64, 0, 0, 192, 0, 0, 0, 0, 0, 0, 0, 0, 0, 0, 0, 0, 170, 187, 0,
  204, 0, 0, 0, 0, 0, 0, 0, 0, 170, 187, 0, 221, 0, 0, 0, 0, 0, 0, 0, 0, 0, 0, 0, 0, 0, 0, 0, 0, 0, 0, 0, 0,
  170, 187, 17, 204, 0, 0, 0, 0, 0, 0, 0, 0, 0, 0, 0, 0, 0, 0, 0, 0, 0, 0, 0, 0]
/-- … as a PE32+ file -/
def h64File : Pe.View := ⟨⟨h64Bytes, 0⟩, .pe64, .file, 0x140000000⟩
/-- … as a PE32+ mapped view -/
def h64View : Pe.View := ⟨⟨h64Bytes, 0⟩, .pe64, .view, 0x140000000⟩

theorem h64_from_bytes : Pe.fromBytes .pe64 .file h64File.img = .ok h64File ∧
    Pe.fromBytes .pe64 .view h64View.img = .ok h64View := by
  have h1 : Pe.validate .pe64 h64File.img = .ok 0x160 := by decide +kernel
  have h2 : Pe.imageBaseField .pe64 h64File.img.bytes = 0x140000000 := by decide +kernel
  constructor
  · simp only [Pe.fromBytes, h1, h2]; rfl
  · show Pe.fromBytes .pe64 .view h64File.img = _
    simp only [Pe.fromBytes, h1, h2]; rfl

/-- PE32+ FILE, quick search (prefix `aa bb 00 dd` of 4 bytes): one window compares equal, one interpreter call,
`range.start = cursor + jump` -/
example : (next h64File [.save 0, .byte 0xAA, .byte 0xBB, .byte 0, .byte 0xDD] (matchesInit 0 0x160) #[0]).bind
    (fun r => .ok (r.found, r.pos, r.m)) = .ok (true, 0x130, ⟨0x134, 0x160, 1⟩) := by decide +kernel
/-- PE32+ VIEW, brute force (no literal prefix) -/
example : (next h64View [.save 0, .skip 1, .byte 0xBB, .byte 0x11] (matchesInit 0x120 0x150) #[0]).bind
    (fun r => .ok (r.found, r.pos, r.m)) = .ok (true, 0x148, ⟨0x149, 0x150, 41⟩) := by decide +kernel
/-- PE32 VIEW (the bytes of `wSorted` taken as a mapped image), first-byte scan over the headers and beyond -/
example : (next { wSorted with kind := .view } wPat (matchesInit 0 0x160) #[0, 0]).bind
    (fun r => .ok (r.found, r.pos, r.m)) = .ok (true, 0x124, ⟨0x125, 0x160, 1⟩) := by decide +kernel

/-- **A whole scan** `while matches.next(&mut save) { … }` (at most `n` calls), from any state: at
the end `range.end` is what it was, `range.start` has not decreased and is at most
`max range.start range.end`; the counter grew by at least the number of reported matches and by at
most the number of positions `range.start` advanced; every reported position lies in
`[range.start at the beginning, range.start at the end)`. -/
theorem C10_scan_hits (v : Pe.View) (pat : List Atom) (n : Nat) (m : MSt) (save : Array Nat) (a : All)
    (h : scanAll (next v pat) n m save = .ok a) :
    a.m.stop = m.stop ∧ m.start ≤ a.m.start ∧ a.m.start ≤ max m.start m.stop ∧
    m.hits + a.hits.length ≤ a.m.hits ∧ a.m.hits ≤ m.hits + (a.m.start - m.start) ∧
    ∀ x ∈ a.hits, m.start ≤ x.1 ∧ x.1 < a.m.start := by
  obtain ⟨h1, h2, h3, h4, h5, h6⟩ := scanAll_hits (nx := next v pat)
    (fun m save r hr => nextWith_hits v (setup pat) m save r hr) n m save a h
  exact ⟨h1, h2, h3, h4, by omega, h6⟩

/-- **The checked `u32` increment `self.hits += 1` cannot overflow.**  Take a `Matches` object made
by `Scanner::matches(pat, lo..hi)` (`hi` a `u32`) and ANY finite sequence of returning calls of
`next` on it, each with a save array of the caller's choice (`Reach`).  In the state it is left in:
`range.start ≤ max lo hi`, and the counter is at most the number of positions `range.start` advanced,
hence at most `hi - lo` and below `2^32`.  (The counter only grows during a search — the loop lemmas
`Lemmas/Scan.lean:strat{0,1,2}Loop_hits` hold from every intermediate loop state — so every value it
takes during a returning call is bounded by the value at the end of that call.) -/
theorem C10_hits_no_overflow (v : Pe.View) (pat : List Atom) (lo hi : Nat) (hhi : hi < 4294967296) (m : MSt)
    (h : Reach (next v pat) (matchesInit lo hi) m) :
    m.stop = hi ∧ lo ≤ m.start ∧ m.start ≤ max lo hi ∧ m.hits ≤ m.start - lo ∧ m.hits ≤ hi - lo ∧
    m.hits < 4294967296 := by
  obtain ⟨h1, h2, h3, _, h5⟩ := Reach_hits (nx := next v pat)
    (fun m save r hr => nextWith_hits v (setup pat) m save r hr) h
  simp only [matchesInit] at h1 h2 h3 h5
  exact ⟨h1, h2, h3, by omega, by omega, by omega⟩

/-- the same for `Scanner::matches_code` (`headers().code_range()`: its end is a `u32`,
`C10_matches_code_range`), no hypothesis at all -/
theorem C10_hits_no_overflow_code (v : Pe.View) (pat : List Atom) (m : MSt)
    (h : Reach (next v pat) (matchesCodeInit v) m) :
    m.stop = (matchesCodeInit v).stop ∧ (matchesCodeInit v).start ≤ m.start ∧
    m.hits ≤ m.start - (matchesCodeInit v).start ∧ m.hits ≤ (matchesCodeInit v).stop - (matchesCodeInit v).start ∧
    m.hits < 4294967296 := by
  obtain ⟨h0, h1⟩ := C10_matches_code_range v
  rw [h0] at h
  obtain ⟨a1, a2, _, a4, a5, a6⟩ := C10_hits_no_overflow v pat _ _ (by rw [h0] at h1; exact h1) m h
  rw [h0]
  exact ⟨a1, a2, a4, a5, a6⟩

/-- the scan loop is such a sequence: `C10_hits_no_overflow` applies to the final state of `scanAll` -/
theorem C10_scan_hits_no_overflow (v : Pe.View) (pat : List Atom) (lo hi : Nat) (hhi : hi < 4294967296)
    (n : Nat) (save : Array Nat) (a : All) (h : scanAll (next v pat) n (matchesInit lo hi) save = .ok a) :
    a.hits.length ≤ a.m.hits ∧ a.m.hits ≤ a.m.start - lo ∧ a.m.start ≤ max lo hi ∧ a.m.hits ≤ hi - lo ∧
    a.m.hits < 4294967296 := by
  obtain ⟨_, _, h3, h4, h5, h6⟩ := C10_hits_no_overflow v pat lo hi hhi a.m (scanAll_reach n _ _ save a Reach.refl h)
  obtain ⟨_, _, _, g4, _, _⟩ := C10_scan_hits v pat n _ save a h
  simp only [matchesInit] at g4
  exact ⟨by omega, h4, h3, h5, h6⟩

/-- the bound `hits ≤ hi - lo` is attained: PE32+ view, brute force over `0x120..0x150` — 48 positions, 48 interpreter calls -/
example : (scanAll (next h64View [.save 0, .skip 1, .byte 0xBB, .byte 0x11]) 9 (matchesInit 0x120 0x150) #[0]).bind
    (fun a => .ok (a.hits.map (·.1), a.m, a.exhausted)) = .ok ([0x148], ⟨0x150, 0x150, 48⟩, true) := by decide +kernel
/-- PE32+ file, first-byte scan across both sections: 2 matches, 3 interpreter calls, `range.start` ends at the end of the last raw-data slice -/
example : (scanAll (next h64File wPat) 9 (matchesInit 0 0x160) #[0, 0]).bind
    (fun a => .ok (a.hits.map (·.1), a.m, a.exhausted)) = .ok ([0x124, 0x148], ⟨0x160, 0x160, 3⟩, true) := by decide +kernel
/-- PE32 file: see the `scanAll (next wSorted wPat) …` example above (2 matches, `hits = 3`, `range = 0x2020..0x3000`);
over `matches_code` of the PE32+ file (`0x120..0x140`), quick search -/
example : (scanAll (next h64File [.save 0, .byte 0xAA, .byte 0xBB, .byte 0, .byte 0xDD]) 9 (matchesCodeInit h64File) #[0]).bind
    (fun a => .ok (a.hits.map (·.1), a.m, a.exhausted)) = .ok ([0x130], ⟨0x140, 0x140, 1⟩, true) := by decide +kernel

end Pelite.Scan
