import PeliteModel.Lemmas.PatternParse
import PeliteModel.Lemmas.PatternSem
/-!
C11 (semantic half) — "pattern strings mean what the syntax documentation says".

Reference side (`Spec/PatternSem.lean`, written from the documentation of `pattern::parse`, the `Atom`
docs and the proc-macro docs): the syntax tree `Item` / `Pat`, the printer `render sty p` (every spelling
of a pattern string: white space is part of the tree, hex / alignment letter case is the `Style`), the
side conditions `WF p`, the denotational semantics `denote S p c : Option (cursor' × captures)` and the
reference compiler `compile p : List Atom`.

Implementation side: `Pattern.parse` (model of `pattern::parse`, Model/Pattern.lean) and `Exec.run`
(model of `Scanner::exec` → `Exec::exec` / `exec_many`, Model/Exec.lean) over the abstract image
interface `ScanI` (`ofView`: `impl Scan for P: Pe`, both formats, file and mapped; `ofRaw`: `&[u8]`).

* **T1** `C11_parse_render` — `parse (render sty p) = ok (compile p)` for EVERY well-formed tree.
* **T2** `C11_exec_compile_partial` — `run S (compile p) c save₀ = ok (⟦p⟧ S c ≠ none, save)` and `save`
  holds every specified capture, for every well-formed tree IN THE FRAGMENT `InFragment p`, every
  well-behaved coherent image interface (hence PE32 / PE32+, file / view), every cursor, every save array.
  Outside the fragment the statement is FALSE of the implementation: `C11_deviation_*`.
* **T3** `C11_pattern_string_semantics_partial` — the two composed; `C11_save_len_covers_written` — the
  advertised `save_len` covers every slot the pattern writes (no fragment restriction).

Continued in `Thm/C11Frame.lean`: the frame lemma of the interpreter (`C11_exec_writes_only_named_slots`, hence
`C11_save_len_covers_every_written_slot` for every pattern string that parses — on the implementation side,
not only for the documented captures), the bridge from parser output to the hypotheses of the C10 theorems, and
sanity lemmas about which image bytes the reference semantics constrains.
-/
namespace Pelite.PatSem
open Pelite.Pattern Pelite.Exec

/-! ## T1 — the parser implements the documented syntax -/

/-- **T1.** For every well-formed pattern tree — any nesting depth, every operator, any white space between
tokens, either letter case — parsing its pattern string yields exactly the reference compiler's atoms:
skips coalesced (but never into the alternative before a `)`), `Push`/jump pairs for braces, the
`Case n … Break m … Nop …` layout for alternatives, `Rangext` for operands ≥ 256, one save slot per
`'`/`i`/`u`/`z` in order of appearance with alternatives sharing numbers, redundant trailing atoms trimmed.
`WF p`: operands in range (`b < 256`, bounds `< 16384`, `a < b`, `@n` with `n < 36`, read sizes 1/2/4),
quoted text free of `"`, white space ∈ {SP, TAB, LF, CR}, at least one alternative per `( )`, brace
nesting ≤ 255, at most 254 slots besides slot 0, and every `Case`/`Break` offset `< 256`. -/
theorem C11_parse_render (sty : Style) (p : Pat) (h : WF p = true) :
    parse (render sty p) = .ok (compile p) :=
  parse_render sty p h

/-- the same tree in two spellings (lower / upper case) parses to the same atoms -/
theorem C11_parse_case_insensitive (p : Pat) (h : WF p = true) : parse (showPat p) = parse (showPatUpper p) := by
  rw [parse_showPat p h, parse_showPatUpper p h]

/-- white space carries no meaning: neither the compiler nor the semantics sees a `ws` item … -/
theorem C11_ws_compile (k : Nat) (pend : Option Nat) (s : List UInt8) (r : List Item) :
    comp k pend (.ws s :: r) = comp k pend r := by rw [comp]

/-- … so the string with the white space item and the one without mean the same -/
theorem C11_ws_sem (S : ScanI) (k : Nat) (s : List UInt8) (r : List Item) (c : Nat) :
    sem S k (.ws s :: r) c = sem S k r c := by
  rw [sem_cons S k _ r c (by intro a b h; cases h)]
  simp [semItem, slotsItem, thenRes_nil]

/-! ## T2 — the interpreter implements the documented semantics (on the fragment) -/

/-- **T2 (`_partial`: restricted to `InFragment p`).**  Running the reference compiler's output at cursor
`c` returns normally (no panic / UB / divergence), answers `true` exactly when the documented semantics
matches, and then the save array holds — in the slots the caller's array has — the match position in
slot 0 and every bookmarked cursor and sign- or zero-extended read value the documentation specifies;
its length is unchanged.  `S.WF` and `Coherent S` hold for every image below 4 GiB
(`C11_interfaces`); the pointer width is `S.fmt` (arbitrary).

`InFragment p` (decidable, `Spec/PatternSem.lean`) = `scopeOK true p` ∧ "no `Many` among the trimmed atoms":
every `[a-b]` stands in a sequence that ends where its frame ends — a brace body, a non-last alternative,
the whole pattern, or a last alternative behind whose `)` nothing but white space / `[0]` / `""` follows
(transitively up to such a frame) — and no `[a-b]` is trimmed from the end of the pattern.
What is missing for an unconditional T2: exactly the two deviations below. -/
theorem C11_exec_compile_partial {S : ScanI} (hS : S.WF) (hC : Coherent S) (p : Pat) (hwf : WF p = true)
    (hfr : InFragment p = true) (c : Nat) (hc : c < 4294967296) (save0 : Array Nat) :
    ∃ save, run S (compile p) c save0 = .ok ((denote S p c).isSome, save) ∧ save.size = save0.size ∧
      ∀ c' w, denote S p c = some (c', w) → ∀ s v, (s, v) ∈ w → s < save0.size → save[s]? = some v :=
  run_compile hS hC p hwf hfr c hc save0

/-- Before trimming T2 needs only the first half of the fragment condition (`scopeOK true p`): the untrimmed
code implements the documented semantics also for a trailing `[a-b]`. -/
theorem C11_exec_compileRaw_partial {S : ScanI} (hS : S.WF) (hC : Coherent S) (p : Pat) (hwf : WF p = true)
    (hcl : scopeOK true p = true) (c : Nat) (hc : c < 4294967296) (save0 : Array Nat) :
    ∃ save, run S (compileRaw p) c save0 = .ok ((denote S p c).isSome, save) ∧ save.size = save0.size ∧
      ∀ c' w, denote S p c = some (c', w) → ∀ s v, (s, v) ∈ w → s < save0.size → save[s]? = some v :=
  run_compileRaw hS hC p hwf hcl c hc save0

/-- every specified slot is written at most once by a successful match, so "`(s, v) ∈ w`" above is the
same as "`w.get s = some v`": the slots of a match lie in `[1, slotsItems 1 p)` plus slot 0 -/
theorem C11_captures_in_range (S : ScanI) (p : Pat) (c c' : Nat) (w : Caps) (h : denote S p c = some (c', w)) :
    ∀ s v, (s, v) ∈ w → s < slotsItems 1 p := by
  simp only [denote, Option.map_eq_some_iff] at h
  obtain ⟨⟨c1, w1⟩, hs, he⟩ := h
  simp only [Prod.mk.injEq] at he
  obtain ⟨_, rfl⟩ := he
  intro s v hm
  rcases List.mem_append.1 hm with h1 | h1
  · exact (sem_slots S 1 p c c1 w1 hs s v h1).2
  · simp only [List.mem_singleton, Prod.mk.injEq] at h1
    have := slotsItems_le 1 p
    omega

/-- the image interfaces the scanner is instantiated with satisfy the hypotheses of T2: raw buffers,
mapped images (`PeView`) and file images (`PeFile`) whose sections' virtual extents do not overlap
(`secsDisjointB`, decidable; what the driver reports as part of `hyp`) —
for both `Fmt.pe32` and `Fmt.pe64` (the format is a field of the view). -/
theorem C11_interfaces :
    (∀ (f : Pe.Fmt) (b : Bytes), b.size < 4294967296 → (ofRaw f b).WF ∧ Coherent (ofRaw f b)) ∧
    (∀ v : Pe.View, v.kind = .view → v.b.size < 4294967296 → (ofView v).WF ∧ Coherent (ofView v)) ∧
    (∀ v : Pe.View, v.kind = .file → v.b.size < 4294967296 → secsDisjointB v.secs = true →
      (ofView v).WF ∧ Coherent (ofView v)) :=
  ⟨fun f b hb => ⟨ofRaw_wf f b hb, coherent_ofRaw f b hb⟩,
   fun v hk hsz => ⟨ofView_wf v hsz, coherent_ofView_view v hk hsz⟩,
   fun v hk hsz hd => ⟨ofView_wf v hsz, coherent_ofView_file v hk (secsDisjoint_of_check _ hd)⟩⟩

/-- the `memchr` peek shortcut of `exec_many` is sound on every coherent interface: when the first `Byte`
behind the `Save`s at `pc` differs from the byte under the cursor, the attempt the shortcut skips would
have failed (this is the lemma the `[a-b]` case of T2 rests on) -/
theorem C11_peek_shortcut {S : ScanI} (hS : S.WF) {U : List Atom} (hB : ∀ b, Atom.byte b ∈ U → b < 256)
    {b c : Nat} (hne : S.read 1 c ≠ some b) (pc : Nat) (sv : Array Nat) (hpk : peekByte (U.drop pc) = some b) :
    (execT S U ⟨pc, c, sv⟩ 0xff 0).1 = false :=
  peek_fail hS hB hne _ pc sv rfl hpk

/-! ## T3 — pattern strings -/

/-- **the advertised save length covers every slot the pattern writes** — for every well-formed tree
(no fragment restriction), every image, every cursor: a slot written by a documented match is below
`save_len` of the parsed pattern. -/
theorem C11_save_len_covers_written (sty : Style) (p : Pat) (hwf : WF p = true) (atoms : List Atom)
    (hp : parse (render sty p) = .ok atoms) (S : ScanI) (c c' : Nat) (w : Caps)
    (h : denote S p c = some (c', w)) : ∀ s v, (s, v) ∈ w → s + 1 ≤ saveLen atoms := by
  rw [parse_render sty p hwf] at hp
  cases hp
  intro s v hm
  have h1 := C11_captures_in_range S p c c' w h s v hm
  have h2 := saveLen_compile_ge p
  omega

/-- **T3 (`_partial`: restricted to `InFragment p`).**  For every well-formed pattern tree of the fragment and
every spelling `render sty p` of its pattern string: the string parses, and executing the parsed pattern
at `c` accepts exactly when the documented semantics does; on success every specified slot holds the
documented capture (slot 0 = the match position) and lies below the advertised save length. -/
theorem C11_pattern_string_semantics_partial (sty : Style) (p : Pat) (hwf : WF p = true) (hfr : InFragment p = true)
    {S : ScanI} (hS : S.WF) (hC : Coherent S) (c : Nat) (hc : c < 4294967296) (save0 : Array Nat) :
    ∃ atoms save, parse (render sty p) = .ok atoms ∧
      run S atoms c save0 = .ok ((denote S p c).isSome, save) ∧ save.size = save0.size ∧
      ∀ c' w, denote S p c = some (c', w) → ∀ s v, (s, v) ∈ w →
        (s < save0.size → save[s]? = some v) ∧ s + 1 ≤ saveLen atoms := by
  obtain ⟨save, h1, h2, h3⟩ := run_compile hS hC p hwf hfr c hc save0
  refine ⟨compile p, save, parse_render sty p hwf, h1, h2, ?_⟩
  intro c' w hd s v hm
  exact ⟨h3 c' w hd s v hm, C11_save_len_covers_written sty p hwf _ (parse_render sty p hwf) S c c' w hd s v hm⟩

/-- in particular slot 0 is the match position -/
theorem C11_slot0_is_match_position (S : ScanI) (p : Pat) (c c' : Nat) (w : Caps)
    (h : denote S p c = some (c', w)) : (0, c) ∈ w := by
  simp only [denote, Option.map_eq_some_iff] at h
  obtain ⟨⟨c1, w1⟩, _, he⟩ := h
  simp only [Prod.mk.injEq] at he
  obtain ⟨_, rfl⟩ := he
  simp

/-! ## Deviations of the implementation from the documented semantics

Both are replayable on the real code (`pat_sem` op lines in the report / `vlib/gen_patsem.py`
`gen_deviation_witnesses`). -/

/-- `(aa|[0-3]bb)cc` -/
def devLastAlt : Pat := [.alt [[.byte 0xaa], [.range 0 3, .byte 0xbb]], .byte 0xcc]
/-- `([0-3]bb|aa)cc` : the same alternatives in the other order -/
def devFirstAlt : Pat := [.alt [[.range 0 3, .byte 0xbb], [.byte 0xaa]], .byte 0xcc]
/-- `aa[0-5]` -/
def devTrailing : Pat := [.byte 0xaa, .range 0 5]
/-- `aa[0-5]'` -/
def devTrailingSave : Pat := [.byte 0xaa, .range 0 5, .save]

/-- **Deviation 1: the last alternative is not a scope.**  On the bytes `bb bb cc` the documented semantics
of `(aa|[0-3]bb)cc` is "no match": the second alternative matches with skip 0 (non greedy, first
match), the choice is final, and `cc` does not follow.  The implementation answers `true`: `Nop, Aₙ…`
runs inline, so `exec_many` retries the skip over everything up to the end of the enclosing group.
With the alternatives swapped (`([0-3]bb|aa)cc`) it answers `false`, as documented. -/
theorem C11_deviation_last_alternative :
    WF devLastAlt = true ∧ InFragment devLastAlt = false ∧
    denote (ofRaw .pe32 #[0xbb, 0xbb, 0xcc]) devLastAlt 0 = none ∧
    run (ofRaw .pe32 #[0xbb, 0xbb, 0xcc]) (compile devLastAlt) 0 #[0] = .ok (true, #[0]) ∧
    parse (showPat devLastAlt) = .ok (compile devLastAlt) ∧
    -- the mirrored pattern behaves as documented
    denote (ofRaw .pe32 #[0xbb, 0xbb, 0xcc]) devFirstAlt 0 = none ∧
    run (ofRaw .pe32 #[0xbb, 0xbb, 0xcc]) (compile devFirstAlt) 0 #[0] = .ok (false, #[0]) := by
  decide +kernel

/-- **Deviation 2: a trailing `[a-b]` is trimmed.**  `aa[0-5]` at the last byte of the buffer: the
implementation answers `true` (the parser dropped the `Many`), while `aa[0-5]'` at the same place answers
`false` (`exec_many` finds no candidate position in the empty slice) — the reference semantics follows
the untrimmed behaviour in both cases. -/
theorem C11_deviation_trailing_range :
    WF devTrailing = true ∧ InFragment devTrailing = false ∧
    denote (ofRaw .pe32 #[0x00, 0xaa]) devTrailing 1 = none ∧
    run (ofRaw .pe32 #[0x00, 0xaa]) (compile devTrailing) 1 #[0] = .ok (true, #[1]) ∧
    parse (showPat devTrailing) = .ok (compile devTrailing) ∧
    InFragment devTrailingSave = true ∧
    denote (ofRaw .pe32 #[0x00, 0xaa]) devTrailingSave 1 = none ∧
    run (ofRaw .pe32 #[0x00, 0xaa]) (compile devTrailingSave) 1 #[0, 0] = .ok (false, #[1, 0]) := by
  decide +kernel

/-- consequently T2 without `InFragment` is false -/
theorem C11_exec_compile_unrestricted_false :
    ¬ ∀ (S : ScanI), S.WF → Coherent S → ∀ (p : Pat), WF p = true → ∀ (c : Nat), c < 4294967296 → ∀ (save0 : Array Nat),
      ∃ save, run S (compile p) c save0 = .ok ((denote S p c).isSome, save) := by
  intro h
  obtain ⟨save, hs⟩ := h (ofRaw .pe32 #[0xbb, 0xbb, 0xcc]) (ofRaw_wf _ _ (by decide)) (coherent_ofRaw _ _ (by decide))
    devLastAlt (by decide +kernel) 0 (by decide) #[0]
  have h1 := C11_deviation_last_alternative.2.2.2.1
  have h2 := C11_deviation_last_alternative.2.2.1
  rw [h1, h2] at hs
  cases hs

/-! ## Readings of the documentation, pinned down on concrete inputs

Not deviations: places where the documentation is silent or ambiguous and the reference semantics takes
the reading the implementation has (all covered by T2). -/

/-- `[a-b]`: the upper bound is EXCLUSIVE ("lower and upper bound of number of bytes to skip" could be read
inclusively): `aa[0-2]bb` does not accept a skip of 2, `aa[0-3]bb` does — in the reference semantics and
in the implementation alike. -/
theorem C11_reading_upper_bound_exclusive :
    denote (ofRaw .pe32 #[0xaa, 0, 0, 0xbb]) [.byte 0xaa, .range 0 2, .byte 0xbb] 0 = none ∧
    run (ofRaw .pe32 #[0xaa, 0, 0, 0xbb]) (compile [.byte 0xaa, .range 0 2, .byte 0xbb]) 0 #[0] = .ok (false, #[0]) ∧
    denote (ofRaw .pe32 #[0xaa, 0, 0, 0xbb]) [.byte 0xaa, .range 0 3, .byte 0xbb] 0 = some (4, [(0, 0)]) ∧
    run (ofRaw .pe32 #[0xaa, 0, 0, 0xbb]) (compile [.byte 0xaa, .range 0 3, .byte 0xbb]) 0 #[0] = .ok (true, #[0]) := by
  decide +kernel

/-- wildcards and fixed skips only move the cursor — the skipped bytes need not exist: `aa??'` matches at
the last byte of the buffer and bookmarks a position beyond it; `@n` with `n ≥ 32` is ignored. -/
theorem C11_reading_wildcards_do_not_read :
    denote (ofRaw .pe32 #[0, 0xaa]) [.byte 0xaa, .any, .any, .save, .aligned 35] 1 = some (4, [(1, 4), (0, 1)]) ∧
    run (ofRaw .pe32 #[0, 0xaa]) (compile [.byte 0xaa, .any, .any, .save, .aligned 35]) 1 #[0, 0] = .ok (true, #[1, 4]) := by
  decide +kernel

/-! ## Non-vacuity -/

/-- `e8 ${ ' ( 6a ? | 68 [2-4] c3 ' ) } u1 * "ok" [300] @2 i2` — groups, alternatives with different slot
counts, a range inside a non-last alternative, reads, alignment: in the fragment -/
def exTree : Pat :=
  [.byte 0xe8, .ws [32], .group .j4 [32] [.ws [32], .save, .alt [[.byte 0x6a, .any], [.byte 0x68, .range 2 4, .byte 0xc3, .save], []]],
   .ws [32], .readU 1, .jump .ptr, .str [111, 107], .skip 300, .aligned 2, .readI 2]

example : WF exTree = true ∧ InFragment exTree = true := by decide +kernel

/-- a `[a-b]` directly inside a LAST alternative is inside the fragment when nothing follows the `)`:
`e8 ${ ( aa | [0-3] bb ' ) } cc` -/
example : InFragment [.byte 0xe8, .group .j4 [] [.alt [[.byte 0xaa], [.range 0 3, .byte 0xbb, .save]], .ws [32]], .byte 0xcc] = true := by
  decide +kernel

example : (ofRaw .pe64 #[1, 2, 3]).WF ∧ Coherent (ofRaw .pe64 #[1, 2, 3]) :=
  C11_interfaces.1 _ _ (by decide)

/-- a matching layout for a smaller tree, evaluated by the kernel on both sides:
`e8 ${ ' aa } u1` on `e8 02000000 99 ff aa` captures the call target 7 and the byte 0x99 -/
example :
    denote (ofRaw .pe64 #[0xe8, 2, 0, 0, 0, 0x99, 0xff, 0xaa])
      [.byte 0xe8, .group .j4 [] [.save, .byte 0xaa], .readU 1] 0 = some (6, [(2, 0x99), (1, 7), (0, 0)]) ∧
    run (ofRaw .pe64 #[0xe8, 2, 0, 0, 0, 0x99, 0xff, 0xaa])
      (compile [.byte 0xe8, .group .j4 [] [.save, .byte 0xaa], .readU 1]) 0 #[0, 0, 0, 0] = .ok (true, #[0, 7, 0x99, 0]) := by
  decide +kernel

end Pelite.PatSem
