import PeliteModel.Spec.PatternSem
import PeliteModel.Model.Pattern
/-! C11 (semantic half) — property theorems.  (Under construction: see Lemmas/PatternSem.lean.) -/
namespace Pelite.PatSem
open Pelite.Pattern Pelite.Exec

/-- placeholder while the proofs are being assembled: the reference compiler reproduces the parser on
the documentation's alternatives example -/
theorem C11_doc_example_alt :
    parse (showPat [.byte 0x83, .alt [[.byte 0x6a, .any], [.byte 0x68, .any, .any, .any, .any]], .byte 0xe8]) =
      .ok (compile [.byte 0x83, .alt [[.byte 0x6a, .any], [.byte 0x68, .any, .any, .any, .any]], .byte 0xe8]) := by
  decide +kernel

end Pelite.PatSem
