import PeliteModel.Thm.C11Impl
import PeliteModel.Lemmas.PatternSemDoc
import PeliteModel.Spec.ScanHypEquiv
/-!
C11 — the DOCUMENTED upper bound of `[a-b]` (a genuine deviation of the implementation, recorded as a known
finding; `Thm/C11.lean:C11_reading_upper_bound_exclusive` had filed it under "readings").

The `parse` documentation: "Pairs of decimal numbers separated by a hypen in square brackets indicate the lower
and upper bound of number of bytes to skip" (the syntax "takes inspiration from YARA hexadecimal strings", where
`[4-6]` stands for 4, 5 or 6 bytes).  `Spec/PatternSemDoc.lean` states that meaning: `denoteDoc` is `denoteImpl`
with `b` itself a legal number of skipped bytes.  The implementation tries the skips `a … b-1` only
(`Skip(a), Many(b-a)`; `exec_many` looks at `&bytes[..min(limit, len)]`).

* `C11_doc_upper_bound_differs` — kernel-checked witness: the documented example shape `50 [1-3] ff` on
  `50 00 00 00 ff` (exactly `b = 3` skipped bytes): `denoteDoc` matches, `denoteImpl`, `denote` and the interpreter
  on the parsed string do not.  The real scanner answers the same on f32 / v32 / f64 / v64 images (`pat_sem`; replay `.work/c11/doc_upper_bound.txt`,
  generator `gen_patsem.gen_doc_upper_bound`, `known-findings.txt`).
* `C11_doc_eq_impl_bumped` — `denoteDoc S p = denoteImpl S (bumpRanges p)`: the documented meaning of a pattern is
  the implemented meaning of the pattern with every `[a-b]` rewritten to `[a-(b+1)]`; hence
  (`C11_doc_meaning_of_bumped_string`) the interpreter DOES compute the documented meaning of `p` when it is
  handed the string of `bumpRanges p`.
* `C11_doc_eq_impl_without_ranges` — patterns without `[a-b]` mean the same in both.
* `C11_doc_range_extra_candidate`, `C11_doc_eq_impl_when_no_b_skip` — at a `[a-b]` the documented semantics is the
  implemented one plus ONE more candidate, tried last: exactly `b` skipped bytes; the two agree whenever that
  candidate lies outside the slice, fails, or an earlier candidate succeeds.
-/
namespace Pelite.PatSem
open Pelite.Pattern Pelite.Exec

/-! ## the witness -/

/-- `50 [1-3] ff` -/
def docWitness : Pat := [.byte 0x50, .ws [32], .range 1 3, .ws [32], .byte 0xff]

/-- **The documented upper bound is never tried.**  The pattern string `50 [1-3] ff` (the shape of the
documentation's own example `50 [13-42] ff`) belongs to the documented grammar, is well formed and parses to
`Save(0), Byte(50), Skip(1), Many(2), Byte(ff)`.  On the layout `50 00 00 00 ff` — `ff` after exactly the
documented upper bound of 3 skipped bytes — the documented semantics matches; the implemented semantics
(`denoteImpl`, and `denote`) and the interpreter on the parsed atoms do not.  With 2 skipped bytes (`50 00 00 ff`)
and with the lower bound (`50 00 ff`) all of them match. -/
theorem C11_doc_upper_bound_differs :
    showPat docWitness = "50 [1-3] ff".toUTF8.toList ∧ (readPat "50 [1-3] ff".toUTF8.toList).isSome = true ∧
    WF docWitness = true ∧
    parse "50 [1-3] ff".toUTF8.toList = .ok [.save 0, .byte 0x50, .skip 1, .many 2, .byte 0xff] ∧
    compile docWitness = [.save 0, .byte 0x50, .skip 1, .many 2, .byte 0xff] ∧
    -- exactly b = 3 skipped bytes
    denoteDoc (ofRaw .pe32 #[0x50, 0, 0, 0, 0xff]) docWitness 0 = some (5, [(0, 0)]) ∧
    denoteImpl (ofRaw .pe32 #[0x50, 0, 0, 0, 0xff]) docWitness 0 = none ∧
    denote (ofRaw .pe32 #[0x50, 0, 0, 0, 0xff]) docWitness 0 = none ∧
    run (ofRaw .pe32 #[0x50, 0, 0, 0, 0xff]) [.save 0, .byte 0x50, .skip 1, .many 2, .byte 0xff] 0 #[7] = .ok (false, #[0]) ∧
    -- b - 1 = 2 skipped bytes
    denoteDoc (ofRaw .pe32 #[0x50, 0, 0, 0xff]) docWitness 0 = some (4, [(0, 0)]) ∧
    denoteImpl (ofRaw .pe32 #[0x50, 0, 0, 0xff]) docWitness 0 = some (4, [(0, 0)]) ∧
    run (ofRaw .pe32 #[0x50, 0, 0, 0xff]) [.save 0, .byte 0x50, .skip 1, .many 2, .byte 0xff] 0 #[7] = .ok (true, #[0]) ∧
    -- the lower bound a = 1
    denoteDoc (ofRaw .pe32 #[0x50, 0, 0xff]) docWitness 0 = some (3, [(0, 0)]) ∧
    denoteImpl (ofRaw .pe32 #[0x50, 0, 0xff]) docWitness 0 = some (3, [(0, 0)]) ∧
    run (ofRaw .pe32 #[0x50, 0, 0xff]) [.save 0, .byte 0x50, .skip 1, .many 2, .byte 0xff] 0 #[7] = .ok (true, #[0]) :=
  ⟨by decide +kernel, by decide +kernel, by decide +kernel, by decide +kernel, by decide +kernel,
   by decide +kernel, by decide +kernel, by decide +kernel, by decide +kernel, by decide +kernel,
   by decide +kernel, by decide +kernel, by decide +kernel, by decide +kernel, by decide +kernel⟩

/-- the same on PE32+ pointer width, with a bookmark behind the skip (the captures differ, too), and one byte
beyond the documented bound (4 skipped bytes: no semantics matches) -/
theorem C11_doc_upper_bound_differs_64 :
    denoteDoc (ofRaw .pe64 #[0x50, 9, 9, 9, 0xff]) [.byte 0x50, .range 1 3, .save, .byte 0xff] 0 = some (5, [(1, 4), (0, 0)]) ∧
    denoteImpl (ofRaw .pe64 #[0x50, 9, 9, 9, 0xff]) [.byte 0x50, .range 1 3, .save, .byte 0xff] 0 = none ∧
    run (ofRaw .pe64 #[0x50, 9, 9, 9, 0xff]) (compile [.byte 0x50, .range 1 3, .save, .byte 0xff]) 0 #[7, 7] = .ok (false, #[0, 7]) ∧
    denoteDoc (ofRaw .pe64 #[0x50, 9, 9, 9, 9, 0xff]) [.byte 0x50, .range 1 3, .save, .byte 0xff] 0 = none ∧
    denoteImpl (ofRaw .pe64 #[0x50, 9, 9, 9, 9, 0xff]) [.byte 0x50, .range 1 3, .save, .byte 0xff] 0 = none := by
  decide +kernel

/-! ## the documented meaning in terms of the implemented one -/

/-- **`denoteDoc` is `denoteImpl` of the bumped tree**: same verdict, same final cursor, same captures, on every
image and at every cursor, for EVERY tree (no well-formedness needed).  `bumpRanges` rewrites every `[a-b]`, at
any depth, to `[a-(b+1)]` and changes nothing else. -/
theorem C11_doc_eq_impl_bumped (S : ScanI) (p : Pat) (c : Nat) :
    denoteDoc S p c = denoteImpl S (bumpRanges p) c :=
  denoteDoc_eq_denoteImpl_bump S p c

example : bumpRanges docWitness = [.byte 0x50, .ws [32], .range 1 4, .ws [32], .byte 0xff] := by
  simp [bumpRanges, docWitness]

/-- nested: the `[a-b]` inside a brace body and inside alternatives are rewritten, too -/
example : bumpRanges [.byte 0xe8, .group .j4 [] [.alt [[.range 0 4, .byte 1], [.byte 2]], .range 2 3], .any]
    = [.byte 0xe8, .group .j4 [] [.alt [[.range 0 5, .byte 1], [.byte 2]], .range 2 4], .any] := by
  simp [bumpRanges, bumpAlts]

/-- **patterns without `[a-b]` mean what the documentation says, upper bounds or not**: the two semantics are the
same function on them -/
theorem C11_doc_eq_impl_without_ranges (S : ScanI) (p : Pat) (h : hasRange p = false) (c : Nat) :
    denoteDoc S p c = denoteImpl S p c := by
  rw [C11_doc_eq_impl_bumped, bump_noRange p h]

/-- the hypothesis holds e.g. for the documentation's example with alternatives, a brace group, reads … -/
example : hasRange [.byte 0x83, .byte 0xc0, .byte 0x2a, .alt [[.byte 0x6a, .any], [.byte 0x68, .any, .any, .any, .any]],
    .byte 0xe8, .group .j4 [] [.save, .skip 16, .readU 4], .aligned 4] = false := by
  simp [hasRange, hasRangeAlts]

example : hasRange docWitness = true ∧ hasRange exTree = true := by
  simp [hasRange, hasRangeAlts, docWitness, exTree]

/-- **at a `[a-b]` the documented semantics has exactly one candidate more**, tried after all the implemented
ones: the rest of the frame at exactly `b` skipped bytes, provided that position lies in the slice the
candidates are taken from. -/
theorem C11_doc_range_extra_candidate (S : ScanI) (k a b : Nat) (r : List Item) (c : Nat) (κ : Kont) (hab : a ≤ b) :
    semD S k (.range a b :: r) c κ =
      match S.slice (addRva c a) with
      | none => none
      | some (_, len) =>
        match firstSome (fun i => semD S k r (addRva (addRva c a) i) κ) (min (b - a) len) 0 with
        | some x => some x
        | none => if b - a < len then semD S k r (addRva (addRva c a) (b - a)) κ else none := by
  rw [semD]
  cases S.slice (addRva c a) with
  | none => rfl
  | some x =>
    obtain ⟨o, len⟩ := x
    simp only
    by_cases hl : b - a < len
    · rw [if_pos hl, show min (b + 1 - a) len = (b - a) + 1 by omega, show min (b - a) len = b - a by omega,
        firstSome_addD]
      cases firstSome (fun i => semD S k r (addRva (addRva c a) i) κ) (b - a) 0 with
      | some x => rfl
      | none =>
        simp only [firstSome, Nat.zero_add]
        cases semD S k r (addRva (addRva c a) (b - a)) κ <;> rfl
    · rw [if_neg hl, show min (b + 1 - a) len = min (b - a) len by omega]
      cases firstSome (fun i => semD S k r (addRva (addRva c a) i) κ) (min (b - a) len) 0 <;> rfl

/-- **the two semantics agree at a `[a-b]` that does not need its full documented upper bound**: when they agree
on the rest of the frame and the candidate "exactly `b` skipped bytes" lies outside the slice, or fails, or an
earlier candidate succeeds.  (This is the induction step of any whole-pattern comparison; whole patterns:
`C11_doc_eq_impl_bumped`, `C11_doc_eq_impl_without_ranges`.) -/
theorem C11_doc_eq_impl_when_no_b_skip (S : ScanI) (k a b : Nat) (r : List Item) (c : Nat) (κ : Kont) (hab : a ≤ b)
    (hrest : ∀ c', semD S k r c' κ = semI S k r c' κ)
    (hno : ∀ o len, S.slice (addRva c a) = some (o, len) →
      len ≤ b - a ∨ semD S k r (addRva (addRva c a) (b - a)) κ = none ∨
      (firstSome (fun i => semI S k r (addRva (addRva c a) i) κ) (min (b - a) len) 0).isSome = true) :
    semD S k (.range a b :: r) c κ = semI S k (.range a b :: r) c κ := by
  rw [C11_doc_range_extra_candidate S k a b r c κ hab, semI]
  cases hs : S.slice (addRva c a) with
  | none => rfl
  | some x =>
    obtain ⟨o, len⟩ := x
    simp only [hrest]
    rcases hno o len hs with h | h | h
    · rw [if_neg (by omega)]
      cases firstSome (fun i => semI S k r (addRva (addRva c a) i) κ) (min (b - a) len) 0 <;> rfl
    · rw [hrest] at h
      rw [h]
      cases firstSome (fun i => semI S k r (addRva (addRva c a) i) κ) (min (b - a) len) 0 <;> simp
    · cases hf : firstSome (fun i => semI S k r (addRva (addRva c a) i) κ) (min (b - a) len) 0 with
      | some x => rfl
      | none => rw [hf] at h; cases h

/-- instance: `[1-3] ff` on `50 00 00 ff` at cursor 1 — the candidate with 2 skipped bytes succeeds, the one with 3
is not needed -/
example : semD (ofRaw .pe32 #[0x50, 0, 0, 0xff]) 1 [.range 1 3, .byte 0xff] 1 Kont.done
    = semI (ofRaw .pe32 #[0x50, 0, 0, 0xff]) 1 [.range 1 3, .byte 0xff] 1 Kont.done :=
  C11_doc_eq_impl_when_no_b_skip _ 1 1 3 _ 1 _ (by decide)
    (fun c' => by rw [semD_eq_semI_bump, bump_noRange _ (by simp [hasRange])])
    (fun o len hs => by
      have h0 : (ofRaw .pe32 #[0x50, 0, 0, 0xff]).slice (addRva 1 1) = some (2, 2) := by decide +kernel
      rw [h0] at hs
      simp only [Option.some.injEq, Prod.mk.injEq] at hs
      obtain ⟨_, rfl⟩ := hs
      exact Or.inr (Or.inr (by decide +kernel)))

/-! ## the interpreter computes the documented meaning of the bumped string -/

/-- **How to obtain the documented meaning from the implementation**: for every tree `p` whose bumped tree is
well formed (i.e. `WF p` with every upper bound `b + 1 < 16384`), the pattern STRING of `bumpRanges p` parses and
executing the parsed atoms accepts exactly when the documented semantics of `p` does, leaving every capture it
specifies.  A user who wants the documented `[a-b]` has to write `[a-(b+1)]`. -/
theorem C11_doc_meaning_of_bumped_string (sty : Style) (p : Pat) (hwf : WF (bumpRanges p) = true)
    {S : ScanI} (hS : S.WF) (hC : Coherent S) (c : Nat) (hc : c < 4294967296) (save0 : Array Nat) :
    ∃ atoms save, parse (render sty (bumpRanges p)) = .ok atoms ∧
      run S atoms c save0 = .ok ((denoteDoc S p c).isSome, save) ∧ save.size = save0.size ∧
      ∀ c' w, denoteDoc S p c = some (c', w) → ∀ s v, (s, v) ∈ w → s < save0.size → save[s]? = some v := by
  obtain ⟨save, h1, h2, h3⟩ := C11_exec_compile_impl hS hC (bumpRanges p) hwf c hc save0
  rw [← C11_doc_eq_impl_bumped] at h1 h3
  exact ⟨compile (bumpRanges p), save, C11_parse_render sty _ hwf, h1, h2, h3⟩

example : WF (bumpRanges docWitness) = true ∧ (ofRaw .pe32 #[0x50, 0, 0, 0, 0xff]).WF ∧ Coherent (ofRaw .pe32 #[0x50, 0, 0, 0, 0xff]) :=
  ⟨by decide +kernel, C11_interfaces.1 _ _ (by decide)⟩

/-- … on the witness: `50 [1-4] ff` is accepted by the interpreter on the layout the documentation promises for
`50 [1-3] ff` -/
example : run (ofRaw .pe32 #[0x50, 0, 0, 0, 0xff]) (compile (bumpRanges docWitness)) 0 #[7] = .ok (true, #[0]) := by
  decide +kernel

/-- the two semantics differ on an input exactly when bumping the upper bounds changes the IMPLEMENTED answer —
the criterion the model driver evaluates (`doc=` against `impl=`, token `docdiff=1`) -/
theorem C11_doc_upper_bound_differs_iff (S : ScanI) (p : Pat) (c : Nat) :
    denoteDoc S p c ≠ denoteImpl S p c ↔ denoteImpl S (bumpRanges p) c ≠ denoteImpl S p c := by
  rw [C11_doc_eq_impl_bumped]

/-! ## the hypotheses of the headline theorems, readable from `Spec/`

`S.WF` (`Lemmas/Exec.lean`) and `Coherent S` (`Lemmas/PatternSem.lean`) are defined in lemma files.
`Spec/ScanHyp.lean` (imports the model only) writes them out in full as `Spec.ScanIWF` / `Spec.Coherent`;
`Spec/ScanHypEquiv.lean` proves the copies equivalent and restates T2' / T2 / T3' with them
(`C11_exec_compile_impl_spec`, `C11_exec_compile_partial_spec`, `C11_pattern_string_semantics_impl_spec`,
`C11_interfaces_spec`).  Registered here so that the C11 run kernel-checks and audits them. -/

/-- the `Spec/` copies ARE the hypotheses the C11 theorems use -/
theorem C11_hypotheses_in_spec (S : ScanI) : (Spec.ScanIWF S ↔ S.WF) ∧ (Spec.Coherent S ↔ Coherent S) :=
  ⟨Spec.ScanIWF_iff S, Spec.Coherent_iff S⟩

/-- T2' with the hypotheses of `Spec/ScanHyp.lean` (audited copy of `C11_exec_compile_impl_spec`) -/
theorem C11_exec_compile_impl_spec' {S : ScanI} (hS : Spec.ScanIWF S) (hC : Spec.Coherent S) (p : Pat) (hwf : WF p = true)
    (c : Nat) (hc : c < 4294967296) (save0 : Array Nat) :
    ∃ save, run S (compile p) c save0 = .ok ((denoteImpl S p c).isSome, save) ∧ save.size = save0.size ∧
      ∀ c' w, denoteImpl S p c = some (c', w) → ∀ s v, (s, v) ∈ w → s < save0.size → save[s]? = some v :=
  C11_exec_compile_impl ((Spec.ScanIWF_iff S).1 hS) ((Spec.Coherent_iff S).1 hC) p hwf c hc save0

/-- the documented meaning through the bumped string, with the hypotheses of `Spec/ScanHyp.lean` -/
theorem C11_doc_meaning_of_bumped_string_spec (sty : Style) (p : Pat) (hwf : WF (bumpRanges p) = true)
    {S : ScanI} (hS : Spec.ScanIWF S) (hC : Spec.Coherent S) (c : Nat) (hc : c < 4294967296) (save0 : Array Nat) :
    ∃ atoms save, parse (render sty (bumpRanges p)) = .ok atoms ∧
      run S atoms c save0 = .ok ((denoteDoc S p c).isSome, save) ∧ save.size = save0.size ∧
      ∀ c' w, denoteDoc S p c = some (c', w) → ∀ s v, (s, v) ∈ w → s < save0.size → save[s]? = some v :=
  C11_doc_meaning_of_bumped_string sty p hwf ((Spec.ScanIWF_iff S).1 hS) ((Spec.Coherent_iff S).1 hC) c hc save0

example : Spec.ScanIWF (ofRaw .pe64 #[0x50, 0, 0, 0, 0xff]) ∧ Spec.Coherent (ofRaw .pe64 #[0x50, 0, 0, 0, 0xff]) :=
  ⟨(Spec.ScanIWF_iff _).2 (C11_interfaces.1 _ _ (by decide)).1, (Spec.Coherent_iff _).2 (C11_interfaces.1 _ _ (by decide)).2⟩

end Pelite.PatSem
