import PeliteModel.Lemmas.ExecFrame
import PeliteModel.Lemmas.ParseShape
import PeliteModel.Lemmas.PatternSem
import PeliteModel.Lemmas.PatternSemFootprint
import PeliteModel.Thm.C11Parse
/-!
C11 — three additions to `Thm/C11.lean` / `Thm/C11Parse.lean`, all WITHOUT the fragment restriction of T2:

* **frame** (`C11_exec_writes_only_named_slots`): an execution of ANY atom list — any nesting of
  `Push`/`Pop`, `Case`/`Break`, `Many`, on the accepting and on every failing path — changes no save
  slot other than those named by an atom of the list and never changes the length of the save array;
  hence (`C11_save_len_covers_every_written_slot`) the advertised `save_len` covers every slot the
  pattern writes, for every pattern string that parses;
* **bridge parser → scanner** (`C11_parse_atoms_scannable`): parser output satisfies the pattern
  hypotheses of the C10 completeness theorems; `C11_parse_emits`: the exact list of constructors the
  parser can emit; `C11_parse_slot0_only_first`: only the leading `Save(0)` mentions slot 0;
* **sanity of the reference semantics** for the clause "rejects a layout that differs in any byte the
  pattern constrains": exact bytes and quoted text constrain the image byte for byte, wild cards and
  fixed skips constrain nothing, a brace group continues at the byte after the jump operand;
* **the perturbation clause over the semantics T2' uses** (`denoteImpl`, section (6)): `C11_impl_footprint` — the
  verdict, final cursor and captures depend on the image only through the questions `footprint S p c` lists;
  `C11_impl_constrained_byte` / `C11_impl_rejects_differing_byte` / `C11_impl_perturbed_rejected` — every literal
  byte is compared (is in the footprint), holds on every accepted layout, and a layout that differs in it is
  rejected; `C11_impl_constrained_complete` — for straight-line patterns these are ALL literal bytes.
-/
namespace Pelite.PatSem
open Pelite.Pattern Pelite.Exec

/-! ## (1) the frame lemma -/

/-- **Frame lemma.**  If `Scanner::exec` returns on the atom list `pat` — with either verdict — the
save array it leaves has the length of the one it was given and agrees with it at every index that is
not the slot of some atom of `pat`.  For EVERY atom list (hand written ones included), every image
interface, cursor and save array. -/
theorem C11_exec_writes_only_named_slots (S : ScanI) (pat : List Atom) (c : Nat) (save save' : Array Nat)
    (b : Bool) (h : run S pat c save = .ok (b, save')) :
    save'.size = save.size ∧ ∀ i : Nat, (∀ a ∈ pat, slotOf a ≠ some i) → save'[i]? = save[i]? := by
  obtain ⟨h1, h2⟩ := run_frame S pat c save save' b h
  exact ⟨h1, fun i hi => h2 i (fun a ha hw => hi a ha (slotOf_of_wslot hw))⟩

/-- the sharp form: only `Save`, `Zero` and the `Read*` atoms write (`wslot`); the slots named by
`Pir` / `Check` are read, never written -/
theorem C11_exec_writes_only_written_slots (S : ScanI) (pat : List Atom) (c : Nat) (save save' : Array Nat)
    (b : Bool) (h : run S pat c save = .ok (b, save')) :
    save'.size = save.size ∧ ∀ i : Nat, (∀ a ∈ pat, wslot a ≠ some i) → save'[i]? = save[i]? :=
  run_frame S pat c save save' b h

/-- the same for a call of `Exec::exec` in the middle of a pattern (any `pc`, mask, range extension,
fuel): only atoms at or behind the entry `pc` can write -/
theorem C11_exec_frame_from_pc (S : ScanI) (pat : List Atom) (fuel : Nat) (st : St) (mask ext : Nat) (b : Bool)
    (st' : St) (h : exec S pat fuel st mask ext = .ok (b, st')) :
    st'.save.size = st.save.size ∧
    ∀ i : Nat, (∀ j a, st.pc ≤ j → pat[j]? = some a → wslot a ≠ some i) → st'.save[i]? = st.save[i]? := by
  obtain ⟨h1, h2⟩ := exec_frame S pat fuel st mask ext b st' h
  refine ⟨h1, fun i hi => h2 i ?_⟩
  rintro ⟨j, a, hj, hp, hw⟩
  exact hi j a hj hp hw

/-- `save_len` bounds what an execution can touch — for any atom list -/
theorem C11_save_len_covers_every_written_slot_any (S : ScanI) (pat : List Atom) (c : Nat)
    (save save' : Array Nat) (b : Bool) (h : run S pat c save = .ok (b, save')) :
    save'.size = save.size ∧ ∀ i : Nat, saveLen pat ≤ i → save'[i]? = save[i]? := by
  obtain ⟨h1, h2⟩ := C11_exec_writes_only_named_slots S pat c save save' b h
  refine ⟨h1, fun i hi => h2 i (fun a ha hs => ?_)⟩
  have := C11_save_len_covers_any pat a ha i hs
  omega

/-- **The advertised save length covers every slot the pattern writes** — for every pattern string
that parses (no fragment, no well-formed tree needed): executing the parsed atoms at any cursor of any
image, whatever the verdict, changes only indices below `save_len(atoms)`, which is at most 255. -/
theorem C11_save_len_covers_every_written_slot (s : List UInt8) (atoms : List Atom) (hp : parse s = .ok atoms)
    (S : ScanI) (c : Nat) (save save' : Array Nat) (b : Bool) (h : run S atoms c save = .ok (b, save')) :
    saveLen atoms ≤ 255 ∧ save'.size = save.size ∧ ∀ i : Nat, saveLen atoms ≤ i → save'[i]? = save[i]? :=
  ⟨(C11_save_len_covers s atoms hp).2.1, C11_save_len_covers_every_written_slot_any S atoms c save save' b h⟩

/-- non-vacuity: nested group, alternatives and a range; slots 0–3 are written, 4 and 5 keep their
contents (`7`, `9`) although the save array is longer than `save_len = 4` -/
example :
    parse "e8 ${ ' ( 6a u1 | 68 [1-3] c3 ' ) } z".toUTF8.toList =
      .ok [.save 0, .byte 0xe8, .push 4, .jump4, .save 1, .case 3, .byte 0x6a, .readU8 2, .brk 6,
           .nop, .byte 0x68, .skip 1, .many 2, .byte 0xc3, .save 2, .pop, .zero 3] ∧
    saveLen [.save 0, .byte 0xe8, .push 4, .jump4, .save 1, .case 3, .byte 0x6a, .readU8 2, .brk 6,
           .nop, .byte 0x68, .skip 1, .many 2, .byte 0xc3, .save 2, .pop, .zero 3] = 4 ∧
    run (ofRaw .pe32 #[0xe8, 1, 0, 0, 0, 0xff, 0x68, 0, 0, 0xc3])
      [.save 0, .byte 0xe8, .push 4, .jump4, .save 1, .case 3, .byte 0x6a, .readU8 2, .brk 6,
           .nop, .byte 0x68, .skip 1, .many 2, .byte 0xc3, .save 2, .pop, .zero 3] 0 #[5, 5, 5, 5, 7, 9] =
      .ok (true, #[0, 6, 10, 0, 7, 9]) := by
  decide +kernel

/-! ## (2) parser output is what the scanner theorems ask for -/

/-- **Bridge to `Scan.Hyp`.**  Every successfully parsed pattern consists of atoms whose arguments
are `u8`s (`Atom.ok`) and that never read the save array (`noRead`: no `Pir`, no `Check`): the two
pattern hypotheses of `C10_next_complete` / `C10_scan_complete` / `C10_scan_exact` / `C10_finds_*`
hold for every pattern that comes out of `pattern::parse` (and hence out of `pattern!`).  ALL
documented syntax is inside: the read tokens `i1 i2 i4 u1 u2 u4` and `z` emit `Read*` / `Zero` atoms,
which WRITE save slots and are allowed by `noRead`. -/
theorem C11_parse_atoms_scannable (s : List UInt8) (atoms : List Atom) (h : parse s = .ok atoms) :
    atoms.all Exec.Atom.ok = true ∧ atoms.all Scan.noRead = true := by
  constructor
  · rw [List.all_eq_true]
    intro a ha
    exact ok_of_argOf ((C11_parse_trimmed s atoms h).args a ha)
  · rw [List.all_eq_true]
    intro a ha
    obtain ⟨i, hi⟩ := List.mem_iff_getElem?.mp ha
    exact noRead_of_emitted (parse_shape h i a hi).1

/-- **What the parser can emit**, by enumeration of every `push` / in-place update of `parse_helper`:
never `Fuzzy`, `Back`, `Pir`, `VTypeName` or `Check` — these five atoms exist for hand-written
patterns only (no pattern-string syntax produces them). -/
theorem C11_parse_emits (s : List UInt8) (atoms : List Atom) (h : parse s = .ok atoms) (a : Atom) (ha : a ∈ atoms) :
    (∀ n, a ≠ .fuzzy n) ∧ (∀ n, a ≠ .back n) ∧ (∀ n, a ≠ .pir n) ∧ a ≠ .vTypeName ∧ (∀ n, a ≠ .check n) := by
  obtain ⟨i, hi⟩ := List.mem_iff_getElem?.mp ha
  exact (emitted_iff a).1 (parse_shape h i a hi).1

/-- … and every other constructor IS emitted by some pattern string (the list above is exact) -/
example : parse "12 ' ${ } % * ? [300-600] @4 i1 u1 i2 u2 i4 u4 z ( 00 | 01 ) 02".toUTF8.toList =
    .ok [.save 0, .byte 0x12, .save 1, .push 4, .jump4, .pop, .jump1, .ptr, .skip 1, .rangext 1, .skip 44,
         .rangext 1, .many 44, .aligned 4, .readI8 2, .readU8 3, .readI16 4, .readU16 5, .readI32 6, .readU32 7,
         .zero 8, .case 2, .byte 0, .brk 2, .nop, .byte 1, .byte 2] := by
  decide +kernel

/-- **Slot 0 belongs to the leading `Save(0)`**: the parser's slot counter starts at 1 and never
returns to 0 (`|` and `)` reset it to values that were themselves ≥ 1), so no atom behind the first
one reads or writes slot 0. -/
theorem C11_parse_slot0_only_first (s : List UInt8) (atoms : List Atom) (h : parse s = .ok atoms) :
    atoms[0]? = some (.save 0) ∧ ∀ (j : Nat) a k, 0 < j → atoms[j]? = some a → slotOf a = some k → 0 < k :=
  ⟨C11_first_atom s atoms h, fun j a k hj ha hk => (parse_shape h j a ha).2 k hk hj⟩

/-! ## (5) sanity of the reference semantics: which image bytes a pattern constrains

`sem S k items c` is the documented meaning of the item sequence `items` (first free slot `k`) at
cursor `c` (`Spec/PatternSem.lean`); `denote S p c = sem S 1 p c` plus slot 0.  The lemmas below are
about the reference side only. -/

/-- an exact byte `hh` constrains the byte under the cursor: a layout that differs there is rejected -/
theorem denote_byte_constrains (S : ScanI) (k b : Nat) (r : List Item) (c : Nat) (x : Nat × Caps)
    (h : sem S k (.byte b :: r) c = some x) : S.read 1 c = some b := by
  rw [sem_cons S k _ r c (by intro a b h; cases h)] at h
  simp only [semItem, matchBytes] at h
  by_cases hb : S.read 1 c = some b
  · exact hb
  · simp [hb] at h

theorem matchBytes_constrains (S : ScanI) : ∀ (bs : List Nat) (c c' : Nat), matchBytes S bs c = some c' →
    c' = c + bs.length ∧ ∀ (i : Nat) b, bs[i]? = some b → S.read 1 (c + i) = some b := by
  intro bs
  induction bs with
  | nil => intro c c' h; simp only [matchBytes, Option.some.injEq] at h; subst h; simp
  | cons b0 bs ih =>
    intro c c' h
    simp only [matchBytes] at h
    split at h
    · next hb =>
      obtain ⟨h1, h2⟩ := ih _ _ h
      refine ⟨by simp only [List.length_cons]; omega, ?_⟩
      intro i b hi
      cases i with
      | zero => simp only [List.getElem?_cons_zero, Option.some.injEq] at hi; subst hi; exact hb
      | succ j =>
        simp only [List.getElem?_cons_succ] at hi
        have := h2 j b hi
        rwa [Nat.add_assoc, Nat.add_comm 1 j] at this
    · cases h

/-- quoted text `"…"` constrains every one of its bytes, in order, starting under the cursor -/
theorem denote_str_constrains (S : ScanI) (k : Nat) (bs : List UInt8) (r : List Item) (c : Nat) (x : Nat × Caps)
    (h : sem S k (.str bs :: r) c = some x) :
    ∀ (i : Nat) (b : UInt8), bs[i]? = some b → S.read 1 (c + i) = some b.toNat := by
  rw [sem_cons S k _ r c (by intro a b h; cases h)] at h
  simp only [semItem] at h
  cases hm : matchBytes S (bs.map UInt8.toNat) c with
  | none => simp [hm] at h
  | some c' =>
    intro i b hi
    exact (matchBytes_constrains S _ _ _ hm).2 i b.toNat (by simp [hi])

/-- … so a layout that differs from the pattern in ANY constrained byte is rejected -/
theorem denote_rejects_perturbed_text (S : ScanI) (k : Nat) (bs : List UInt8) (r : List Item) (c : Nat)
    (i : Nat) (b : UInt8) (hi : bs[i]? = some b) (hne : S.read 1 (c + i) ≠ some b.toNat) :
    sem S k (.str bs :: r) c = none := by
  cases h : sem S k (.str bs :: r) c with
  | none => rfl
  | some x => exact absurd (denote_str_constrains S k bs r c x h i b hi) hne

/-- the same at the level of `denote` (whole pattern strings that begin with quoted text) -/
theorem denote_rejects_perturbed_pattern (S : ScanI) (bs : List UInt8) (r : List Item) (c : Nat)
    (i : Nat) (b : UInt8) (hi : bs[i]? = some b) (hne : S.read 1 (c + i) ≠ some b.toNat) :
    denote S (.str bs :: r) c = none := by
  simp [denote, denote_rejects_perturbed_text S 1 bs r c i b hi hne]

/-- a wild card `?` constrains NOTHING: it is not even required that the byte exists; the rest is
matched one position further, whatever the image holds under the cursor -/
theorem denote_any_unconstrained (S : ScanI) (k : Nat) (r : List Item) (c : Nat) :
    sem S k (.any :: r) c = sem S k r (addRva c 1) := by
  rw [sem_cons S k _ r c (by intro a b h; cases h)]
  simp [semItem, slotsItem, thenRes_nil]

/-- … nor does a fixed skip `[n]` -/
theorem denote_skip_unconstrained (S : ScanI) (k n : Nat) (r : List Item) (c : Nat) :
    sem S k (.skip n :: r) c = sem S k r (addRva c n) := by
  rw [sem_cons S k _ r c (by intro a b h; cases h)]
  simp [semItem, slotsItem, thenRes_nil]

/-- consequently two images that differ only in bytes under wild cards are indistinguishable for the
wild card itself: the verdict is that of the rest of the pattern at the next position in both -/
theorem denote_any_same_verdict (S S' : ScanI) (k : Nat) (r : List Item) (c : Nat)
    (hrest : sem S k r (addRva c 1) = sem S' k r (addRva c 1)) :
    sem S k (.any :: r) c = sem S' k (.any :: r) c := by
  rw [denote_any_unconstrained, denote_any_unconstrained, hrest]

/-- **the cursor after a brace group**: `j { body }` matches `body` at the jump's destination, keeps
the captures of the body, and continues with the rest of the sequence at the byte after the jump
operand (`c + 1` for `%`, `c + 4` for `$`, `c +` pointer size for `*`) — NOT where the body ended. -/
theorem denote_group_returns (S : ScanI) (k : Nat) (j : Jump) (gap : List UInt8) (body r : List Item)
    (c c2 : Nat) (w : Caps) (h : sem S k (.group j gap body :: r) c = some (c2, w)) :
    ∃ t cb wb w2, j.target S c = some t ∧ sem S k body t = some (cb, wb) ∧
      sem S (slotsItems k body) r (addRva c (j.width S)) = some (c2, w2) ∧ w = w2 ++ wb := by
  rw [sem_cons S k _ r c (by intro a b h; cases h)] at h
  simp only [semItem, slotsItem] at h
  cases ht : j.target S c with
  | none => simp [ht] at h
  | some t =>
    simp only [ht] at h
    cases hb : sem S k body t with
    | none => simp [hb] at h
    | some xb =>
      obtain ⟨cb, wb⟩ := xb
      simp only [hb] at h
      cases hr : sem S (slotsItems k body) r (addRva c (j.width S)) with
      | none => simp [hr, thenRes] at h
      | some xr =>
        obtain ⟨c3, w2⟩ := xr
        simp only [hr, thenRes, Option.some.injEq, Prod.mk.injEq] at h
        obtain ⟨rfl, rfl⟩ := h
        exact ⟨t, cb, wb, w2, rfl, hb, rfl, rfl⟩

/-- a bookmark `'` captures the cursor it stands at, in the next free slot -/
theorem denote_save_captures (S : ScanI) (k : Nat) (r : List Item) (c c2 : Nat) (w : Caps)
    (h : sem S k (.save :: r) c = some (c2, w)) : (k, c) ∈ w := by
  rw [sem_cons S k _ r c (by intro a b h; cases h)] at h
  simp only [semItem, slotsItem] at h
  cases hr : sem S (k + 1) r c with
  | none => simp [hr, thenRes] at h
  | some xr =>
    obtain ⟨c3, w2⟩ := xr
    simp only [hr, thenRes, Option.some.injEq, Prod.mk.injEq] at h
    obtain ⟨_, rfl⟩ := h
    simp

/-- non-vacuity of the hypotheses above, and the perturbation read off a concrete layout:
`"MZ" ? 03` matches `4d 5a 99 03`, still matches when the wild-card byte changes, and is rejected when
a quoted byte or the exact byte changes -/
example :
    (sem (ofRaw .pe32 #[0x4d, 0x5a, 0x99, 0x03]) 1 [.str [0x4d, 0x5a], .any, .byte 3] 0).isSome = true ∧
    (sem (ofRaw .pe32 #[0x4d, 0x5a, 0x11, 0x03]) 1 [.str [0x4d, 0x5a], .any, .byte 3] 0).isSome = true ∧
    sem (ofRaw .pe32 #[0x4d, 0x5b, 0x99, 0x03]) 1 [.str [0x4d, 0x5a], .any, .byte 3] 0 = none ∧
    sem (ofRaw .pe32 #[0x4d, 0x5a, 0x99, 0x04]) 1 [.str [0x4d, 0x5a], .any, .byte 3] 0 = none ∧
    -- `e8 ${ aa } bb`: the body is matched at the call target 7, `bb` at 5 = behind the operand
    (sem (ofRaw .pe32 #[0xe8, 2, 0, 0, 0, 0xbb, 0, 0xaa]) 1 [.byte 0xe8, .group .j4 [] [.byte 0xaa], .byte 0xbb] 0).map (·.1)
      = some 6 := by
  decide +kernel

/-! ## (6) the perturbation clause for the semantics the unconditional T2' uses (`semI` / `denoteImpl`)

`footprint S p c` (`Spec/PatternSemImpl.lean`) lists the questions `denoteImpl S p c` asks the image: literal
comparisons `lit a`, operand reads `read w a`, pointer translations, slice lengths — on the accepting path and on
every failed candidate / alternative.  `constrained S p c` lists the literal bytes (address, value) the pattern
demands, jump destinations taken from the image. -/

/-- **Footprint theorem.**  The answer of `denoteImpl` — verdict, final cursor, captures — depends on the image only
through the answers to the questions of its footprint: an image `S'` of the same format that answers them as `S`
does gets the same answer, whatever else it contains.  Every pattern tree (any nesting, `[a-b]`, alternatives),
every cursor. -/
theorem C11_impl_footprint (S S' : ScanI) (hf : S'.fmt = S.fmt) (p : Pat) (c : Nat)
    (h : ∀ q ∈ footprint S p c, q.same S S') : denoteImpl S' p c = denoteImpl S p c :=
  denoteImpl_footprint hf p c h

/-- the same for a sequence in the middle of a pattern, against any continuation -/
theorem C11_semI_footprint (S S' : ScanI) (hf : S'.fmt = S.fmt) (items : List Item) (k c : Nat) (κ κ' : Kont)
    (φ : Nat → List Query) (hκ : ∀ c1, (∀ q ∈ φ c1, q.same S S') → κ' c1 = κ c1)
    (h : ∀ q ∈ fpI S k items c κ φ, q.same S S') : semI S' k items c κ' = semI S k items c κ :=
  (semI_footprint_both hf).1 items k c κ κ' φ hκ h

/-- instance: `e8 ${ "MZ" ( aa | [0-4] bb ) } 90 ?` on two buffers that differ in bytes the semantics never asks
for: offset 6 is under the wild card, 7 lies between the call and its target, 14 / 15 behind the match.  The
footprint lists the failed first alternative (`aa` at 10) and the failed first candidate of `[0-4]` (`bb` at 10)
before the successful one (11), then `90` behind the call operand -/
example :
    let p : Pat := [.byte 0xe8, .group .j4 [] [.str [0x4d, 0x5a], .alt [[.byte 0xaa], [.range 0 4, .byte 0xbb]]], .byte 0x90, .any]
    let S := ofRaw .pe32 #[0xe8, 3, 0, 0, 0, 0x90, 0x11, 0x22, 0x4d, 0x5a, 0x33, 0xbb, 0x44, 0x55, 0x66, 0x77]
    let S' := ofRaw .pe32 #[0xe8, 3, 0, 0, 0, 0x90, 0x99, 0x23, 0x4d, 0x5a, 0x33, 0xbb, 0x44, 0x55, 0x00, 0x01]
    footprint S p 0 = [.lit 0, .read 4 1, .lit 8, .lit 9, .lit 10, .slice 10, .lit 10, .lit 11, .lit 5] ∧
    (∀ q ∈ footprint S p 0, q.same S S') ∧ denoteImpl S p 0 = some (7, [(0, 0)]) ∧ denoteImpl S' p 0 = some (7, [(0, 0)]) := by
  decide +kernel

/-- **Every byte the pattern constrains is compared and holds.**  On an accepted layout every literal byte of
`constrained S p c` — exact bytes `hh` and the bytes of quoted text, at the addresses the layout's own jump
operands lead to — has the value the pattern demands, and its comparison is part of the footprint. -/
theorem C11_impl_constrained_byte (S : ScanI) (p : Pat) (c : Nat) (x : Nat × Caps) (h : denoteImpl S p c = some x) :
    ∀ a v, (a, v) ∈ constrained S p c → S.read 1 a = some v ∧ Query.lit a ∈ footprint S p c := by
  intro a v hm
  simp only [denoteImpl, Option.map_eq_some_iff] at h
  obtain ⟨y, hy, _⟩ := h
  exact ⟨consI_holds S _ 1 c Kont.done y hy a v hm, consI_fp S _ 1 c Kont.done _ a v hm⟩

/-- **… and a layout that differs in a byte the pattern constrains is rejected** (contrapositive) -/
theorem C11_impl_rejects_differing_byte (S : ScanI) (p : Pat) (c : Nat) (a v : Nat) (hm : (a, v) ∈ constrained S p c)
    (hne : S.read 1 a ≠ some v) : denoteImpl S p c = none := by
  cases h : denoteImpl S p c with
  | none => rfl
  | some x => exact absurd (C11_impl_constrained_byte S p c x h a v hm).1 hne

/-- **Perturbation, two images.**  Let `(a, v)` be a byte the pattern constrains on `S` at `c`.  An image `S'` of the
same format that answers the comparison at `a` with anything but `v`, and every OTHER question of the footprint as
`S` does (operand reads and slice lengths included: the perturbed byte is not also a jump operand), is rejected —
whether or not `S` itself is accepted. -/
theorem C11_impl_perturbed_rejected (S S' : ScanI) (hf : S'.fmt = S.fmt) (p : Pat) (c : Nat) (a v : Nat)
    (hm : (a, v) ∈ constrained S p c) (hagree : ∀ q ∈ footprint S p c, q ≠ Query.lit a → q.same S S')
    (hne : S'.read 1 a ≠ some v) : denoteImpl S' p c = none := by
  rw [denoteImpl, consI_perturbed hf hne _ 1 c Kont.done Kont.done (fun _ => []) hm hagree]; rfl

/-- **For straight-line patterns the constrained bytes are ALL literal bytes**: a pattern without `[a-b]` and
`( | )` (brace groups, jumps, reads, wild cards, alignment allowed) that accepts a layout constrains exactly as many
bytes as it has literal bytes, at any depth — so by the three theorems above it "rejects a layout that differs in
any byte the pattern constrains".  (With `[a-b]` / `( | )` the list stops at the first of them in each sequence:
which bytes are constrained behind it depends on the candidate / alternative taken.) -/
theorem C11_impl_constrained_complete (S : ScanI) (p : Pat) (hst : straight p = true) (c : Nat) (x : Nat × Caps)
    (h : denoteImpl S p c = some x) : (constrained S p c).length = litCount p := by
  simp only [denoteImpl, Option.map_eq_some_iff] at h
  obtain ⟨y, hy, _⟩ := h
  rw [constrained]
  rw [dropTrailing_straight p true hst] at hy ⊢
  exact consI_length S p 1 c Kont.done y hst hy

/-- instance (PE32+ pointer width, an absolute pointer): `68 *{ "MZ" aa } 90 ' u1` on `68 <ptr 16> 90 77 … 4d 5a aa`.
The five literal bytes are constrained at 0, 16, 17, 18 (behind the pointer) and 9; each perturbed buffer is
rejected; perturbing the wild-card-free rest (the byte `u1` reads) changes only the capture. -/
example :
    let p : Pat := [.byte 0x68, .group .ptr [] [.str [0x4d, 0x5a], .byte 0xaa], .byte 0x90, .save, .readU 1]
    let S := ofRaw .pe64 #[0x68, 16, 0, 0, 0, 0, 0, 0, 0, 0x90, 0x77, 0, 0, 0, 0, 0, 0x4d, 0x5a, 0xaa]
    straight p = true ∧ litCount p = 5 ∧
    constrained S p 0 = [(0, 0x68), (16, 0x4d), (17, 0x5a), (18, 0xaa), (9, 0x90)] ∧
    denoteImpl S p 0 = some (11, [(2, 0x77), (1, 10), (0, 0)]) ∧
    denoteImpl (ofRaw .pe64 #[0x68, 16, 0, 0, 0, 0, 0, 0, 0, 0x90, 0x77, 0, 0, 0, 0, 0, 0x4d, 0x5b, 0xaa]) p 0 = none ∧
    denoteImpl (ofRaw .pe64 #[0x68, 16, 0, 0, 0, 0, 0, 0, 0, 0x91, 0x77, 0, 0, 0, 0, 0, 0x4d, 0x5a, 0xaa]) p 0 = none ∧
    denoteImpl (ofRaw .pe64 #[0x69, 16, 0, 0, 0, 0, 0, 0, 0, 0x90, 0x77, 0, 0, 0, 0, 0, 0x4d, 0x5a, 0xaa]) p 0 = none ∧
    denoteImpl (ofRaw .pe64 #[0x68, 16, 0, 0, 0, 0, 0, 0, 0, 0x90, 0x78, 0, 0, 0, 0, 0, 0x4d, 0x5a, 0xaa]) p 0
      = some (11, [(2, 0x78), (1, 10), (0, 0)]) :=
  ⟨by decide +kernel, by decide +kernel, by decide +kernel, by decide +kernel, by decide +kernel, by decide +kernel,
   by decide +kernel, by decide +kernel⟩

/-- the hypotheses of `C11_impl_perturbed_rejected` on that layout: the buffer with offset 17 changed answers every
question of the footprint but `lit 17` as the original does -/
example :
    let p : Pat := [.byte 0x68, .group .ptr [] [.str [0x4d, 0x5a], .byte 0xaa], .byte 0x90, .save, .readU 1]
    let S := ofRaw .pe64 #[0x68, 16, 0, 0, 0, 0, 0, 0, 0, 0x90, 0x77, 0, 0, 0, 0, 0, 0x4d, 0x5a, 0xaa]
    let S' := ofRaw .pe64 #[0x68, 16, 0, 0, 0, 0, 0, 0, 0, 0x90, 0x77, 0, 0, 0, 0, 0, 0x4d, 0x5b, 0xaa]
    (17, 0x5a) ∈ constrained S p 0 ∧ (∀ q ∈ footprint S p 0, q ≠ Query.lit 17 → q.same S S') ∧ S'.read 1 17 ≠ some 0x5a := by
  decide +kernel

end Pelite.PatSem
