import PeliteModel.Thm.C11Impl
import PeliteModel.Lemmas.PatternGrammarNorm
import PeliteModel.Lemmas.DirsExamples
/-!
C11 (semantic half) over EVERY documented spelling.

T1 / T3' (`Thm/C11.lean`, `Thm/C11Impl.lean`) quantify over `render sty p` with four GLOBAL spelling styles.  The
documented syntax allows more: "case insensitive hexadecimal characters" digit by digit (`4C 8b`, `aB`), the `@`
operand in either case per occurrence, decimal numbers with leading zeros (`[016]`, `[007-12]`).  Those strings
are outside the image of `render`.  Here the theorems are stated over the whole REFERENCE GRAMMAR, i.e. over every
string the reference reader `readPat` (Spec/PatternSem.lean, written from the `parse` documentation) accepts:

* `C11_grammar_covered` — `readPat s = some p → WF p → parse s = ok (compile p)`;
* `C11_pattern_string_semantics_grammar` — the end-to-end statement of T3' over such strings;
* the per-token normalisation facts the proof rests on (`C11_hex_digit_by_value`, `C11_align_operand_by_value`,
  `C11_decimal_by_value_lower`, `C11_decimal_by_value_upper`): the parser depends on a hex digit, an `@` operand,
  a decimal only through the value the reference reader assigns to it;
* reader / renderer round trip: `C11_read_render_false` (it fails for trees whose white space is not
  normalised), `C11_read_render_partial` / `C11_read_render_iff` (it holds exactly for the others),
  `C11_read_render_norm` (in general the reader returns the white space normal form, which has the same
  renderings and the same code), T1 as a corollary of the grammar theorem (`C11_parse_render_of_grammar`), and
  `C11_outside_render` (`readStyled s = none` means that no well-formed tree renders to `s`).
-/
namespace Pelite.PatSem
open Pelite.Pattern Pelite.Exec

/-! ## Token normalisation -/

/-- **Hex digits count through their value only**: whatever the case of either digit, the two-digit token
pushes `Byte(hi * 16 + lo)` and consumes exactly the two digits. -/
theorem C11_hex_digit_by_value (c d : UInt8) (hi lo : Nat) (hc : hexVal c = some hi) (hd : hexVal d = some lo)
    (tail : List UInt8) (st : PSt) :
    tok c.toNat (d :: tail) st = .ok ⟨pushA st (.byte (hi * 16 + lo)), tail, true⟩ :=
  tok_hex_val hc hd tail st

/-- `aB`, `Ab`, `ab`, `AB` are the same token -/
example (tail : List UInt8) (st : PSt) :
    tok (97 : UInt8).toNat (66 :: tail) st = .ok ⟨pushA st (.byte 0xab), tail, true⟩ ∧
    tok (65 : UInt8).toNat (98 :: tail) st = .ok ⟨pushA st (.byte 0xab), tail, true⟩ ∧
    tok (97 : UInt8).toNat (98 :: tail) st = .ok ⟨pushA st (.byte 0xab), tail, true⟩ ∧
    tok (65 : UInt8).toNat (66 :: tail) st = .ok ⟨pushA st (.byte 0xab), tail, true⟩ :=
  ⟨C11_hex_digit_by_value 97 66 10 11 (by decide) (by decide) tail st,
   C11_hex_digit_by_value 65 98 10 11 (by decide) (by decide) tail st,
   C11_hex_digit_by_value 97 98 10 11 (by decide) (by decide) tail st,
   C11_hex_digit_by_value 65 66 10 11 (by decide) (by decide) tail st⟩

/-- **`@` operands count through their value only** (`@a` = `@A` = 10, …, `@z` = `@Z` = 35) -/
theorem C11_align_operand_by_value (o : UInt8) (n : Nat) (h : alignVal o = some n) (tail : List UInt8) (st : PSt) :
    tok (64 : UInt8).toNat (o :: tail) st = .ok ⟨pushA st (.aligned n), tail, true⟩ := by
  simp [tok, classify, opAligned_val h]

example (tail : List UInt8) (st : PSt) :
    tok (64 : UInt8).toNat (97 :: tail) st = .ok ⟨pushA st (.aligned 10), tail, true⟩ ∧
    tok (64 : UInt8).toNat (65 :: tail) st = .ok ⟨pushA st (.aligned 10), tail, true⟩ :=
  ⟨C11_align_operand_by_value 97 10 (by decide) tail st, C11_align_operand_by_value 65 10 (by decide) tail st⟩

/-- **Decimals count through their value only** (first number of a bracket): whatever the spelling `cs` of the
number `m` — leading zeros included — up to its terminator `d` (`]` or `-`), the parser's first digit loop
returns `m`. -/
theorem C11_decimal_by_value_lower (cs : List UInt8) (m : Nat) (d : UInt8) (rest : List UInt8)
    (h : readDec cs 0 false = some (m, d :: rest)) (hm : m < 16384) (hd : d = 93 ∨ d = 45) :
    manyLower cs 0 false = .ok (m, true, d.toNat, rest) :=
  manyLower_of_readDec cs 0 false m d rest h hm hd

/-- (second number of a bracket, terminator `]`) -/
theorem C11_decimal_by_value_upper (cs : List UInt8) (m : Nat) (rest : List UInt8)
    (h : readDec cs 0 false = some (m, 93 :: rest)) (hm : m < 16384) :
    manyUpper cs 0 = .ok (m, rest) :=
  manyUpper_of_readDec cs 0 false m rest h hm

/-- `016]…` and `16]…` and `0000016]…` -/
example : manyLower "016]ff".toUTF8.toList 0 false = .ok (16, true, 93, "ff".toUTF8.toList) ∧
    manyLower "0000016-".toUTF8.toList 0 false = .ok (16, true, 45, []) ∧
    manyUpper "00012]".toUTF8.toList 0 = .ok (12, []) :=
  ⟨C11_decimal_by_value_lower _ 16 93 _ (by decide +kernel) (by decide) (by decide),
   C11_decimal_by_value_lower _ 16 45 _ (by decide +kernel) (by decide) (by decide),
   C11_decimal_by_value_upper _ 12 _ (by decide +kernel) (by decide)⟩

/-! ## The whole reference grammar -/

/-- **T1 over every documented spelling.**  Whenever the reference reader assigns the tree `p` to the string `s`
— any case per hex digit and per `@` operand, any decimal spelling, white space runs anywhere between items —
and `p` is well formed, the parser returns exactly the reference compiler's atoms for `p`. -/
theorem C11_grammar_covered (s : List UInt8) (p : Pat) (h : readPat s = some p) (hwf : WF p = true) :
    parse s = .ok (compile p) :=
  parse_of_readPat s p h hwf

/-- a string that mixes the case inside one byte (`aB`, `fF`) and between bytes (`4C 8b`), spells decimals with
leading zeros, uses `@A` and `@a`, TAB and LF as white space, a gap between `%` and `{`, and alternatives -/
def mixedStr : List UInt8 :=
  "4C 8b\taB [016] 50\n[007-12] fF @A @a %  { 'i1 } ( \"x\" | ?? | z )".toUTF8.toList

/-- the tree the reference reader assigns to it -/
def mixedTree : Pat :=
  [.byte 0x4c, .ws [32], .byte 0x8b, .ws [9], .byte 0xab, .ws [32], .skip 16, .ws [32], .byte 0x50, .ws [10],
   .range 7 12, .ws [32], .byte 0xff, .ws [32], .aligned 10, .ws [32], .aligned 10, .ws [32],
   .group .j1 [32, 32] [.ws [32], .save, .readI 1, .ws [32]], .ws [32],
   .alt [[.ws [32], .str [120], .ws [32]], [.ws [32], .any, .any, .ws [32]], [.ws [32], .zero, .ws [32]]]]

theorem C11_mixedStr_read : readPat mixedStr = some mixedTree := by decide +kernel
theorem C11_mixedTree_wf : WF mixedTree = true := by decide +kernel

/-- the theorem applies … -/
example : parse mixedStr = .ok (compile mixedTree) :=
  C11_grammar_covered mixedStr mixedTree C11_mixedStr_read C11_mixedTree_wf

/-- … these are the atoms … -/
example : compile mixedTree =
    [.save 0, .byte 76, .byte 139, .byte 171, .skip 16, .byte 80, .skip 7, .many 5, .byte 255, .aligned 10, .aligned 10,
     .push 1, .jump1, .save 1, .readI8 2, .pop, .case 2, .byte 120, .brk 5, .case 2, .skip 2, .brk 2, .nop, .zero 3] := by
  decide +kernel

/-- … and the string is NOT `render sty p` for any of the four styles (`readStyled`; by `C11_outside_render` below:
for no style and no well-formed tree at all): T1 does not reach it. -/
theorem C11_mixedStr_outside_render : readStyled mixedStr = none := by decide +kernel

example : ∀ sty ∈ [(⟨false, false⟩ : Style), ⟨true, true⟩, ⟨false, true⟩, ⟨true, false⟩],
    render sty mixedTree ≠ mixedStr := by decide +kernel

/-- smaller instances, one deviation from `render` each: mixed case inside a byte, leading zeros, upper and
lower case `@` operand in one string -/
example :
    readPat "aB".toUTF8.toList = some [.byte 0xab] ∧ readStyled "aB".toUTF8.toList = none ∧
    readPat "[016]".toUTF8.toList = some [.skip 16] ∧ readStyled "[016]".toUTF8.toList = none ∧
    readPat "[007-12]".toUTF8.toList = some [.range 7 12] ∧ readStyled "[007-12]".toUTF8.toList = none ∧
    readPat "@A@a".toUTF8.toList = some [.aligned 10, .aligned 10] ∧ readStyled "@A@a".toUTF8.toList = none := by
  decide +kernel

example : parse "[007-12]".toUTF8.toList = .ok (compile [.range 7 12]) :=
  C11_grammar_covered _ _ (by decide +kernel) (by decide +kernel)

/-- **T3' over every documented spelling.**  For every string `s` of the reference grammar with a well-formed
tree `p`: `s` parses, and executing the parsed pattern at `c` accepts exactly when `denoteImpl` does; on success
every specified slot holds the specified capture (slot 0 = the match position) and lies below the advertised
save length.  (`S.WF`, `Coherent S`: every image below 4 GiB, see `C11_interfaces`.) -/
theorem C11_pattern_string_semantics_grammar (s : List UInt8) (p : Pat) (h : readPat s = some p) (hwf : WF p = true)
    {S : ScanI} (hS : S.WF) (hC : Coherent S) (c : Nat) (hc : c < 4294967296) (save0 : Array Nat) :
    ∃ atoms save, parse s = .ok atoms ∧
      run S atoms c save0 = .ok ((denoteImpl S p c).isSome, save) ∧ save.size = save0.size ∧
      ∀ c' w, denoteImpl S p c = some (c', w) → ∀ sl v, (sl, v) ∈ w →
        (sl < save0.size → save[sl]? = some v) ∧ sl + 1 ≤ saveLen atoms := by
  obtain ⟨save, h1, h2, h3⟩ := run_compile_impl hS hC p hwf c hc save0
  refine ⟨compile p, save, C11_grammar_covered s p h hwf, h1, h2, ?_⟩
  intro c' w hd sl v hm
  refine ⟨h3 c' w hd sl v hm, ?_⟩
  have q1 := C11_impl_captures_in_range S p c c' w hd sl v hm
  have q2 := saveLen_compile_ge p
  omega

/-- the hypotheses are satisfiable on the mixed-spelling string, for a PE32 and a PE32+ raw image -/
example : readPat mixedStr = some mixedTree ∧ WF mixedTree = true ∧
    (ofRaw .pe32 #[0x4c, 0x8b, 0xab]).WF ∧ Coherent (ofRaw .pe32 #[0x4c, 0x8b, 0xab]) ∧
    (ofRaw .pe64 #[0x4c, 0x8b, 0xab]).WF ∧ Coherent (ofRaw .pe64 #[0x4c, 0x8b, 0xab]) :=
  ⟨C11_mixedStr_read, C11_mixedTree_wf, (C11_interfaces.1 _ _ (by decide)).1, (C11_interfaces.1 _ _ (by decide)).2,
   (C11_interfaces.1 _ _ (by decide)).1, (C11_interfaces.1 _ _ (by decide)).2⟩

/-- and the theorem applied: `aB [001] ' Cd` (mixed case, leading zeros) on the bytes `ab 00 cd` -/
example : ∃ atoms save, parse "aB [001] ' Cd".toUTF8.toList = .ok atoms ∧
    run (ofRaw .pe64 #[0xab, 0, 0xcd]) atoms 0 #[0, 0]
      = .ok ((denoteImpl (ofRaw .pe64 #[0xab, 0, 0xcd]) [.byte 0xab, .ws [32], .skip 1, .ws [32], .save, .ws [32], .byte 0xcd] 0).isSome, save) ∧
    save.size = 2 := by
  obtain ⟨atoms, save, h1, h2, h3, _⟩ :=
    C11_pattern_string_semantics_grammar "aB [001] ' Cd".toUTF8.toList
      [.byte 0xab, .ws [32], .skip 1, .ws [32], .save, .ws [32], .byte 0xcd] (by decide +kernel) (by decide +kernel)
      (C11_interfaces.1 .pe64 #[0xab, 0, 0xcd] (by decide)).1 (C11_interfaces.1 .pe64 #[0xab, 0, 0xcd] (by decide)).2
      0 (by decide) #[0, 0]
  exact ⟨atoms, save, h1, h2, h3⟩

example : denoteImpl (ofRaw .pe64 #[0xab, 0, 0xcd]) [.byte 0xab, .ws [32], .skip 1, .ws [32], .save, .ws [32], .byte 0xcd] 0
    = some (3, [(1, 2), (0, 0)]) := by decide +kernel

/-- … and on images: a mapped PE32+ view and a PE32 file view (`demoView64`, `demoFile32` of
Lemmas/DirsExamples.lean) satisfy the interface hypotheses -/
example : (ofView Dirs.demoView64).WF ∧ Coherent (ofView Dirs.demoView64) ∧
    (ofView Dirs.demoFile32).WF ∧ Coherent (ofView Dirs.demoFile32) :=
  ⟨(C11_interfaces.2.1 Dirs.demoView64 rfl (by decide +kernel)).1, (C11_interfaces.2.1 Dirs.demoView64 rfl (by decide +kernel)).2,
   (C11_interfaces.2.2 Dirs.demoFile32 rfl (by decide +kernel) (by decide +kernel)).1,
   (C11_interfaces.2.2 Dirs.demoFile32 rfl (by decide +kernel) (by decide +kernel)).2⟩

/-- PE32+ mapped view: `5a [0058] u4` (leading zero) at rva 1 — the `Z` of `MZ`, then `e_lfanew` (= 64) at 0x3c -/
example : ∃ atoms save, parse "5a [0058] u4".toUTF8.toList = .ok atoms ∧
    run (ofView Dirs.demoView64) atoms 1 #[0, 0] = .ok (true, save) ∧ save[0]? = some 1 ∧ save[1]? = some 64 := by
  have hd : denoteImpl (ofView Dirs.demoView64) [.byte 0x5a, .ws [32], .skip 58, .ws [32], .readU 4] 1
      = some (64, [(1, 64), (0, 1)]) := by decide +kernel
  obtain ⟨atoms, save, h1, h2, _, h4⟩ :=
    C11_pattern_string_semantics_grammar "5a [0058] u4".toUTF8.toList
      [.byte 0x5a, .ws [32], .skip 58, .ws [32], .readU 4] (by decide +kernel) (by decide +kernel)
      (C11_interfaces.2.1 Dirs.demoView64 rfl (by decide +kernel)).1 (C11_interfaces.2.1 Dirs.demoView64 rfl (by decide +kernel)).2
      1 (by decide) #[0, 0]
  rw [hd] at h2
  exact ⟨atoms, save, h1, h2, (h4 _ _ hd 0 1 (by simp)).1 (by decide), (h4 _ _ hd 1 64 (by simp)).1 (by decide)⟩

/-- PE32 file view: `4E 42 [00] u2` (upper case, leading zero) at rva 0x1000 — `NB`, then the word `"10"` -/
example : ∃ atoms save, parse "4E 42 [00] u2".toUTF8.toList = .ok atoms ∧
    run (ofView Dirs.demoFile32) atoms 4096 #[0, 0] = .ok (true, save) ∧ save[0]? = some 4096 ∧ save[1]? = some 12337 := by
  have hd : denoteImpl (ofView Dirs.demoFile32) [.byte 0x4e, .ws [32], .byte 0x42, .ws [32], .skip 0, .ws [32], .readU 2] 4096
      = some (4100, [(1, 12337), (0, 4096)]) := by decide +kernel
  obtain ⟨atoms, save, h1, h2, _, h4⟩ :=
    C11_pattern_string_semantics_grammar "4E 42 [00] u2".toUTF8.toList
      [.byte 0x4e, .ws [32], .byte 0x42, .ws [32], .skip 0, .ws [32], .readU 2] (by decide +kernel) (by decide +kernel)
      (C11_interfaces.2.2 Dirs.demoFile32 rfl (by decide +kernel) (by decide +kernel)).1
      (C11_interfaces.2.2 Dirs.demoFile32 rfl (by decide +kernel) (by decide +kernel)).2
      4096 (by decide) #[0, 0]
  rw [hd] at h2
  exact ⟨atoms, save, h1, h2, (h4 _ _ hd 0 4096 (by simp)).1 (by decide), (h4 _ _ hd 1 12337 (by simp)).1 (by decide)⟩

/-! ## Reader / renderer round trip -/

/-- The statement "`readPat` inverts `render` on every well-formed tree" is FALSE: the reader turns every
maximal white space run into one `ws` item, so an empty `ws` item disappears and two adjacent ones come back
merged (both trees are well formed: white space is unconstrained by `WF`). -/
theorem C11_read_render_false : ¬ ∀ (sty : Style) (p : Pat), WF p = true → readPat (render sty p) = some p := by
  intro h
  exact absurd (h {} [.ws []] (by decide +kernel)) (by decide +kernel)

/-- the two ways it fails -/
example : WF [.ws []] = true ∧ readPat (render {} [.ws []]) = some [] ∧
    WF [.byte 1, .ws [32], .ws [9], .byte 2] = true ∧
    readPat (render {} [.byte 1, .ws [32], .ws [9], .byte 2]) = some [.byte 1, .ws [32, 9], .byte 2] := by
  decide +kernel

/-- **`_partial` (strongest true form).**  On white-space-normal trees — no empty `ws` item, no two adjacent `ws`
items, at every nesting level (`wsNormal`, Lemmas/PatternGrammarRT.lean; the gap between a jump symbol and its
`{` is unconstrained) — the reference reader inverts every one of the four renderers.  Nothing else is needed
beyond `WF`: hex digits, `@` operands, canonical decimals, quoted text, jump symbols in front of anything that is
not a brace, nested groups and alternatives (also empty ones) all read back as the item they were rendered from. -/
theorem C11_read_render_partial (sty : Style) (p : Pat) (hwf : WF p = true) (hn : wsNormal p = true) :
    readPat (render sty p) = some p := by
  simp only [WF, Bool.and_eq_true] at hwf
  exact readPat_render sty p 0 hwf.1.1 hn

/-- a nested instance in all four styles (a jump symbol followed by white space and a non-brace, an empty
alternative, `@` operand ≥ 10, decimals ≥ 256, leading and trailing white space) -/
def normalTree : Pat :=
  [.ws [32, 9], .byte 0xe8, .jump .j4, .ws [32], .str [104, 105], .group .ptr [10] [.ws [32], .alt [[.range 2 300, .byte 0x4c], [], [.save, .any, .ws [13]]],
    .aligned 35], .readU 4, .skip 1000, .zero, .ws [32]]

example : WF normalTree = true ∧ wsNormal normalTree = true := by decide +kernel
example : readPat (showPat normalTree) = some normalTree := C11_read_render_partial _ _ (by decide +kernel) (by decide +kernel)
example : readPat (showPatUpper normalTree) = some normalTree :=
  C11_read_render_partial _ _ (by decide +kernel) (by decide +kernel)
example : showPat normalTree = " \te8$ \"hi\"*\n{ ([2-300]4c||'?\r)@z}u4[1000]z ".toUTF8.toList := by decide +kernel

/-- the trees the reader produces are of this form, e.g. the one of the mixed-spelling string -/
example : wsNormal mixedTree = true := by decide +kernel

/-- **The round trip in general: up to white space normalisation.**  For EVERY well-formed tree `p` and every
style the reference reader assigns to `render sty p` the tree `wsNorm p` (Lemmas/PatternGrammarNorm.lean: `p`
with its empty `ws` items dropped and adjacent ones merged, at every nesting level), which is well formed, has the
same renderings and the same reference code.  So every rendered string is a string of the reference grammar. -/
theorem C11_read_render_norm (sty : Style) (p : Pat) (hwf : WF p = true) :
    readPat (render sty p) = some (wsNorm p) ∧ WF (wsNorm p) = true ∧ wsNormal (wsNorm p) = true ∧
    compile (wsNorm p) = compile p ∧ ∀ sty', render sty' (wsNorm p) = render sty' p := by
  have h := hwf
  simp only [WF, Bool.and_eq_true] at h
  exact ⟨readPat_render_norm sty p 0 h.1.1, WF_wsNorm p hwf, wsNormal_wsNorm p, compile_wsNorm p,
    fun sty' => render_wsNorm sty' p⟩

/-- on white-space-normal trees `wsNorm` is the identity (`C11_read_render_partial` is the special case) -/
theorem C11_wsNorm_of_normal (p : Pat) (hn : wsNormal p = true) : wsNorm p = p := wsNorm_of_wsNormal p hn

/-- hence `wsNormal` is EXACTLY the condition under which the round trip is the identity (for well-formed trees):
`C11_read_render_partial` cannot be strengthened -/
theorem C11_read_render_iff (sty : Style) (p : Pat) (hwf : WF p = true) :
    readPat (render sty p) = some p ↔ wsNormal p = true := by
  refine ⟨fun h => ?_, C11_read_render_partial sty p hwf⟩
  obtain ⟨h1, _, h3, _, _⟩ := C11_read_render_norm sty p hwf
  rw [h1] at h
  injection h with h
  rwa [h] at h3

/-- a tree that is not normal: empty `ws`, adjacent `ws` at top level, inside a group and inside an alternative -/
def unnormalTree : Pat :=
  [.ws [], .byte 1, .ws [32], .ws [], .ws [9], .group .j1 [] [.ws [10], .ws [13], .save], .alt [[.ws []], [.any, .ws [32], .ws [32]]],
   .ws [32], .ws []]

example : WF unnormalTree = true ∧ wsNormal unnormalTree = false ∧
    wsNorm unnormalTree =
      [.byte 1, .ws [32, 9], .group .j1 [] [.ws [10, 13], .save], .alt [[], [.any, .ws [32, 32]]], .ws [32]] := by
  decide +kernel

example : readPat (showPat unnormalTree) = some (wsNorm unnormalTree) :=
  (C11_read_render_norm {} unnormalTree (by decide +kernel)).1

/-- **T1 as a corollary** of the grammar theorem and the round trip: every rendered string is a string of the
grammar, its tree is `wsNorm p`, and `wsNorm p` compiles to the same atoms.  (`C11_parse_render` in
`Thm/C11.lean` is the direct proof; this shows `C11_grammar_covered` subsumes it.) -/
theorem C11_parse_render_of_grammar (sty : Style) (p : Pat) (hwf : WF p = true) :
    parse (render sty p) = .ok (compile p) := by
  obtain ⟨h1, h2, _, h4, _⟩ := C11_read_render_norm sty p hwf
  rw [← h4]
  exact C11_grammar_covered _ _ h1 h2

example : parse (render ⟨true, false⟩ normalTree) = .ok (compile normalTree) :=
  C11_parse_render_of_grammar _ _ (by decide +kernel)
example : parse (showPatUpper unnormalTree) = .ok (compile unnormalTree) :=
  C11_parse_render_of_grammar _ _ (by decide +kernel)

/-- `readStyled s = none` for a string of the grammar really means "outside the image of `render`": no
well-formed tree renders to `s` in any of the four styles (if one did, the reader would return its white space
normal form, which renders to `s` in the same style). -/
theorem C11_outside_render (s : List UInt8) (h : readStyled s = none) (sty : Style) (q : Pat) (hq : WF q = true) :
    render sty q ≠ s := by
  intro e
  obtain ⟨h1, _, _, _, h5⟩ := C11_read_render_norm sty q hq
  rw [e] at h1
  unfold readStyled at h
  rw [h1] at h
  simp only [List.findSome?_eq_none_iff] at h
  have hm : sty ∈ [(⟨false, false⟩ : Style), ⟨true, true⟩, ⟨false, true⟩, ⟨true, false⟩] := by
    obtain ⟨a, b⟩ := sty
    cases a <;> cases b <;> simp
  have := h sty hm
  rw [h5 sty, e] at this
  simp at this

example (sty : Style) (q : Pat) (hq : WF q = true) : render sty q ≠ mixedStr :=
  C11_outside_render mixedStr C11_mixedStr_outside_render sty q hq

end Pelite.PatSem
