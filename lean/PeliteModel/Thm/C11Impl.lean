import PeliteModel.Thm.C11
import PeliteModel.Lemmas.PatternSemImplFrag
/-!
C11 (semantic half), UNCONDITIONAL — "pattern strings mean what the syntax documentation says", without the
fragment restriction of `Thm/C11.lean`.

`Thm/C11.lean` proves T2 / T3 against `denote` only for `InFragment p` and shows (`C11_deviation_*`) that the
restriction cannot be dropped for THAT reading of the documentation.  `Spec/PatternSemImpl.lean` fixes a
second reading, `denoteImpl`: same trees, same items, same slot numbering; it differs from `denote` in the
two places the documentation leaves open —

* the LAST alternative of a `( | )` is not a scope of its own: it continues into what follows the `)`, so a
  `[a-b]` inside it looks for the first position at which the rest of the alternative AND what follows the `)`
  match (`semI` / `semAltsI`, a backtracking semantics with an explicit continuation);
* a `[a-b]` behind which nothing can fail up to the end of the pattern string has nothing to look for: it means
  `[a]` (`dropTrailing`).

Here:
* **T2'** `C11_exec_compile_impl` — `run S (compile p) c save₀ = ok (⟦p⟧ᵢ S c ≠ none, save)` and `save` holds every
  specified capture, for EVERY well-formed tree: every operator, any nesting, both pointer widths, file and
  mapped scan interfaces (`ScanI`, hypotheses as in T2).
* `C11_denoteImpl_eq_denote_on_fragment` — the two readings agree on the fragment; T2 of `Thm/C11.lean` is a
  corollary (`C11_exec_compile_partial_of_impl`).
* **T3'** `C11_pattern_string_semantics_impl` — the same end to end for pattern STRINGS (`parse (render sty p)`).
* `C11_deviation_*_impl` — on the deviation witnesses of `Thm/C11.lean`, `denoteImpl` agrees with the
  implementation where `denote` does not.
-/
namespace Pelite.PatSem
open Pelite.Pattern Pelite.Exec

/-! ## T2' — the interpreter implements `denoteImpl`, for every well-formed pattern -/

/-- **T2' (unconditional).**  Running the reference compiler's output at cursor `c` returns normally (no panic /
UB / divergence), answers `true` exactly when `denoteImpl` matches, and then the save array holds — in the
slots the caller's array has — the match position in slot 0 and every bookmarked cursor and sign- or
zero-extended read value `denoteImpl` specifies; its length is unchanged.  No `InFragment`: every well-formed
tree.  `S.WF` and `Coherent S` hold for every image below 4 GiB — raw buffers, mapped views, file views with
non-overlapping sections, PE32 and PE32+ (`C11_interfaces`). -/
theorem C11_exec_compile_impl {S : ScanI} (hS : S.WF) (hC : Coherent S) (p : Pat) (hwf : WF p = true)
    (c : Nat) (hc : c < 4294967296) (save0 : Array Nat) :
    ∃ save, run S (compile p) c save0 = .ok ((denoteImpl S p c).isSome, save) ∧ save.size = save0.size ∧
      ∀ c' w, denoteImpl S p c = some (c', w) → ∀ s v, (s, v) ∈ w → s < save0.size → save[s]? = some v :=
  run_compile_impl hS hC p hwf c hc save0

/-- the hypotheses are satisfiable OUTSIDE the fragment: both deviation witnesses are well formed -/
example : WF devLastAlt = true ∧ InFragment devLastAlt = false ∧ WF devTrailing = true ∧ InFragment devTrailing = false ∧
    (ofRaw .pe32 #[0xbb, 0xbb, 0xcc]).WF ∧ Coherent (ofRaw .pe32 #[0xbb, 0xbb, 0xcc]) :=
  ⟨by decide +kernel, by decide +kernel, by decide +kernel, by decide +kernel, C11_interfaces.1 _ _ (by decide)⟩

/-- every slot `denoteImpl` specifies lies in the range the syntax assigns: `[1, slotsItems 1 p)` plus slot 0 -/
theorem C11_impl_captures_in_range (S : ScanI) (p : Pat) (c c' : Nat) (w : Caps) (h : denoteImpl S p c = some (c', w)) :
    ∀ s v, (s, v) ∈ w → s < slotsItems 1 p := by
  simp only [denoteImpl, Option.map_eq_some_iff] at h
  obtain ⟨⟨c1, w1⟩, hs, he⟩ := h
  simp only [Prod.mk.injEq] at he
  obtain ⟨_, rfl⟩ := he
  intro s v hm
  rcases List.mem_append.1 hm with h1 | h1
  · have := (semI_done_slots S 1 _ c c1 w1 hs s v h1).2
    rwa [slots_dropTrailing] at this
  · simp only [List.mem_singleton, Prod.mk.injEq] at h1
    have := slotsItems_le 1 p
    omega

/-- slot 0 is the match position -/
theorem C11_impl_slot0_is_match_position (S : ScanI) (p : Pat) (c c' : Nat) (w : Caps)
    (h : denoteImpl S p c = some (c', w)) : (0, c) ∈ w := by
  simp only [denoteImpl, Option.map_eq_some_iff] at h
  obtain ⟨⟨c1, w1⟩, _, he⟩ := h
  simp only [Prod.mk.injEq] at he
  obtain ⟨_, rfl⟩ := he
  simp

/-! ## the two readings agree on the fragment -/

/-- **the two reference semantics differ only outside the fragment**: for `InFragment p` — every `[a-b]` stands
in a sequence that ends where its frame ends and none is trimmed — `denoteImpl` IS `denote`: same verdict, same
final cursor, same captures, on every image and at every cursor. -/
theorem C11_denoteImpl_eq_denote_on_fragment (S : ScanI) (p : Pat) (hfr : InFragment p = true) (c : Nat) :
    denoteImpl S p c = denote S p c :=
  denoteImpl_eq_denote S hfr c

example : InFragment exTree = true := by decide +kernel

/-- its two halves: in the fragment no `[a-b]` is a trailing one … -/
theorem C11_dropTrailing_on_fragment (p : Pat) (hfr : InFragment p = true) : dropTrailing true p = p :=
  dropTrailing_of_fragment hfr

/-- … and where every `[a-b]` retries over its documented scope, matching against a continuation is matching the
sequence and then the continuation (backtracking is unobservable) -/
theorem C11_semI_eq_sem (S : ScanI) (p : Pat) (hsc : scopeOK true p = true) (k c : Nat) :
    semI S k p c Kont.done = sem S k p c := by
  rw [semI_eq_sem S p k true c Kont.done hsc (fun _ => Total.done), bindK_done]

/-- T2 of `Thm/C11.lean` is a corollary of T2' -/
theorem C11_exec_compile_partial_of_impl {S : ScanI} (hS : S.WF) (hC : Coherent S) (p : Pat) (hwf : WF p = true)
    (hfr : InFragment p = true) (c : Nat) (hc : c < 4294967296) (save0 : Array Nat) :
    ∃ save, run S (compile p) c save0 = .ok ((denote S p c).isSome, save) ∧ save.size = save0.size ∧
      ∀ c' w, denote S p c = some (c', w) → ∀ s v, (s, v) ∈ w → s < save0.size → save[s]? = some v := by
  have h := C11_exec_compile_impl hS hC p hwf c hc save0
  rwa [C11_denoteImpl_eq_denote_on_fragment S p hfr c] at h

/-! ## T3' — pattern strings -/

/-- **T3' (unconditional).**  For EVERY well-formed pattern tree and every spelling `render sty p` of its pattern
string: the string parses, and executing the parsed pattern at `c` accepts exactly when `denoteImpl` does; on
success every specified slot holds the specified capture (slot 0 = the match position) and lies below the
advertised save length. -/
theorem C11_pattern_string_semantics_impl (sty : Style) (p : Pat) (hwf : WF p = true)
    {S : ScanI} (hS : S.WF) (hC : Coherent S) (c : Nat) (hc : c < 4294967296) (save0 : Array Nat) :
    ∃ atoms save, parse (render sty p) = .ok atoms ∧
      run S atoms c save0 = .ok ((denoteImpl S p c).isSome, save) ∧ save.size = save0.size ∧
      ∀ c' w, denoteImpl S p c = some (c', w) → ∀ s v, (s, v) ∈ w →
        (s < save0.size → save[s]? = some v) ∧ s + 1 ≤ saveLen atoms := by
  obtain ⟨save, h1, h2, h3⟩ := run_compile_impl hS hC p hwf c hc save0
  refine ⟨compile p, save, parse_render sty p hwf, h1, h2, ?_⟩
  intro c' w hd s v hm
  refine ⟨h3 c' w hd s v hm, ?_⟩
  have q1 := C11_impl_captures_in_range S p c c' w hd s v hm
  have q2 := saveLen_compile_ge p
  omega

/-- e.g. the documented example `83 c0 2a ( 6a ? | 68 ? ? ? ? ) e8` — and the same with a bounded skip in the last
alternative, outside the fragment — are well formed -/
example :
    WF [.byte 0x83, .byte 0xc0, .byte 0x2a, .alt [[.byte 0x6a, .any], [.byte 0x68, .any, .any, .any, .any]], .byte 0xe8] = true ∧
    WF [.byte 0x83, .byte 0xc0, .byte 0x2a, .alt [[.byte 0x6a, .any], [.byte 0x68, .range 0 8, .byte 0xc3]], .byte 0xe8] = true ∧
    InFragment [.byte 0x83, .byte 0xc0, .byte 0x2a, .alt [[.byte 0x6a, .any], [.byte 0x68, .range 0 8, .byte 0xc3]], .byte 0xe8] = false := by
  decide +kernel

/-! ## the deviation witnesses of `Thm/C11.lean` under the second reading -/

/-- **Deviation 1 resolved.**  On `bb bb cc`, `(aa|[0-3]bb)cc`: `denoteImpl` matches (skip 1 in the last
alternative, found because `cc` must follow) — as the implementation answers — while `denote` does not; the
mirrored pattern `([0-3]bb|aa)cc` (the `[a-b]` in a non-last alternative: a committed choice) does not match in
either reading nor in the implementation. -/
theorem C11_deviation_last_alternative_impl :
    denoteImpl (ofRaw .pe32 #[0xbb, 0xbb, 0xcc]) devLastAlt 0 = some (3, [(0, 0)]) ∧
    run (ofRaw .pe32 #[0xbb, 0xbb, 0xcc]) (compile devLastAlt) 0 #[0] = .ok (true, #[0]) ∧
    denote (ofRaw .pe32 #[0xbb, 0xbb, 0xcc]) devLastAlt 0 = none ∧
    denoteImpl (ofRaw .pe32 #[0xbb, 0xbb, 0xcc]) devFirstAlt 0 = none ∧
    run (ofRaw .pe32 #[0xbb, 0xbb, 0xcc]) (compile devFirstAlt) 0 #[0] = .ok (false, #[0]) ∧
    denote (ofRaw .pe32 #[0xbb, 0xbb, 0xcc]) devFirstAlt 0 = none := by
  decide +kernel

/-- **Deviation 2 resolved.**  `aa[0-5]` at the last byte of the buffer: `denoteImpl` matches (the trailing
`[0-5]` has nothing to look for) — as the implementation answers — while `denote` does not; `aa[0-5]'` (the
`[a-b]` is not trailing: a bookmark follows) does not match in either reading nor in the implementation. -/
theorem C11_deviation_trailing_range_impl :
    denoteImpl (ofRaw .pe32 #[0x00, 0xaa]) devTrailing 1 = some (2, [(0, 1)]) ∧
    run (ofRaw .pe32 #[0x00, 0xaa]) (compile devTrailing) 1 #[0] = .ok (true, #[1]) ∧
    denote (ofRaw .pe32 #[0x00, 0xaa]) devTrailing 1 = none ∧
    denoteImpl (ofRaw .pe32 #[0x00, 0xaa]) devTrailingSave 1 = none ∧
    run (ofRaw .pe32 #[0x00, 0xaa]) (compile devTrailingSave) 1 #[0, 0] = .ok (false, #[1, 0]) ∧
    denote (ofRaw .pe32 #[0x00, 0xaa]) devTrailingSave 1 = none := by
  decide +kernel

/-- what `dropTrailing` does on the two: `aa[0-5]` becomes `aa[0]`, `aa[0-5]'` stays -/
theorem C11_deviation_trailing_range_trees :
    dropTrailing true devTrailing = [.byte 0xaa, .skip 0] ∧ dropTrailing true devTrailingSave = devTrailingSave := by
  simp [dropTrailing, trailingItem, devTrailing, devTrailingSave]

/-- a trailing `[a-b]` inside a brace body / a last alternative at the end of the pattern string is trailing, too:
`e8 ${ aa [0-5] }`, `( bb | aa [1-5] ? )`; in a non-last alternative it is not: `( aa [1-5] | bb )` -/
example :
    dropTrailing true [.byte 0xe8, .group .j4 [] [.byte 0xaa, .range 0 5]] = [.byte 0xe8, .group .j4 [] [.byte 0xaa, .skip 0]] ∧
    dropTrailing true [.alt [[.byte 0xbb], [.byte 0xaa, .range 1 5, .any]]] = [.alt [[.byte 0xbb], [.byte 0xaa, .skip 1, .any]]] ∧
    dropTrailing true [.alt [[.byte 0xaa, .range 1 5], [.byte 0xbb]]] = [.alt [[.byte 0xaa, .range 1 5], [.byte 0xbb]]] := by
  simp [dropTrailing, dropTrailingAlts, trailingItem]

example : compile [.byte 0xe8, .group .j4 [] [.byte 0xaa, .range 0 5]] = [.save 0, .byte 0xe8, .push 4, .jump4, .byte 0xaa] := by
  decide +kernel

/-- a deeper witness, evaluated by the kernel on both sides: a bounded skip in the last alternative of a group
inside a brace body, retrying over what follows the `)` up to the `}` — `e8 ${ ( 00 | [0-4] 11 ' ) 22 } u1` on
`e8 01000000 7f 11 11 22` : the skip must be 1 (the first `11` is not followed by `22`) -/
theorem C11_impl_nested_witness :
    denoteImpl (ofRaw .pe64 #[0xe8, 1, 0, 0, 0, 0x7f, 0x11, 0x11, 0x22])
      [.byte 0xe8, .group .j4 [] [.alt [[.byte 0x00], [.range 0 4, .byte 0x11, .save]], .byte 0x22], .readU 1] 0
      = some (6, [(2, 0x7f), (1, 8), (0, 0)]) ∧
    run (ofRaw .pe64 #[0xe8, 1, 0, 0, 0, 0x7f, 0x11, 0x11, 0x22])
      (compile [.byte 0xe8, .group .j4 [] [.alt [[.byte 0x00], [.range 0 4, .byte 0x11, .save]], .byte 0x22], .readU 1])
      0 #[0, 0, 0] = .ok (true, #[0, 8, 0x7f]) ∧
    denote (ofRaw .pe64 #[0xe8, 1, 0, 0, 0, 0x7f, 0x11, 0x11, 0x22])
      [.byte 0xe8, .group .j4 [] [.alt [[.byte 0x00], [.range 0 4, .byte 0x11, .save]], .byte 0x22], .readU 1] 0 = none := by
  decide +kernel

end Pelite.PatSem
