import PeliteModel.Lemmas.Pattern
/-!
C11 (first sentence) and C02 for the pattern parser `pelite::pattern::parse`
(model: `Pelite.Pattern.parse`, Model/Pattern.lean).  Property theorems only; the loop invariant and
helper lemmas are in Lemmas/Pattern.lean.

Vocabulary (Lemmas/Pattern.lean): `slotOf a` = the save slot atom `a` touches (the atoms `save_len`
looks at); `argOf a` = its `u8` argument; `isRedundant` = `Skip | Rangext | Pop | Many` (what the parser
trims from the end); `PushNext k b` = `b` is `Push(k)` again or the jump atom `Push(k)` was made from;
`WellFormed l` / `TrimmedOK l` = the structural facts below, bundled.
-/
namespace Pelite.Pattern

/-! ## (a) totality and error position -/

/-- **C11, first sentence.** Parsing any byte string (in particular any `&str`) yields either a
pattern or an error whose position lies within the input. -/
theorem C11_parse_total (s : List UInt8) :
    (∃ atoms, parse s = .ok atoms) ∨ (∃ k pos, parse s = .err k pos ∧ pos ≤ s.length) := by
  have := parse_good s
  cases h : parse s with
  | ok atoms => exact Or.inl ⟨atoms, rfl⟩
  | err k pos => rw [h] at this; exact Or.inr ⟨k, pos, rfl, this.1⟩
  | panic site => rw [h] at this; exact this.elim
  | diverge => rw [h] at this; exact this.elim

/-- **C02 for the parser.** No arm of `parse_helper` can panic in a checked build — the `u8` counters
`save` and `depth`, the `u32` accumulation `bound * 10 + d`, the `usize` offset subtractions
`result.len() - sub.case - 1`, `result.len() - brk - 1`, the indexings `result[sub.case]`, `result[brk]`,
the nibble arithmetic and the final pointer subtraction — and the loop terminates. -/
theorem C02_parse_never_panics (s : List UInt8) : (∀ site, parse s ≠ .panic site) ∧ parse s ≠ .diverge := by
  have := parse_good s
  constructor
  · intro site h; rw [h] at this; exact this
  · intro h; rw [h] at this; exact this

/-- The reported position is an offset of the input, and it is strictly inside it except for the two
kinds that are (also) detected after the last byte (`StackError`: unclosed `{`, `SubPattern`: unclosed `(`). -/
theorem C11_error_position (s : List UInt8) (k : PatErr) (pos : Nat) (h : parse s = .err k pos) :
    pos ≤ s.length ∧ (pos < s.length ∨ k = .stackError ∨ k = .subPattern) := by
  have := parse_good s
  rw [h] at this
  exact this

/-- The position is the value of `*pat`, which the two `continue` statements (after a coalesced `?`
and after `[n]`) do not advance: it can lag behind the offending token (`X` is at offset 2 resp. 3).
Still inside the input, as C11 demands. -/
example : parse "??X".toUTF8.toList = .err .unknownChar 1 := by decide +kernel
example : parse "[5]X".toUTF8.toList = .err .unknownChar 0 := by decide +kernel
example : parse "12 X".toUTF8.toList = .err .unknownChar 3 := by decide +kernel

/-- **The `unsafe` block of the parser.** `*pat = unsafe { str::from_utf8_unchecked(iter.as_slice()) }`
is executed at the bottom of the loop body only; in every reachable loop state (`Reach`: start state,
then one `tok` step at a time) the value of `*pat` is the whole input or begins directly behind an
ASCII byte (every token ends in one: an operator character, a hex digit, the closing `"`, `]`, the
operand of `@`/`i`/`u`).  A byte `< 0x80` is never part of a multi-byte UTF-8 sequence, so for a `&str`
input the slice is valid UTF-8 and the unchecked conversion is sound. -/
theorem C11_pat_char_boundary (s rest pat : List UInt8) (st : PSt) (h : Reach s rest pat st) :
    (∃ pre, s = pre ++ rest) ∧ (pat = s ∨ ∃ pre b, s = pre ++ b :: pat ∧ b.toNat < 128) :=
  h.bnd

/-- consequently a reported error position is 0 or directly behind an ASCII byte (a char boundary) -/
theorem C11_error_position_char_boundary (s : List UInt8) (k : PatErr) (pos : Nat) (h : parse s = .err k pos) :
    pos = 0 ∨ ∃ b, s[pos - 1]? = some b ∧ b.toNat < 128 :=
  parse_err_boundary h

/-- non-vacuity: the state reached on `"é"12` after the quoted string (`*pat` behind the closing quote) -/
example : Reach [34, 195, 169, 34, 49, 50] [49, 50] [49, 50]
    { result := #[.save 0, .byte 195, .byte 169], save := 1, depth := 0, subs := [], subEnd := 0 } :=
  Reach.step (c := 34) (rest := [195, 169, 34, 49, 50])
    (nx := ⟨{ result := #[.save 0, .byte 195, .byte 169], save := 1, depth := 0, subs := [], subEnd := 0 }, [49, 50], true⟩)
    Reach.init rfl

/-! ## (b) slots, `save_len`, offsets -/

/-- **C11, last clause (parser side).** For every successfully parsed pattern the advertised save
length is between 1 and 255 and covers every slot that an atom of the pattern reads or writes; every
emitted slot index is below the parser's final save counter, which is at most 255. -/
theorem C11_save_len_covers (s : List UInt8) (atoms : List Atom) (h : parse s = .ok atoms) :
    1 ≤ saveLen atoms ∧ saveLen atoms ≤ 255 ∧
    ∀ a ∈ atoms, ∀ k, slotOf a = some k → k < saveLen atoms ∧ k < 255 := by
  obtain ⟨tail, hw, ht, hl⟩ := parse_ok_struct h
  have htr := trimmedOK_of hw ht hl
  refine ⟨?_, saveLen_le htr.slots, ?_⟩
  · have := saveLen_covers (List.mem_of_getElem? htr.first) (k := 0) rfl
    omega
  · intro a ha k hk
    exact ⟨saveLen_covers ha hk, htr.slots a ha k hk⟩

/-- `save_len` covers the slots of ANY atom list (by definition of `save_len`; no parser involved). -/
theorem C11_save_len_covers_any (l : List Atom) (a : Atom) (ha : a ∈ l) (k : Nat) (hk : slotOf a = some k) :
    k + 1 ≤ saveLen l :=
  saveLen_covers ha hk

/-- **Structure before trimming.** The atoms returned by a successful parse are a well-formed vector
minus a tail of redundant atoms: in `atoms ++ tail` the first atom is `Save(0)`, every `Push(k)` is
directly followed by `Push(k)` or its jump atom, every `Case(n)` at `i` points at a `Case`/`Nop` at
`i+1+n` inside the vector, every `Break(n)` at `i` has `i+1+n ≤` the length (inside or exactly at the
end), every argument fits a `u8` and every slot is `< 255`; the trimmed tail consists of
`Skip/Rangext/Pop/Many` only and `atoms` does not end in such an atom. -/
theorem C11_parse_wellformed (s : List UInt8) (atoms : List Atom) (h : parse s = .ok atoms) :
    ∃ tail, WellFormed (atoms ++ tail) ∧ (∀ a ∈ tail, isRedundant a = true) ∧
      (∀ a, atoms[atoms.length - 1]? = some a → isRedundant a = false) :=
  parse_ok_struct h

/-- **Structure after trimming.** Everything above survives for `atoms` itself — in particular `Case`
targets stay inside the returned list — EXCEPT the bound on `Break` targets (next theorem). -/
theorem C11_parse_trimmed (s : List UInt8) (atoms : List Atom) (h : parse s = .ok atoms) : TrimmedOK atoms := by
  obtain ⟨tail, hw, ht, hl⟩ := parse_ok_struct h
  exact trimmedOK_of hw ht hl

/-- After trimming a `Break(n)` at `i` satisfies `i+1+n ≤ atoms.length + (number of trimmed atoms)`:
its target is inside the list, at its end, or inside the trimmed redundant tail. -/
theorem C11_break_target_after_trim (s : List UInt8) (atoms : List Atom) (h : parse s = .ok atoms) :
    ∃ tail : List Atom, (∀ a ∈ tail, isRedundant a = true) ∧
      ∀ i n, atoms[i]? = some (.brk n) → i + 1 + n ≤ atoms.length + tail.length := by
  obtain ⟨tail, hw, ht, _⟩ := parse_ok_struct h
  refine ⟨tail, ht, ?_⟩
  intro i n hi
  have := hw.brkT i n (getElem?_append_left' hi)
  simpa using this

/-- The statement "Break offsets stay inside or exactly at the end of the returned list" is FALSE
after trimming: here `Break(2)` at index 3 targets index 6 of a list of length 5 (the trimmed `Skip(1)`
was the whole second alternative). -/
example : parse "(12|?)".toUTF8.toList = .ok [.save 0, .case 2, .byte 0x12, .brk 2, .nop] := by decide +kernel

/-! ## (c) structural facts for the interpreter proof -/

/-- the first atom is `Save(0)` -/
theorem C11_first_atom (s : List UInt8) (atoms : List Atom) (h : parse s = .ok atoms) :
    atoms[0]? = some (.save 0) :=
  (C11_parse_trimmed s atoms h).first

/-- The statement "every `Push` is immediately followed by its jump atom" is FALSE: `{{` duplicates
the `Push` (the second `{` sees the jump atom again). -/
example : parse "${{'}}".toUTF8.toList = .ok [.save 0, .push 4, .push 4, .jump4, .save 1] := by decide +kernel

/-- `_partial` (strongest true form): every `Push(k)` of a parsed pattern has `k ∈ {0 (Ptr), 1, 4}` and
starts a run of identical `Push(k)` atoms that ends in the jump atom it was made from
(`Jump1` for 1, `Jump4` for 4, `Ptr` for 0), all inside the returned list. -/
theorem C11_push_followed_by_jump_partial (s : List UInt8) (atoms : List Atom) (h : parse s = .ok atoms)
    (i k : Nat) (hi : atoms[i]? = some (.push k)) :
    (k = 0 ∨ k = 1 ∨ k = 4) ∧
    ∃ j b, i < j ∧ (∀ m, i ≤ m → m < j → atoms[m]? = some (.push k)) ∧ atoms[j]? = some b ∧ jumpFor k b := by
  obtain ⟨tail, hw, ht, _⟩ := parse_ok_struct h
  have hi' := getElem?_append_left' (tail := tail) hi
  refine ⟨hw.push_arg hi', ?_⟩
  obtain ⟨j, b, h1, h2, h3, h4⟩ := hw.push_run _ i k (Nat.le_refl _) hi'
  have hb : isRedundant b = false := by
    rcases h4 with ⟨_, rfl⟩ | ⟨_, rfl⟩ | ⟨_, rfl⟩ <;> rfl
  refine ⟨j, b, h1, ?_, getElem?_append_of_not_redundant ht h3 hb, h4⟩
  intro m hm1 hm2
  exact getElem?_append_of_not_redundant ht (h2 m hm1 hm2) rfl

/-- The statement "`Pop`s are balanced with `Push`es in every successfully parsed pattern" is FALSE:
`depth` is *reset* at `|` and `)` instead of being checked, so braces may be left open or be closed
twice inside alternatives.  First: a `Push` that is never popped; second: one `Push`, and on every
path through the alternatives two `Pop`s (the last one trimmed). -/
example : parse "(${|)".toUTF8.toList = .ok [.save 0, .case 3, .push 4, .jump4, .brk 1, .nop] := by decide +kernel
example : parse "${(}|})} 00".toUTF8.toList =
    .ok [.save 0, .push 4, .jump4, .case 2, .pop, .brk 2, .nop, .pop, .pop, .byte 0] := by decide +kernel
/-- … although the same unbalanced brace is rejected outside of alternatives -/
example : parse "${".toUTF8.toList = .err .stackError 2 := by decide +kernel

/-- `_partial`: for a pattern string without the byte `(` the untrimmed vector has exactly as many
`Push` as `Pop` atoms (the trimmed tail can only have removed `Pop`s: `#Push = #Pop + #trimmed Pop`). -/
theorem C11_push_pop_balanced_partial (s : List UInt8) (atoms : List Atom)
    (hno : ∀ c ∈ s, c ≠ (40 : UInt8)) (h : parse s = .ok atoms) :
    ∃ tail : List Atom, (∀ a ∈ tail, isRedundant a = true) ∧
      atoms.countP isPush = atoms.countP isPop + tail.countP isPop := by
  obtain ⟨tail, ht, hc⟩ := parse_balanced_of_no_paren hno h
  refine ⟨tail, ht, ?_⟩
  have hz : tail.countP isPush = 0 := by
    apply List.countP_eq_zero.mpr
    intro a ha
    have := ht a ha
    cases a <;> simp_all [isRedundant, isPush]
  simp only [List.countP_append] at hc
  omega

/-- hypotheses satisfiable on a non-trivial instance (the repository's own vector) -/
example : (∀ c ∈ "B9'?? 68???? E8${'} 8B".toUTF8.toList, c ≠ (40 : UInt8)) := by decide +kernel

/-! ## Non-vacuity: the repository's own test vectors (pattern.rs `mod tests`) -/

example : parse "12 34 56 ? ?".toUTF8.toList = .ok [.save 0, .byte 0x12, .byte 0x34, .byte 0x56] := by
  decide +kernel
example : parse "B9'?? 68???? E8${'} 8B".toUTF8.toList = .ok
    [.save 0, .byte 0xB9, .save 1, .skip 2, .byte 0x68, .skip 4, .byte 0xE8, .push 4, .jump4, .save 2, .pop, .byte 0x8B] := by
  decide +kernel
example : parse "${%{${%{}}}}".toUTF8.toList = .ok
    [.save 0, .push 4, .jump4, .push 1, .jump1, .push 4, .jump4, .push 1, .jump1] := by decide +kernel
example : parse "*{\"hello\"00}".toUTF8.toList = .ok
    [.save 0, .push 0, .ptr, .byte 104, .byte 101, .byte 108, .byte 108, .byte 111, .byte 0] := by decide +kernel
example : parse "b8 [16] 50 [13-42] ff".toUTF8.toList = .ok
    [.save 0, .byte 0xb8, .skip 16, .byte 0x50, .skip 13, .many 29, .byte 0xff] := by decide +kernel
example : parse "e9 $ @4".toUTF8.toList = .ok [.save 0, .byte 0xe9, .jump4, .aligned 4] := by decide +kernel
example : parse "83 c0 2a ( 6a ? | 68 ? ? ? ? ) e8".toUTF8.toList = .ok
    [.save 0, .byte 0x83, .byte 0xc0, .byte 0x2a, .case 3, .byte 0x6a, .skip 1, .brk 3,
     .nop, .byte 0x68, .skip 4, .byte 0xe8] := by decide +kernel
example : saveLen [.save 0, .byte 0xB9, .save 1, .skip 2, .readU32 2] = 3 := by decide
example : parse "}}".toUTF8.toList = .err .stackError 0 := by decide +kernel
example : parse "AB {}".toUTF8.toList = .err .stackInvalid 3 := by decide +kernel
example : parse "123".toUTF8.toList = .err .unpairedHexDigit 2 := by decide +kernel
example : parse "EE BZ".toUTF8.toList = .err .unpairedHexDigit 3 := by decide +kernel
example : parse "é".toUTF8.toList = .err .unknownChar 0 := by decide +kernel
example : parse "@".toUTF8.toList = .err .alignedOperand 0 := by decide +kernel
example : parse "\"unbalanced".toUTF8.toList = .err .unclosedQuote 0 := by decide +kernel
example : parse "[-2]".toUTF8.toList = .err .manyInvalid 0 := by decide +kernel
example : parse "[20-1]".toUTF8.toList = .err .manyRange 0 := by decide +kernel
example : parse "[20000-40000]".toUTF8.toList = .err .manyOverflow 0 := by decide +kernel

end Pelite.Pattern
