import PeliteModel.Lemmas.ResIco
import PeliteModel.Lemmas.ResFsckLimit
import PeliteModel.Lemmas.ResSink
/-!
C12 — resource tree traversal, lookup and reassembly reflect the stored directory.

Property theorems only; helper lemmas are in Lemmas/Res*.lean.  The model is
Model/{Resources,ResFind,ResGroup}.lean, the specification (abstract tree, layout relation `IsNode`,
reference writer, documented name matching, `.ico` files) is Spec/Resources.lean.

Throughout, `Aligned r` says that the section starts at a multiple of 4, which is what
`Pe::resources` establishes (`C12_resources_aligned`).  `Safe o` = the operation neither panics nor
dereferences outside the section / misaligned nor runs out of fuel; `IsVal o` = it returns a Rust value.
-/
namespace Pelite.Resources
open Pelite

/-! ## 1. Arbitrary section bytes: no ub, no panic, references in bounds, bounded work -/

/-- `Pe::resources` hands `Resources::new` a section that lies inside the image buffer, starts at a
4-aligned address, is clamped to the directory `Size`, and carries the directory RVA. -/
theorem C12_resources_aligned (v : Pe.View) (r : Resources) (secOff : Nat) (h : ofView v = .ok (r, secOff)) :
    Aligned r ∧ secOff + r.sec.size ≤ v.img.bytes.size ∧ r.base = v.img.base + secOff ∧
    ∃ va size, v.dataDir 2 = some (va, size) ∧ r.dirVA = va ∧ r.sec.size ≤ size ∧
      r.sec = v.b.extract secOff (secOff + r.sec.size) :=
  ofView_ok h

/-- C02 / C03 (termination) for everything in `resources/mod.rs` and `art.rs`, for arbitrary section
bytes: root, the consistency checks and both `Display` implementations end in a value or an error. -/
theorem C12_safe_traversal (r : Resources) (hb : Aligned r) :
    Safe (root r) ∧ Safe (fsck r) ∧ Safe (display r) ∧
    (∀ off, Safe (dirTryFrom r off) ∧ Safe (dataTryFrom r off)) ∧
    (∀ d, DirOK r d → Safe (d.entries r) ∧ Safe (d.fsck r) ∧ Safe (d.display r)) ∧
    (∀ e : DirEntry, Safe (e.getName r) ∧ Safe (e.entry r) ∧ Safe (e.fsck r)) ∧
    (∀ de : DataEntry, Safe (de.bytes r) ∧ Safe (de.fsck r)) :=
  ⟨safe_root hb, safe_fsck hb, safe_display hb,
   fun off => ⟨safe_dirTryFrom hb off, safe_dataTryFrom hb off⟩,
   fun _ hd => ⟨safe_entries hb hd, safe_dirFsck hb hd, safe_dirDisplay hb hd⟩,
   fun e => ⟨safe_getName hb e, safe_entry hb e, safe_entryFsck hb e⟩,
   fun de => ⟨safe_bytes r de, safe_dataFsck r de⟩⟩

/-- every directory the code hands out satisfies the invariant `DirOK` the unchecked accesses rely on -/
theorem C12_dir_invariant (r : Resources) (hb : Aligned r) :
    (∀ off d, dirTryFrom r off = .ok d → DirOK r d ∧ d.off = off) ∧
    (∀ (e : DirEntry) d, e.entry r = .ok (.dir d) → DirOK r d) :=
  ⟨fun off d h => ⟨(dirTryFrom_ok hb h).1, by rw [(dirTryFrom_ok hb h).2]⟩,
   fun _ _ h => (entry_dir_ok hb h).1⟩

/-- C02 for the find API (`find.rs`), for arbitrary section bytes and arbitrary paths / names: every
lookup returns a Rust `Result` (possibly `Err(FindError)`), never panics, never reads outside. -/
theorem C12_safe_find (r : Resources) (hb : Aligned r) :
    (∀ p, IsVal (find r p) ∧ IsVal (findData r p) ∧ IsVal (findDir r p)) ∧
    (∀ d, DirOK r d → ∀ q, IsVal (d.get r q) ∧ IsVal (d.getData r q) ∧ IsVal (d.getDir r q)) ∧
    (∀ d, DirOK r d → IsVal (d.first r) ∧ IsVal (d.firstData r) ∧ IsVal (d.firstDir r)) ∧
    (∀ d, DirOK r d → ∀ p, IsVal (d.find r p)) ∧
    (∀ t n, IsVal (findResource r t n) ∧ IsVal (findResources r t n)) ∧
    (∀ t n l, IsVal (findResourceEx r t n l)) ∧
    IsVal (manifest r) ∧ IsVal (versionBytes r) ∧ IsVal (versionInfo r) :=
  ⟨fun p => ⟨isVal_find hb p, isVal_findData hb p, isVal_findDir hb p⟩,
   fun _ hd q => ⟨isVal_get hb hd q, isVal_getData hb hd q, (isVal_getDir hb hd q).1⟩,
   fun _ hd => ⟨(isVal_first hb hd).1, isVal_firstData hb hd, (isVal_firstDir hb hd).1⟩,
   fun _ hd p => isVal_dirFind hb hd p,
   fun t n => ⟨isVal_findResource hb t n, (isVal_findResources hb t n).1⟩,
   fun t n l => isVal_findResourceEx hb t n l,
   isVal_manifest hb, isVal_versionBytes hb, isVal_versionInfo hb⟩

/-- C02 for `group.rs` and `icons()` / `cursors()`: the iterators always yield a list of results;
every group they hold satisfies the invariant of `GroupResource::new`; on such a group `entries`,
`ty`, `image` and `write` (into a vector) cannot fail other than by a `FindError` value. -/
theorem C12_safe_groups (r : Resources) (hb : Aligned r) :
    (∀ ty, ∃ items, groups r ty = .ok items ∧ ∀ it ∈ items, ItemOK r it) ∧
    (∀ bytes : Ref, bytes.off + bytes.len ≤ r.sec.size → Safe (groupNew r bytes) ∧
      ∀ g, groupNew r bytes = .ok g → GroupOK r g) ∧
    (∀ g, GroupOK r g →
      g.entries r = .ok (groupEntriesFrom r (g.off + 6) g.count) ∧
      (∃ t, g.typeId = .ok t ∧ (t = RT_ICON ∨ t = RT_CURSOR)) ∧
      (∀ id, IsVal (g.image r id)) ∧ ∃ out, g.write r = .ok out) :=
  ⟨fun ty => groups_ok hb ty,
   fun _ hbnd => ⟨safe_groupNew hbnd, fun _ h => (groupNew_ok hbnd h).1⟩,
   fun _ hg => ⟨groupEntries_eq hg, typeId_ok hg, fun id => isVal_image hb hg id, write_ok hb hg⟩⟩

/-- Why the alignment hypothesis: `Resources::new` is public and takes any slice, but the accessors
check the alignment of *offsets* only.  A zeroed 16-byte section at an odd address is dereferenced
as `&IMAGE_RESOURCE_DIRECTORY` — undefined behaviour (not reachable through `Pe::resources`). -/
theorem C12_unaligned_section_is_ub_partial :
    (root ⟨Array.replicate 16 0, 0, 1⟩).isUb = true ∧ root ⟨Array.replicate 16 0, 0, 4⟩ = .ok ⟨0, 0, 0⟩ := by
  decide

/-- C01: every reference handed back — directory headers, entry records, name words, data entry
headers and data bytes — lies inside the section and is aligned for its type. -/
theorem C12_refs_ok (r : Resources) (hb : Aligned r) :
    (∀ d, DirOK r d → RefOK r.img d.ref ∧ ∀ e ∈ entriesFrom r (d.off + 16) (d.named + d.ids), RefOK r.img e.ref) ∧
    (∀ (e : DirEntry) w, e.nameRef r = .ok (some w) → RefOK r.img w ∧ w.align = 2) ∧
    (∀ off de, dataTryFrom r off = .ok de → RefOK r.img de.ref) ∧
    (∀ (de : DataEntry) ref, de.bytes r = .ok ref → RefOK r.img ref) := by
  refine ⟨fun d hd => ⟨dirRef_ok hb hd, fun e he => entryRef_ok hb hd he⟩, fun e w h => ⟨nameRef_ok hb h, ?_⟩,
    fun _ _ h => dataRef_ok hb h, fun _ _ h => bytesRef_ok h⟩
  rw [nameRef_eq hb] at h
  repeat (first | (split at h) | cases h | rfl)

/-- C03, printer: the text of `Display for Resources` is `"Resources/\n"` followed by one record per
entry drawn, and at most `(len / 16) * (len / 8)` entries are drawn — whatever the bytes are (in
particular for directories that contain themselves or share children). -/
theorem C12_display_work (r : Resources) (hb : Aligned r) (text : List Nat) (h : display r = .ok text) :
    (∃ e, root r = .err e ∧ text = asc "Resources/\n" ++ errText e) ∨
    ∃ records : List (List Nat), text = asc "Resources/\n" ++ records.flatten ∧
      records.length ≤ (r.sec.size / 16) * (r.sec.size / 8) :=
  display_work hb h

/-- C03, fsck: the instrumented twin `fsckDirW` returns exactly the model's result, never has more
budget left than it was given, and examines at most `len / 8` directory entries per unit of budget
it consumed; with the initial budget `len / 16` that is at most `(len / 16) * (len / 8)` entries. -/
theorem C12_fsck_work (r : Resources) (hb : Aligned r) (d : Dir) (hd : DirOK r d) :
    (fsckDirW r FSCK_MAX_DEPTH d (fsckBudget r)).1 = fsckDir r FSCK_MAX_DEPTH d (fsckBudget r) ∧
    (fsckDirW r FSCK_MAX_DEPTH d (fsckBudget r)).2.2 ≤ (r.sec.size / 16) * (r.sec.size / 8) := by
  refine ⟨(fsckDirW_fst r _ d _).1, ?_⟩
  obtain ⟨_, h2⟩ := fsckDirW_work hb FSCK_MAX_DEPTH d (fsckBudget r) hd
  exact Nat.le_trans h2 (Nat.mul_le_mul_right _ (Nat.sub_le _ _))

/-! ## 2. One level of traversal -/

/-- `entries()` is the stored array: `NumberOfNamedEntries + NumberOfIdEntries` records of 8 bytes
right after the 16-byte header, in stored order, and it is `named_entries()` followed by `id_entries()`. -/
theorem C12_entries (r : Resources) (hb : Aligned r) (d : Dir) (hd : DirOK r d) :
    ∃ all named ids, d.entries r = .ok all ∧ d.namedEntries r = .ok named ∧ d.idEntries r = .ok ids ∧
      all = named ++ ids ∧ named.length = d.named ∧ ids.length = d.ids ∧
      d.named = le16 r.sec (d.off + 12) ∧ d.ids = le16 r.sec (d.off + 14) ∧
      ∀ i, i < d.named + d.ids →
        all[i]? = some ⟨d.off + 16 + 8 * i, le32 r.sec (d.off + 16 + 8 * i), le32 r.sec (d.off + 16 + 8 * i + 4)⟩ :=
  ⟨_, _, _, entries_eq hb hd, namedEntries_eq hb hd, idEntries_eq hb hd, entriesFrom_append r _ _ _,
   entriesFrom_length r _ _, entriesFrom_length r _ _, hd.2.2.1, hd.2.2.2,
   fun i hi => entriesFrom_get r _ _ i hi⟩

/-- `name()`: an id when the high bit of the Name field is clear; otherwise the length-prefixed
UTF-16 string at the offset in the low 31 bits, `Misaligned` for an odd offset and `Bounds` when the
length word or the words do not fit. -/
theorem C12_name (r : Resources) (hb : Aligned r) (e : DirEntry) :
    e.getName r =
      if e.name < 0x80000000 then .ok (.id e.name)
      else if (e.name % 0x80000000) % 2 ≠ 0 then .err .misaligned
      else if e.name % 0x80000000 + 2 > r.sec.size then .err .bounds
      else if e.name % 0x80000000 + 2 + le16 r.sec (e.name % 0x80000000) * 2 > r.sec.size then .err .bounds
      else .ok (.wide (wordsAt r.sec (e.name % 0x80000000 + 2) (le16 r.sec (e.name % 0x80000000)))) :=
  getName_eq hb e

/-- `entry()`: the high bit of the Offset field selects a sub-directory (validated at the offset in
the low 31 bits) or a data entry (at the offset itself); `is_dir()` is that bit. -/
theorem C12_entry_target (r : Resources) (hb : Aligned r) (e : DirEntry) :
    (e.isDir = true ↔ e.offset ≥ 0x80000000) ∧
    (∀ d, e.entry r = .ok (.dir d) → e.offset ≥ 0x80000000 ∧ d.off = e.offset % 0x80000000 ∧
      dirTryFrom r (e.offset % 0x80000000) = .ok d) ∧
    (∀ de, e.entry r = .ok (.data de) → e.offset < 0x80000000 ∧ de.off = e.offset ∧
      de = ⟨e.offset, le32 r.sec e.offset, le32 r.sec (e.offset + 4), le32 r.sec (e.offset + 8)⟩) := by
  refine ⟨by simp [DirEntry.isDir], fun d h => ?_, fun de h => ?_⟩
  · obtain ⟨_, h2, h3⟩ := entry_dir_ok hb h
    refine ⟨h2, h3, ?_⟩
    rw [entry_eq, if_pos h2] at h
    cases hd : dirTryFrom r (e.offset % 0x80000000) with
    | ok d' => rw [hd] at h; cases h; rfl
    | _ => rw [hd] at h; cases h
  · obtain ⟨h1, h2⟩ := entry_data_ok h
    rw [dataTryFrom_eq hb] at h2
    by_cases c1 : e.offset % 4 ≠ 0
    · rw [if_pos c1] at h2; cases h2
    · rw [if_neg c1] at h2
      by_cases c2 : e.offset + 16 > r.sec.size
      · rw [if_pos c2] at h2; cases h2
      · rw [if_neg c2] at h2; cases h2; exact ⟨h1, rfl, rfl⟩

/-- `bytes()`: exactly `Size` bytes at `OffsetToData - directory RVA`; `Overflow` when the
subtraction or the addition leaves `u32`, `Bounds` when the range is not inside the section.
`size()` and `code_page()` are the stored fields. -/
theorem C12_data_bytes (r : Resources) (de : DataEntry) :
    de.bytes r =
      (if de.offsetToData < r.dirVA then .err .overflow
       else if de.offsetToData - r.dirVA + de.size ≥ 4294967296 then .err .overflow
       else if de.offsetToData - r.dirVA + de.size > r.sec.size then .err .bounds
       else .ok ⟨de.offsetToData - r.dirVA, de.size, 1⟩) ∧
    de.sizeOf = de.size ∧ de.codePageOf = de.codePage :=
  ⟨rfl, rfl, rfl⟩

/-! ## 3. The whole tree -/

/-- Traversing a section that represents the tree `t` (layout relation `IsTree`) with `entries`,
`name`, `entry`, `bytes` and `code_page` reports exactly `t`: at every level the entries in stored
order with their names, sub-directories and data entries, data bytes and code pages. -/
theorem C12_traversal_reports_tree (r : Resources) (hb : Aligned r) (t : Node) (h : IsTree r t) (k : Nat)
    (hk : t.depth ≤ k) : readTree r k = .ok t :=
  readTree_of_isTree hb h hk

/-- The reference writer produces a section that represents the tree (so the hypothesis `IsTree` of
the theorems of this file is satisfiable for every encodable tree, of any size and depth). -/
theorem C12_writer_represents (dirVA : Nat) (t : Node) (h : Encodable dirVA t) :
    IsTree (resourcesOf dirVA t) t ∧ Aligned (resourcesOf dirVA t) ∧ (resourcesOf dirVA t).sec.size = t.size :=
  ⟨isTree_resourcesOf h, aligned_resourcesOf dirVA t, resourcesOf_size dirVA t⟩

/-- Round trip: writing any encodable tree and traversing the result gives the tree back. -/
theorem C12_round_trip (dirVA : Nat) (t : Node) (h : Encodable dirVA t) :
    readTree (resourcesOf dirVA t) t.depth = .ok t :=
  readTree_of_isTree (aligned_resourcesOf dirVA t) (isTree_resourcesOf h) (Nat.le_refl _)

/-! ## 4. Name matching -/

/-- The `RSRC_TYPES` table transcribed from the source is `#` + the winuser.h `RT_*` name at
exactly the predefined ids, and nothing anywhere else. -/
theorem C12_rsrc_types_table :
    rsrcTypes.length = 25 ∧
    (∀ n, n < 25 → typeName rsrcTypes n = (msResourceTypes.find? (·.1 = n)).map fun p => 35 :: asc p.2) ∧
    msResourceTypes.map (·.1) = [1, 2, 3, 4, 5, 6, 7, 8, 9, 10, 11, 12, 14, 16, 17, 19, 20, 21, 22, 23, 24] := by
  decide

theorem C12_rsrc_types_all (n : Nat) : typeName rsrcTypes n = typeString n := typeName_eq n

/-- `str::parse::<u32>` after a first digit `1`‥`9`: succeeds with `v` iff every byte is a decimal
digit and the decimal value is `v < 2^32` (leading `+`, signs, blanks, overflow: rejected). -/
theorem C12_parse_u32 (d : Nat) (ds : List Nat) (v : Nat) (hd : 49 ≤ d ∧ d ≤ 57) :
    parseU32 (d :: ds) = some v ↔ (∀ c ∈ d :: ds, 48 ≤ c ∧ c ≤ 57) ∧ v = decVal (d :: ds) ∧ v < 4294967296 := by
  rw [parseU32_digit d ds hd]
  exact parseDigits_eq_some (d :: ds) 0 v (by omega)

/-- the near misses: `#0`, `#01`, `#+1`, `#1 `, `#4294967297` do not name ids 0 / 1; `#ICON` and
`#3` both name id 3, `#icon` does not -/
theorem C12_near_miss_names :
    (Name.id 0).eqString (asc "#0") = false ∧ (Name.id 1).eqString (asc "#01") = false ∧
    (Name.id 1).eqString (asc "#+1") = false ∧ (Name.id 1).eqString (asc "#1 ") = false ∧
    (Name.id 1).eqString (asc "#4294967297") = false ∧ (Name.id 1).eqString (asc "#1") = true ∧
    (Name.id 3).eqString (asc "#ICON") = true ∧ (Name.id 3).eqString (asc "#3") = true ∧
    (Name.id 3).eqString (asc "#icon") = false ∧ (Name.id 4294967295).eqString (asc "#4294967295") = true := by
  decide

/-- `decode_utf16(words).eq(chars.map(Ok))` holds exactly when the words are the UTF-16 encoding of
the characters (surrogate pairs for non-BMP characters; an unpaired surrogate matches nothing). -/
theorem C12_utf16_exact (ws cs : List Nat) (hw : ∀ w ∈ ws, w < 65536) (hc : ∀ c ∈ cs, IsScalar c) :
    decodeUtf16 ws = cs.map .ok ↔ ws = utf16Encode cs :=
  decode_eq_iff ws cs hw hc

/-- The comparison every lookup makes (`de.name() == Ok(name)`, i.e. `Name::eq`) decides exactly the
documented rule `nameMatch`: ids and UTF-16 names compare exactly and never with each other; a
string matches an id as `#<decimal id>` (first digit not `0`) or as the predefined `#TYPE` name of
that id, and matches a UTF-16 name iff that is the string's UTF-16 encoding. -/
theorem C12_name_match (stored : RName) (q : Name) (h : stored.InRange) :
    stored.toName.eq q = nameMatch stored q :=
  eq_eq_nameMatch stored q h

/-! ## 5. Lookup -/

/-- For arbitrary section bytes: `entries().find(|de| de.name() == Ok(q))` returns the FIRST entry in
stored order whose name can be read and matches, and `None` iff there is none. -/
theorem C12_first_match (r : Resources) (hb : Aligned r) (q : Name) (es : List DirEntry) :
    (∀ e, firstMatch r q es = .ok (some e) →
      ∃ pre post, es = pre ++ e :: post ∧ entryMatches r q e ∧ ∀ x ∈ pre, ¬ entryMatches r q x) ∧
    (firstMatch r q es = .ok none ↔ ∀ x ∈ es, ¬ entryMatches r q x) :=
  ⟨fun e h => firstMatch_some hb q es e h, firstMatch_none hb q es⟩

/-- `get` / `get_data` / `get_dir` / `first*` on a directory that represents `t`: the answer of the
specification on `t` (first matching entry under `nameMatch`, `NotFound`, `UnDirectory`,
`UnDataEntry`), as an entry that represents the node found. -/
theorem C12_get_on_tree (r : Resources) (hb : Aligned r) (d : Dir) (t : Node) (h : RepDir r d t) (q : Name) :
    FRelG (Rep r) (d.get r q) (t.get q) ∧ FRelG (RepData r) (d.getData r q) (t.getData q) ∧
    FRelG (RepDir r) (d.getDir r q) (t.getDir q) ∧ FRelG (Rep r) (d.first r) t.first ∧
    FRelG (RepData r) (d.firstData r) t.firstData ∧ FRelG (RepDir r) (d.firstDir r) t.firstDir :=
  ⟨get_rep hb h q, getData_rep hb h q, getDir_rep hb h q, first_rep hb h, firstData_rep hb h, firstDir_rep hb h⟩

/-- `find(path)` on a section that represents `t`: the node the path names in `t` (component by
component, first match per level), or the documented error. -/
theorem C12_find_on_tree (r : Resources) (hb : Aligned r) (t : Node) (h : IsTree r t) (p : List Nat) :
    FRelG (Rep r) (find r p) (t.find p) :=
  find_rep hb h p

/-- `find_resource`, `find_resource_ex`, `manifest` and the lookup behind `version_info` on a section
that represents `t`: the bytes of the data entry the specification finds in `t`. -/
theorem C12_helpers_on_tree (r : Resources) (hb : Aligned r) (t : Node) (h : IsTree r t) :
    (∀ ty name, FRelG (RepBytes r) (findResource r ty name) (t.findResource ty name)) ∧
    (∀ ty name lang, FRelG (RepBytes r) (findResourceEx r ty name lang) (t.findResourceEx ty name lang)) ∧
    FRelG (RepBytes r) (manifest r) t.manifest ∧
    FRelG (RepBytes r) (versionBytes r) t.version :=
  ⟨fun ty name => findResource_rep hb h ty name, fun ty name lang => findResourceEx_rep hb h ty name lang,
   manifest_rep hb h, findResource_rep hb h _ _⟩

/-- the helpers are the documented compositions of the basic lookups (by definition of the model,
which mirrors find.rs line by line) -/
theorem C12_helpers_composed (r : Resources) (ty name lang : Name) (p : List Nat) :
    findResources r ty name = liftE (root r) (fun d => bindF (d.getDir r ty) fun t => t.getDir r name) ∧
    findResource r ty name = bindF (findResources r ty name) (fun n => bindF (n.firstData r) fun de => liftE (de.bytes r) okF) ∧
    findResourceEx r ty name lang =
      bindF (findResources r ty name) (fun n => bindF (n.getData r lang) fun de => liftE (de.bytes r) okF) ∧
    versionBytes r = findResource r (.id 16) (.id 1) ∧
    findData r p = bindF (find r p) asData ∧ findDir r p = bindF (find r p) asDir ∧
    icons r = groups r 14 ∧ cursors r = groups r 12 :=
  ⟨rfl, rfl, rfl, rfl, rfl, rfl, rfl, rfl⟩

/-! ## 6. The consistency check -/

/-- **What `fsck` decides, exactly.**  It succeeds iff the section represents a tree — every
reference reachable from the root is 4-aligned (2 for names) and in bounds, every data range lies
in the section — whose directories nest at most 32 deep and number, counted with multiplicity along
every path, at most `len / 16` (the visit budget). -/
theorem C12_fsck_exact (r : Resources) (hb : Aligned r) :
    fsck r = .ok () ↔ ∃ t : Node, IsTree r t ∧ t.depth ≤ 32 ∧ t.dirCount ≤ r.sec.size / 16 :=
  fsck_ok_iff hb

/-- Soundness in terms of the stored graph: after a successful `fsck` every directory reachable from
the root by sub-directory references is reached in fewer than 32 steps, represents a tree (so every
reference below it is in bounds), and no directory is reachable from itself. -/
theorem C12_fsck_sound (r : Resources) (hb : Aligned r) (h : fsck r = .ok ()) (n b : Nat) (hr : Reach r 0 n b) :
    n < 32 ∧ (∃ m es, IsNode r b (.dir m es)) ∧ ∀ k, ¬ Reach r b (k + 1) b := by
  obtain ⟨t, ⟨hdir, hnode⟩, hdep, _⟩ := (fsck_ok_iff hb).1 h
  cases t with
  | data c cp => cases hdir
  | dir m es =>
    obtain ⟨m', es', h1, h2⟩ := reach_isNode hr hnode
    simp only [Node.depth] at hdep
    exact ⟨by omega, ⟨m', es', h1⟩, fun k hk => no_self_reach hk es'.depth m' es' (Nat.le_refl _) h1⟩

/-- Completeness for written trees: `fsck` accepts the section the reference writer produces for any
encodable tree with at most 32 levels of directories (the budget never binds: every directory
occupies at least 16 bytes). -/
theorem C12_fsck_complete (dirVA : Nat) (t : Node) (h : Encodable dirVA t) (hd : t.depth ≤ 32) :
    fsck (resourcesOf dirVA t) = .ok () := by
  rw [fsck_ok_iff (aligned_resourcesOf dirVA t)]
  refine ⟨t, isTree_resourcesOf h, hd, ?_⟩
  rw [resourcesOf_size]
  have := dirCount_le_size t
  omega

/-- The tree a section represents is unique, so `C12_fsck_exact` speaks about *the* stored tree. -/
theorem C12_tree_unique (r : Resources) (t1 t2 : Node) (h1 : IsTree r t1) (h2 : IsTree r t2) : t1 = t2 :=
  isTree_unique h1 h2

/-- Hence on a section that represents `t`, `fsck` succeeds iff `t` nests at most 32 directories
deep and has at most `len / 16` directories (with multiplicity). -/
theorem C12_fsck_on_tree (r : Resources) (hb : Aligned r) (t : Node) (h : IsTree r t) :
    fsck r = .ok () ↔ t.depth ≤ 32 ∧ t.dirCount ≤ r.sec.size / 16 := by
  rw [fsck_ok_iff hb]
  constructor
  · rintro ⟨t', h', hd, hc⟩
    rw [isTree_unique h h']
    exact ⟨hd, hc⟩
  · rintro ⟨hd, hc⟩
    exact ⟨t, h, hd, hc⟩

/-- **The limit of "succeeds on every well-formed tree"** (`_partial`): for a written tree the only
reason to fail is the depth limit — `fsck` accepts it iff it has at most 32 levels of directories.
A perfectly well-formed tree with 33 nested directories is rejected (`FSCK_MAX_DEPTH`). -/
theorem C12_fsck_well_formed_partial (dirVA : Nat) (t : Node) (h : Encodable dirVA t) :
    fsck (resourcesOf dirVA t) = .ok () ↔ t.depth ≤ 32 := by
  rw [C12_fsck_on_tree _ (aligned_resourcesOf dirVA t) t (isTree_resourcesOf h), resourcesOf_size]
  have := dirCount_le_size t
  constructor
  · intro h'; exact h'.1
  · intro h'; exact ⟨h', by omega⟩

/-- a chain of `n` nested directories above one data entry -/
def chain : Nat → Node
  | 0 => .data [1] 0
  | n+1 => .dir 0 (.cons (.id (n + 1)) (chain n) .nil)

/-- 32 nested directories pass, 33 do not -/
theorem C12_fsck_depth_limit :
    fsck (resourcesOf 0 (chain 32)) = .ok () ∧ fsck (resourcesOf 0 (chain 33)) ≠ .ok () := by
  have h32 : Encodable 0 (chain 32) ∧ (chain 32).depth = 32 := by decide +kernel
  have h33 : Encodable 0 (chain 33) ∧ (chain 33).depth = 33 := by decide +kernel
  refine ⟨(C12_fsck_well_formed_partial 0 _ h32.1).2 (by omega), fun h => ?_⟩
  have := (C12_fsck_well_formed_partial 0 _ h33.1).1 h
  omega

/-- A directory that contains itself is rejected with `Insanity` (depth limit); a shared
sub-directory is accepted as long as the unfolded tree fits the budget and rejected otherwise. -/
theorem C12_fsck_examples :
    -- root with one entry pointing back at the root
    fsck ⟨#[0,0,0,0, 0,0,0,0, 0,0,0,0, 0,0,1,0,  1,0,0,0, 0,0,0,0x80], 0, 0⟩ = .err .insanity ∧
    -- root with two entries sharing one empty sub-directory at offset 32
    fsck ⟨#[0,0,0,0, 0,0,0,0, 0,0,0,0, 0,0,2,0,  1,0,0,0, 32,0,0,0x80,  2,0,0,0, 32,0,0,0x80,
            0,0,0,0, 0,0,0,0, 0,0,0,0, 0,0,0,0], 0, 0⟩ = .ok () ∧
    -- root with three entries sharing one empty sub-directory at offset 40: every reference is in
    -- bounds and nothing contains itself, but 4 directory visits exceed the budget 56 / 16 = 3
    fsck ⟨#[0,0,0,0, 0,0,0,0, 0,0,0,0, 0,0,3,0,  1,0,0,0, 40,0,0,0x80,  2,0,0,0, 40,0,0,0x80,  3,0,0,0, 40,0,0,0x80,
            0,0,0,0, 0,0,0,0, 0,0,0,0, 0,0,0,0], 0, 0⟩ = .err .insanity := by
  decide +kernel

/-! ### The two limits of `fsck` as a finding

The statement says "the consistency check succeeds on every well-formed tree".  The repair of the
unbounded recursion (1a28b42) gave `fsck` a depth limit (`FSCK_MAX_DEPTH = 32`) and a budget of
`len / 16` directory VISITS.  Both reject sections that are well formed in the statement's sense. -/

/-- What "well formed" means on the stored graph, independently of `fsck`: when the section
represents a tree, every directory reachable from the root by sub-directory references represents a
tree itself (so all references below it are aligned and in bounds, every data range lies in the
section) and no directory is reachable from itself. -/
theorem C12_tree_is_well_formed (r : Resources) (t : Node) (h : IsTree r t) (n b : Nat) (hr : Reach r 0 n b) :
    (∃ m es, IsNode r b (.dir m es)) ∧ ∀ k, ¬ Reach r b (k + 1) b := by
  obtain ⟨hdir, hnode⟩ := h
  cases t with
  | data c cp => cases hdir
  | dir m es =>
    obtain ⟨m', es', h1, _⟩ := reach_isNode hr hnode
    exact ⟨⟨m', es', h1⟩, fun k hk => no_self_reach hk es'.depth m' es' (Nat.le_refl _) h1⟩

/-- **`fsck` on a well-formed section, exactly**: it succeeds when the tree nests at most 32
directories deep and has at most `len / 16` directories counted with multiplicity; otherwise it
answers `Insanity` — and nothing else can happen. -/
theorem C12_fsck_on_tree_exact (r : Resources) (hb : Aligned r) (t : Node) (h : IsTree r t) :
    fsck r = if t.depth ≤ 32 ∧ t.dirCount ≤ r.sec.size / 16 then .ok () else .err .insanity := by
  by_cases c : t.depth ≤ 32 ∧ t.dirCount ≤ r.sec.size / 16
  · rw [if_pos c]; exact (C12_fsck_on_tree r hb t h).2 c
  · rw [if_neg c]
    rcases fsck_tree_ok_or_insanity hb h with e | e
    · exact absurd ((C12_fsck_on_tree r hb t h).1 e) c
    · exact e

/-- the witness of `C12_fsck_rejects_shared`: 56 bytes, a root with three id entries (1, 2, 3) whose
Offset fields all designate ONE empty sub-directory at offset 40 -/
def sharedSection : Resources :=
  ⟨#[0,0,0,0, 0,0,0,0, 0,0,0,0, 0,0,3,0,  1,0,0,0, 40,0,0,0x80,  2,0,0,0, 40,0,0,0x80,  3,0,0,0, 40,0,0,0x80,
     0,0,0,0, 0,0,0,0, 0,0,0,0, 0,0,0,0], 0, 0⟩

/-- the tree it represents (what a traversal reports): three empty sub-directories -/
def sharedTree : Node :=
  .dir 0 (.cons (.id 1) (.dir 0 .nil) (.cons (.id 2) (.dir 0 .nil) (.cons (.id 3) (.dir 0 .nil) .nil)))

/-- **Known finding (budget).**  A well-formed section — all references in bounds and aligned, no
directory contains itself, two levels deep, a traversal reports its tree — in which three entries
share one child is rejected with `Insanity`: unfolded it has 4 directories, the budget is
`56 / 16 = 3` visits. -/
theorem C12_fsck_rejects_shared :
    Aligned sharedSection ∧ IsTree sharedSection sharedTree ∧
    readTree sharedSection 2 = .ok sharedTree ∧
    (∀ n b, Reach sharedSection 0 n b → ∀ k, ¬ Reach sharedSection b (k + 1) b) ∧
    sharedTree.depth = 2 ∧ sharedTree.dirCount = 4 ∧ fsckBudget sharedSection = 3 ∧
    fsck sharedSection = .err .insanity := by
  have hb : Aligned sharedSection := by decide
  have ht : IsTree sharedSection sharedTree := by decide +kernel
  refine ⟨hb, ht, readTree_of_isTree hb ht (by decide), fun n b hr => (C12_tree_is_well_formed _ _ ht n b hr).2,
    by decide, by decide, by decide, ?_⟩
  rw [C12_fsck_on_tree_exact _ hb _ ht, if_neg (by decide)]

/-- **Known finding (depth).**  The section the reference writer produces for a chain of 33 nested
directories above one data entry is well formed (it represents the chain, a traversal reports it, the
budget does not bind: 33 directories, `len / 16 ≥ 33`), and `fsck` answers `Insanity`. -/
theorem C12_fsck_rejects_deep :
    Aligned (resourcesOf 0 (chain 33)) ∧ IsTree (resourcesOf 0 (chain 33)) (chain 33) ∧
    readTree (resourcesOf 0 (chain 33)) 33 = .ok (chain 33) ∧
    (∀ n b, Reach (resourcesOf 0 (chain 33)) 0 n b → ∀ k, ¬ Reach (resourcesOf 0 (chain 33)) b (k + 1) b) ∧
    (chain 33).depth = 33 ∧ (chain 33).dirCount = 33 ∧ 33 ≤ fsckBudget (resourcesOf 0 (chain 33)) ∧
    fsck (resourcesOf 0 (chain 33)) = .err .insanity := by
  have henc : Encodable 0 (chain 33) ∧ (chain 33).depth = 33 ∧ (chain 33).dirCount = 33 ∧ 33 ≤ (chain 33).size / 16 := by
    decide +kernel
  have hb := aligned_resourcesOf 0 (chain 33)
  have ht : IsTree (resourcesOf 0 (chain 33)) (chain 33) := isTree_resourcesOf henc.1
  refine ⟨hb, ht, readTree_of_isTree hb ht (by omega), fun n b hr => (C12_tree_is_well_formed _ _ ht n b hr).2,
    henc.2.1, henc.2.2.1, ?_, ?_⟩
  · show 33 ≤ (resourcesOf 0 (chain 33)).sec.size / 16
    rw [resourcesOf_size]; exact henc.2.2.2
  · rw [C12_fsck_on_tree_exact _ hb _ ht, if_neg (by omega)]

/-- the general form of the depth finding: EVERY encodable tree with more than 32 levels of
directories is written to a well-formed section that `fsck` rejects with `Insanity` -/
theorem C12_fsck_rejects_every_deep_tree (dirVA : Nat) (t : Node) (h : Encodable dirVA t) (hd : 32 < t.depth) :
    IsTree (resourcesOf dirVA t) t ∧ fsck (resourcesOf dirVA t) = .err .insanity := by
  refine ⟨isTree_resourcesOf h, ?_⟩
  rw [C12_fsck_on_tree_exact _ (aligned_resourcesOf dirVA t) _ (isTree_resourcesOf h), if_neg (by omega)]

/-! ## 7. Group icons / cursors -/

/-- `write` outputs the 6 header bytes, then one 16-byte record per entry, then for every entry (in
entry order) the image bytes the lookup `RT_ICON|RT_CURSOR / nId / first language` yields (nothing
when that lookup fails). -/
theorem C12_write_shape (r : Resources) (hb : Aligned r) (g : Group) (hg : GroupOK r g) :
    g.write r = .ok (bytesAt r.sec g.off 6 ++
      writeEntries r (groupEntriesFrom r (g.off + 6) g.count) (6 + (groupEntriesFrom r (g.off + 6) g.count).length * 16) ++
      ((groupEntriesFrom r (g.off + 6) g.count).map (imageOf r g)).flatten) ∧
    (groupEntriesFrom r (g.off + 6) g.count).length = g.count ∧
    ∀ es off, (writeEntries r es off).length = 16 * es.length :=
  ⟨write_eq hb hg, groupEntriesFrom_length r _ _, fun es off => writeEntries_length r es off⟩

/-- the record written for an entry is the first 12 bytes of its GRPICONDIRENTRY followed by
`dwImageOffset = (start + Σ dwBytesInRes of the entries before it) mod 2^32`; `write` starts at
`6 + 16 n` -/
theorem C12_write_offsets (r : Resources) (pre : List GroupEntry) (e : GroupEntry) (post : List GroupEntry)
    (start : Nat) (h : start < 4294967296) :
    writeEntries r (pre ++ e :: post) start =
      writeEntries r pre start ++
      (bytesAt r.sec e.off 12 ++ le32Bytes ((start + (pre.map (·.bytesInRes)).sum) % 4294967296)) ++
      writeEntries r post ((start + (pre.map (·.bytesInRes)).sum + e.bytesInRes) % 4294967296) :=
  writeEntries_split r pre e post start h

/-- **Reassembly reproduces the file.**  Take any `.ico` (kind 1) or `.cur` (kind 2) file — any number
of images, any image data — whose sizes fit their fields (`IcoOK`), turn it into a resource section
the way a resource compiler does (`icoToResources`: `RT_ICON`/`RT_CURSOR` entries `i+1 ↦ image i`, one
`RT_GROUP_*` entry named 1 holding the GRPICONDIR).  Then `icons()` / `cursors()` yields exactly that
one group and `write` outputs the original file byte for byte: header, entries with the recomputed
offsets, image data in entry order. -/
theorem C12_ico_round_trip (kind : Nat) (imgs : List IcoImage) (hok : IcoOK kind imgs)
    (henc : Encodable 0 (icoToTree kind imgs)) :
    ∃ g, (if kind = 1 then icons (icoToResources kind imgs) else cursors (icoToResources kind imgs)) =
        .ok [.ok (.id 1, g)] ∧
      g.write (icoToResources kind imgs) = .ok (icoFile kind imgs) := by
  obtain ⟨g, h1, h2⟩ := ico_round_trip hok henc
  refine ⟨g, ?_, h2⟩
  unfold icoGroupType at h1
  by_cases hk : kind = 1
  · rw [if_pos hk] at h1 ⊢; exact h1
  · rw [if_neg hk] at h1 ⊢; exact h1

/-- the same on ANY 4-aligned section that represents that tree with each data entry directly
followed by its bytes (`Canon`), whatever else the section contains -/
theorem C12_write_reproduces_ico (r : Resources) (hb : Aligned r) (kind : Nat) (imgs : List IcoImage) (hok : IcoOK kind imgs)
    (ht : IsTree r (icoToTree kind imgs)) (hc : Canon r 0 (icoToTree kind imgs)) :
    ∃ g, groups r (icoGroupType kind) = .ok [.ok (.id 1, g)] ∧ g.write r = .ok (icoFile kind imgs) :=
  write_ico hb hok ht hc

/-- **Reassembly into any sink that makes progress.**  `write` takes a `&mut dyn io::Write`; such a
sink may accept fewer bytes per call than it is offered (a pipe, a cursor over a short buffer).
`Group.writeChunked r g n` is `write` into a sink that accepts at most `n` bytes per call, every piece
handed over with `write_all` (1c97be5; before, `write` was called once per piece and the count it
returned was ignored).  For every `n ≥ 1` the sink receives exactly the bytes a vector receives and
`write` succeeds; a sink that accepts nothing makes it fail (`WriteZero`) having received nothing. -/
theorem C12_write_any_sink (r : Resources) (hb : Aligned r) (g : Group) (hg : GroupOK r g) :
    ∃ out, g.write r = .ok out ∧ (∀ n, 0 < n → g.writeChunked r n = .ok ⟨out, false⟩) ∧
      g.writeChunked r 0 = .ok ⟨[], true⟩ := by
  obtain ⟨out, ho⟩ := write_ok hb hg
  refine ⟨out, ho, fun n hn => by rw [writeChunked_eq r g hn, ho]; rfl, ?_⟩
  have hf := writeCalls_flatten r g
  rw [ho] at hf
  unfold Group.writeChunked
  cases hc : g.writeCalls r with
  | ok calls =>
    dsimp only
    unfold Group.writeCalls at hc
    rw [groupEntries_eq hg] at hc
    dsimp only at hc
    cases hi : writeImageCalls r g (groupEntriesFrom r (g.off + 6) g.count) with
    | ok images =>
      rw [hi] at hc
      cases hc
      rfl
    | _ => rw [hi] at hc; cases hc
  | _ => rw [hc] at hf; cases hf

/-- the round trip of `C12_ico_round_trip` through any sink that accepts at least one byte per call -/
theorem C12_ico_round_trip_any_sink (kind : Nat) (imgs : List IcoImage) (hok : IcoOK kind imgs)
    (henc : Encodable 0 (icoToTree kind imgs)) (n : Nat) (hn : 0 < n) :
    ∃ g, (if kind = 1 then icons (icoToResources kind imgs) else cursors (icoToResources kind imgs)) =
        .ok [.ok (.id 1, g)] ∧
      g.writeChunked (icoToResources kind imgs) n = .ok ⟨icoFile kind imgs, false⟩ := by
  obtain ⟨g, h1, h2⟩ := C12_ico_round_trip kind imgs hok henc
  exact ⟨g, h1, by rw [writeChunked_eq _ g hn, h2]; rfl⟩

/-! ## 8. The hypotheses are satisfiable on non-trivial instances -/

/-- a tree with named (BMP, non-BMP, empty) and id entries, three levels, an empty directory -/
def sampleTree : Node :=
  .dir 2 (.cons (.wide [0x4D, 0x41, 0x49, 0x4E]) (.dir 1 (.cons (.wide [0xD83D, 0xDE00]) (.data [1, 2, 3] 1252) (.cons (.id 7) (.dir 0 .nil) .nil)))
    (.cons (.wide []) (.data [] 0)
    (.cons (.id 3) (.dir 0 (.cons (.id 1) (.dir 0 (.cons (.id 1033) (.data [0xAA, 0xBB] 65001) .nil)) .nil))
    (.cons (.id 24) (.data [60, 97, 47, 62] 0) .nil))))

example : Encodable 0x2000 sampleTree ∧ sampleTree.depth = 3 := by decide
example : fsck (resourcesOf 0x2000 sampleTree) = .ok () := C12_fsck_complete _ _ (by decide) (by decide)
/-- observations of a lookup result (the tree type has no decidable equality) -/
def foundData : FRes Node → Option (List UInt8 × Nat)
  | .ok (.data c cp) => some (c, cp)
  | _ => none
def foundDir : FRes Node → Option (Nat × Nat)
  | .ok (.dir n es) => some (n, es.length)
  | _ => none
def foundErr : FRes Node → Option FindError
  | .error e => some e
  | _ => none

example : foundDir (sampleTree.find (asc "/MAIN/#7")) = some (0, 0) := by decide +kernel
example : foundData (sampleTree.find (asc "/#ICON/#1/#1033")) = some ([0xAA, 0xBB], 65001) := by decide +kernel
example : foundData (sampleTree.find (asc "/#3//#1/./#1033/")) = some ([0xAA, 0xBB], 65001) := by decide +kernel
example : foundErr (sampleTree.find (asc "/#03")) = some .notFound := by decide +kernel
example : foundErr (sampleTree.find (asc "/#3/#1/#1033/x")) = some .unDataEntry := by decide +kernel
example : foundErr (sampleTree.find (asc "#3")) = some .noRootPath := by decide +kernel
-- "/MAIN/😀" as UTF-8 finds the entry whose stored name is the surrogate pair D83D DE00
example : foundData (sampleTree.find [47, 77, 65, 73, 78, 47, 0xF0, 0x9F, 0x98, 0x80]) = some ([1, 2, 3], 1252) := by
  decide +kernel
example : foundErr (sampleTree.find [47, 77, 65, 73, 78, 47, 0xF0, 0x9F]) = some .bad8Path := by decide +kernel

/-- a two-image icon file -/
def sampleIco : List IcoImage := [⟨[16, 16, 0, 0, 1, 0, 32, 0], [1, 2, 3, 4, 5]⟩, ⟨[32, 32, 0, 0, 1, 0, 8, 0], []⟩]

example : IcoOK 1 sampleIco ∧ Encodable 0 (icoToTree 1 sampleIco) :=
  ⟨⟨Or.inl rfl, by decide, by decide, by decide, by decide⟩, by decide⟩

end Pelite.Resources
