import PeliteModel.Lemmas.Resources
/-!
C12 — resource tree traversal, lookup and reassembly reflect the stored directory.
Property theorems only; helper lemmas are in Lemmas/Resources.lean, Lemmas/ResFind.lean, Lemmas/ResGroup.lean.
-/
namespace Pelite.Resources

/-- C02/C01 for `fsck`: on arbitrary section bytes at a 4-aligned address the consistency check
neither panics nor dereferences outside the section / misaligned, and needs no fuel. -/
theorem C12_fsck_safe (r : Resources) (hb : Aligned r) : Safe (fsck r) := safe_fsck hb

end Pelite.Resources
