import PeliteModel.Thm.C12
import PeliteModel.Lemmas.ResGroups
/-!
C12, continued — (1) lookups are PATH LOCAL: for arbitrary section bytes `find`, `find_resource`,
`find_resource_ex`, `find_dir`, `manifest`, `version_info` and `GroupResource::image` are left folds
of a one-level first-match step over the path, so they depend only on the directories along the path
(no `IsTree` of the whole section, unlike `C12_find_on_tree` / `C12_helpers_on_tree`);
(2) `icons()` / `cursors()` and the lookups of a group on a section that represents ANY tree.

Property theorems only; helper lemmas are in Lemmas/ResFindLocal.lean and Lemmas/ResGroups.lean.
The vocabulary (all defined there, next to the lemmas):

* `Sel` — how one level selects a child: `.part p` (a component of a `find` path: UTF-8 check, then
  the child named `Name::Str(p)`), `.name q` (`get(q)`), `.first` (`first()`);
* `stepSel r cur s` — ONE level: `cur` must be a directory; the selected child is resolved with `entry()`;
* `walkSel r start sels = sels.foldl (fun acc s => bindF acc fun cur => stepSel r cur s) start` — the
  left fold; `rootEntry r` = `root()?` as an entry;
* `Follows r cur sels tgt` — `tgt` is reached from `cur` by following the child each selector selects;
* `LocalResult r sels fin res` — `res` is explained by the directories along the path alone.
-/
namespace Pelite.Resources
open Pelite

/-! ## 1. `find` is a left fold of one-level steps — for ANY bytes -/

/-- **Path locality of `find`.**  For arbitrary section bytes (no alignment, no well-formedness)
`Resources::find(path)` is the left fold of the one-level step over the path components, starting at
the root directory; likewise `Directory::find`.  What is off the path is never read. -/
theorem C12_find_path_local (r : Resources) (p : List Nat) :
    find r p =
      (match pathSplit p with
       | none => failF .notFound
       | some (slash, rest) =>
         if slash ≠ [47] ∧ slash ≠ [92] then failF .noRootPath
         else (rest.map Sel.part).foldl (fun acc s => bindF acc fun cur => stepSel r cur s) (rootEntry r)) ∧
    ∀ d : Dir, d.find r p =
      ((dirPathParts p).map Sel.part).foldl (fun acc s => bindF acc fun cur => stepSel r cur s) (okF (.dir d)) :=
  ⟨find_eq_walk r p, fun d => dirFind_eq_walk r d p⟩

/-- The one-level step is the public one-level API: a path component is `get(Name::Str(part))` after
the UTF-8 check, `.name q` is `get(q)`, `.first` is `first()`; on a data entry every step is
`UnDataEntry`.  (`get` / `first` are `entries().find(..)` / `.next()` followed by `entry()`.) -/
theorem C12_step_is_get (r : Resources) (d : Dir) (de : DataEntry) (p : List Nat) (q : Name) :
    stepSel r (.dir d) (.part p) = (if utf8Chars p = none then failF .bad8Path else d.get r (.str p)) ∧
    stepSel r (.dir d) (.name q) = d.get r q ∧ stepSel r (.dir d) .first = d.first r ∧
    stepSel r (.data de) (.part p) = (if utf8Chars p = none then failF .bad8Path else failF .unDataEntry) ∧
    stepSel r (.data de) (.name q) = failF .unDataEntry ∧ stepSel r (.data de) .first = failF .unDataEntry := by
  refine ⟨stepSel_part_eq r d p, rfl, rfl, ?_, rfl, rfl⟩
  rw [stepSel_part]
  cases utf8Chars p <;> rfl

/-- **Each step is "first match in stored order"** (cf. `C12_first_match`), in closed form: on a
4-aligned section and a directory the code handed out (`DirOK`, which `C12_walk_total` shows for every
directory met), a by-name step takes the first entry of THIS directory's table whose name can be read
and matches (`nameIs` ⇔ `entryMatches`: named entries compared as UTF-16, ids as numbers —
`C12_name_match`) and resolves it with `entry()`; `first` takes the first entry of the table. -/
theorem C12_step_first_match (r : Resources) (hb : Aligned r) (d : Dir) (hd : DirOK r d) (q : Name) :
    stepSel r (.dir d) (.name q) =
      (match (entriesFrom r (d.off + 16) (d.named + d.ids)).find? (nameIs r q) with
       | some e => liftE (e.entry r) okF
       | none => failF .notFound) ∧
    stepSel r (.dir d) .first =
      (match (entriesFrom r (d.off + 16) (d.named + d.ids)).head? with
       | some e => liftE (e.entry r) okF
       | none => failF .notFound) ∧
    (∀ e, nameIs r q e = true ↔ entryMatches r q e) :=
  ⟨stepSel_name_eq hb hd q, stepSel_first_eq hb hd, fun e => nameIs_iff r q e⟩

/-- The same without the executable `find?`: a by-name step returns `en` iff the table splits as
`pre ++ e :: post` with `e` the first matching entry and `e.entry() = Ok(en)`; it fails with
`NotFound` iff no entry matches, and with `Pe(err)` iff `entry()` of the first match fails — which
can only be `Misaligned` or `Bounds` (`C12_entry_target`). -/
theorem C12_step_exact (r : Resources) (hb : Aligned r) (d : Dir) (hd : DirOK r d) (q : Name) :
    (∀ en, stepSel r (.dir d) (.name q) = .ok (.ok en) ↔
      ∃ pre e post, entriesFrom r (d.off + 16) (d.named + d.ids) = pre ++ e :: post ∧ entryMatches r q e ∧
        (∀ x ∈ pre, ¬ entryMatches r q x) ∧ e.entry r = .ok en) ∧
    (∀ fe, stepSel r (.dir d) (.name q) = .ok (.error fe) ↔
      (fe = .notFound ∧ ∀ x ∈ entriesFrom r (d.off + 16) (d.named + d.ids), ¬ entryMatches r q x) ∨
      ∃ pre e post err, entriesFrom r (d.off + 16) (d.named + d.ids) = pre ++ e :: post ∧ entryMatches r q e ∧
        (∀ x ∈ pre, ¬ entryMatches r q x) ∧ e.entry r = .err err ∧ fe = .pe err ∧
        (err = .misaligned ∨ err = .bounds)) :=
  ⟨fun en => stepSel_name_ok_iff hb hd q en, fun fe => stepSel_name_err_iff hb hd q fe⟩

/-- … and "matches" is a statement of the specification alone: `entryMatches r q e` (the predicate of
`C12_first_match` and `C12_step_exact`) holds iff the entry's Name field stores some name `nm` —
layout relation `NameAt`: an id with the high bit clear, or an even in-bounds offset of a
length-prefixed UTF-16 string — that matches `q` under the documented rule `nameMatch` (ids as
numbers, strings as `#<id>` / `#TYPE` / exact UTF-16 encoding).  An entry whose name cannot be read
(odd or dangling string offset) matches nothing and is skipped. -/
theorem C12_entry_matches_spec (r : Resources) (hb : Aligned r) (q : Name) (e : DirEntry) :
    entryMatches r q e ↔ ∃ nm : RName, NameAt r e.name nm ∧ nameMatch nm q = true :=
  entryMatches_iff hb q e

/-! ## 2. The helpers are folds of the same step -/

/-- `version_info`: the lookup, then `VersionInfo::try_from` (4-alignment of the bytes) -/
def versionFin (r : Resources) (en : Entry) : Out (FRes Ref) :=
  bindF (dataBytes r en) fun b =>
    if (r.base + b.off) % 4 ≠ 0 then failF (.pe .misaligned) else okF ⟨b.off, b.len / 2 * 2, 2⟩

/-- **Path locality of the helpers** — for arbitrary section bytes.  `find_resources`, `find_resource`,
`find_resource_ex`, `find_data`, `find_dir`, `manifest`, the lookup of `version_info` and
`version_info` itself, the group directory of `icons()` / `cursors()`, and `GroupResource::image` are
each the left fold of at most three one-level steps from the root followed by a conversion of the
entry reached (`asDir`, `asData`, `dataBytes` = `.data()?.bytes()?`, `utf8Bytes` = the same and
`str::from_utf8`).  (Not `rfl`: the code interleaves `dir()` / `data()` conversions, whose errors
coincide with those of the next step.) -/
theorem C12_helpers_path_local (r : Resources) (ty name lang : Name) (p : List Nat) (gty : Nat) (g : Group) (id t : Nat)
    (ht : g.typeId = .ok t) :
    findResources r ty name = bindF (walkSel r (rootEntry r) [.name ty, .name name]) asDir ∧
    findResource r ty name = bindF (walkSel r (rootEntry r) [.name ty, .name name, .first]) (dataBytes r) ∧
    findResourceEx r ty name lang = bindF (walkSel r (rootEntry r) [.name ty, .name name, .name lang]) (dataBytes r) ∧
    findData r p = bindF (find r p) asData ∧ findDir r p = bindF (find r p) asDir ∧
    manifest r = bindF (walkSel r (rootEntry r) [.name (.id 24), .first, .first]) (utf8Bytes r) ∧
    versionBytes r = bindF (walkSel r (rootEntry r) [.name (.id 16), .name (.id 1), .first]) (dataBytes r) ∧
    versionInfo r = bindF (walkSel r (rootEntry r) [.name (.id 16), .name (.id 1), .first]) (versionFin r) ∧
    (liftE (root r) fun d => d.getDir r (.id gty)) = bindF (walkSel r (rootEntry r) [.name (.id gty)]) asDir ∧
    g.image r id = bindF (walkSel r (rootEntry r) [.name (.id t), .name (.id id), .first]) (dataBytes r) := by
  refine ⟨findResources_eq_walk r ty name, findResource_eq_walk r ty name, findResourceEx_eq_walk r ty name lang,
    rfl, rfl, manifest_eq_walk r, findResource_eq_walk r _ _, ?_, groupDir_eq_walk r gty, ?_⟩
  · unfold versionInfo versionBytes
    rw [findResource_eq_walk, bindF_assoc]
    rfl
  · rw [image_eq_findResource r g id t ht, findResource_eq_walk]

/-- the hypothesis `g.typeId = .ok t` holds for every group `GroupResource::new` accepts (`C12_safe_groups`) -/
example : (⟨0, 1, 0⟩ : Group).typeId = .ok RT_ICON ∧ (⟨0, 2, 0⟩ : Group).typeId = .ok RT_CURSOR := ⟨rfl, rfl⟩

/-- what the conversions at the end of a lookup do with the entry reached -/
theorem C12_finishers (r : Resources) (d : Dir) (de : DataEntry) :
    asDir (.dir d) = okF d ∧ asDir (.data de) = failF .unDataEntry ∧
    asData (.data de) = okF de ∧ asData (.dir d) = failF .unDirectory ∧
    dataBytes r (.dir d) = failF .unDirectory ∧ dataBytes r (.data de) = liftE (de.bytes r) okF :=
  ⟨rfl, rfl, rfl, rfl, rfl, rfl⟩

/-! ## 3. Corollary: what a lookup returns on arbitrary bytes -/

/-- **A fold of steps returns the entry reached by following the selected children, or the error of
the first failing step.**  For arbitrary bytes, any selectors and any final conversion `fin`: the
answer is `Ok(a)` iff the root header is readable, the selectors can be followed from the root to
some entry `tgt`, and `fin tgt = Ok(a)`; it is `Err(e)` iff reading the root fails (`e = Pe(err)`), or
the first step that does not return an entry fails with `e`, or `fin` fails with `e` on the entry
reached.  (`LocalResult` spells exactly this out.) -/
theorem C12_lookup_local (r : Resources) (sels : List Sel) {α : Type} (fin : Entry → Out (FRes α)) (res : FRes α) :
    bindF (walkSel r (rootEntry r) sels) fin = .ok res ↔ LocalResult r sels fin res :=
  lookup_local r sels fin res

/-- `Follows` is: one step that returns an entry, then the rest; and the entry reached is unique -/
theorem C12_follows (r : Resources) (cur tgt : Entry) (s : Sel) (rest : List Sel) :
    (Follows r cur [] tgt ↔ tgt = cur) ∧
    (Follows r cur (s :: rest) tgt ↔ ∃ nxt, stepSel r cur s = .ok (.ok nxt) ∧ Follows r nxt rest tgt) ∧
    (∀ sels a b, Follows r cur sels a → Follows r cur sels b → a = b) := by
  refine ⟨⟨fun h => by cases h; rfl, fun h => by rw [h]; exact .done _⟩, ⟨fun h => ?_, fun ⟨nxt, h1, h2⟩ => .step h1 h2⟩,
    fun _ _ _ ha hb => ha.unique hb⟩
  cases h with
  | step h1 h2 => exact ⟨_, h1, h2⟩

/-- On a 4-aligned section (what `Pe::resources` hands out) every fold of steps from the root ends in
a Rust value, and every directory met on the way — the root, and whatever `entry()` returned —
satisfies the invariant `DirOK` that `C12_step_first_match` / `C12_step_exact` ask for. -/
theorem C12_walk_total (r : Resources) (hb : Aligned r) (sels : List Sel) :
    IsVal (walkSel r (rootEntry r) sels) ∧
    (∀ d0, root r = .ok d0 → DirOK r d0) ∧
    (∀ d0 d, root r = .ok d0 → Follows r (.dir d0) sels (.dir d) → DirOK r d) :=
  ⟨isVal_walkSel hb sels, fun _ h => root_ok hb h,
   fun d0 _ h hf => follows_entryOK hb hf (root_ok hb h : EntryOK r (.dir d0))⟩

/-- **The corollary for `find`, `find_dir`, `find_data`**: on arbitrary bytes `find(path)` answers
`res` iff the path is empty and `res = Err(NotFound)`, or it does not start with `/` or `\` and
`res = Err(NoRootPath)`, or `res` is explained by the directories along the path (`LocalResult`: the
entry reached by following the first matching entry per component, or the error of the first
component that fails — `Bad8Path`, `NotFound`, `UnDataEntry`, `Pe(Misaligned | Bounds)`). -/
theorem C12_find_local (r : Resources) (p : List Nat) :
    (∀ res, find r p = .ok res ↔
      match pathSplit p with
      | none => res = .error .notFound
      | some (slash, rest) =>
        if slash ≠ [47] ∧ slash ≠ [92] then res = .error .noRootPath
        else LocalResult r (rest.map Sel.part) okF res) ∧
    (∀ res, findDir r p = .ok res ↔
      match pathSplit p with
      | none => res = .error .notFound
      | some (slash, rest) =>
        if slash ≠ [47] ∧ slash ≠ [92] then res = .error .noRootPath
        else LocalResult r (rest.map Sel.part) asDir res) ∧
    (∀ res, findData r p = .ok res ↔
      match pathSplit p with
      | none => res = .error .notFound
      | some (slash, rest) =>
        if slash ≠ [47] ∧ slash ≠ [92] then res = .error .noRootPath
        else LocalResult r (rest.map Sel.part) asData res) := by
  have key : ∀ {α : Type} (fin : Entry → Out (FRes α)) (res : FRes α), bindF (find r p) fin = .ok res ↔
      match pathSplit p with
      | none => res = .error .notFound
      | some (slash, rest) =>
        if slash ≠ [47] ∧ slash ≠ [92] then res = .error .noRootPath
        else LocalResult r (rest.map Sel.part) fin res := by
    intro α fin res
    rw [find_eq_walk]
    cases pathSplit p with
    | none =>
      show Out.ok (Except.error FindError.notFound) = Out.ok res ↔ res = .error .notFound
      constructor
      · intro h; cases h; rfl
      · intro h; rw [h]
    | some sp =>
      dsimp only
      by_cases hc : sp.1 ≠ [47] ∧ sp.1 ≠ [92]
      · rw [if_pos hc, if_pos hc]
        show Out.ok (Except.error FindError.noRootPath) = Out.ok res ↔ res = .error .noRootPath
        constructor
        · intro h; cases h; rfl
        · intro h; rw [h]
      · rw [if_neg hc, if_neg hc]
        exact lookup_local r _ fin res
  refine ⟨fun res => ?_, fun res => key asDir res, fun res => key asData res⟩
  have := key okF res
  rw [bindF_okF] at this
  exact this

/-- **The corollary for `find_resource`, `find_resource_ex`, `find_resources`, `manifest`,
`version_info`, `GroupResource::image`**: on arbitrary bytes each answers `res` iff `res` is explained
by the (at most three) directories along its path. -/
theorem C12_helpers_local (r : Resources) (ty name lang : Name) (g : Group) (id t : Nat) (ht : g.typeId = .ok t) :
    (∀ res, findResources r ty name = .ok res ↔ LocalResult r [.name ty, .name name] asDir res) ∧
    (∀ res, findResource r ty name = .ok res ↔ LocalResult r [.name ty, .name name, .first] (dataBytes r) res) ∧
    (∀ res, findResourceEx r ty name lang = .ok res ↔ LocalResult r [.name ty, .name name, .name lang] (dataBytes r) res) ∧
    (∀ res, manifest r = .ok res ↔ LocalResult r [.name (.id 24), .first, .first] (utf8Bytes r) res) ∧
    (∀ res, versionBytes r = .ok res ↔ LocalResult r [.name (.id 16), .name (.id 1), .first] (dataBytes r) res) ∧
    (∀ res, versionInfo r = .ok res ↔ LocalResult r [.name (.id 16), .name (.id 1), .first] (versionFin r) res) ∧
    (∀ res, g.image r id = .ok res ↔ LocalResult r [.name (.id t), .name (.id id), .first] (dataBytes r) res) := by
  obtain ⟨h1, h2, h3, _, _, h6, h7, h8, _, h10⟩ := C12_helpers_path_local r ty name lang [] 0 g id t ht
  refine ⟨fun res => ?_, fun res => ?_, fun res => ?_, fun res => ?_, fun res => ?_, fun res => ?_, fun res => ?_⟩
  · rw [h1]; exact lookup_local r _ _ res
  · rw [h2]; exact lookup_local r _ _ res
  · rw [h3]; exact lookup_local r _ _ res
  · rw [h6]; exact lookup_local r _ _ res
  · rw [h7]; exact lookup_local r _ _ res
  · rw [h8]; exact lookup_local r _ _ res
  · rw [h10]; exact lookup_local r _ _ res

/-! ## 4. `IsTree` of the whole section is NOT needed for lookups: a witness -/

/-- A 132-byte section.  Root (offset 0): `#3 → T` (offset 32), `#9 → B` (offset 80).  `T`: `#1 → N`
(offset 56).  `N`: `#1033 →` a data entry (offset 112) for the 4 bytes at 128.  `B` is off every path
through `T` and is broken twice: its entry `#1` points back at `B` itself (a cycle) and its entry `#2`
at offset 0x1000, far outside the section (a dangling reference). -/
def cycSection : Resources :=
  ⟨#[0,0,0,0, 0,0,0,0, 0,0,0,0, 0,0,2,0,   3,0,0,0, 32,0,0,0x80,   9,0,0,0, 80,0,0,0x80,
     0,0,0,0, 0,0,0,0, 0,0,0,0, 0,0,1,0,   1,0,0,0, 56,0,0,0x80,
     0,0,0,0, 0,0,0,0, 0,0,0,0, 0,0,1,0,   9,4,0,0, 112,0,0,0,
     0,0,0,0, 0,0,0,0, 0,0,0,0, 0,0,2,0,   1,0,0,0, 80,0,0,0x80,   2,0,0,0, 0,0x10,0,0x80,
     128,0,0,0, 4,0,0,0, 0,0,0,0, 0,0,0,0,
     0xDE,0xAD,0xBE,0xEF], 0, 0⟩

/-- **Lookups succeed where no tree exists.**  `cycSection` represents no tree at all (a directory
contains itself), `fsck` rejects it, and lookups into the broken directory report its defects (the
cycle can be walked round and round, the dangling entry is `Bounds`) — yet every lookup whose path
avoids `B` gives the right answer: `find`, `find_data`, `find_dir`, `find_resource`,
`find_resource_ex` return the directories, the data entry and its 4 bytes.  So the hypothesis
`IsTree r t` of `C12_find_on_tree` / `C12_helpers_on_tree` is sufficient, not necessary;
`C12_find_local` / `C12_helpers_local` are the statements that apply to such sections. -/
theorem C12_lookup_off_cycle :
    (¬ ∃ t, IsTree cycSection t) ∧ fsck cycSection = .err .insanity ∧ Aligned cycSection ∧
    find cycSection (asc "/#3/#1/#1033") = .ok (.ok (.data ⟨112, 128, 4, 0⟩)) ∧
    findData cycSection (asc "/#ICON/#1/#1033") = .ok (.ok ⟨112, 128, 4, 0⟩) ∧
    findDir cycSection (asc "/#3/#1") = .ok (.ok ⟨56, 0, 1⟩) ∧
    findResource cycSection (.id 3) (.id 1) = .ok (.ok ⟨128, 4, 1⟩) ∧
    findResourceEx cycSection (.id 3) (.id 1) (.id 1033) = .ok (.ok ⟨128, 4, 1⟩) ∧
    bytesAt cycSection.sec 128 4 = [0xDE, 0xAD, 0xBE, 0xEF] ∧
    find cycSection (asc "/#9/#1/#1/#1") = .ok (.ok (.dir ⟨80, 0, 2⟩)) ∧
    find cycSection (asc "/#9/#2") = .ok (.error (.pe .bounds)) := by
  refine ⟨?_, by decide +kernel, by decide, by decide +kernel, by decide +kernel, by decide +kernel,
    by decide +kernel, by decide +kernel, by decide +kernel, by decide +kernel, by decide +kernel⟩
  rintro ⟨t, hdir, hnode⟩
  cases t with
  | data c cp => cases hdir
  | dir m es =>
    have h1 : Reach cycSection 0 1 80 := .step (.refl 0) ⟨1, by decide +kernel, by decide, by decide +kernel⟩
    have h2 : Reach cycSection 80 (0 + 1) 80 := .step (.refl 80) ⟨0, by decide +kernel, by decide, by decide +kernel⟩
    obtain ⟨m', es', h3, _⟩ := reach_isNode h1 hnode
    exact no_self_reach h2 es'.depth m' es' (Nat.le_refl _) h3

/-- the same lookup, read through `C12_find_local`: the data entry is reached by following `#3`, `#1`, `#1033` -/
example : Follows cycSection (.dir ⟨0, 0, 2⟩) [.part (asc "#3"), .part (asc "#1"), .part (asc "#1033")]
    (.data ⟨112, 128, 4, 0⟩) :=
  .step (nxt := .dir ⟨32, 0, 1⟩) (by decide +kernel) (.step (nxt := .dir ⟨56, 0, 1⟩) (by decide +kernel)
    (.step (nxt := .data ⟨112, 128, 4, 0⟩) (by decide +kernel) (.done _)))

/-- hypotheses of `C12_step_first_match` / `C12_step_exact` on that section -/
example : Aligned cycSection ∧ DirOK cycSection ⟨80, 0, 2⟩ ∧ root cycSection = .ok ⟨0, 0, 2⟩ := by decide +kernel

/-! ## 5. Group resources on any tree -/

/-- **`icons()` / `cursors()` on a section that represents ANY tree `t`** (`ty = RT_GROUP_ICON = 14` /
`RT_GROUP_CURSOR = 12`): the iterator yields exactly one item per entry of `t.groups ty` — the entries
of that type's directory in stored order, none when there is no such directory — and item by item
(`ItemsRel` / `ItemRel`): where the tree has no first-language data below the entry, that error
(`UnDataEntry`, `NotFound`, `UnDirectory`); otherwise `Misaligned` if the data lie at an odd address
(a property of the layout), else the format error of `parseGroup` on the data (`Bounds`, `BadMagic`),
else `Ok((name, group))` with the entry's name and a group object that stands for the parsed
GRPICONDIR (`GroupRep`: type, count, and per entry `dwBytesInRes` / `nId`). -/
theorem C12_groups_on_tree (r : Resources) (hb : Aligned r) (t : Node) (h : IsTree r t) (ty : Nat) :
    ∃ items, groups r ty = .ok items ∧ ItemsRel r items (t.groups ty) ∧
      (icons r = groups r RT_GROUP_ICON ∧ cursors r = groups r RT_GROUP_CURSOR) := by
  obtain ⟨items, h1, h2⟩ := groups_rep hb h ty
  exact ⟨items, h1, h2, rfl, rfl⟩

/-- `ItemsRel` is the item-by-item relation on lists of equal length -/
theorem C12_itemsRel (r : Resources) (items : List (FRes (Name × Group))) (specs : List (RName × FRes (List UInt8))) :
    ItemsRel r items specs ↔
      items.length = specs.length ∧ ∀ i (h1 : i < items.length) (h2 : i < specs.length), ItemRel r items[i] specs[i] := by
  induction items generalizing specs with
  | nil =>
    cases specs with
    | nil => simp [ItemsRel]
    | cons s specs => simp [ItemsRel]
  | cons it items ih =>
    cases specs with
    | nil => simp [ItemsRel]
    | cons s specs =>
      simp only [ItemsRel, ih, List.length_cons, Nat.add_right_cancel_iff]
      constructor
      · rintro ⟨h0, hl, hi⟩
        refine ⟨hl, fun i h1 h2 => ?_⟩
        cases i with
        | zero => exact h0
        | succ i => exact hi i (by omega) (by omega)
      · rintro ⟨hl, hi⟩
        exact ⟨hi 0 (by omega) (by omega), hl, fun i h1 h2 => hi (i + 1) (by omega) (by omega)⟩

/-- **The lookups of a group** that stands for the parsed GRPICONDIR `G` (as every group yielded on a
tree does, `C12_groups_on_tree`): `entries()` are `G`'s entries in stored order; `image(id)` is — for
arbitrary bytes — `find_resource(&[RT_ICON | RT_CURSOR, id])`, i.e. the path-local fold
`/<RT_ICON or RT_CURSOR>/<id>/<first language>` of section 2; and on a section that represents `t` it
returns the bytes of the data entry the specification finds there (`t.groupImage G id`). -/
theorem C12_group_lookups (r : Resources) (hb : Aligned r) (g : Group) (G : GroupSpec) (hg : GroupRep r g G) :
    (∃ es, g.entries r = .ok es ∧ es.map (fun e => (e.bytesInRes, e.nId)) = G.entries) ∧
    (∀ id, g.image r id = findResource r (.id G.imageType) (.id id) ∧
      g.image r id = bindF (walkSel r (rootEntry r) [.name (.id G.imageType), .name (.id id), .first]) (dataBytes r)) ∧
    (G.imageType = RT_ICON ∨ G.imageType = RT_CURSOR) ∧
    (∀ t, IsTree r t → ∀ id, FRelG (RepBytes r) (g.image r id) (t.groupImage G id)) := by
  refine ⟨⟨_, groupEntries_eq hg.1, hg.2.2.2⟩, fun id => ⟨image_eq hg id, ?_⟩, ?_, fun t ht id => image_rep hb ht hg id⟩
  · rw [image_eq hg id, findResource_eq_walk]
  · unfold GroupSpec.imageType
    by_cases h : G.kind = 1
    · rw [if_pos h]; exact Or.inl rfl
    · rw [if_neg h]; exact Or.inr rfl

/-- `parseGroup` on the group data a resource compiler writes for an `.ico` / `.cur` file
(`groupBlob`, Spec): type, count, and per image its size and consecutive ids — here for the sample
two-image icon of Thm/C12.lean. -/
example : parseGroup (groupBlob 1 sampleIco) = .ok ⟨1, [(5, 1), (0, 2)]⟩ := by decide +kernel

/-- a tree whose `RT_GROUP_ICON` directory is NOT of the `icoToTree` shape: a well-formed group with
two languages (the first one counts), a data entry where a directory is expected, an empty name
directory, a group with a bad type word, a truncated group, and a named group -/
def groupsTree : Node :=
  .dir 0 (.ofList [
    (.id 3, .dir 0 (.ofList [(.id 7, .dir 0 (.ofList [(.id 0, .data [9, 9, 9] 0)]))])),
    (.id 14, .dir 1 (.ofList [
      (.wide [0x41], .dir 0 (.ofList [(.id 1033, .data [0,0, 1,0, 0,0] 0)])),
      (.id 1, .dir 0 (.ofList [(.id 1031, .data [0,0, 1,0, 1,0,  16,16,0,0, 1,0, 32,0, 3,0,0,0, 7,0] 0),
                               (.id 1033, .data [1, 2, 3] 0)])),
      (.id 2, .data [0,0, 1,0, 0,0] 0),
      (.id 3, .dir 0 .nil),
      (.id 4, .dir 0 (.ofList [(.id 0, .data [0,0, 3,0, 0,0] 0)])),
      (.id 5, .dir 0 (.ofList [(.id 0, .data [0,0, 1,0, 1,0] 0)]))]))])

example : Encodable 0 groupsTree := by decide

example : groupsTree.groups 14 =
    [(.wide [0x41], .ok [0,0, 1,0, 0,0]),
     (.id 1, .ok [0,0, 1,0, 1,0,  16,16,0,0, 1,0, 32,0, 3,0,0,0, 7,0]),
     (.id 2, .error .unDataEntry), (.id 3, .error .notFound),
     (.id 4, .ok [0,0, 3,0, 0,0]), (.id 5, .ok [0,0, 1,0, 1,0])] ∧
    groupsTree.groups 12 = [] := by decide +kernel

example : parseGroup [0,0, 1,0, 1,0,  16,16,0,0, 1,0, 32,0, 3,0,0,0, 7,0] = .ok ⟨1, [(3, 7)]⟩ ∧
    parseGroup [0,0, 3,0, 0,0] = .error .badMagic ∧ parseGroup [0,0, 1,0, 1,0] = .error .bounds := by decide +kernel

/-- … and what the code yields on the section the reference writer makes of it (as
`C12_groups_on_tree` predicts): the hypotheses `Aligned`, `IsTree`, `GroupRep` are satisfiable -/
example : Aligned (resourcesOf 0 groupsTree) ∧ IsTree (resourcesOf 0 groupsTree) groupsTree :=
  ⟨aligned_resourcesOf 0 _, isTree_resourcesOf (by decide)⟩

example : ∃ gA g1, icons (resourcesOf 0 groupsTree) =
    .ok [.ok (.wide [0x41], gA), .ok (.id 1, g1), .error .unDataEntry, .error .notFound,
         .error (.pe .badMagic), .error (.pe .bounds)] ∧
    GroupRep (resourcesOf 0 groupsTree) g1 ⟨1, [(3, 7)]⟩ ∧
    g1.image (resourcesOf 0 groupsTree) 7 = findResource (resourcesOf 0 groupsTree) (.id 3) (.id 7) := by
  obtain ⟨items, h1, h2, _⟩ := C12_groups_on_tree _ (aligned_resourcesOf 0 _) groupsTree (isTree_resourcesOf (by decide)) 14
  have hspec : groupsTree.groups 14 =
      [(.wide [0x41], .ok [0,0, 1,0, 0,0]),
       (.id 1, .ok [0,0, 1,0, 1,0,  16,16,0,0, 1,0, 32,0, 3,0,0,0, 7,0]),
       (.id 2, .error .unDataEntry), (.id 3, .error .notFound),
       (.id 4, .ok [0,0, 3,0, 0,0]), (.id 5, .ok [0,0, 1,0, 1,0])] := by decide +kernel
  have hval : icons (resourcesOf 0 groupsTree) =
      .ok [.ok (.wide [0x41], ⟨208, 1, 0⟩), .ok (.id 1, ⟨264, 1, 1⟩), .error .unDataEntry, .error .notFound,
           .error (.pe .badMagic), .error (.pe .bounds)] := by decide +kernel
  refine ⟨_, _, hval, ?_, ?_⟩
  · refine ⟨by decide +kernel, rfl, rfl, by decide +kernel⟩
  · exact image_eq_findResource _ _ _ _ (by decide)

end Pelite.Resources
