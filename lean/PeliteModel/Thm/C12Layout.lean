import PeliteModel.Model.ResGroup
import PeliteModel.Generated.ImageLayout
/-!
C12 — the literal sizes, alignments and offsets of `Model/Resources.lean` are the layouts of
`IMAGE_RESOURCE_DIRECTORY`, `IMAGE_RESOURCE_DIRECTORY_ENTRY` and `IMAGE_RESOURCE_DATA_ENTRY` in the *current
source* (`Generated/ImageLayout.lean`, rewritten on every check run from `size_of` / `align_of` / `offset_of!` of
the structs of `src/image.rs`).  The model writes the numbers inline, so each tie is stated through the function
that contains the literal: the function, on every input, equals its transcription in which every layout quantity
is the named constant of the regenerated table.

Not tied (no struct of `image.rs` behind them):
* `Model/ResGroup.lean`: `GRPICONDIR` (6 bytes, align 2; idReserved 0, idType 2, idCount 4) and `GRPICONDIRENTRY`
  (14 bytes; dwBytesInRes lo/hi words at 8 / 10, nId at 12) are declared in `src/resources/group.rs`, and the 16 of
  `write` is the size of an `.ico` file's ICONDIRENTRY (a literal in the source as well);
* the `2`s of `slice_ws` (`u16` length prefix and elements) are `size_of::<u16>()`;
* data directory index 2 is `IMAGE_DIRECTORY_ENTRY_RESOURCE`; `RT_*`, `FSCK_MAX_DEPTH` are constants, not layouts.
-/
namespace Pelite.Resources
open Pelite Pelite.Generated.Layout

/-- **Every struct read of the resource model is made with the size and alignment, and every field is read at the
offset, that the source's struct layout gives.** -/
theorem C12_model_offsets (r : Resources) (v : Pe.View) (d : Dir) (e : DirEntry) (de : DataEntry)
    (off o start n : Nat) (site : String) :
    -- the three `&T` the API hands out
    d.ref = ⟨d.off, IMAGE_RESOURCE_DIRECTORY__size, IMAGE_RESOURCE_DIRECTORY__align⟩ ∧
    e.ref = ⟨e.off, IMAGE_RESOURCE_DIRECTORY_ENTRY__size, IMAGE_RESOURCE_DIRECTORY_ENTRY__align⟩ ∧
    de.ref = ⟨de.off, IMAGE_RESOURCE_DATA_ENTRY__size, IMAGE_RESOURCE_DATA_ENTRY__align⟩ ∧
    -- `Pe::resources`: `slice(va, 0, align_of::<IMAGE_RESOURCE_DIRECTORY>())`
    ofView v =
      (match v.dataDir 2 with
       | none => .err .null
       | some (va, size) =>
         (v.slice va 0 IMAGE_RESOURCE_DIRECTORY__align).bind fun ref =>
           .ok (⟨v.b.extract ref.off (ref.off + min size ref.len), va, v.img.base + ref.off⟩, ref.off)) ∧
    -- `Directory::try_from`
    dirTryFrom r off =
      ((slice r "mod.rs:slice IMAGE_RESOURCE_DIRECTORY" off IMAGE_RESOURCE_DIRECTORY__size
          IMAGE_RESOURCE_DIRECTORY__align).bind fun _ =>
        let named := le16 r.sec (off + IMAGE_RESOURCE_DIRECTORY__NumberOfNamedEntries)
        let ids := le16 r.sec (off + IMAGE_RESOURCE_DIRECTORY__NumberOfIdEntries)
        if (named + ids) * IMAGE_RESOURCE_DIRECTORY_ENTRY__size > r.sec.size - (off + IMAGE_RESOURCE_DIRECTORY__size)
        then .err .bounds else .ok ⟨off, named, ids⟩) ∧
    -- one `IMAGE_RESOURCE_DIRECTORY_ENTRY` and the array of them behind the directory header
    entryAt r o = ⟨o, le32 r.sec (o + IMAGE_RESOURCE_DIRECTORY_ENTRY__Name),
                      le32 r.sec (o + IMAGE_RESOURCE_DIRECTORY_ENTRY__Offset)⟩ ∧
    entriesFrom r start (n + 1) = entryAt r start :: entriesFrom r (start + IMAGE_RESOURCE_DIRECTORY_ENTRY__size) n ∧
    entrySlice r site start n =
      ((rawRef site r.img start (IMAGE_RESOURCE_DIRECTORY_ENTRY__size * n) IMAGE_RESOURCE_DIRECTORY_ENTRY__align).bind
        fun _ => .ok (entriesFrom r start n)) ∧
    d.entries r = entrySlice r "mod.rs:entries from_raw_parts" (d.off + IMAGE_RESOURCE_DIRECTORY__size) (d.named + d.ids) ∧
    d.namedEntries r =
      entrySlice r "mod.rs:named_entries from_raw_parts" (d.off + IMAGE_RESOURCE_DIRECTORY__size) d.named ∧
    d.idEntries r = entrySlice r "mod.rs:id_entries from_raw_parts"
      (d.off + IMAGE_RESOURCE_DIRECTORY__size + IMAGE_RESOURCE_DIRECTORY_ENTRY__size * d.named) d.ids ∧
    -- `DataEntry::try_from` and its three fields
    dataTryFrom r off =
      ((slice r "mod.rs:slice IMAGE_RESOURCE_DATA_ENTRY" off IMAGE_RESOURCE_DATA_ENTRY__size
          IMAGE_RESOURCE_DATA_ENTRY__align).bind fun _ =>
        .ok ⟨off, le32 r.sec (off + IMAGE_RESOURCE_DATA_ENTRY__OffsetToData),
                  le32 r.sec (off + IMAGE_RESOURCE_DATA_ENTRY__Size),
                  le32 r.sec (off + IMAGE_RESOURCE_DATA_ENTRY__CodePage)⟩) ∧
    -- `fsck_budget`: `section.len() / size_of::<IMAGE_RESOURCE_DIRECTORY>()`
    fsckBudget r = r.sec.size / IMAGE_RESOURCE_DIRECTORY__size := by
  refine ⟨rfl, rfl, rfl, ?_, ?_, rfl, rfl, ?_, rfl, rfl, rfl, ?_, rfl⟩
  · unfold ofView
    cases v.dataDir 2 with
    | none => rfl
    | some p =>
      obtain ⟨va, size⟩ := p
      show _ = (v.slice va 0 4).bind _
      dsimp only
      cases v.slice va 0 4 <;> rfl
  · show _ = (slice r _ off 16 4).bind _
    unfold dirTryFrom
    cases slice r "mod.rs:slice IMAGE_RESOURCE_DIRECTORY" off 16 4 <;> rfl
  · show _ = (rawRef site r.img start (8 * n) 4).bind _
    unfold entrySlice
    cases rawRef site r.img start (8 * n) 4 <;> rfl
  · show _ = (slice r _ off 16 4).bind _
    unfold dataTryFrom
    cases slice r "mod.rs:slice IMAGE_RESOURCE_DATA_ENTRY" off 16 4 <;> rfl

/-- the widths the reads assume: the two counts of the directory are `u16`s at the end of the struct, the fields
of the two entry structs are `u32`s -/
theorem C12_model_field_widths :
    IMAGE_RESOURCE_DIRECTORY__NumberOfIdEntries - IMAGE_RESOURCE_DIRECTORY__NumberOfNamedEntries = 2 ∧
    IMAGE_RESOURCE_DIRECTORY__size - IMAGE_RESOURCE_DIRECTORY__NumberOfIdEntries = 2 ∧
    IMAGE_RESOURCE_DIRECTORY_ENTRY__Offset - IMAGE_RESOURCE_DIRECTORY_ENTRY__Name = 4 ∧
    IMAGE_RESOURCE_DIRECTORY_ENTRY__size - IMAGE_RESOURCE_DIRECTORY_ENTRY__Offset = 4 ∧
    IMAGE_RESOURCE_DATA_ENTRY__Size - IMAGE_RESOURCE_DATA_ENTRY__OffsetToData = 4 ∧
    IMAGE_RESOURCE_DATA_ENTRY__CodePage - IMAGE_RESOURCE_DATA_ENTRY__Size = 4 ∧
    IMAGE_RESOURCE_DATA_ENTRY__Reserved - IMAGE_RESOURCE_DATA_ENTRY__CodePage = 4 := by decide

/-- non-vacuity of the tie -/
example : IMAGE_RESOURCE_DIRECTORY__size = 16 ∧ IMAGE_RESOURCE_DIRECTORY_ENTRY__size = 8 ∧
    IMAGE_RESOURCE_DATA_ENTRY__size = 16 ∧ IMAGE_RESOURCE_DIRECTORY__NumberOfIdEntries = 14 := by decide

end Pelite.Resources
