import PeliteModel.Model.Resources
/-!
C12, "the documented name-matching rules": the public comparison `impl PartialEq for Name` (ids, UTF-16 names of the
image, Rust strings of a query) as a relation.

* it is symmetric for all names (`C12_name_eq_symm`) — the operation `nameeq` runs both orders on the real code;
* it is reflexive on ids and UTF-16 names, and on strings;
* it is NOT transitive, by design ("strict checking between ids and wide strings"): the id 3, the string `"#3"` and the
  UTF-16 name `#3` are pairwise equal through the string but the id and the UTF-16 name differ
  (`C12_name_eq_not_transitive`) — so a `Name` must not be used as a key of an equivalence-based container, and a lookup
  by string finds BOTH an id entry 3 and a named entry `#3` (first match in stored order: named entries first).
-/
namespace Pelite.Resources

theorem C12_name_eq_symm (a b : Name) : a.eq b = b.eq a := by
  cases a <;> cases b <;> simp [Name.eq, Name.eqString, eq_comm]

theorem C12_name_eq_refl_id (n : Nat) : (Name.id n).eq (.id n) = true := by simp [Name.eq]
theorem C12_name_eq_refl_wide (ws : List Nat) : (Name.wide ws).eq (.wide ws) = true := by simp [Name.eq]
theorem C12_name_eq_refl_str (s : List Nat) : (Name.str s).eq (.str s) = true := by simp [Name.eq, Name.eqString]

/-- ids and UTF-16 names never compare equal to each other, whatever they spell -/
theorem C12_name_eq_id_wide (n : Nat) (ws : List Nat) : (Name.id n).eq (.wide ws) = false ∧ (Name.wide ws).eq (.id n) = false := by
  simp [Name.eq]

/-- `#3` as a string equals the id 3 and equals the UTF-16 name "#3", which are different from each other -/
theorem C12_name_eq_not_transitive :
    (Name.id 3).eq (.str [35, 51]) = true ∧ (Name.str [35, 51]).eq (.wide [35, 51]) = true ∧ (Name.id 3).eq (.wide [35, 51]) = false := by
  decide +kernel

/-- the predefined type names: `#ICON` is the id 3 and nothing else -/
theorem C12_name_type_spelling : (Name.id 3).eq (.str [35, 73, 67, 79, 78]) = true := by decide +kernel

end Pelite.Resources
