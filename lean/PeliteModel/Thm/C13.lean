import PeliteModel.Lemmas.VersionMisc
import PeliteModel.Lemmas.VersionU16
/-!
C13 — version information is reported completely and unaltered.
Property theorems only; helper lemmas are in Lemmas/Version*.lean.

Model: `Model/Version.lean` (src/resources/version_info.rs as of the commit that clamps the key
padding in `parse_tlv`; indexing and slicing are the panicking operations of a checked build).  Specification: `Spec/Version.lean` (documented VS_VERSIONINFO layout, reference
writer `encode`, abstract content).  All statements quantify over every word list / every abstract
resource; no size bound.

The queries against the abstract content (`Spec.stringsOf`, `valueOf`, `stringMapsOf`, …) and the
round trips for every documented layout (`Spec.VInfo.IsBlock`, not only the reference writer's image)
are in `Thm/C13Queries.lean`; the source-code rendering against the abstract content (`Spec.sourceOf`),
visitors that decline blocks / string tables, and the byte-counting value length of strings are in
`Thm/C13Source.lean`.

(a) round trip      C13_round_trip, C13_writer_emits_u16, C13_strings_exactly_once, C13_fixed_round_trip, C13_translation_round_trip
(b) one event list  C13_visit_is_fold_of_events, C13_queries_are_folds, C13_source_renders_every_event,
                    C13_value_agrees_with_strings, C13_file_info_agrees_with_value (+ the two witnesses that the
                    side conditions are needed), C13_file_info_fixed_and_langs
(c) robustness      C13_node_extent, C13_level_nodes_ordered_disjoint, C13_error_ends_level, C13_tree_nested,
                    C13_strings_stay_in_their_table
(d) totality        C13_parse_tlv_never_panics, C13_parse_tlv_guards, C13_slice_operations_panic,
                    C13_strip_nul_never_panics, C13_visit_total, C13_queries_total, C13_try_from,
                    C13_item_bound, C13_node_and_event_bound, C13_language_parse_hex
-/
namespace Pelite.Version
open Spec

/-- what `VersionInfo::try_from` hands to `visit`: the words of the block, offset 0, on a 32-bit boundary -/
def block (ws : List Nat) : Sl := ⟨0, ws⟩

theorem block_al (ws : List Nat) : (block ws).Al := fun _ => rfl

/-! ## (a) what the reference writer writes is reported completely, once, in order, unaltered -/

/-- **C13, round trip.**  For every abstract version resource whose keys can be written (no NUL in a
key) and for both conventions of ending a structure without value and children, visiting the
written block reports exactly the resource's event list: the root with the fixed file info iff the
root value is 52 bytes, every block, every string table with its language key, every string with
its key and its value minus one terminating NUL, every var with its value — each once, in stored
order, the words unaltered. -/
theorem C13_round_trip (tight : Bool) (v : VInfo) (hwf : v.wf = true) :
    ∃ es, events (block (v.encode tight)) = .ok es ∧ es.map Event.erase = v.events :=
  ⟨_, events_eq_flat _ (block_al _), flat_encode tight v hwf 0⟩

/-- The blocks of the round trip exist as real resources: when the content words are u16 values and
the root's length fits its `wLength`, every word the reference writer emits is a u16 value. -/
theorem C13_writer_emits_u16 (tight : Bool) (v : VInfo) (hu : v.u16 = true) (hf : v.fits tight = true) :
    ∀ w ∈ v.encode tight, w < 65536 :=
  encode_U16 tight v hu hf

/-- Every (language, key, value) of the resource is reported exactly once and in stored order:
reading the reported events back (each string filed under the string table that precedes it)
gives the resource's list of triples. -/
theorem C13_strings_exactly_once (tight : Bool) (v : VInfo) (hwf : v.wf = true) :
    ∃ es, events (block (v.encode tight)) = .ok es ∧ triples (es.map Event.erase) = v.strings := by
  obtain ⟨es, h1, h2⟩ := C13_round_trip tight v hwf
  exact ⟨es, h1, by rw [h2, triples_events]⟩

/-- `fixed()` returns the root value iff it is 52 bytes long, unaltered. -/
theorem C13_fixed_round_trip (tight : Bool) (v : VInfo) (hwf : v.wf = true) :
    ∃ f, fixed (block (v.encode tight)) = .ok f ∧ f.map (·.ws) = v.fixed := by
  refine ⟨_, fixed_eq _ (block_al _), ?_⟩
  have h := flat_encode tight v hwf 0
  change (flatRoots (pRoots (block (v.encode tight)))).map Event.erase = v.events at h
  cases hp : pRoots (block (v.encode tight)) with
  | nil => rw [hp] at h; simp [flatRoots, VInfo.events] at h
  | cons r rs =>
    rw [hp] at h
    simp only [flatRoots, flatRoot, VInfo.events, List.cons_append, List.map_cons, Event.erase, List.cons.injEq,
      SEvent.versionInfo.injEq] at h
    exact h.1.2

/-- `translation()` returns the pairs of the (last) Var named "Translation", nothing when there is none. -/
theorem C13_translation_round_trip (tight : Bool) (v : VInfo) (hwf : v.wf = true) :
    ∃ t, translation (block (v.encode tight)) = .ok t ∧
      (match t with
       | some sl => (langsOf sl.ws).map (fun l => (l.langId, l.charsetId))
       | none => []) = v.translations := by
  refine ⟨_, translation_eq _ (block_al _), ?_⟩
  have h := flat_encode tight v hwf 0
  change (flatRoots (pRoots (block (v.encode tight)))).map Event.erase = v.events at h
  cases hp : pRoots (block (v.encode tight)) with
  | nil => rw [hp] at h; simp [flatRoots, VInfo.events] at h
  | cons r rs =>
    rw [hp] at h
    simp only [flatRoots] at h
    have h2 := translationValues_flatRoot r
    rw [h, translationValues_events] at h2
    simp only [VInfo.translations, h2, lastTranslation_eq, List.getLast?_map]
    cases (List.filter (fun x => decide (x.key.ws = strTranslation)) r.vars).getLast? with
    | none => rfl
    | some x => exact langsOf_pairs x.value.ws

/-! ## (b) all queries are folds of the one event list, and agree -/

/-- **Every visitor's result is a fold of the one event list** (any visitor whose `version_info`
callback returns `true`, as all visitors of the crate do; any word list).  `replay V` interprets a
recorded callback with `V` and skips the recorded subtree when `V` declines it. -/
theorem C13_visit_is_fold_of_events {σ : Type} (V : Visitor σ) (hV : V.AcceptsRoot) (ws : List Nat) (s : σ) :
    ∃ es, events (block ws) = .ok es ∧ visit V (block ws) s = .ok (es.foldl (replay V) (s, none)).1 :=
  visit_eq_fold V hV (block ws) (block_al ws) s

/-- The six queries of `VersionInfo` are such folds. -/
theorem C13_queries_are_folds (ws : List Nat) (lang : Language) (key : Str) :
    ∃ es, events (block ws) = .ok es ∧
      fixed (block ws) = .ok (es.foldl (replay queryFixed) (none, none)).1 ∧
      translation (block ws) = .ok (es.foldl (replay queryTranslation) (none, none)).1 ∧
      value (block ws) lang key = .ok (es.foldl (replay (queryValue lang key)) (none, none)).1 ∧
      strings (block ws) lang = .ok (es.foldl (replay (queryStrings lang)) ([], none)).1 ∧
      fileInfo (block ws) = .ok (es.foldl (replay fileInfoVisitor) ({}, none)).1 ∧
      sourceCode (block ws) = .ok (es.foldl (replay sourceVisitor) ([], none)).1 := by
  refine ⟨_, events_eq_flat _ (block_al ws), ?_, ?_, ?_, ?_, ?_, ?_⟩
  · obtain ⟨es, h1, h2⟩ := visit_eq_fold queryFixed (fun _ _ _ => rfl) (block ws) (block_al ws) none
    rw [events_eq_flat _ (block_al ws)] at h1; cases h1; exact h2
  · obtain ⟨es, h1, h2⟩ := visit_eq_fold queryTranslation (fun _ _ _ => rfl) (block ws) (block_al ws) none
    rw [events_eq_flat _ (block_al ws)] at h1; cases h1; exact h2
  · obtain ⟨es, h1, h2⟩ := visit_eq_fold (queryValue lang key) (fun _ _ _ => rfl) (block ws) (block_al ws) none
    rw [events_eq_flat _ (block_al ws)] at h1; cases h1; exact h2
  · obtain ⟨es, h1, h2⟩ := visit_eq_fold (queryStrings lang) (fun _ _ _ => rfl) (block ws) (block_al ws) []
    rw [events_eq_flat _ (block_al ws)] at h1; cases h1; exact h2
  · obtain ⟨es, h1, h2⟩ := visit_eq_fold fileInfoVisitor (fun _ _ _ => rfl) (block ws) (block_al ws) {}
    rw [events_eq_flat _ (block_al ws)] at h1; cases h1; exact h2
  · obtain ⟨es, h1, h2⟩ := visit_eq_fold sourceVisitor (fun _ _ _ => rfl) (block ws) (block_al ws) []
    rw [events_eq_flat _ (block_al ws)] at h1; cases h1; exact h2

/-- The source-code rendering is the event list rendered callback by callback: one `VALUE` line
per reported string, inside the `BLOCK` of its string table, in order. -/
theorem C13_source_renders_every_event (ws : List Nat) :
    ∃ es, events (block ws) = .ok es ∧ sourceCode (block ws) = .ok (es.flatMap renderEvent) :=
  ⟨_, events_eq_flat _ (block_al ws), sourceCode_eq _ (block_al ws)⟩

/-- The single-value query agrees with the per-language enumeration: `value(lang, key)` is the
value of the last pair with that key that `strings(lang, ..)` reports.  Side condition (decidable):
the stored keys contain no unpaired surrogate — `value` compares keys exactly, `strings` converts
them lossily. -/
theorem C13_value_agrees_with_strings (ws : List Nat) (lang : Language) (key : Str) (es : List Event)
    (hes : events (block ws) = .ok es) (hkeys : ∀ k ∈ stringKeys es, validUtf16 k = true) :
    ∃ v l, value (block ws) lang key = .ok v ∧ strings (block ws) lang = .ok l ∧
      v = ((l.filter (fun p => p.1 = key)).getLast?).map (·.2) := by
  refine ⟨_, _, value_eq _ (block_al ws) lang key, strings_eq _ (block_al ws) lang, ?_⟩
  rw [events_eq_flat _ (block_al ws)] at hes
  cases hes
  cases hp : pRoots (block ws) with
  | nil => rfl
  | cons r rs =>
    rw [hp] at hkeys
    simp only [flatRoots, stringKeys_flatRoot] at hkeys
    apply value_strings_agree_tree
    intro kv hkv
    apply hkeys
    simp only [PRoot.kvsOf, List.mem_flatMap, List.mem_filter] at hkv
    obtain ⟨t, ⟨ht, _⟩, hkv⟩ := hkv
    exact List.mem_flatMap.mpr ⟨t, ht, List.mem_map.mpr ⟨kv, hkv, rfl⟩⟩

/-- The hash-map dump agrees with the single-value query: `file_info().strings[lang][key]` is
`value(lang, key)`.  Side conditions (decidable): valid UTF-16 keys as above, and no two string
tables whose keys name the same language — `file_info` keeps only the last such table,
`value` looks into all of them. -/
theorem C13_file_info_agrees_with_value (ws : List Nat) (lang : Language) (key : Str) (es : List Event)
    (hes : events (block ws) = .ok es) (hkeys : ∀ k ∈ stringKeys es, validUtf16 k = true)
    (hlangs : (tableLangs es).Nodup) :
    ∃ fi v, fileInfo (block ws) = .ok fi ∧ value (block ws) lang key = .ok v ∧
      (amLookup lang fi.strings).bind (amLookup key) = v := by
  obtain ⟨fi, hfi, hfi2⟩ := fileInfo_eq _ (block_al ws)
  refine ⟨fi, _, hfi, value_eq _ (block_al ws) lang key, ?_⟩
  rw [events_eq_flat _ (block_al ws)] at hes
  cases hes
  cases hp : pRoots (block ws) with
  | nil =>
    rw [hp] at hfi2
    simp only [hfi2.2.1]; rfl
  | cons r rs =>
    rw [hp] at hfi2 hkeys hlangs
    simp only [flatRoots, stringKeys_flatRoot] at hkeys
    simp only [flatRoots, tableLangs_flatRoot] at hlangs
    simp only [hfi2.2.1]
    apply fileInfo_value_agree_tree r lang key ?_ hlangs
    intro kv hkv
    apply hkeys
    simp only [PRoot.kvsOf, List.mem_flatMap, List.mem_filter] at hkv
    obtain ⟨t, ⟨ht, _⟩, hkv⟩ := hkv
    exact List.mem_flatMap.mpr ⟨t, ht, List.mem_map.mpr ⟨kv, hkv, rfl⟩⟩

/-- two string tables "000004b0" {A = "1"} and "000004B0" {B = "2"} (same language, written by the
reference writer) -/
def twoTables : VInfo :=
  ⟨ofString "V", [], [.stringInfo [⟨ofString "000004b0", [⟨[65], [49, 0]⟩]⟩, ⟨ofString "000004B0", [⟨[66], [50, 0]⟩]⟩]]⟩

/-- The distinct-languages condition is needed: with two tables naming the same language
`value` finds "A" in the first one, the hash map only holds the second one. -/
theorem C13_file_info_needs_distinct_languages :
    twoTables.wf = true ∧
    value (block (twoTables.encode false)) ⟨0, 1200⟩ [65] = .ok (some [49]) ∧
    (fileInfo (block (twoTables.encode false))).bind (fun fi => .ok ((amLookup ⟨0, 1200⟩ fi.strings).bind (amLookup [65])))
      = .ok none := by
  decide +kernel

/-- a string whose key is the unpaired surrogate D800 -/
def loneSurrogateKey : VInfo :=
  ⟨ofString "V", [], [.stringInfo [⟨ofString "000004b0", [⟨[0xD800], [49, 0]⟩]⟩]]⟩

/-- The valid-keys condition is needed: `strings` reports the key as U+FFFD, `value` asked for
U+FFFD finds nothing. -/
theorem C13_value_needs_valid_keys :
    loneSurrogateKey.wf = true ∧
    strings (block (loneSurrogateKey.encode false)) ⟨0, 1200⟩ = .ok [([0xFFFD], [49])] ∧
    value (block (loneSurrogateKey.encode false)) ⟨0, 1200⟩ [0xFFFD] = .ok none := by
  decide +kernel

/-- The hash-map dump carries the same fixed info and translation slice as the dedicated queries. -/
theorem C13_file_info_fixed_and_langs (ws : List Nat) :
    ∃ fi f t, fileInfo (block ws) = .ok fi ∧ fixed (block ws) = .ok f ∧ translation (block ws) = .ok t ∧
      fi.fixed = f ∧ fi.langs = t := by
  obtain ⟨fi, hfi, hfi2⟩ := fileInfo_eq _ (block_al ws)
  refine ⟨fi, _, _, hfi, fixed_eq _ (block_al ws), translation_eq _ (block_al ws), ?_⟩
  cases hp : pRoots (block ws) with
  | nil => rw [hp] at hfi2; exact ⟨hfi2.1, hfi2.2.2⟩
  | cons r rs => rw [hp] at hfi2; exact ⟨hfi2.1, hfi2.2.2⟩

/-! ## (c) robustness for arbitrary words -/

/-- **A parsed node lies inside the words it was parsed from**, for every input of `parse_tlv`:
header at the start, then the key, its NUL, the value, the children up to the node's end; the
parser resumes at or after the node's end; key, value, children and the resumed input are windows
of the input (same words); values and children are empty or on a 32-bit boundary. -/
theorem C13_node_extent (vlt : Vlt) (w : Sl) (t : Tlv) (r : Sl) (h : parseTlv vlt w = .ok (t, r)) :
    4 ≤ nodeLen w ∧ nodeLen w ≤ w.len ∧
    t.key.off = w.off + 3 ∧
    t.key.off + t.key.len + 1 ≤ t.value.off ∧
    t.value.off + t.value.len ≤ t.children.off ∧
    t.children.off + t.children.len = w.off + nodeLen w ∧
    w.off + nodeLen w ≤ r.off ∧ r.off + r.len = w.off + w.len ∧
    t.key.Sub w ∧ t.value.Sub w ∧ t.children.Sub w ∧ r.Sub w ∧
    (w.Al → t.value.Al ∧ t.children.Al ∧ r.Al) := by
  have e := parseTlv_ok_ext h
  exact ⟨e.len4, e.lenL, e.keyOff, e.keyEnd, e.valEnd, e.chEnd, e.restOff, e.restEnd, e.keySub, e.valSub,
    e.chSub, e.restSub, fun hw => ⟨e.alV hw, e.alC hw, e.alR hw⟩⟩

/-- **The nodes of one level lie inside the level's input, in stored order, without overlap.** -/
theorem C13_level_nodes_ordered_disjoint (vlt : Vlt) (w : Sl) :
    (∀ t ∈ items vlt w, NodeIn t w) ∧ (items vlt w).Pairwise (fun a b => a.stop ≤ b.start) :=
  items_ext vlt w

/-- **An error ends its level**: when `parse_tlv` fails on the remaining input of a level, the loop
body is not run again, whatever follows (and the loop is exactly a run over `items`). -/
theorem C13_error_ends_level {σ : Type} (vlt : Vlt) (step : Tlv → σ → Out (σ × Bool)) (w : Sl) (s : σ) :
    (∀ e, parseTlv vlt w = .err e → forEach vlt step w s = .ok s ∧ items vlt w = []) ∧
    forEach vlt step w s = runSteps step (items vlt w) s :=
  ⟨fun _ h => ⟨forEach_err h, items_err h⟩, forEach_eq_runSteps vlt step w s⟩

/-- **The reported tree is nested in the block**: for every word list, the events are the flattened
parse tree, and in that tree every block lies in the root's children, every string table in its
block's children, every string in its table's children, every var in its block's children;
siblings are in stored order and do not overlap. -/
theorem C13_tree_nested (ws : List Nat) :
    events (block ws) = .ok (flatRoots (pRoots (block ws))) ∧ ∀ r ∈ pRoots (block ws), r.Nested (block ws) :=
  ⟨events_eq_flat _ (block_al ws), pRoots_nested _⟩

/-- **Nothing is attributed to another table**: for two string tables of a block, every string
reported under the first ends before the first table ends, which is before the second table starts,
which is before any string reported under the second starts. -/
theorem C13_strings_stay_in_their_table (ws : List Nat) :
    ∀ r ∈ pRoots (block ws), ∀ i ∈ r.infos,
      i.tables.Pairwise (fun t1 t2 => ∀ x ∈ t1.strings, ∀ y ∈ t2.strings,
        x.stop ≤ t1.node.stop ∧ t1.node.stop ≤ t2.node.start ∧ t2.node.start ≤ y.start) := by
  intro r hr i hi
  have hn := pRoots_nested (block ws) r hr
  refine List.Pairwise.imp_of_mem ?_ (hn.tablesOrd i hi)
  intro t1 t2 h1 h2 hord x hx y hy
  have hx' := hn.strings i hi t1 h1 x hx
  have hy' := hn.strings i hi t2 h2 y hy
  have ht2 := hn.tables i hi t2 h2
  refine ⟨?_, hord, ?_⟩
  · have := hx'.stop; simp only [Tlv.stop] at *; omega
  · have h3 := hy'.start
    have h4 := ht2.keyOff; have h5 := ht2.keyEnd; have h6 := ht2.valEnd
    omega

/-! ## (d) totality, bounds -/

/-- **`parse_tlv` never panics** (C02), for every word list and every value-length convention:
it answers `Ok` or `Err(Invalid)`.  `parseTlv` is the function the driver runs; it indexes and
slices with the panicking operations of a checked build (`Sl.idx`, `Sl.sliceFrom`, `Sl.sliceTo`, one
at each `words[i]` / `&words[a..b]` of the Rust code, each with a `panic` outcome when out of range),
so this is a statement about the guards of the code, see `C13_parse_tlv_guards`. -/
theorem C13_parse_tlv_never_panics (vlt : Vlt) (w : Sl) :
    (∃ t r, parseTlv vlt w = .ok (t, r)) ∨ parseTlv vlt w = .err .invalid :=
  parseTlv_total vlt w

/-- **Every index and every slice bound of `parse_tlv` is in range where it is used**: the checked
function equals the one written with total `take` / `drop` (and is therefore not `panic`, the total
one has no such outcome).  The proof (Model/Version.lean, `parseTlv_eq_total`) discharges the range
condition of each site from the check or clamp that precedes it:
`words[0]`, `words[1]` from `words.len() >= 4`; `&words[..length]` from `length <= words.len()`;
`&words[3..]` from `length = max(4, _)`; `&words[..value_length]` from `value_length <= words.len()`;
the three `&words[min(_, words.len())..]` from the `cmp::min`. -/
theorem C13_parse_tlv_guards (vlt : Vlt) (w : Sl) : parseTlv vlt w = parseTlvTotal vlt w :=
  parseTlv_eq_total vlt w

/-- The panicking operations do panic out of range, and the clamp of the key padding is what keeps
`parse_tlv` from it: on the node `[10, 0, 1, 'A', 0]` (a key of odd length ending its node) the
unclamped bound `key.len().align_to(2) + 4 = 6` exceeds the node's 5 words — the panic of the
unfixed code — while the clamped slice is the empty rest. -/
theorem C13_slice_operations_panic :
    (⟨0, [10, 0, 1, 65, 0]⟩ : Sl).sliceFrom (align2 1 + 4) siteBody = .panic siteBody ∧
    (⟨0, [10, 0, 1, 65, 0]⟩ : Sl).sliceFrom (min (align2 1 + 4) 5) siteBody = .ok ⟨5, []⟩ ∧
    (⟨0, [1, 2]⟩ : Sl).idx 2 siteLen = .panic siteLen ∧ (⟨0, [1, 2]⟩ : Sl).idx 1 siteLen = .ok 2 ∧
    (⟨0, [1, 2]⟩ : Sl).sliceTo 3 siteNode = .panic siteNode ∧ (⟨0, [1, 2]⟩ : Sl).sliceTo 2 siteNode = .ok ⟨0, [1, 2]⟩ := by
  decide

/-- **Stripping the terminating NUL never panics**: `&value[..value.len() - 1]` (a `usize`
subtraction and a slicing, both panicking in the model) is only reached when the last word is `0`,
so the value is not empty. -/
theorem C13_strip_nul_never_panics (v : Sl) : stripNulChk v = .ok (stripNul v) :=
  stripNulChk_eq v

/-- **`visit` returns for every visitor and every word list**: no panic (C02; every `parse_tlv` and
every terminator stripping of the walk is the checked one), no unaligned or
out-of-bounds unchecked access (the `&*(ptr as *const VS_FIXEDFILEINFO)` is only reached on a
32-bit boundary), no divergence (C03; the loops are well-founded recursions on the remaining input,
there is no fuel).  The result is the structural walk over the parse tree. -/
theorem C13_visit_total {σ : Type} (V : Visitor σ) (ws : List Nat) (s : σ) :
    visit V (block ws) s = .ok (walkRoots V (pRoots (block ws)) s) :=
  visit_eq_walk V (block ws) (block_al ws) s

theorem C13_queries_total (ws : List Nat) (lang : Language) (key : Str) :
    (fixed (block ws)).isOk ∧ (translation (block ws)).isOk ∧ (value (block ws) lang key).isOk ∧
    (strings (block ws) lang).isOk ∧ (fileInfo (block ws)).isOk ∧ (sourceCode (block ws)).isOk ∧
    (events (block ws)).isOk := by
  simp only [fixed, translation, value, strings, fileInfo, sourceCode, events, C13_visit_total, Out.isOk, and_self]

/-- `try_from` accepts exactly the 4-aligned buffers; the words it yields are u16 values. -/
theorem C13_try_from (base : Nat) (bytes : Bytes) :
    tryFrom base bytes = (if base % 4 = 0 then .ok (block (wordsOfBytes bytes)) else .err .misaligned) ∧
    (wordsOfBytes bytes).length = bytes.size / 2 ∧ ∀ w ∈ wordsOfBytes bytes, w < 65536 := by
  refine ⟨?_, ?_, ?_⟩
  · unfold tryFrom block; by_cases h : base % 4 = 0 <;> simp [h]
  · simp [wordsOfBytes]
  · intro w hw
    simp only [wordsOfBytes, List.mem_map] at hw
    obtain ⟨i, _, rfl⟩ := hw
    exact le16_lt _ _

/-- A level with `n` words of input reports at most `n / 4` nodes. -/
theorem C13_item_bound (vlt : Vlt) (w : Sl) : 4 * (items vlt w).length ≤ w.len :=
  items_length_le vlt w

/-- A block of `n` words has at most `n / 4` nodes in its reported tree and at most `3n / 4` events. -/
theorem C13_node_and_event_bound (ws : List Nat) :
    (∀ r ∈ pRoots (block ws), 4 * r.count ≤ ws.length) ∧
    ∃ es, events (block ws) = .ok es ∧ 4 * es.length ≤ 3 * ws.length := by
  refine ⟨fun r hr => pRoots_count (block ws) r hr, _, events_eq_flat _ (block_al ws), ?_⟩
  cases hp : pRoots (block ws) with
  | nil => simp [flatRoots]
  | cons r rs =>
    have h1 := pRoots_count (block ws) r (by rw [hp]; exact List.mem_cons_self ..)
    have h2 := flatRoot_length r
    simp only [flatRoots, block, Sl.len] at *
    omega

/-- `Language::parse` reads an 8 hex digit string-table key (either case) as the documented
(language id, codepage) pair. -/
theorem C13_language_parse_hex (k : List Nat) (l c : Nat) (h : langOfKey k = some (l, c)) :
    Language.parse k = some ⟨l, c⟩ :=
  parse_hex_key h

/-! ## non-vacuity and regression -/

/-- a resource with fixed info, a translation and a table with keys of odd and even length, an
empty value, a value with an embedded NUL -/
def sample : VInfo :=
  ⟨ofString "VS_VERSION_INFO", List.replicate 26 7,
   [.varInfo [⟨kTranslation, [0x409, 1200]⟩],
    .stringInfo [⟨ofString "040904b0", [⟨ofString "A", []⟩, ⟨ofString "Bc", [0]⟩, ⟨ofString "Def", [120, 0, 121, 0]⟩]⟩]]⟩

example : sample.wf = true ∧ sample.u16 = true ∧ sample.fits true = true ∧
    sample.strings = [(ofString "040904b0", [65], []), (ofString "040904b0", [66, 99], []),
                      (ofString "040904b0", [68, 101, 102], [120, 0, 121])] ∧
    sample.translations = [(0x409, 1200)] ∧
    (events (block (sample.encode true))).isOk = true ∧
    value (block (sample.encode true)) ⟨0x409, 1200⟩ [68, 101, 102] = .ok (some [120, 0, 121]) := by
  decide +kernel

/-- the input on which `parse_tlv` used to panic (odd key ending its node): now an empty node -/
example : events (block [10, 0, 1, 65, 0]) = .ok [.versionInfo ⟨3, [65]⟩ none, .enter 0, .exit 0] := by
  decide +kernel

end Pelite.Version
