import PeliteModel.Model.Version
import PeliteModel.Model.ResFind
import PeliteModel.Spec.Version
import PeliteModel.Generated.ImageLayout
/-!
C13 — the literals of `Model/Version.lean` that describe `VS_FIXEDFILEINFO` are the layout of that struct (and of
the `VS_VERSION` inside it) in the *current source* (`Generated/ImageLayout.lean`, rewritten on every check run from
`size_of` / `align_of` / `offset_of!` of the structs of `src/image.rs`).

The version-info block is modelled as `u16` words, so a byte offset `o` of the struct is word `o / 2` of the value.

Not tied: nothing else in the module is a struct of `image.rs` — the TLV header (`wLength`, `wValueLength`, `wType`,
key) is parsed from `&[u16]` by index (`words[0]`, `words[1]`, `&words[3..]`), there is no struct for it in the
source.  The `4` of `VersionInfo::try_from` (`bytes.as_ptr().aligned_to(4)`) is a literal in the source too; it is
stated here as the alignment of `VS_FIXEDFILEINFO`, which is what makes the later unchecked cast aligned.
-/
namespace Pelite.Version
open Pelite Pelite.Generated.Layout

/-- **The fixed file info is recognised by `size_of::<VS_FIXEDFILEINFO>()`** (52 bytes = 13 dwords = 26 words),
`try_from` and `Resources::version_info` demand the struct's alignment, and the specification's "52 bytes" is the
same number. -/
theorem C13_fixed_size (value : Sl) (base : Nat) (bytes : Bytes) (r : Resources.Resources) (v : Spec.VInfo) :
    -- `match mem::size_of_val(value) { 0 => None, VS_FIXEDFILEINFO_SIZEOF => Some(&*(..)), _ => None }`
    fixedOf value =
      (if value.len * 2 = 0 then .ok none
       else if value.len * 2 = VS_FIXEDFILEINFO__size then
         (if value.off % 2 = 0 then .ok (some value) else .ub siteFixed)
       else .ok none) ∧
    -- the struct is thirteen dwords, every field a `u32` (or the 8-byte `VS_VERSION`), no padding
    VS_FIXEDFILEINFO__size = 13 * 4 ∧ VS_FIXEDFILEINFO__size = 2 * 26 ∧
    VS_FIXEDFILEINFO__dwFileDateLS + 4 = VS_FIXEDFILEINFO__size ∧
    -- alignment: `VersionInfo::try_from` and the copy of that check in `Resources::version_info`
    tryFrom base bytes = (if base % VS_FIXEDFILEINFO__align ≠ 0 then .err .misaligned else .ok ⟨0, wordsOfBytes bytes⟩) ∧
    Resources.versionInfo r =
      (Resources.bindF (Resources.versionBytes r) fun b =>
        if (r.base + b.off) % VS_FIXEDFILEINFO__align ≠ 0 then Resources.failF (.pe .misaligned)
        else Resources.okF ⟨b.off, b.len / 2 * 2, 2⟩) ∧
    -- a 4-aligned block start makes the cast aligned exactly at even word offsets (`fixedOf`'s `off % 2`)
    VS_FIXEDFILEINFO__align = 2 * 2 ∧
    -- specification side (`Spec/Version.lean`, written from Microsoft's description): the same size
    v.fixed = (if v.value.length * 2 = VS_FIXEDFILEINFO__size then some v.value else none) := by
  refine ⟨rfl, rfl, rfl, rfl, rfl, rfl, rfl, ?_⟩
  unfold Spec.VInfo.fixed
  have : VS_FIXEDFILEINFO__size = 52 := rfl
  rw [this]
  by_cases h : v.value.length = 26
  · rw [if_pos h, if_pos (by omega)]
  · rw [if_neg h, if_neg (by omega)]

/-- **The fields `source_code` prints are read at the struct's offsets**: word `o / 2` of the value for a field at
byte offset `o`; `FILEVERSION` / `PRODUCTVERSION` print `Major, Minor, Patch, Build` of the `VS_VERSION` at
`dwFileVersion` / `dwProductVersion` (stored as Minor, Major, Build, Patch). -/
theorem C13_fixed_field_offsets (f : List Nat) :
    renderFixed f =
      (let w (i : Nat) := f.getD i 0
       let d (i : Nat) := w i + 65536 * w (i + 1)
       let fv := VS_FIXEDFILEINFO__dwFileVersion / 2
       let pv := VS_FIXEDFILEINFO__dwProductVersion / 2
       str "1 VERSIONINFO\nFILEVERSION " ++ dec (w (fv + VS_VERSION__Major / 2)) ++ str ", " ++ dec (w (fv + VS_VERSION__Minor / 2))
         ++ str ", " ++ dec (w (fv + VS_VERSION__Patch / 2)) ++ str ", " ++ dec (w (fv + VS_VERSION__Build / 2))
       ++ str "\nPRODUCTVERSION " ++ dec (w (pv + VS_VERSION__Major / 2)) ++ str ", " ++ dec (w (pv + VS_VERSION__Minor / 2))
         ++ str ", " ++ dec (w (pv + VS_VERSION__Patch / 2)) ++ str ", " ++ dec (w (pv + VS_VERSION__Build / 2))
       ++ str "\nFILEFLAGSMASK " ++ hexx (d (VS_FIXEDFILEINFO__dwFileFlagsMask / 2))
       ++ str "\nFILEFLAGS " ++ hexx (d (VS_FIXEDFILEINFO__dwFileFlags / 2))
       ++ str "\nFILEOS (" ++ dec (d (VS_FIXEDFILEINFO__dwFileOS / 2) / 65536) ++ str " << 16) | "
         ++ dec (d (VS_FIXEDFILEINFO__dwFileOS / 2) % 65536)
       ++ str "\nFILETYPE " ++ dec (d (VS_FIXEDFILEINFO__dwFileType / 2))
       ++ str "\nFILESUBTYPE " ++ dec (d (VS_FIXEDFILEINFO__dwFileSubtype / 2)) ++ str "\n") :=
  rfl

/-- the offsets used above are even (word indices are exact), `VS_VERSION` is four `u16`s filling the 8 bytes
between `dwFileVersion` and `dwProductVersion`, and the five dword fields printed are 4 bytes wide -/
theorem C13_fixed_field_widths :
    VS_VERSION__size = VS_FIXEDFILEINFO__dwProductVersion - VS_FIXEDFILEINFO__dwFileVersion ∧
    VS_VERSION__size = VS_FIXEDFILEINFO__dwFileFlagsMask - VS_FIXEDFILEINFO__dwProductVersion ∧
    VS_VERSION__Major - VS_VERSION__Minor = 2 ∧ VS_VERSION__Build - VS_VERSION__Major = 2 ∧
    VS_VERSION__Patch - VS_VERSION__Build = 2 ∧ VS_VERSION__size - VS_VERSION__Patch = 2 ∧
    VS_FIXEDFILEINFO__dwFileVersion % 2 = 0 ∧ VS_FIXEDFILEINFO__dwProductVersion % 2 = 0 ∧
    VS_FIXEDFILEINFO__dwFileFlags - VS_FIXEDFILEINFO__dwFileFlagsMask = 4 ∧
    VS_FIXEDFILEINFO__dwFileOS - VS_FIXEDFILEINFO__dwFileFlags = 4 ∧
    VS_FIXEDFILEINFO__dwFileType - VS_FIXEDFILEINFO__dwFileOS = 4 ∧
    VS_FIXEDFILEINFO__dwFileSubtype - VS_FIXEDFILEINFO__dwFileType = 4 ∧
    VS_FIXEDFILEINFO__dwFileDateMS - VS_FIXEDFILEINFO__dwFileSubtype = 4 := by decide

/-- non-vacuity: a 26-word value at an even word offset IS handed out as the fixed info, one word less is not -/
example : fixedOf ⟨40, List.replicate 26 7⟩ = .ok (some ⟨40, List.replicate 26 7⟩) ∧
    fixedOf ⟨40, List.replicate 25 7⟩ = .ok none ∧ fixedOf ⟨41, List.replicate 26 7⟩ = .ub siteFixed := by
  decide +kernel

end Pelite.Version
