import PeliteModel.Thm.C13
import PeliteModel.Lemmas.VersionSpecQueries
import PeliteModel.Lemmas.VersionLayout
/-!
C13 — the queries of `VersionInfo` against the abstract content of the resource.

`Thm/C13.lean` relates the *event list* of a written resource to its abstract content and the queries
to one another.  Here every query of the model, run on the block the reference writer produces for an
abstract resource `v` (both conventions `tight`), is shown to answer what the specification derives
from `v` alone (`Spec/Version.lean`: `fixedInfoOf`, `translationsOf`, `stringsOf`, `valueOf`,
`stringMapsOf`; text is UTF-16 read as the Unicode standard says, `Spec.text`).

    C13_fixed_query_round_trip         fixed()
    C13_translation_query_round_trip   translation()
    C13_strings_query_round_trip       strings(lang)            needs: table keys are 8 hex digits
    C13_value_query_round_trip         value(lang, key)         needs: + keys are well-formed UTF-16
    C13_file_info_round_trip           file_info()              needs: + languages distinct, keys distinct per table

The same holds for **every block laid out as documented**, not only for the image of the reference
writer: `Spec.VInfo.IsBlock v ws` (Spec/Version.lean, `IsNode` / `IsNodes`) lets every structure
choose its padding words, keep or omit the padding that may be omitted, use any `wType`, and lets
anything follow the root.  `C13_writer_produces_layout` shows the writer's image is one instance,
`C13_layout_*` are the round trips for all instances.

Each side condition is a decidable predicate of `v` and is necessary: the witnesses below (and
`C13_file_info_needs_distinct_languages`, `C13_value_needs_valid_keys` in `Thm/C13.lean`) are written
resources on which the query answers something else.  The driver prints the `spec=` answers of the
`ver` family through the same `Spec` definitions.
-/
namespace Pelite.Version
open Spec

/-- **`fixed()`** hands out the root value iff it is the 52 bytes of VS_FIXEDFILEINFO, unaltered. -/
theorem C13_fixed_query_round_trip (tight : Bool) (v : VInfo) (hwf : v.wf = true) :
    ∃ f, fixed (block (v.encode tight)) = .ok f ∧ f.map (·.ws) = fixedInfoOf v :=
  C13_fixed_round_trip tight v hwf

/-- **`translation()`** hands out the (language, codepage) pairs of the Var named "Translation"
(the last one when there are several), the empty slice when there is none. -/
theorem C13_translation_query_round_trip (tight : Bool) (v : VInfo) (hwf : v.wf = true) :
    ∃ t, translation (block (v.encode tight)) = .ok t ∧
      (match t with
       | some sl => (langsOf sl.ws).map (fun l => (l.langId, l.charsetId))
       | none => []) = translationsOf v :=
  C13_translation_round_trip tight v hwf

/-- **`strings(lang)`** enumerates exactly the (key, value) pairs of the string tables that name
`lang`, in stored order, as text, each value without its terminating NUL.
Side condition: every string table key is 8 hex digits. -/
theorem C13_strings_query_round_trip (tight : Bool) (v : VInfo) (hwf : v.wf = true)
    (hlang : v.langKeysOk = true) (l c : Nat) :
    strings (block (v.encode tight)) ⟨l, c⟩ = .ok (stringsOf v (l, c)) :=
  strings_encode tight v hwf hlang l c

/-- **`value(lang, key)`** answers the value stored under `key` in the tables that name `lang`.
Side conditions: table keys are 8 hex digits; string keys are well-formed UTF-16. -/
theorem C13_value_query_round_trip (tight : Bool) (v : VInfo) (hwf : v.wf = true)
    (hlang : v.langKeysOk = true) (hkeys : v.keysValid = true) (l c : Nat) (key : Str) :
    value (block (v.encode tight)) ⟨l, c⟩ key = .ok (valueOf v (l, c) key) :=
  value_encode tight v hwf hlang hkeys l c key

/-- **`file_info()`** holds the fixed info, the translation list, and exactly one map per string
table, keyed by the language the table names, holding exactly the table's (key, value) pairs as text.
Side conditions: table keys are 8 hex digits naming pairwise distinct languages; within a table no two
keys are the same text. -/
theorem C13_file_info_round_trip (tight : Bool) (v : VInfo) (hwf : v.wf = true)
    (hlang : v.langKeysOk = true) (hdl : v.langsDistinct = true) (hdk : v.keysDistinct = true) :
    ∃ fi, fileInfo (block (v.encode tight)) = .ok fi ∧
      fi.fixed.map (·.ws) = fixedInfoOf v ∧
      (match fi.langs with
       | some sl => (langsOf sl.ws).map (fun l => (l.langId, l.charsetId))
       | none => []) = translationsOf v ∧
      fi.strings.map (fun e => ((e.1.langId, e.1.charsetId), e.2)) = stringMapsOf v := by
  obtain ⟨fi, hfi, hs⟩ := fileInfo_strings_encode tight v hwf hlang hdl hdk
  obtain ⟨fi', f, t, hfi', hf, ht, e1, e2⟩ := C13_file_info_fixed_and_langs (v.encode tight)
  obtain ⟨f', hf', hfx⟩ := C13_fixed_round_trip tight v hwf
  obtain ⟨t', ht', htr⟩ := C13_translation_round_trip tight v hwf
  have hfi0 : fileInfo (block (v.encode tight)) = .ok fi := hfi
  rw [hfi0] at hfi'; cases hfi'
  rw [hf] at hf'; cases hf'
  rw [ht] at ht'; cases ht'
  exact ⟨fi, hfi, by rw [e1]; exact hfx, by rw [e2]; exact htr, hs⟩

/-- Under all four side conditions every string query is determined by the abstract content
(`Spec.VInfo.queriesDetermined`, the `hyp` of the correspondence run). -/
theorem C13_queries_determined (tight : Bool) (v : VInfo) (hwf : v.wf = true) (h : v.queriesDetermined = true)
    (l c : Nat) (key : Str) :
    strings (block (v.encode tight)) ⟨l, c⟩ = .ok (stringsOf v (l, c)) ∧
    value (block (v.encode tight)) ⟨l, c⟩ key = .ok (valueOf v (l, c) key) ∧
    ∃ fi, fileInfo (block (v.encode tight)) = .ok fi ∧
      fi.strings.map (fun e => ((e.1.langId, e.1.charsetId), e.2)) = stringMapsOf v := by
  simp only [VInfo.queriesDetermined, Bool.and_eq_true] at h
  obtain ⟨⟨⟨h1, h2⟩, h3⟩, h4⟩ := h
  obtain ⟨fi, hfi, _, _, hs⟩ := C13_file_info_round_trip tight v hwf h1 h3 h4
  exact ⟨C13_strings_query_round_trip tight v hwf h1 l c, C13_value_query_round_trip tight v hwf h1 h2 l c key,
    fi, hfi, hs⟩

/-! ## the specification's text is the model's -/

/-- `String::from_utf16_lossy` (model) is the specification's reading of UTF-16, and
`char::decode_utf16` yields no error exactly on well-formed UTF-16. -/
theorem C13_text_is_lossy (ws : List Nat) : lossy ws = text ws ∧ validUtf16 ws = wellFormed16 ws :=
  ⟨lossy_eq_text ws, validUtf16_eq ws⟩

/-! ## the side conditions are satisfiable and necessary -/

/-- the sample of `Thm/C13.lean` meets every side condition, and the answers are not trivial -/
example : sample.wf = true ∧ sample.queriesDetermined = true ∧
    stringsOf sample (0x409, 1200) = [([65], []), ([66, 99], []), ([68, 101, 102], [120, 0, 121])] ∧
    valueOf sample (0x409, 1200) [68, 101, 102] = some [120, 0, 121] ∧
    stringMapsOf sample = [((0x409, 1200), [([65], []), ([66, 99], []), ([68, 101, 102], [120, 0, 121])])] ∧
    fixedInfoOf sample = some (List.replicate 26 7) ∧ translationsOf sample = [(0x409, 1200)] := by
  decide +kernel

/-- a table whose key is not 8 hex digits ("0000004g") -/
def badLangKey : VInfo :=
  ⟨ofString "V", [], [.stringInfo [⟨ofString "0000004g", [⟨[65], [49, 0]⟩]⟩]]⟩

/-- The hex-digits condition is needed: `Language::parse` reads 'g' as the digit 16, so the table
is enumerated for the language (0, 0x50) although its key names no language. -/
theorem C13_strings_needs_hex_language_keys :
    badLangKey.wf = true ∧ badLangKey.langKeysOk = false ∧
    strings (block (badLangKey.encode false)) ⟨0, 0x50⟩ = .ok [([65], [49])] ∧
    stringsOf badLangKey (0, 0x50) = [] := by
  decide +kernel

/-- a table that stores the key "A" twice -/
def twiceTheKey : VInfo :=
  ⟨ofString "V", [], [.stringInfo [⟨ofString "000004b0", [⟨[65], [49, 0]⟩, ⟨[65], [50, 0]⟩]⟩]]⟩

/-- The distinct-keys condition is needed: the hash map keeps one of the two entries. -/
theorem C13_file_info_needs_distinct_keys :
    twiceTheKey.wf = true ∧ twiceTheKey.keysDistinct = false ∧
    (fileInfo (block (twiceTheKey.encode false))).bind (fun fi => .ok (decide (fi.strings = [(⟨0, 1200⟩, [([65], [50])])])))
      = .ok true ∧
    stringMapsOf twiceTheKey = [((0, 1200), [([65], [49]), ([65], [50])])] := by
  decide +kernel

/-- The distinct-languages condition is needed (against the specification): of `twoTables` the
hash map holds only the second table. -/
theorem C13_file_info_needs_distinct_languages_spec :
    twoTables.langsDistinct = false ∧
    (fileInfo (block (twoTables.encode false))).bind (fun fi => .ok (decide (fi.strings = [(⟨0, 1200⟩, [([66], [50])])])))
      = .ok true ∧
    stringMapsOf twoTables = [((0, 1200), [([65], [49])]), ((0, 1200), [([66], [50])])] := by
  decide +kernel

/-- The valid-keys condition is needed (against the specification): the key D800 reads as the
text U+FFFD, `value` asked for U+FFFD finds nothing. -/
theorem C13_value_needs_valid_keys_spec :
    loneSurrogateKey.keysValid = false ∧
    value (block (loneSurrogateKey.encode false)) ⟨0, 1200⟩ [0xFFFD] = .ok none ∧
    valueOf loneSurrogateKey (0, 1200) [0xFFFD] = some [49] := by
  decide +kernel

/-! ## every block laid out as documented

`v.IsBlock ws`: `ws` starts with a layout of `v`'s root structure.  No well-formedness hypothesis
on `v` is needed: a layout exists only when the keys can be written. -/

/-- **The reference writer produces a documented layout**, with either convention. -/
theorem C13_writer_produces_layout (tight : Bool) (v : VInfo) (hwf : v.wf = true) : v.IsBlock (v.encode tight) :=
  encode_isBlock tight v hwf

/-- **C13, round trip for every documented layout**: visiting any block that lays out the abstract
resource `v` as documented reports exactly `v`'s event list — each structure once, in stored
order, the words unaltered — whatever the padding words hold and whichever structures keep the
optional padding. -/
theorem C13_layout_round_trip (v : VInfo) (ws : List Nat) (h : v.IsBlock ws) :
    ∃ es, events (block ws) = .ok es ∧ es.map Event.erase = v.events :=
  ⟨_, events_eq_flat _ (block_al _), flat_layout v ws h 0⟩

/-- every (language, key, value) exactly once and in stored order, for every documented layout -/
theorem C13_layout_strings_exactly_once (v : VInfo) (ws : List Nat) (h : v.IsBlock ws) :
    ∃ es, events (block ws) = .ok es ∧ triples (es.map Event.erase) = v.strings := by
  obtain ⟨es, h1, h2⟩ := C13_layout_round_trip v ws h
  exact ⟨es, h1, by rw [h2, triples_events]⟩

/-- `fixed()` on every documented layout -/
theorem C13_layout_fixed_query (v : VInfo) (ws : List Nat) (h : v.IsBlock ws) :
    ∃ f, fixed (block ws) = .ok f ∧ f.map (·.ws) = fixedInfoOf v :=
  fixed_of_flat _ (block_al _) v (flat_layout v ws h 0)

/-- `translation()` on every documented layout -/
theorem C13_layout_translation_query (v : VInfo) (ws : List Nat) (h : v.IsBlock ws) :
    ∃ t, translation (block ws) = .ok t ∧
      (match t with
       | some sl => (langsOf sl.ws).map (fun l => (l.langId, l.charsetId))
       | none => []) = translationsOf v :=
  translation_of_flat _ (block_al _) v (flat_layout v ws h 0)

/-- `strings(lang)` on every documented layout (side condition as in `C13_strings_query_round_trip`) -/
theorem C13_layout_strings_query (v : VInfo) (ws : List Nat) (h : v.IsBlock ws)
    (hlang : v.langKeysOk = true) (l c : Nat) :
    strings (block ws) ⟨l, c⟩ = .ok (stringsOf v (l, c)) :=
  strings_of_tables _ (block_al _) v (tables_block v ws h 0) hlang l c

/-- `value(lang, key)` on every documented layout (side conditions as in `C13_value_query_round_trip`) -/
theorem C13_layout_value_query (v : VInfo) (ws : List Nat) (h : v.IsBlock ws)
    (hlang : v.langKeysOk = true) (hkeys : v.keysValid = true) (l c : Nat) (key : Str) :
    value (block ws) ⟨l, c⟩ key = .ok (valueOf v (l, c) key) :=
  value_of_tables _ (block_al _) v (tables_block v ws h 0) hlang hkeys l c key

/-- `file_info()` on every documented layout (side conditions as in `C13_file_info_round_trip`) -/
theorem C13_layout_file_info (v : VInfo) (ws : List Nat) (h : v.IsBlock ws)
    (hlang : v.langKeysOk = true) (hdl : v.langsDistinct = true) (hdk : v.keysDistinct = true) :
    ∃ fi, fileInfo (block ws) = .ok fi ∧
      fi.fixed.map (·.ws) = fixedInfoOf v ∧
      (match fi.langs with
       | some sl => (langsOf sl.ws).map (fun l => (l.langId, l.charsetId))
       | none => []) = translationsOf v ∧
      fi.strings.map (fun e => ((e.1.langId, e.1.charsetId), e.2)) = stringMapsOf v := by
  obtain ⟨fi, hfi, hs⟩ := fileInfo_strings_of_tables _ (block_al ws) v (tables_block v ws h 0) hlang hdl hdk
  obtain ⟨fi', f, t, hfi', hf, ht, e1, e2⟩ := C13_file_info_fixed_and_langs ws
  obtain ⟨f', hf', hfx⟩ := C13_layout_fixed_query v ws h
  obtain ⟨t', ht', htr⟩ := C13_layout_translation_query v ws h
  rw [hfi] at hfi'; cases hfi'
  rw [hf] at hf'; cases hf'
  rw [ht] at ht'; cases ht'
  exact ⟨fi, hfi, by rw [e1]; exact hfx, by rw [e2]; exact htr, hs⟩

/-- **The layout relation has a decidable form**: `Spec.VInfo.isBlockB v ws` reads the choices off
the words; a block it accepts is a documented layout of `v`.  Every `C13_layout_*` theorem therefore
also holds under the decidable hypothesis `v.isBlockB ws = true` (the `lay=1` of the correspondence
run, where an independent writer makes the choices at random). -/
theorem C13_layout_test_sound (v : VInfo) (ws : List Nat) (h : v.isBlockB ws = true) : v.IsBlock ws :=
  isBlockB_sound v ws h

/-- the round trip under the decidable hypothesis -/
theorem C13_layout_round_trip_decidable (v : VInfo) (ws : List Nat) (h : v.isBlockB ws = true) :
    ∃ es, events (block ws) = .ok es ∧ es.map Event.erase = v.events :=
  C13_layout_round_trip v ws (isBlockB_sound v ws h)

/-- a layout that no writer convention produces: `wType` 7, the padding word after the odd key is
0xFFFF, and three words of something else follow the root -/
def oddLayout : List Nat := [12, 0, 7, 86, 0, 0xFFFF, 1, 2, 3]

/-- The relation is strictly larger than the writer's image, and satisfiable on such a block. -/
example : (⟨ofString "V", [], []⟩ : VInfo).IsBlock oddLayout ∧
    ∀ tight, (⟨ofString "V", [], []⟩ : VInfo).encode tight ≠ oddLayout := by
  refine ⟨⟨[12, 0, 7, 86, 0, 0xFFFF], [1, 2, 3], ?_, rfl⟩, by decide⟩
  unfold VInfo.node
  rw [IsNode]
  exact ⟨7, [0xFFFF], [], [], by decide, by simp [IsNodes], Or.inl rfl, Or.inl rfl, rfl⟩


/-- the test accepts it, and accepts what the reference writer writes for the sample with either
convention -/
example : (⟨ofString "V", [], []⟩ : VInfo).isBlockB oddLayout = true ∧
    sample.isBlockB (sample.encode true) = true ∧ sample.isBlockB (sample.encode false) = true := by
  decide +kernel

/-- the sample laid out with mixed choices: the string "A" (no value) ends right after its key while
the other structures keep Padding1, "Bc" keeps the padding after its value although it has no
children, padding words are 0xFFFF / 0xAAAA / 0xBBBB, `wType` is 9 throughout, and two more words
follow the root -/
def mixedLayout : List Nat :=
  [272, 52, 9] ++ ofString "VS_VERSION_INFO" ++ [0, 0xFFFF] ++ List.replicate 26 7 ++
  -- VarFileInfo { Translation = 0x409, 1200 }
  ([68, 0, 9] ++ ofString "VarFileInfo" ++ [0, 0xAAAA] ++
    ([36, 4, 9] ++ ofString "Translation" ++ [0, 0xFFFF] ++ [0x409, 1200])) ++
  -- StringFileInfo { "040904b0" { A, Bc = "", Def = "x\0y" } }
  ([112, 0, 9] ++ ofString "StringFileInfo" ++ [0] ++
    ([76, 0, 9] ++ ofString "040904b0" ++ [0] ++
      ([10, 0, 9, 65, 0] ++ [0xAAAA] ++
       [16, 1, 9, 66, 99, 0, 0, 0xBBBB] ++
       [24, 4, 9, 68, 101, 102, 0, 0xAAAA, 120, 0, 121, 0]))) ++
  [1, 2]

/-- it is a documented layout of `sample` (by the test), not the writer's image, and is read back
as `sample` -/
example : sample.isBlockB mixedLayout = true ∧ (∀ tight, sample.encode tight ≠ mixedLayout) ∧
    (events (block mixedLayout)).bind (fun es => .ok (decide (es.map Event.erase = sample.events))) = .ok true := by
  decide +kernel

end Pelite.Version
