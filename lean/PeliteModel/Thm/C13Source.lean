import PeliteModel.Thm.C13Queries
import PeliteModel.Lemmas.VersionSource
import PeliteModel.Generated.ImageLayout
/-!
C13 — the source-code rendering against the abstract content, and the byte-counting value length.

`Thm/C13.lean` shows that `source_code()` renders the reported events callback by callback
(`C13_source_renders_every_event`); that relates the model to its own renderer.  Here the text is
tied to the specification: `Spec.sourceOf v` (Spec/Version.lean) is the VERSIONINFO statement of the
abstract resource `v`, written from the statement's syntax with the specification's own numerals
(`Spec.decimal`, `hexLower`), wide string literals (`Spec.quoted` over `Spec.read16`) and field
offsets of VS_FIXEDFILEINFO — and `source_code()` on every documented layout of `v` is exactly that text.

    C13_layout_source              source_code() on every documented layout      no side condition
    C13_source_round_trip          … on the reference writer's block
    C13_layout_source_decidable    … under the decidable layout test
    C13_source_formats             the model's `{}` / `{:#x}` / `{:?}` are the specification's numerals and literals
    C13_source_field_offsets       the specification's field offsets are those of the current src/image.rs

With `C13_layout_strings_query`, `C13_layout_value_query`, `C13_layout_file_info` (Thm/C13Queries.lean)
all four views of the strings are functions of the same abstract content, which is the statement's
"agree with one another".

Second part: a `String` structure whose `wValueLength` counts bytes instead of words (a convention
some resource writers use) is *not* read like the documented one: `C13_byte_counted_string_partial`,
`C13_byte_counted_string_ends_table`.
-/
namespace Pelite.Version
open Spec

/-! ## the source text of every documented layout -/

/-- **C13, source-code rendering.**  On every block that lays out the abstract resource `v` as
documented, `source_code()` is the VERSIONINFO statement of `v`: the fixed-info statements iff the
root value is the 52 bytes of VS_FIXEDFILEINFO, one `BLOCK` per StringFileInfo / VarFileInfo and per
string table, one `VALUE` line per string in stored order with its value minus the terminating NUL,
the Translation pairs.  No side condition: keys and values that are not well-formed UTF-16, tables
whose key names no language, duplicate keys, Vars other than "Translation" (left out), root values
of any other length (no fixed-info statements) are all covered by `sourceOf`. -/
theorem C13_layout_source (v : VInfo) (ws : List Nat) (h : v.IsBlock ws) :
    sourceCode (block ws) = .ok (sourceOf v) :=
  source_of_flat _ (block_al _) v (flat_layout v ws h 0)

/-- the reference writer's block, both conventions -/
theorem C13_source_round_trip (tight : Bool) (v : VInfo) (hwf : v.wf = true) :
    sourceCode (block (v.encode tight)) = .ok (sourceOf v) :=
  C13_layout_source v _ (C13_writer_produces_layout tight v hwf)

/-- under the decidable layout test (the `lay=1` of the correspondence run) -/
theorem C13_layout_source_decidable (v : VInfo) (ws : List Nat) (h : v.isBlockB ws = true) :
    sourceCode (block ws) = .ok (sourceOf v) :=
  C13_layout_source v ws (isBlockB_sound v ws h)

/-- **The formats agree**: `{}` of an unsigned integer is the decimal numeral, `{:#x}` is `0x` and the
lower-case hexadecimal numeral, `{:?}` of `FmtUtf16` is the wide string literal, one callback's text
depends only on what was reported, and the specification's two readings of UTF-16 (`text`, which
replaces ill-formed units, and `read16`, which keeps them) are the same reading. -/
theorem C13_source_formats (n : Nat) (ws : List Nat) (e : Event) :
    dec n = decimal n ∧ hexx n = ofString "0x" ++ hexLower n ∧ fmtDebug ws = quoted ws ∧
    renderEvent e = renderS e.erase ∧
    text ws = (read16 ws).map (fun | .scalar c => c | .unpaired _ => 0xFFFD) :=
  ⟨dec_eq n, hexx_eq n, fmtDebug_eq ws, renderEvent_eq e, text_eq_read16 ws⟩

open Pelite.Generated.Layout in
/-- **The specification's offsets into VS_FIXEDFILEINFO are those of the current `src/image.rs`**
(`Generated.Layout` is rewritten from the source on every check run): the four words of
`FILEVERSION` / `PRODUCTVERSION` are `Major, Minor, Patch, Build` of `dwFileVersion` /
`dwProductVersion` in the order the `String` visitor prints them, the five DWORDs are the members of
the same name, and the fixed info is present iff the root value has the structure's size. -/
theorem C13_source_field_offsets :
    ffiFileVersionMS + 2 = VS_FIXEDFILEINFO__dwFileVersion + VS_VERSION__Major ∧
    ffiFileVersionMS = VS_FIXEDFILEINFO__dwFileVersion + VS_VERSION__Minor ∧
    ffiFileVersionLS + 2 = VS_FIXEDFILEINFO__dwFileVersion + VS_VERSION__Patch ∧
    ffiFileVersionLS = VS_FIXEDFILEINFO__dwFileVersion + VS_VERSION__Build ∧
    ffiProductVersionMS + 2 = VS_FIXEDFILEINFO__dwProductVersion + VS_VERSION__Major ∧
    ffiProductVersionMS = VS_FIXEDFILEINFO__dwProductVersion + VS_VERSION__Minor ∧
    ffiProductVersionLS + 2 = VS_FIXEDFILEINFO__dwProductVersion + VS_VERSION__Patch ∧
    ffiProductVersionLS = VS_FIXEDFILEINFO__dwProductVersion + VS_VERSION__Build ∧
    ffiFileFlagsMask = VS_FIXEDFILEINFO__dwFileFlagsMask ∧ ffiFileFlags = VS_FIXEDFILEINFO__dwFileFlags ∧
    ffiFileOS = VS_FIXEDFILEINFO__dwFileOS ∧ ffiFileType = VS_FIXEDFILEINFO__dwFileType ∧
    ffiFileSubtype = VS_FIXEDFILEINFO__dwFileSubtype ∧
    (∀ v : VInfo, v.fixed.isSome = decide (2 * v.value.length = VS_FIXEDFILEINFO__size)) := by
  refine ⟨rfl, rfl, rfl, rfl, rfl, rfl, rfl, rfl, rfl, rfl, rfl, rfl, rfl, ?_⟩
  intro v
  unfold VInfo.fixed VS_FIXEDFILEINFO__size
  by_cases h : v.value.length = 26
  · simp [h]
  · have : ¬ 2 * v.value.length = 52 := by omega
    simp [h, this]

/-! ## instances -/

/-- the text of the sample of `Thm/C13.lean` (every word of its fixed info is 7; the string "A"
stores no value, "Bc" the empty string, "Def" a value with an embedded NUL) -/
example : sourceOf sample = ofString
    ("1 VERSIONINFO\nFILEVERSION 7, 7, 7, 7\nPRODUCTVERSION 7, 7, 7, 7\nFILEFLAGSMASK 0x70007\nFILEFLAGS 0x70007\n" ++
     "FILEOS (7 << 16) | 7\nFILETYPE 458759\nFILESUBTYPE 458759\n{\n" ++
     "  BLOCK L\"VarFileInfo\"\n  {\n    VALUE L\"Translation\", 1033, 1200\n  }\n" ++
     "  BLOCK L\"StringFileInfo\"\n  {\n    BLOCK L\"040904b0\"\n    {\n" ++
     "      VALUE L\"A\", L\"\"\n      VALUE L\"Bc\", L\"\"\n      VALUE L\"Def\", L\"x\\0y\"\n    }\n  }\n}\n") := by
  decide +kernel

/-- `C13_layout_source` on the layout with mixed choices of `Thm/C13Queries.lean`, and both writer conventions -/
example : sourceCode (block mixedLayout) = .ok (sourceOf sample) ∧
    sourceCode (block (sample.encode true)) = .ok (sourceOf sample) ∧
    sourceCode (block (sample.encode false)) = .ok (sourceOf sample) :=
  ⟨C13_layout_source_decidable sample mixedLayout (by decide +kernel),
   C13_source_round_trip true sample (by decide +kernel), C13_source_round_trip false sample (by decide +kernel)⟩

/-- the fixed info of the crate's unit test (`test_parse_254`: file version 22.607.2013.25), a Var
that is not "Translation", a Translation with two pairs, two tables (one key names no language), a
key with a quote, values with every escape, a surrogate pair and an unpaired surrogate -/
def sample2 : VInfo :=
  ⟨ofString "VS_VERSION_INFO",
   [1213, 65263, 0, 1, 607, 22, 25, 2013, 608, 23, 26, 2014, 63, 0, 0x21, 0x8000, 4, 4, 2, 0, 0, 0, 0, 0, 0, 0],
   [.stringInfo [⟨ofString "040904b0", [⟨ofString "Company\"Name", ofString "a\\b\tc\r\n" ++ [0]⟩,
                                       ⟨ofString "Smile", [0xD83D, 0xDE00, 0xDC00, 0xE9, 0]⟩]⟩,
                 ⟨ofString "zz", [⟨[], [0, 0]⟩]⟩],
    .varInfo [⟨ofString "Other", [1, 2]⟩, ⟨kTranslation, [0x409, 1200, 0x407, 1252, 7]⟩]]⟩

/-- no side condition is needed: the Var "Other" is left out, the odd word of the Translation value is
half a pair and is dropped, the second NUL of the value `[0, 0]` stays, the unpaired surrogate is `\udc00` -/
example : sample2.wf = true ∧ sample2.queriesDetermined = false ∧ sourceOf sample2 =
    ofString
      ("1 VERSIONINFO\nFILEVERSION 22, 607, 2013, 25\nPRODUCTVERSION 23, 608, 2014, 26\nFILEFLAGSMASK 0x3f\n" ++
       "FILEFLAGS 0x80000021\nFILEOS (4 << 16) | 4\nFILETYPE 2\nFILESUBTYPE 0\n{\n" ++
       "  BLOCK L\"StringFileInfo\"\n  {\n    BLOCK L\"040904b0\"\n    {\n" ++
       "      VALUE L\"Company\\\"Name\", L\"a\\\\b\\tc\\r\\n\"\n      VALUE L\"Smile\", L\"") ++
    [0x1F600] ++   -- the surrogate pair D83D DE00 as one character
    ofString
      ("\\udc00é\"\n    }\n" ++
       "    BLOCK L\"zz\"\n    {\n      VALUE L\"\", L\"\\0\"\n    }\n  }\n" ++
       "  BLOCK L\"VarFileInfo\"\n  {\n    VALUE L\"Translation\", 1033, 1200, 1031, 1252\n  }\n}\n") ∧
    sourceCode (block (sample2.encode false)) = .ok (sourceOf sample2) := by
  refine ⟨by decide +kernel, by decide +kernel, by decide +kernel, C13_source_round_trip false sample2 (by decide +kernel)⟩

/-- a root value that is not the 52 bytes of VS_FIXEDFILEINFO has no fixed-info statements, and the
model renders the same (evaluated, not through the theorem) -/
example : sourceOf ⟨ofString "V", [1, 2], []⟩ = ofString "{\n}\n" ∧
    sourceCode (block ((⟨ofString "V", [1, 2], []⟩ : VInfo).encode false)) = .ok (ofString "{\n}\n") ∧
    sourceCode (block (sample2.encode true)) = .ok (sourceOf sample2) := by
  decide +kernel

/-! ## visitors that decline blocks and string tables

`Visit::file_info` and `Visit::string_table` may return `false`; `visit` then goes on to the next
block / table without entering the declined one.  `recorderSkip2 fmask tmask` (Model/Version.lean; the
visitor of the `events_skip2` operation of the correspondence run) records every callback and
declines those selected by the masks. -/

/-- **A declining visitor sees the one event list minus the declined subtrees**, for all masks and
every word list: instance of `C13_visit_is_fold_of_events` (`replay` skips from a declined callback
to the end of its subtree). -/
theorem C13_declining_visitor_is_fold (fmask tmask : Nat) (ws : List Nat) :
    ∃ es, events (block ws) = .ok es ∧
      visit (recorderSkip2 fmask tmask) (block ws) ([], 0, 0) =
        .ok (es.foldl (replay (recorderSkip2 fmask tmask)) (([], 0, 0), none)).1 :=
  C13_visit_is_fold_of_events (recorderSkip2 fmask tmask) (fun _ _ _ => rfl) ws ([], 0, 0)

/-- both declines on `sample2`: the second block (VarFileInfo, bit 1 of `fmask`) and the first string
table ("040904b0", bit 0 of `tmask`) are recorded but not entered; everything else is reported -/
example : (visit (recorderSkip2 2 1) (block (sample2.encode false)) ([], 0, 0)).bind
      (fun r => .ok (r.1.map Event.erase, r.2)) = .ok
    ([.versionInfo (ofString "VS_VERSION_INFO") sample2.fixed, .enter 0,
      .fileInfo kStringFileInfo, .enter 1,
        .stringTable (ofString "040904b0"),
        .stringTable (ofString "zz"), .enter 2, .string [] [0], .exit 2,
      .exit 1,
      .fileInfo kVarFileInfo,
      .exit 0], 2, 2) := by
  decide +kernel

/-! ## a `String` whose `wValueLength` counts bytes

Microsoft documents `String.wValueLength` as "the size, in words, of the Value member"; resources
exist whose writer stored the size in bytes.  `visit` reads the strings of a table with
`Parser::new_words` (`value_length = words[1]`, `wType` is not consulted), so such a structure asks
for twice the words it holds: `parse_tlv` answers `Err(Invalid)`, `Parser::next` empties its input,
and that string *and every later string of the same table* are not reported.  (A string without a
value, `wValueLength = 0`, is the same structure under both conventions.)  The documented layout is
read back completely (`C13_layout_*`), so this is a tolerance gap for a writer quirk, not a violation
of the statement; `IsNode` is therefore not extended by that convention. -/

/-- **a byte-counted `String` is `Err(Invalid)` and ends its table**, for every key that can be
written, every non-empty value, both writer conventions and whatever follows the structure: the
loop over the table's strings reports nothing from there on. -/
theorem C13_byte_counted_string_partial (tight : Bool) (key value tl : List Nat) (off : Nat)
    (hk : keyOk key = true) (hv : value ≠ []) :
    parseTlv .words ⟨off, Spec.encode tight (.mk key value false []) ++ tl⟩ = .err .invalid ∧
    items .words ⟨off, Spec.encode tight (.mk key value false []) ++ tl⟩ = [] :=
  ⟨parseTlv_words_byteCounted tight key value tl off hk hv,
   items_err (parseTlv_words_byteCounted tight key value tl off hk hv)⟩

example : keyOk [66] = true ∧ ([50, 0] : List Nat) ≠ [] ∧
    parseTlv .words ⟨0, Spec.encode false (.mk [66] [50, 0] false []) ++ [0xFFFF, 16, 2, 1, 67, 0, 0, 51, 0]⟩ = .err .invalid ∧
    -- the same structure counted in words is read, and the parser resumes behind it
    (parseTlv .words ⟨0, Spec.encode false (.mk [66] [50, 0] true []) ++ [16, 2, 1, 67, 0, 0, 51, 0]⟩).isOk = true := by
  decide +kernel

/-- the abstract resource of the witness: two tables, the first with the strings A = "1", B = "2", C = "3" -/
def byteCountedInfo : VInfo :=
  ⟨ofString "V", [],
   [.stringInfo [⟨ofString "040904b0", [⟨[65], [49, 0]⟩, ⟨[66], [50, 0]⟩, ⟨[67], [51, 0]⟩]⟩,
                 ⟨ofString "000004b0", [⟨[68], [52, 0]⟩]⟩]]⟩

/-- its documented arrangement, except that the String "B" is marked binary: the reference writer
then stores `wValueLength = 4` (bytes) for its two words -/
def byteCountedNode : Node :=
  .mk (ofString "V") [] false
    [.mk kStringFileInfo [] true
      [.mk (ofString "040904b0") [] true
         [.mk [65] [49, 0] true [], .mk [66] [50, 0] false [], .mk [67] [51, 0] true []],
       .mk (ofString "000004b0") [] true [.mk [68] [52, 0] true []]]]

/-- **Witness: a byte-counted string ends its table.**  The block differs from the documented
encoding of `byteCountedInfo` in exactly two words (`wValueLength` 2 → 4 and `wType` 1 → 0 of "B").
Reported: "A" of the first table and the whole second table; "B" *and "C"* are missing from the
events, from `strings`, `value`, `file_info` and from the source text, while the documented encoding
reports all three. -/
theorem C13_byte_counted_string_ends_table :
    Spec.encode false byteCountedNode = ((byteCountedInfo.encode false).set 45 4).set 46 0 ∧
    (events (block (Spec.encode false byteCountedNode))).bind (fun es => .ok (es.map Event.erase)) = .ok
      [.versionInfo (ofString "V") none, .enter 0, .fileInfo kStringFileInfo, .enter 1,
       .stringTable (ofString "040904b0"), .enter 2, .string [65] [49], .exit 2,
       .stringTable (ofString "000004b0"), .enter 2, .string [68] [52], .exit 2, .exit 1, .exit 0] ∧
    strings (block (Spec.encode false byteCountedNode)) ⟨0x409, 1200⟩ = .ok [([65], [49])] ∧
    stringsOf byteCountedInfo (0x409, 1200) = [([65], [49]), ([66], [50]), ([67], [51])] ∧
    strings (block (Spec.encode false byteCountedNode)) ⟨0, 1200⟩ = .ok (stringsOf byteCountedInfo (0, 1200)) ∧
    value (block (Spec.encode false byteCountedNode)) ⟨0x409, 1200⟩ [67] = .ok none ∧
    valueOf byteCountedInfo (0x409, 1200) [67] = some [51] ∧
    (fileInfo (block (Spec.encode false byteCountedNode))).bind (fun fi => .ok fi.strings) = .ok
      [(⟨0x409, 1200⟩, [([65], [49])]), (⟨0, 1200⟩, [([68], [52])])] ∧
    sourceCode (block (Spec.encode false byteCountedNode)) = .ok (ofString
      ("{\n  BLOCK L\"StringFileInfo\"\n  {\n    BLOCK L\"040904b0\"\n    {\n      VALUE L\"A\", L\"1\"\n    }\n" ++
       "    BLOCK L\"000004b0\"\n    {\n      VALUE L\"D\", L\"4\"\n    }\n  }\n}\n")) ∧
    -- the documented encoding of the same resource
    strings (block (byteCountedInfo.encode false)) ⟨0x409, 1200⟩ = .ok (stringsOf byteCountedInfo (0x409, 1200)) := by
  decide +kernel

/-- the same with `wType` left at 1 (only `wValueLength` differs from the documented encoding):
`wType` is not consulted -/
example : events (block ((byteCountedInfo.encode false).set 45 4)) = events (block (Spec.encode false byteCountedNode)) := by
  decide +kernel

end Pelite.Version
