import PeliteModel.Model.WStrFmt
import PeliteModel.Model.Version
import PeliteModel.Thm.C03WFmt
/-!
C13 / C03: the keys and values `VersionInfo::source_code()` prints go through `FmtUtf16`'s Debug
(src/util/wide_str.rs, the only formatter of that file the public API reaches).  The version model
(`Version.fmtDebug`, scalar values, its own transcription `decode16` of `char::decode_utf16`) and the
byte-level formatter model (`WStrFmt.debug`, on the decoder of the resource model) are two independent
transcriptions of the same Rust code: they are proved equal here, so
* the two decoders of the model agree on every word list (`C13_decoders_agree`),
* the bounds and the token structure of `Thm/C03WFmt.lean` hold for what `source_code` writes
  (`C13_fmtDebug_length`, `C13_fmtDebug_tokens`): at most `6·len + 3` bytes for a key or value of `len`
  code units, every quote / backslash / NUL / line break of the text escaped.
-/
namespace Pelite.WStrFmt
open Pelite.Resources (decodeUtf16 U16Item)
open Pelite.Pe (utf8Enc)
open Pelite.Version (decode16 Dec fmtDebug hex04)

def conv : Dec → U16Item
  | .ok c => .ok c
  | .bad u => .bad u

/-- the two transcriptions of `char::decode_utf16` agree on every word list -/
theorem C13_decoders_agree (ws : List Nat) : (decode16 ws).map conv = decodeUtf16 ws := by
  fun_induction decode16 ws
  · simp [decodeUtf16]
  · rename_i u h
    have : u < 0xD800 ∨ 0xE000 ≤ u := by simp [Version.isSurrogate] at h; omega
    simp [decodeUtf16, this, conv]
  · rename_i u h
    have : ¬ (u < 0xD800 ∨ 0xE000 ≤ u) := by simp [Version.isSurrogate] at h; omega
    simp [decodeUtf16, this, conv]
  · rename_i u u2 rest h ih
    have : u < 0xD800 ∨ 0xE000 ≤ u := by simp [Version.isSurrogate] at h; omega
    simp [decodeUtf16, this, conv, ih]
  · rename_i u u2 rest h h2 ih
    have h' : ¬ (u < 0xD800 ∨ 0xE000 ≤ u) := by simp [Version.isSurrogate] at h; omega
    have h2' : 0xDC00 ≤ u := by simpa using h2
    simp [decodeUtf16, h', h2', conv, ih]
  · rename_i u u2 rest h h2 h3 ih
    have h' : ¬ (u < 0xD800 ∨ 0xE000 ≤ u) := by simp [Version.isSurrogate] at h; omega
    have h2' : ¬ 0xDC00 ≤ u := by simpa using h2
    have h3' : u2 < 0xDC00 ∨ 0xDFFF < u2 := by simpa using h3
    simp [decodeUtf16, h', h2', h3', conv, ih]
  · rename_i u u2 rest h h2 h3 ih
    have h' : ¬ (u < 0xD800 ∨ 0xE000 ≤ u) := by simp [Version.isSurrogate] at h; omega
    have h2' : ¬ 0xDC00 ≤ u := by simpa using h2
    have h3' : ¬ (u2 < 0xDC00 ∨ 0xDFFF < u2) := by simpa using h3
    simp [decodeUtf16, h', h2', h3', conv, ih]

/-- an unpaired surrogate reported by the decoder is a surrogate -/
theorem decode16_bad_range (ws : List Nat) : ∀ u, Dec.bad u ∈ decode16 ws → 0xD800 ≤ u ∧ u ≤ 0xDFFF := by
  fun_induction decode16 ws <;> intro v hv <;> simp_all [Version.isSurrogate] <;> try omega
  all_goals
    rcases hv with rfl | hv
    · omega
    · rename_i ih; exact ih v hv

theorem hex04_surrogate : ∀ u, u < 2048 → hex04 (0xD800 + u) = (escU (0xD800 + u)).drop 2 := by decide +kernel

theorem flatMap_utf8Enc_ascii (l : List Nat) (h : ∀ x ∈ l, x < 128) : l.flatMap utf8Enc = l := by
  induction l with
  | nil => rfl
  | cons x l ih =>
    have hx : x < 128 := h x (by simp)
    have : utf8Enc x = [x] := by simp [utf8Enc, hx]
    simp [List.flatMap_cons, this, ih (fun y hy => h y (by simp [hy]))]

theorem hexDigitL_ascii (n : Nat) (h : n < 16) : hexDigitL n < 128 := by unfold hexDigitL; split <;> omega

/-- the scalar values `Version.fmtDebug` writes for one decoded item -/
def itemStr : Dec → List Nat
  | .ok 0 => Version.str "\\0"
  | .ok 10 => Version.str "\\n"
  | .ok 13 => Version.str "\\r"
  | .ok 9 => Version.str "\\t"
  | .ok 34 => Version.str "\\\""
  | .ok 92 => Version.str "\\\\"
  | .ok c => [c]
  | .bad u => Version.str "\\u" ++ hex04 u

theorem fmtDebug_eq (ws : List Nat) :
    fmtDebug ws = Version.str "L\"" ++ (decode16 ws).flatMap itemStr ++ Version.str "\"" := by
  rfl

theorem itemStr_bytes (it : Dec) (hb : ∀ u, it = .bad u → 0xD800 ≤ u ∧ u ≤ 0xDFFF) :
    (itemStr it).flatMap utf8Enc = debugItem (conv it) := by
  cases it with
  | bad u =>
    obtain ⟨h1, h2⟩ := hb u rfl
    have hk : hex04 u = (escU u).drop 2 := by
      have := hex04_surrogate (u - 0xD800) (by omega)
      rwa [show 0xD800 + (u - 0xD800) = u by omega] at this
    simp only [itemStr, conv, debugItem, hk]
    have : (Version.str "\\u" ++ (escU u).drop 2) = escU u := by
      simp [Version.str, escU]
    rw [this]
    apply flatMap_utf8Enc_ascii
    intro x hx
    simp [escU] at hx
    rcases hx with rfl | rfl | rfl | rfl | rfl | rfl
    · omega
    · omega
    all_goals exact hexDigitL_ascii _ (Nat.mod_lt _ (by omega))
  | ok c =>
    simp only [conv, debugItem]
    by_cases h0 : c = 0; · subst h0; decide
    by_cases h1 : c = 10; · subst h1; decide
    by_cases h2 : c = 13; · subst h2; decide
    by_cases h3 : c = 9; · subst h3; decide
    by_cases h4 : c = 34; · subst h4; decide
    by_cases h5 : c = 92; · subst h5; decide
    simp only [h0, h1, h2, h3, h4, h5, if_false]
    have : itemStr (.ok c) = [c] := by
      unfold itemStr
      split <;> simp_all
    simp [this]

/-- **the version model's Debug text, encoded as UTF-8, is the byte-level formatter's output** -/
theorem C13_fmtDebug_bytes (ws : List Nat) : (fmtDebug ws).flatMap utf8Enc = debug ws := by
  rw [fmtDebug_eq]
  unfold debug
  rw [← C13_decoders_agree ws]
  simp only [List.flatMap_append]
  have hL : (Version.str "L\"").flatMap utf8Enc = [76, 34] := by decide
  have hR : (Version.str "\"").flatMap utf8Enc = [34] := by decide
  rw [hL, hR]
  congr 2
  have hb := decode16_bad_range ws
  generalize decode16 ws = its at hb
  induction its with
  | nil => rfl
  | cons it rest ih =>
    simp only [List.flatMap_cons, List.map_cons, List.flatMap_append]
    rw [itemStr_bytes it (fun u hu => hb u (by simp [hu])), ih (fun u hu => hb u (by simp [hu]))]

/-- **C03 for `source_code`'s strings**: a key or value of `len` code units costs at most `6·len + 3` bytes -/
theorem C13_fmtDebug_length (ws : List Nat) : ((fmtDebug ws).flatMap utf8Enc).length ≤ 6 * ws.length + 3 := by
  rw [C13_fmtDebug_bytes]; exact C03_wdebug_length ws

/-- **the printed key / value is unambiguous**: `L"`, then escapes or characters that need none, then `"` -/
theorem C13_fmtDebug_tokens (ws : List Nat) :
    ∃ toks : List (List Nat), (fmtDebug ws).flatMap utf8Enc = [76, 34] ++ toks.flatten ++ [34]
      ∧ (∀ t ∈ toks, DbgTok t) ∧ toks.length ≤ ws.length := by
  rw [C13_fmtDebug_bytes]; exact C03_wdebug_tokens ws

-- the unit test of wide_str.rs through the version model
example : (fmtDebug [97, 0xD800, 98]).flatMap utf8Enc = [76, 34, 97, 92, 117, 100, 56, 48, 48, 98, 34] := by
  rw [C13_fmtDebug_bytes]; decide +kernel

end Pelite.WStrFmt
