import PeliteModel.Lemmas.Relocs
import PeliteModel.Lemmas.RelocsFold
import PeliteModel.Model.Json
import PeliteModel.Thm.C05
import PeliteModel.Lemmas.DirsExamples
/-!
C14 — base relocations: blocks partition the directory and build/parse round-trips.
Property theorems only; helper lemmas are in Lemmas/Relocs.lean and Lemmas/RelocsFold.lean, the
format-side decoder `Spec.decodeDir`, the format-side well-formedness `Spec.WellFormedDir` (on the bytes) and the
predicates `WellFormed` (on the blocks the iterator finds) / `Tiles` in Spec/Relocs.lean.  The extraction of the
directory from an image (`Pe::base_relocs`, src/pe64/base_relocs.rs; model `View.baseRelocsRef`, Model/Json.lean) is
`C14_extraction`.
-/
namespace Pelite.Relocs

/-- Termination with the work bound the property asks for: at most `len / 8` blocks. -/
theorem C14_blocks_count (data : Bytes) : (blocks data).length ≤ data.size / 8 := by
  have := blocksFrom_length_le data 0
  simpa [blocks] using this

/-- The blocks are consecutive: the first starts at 0 and each next one starts where the previous
one ends, i.e. `min(align4(max(SizeOfBlock, 8)), remaining)` bytes further. -/
theorem C14_blocks_consecutive (data : Bytes) (off : Nat) (b : Block) (rest : List Block)
    (h : blocksFrom data off = b :: rest) :
    b.off = off ∧ off + 8 ≤ data.size ∧ b.va = le32 data off ∧ b.size = le32 data (off + 4) ∧
    rest = blocksFrom data (off + step b.size (data.size - off)) := by
  obtain ⟨hge, rfl, hrest⟩ := blocksFrom_cons_inv h
  exact ⟨rfl, hge, rfl, rfl, hrest⟩

/-- Entry count: `(SizeOfBlock - 8) / 2` entries, clamped to the directory; a block's header and
entries lie inside the part of the directory the iterator skips for it or inside the directory's
clamped tail (no overlap with the next block on well-formed data). -/
theorem C14_block_extent (data : Bytes) (off : Nat) (b : Block) (rest : List Block)
    (h : blocksFrom data off = b :: rest) :
    b.nwords = (min b.size (data.size - off) - 8) / 2 ∧
    b.off + 8 + 2 * b.nwords ≤ data.size ∧
    (b.size % 4 = 0 → 8 ≤ b.size → b.size ≤ data.size - off →
        step b.size (data.size - off) = b.size ∧ b.off + 8 + 2 * b.nwords = off + b.size) := by
  obtain ⟨hge, rfl, -⟩ := blocksFrom_cons_inv h
  have hlt := le32_lt data (off + 4)
  refine ⟨rfl, ?_, ?_⟩
  · simp only [blockAt]; omega
  · intro h4 h8 hle
    simp only [blockAt] at h4 h8 hle ⊢
    exact ⟨step_eq_size hlt h4 h8 hle, by omega⟩

/-- C01 for this module: every reference a block hands out lies inside the directory and is
aligned for its type, for every 4-aligned placement of the directory. -/
theorem C14_refs_ok (img : Img) (hb : img.base % 4 = 0) (b : Block) (hmem : b ∈ blocks img.bytes) :
    RefOK img b.imageRef ∧ RefOK img b.wordsRef := by
  obtain ⟨o, -, ho4, ho8, rfl⟩ := mem_blocksFrom (off := 0) (by rfl) hmem
  simp only [RefOK, Block.imageRef, Block.wordsRef, blockAt]
  omega

/-! ### the whole block list: no overlap, no skip -/

/-- **Partition.**  On well-formed data (every block the iterator finds has a `SizeOfBlock` that is a
multiple of four, at least 8, and lies inside the directory) the blocks, as a whole list, tile the
directory: -/
theorem C14_blocks_partition (data : Bytes) (hwf : WellFormed data) :
    ∃ e,
      -- the blocks tile `[0, e)`: the first starts at 0, each next one starts exactly where its
      -- predecessor ends, the last one ends at `e` …
      Tiles 0 (blocks data) e ∧
      -- … where `e` is the sum of the block sizes and all that is left of the directory is a tail
      -- shorter than a block header
      e = ((blocks data).map (·.size)).sum ∧ e ≤ data.size ∧ data.size - e < 8 ∧
      -- the same, index by index — no skip: a block starts at the sum of the sizes before it, that is
      -- where its predecessor ends
      (∀ i (h : i < (blocks data).length),
          (blocks data)[i].off = (((blocks data).take i).map (·.size)).sum) ∧
      (∀ i (h : i + 1 < (blocks data).length),
          (blocks data)[i + 1].off = (blocks data)[i].off + (blocks data)[i].size) ∧
      -- no overlap: the byte ranges `[off, off + SizeOfBlock)` are pairwise disjoint, ascending
      (blocks data).Pairwise (fun a b => a.off + a.size ≤ b.off) ∧
      -- nothing skipped: every byte before the tail lies in a block
      (∀ p, p < e → ∃ b ∈ blocks data, b.off ≤ p ∧ p < b.off + b.size) ∧
      -- and a block is its 8-byte header followed by `(SizeOfBlock - 8) / 2` entries which fill it
      -- exactly: the references handed out for block `b` cover `[b.off, b.off + b.size)`
      (∀ b ∈ blocks data, b.nwords = (b.size - 8) / 2 ∧
          b.imageRef.off = b.off ∧ b.imageRef.len = 8 ∧
          b.wordsRef.off = b.off + 8 ∧ b.wordsRef.off + b.wordsRef.len = b.off + b.size) := by
  obtain ⟨e, ht, he1, he2⟩ := tiles_blocksFrom data 0 (Nat.zero_le _) hwf
  change Tiles 0 (blocks data) e at ht
  refine ⟨e, ht, ?_, he1, by omega, ?_, ?_, ht.pairwise, ?_, ?_⟩
  · simpa using ht.end_eq
  · intro i h; simpa using ht.offset i h
  · intro i h; exact ht.consecutive i h
  · intro p hp; exact ht.cover p (Nat.zero_le _) hp
  · intro b hb
    obtain ⟨h1, h2⟩ := wf_block_shape hb (hwf b hb)
    refine ⟨h1, rfl, rfl, rfl, ?_⟩
    simp only [Block.wordsRef]
    omega

/-- The hypothesis is satisfiable on a non-trivial instance (three blocks) … -/
example : WellFormed (build [(0x1010, 3), (0x1fff, 10), (0x2000, 3), (0x5000, 3)]) ∧
    (blocks (build [(0x1010, 3), (0x1fff, 10), (0x2000, 3), (0x5000, 3)])).length = 3 := by
  decide +kernel

/-- … and it is needed: with `SizeOfBlock = 10` (not a multiple of four) the iterator re-aligns and
the two bytes `[10, 12)` belong to no block. -/
example : ¬ WellFormed #[0,0x10,0,0, 10,0,0,0, 1,0x30, 0xAA,0xBB, 0,0x20,0,0, 8,0,0,0] ∧
    (blocks #[0,0x10,0,0, 10,0,0,0, 1,0x30, 0xAA,0xBB, 0,0x20,0,0, 8,0,0,0]).map
      (fun b => (b.off, b.size)) = [(0, 10), (12, 8)] := by
  decide +kernel

/-! ### well-formedness read off the bytes -/

/-- **The format-side predicate and the iterator-side predicate coincide.**  `Spec.WellFormedDir` is defined by
recursion on the directory BYTES (header present, `Block Size` ≥ 8, a multiple of four, not beyond what is left; then
the rest; a tail of fewer than 8 bytes ends it) and knows nothing of the iterator; `WellFormed` says that every block
the iterator yields is well formed.  For every byte string they are the same condition. -/
theorem C14_wellFormedDir_iff (data : Bytes) : Spec.WellFormedDir data.toList ↔ WellFormed data := by
  have := wellFormedDir_from_iff data 0 (Nat.zero_le _)
  simpa [WellFormed, blocks] using this

/-- `Spec.wellFormedDir` (what the driver prints as `hyp=`) decides `Spec.WellFormedDir`. -/
theorem C14_wellFormedDir_decides (dir : List UInt8) : Spec.wellFormedDir dir = true ↔ Spec.WellFormedDir dir :=
  wellFormedDir_decides dir

/-- **Partition, hypothesis on the bytes.**  `C14_blocks_partition` with the format-side hypothesis: for a directory
that IS a concatenation of well-formed blocks plus a tail shorter than a header (`Spec.WellFormedDir`), the blocks the
iterator yields tile it — no overlap, no gap, nothing skipped, each block its header plus `(SizeOfBlock - 8) / 2`
entries. -/
theorem C14_blocks_partition_dir (data : Bytes) (hwf : Spec.WellFormedDir data.toList) :
    ∃ e,
      Tiles 0 (blocks data) e ∧
      e = ((blocks data).map (·.size)).sum ∧ e ≤ data.size ∧ data.size - e < 8 ∧
      (∀ i (h : i < (blocks data).length),
          (blocks data)[i].off = (((blocks data).take i).map (·.size)).sum) ∧
      (∀ i (h : i + 1 < (blocks data).length),
          (blocks data)[i + 1].off = (blocks data)[i].off + (blocks data)[i].size) ∧
      (blocks data).Pairwise (fun a b => a.off + a.size ≤ b.off) ∧
      (∀ p, p < e → ∃ b ∈ blocks data, b.off ≤ p ∧ p < b.off + b.size) ∧
      (∀ b ∈ blocks data, b.nwords = (b.size - 8) / 2 ∧
          b.imageRef.off = b.off ∧ b.imageRef.len = 8 ∧
          b.wordsRef.off = b.off + 8 ∧ b.wordsRef.off + b.wordsRef.len = b.off + b.size) :=
  C14_blocks_partition data ((C14_wellFormedDir_iff data).1 hwf)

/-- the format-side hypothesis on the three-block directory of the example above, and its failure on the directory
with `SizeOfBlock = 10` -/
example : Spec.WellFormedDir (build [(0x1010, 3), (0x1fff, 10), (0x2000, 3), (0x5000, 3)]).toList ∧
    ¬ Spec.WellFormedDir [0,0x10,0,0, 10,0,0,0, 1,0x30, 0xAA,0xBB, 0,0x20,0,0, 8,0,0,0] := by
  refine ⟨(C14_wellFormedDir_decides _).1 (by decide +kernel), fun h => ?_⟩
  have := (C14_wellFormedDir_decides _).2 h
  revert this
  decide +kernel

/-! ### entries: the model against the PE format -/

/-- Every entry is decoded as the PE format prescribes (`Spec.decodeEntry`: type = high 4 bits,
address = Page RVA + low 12 bits in 32-bit arithmetic, padding entries of type 0 dropped), in
stored order — for every directory, well formed or not. -/
theorem C14_entries_decode (data : Bytes) :
    flat data = (blocks data).flatMap (fun b => (b.words data).filterMap (Spec.decodeEntry b.va)) := by
  unfold flat flatBlock
  congr 1
  funext b
  congr 1
  funext w
  exact (decodeEntry_eq b.va w).symm

/-- the reported pair in the words of the property: (block address + low 12 bits, high 4 bits);
the sum cannot wrap when the block address is a page address below 2^32 -/
theorem C14_entry_value (va w : Nat) :
    Spec.decodeEntry va w =
      if w / 4096 = 0 then none else some ((va + w % 4096) % 4294967296, w / 4096) := by
  rw [decodeEntry_eq]
  unfold typeOf rvaOf wadd32
  split <;> simp_all

theorem C14_entry_value_nowrap (va w : Nat) (hva : va + 4095 < 4294967296) (hty : w / 4096 ≠ 0) :
    Spec.decodeEntry va w = some (va + w % 4096, w / 4096) := by
  rw [decodeEntry_eq]
  unfold typeOf rvaOf wadd32
  rw [if_pos hty, Nat.mod_eq_of_lt (by omega)]

/-- **Model = format.**  On well-formed data what the block iterator reports (`flat`) is what the
independent list-of-bytes decoder of Spec/Relocs.lean reads from the directory. -/
theorem C14_flat_eq_spec (data : Bytes) (hwf : WellFormed data) :
    flat data = Spec.decodeDir data.toList := by
  have := flat_from_eq_spec data 0 (Nat.zero_le _) hwf
  simpa [flat, blocks] using this

example : Spec.decodeDir (build [(0x1010, 3), (0x1fff, 10), (0x2000, 3), (0x5000, 3)]).toList =
    [(0x1010, 3), (0x1fff, 10), (0x2000, 3), (0x5000, 3)] := by
  decide +kernel

/-- **Model = format, hypothesis on the bytes**: for a directory that is well formed by the format
(`Spec.WellFormedDir`) the entries the block iterator reports are the format-side decoding of its bytes. -/
theorem C14_flat_eq_spec_dir (data : Bytes) (hwf : Spec.WellFormedDir data.toList) :
    flat data = Spec.decodeDir data.toList :=
  C14_flat_eq_spec data ((C14_wellFormedDir_iff data).1 hwf)

/-! ### internal iteration = external iteration -/

/-- **The block iterator and `fold` report the same entries**, for every directory (well formed or
not), every closure and every initial accumulator: `fold` (the model of the two nested `for` loops
of `BaseRelocs::fold`, Model/Relocs.lean) is the left fold over the flattened block iterator. -/
theorem C14_fold_eq_flat {α : Type} (f : α → Nat → Nat → α) (init : α) (data : Bytes) :
    fold f init data = (flat data).foldl (fun a p => f a p.1 p.2) init :=
  fold_eq_flat f init data

/-- … and so does `for_each` (`fold` with a unit accumulator and a state-carrying closure). -/
theorem C14_foreach_eq_flat {σ : Type} (f : Nat → Nat → σ → σ) (data : Bytes) (s : σ) :
    forEach f data s = (flat data).foldl (fun s p => f p.1 p.2 s) s := by
  unfold forEach
  rw [fold_eq_flat, foldl_snd]

/-- In particular collecting with `for_each` (as the serializer does) gives exactly `flat`. -/
theorem C14_foreach_collects_flat (data : Bytes) :
    (forEach (fun rva ty acc => (rva, ty) :: acc) data []).reverse = flat data := by
  rw [C14_foreach_eq_flat]
  have : ∀ (l acc : List (Nat × Nat)),
      l.foldl (fun s p => (p.1, p.2) :: s) acc = l.reverse ++ acc := by
    intro l
    induction l with
    | nil => intro acc; rfl
    | cons p l ih => intro acc; rw [List.foldl_cons, ih]; simp
  rw [this]; simp

/-! ### extraction: `Pe::base_relocs` (src/pe64/base_relocs.rs) -/

open Pelite.Pe in
/-- **The directory handed to the block iterator is the image's relocation directory.**  For every view the crate
constructs (either format, file or mapped): `base_relocs()` succeeds iff data-directory slot 5 exists and `Pe::slice`
(`View.at`, characterised by C04 / C05) resolves its RVA to at least `Size` dword-aligned bytes; the directory is then
the FIRST `Size` bytes of that window — inside the buffer, dword aligned in memory (the `debug_assert!` of
`BaseRelocs::new` holds: `parse` accepts that placement), byte for byte the image's bytes there.  Everything C14 says
about `blocks` / `flat` / `fold` of a byte string therefore holds of the extracted directory.  A missing slot and RVA 0
are `Null`. -/
theorem C14_extraction (f : Fmt) (k : Kind) (img : Img) (v : View) (hv : fromBytes f k img = .ok v) :
    (∀ r, v.baseRelocsRef = .ok r ↔
      ∃ va size s, v.dataDir 5 = some (va, size) ∧ v.at (.rva va) size 4 = .ok s ∧ r = ⟨s.off, size, 4⟩) ∧
    (∀ r, v.baseRelocsRef = .ok r →
      RefOK v.img r ∧ r.align = 4 ∧ (∃ va, v.dataDir 5 = some (va, r.len)) ∧
      ∃ data, v.baseRelocsBytes = .ok data ∧ data.size = r.len ∧
        (∀ i, i < r.len → byteAt data i = byteAt v.b (r.off + i)) ∧
        parse ⟨data, v.img.base + r.off⟩ = .ok ()) ∧
    (v.dataDir 5 = none → v.baseRelocsRef = .err .null) ∧
    (∀ size, v.dataDir 5 = some (0, size) → v.baseRelocsRef = .err .null) := by
  have hiff : ∀ r, v.baseRelocsRef = .ok r ↔
      ∃ va size s, v.dataDir 5 = some (va, size) ∧ v.at (.rva va) size 4 = .ok s ∧ r = ⟨s.off, size, 4⟩ := by
    intro r
    unfold View.baseRelocsRef
    cases hdd : v.dataDir 5 with
    | none =>
      simp only
      constructor
      · intro h; cases h
      · rintro ⟨va, size, s, h, _⟩; cases h
    | some p =>
      obtain ⟨va, size⟩ := p
      have e : v.slice va size 4 = v.at (.rva va) size 4 := rfl
      simp only
      rw [e]
      cases hs : v.at (.rva va) size 4 with
      | ok s =>
        simp only
        constructor
        · intro h; cases h; exact ⟨va, size, s, rfl, hs, rfl⟩
        · rintro ⟨va', size', s', h, h', rfl⟩; cases h; cases h'.symm.trans hs; rfl
      | err e' =>
        simp only
        constructor
        · intro h; cases h
        · rintro ⟨va', size', s', h, h', _⟩; cases h; cases h'.symm.trans hs
      | panic x =>
        simp only
        constructor
        · intro h; cases h
        · rintro ⟨va', size', s', h, h', _⟩; cases h; cases h'.symm.trans hs
      | ub x =>
        simp only
        constructor
        · intro h; cases h
        · rintro ⟨va', size', s', h, h', _⟩; cases h; cases h'.symm.trans hs
      | diverge =>
        simp only
        constructor
        · intro h; cases h
        · rintro ⟨va', size', s', h, h', _⟩; cases h; cases h'.symm.trans hs
  refine ⟨hiff, ?_, ?_, ?_⟩
  · intro r h
    obtain ⟨va, size, s, hdd, hat, rfl⟩ := (hiff r).1 h
    have hva : va < 4294967296 := by
      unfold View.dataDir at hdd
      split at hdd
      · cases hdd; exact le32_lt _ _
      · cases hdd
    obtain ⟨hok, hlen, hal⟩ := C05_at_sound f k img v hv (.rva va) size 4 hva s hat
    unfold RefOK at hok
    rw [hal] at hok
    have hin : s.off + size ≤ v.img.bytes.size := by omega
    refine ⟨⟨hin, hok.2⟩, rfl, ⟨va, hdd⟩, ?_⟩
    unfold View.baseRelocsBytes
    rw [h]
    refine ⟨_, rfl, ?_, ?_, ?_⟩
    · have : v.b.size = v.img.bytes.size := rfl
      simp only [Array.size_extract]
      omega
    · intro i hi
      have hsz : v.b.size = v.img.bytes.size := rfl
      simp only [byteAt, Array.getD_eq_getD_getElem?, Array.getElem?_extract]
      simp only at hi
      rw [if_pos (by omega)]
    · unfold parse
      simp only
      rw [if_pos hok.2]
  · intro h
    unfold View.baseRelocsRef
    rw [h]
  · intro size h
    unfold View.baseRelocsRef
    rw [h]
    have : v.slice 0 size 4 = .err .null := (C05_null v size 4).1
    simp only
    rw [this]

/-! Instances of `C14_extraction`, all four combinations.  FILES: `relocFile32` / `relocFile64`
(Lemmas/RelocsFold.lean) — the directory's RVA 0x1000 resolved through the section table to file offset 272 / 288.
MAPPED images: the PE32 / PE32+ images of Lemmas/DirsExamples.lean with slot 5 set to (100, 12) and a one-block
directory written at offset 100 — extracted at offset 100 = its RVA.  On each the extracted bytes are well formed by
the format and the reported entries are the format-side decoding. -/
section ExtractionExamples
open Pelite.Pe Pelite.Dirs

def relocPatch (b : Bytes) (slot : Nat) : Bytes :=
  [(100, 0), (101, 0x10), (102, 0), (103, 0), (104, 12), (105, 0), (106, 0), (107, 0), (108, 4), (109, 0x30), (110, 0), (111, 0),
    (slot, 100), (slot + 4, 12)].foldl (fun a p => a.set! p.1 p.2) b
def relocF32 : View := ⟨⟨relocFile32, 0⟩, .pe32, .file, 0x400000⟩
def relocF64 : View := ⟨⟨relocFile64, 0⟩, .pe64, .file, 0x140000000⟩
def relocV32 : View := ⟨⟨relocPatch demoBytes 224, 0⟩, .pe32, .view, 0x400000⟩
def relocV64 : View := ⟨⟨relocPatch demoBytes64 240, 0⟩, .pe64, .view, 0x140000000⟩
/-- the extracted bytes are well formed by the format, and the entries reported are `want` = the format's decoding -/
def relocGood (v : View) (want : List (Nat × Nat)) : Bool :=
  match v.baseRelocsBytes with
  | .ok data => Spec.wellFormedDir data.toList && flat data == want && flat data == Spec.decodeDir data.toList
  | _ => false

example :
    fromBytes .pe32 .file relocF32.img = .ok relocF32 ∧ fromBytes .pe64 .file relocF64.img = .ok relocF64 ∧
    fromBytes .pe32 .view relocV32.img = .ok relocV32 ∧ fromBytes .pe64 .view relocV64.img = .ok relocV64 := by
  refine ⟨(fromBytes_ok_iff _ _ _ _).2 ⟨by decide +kernel, ?_⟩, (fromBytes_ok_iff _ _ _ _).2 ⟨by decide +kernel, ?_⟩,
    (fromBytes_ok_iff _ _ _ _).2 ⟨by decide +kernel, ?_⟩, (fromBytes_ok_iff _ _ _ _).2 ⟨by decide +kernel, ?_⟩⟩
  · rw [show imageBaseField .pe32 relocF32.img.bytes = 0x400000 by decide +kernel]; rfl
  · rw [show imageBaseField .pe64 relocF64.img.bytes = 0x140000000 by decide +kernel]; rfl
  · rw [show imageBaseField .pe32 relocV32.img.bytes = 0x400000 by decide +kernel]; rfl
  · rw [show imageBaseField .pe64 relocV64.img.bytes = 0x140000000 by decide +kernel]; rfl

example :
    relocF32.dataDir 5 = some (0x1000, 28) ∧ relocF32.baseRelocsRef = .ok ⟨272, 28, 4⟩ ∧
    relocGood relocF32 [(0x2004, 3), (0x3008, 10), (0x3010, 3), (0x3fff, 3)] = true ∧
    relocF64.dataDir 5 = some (0x1000, 28) ∧ relocF64.baseRelocsRef = .ok ⟨288, 28, 4⟩ ∧
    relocGood relocF64 [(0x2004, 3), (0x3008, 10), (0x3010, 3), (0x3fff, 3)] = true ∧
    relocV32.dataDir 5 = some (100, 12) ∧ relocV32.baseRelocsRef = .ok ⟨100, 12, 4⟩ ∧
    relocGood relocV32 [(0x1004, 3)] = true ∧
    relocV64.dataDir 5 = some (100, 12) ∧ relocV64.baseRelocsRef = .ok ⟨100, 12, 4⟩ ∧
    relocGood relocV64 [(0x1004, 3)] = true := by
  decide +kernel

end ExtractionExamples

/-! ### `build`

`build` stores `SizeOfBlock` as `size as u32` (model: `u32le size` keeps the low 32 bits).  When one
page receives 2147483643 (= 2^31 - 5) or more entries, `align4 (8 + 2 n) ≥ 2^32` and the stored
size is wrong, so the two statements as given (`C14_build_blocks_wellformed`, `C14_build_roundtrip`)
are FALSE for such inputs; the kernel-checked refutations are `C14_build_blocks_wellformed_unbounded_false`
and `C14_build_roundtrip_unbounded_false` below (input: 2147483644 copies of `(0, 1)`; the first
header then reads `SizeOfBlock = 0`).  They are proved here under `Fits ps`, i.e.
`ps.length < 2147483643 ∨ (buildList ps).length < 2^32`, and in the two special cases. -/

/-- `build` well-formedness, for every input whose blocks fit the `u32` size field. -/
theorem C14_build_blocks_wellformed_of_fits (ps : List (Nat × Nat)) (hfit : Fits ps)
    (hps : ∀ p ∈ ps, p.1 < 4294967296)
    (b : Block) (hmem : b ∈ blocks (build ps)) :
    b.va % 4096 = 0 ∧ b.size % 4 = 0 ∧ 12 ≤ b.size ∧ b.off + b.size ≤ (build ps).size := by
  rw [blocks_build] at hmem
  have := built_blocks_wf ps [] hfit hps b hmem
  simpa [build] using this

/-- **Round trip**, for every input whose blocks fit the `u32` size field. -/
theorem C14_build_roundtrip_of_fits (ps : List (Nat × Nat)) (hfit : Fits ps)
    (hps : ∀ p ∈ ps, p.1 < 4294967296 ∧ 1 ≤ p.2 ∧ p.2 ≤ 15) :
    flat (build ps) = ps := by
  have := built_flat ps [] hfit hps
  simpa [flat, blocks, build] using this

/-- fewer than 2^31 - 5 entries in total -/
theorem C14_build_blocks_wellformed_of_length (ps : List (Nat × Nat)) (hlen : ps.length < 2147483643)
    (hps : ∀ p ∈ ps, p.1 < 4294967296)
    (b : Block) (hmem : b ∈ blocks (build ps)) :
    b.va % 4096 = 0 ∧ b.size % 4 = 0 ∧ 12 ≤ b.size ∧ b.off + b.size ≤ (build ps).size :=
  C14_build_blocks_wellformed_of_fits ps (Or.inl hlen) hps b hmem

theorem C14_build_roundtrip_of_length (ps : List (Nat × Nat)) (hlen : ps.length < 2147483643)
    (hps : ∀ p ∈ ps, p.1 < 4294967296 ∧ 1 ≤ p.2 ∧ p.2 ≤ 15) :
    flat (build ps) = ps :=
  C14_build_roundtrip_of_fits ps (Or.inl hlen) hps

/-- the built directory is smaller than 4 GiB (what the `u32` `Size` of a data directory can say) -/
theorem C14_build_blocks_wellformed_of_size (ps : List (Nat × Nat)) (hsz : (build ps).size < 4294967296)
    (hps : ∀ p ∈ ps, p.1 < 4294967296)
    (b : Block) (hmem : b ∈ blocks (build ps)) :
    b.va % 4096 = 0 ∧ b.size % 4 = 0 ∧ 12 ≤ b.size ∧ b.off + b.size ≤ (build ps).size :=
  C14_build_blocks_wellformed_of_fits ps (Or.inr (by simpa [build] using hsz)) hps b hmem

theorem C14_build_roundtrip_of_size (ps : List (Nat × Nat)) (hsz : (build ps).size < 4294967296)
    (hps : ∀ p ∈ ps, p.1 < 4294967296 ∧ 1 ≤ p.2 ∧ p.2 ≤ 15) :
    flat (build ps) = ps :=
  C14_build_roundtrip_of_fits ps (Or.inr (by simpa [build] using hsz)) hps

/-- The unbounded well-formedness statement is false: 2147483644 entries `(0, 1)` give a first
block with `SizeOfBlock = 0`. -/
theorem C14_build_blocks_wellformed_unbounded_false :
    ¬ ∀ (ps : List (Nat × Nat)), (∀ p ∈ ps, p.1 < 4294967296) →
      ∀ b ∈ blocks (build ps),
        b.va % 4096 = 0 ∧ b.size % 4 = 0 ∧ 12 ≤ b.size ∧ b.off + b.size ≤ (build ps).size := by
  intro h
  obtain ⟨b, hb, hb0⟩ := huge_not_wellformed 2147483643 rfl
  have := h _ (fun p hp => (huge_input_ok 2147483643 p hp).1) b hb
  omega

/-- The unbounded round-trip statement is false for the same input: the first pair read back is
`(0x10001000, 1)`, not `(0, 1)`. -/
theorem C14_build_roundtrip_unbounded_false :
    ¬ ∀ (ps : List (Nat × Nat)), (∀ p ∈ ps, p.1 < 4294967296 ∧ 1 ≤ p.2 ∧ p.2 ≤ 15) →
      flat (build ps) = ps := by
  intro h
  exact huge_not_roundtrip 2147483643 rfl (h _ (huge_input_ok 2147483643))

/-- **Well-formed output** under the model's global bound (buffers below 4 GiB, DESIGN.md 1.2):
every block that `build` emits is page-aligned, has a size that is a multiple of four and at
least 12, and lies inside the output.  Without the bound the statement is false
(`C14_build_blocks_wellformed_unbounded_false`: 2^31 entries in one page make `size as u32` wrap). -/
theorem C14_build_blocks_wellformed (ps : List (Nat × Nat)) (hsz : (build ps).size < 4294967296)
    (hps : ∀ p ∈ ps, p.1 < 4294967296)
    (b : Block) (hmem : b ∈ blocks (build ps)) :
    b.va % 4096 = 0 ∧ b.size % 4 = 0 ∧ 12 ≤ b.size ∧ b.off + b.size ≤ (build ps).size :=
  C14_build_blocks_wellformed_of_size ps hsz hps b hmem

/-- **Round trip** under the same global bound.  For every list of (rva, type) pairs with types
1..15 — sortedness is not needed — parsing what `build` produced yields exactly those pairs, in
order.  Without the bound: `C14_build_roundtrip_unbounded_false`. -/
theorem C14_build_roundtrip (ps : List (Nat × Nat)) (hsz : (build ps).size < 4294967296)
    (hps : ∀ p ∈ ps, p.1 < 4294967296 ∧ 1 ≤ p.2 ∧ p.2 ≤ 15) :
    flat (build ps) = ps :=
  C14_build_roundtrip_of_size ps hsz hps

/-- Non-vacuity / concrete instance. -/
example : flat (build [(0x1010, 3), (0x1fff, 10), (0x2000, 3)]) = [(0x1010, 3), (0x1fff, 10), (0x2000, 3)] := by
  decide +kernel

end Pelite.Relocs
