import PeliteModel.Lemmas.Relocs
/-!
C14 — base relocations: blocks partition the directory and build/parse round-trips.
Property theorems only; helper lemmas are in Lemmas/Relocs.lean.
-/
namespace Pelite.Relocs

/-- Termination with the work bound the property asks for: at most `len / 8` blocks. -/
theorem C14_blocks_count (data : Bytes) : (blocks data).length ≤ data.size / 8 := by
  sorry

/-- The blocks are consecutive: the first starts at 0 and each next one starts where the previous
one ends, i.e. `min(align4(max(SizeOfBlock, 8)), remaining)` bytes further. -/
theorem C14_blocks_consecutive (data : Bytes) (off : Nat) (b : Block) (rest : List Block)
    (h : blocksFrom data off = b :: rest) :
    b.off = off ∧ off + 8 ≤ data.size ∧ b.va = le32 data off ∧ b.size = le32 data (off + 4) ∧
    rest = blocksFrom data (off + step b.size (data.size - off)) := by
  sorry

/-- Entry count: `(SizeOfBlock - 8) / 2` entries, clamped to the directory; a block's header and
entries lie inside the part of the directory the iterator skips for it or inside the directory's
clamped tail (no overlap with the next block on well-formed data). -/
theorem C14_block_extent (data : Bytes) (off : Nat) (b : Block) (rest : List Block)
    (h : blocksFrom data off = b :: rest) :
    b.nwords = (min b.size (data.size - off) - 8) / 2 ∧
    b.off + 8 + 2 * b.nwords ≤ data.size ∧
    (b.size % 4 = 0 → 8 ≤ b.size → b.size ≤ data.size - off →
        step b.size (data.size - off) = b.size ∧ b.off + 8 + 2 * b.nwords = off + b.size) := by
  sorry

/-- C01 for this module: every reference a block hands out lies inside the directory and is
aligned for its type, for every 4-aligned placement of the directory. -/
theorem C14_refs_ok (img : Img) (hb : img.base % 4 = 0) (b : Block) (hmem : b ∈ blocks img.bytes) :
    RefOK img b.imageRef ∧ RefOK img b.wordsRef := by
  sorry

/-- Every block that `build` emits is page-aligned, has a size that is a multiple of four and at
least 12, and the blocks tile the output exactly. -/
theorem C14_build_blocks_wellformed (ps : List (Nat × Nat)) (hps : ∀ p ∈ ps, p.1 < 4294967296)
    (b : Block) (hmem : b ∈ blocks (build ps)) :
    b.va % 4096 = 0 ∧ b.size % 4 = 0 ∧ 12 ≤ b.size ∧ b.off + b.size ≤ (build ps).size := by
  sorry

/-- **Round trip.**  For every list of (rva, type) pairs with types 1..15 — sortedness is not
needed — parsing what `build` produced yields exactly those pairs, in order. -/
theorem C14_build_roundtrip (ps : List (Nat × Nat))
    (hps : ∀ p ∈ ps, p.1 < 4294967296 ∧ 1 ≤ p.2 ∧ p.2 ≤ 15) :
    flat (build ps) = ps := by
  sorry

/-- Non-vacuity / concrete instance. -/
example : flat (build [(0x1010, 3), (0x1fff, 10), (0x2000, 3)]) = [(0x1010, 3), (0x1fff, 10), (0x2000, 3)] := by
  decide +kernel

end Pelite.Relocs
