import PeliteModel.Lemmas.Relocs
/-!
C14 — base relocations: blocks partition the directory and build/parse round-trips.
Property theorems only; helper lemmas are in Lemmas/Relocs.lean.
-/
namespace Pelite.Relocs

/-- Termination with the work bound the property asks for: at most `len / 8` blocks. -/
theorem C14_blocks_count (data : Bytes) : (blocks data).length ≤ data.size / 8 := by
  have := blocksFrom_length_le data 0
  simpa [blocks] using this

/-- The blocks are consecutive: the first starts at 0 and each next one starts where the previous
one ends, i.e. `min(align4(max(SizeOfBlock, 8)), remaining)` bytes further. -/
theorem C14_blocks_consecutive (data : Bytes) (off : Nat) (b : Block) (rest : List Block)
    (h : blocksFrom data off = b :: rest) :
    b.off = off ∧ off + 8 ≤ data.size ∧ b.va = le32 data off ∧ b.size = le32 data (off + 4) ∧
    rest = blocksFrom data (off + step b.size (data.size - off)) := by
  obtain ⟨hge, rfl, hrest⟩ := blocksFrom_cons_inv h
  exact ⟨rfl, hge, rfl, rfl, hrest⟩

/-- Entry count: `(SizeOfBlock - 8) / 2` entries, clamped to the directory; a block's header and
entries lie inside the part of the directory the iterator skips for it or inside the directory's
clamped tail (no overlap with the next block on well-formed data). -/
theorem C14_block_extent (data : Bytes) (off : Nat) (b : Block) (rest : List Block)
    (h : blocksFrom data off = b :: rest) :
    b.nwords = (min b.size (data.size - off) - 8) / 2 ∧
    b.off + 8 + 2 * b.nwords ≤ data.size ∧
    (b.size % 4 = 0 → 8 ≤ b.size → b.size ≤ data.size - off →
        step b.size (data.size - off) = b.size ∧ b.off + 8 + 2 * b.nwords = off + b.size) := by
  obtain ⟨hge, rfl, -⟩ := blocksFrom_cons_inv h
  have hlt := le32_lt data (off + 4)
  refine ⟨rfl, ?_, ?_⟩
  · simp only [blockAt]; omega
  · intro h4 h8 hle
    simp only [blockAt] at h4 h8 hle ⊢
    exact ⟨step_eq_size hlt h4 h8 hle, by omega⟩

/-- C01 for this module: every reference a block hands out lies inside the directory and is
aligned for its type, for every 4-aligned placement of the directory. -/
theorem C14_refs_ok (img : Img) (hb : img.base % 4 = 0) (b : Block) (hmem : b ∈ blocks img.bytes) :
    RefOK img b.imageRef ∧ RefOK img b.wordsRef := by
  obtain ⟨o, -, ho4, ho8, rfl⟩ := mem_blocksFrom (off := 0) (by rfl) hmem
  simp only [RefOK, Block.imageRef, Block.wordsRef, blockAt]
  omega

/-! ### `build`

`build` stores `SizeOfBlock` as `size as u32` (model: `u32le size` keeps the low 32 bits).  When one
page receives 2147483643 (= 2^31 - 5) or more entries, `align4 (8 + 2 n) ≥ 2^32` and the stored
size is wrong, so the two statements as given (`C14_build_blocks_wellformed`, `C14_build_roundtrip`)
are FALSE for such inputs; the kernel-checked refutations are `C14_build_blocks_wellformed_unbounded_false`
and `C14_build_roundtrip_unbounded_false` below (input: 2147483644 copies of `(0, 1)`; the first
header then reads `SizeOfBlock = 0`).  They are proved here under `Fits ps`, i.e.
`ps.length < 2147483643 ∨ (buildList ps).length < 2^32`, and in the two special cases. -/

/-- `build` well-formedness, for every input whose blocks fit the `u32` size field. -/
theorem C14_build_blocks_wellformed_of_fits (ps : List (Nat × Nat)) (hfit : Fits ps)
    (hps : ∀ p ∈ ps, p.1 < 4294967296)
    (b : Block) (hmem : b ∈ blocks (build ps)) :
    b.va % 4096 = 0 ∧ b.size % 4 = 0 ∧ 12 ≤ b.size ∧ b.off + b.size ≤ (build ps).size := by
  rw [blocks_build] at hmem
  have := built_blocks_wf ps [] hfit hps b hmem
  simpa [build] using this

/-- **Round trip**, for every input whose blocks fit the `u32` size field. -/
theorem C14_build_roundtrip_of_fits (ps : List (Nat × Nat)) (hfit : Fits ps)
    (hps : ∀ p ∈ ps, p.1 < 4294967296 ∧ 1 ≤ p.2 ∧ p.2 ≤ 15) :
    flat (build ps) = ps := by
  have := built_flat ps [] hfit hps
  simpa [flat, blocks, build] using this

/-- fewer than 2^31 - 5 entries in total -/
theorem C14_build_blocks_wellformed_of_length (ps : List (Nat × Nat)) (hlen : ps.length < 2147483643)
    (hps : ∀ p ∈ ps, p.1 < 4294967296)
    (b : Block) (hmem : b ∈ blocks (build ps)) :
    b.va % 4096 = 0 ∧ b.size % 4 = 0 ∧ 12 ≤ b.size ∧ b.off + b.size ≤ (build ps).size :=
  C14_build_blocks_wellformed_of_fits ps (Or.inl hlen) hps b hmem

theorem C14_build_roundtrip_of_length (ps : List (Nat × Nat)) (hlen : ps.length < 2147483643)
    (hps : ∀ p ∈ ps, p.1 < 4294967296 ∧ 1 ≤ p.2 ∧ p.2 ≤ 15) :
    flat (build ps) = ps :=
  C14_build_roundtrip_of_fits ps (Or.inl hlen) hps

/-- the built directory is smaller than 4 GiB (what the `u32` `Size` of a data directory can say) -/
theorem C14_build_blocks_wellformed_of_size (ps : List (Nat × Nat)) (hsz : (build ps).size < 4294967296)
    (hps : ∀ p ∈ ps, p.1 < 4294967296)
    (b : Block) (hmem : b ∈ blocks (build ps)) :
    b.va % 4096 = 0 ∧ b.size % 4 = 0 ∧ 12 ≤ b.size ∧ b.off + b.size ≤ (build ps).size :=
  C14_build_blocks_wellformed_of_fits ps (Or.inr (by simpa [build] using hsz)) hps b hmem

theorem C14_build_roundtrip_of_size (ps : List (Nat × Nat)) (hsz : (build ps).size < 4294967296)
    (hps : ∀ p ∈ ps, p.1 < 4294967296 ∧ 1 ≤ p.2 ∧ p.2 ≤ 15) :
    flat (build ps) = ps :=
  C14_build_roundtrip_of_fits ps (Or.inr (by simpa [build] using hsz)) hps

/-- The unbounded well-formedness statement is false: 2147483644 entries `(0, 1)` give a first
block with `SizeOfBlock = 0`. -/
theorem C14_build_blocks_wellformed_unbounded_false :
    ¬ ∀ (ps : List (Nat × Nat)), (∀ p ∈ ps, p.1 < 4294967296) →
      ∀ b ∈ blocks (build ps),
        b.va % 4096 = 0 ∧ b.size % 4 = 0 ∧ 12 ≤ b.size ∧ b.off + b.size ≤ (build ps).size := by
  intro h
  obtain ⟨b, hb, hb0⟩ := huge_not_wellformed 2147483643 rfl
  have := h _ (fun p hp => (huge_input_ok 2147483643 p hp).1) b hb
  omega

/-- The unbounded round-trip statement is false for the same input: the first pair read back is
`(0x10001000, 1)`, not `(0, 1)`. -/
theorem C14_build_roundtrip_unbounded_false :
    ¬ ∀ (ps : List (Nat × Nat)), (∀ p ∈ ps, p.1 < 4294967296 ∧ 1 ≤ p.2 ∧ p.2 ≤ 15) →
      flat (build ps) = ps := by
  intro h
  exact huge_not_roundtrip 2147483643 rfl (h _ (huge_input_ok 2147483643))

/-- **Well-formed output** under the model's global bound (buffers below 4 GiB, DESIGN.md 1.2):
every block that `build` emits is page-aligned, has a size that is a multiple of four and at
least 12, and lies inside the output.  Without the bound the statement is false
(`C14_build_blocks_wellformed_unbounded_false`: 2^31 entries in one page make `size as u32` wrap). -/
theorem C14_build_blocks_wellformed (ps : List (Nat × Nat)) (hsz : (build ps).size < 4294967296)
    (hps : ∀ p ∈ ps, p.1 < 4294967296)
    (b : Block) (hmem : b ∈ blocks (build ps)) :
    b.va % 4096 = 0 ∧ b.size % 4 = 0 ∧ 12 ≤ b.size ∧ b.off + b.size ≤ (build ps).size :=
  C14_build_blocks_wellformed_of_size ps hsz hps b hmem

/-- **Round trip** under the same global bound.  For every list of (rva, type) pairs with types
1..15 — sortedness is not needed — parsing what `build` produced yields exactly those pairs, in
order.  Without the bound: `C14_build_roundtrip_unbounded_false`. -/
theorem C14_build_roundtrip (ps : List (Nat × Nat)) (hsz : (build ps).size < 4294967296)
    (hps : ∀ p ∈ ps, p.1 < 4294967296 ∧ 1 ≤ p.2 ∧ p.2 ≤ 15) :
    flat (build ps) = ps :=
  C14_build_roundtrip_of_size ps hsz hps

/-- Non-vacuity / concrete instance. -/
example : flat (build [(0x1010, 3), (0x1fff, 10), (0x2000, 3)]) = [(0x1010, 3), (0x1fff, 10), (0x2000, 3)] := by
  decide +kernel

end Pelite.Relocs
