import PeliteModel.Model.Relocs
import PeliteModel.Generated.ImageLayout
/-!
C14 — the literal sizes and offsets of `Model/Relocs.lean` are the layout of `IMAGE_BASE_RELOCATION` in the *current
source* (`Generated/ImageLayout.lean`, rewritten on every check run from `size_of` / `align_of` / `offset_of!` of the
structs of `src/image.rs`).  The model writes the numbers inline; each tie is stated through the function that
contains the literal.

Literals of the model that are literals of the Rust code as well (`relocs.as_ptr().aligned_to(4)`,
`block_size.align_to(4)`, `(8 + 2 * n).align_to(4)`) are stated as the struct's alignment / size: that is what they
are for ("Size of block should be multiple of 4 to ensure alignment"), and the statement breaks if the struct stops
having that size or alignment.  Not tied: the `2`s are `size_of::<u16>()` (the type-offset words), `4096` / `12` are
the page size / the width of the offset part of a type-offset word — format constants, no struct behind them.
-/
namespace Pelite.Relocs
open Pelite Pelite.Generated.Layout

/-- **Every block header is read with the size and at the offsets of the source's `IMAGE_BASE_RELOCATION`**, the
words start where the header ends, and blocks are stepped by the header's size and alignment. -/
theorem C14_model_offsets (b : Block) (img : Img) (data : Bytes) (off size rem i : Nat) :
    b.imageRef = ⟨b.off, IMAGE_BASE_RELOCATION__size, IMAGE_BASE_RELOCATION__align⟩ ∧
    b.wordsRef = ⟨b.off + IMAGE_BASE_RELOCATION__size, 2 * b.nwords, 2⟩ ∧
    -- `BaseRelocs::parse`: the directory must be aligned for its first block header
    parse img = (if img.base % IMAGE_BASE_RELOCATION__align = 0 then .ok () else .err .misaligned) ∧
    -- `IterBlocks::peek`
    peek data off =
      (let rem := data.size - off
       if rem ≥ IMAGE_BASE_RELOCATION__size then
         let size := le32 data (off + IMAGE_BASE_RELOCATION__SizeOfBlock)
         some { off := off, va := le32 data (off + IMAGE_BASE_RELOCATION__VirtualAddress), size := size,
                nwords := (min size rem - IMAGE_BASE_RELOCATION__size) / 2 }
       else none) ∧
    -- `IterBlocks::next`: `max(SizeOfBlock, size_of)` rounded up to the header's alignment, clamped
    step size rem = min (alignTo64 (max size IMAGE_BASE_RELOCATION__size) IMAGE_BASE_RELOCATION__align) rem ∧
    -- `Block::words`: the `u16`s behind the header
    b.words data = (List.range b.nwords).map (fun i => le16 data (b.off + IMAGE_BASE_RELOCATION__size + 2 * i)) ∧
    -- the inner loop of `fold` reads the same words
    (∀ {α : Type} (f : α → Nat → Nat → α) (accum : α), foldWords f data b i accum =
      (if i < b.nwords then
        let word := le16 data (b.off + IMAGE_BASE_RELOCATION__size + 2 * i)
        if typeOf word ≠ 0 then foldWords f data b (i + 1) (f accum (rvaOf b.va word) (typeOf word))
        else foldWords f data b (i + 1) accum
       else accum)) := by
  refine ⟨rfl, rfl, rfl, rfl, rfl, rfl, ?_⟩
  intro α f accum
  rw [foldWords]
  rfl

/-- `build` writes a header in field order — `VirtualAddress` first, `SizeOfBlock` second, both `u32` — of the
struct's size, and rounds the block up to the struct's alignment -/
theorem C14_model_build_offsets (start : Nat) (ps : List (Nat × Nat)) :
    buildBlock start ps =
      (let n := ps.length
       let size := alignTo64 (IMAGE_BASE_RELOCATION__size + 2 * n) IMAGE_BASE_RELOCATION__align
       u32le start ++ u32le size ++ (ps.flatMap (fun p => u16le (encodeTypeOffset start p.1 p.2)))
         ++ (if n % 2 = 1 then u16le 0 else [])) ∧
    IMAGE_BASE_RELOCATION__VirtualAddress = 0 ∧
    IMAGE_BASE_RELOCATION__SizeOfBlock = IMAGE_BASE_RELOCATION__VirtualAddress + (u32le start).length ∧
    IMAGE_BASE_RELOCATION__size = IMAGE_BASE_RELOCATION__SizeOfBlock + (u32le start).length :=
  ⟨rfl, rfl, rfl, rfl⟩

/-- non-vacuity: one block of two words is read back with these offsets -/
example : IMAGE_BASE_RELOCATION__size = 8 ∧ IMAGE_BASE_RELOCATION__align = 4 ∧
    peek (build [(0x1004, 3), (0x1008, 10)]) 0 = some ⟨0, 0x1000, 12, 2⟩ ∧
    (Block.mk 0 0x1000 12 2).words (build [(0x1004, 3), (0x1008, 10)]) = [0x3004, 0xA008] := by
  decide +kernel

end Pelite.Relocs
