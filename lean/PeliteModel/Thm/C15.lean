import PeliteModel.Lemmas.Dirs
import PeliteModel.Thm.C05Complete
import PeliteModel.Lemmas.DirsExamples
/-!
C15 — Debug, TLS, load-config, exception and security directories are decoded as stored.

`v` ranges over EVERY view (any format, file or mapped, any bytes, any base address) unless a hypothesis
says otherwise; addresses over all naturals.  Resolution of an RVA / VA to buffer bytes is the typed-read
primitive `View.at` characterised by C04 / C05.  `OkOrErr o` = `o` is a value or a typed error: no panic
(C02), no unchecked out-of-bounds / misaligned access (C01), no divergence (C03).
-/
namespace Pelite.Dirs
open Pelite Pelite.Pe

/-! ## binary search (`core::slice::binary_search_by`) -/

/-- For ANY comparator (sorted table or not): a hit is an index inside the slice whose element compares
`Equal`; a miss returns an insertion point `≤ len`. -/
theorem C15_bsearch_sound (n : Nat) (cmp : Nat → Ordering) :
    (∀ i, bsearchBy n cmp = .found i → i < n ∧ cmp i = .eq) ∧
    (∀ k, bsearchBy n cmp = .notFound k → k ≤ n) :=
  ⟨bsearchBy_found n cmp, bsearchBy_notFound_le n cmp⟩

/-- Contract for a comparator that is monotone along the slice (`Less* Equal* Greater*`): the search
answers `found i` with `cmp i = Equal` iff some element compares `Equal`; a miss returns the partition
point (`Less` strictly before it, `Greater` from it on). -/
theorem C15_bsearch_contract (n : Nat) (cmp : Nat → Ordering) (hm : Mono n cmp) :
    ((∃ i, bsearchBy n cmp = .found i) ↔ ∃ e, e < n ∧ cmp e = .eq) ∧
    (∀ i, bsearchBy n cmp = .found i → i < n ∧ cmp i = .eq) ∧
    (∀ k, bsearchBy n cmp = .notFound k →
      k ≤ n ∧ (∀ i, i < k → cmp i = .lt) ∧ (∀ i, k ≤ i → i < n → cmp i = .gt)) := by
  refine ⟨⟨?_, ?_⟩, bsearchBy_found n cmp, bsearchBy_notFound n cmp hm⟩
  · rintro ⟨i, h⟩; exact ⟨i, bsearchBy_found n cmp i h⟩
  · rintro ⟨e, he, hc⟩; exact bsearchBy_complete n cmp hm e he hc

/-- the hypothesis `Mono` holds for the closure of `index_of` on every table that passes `check_sorted`, e.g.
the three records of `demoBytes` and any `pc` -/
example (pc : Nat) : Mono (excCount ⟨320, 36, 4⟩) (rfCmp demoBytes ⟨320, 36, 4⟩ pc) :=
  rfCmp_mono ((checkSorted_iff _ _).1 (by decide +kernel)) pc

/-- The textbook search on `[0, n)` satisfies the same contract, hence on a monotone comparator the two
agree on hit-or-miss and on the insertion point of a miss, and on the hit itself when at most one element
compares `Equal` (always the case for `index_of` on a sorted table). -/
theorem C15_bsearch_eq_reference (n : Nat) (cmp : Nat → Ordering) (hm : Mono n cmp) :
    ((∃ i, bsearchBy n cmp = .found i) ↔ ∃ i, Spec.bsearchRef cmp 0 n = .found i) ∧
    (∀ k, bsearchBy n cmp = .notFound k ↔ Spec.bsearchRef cmp 0 n = .notFound k) ∧
    ((∀ i j, i < n → j < n → cmp i = .eq → cmp j = .eq → i = j) → bsearchBy n cmp = Spec.bsearchRef cmp 0 n) := by
  obtain ⟨r1, r2⟩ := bsearchRef_spec cmp n hm n 0 n rfl (Nat.zero_le _) (Nat.le_refl _) (fun i hi => by omega) (fun i h1 h2 => by omega)
  obtain ⟨c1, c2, c3⟩ := C15_bsearch_contract n cmp hm
  -- two partition points coincide
  have part : ∀ k k', k ≤ n → k' ≤ n → (∀ i, i < k → cmp i = .lt) → (∀ i, k ≤ i → i < n → cmp i = .gt) →
      (∀ i, i < k' → cmp i = .lt) → (∀ i, k' ≤ i → i < n → cmp i = .gt) → k = k' := by
    intro k k' hk hk' a1 a2 b1 b2
    rcases Nat.lt_trichotomy k k' with h | h | h
    · have x := a2 k (Nat.le_refl _) (by omega); have y := b1 k h; rw [x] at y; cases y
    · exact h
    · have x := b2 k' (Nat.le_refl _) (by omega); have y := a1 k' h; rw [x] at y; cases y
  -- a hit excludes a miss, for either algorithm
  have excl : ∀ e k, e < n → cmp e = .eq → (∀ i, i < k → cmp i = .lt) → (∀ i, k ≤ i → i < n → cmp i = .gt) → False := by
    intro e k he hce a1 a2
    by_cases hek : e < k
    · have := a1 e hek; rw [hce] at this; cases this
    · have := a2 e (by omega) he; rw [hce] at this; cases this
  have hitS : ∀ {i}, bsearchBy n cmp = .found i → ∃ j, Spec.bsearchRef cmp 0 n = .found j := by
    intro i h
    obtain ⟨h1, h2⟩ := c2 i h
    cases hr : Spec.bsearchRef cmp 0 n with
    | found j => exact ⟨j, rfl⟩
    | notFound k => obtain ⟨_, a1, a2⟩ := r2 k hr; exact absurd (excl i k h1 h2 a1 a2) id
  have hitR : ∀ {i}, Spec.bsearchRef cmp 0 n = .found i → ∃ j, bsearchBy n cmp = .found j := by
    intro i h
    obtain ⟨h1, h2⟩ := r1 i h
    exact c1.2 ⟨i, h1, h2⟩
  have missS : ∀ {k}, bsearchBy n cmp = .notFound k → Spec.bsearchRef cmp 0 n = .notFound k := by
    intro k h
    obtain ⟨a0, a1, a2⟩ := c3 k h
    cases hr : Spec.bsearchRef cmp 0 n with
    | found j => obtain ⟨h1, h2⟩ := r1 j hr; exact absurd (excl j k h1 h2 a1 a2) id
    | notFound k' => obtain ⟨b0, b1, b2⟩ := r2 k' hr; rw [part k k' a0 b0 a1 a2 b1 b2]
  have missR : ∀ {k}, Spec.bsearchRef cmp 0 n = .notFound k → bsearchBy n cmp = .notFound k := by
    intro k h
    obtain ⟨a0, a1, a2⟩ := r2 k h
    cases hr : bsearchBy n cmp with
    | found j => obtain ⟨h1, h2⟩ := c2 j hr; exact absurd (excl j k h1 h2 a1 a2) id
    | notFound k' => obtain ⟨b0, b1, b2⟩ := c3 k' hr; rw [part k' k b0 a0 b1 b2 a1 a2]
  refine ⟨⟨fun ⟨i, h⟩ => hitS h, fun ⟨i, h⟩ => hitR h⟩, fun k => ⟨missS, missR⟩, ?_⟩
  intro huniq
  cases hr : bsearchBy n cmp with
  | found i =>
    obtain ⟨j, hj⟩ := hitS hr
    obtain ⟨h1, h2⟩ := c2 i hr
    obtain ⟨g1, g2⟩ := r1 j hj
    rw [hj, huniq i j h1 g1 h2 g2]
  | notFound k => rw [missS hr]

/-! ## exception directory -/

/-- The directory is `Size / 12` RUNTIME_FUNCTION records at the directory's RVA; a `Size` that is not a
multiple of 12 is `Invalid`; a missing data-directory slot is `Null`, and so is a zero RVA. -/
theorem C15_exception_entries (v : View) :
    (∀ t, excTryFrom v = .ok t ↔
      ∃ va size, v.dataDir 3 = some (va, size) ∧ Spec.recordCount size 12 = .ok (excCount t) ∧
        ∃ s, v.at (.rva va) size 4 = .ok s ∧ t = ⟨s.off, size, 4⟩) ∧
    (v.dataDir 3 = none → excTryFrom v = .err .null) ∧
    (∀ va size, v.dataDir 3 = some (va, size) → size % 12 ≠ 0 → excTryFrom v = .err .invalid) ∧
    (∀ size, v.dataDir 3 = some (0, size) → size % 12 = 0 → excTryFrom v = .err .null) := by
  rw [excTryFrom_eq]
  refine ⟨fun t => ?_, tableTryFrom_errors v 3 12⟩
  rw [tableTryFrom_ok_iff v 3 12 (by decide) t]
  unfold Spec.recordCount excCount
  constructor
  · rintro ⟨va, size, h1, h2, s, h3, rfl⟩
    exact ⟨va, size, h1, by rw [if_pos h2], s, h3, rfl⟩
  · rintro ⟨va, size, h1, h2, s, h3, rfl⟩
    refine ⟨va, size, h1, ?_, s, h3, rfl⟩
    by_cases hm : size % 12 = 0
    · exact hm
    · rw [if_neg hm] at h2; cases h2

/-- `check_sorted` decides exactly the specification's notion of a sorted table (tables with fewer than two
records are sorted, whatever the single record looks like). -/
theorem C15_check_sorted_iff (b : Bytes) (t : Ref) : checkSorted b t = true ↔ Spec.Sorted b t :=
  checkSorted_iff b t

/-- On ANY table (sorted or not) a hit of `index_of` is a record whose `[begin, end)` contains `pc`; in
particular records with `BeginAddress ≥ EndAddress` (empty or inverted) are never returned. -/
theorem C15_index_of_sound (b : Bytes) (t : Ref) (pc i : Nat) (h : indexOf b t pc = .found i) :
    i < excCount t ∧ Spec.Covers b t i pc ∧ rfBegin b t i < rfEnd b t i := by
  obtain ⟨h1, h2⟩ := bsearchBy_found _ _ i h
  have hc := (rfCmp_eq_iff b t pc i).1 h2
  exact ⟨h1, hc, by unfold Spec.Covers at hc; omega⟩

/-- On tables that pass `check_sorted`: `index_of pc = Ok(i)` ⇔ record `i` exists and
`Begin_i ≤ pc < End_i` (end exclusive). -/
theorem C15_index_of_sorted (b : Bytes) (t : Ref) (hs : checkSorted b t = true) (pc i : Nat) :
    indexOf b t pc = .found i ↔ i < excCount t ∧ rfBegin b t i ≤ pc ∧ pc < rfEnd b t i := by
  have hs' := (checkSorted_iff b t).1 hs
  constructor
  · intro h
    obtain ⟨h1, h2, _⟩ := C15_index_of_sound b t pc i h
    exact ⟨h1, h2⟩
  · rintro ⟨hi, hc⟩
    have hc' : Spec.Covers b t i pc := hc
    obtain ⟨j, hj⟩ := bsearchBy_complete _ _ (rfCmp_mono hs' pc) i hi ((rfCmp_eq_iff b t pc i).2 hc')
    obtain ⟨g1, g2, _⟩ := C15_index_of_sound b t pc j hj
    rw [covers_unique hs' hi g1 hc' g2]
    exact hj

/-- On sorted tables a lookup that no record covers answers `Err(k)` where `k` is the number of records
entirely at or below `pc`: every earlier record has `Begin ≤ pc` and `End ≤ pc`, every later one begins
after `pc`. -/
theorem C15_index_of_miss (b : Bytes) (t : Ref) (hs : checkSorted b t = true) (pc : Nat)
    (hno : ∀ i, i < excCount t → ¬ (rfBegin b t i ≤ pc ∧ pc < rfEnd b t i)) :
    ∃ k, indexOf b t pc = .notFound k ∧ k ≤ excCount t ∧
      (∀ i, i < k → rfBegin b t i ≤ pc ∧ rfEnd b t i ≤ pc) ∧
      (∀ i, k ≤ i → i < excCount t → pc < rfBegin b t i) := by
  have hs' := (checkSorted_iff b t).1 hs
  cases h : indexOf b t pc with
  | found i =>
    obtain ⟨h1, h2, _⟩ := C15_index_of_sound b t pc i h
    exact absurd h2 (hno i h1)
  | notFound k =>
    obtain ⟨g1, g2, g3⟩ := bsearchBy_notFound _ _ (rfCmp_mono hs' pc) k h
    exact ⟨k, rfl, g1, fun i hi => (rfCmp_lt_iff b t pc i).1 (g2 i hi),
      fun i hi hi' => (rfCmp_gt_iff b t pc i).1 (g3 i hi hi')⟩

/-- … in particular: nothing for an address before the first record (`Err(0)`), after the last
(`Err(len)`), or in a gap between records `i` and `i+1` (`Err(i+1)`).  `pc = End_i` counts as after /
in the gap: the end is exclusive.  (For a one-record table with `Begin > End`, which `check_sorted`
accepts, "after the last" needs `Begin ≤ pc` as stated.) -/
theorem C15_index_of_outside (b : Bytes) (t : Ref) (hs : checkSorted b t = true) (pc : Nat) :
    (0 < excCount t → pc < rfBegin b t 0 → indexOf b t pc = .notFound 0) ∧
    (0 < excCount t → rfBegin b t (excCount t - 1) ≤ pc → rfEnd b t (excCount t - 1) ≤ pc →
      indexOf b t pc = .notFound (excCount t)) ∧
    (∀ i, i + 1 < excCount t → rfEnd b t i ≤ pc → pc < rfBegin b t (i + 1) →
      indexOf b t pc = .notFound (i + 1)) := by
  have hs' := (checkSorted_iff b t).1 hs
  have hm := rfCmp_mono hs' pc
  -- a miss with partition point k, given that no record covers pc
  have key : (∀ i, i < excCount t → ¬ Spec.Covers b t i pc) → ∀ P : Nat → Prop,
      (∀ k, k ≤ excCount t → (∀ i, i < k → rfCmp b t pc i = .lt) →
        (∀ i, k ≤ i → i < excCount t → rfCmp b t pc i = .gt) → P k) →
      ∃ k, indexOf b t pc = .notFound k ∧ P k := by
    intro hno P hP
    cases h : indexOf b t pc with
    | found i =>
      obtain ⟨h1, h2, _⟩ := C15_index_of_sound b t pc i h
      exact absurd h2 (hno i h1)
    | notFound k =>
      obtain ⟨g1, g2, g3⟩ := bsearchBy_notFound _ _ hm k h
      exact ⟨k, rfl, hP k g1 g2 g3⟩
  refine ⟨?_, ?_, ?_⟩
  · intro hn hpc
    have hno : ∀ i, i < excCount t → ¬ Spec.Covers b t i pc := by
      intro i hi hc
      unfold Spec.Covers at hc
      by_cases h0 : i = 0
      · subst h0; omega
      · obtain ⟨a1, a2, a3⟩ := sorted_chain hs' i 0 (by omega) hi; omega
    obtain ⟨k, hk, rfl⟩ := key hno (fun k => k = 0) (fun k _ g2 _ => by
      apply Nat.eq_zero_of_not_pos
      intro hk
      have := (rfCmp_lt_iff b t pc 0).1 (g2 0 hk)
      omega)
    exact hk
  · intro hn h1 h2
    have hno : ∀ i, i < excCount t → ¬ Spec.Covers b t i pc := by
      intro i hi hc
      unfold Spec.Covers at hc
      by_cases h0 : i = excCount t - 1
      · subst h0; omega
      · obtain ⟨a1, a2, a3⟩ := sorted_chain hs' (excCount t - 1) i (by omega) (by omega); omega
    obtain ⟨k, hk, rfl⟩ := key hno (fun k => k = excCount t) (fun k g1 _ g3 => by
      apply Nat.le_antisymm g1
      apply Nat.le_of_not_lt
      intro hlt
      have := (rfCmp_gt_iff b t pc (excCount t - 1)).1 (g3 (excCount t - 1) (by omega) (by omega))
      omega)
    exact hk
  · intro i hi h1 h2
    obtain ⟨s1, s2, s3⟩ := hs' i hi
    have hno : ∀ j, j < excCount t → ¬ Spec.Covers b t j pc := by
      intro j hj hc
      unfold Spec.Covers at hc
      rcases Nat.lt_trichotomy j i with h | h | h
      · obtain ⟨a1, a2, a3⟩ := sorted_chain hs' i j h (by omega); omega
      · subst h; omega
      · by_cases h' : j = i + 1
        · subst h'; omega
        · obtain ⟨a1, a2, a3⟩ := sorted_chain hs' j (i + 1) (by omega) hj; omega
    obtain ⟨k, hk, rfl⟩ := key hno (fun k => k = i + 1) (fun k _ g2 g3 => by
      have hk1 : i < k := by
        apply Nat.lt_of_not_le
        intro hle
        have := (rfCmp_gt_iff b t pc i).1 (g3 i hle (by omega))
        omega
      have hk2 : k ≤ i + 1 := by
        apply Nat.le_of_not_lt
        intro hlt
        have := (rfCmp_lt_iff b t pc (i + 1)).1 (g2 (i + 1) hlt)
        omega
      omega)
    exact hk

/-- On sorted tables `index_of` agrees with the reference lookup (linear scan for the covering record). -/
theorem C15_index_of_eq_linear (b : Bytes) (t : Ref) (hs : checkSorted b t = true) (pc : Nat) :
    (∀ i, Spec.linearLookup b t pc = some i ↔ indexOf b t pc = .found i) ∧
    (Spec.linearLookup b t pc = none ↔ ∃ k, indexOf b t pc = .notFound k) := by
  have hs' := (checkSorted_iff b t).1 hs
  have fwd : ∀ i, Spec.linearLookup b t pc = some i → indexOf b t pc = .found i := by
    intro i h
    obtain ⟨h1, h2⟩ := linearLookup_some h
    exact (C15_index_of_sorted b t hs pc i).2 ⟨h1, h2⟩
  refine ⟨fun i => ⟨fwd i, ?_⟩, ?_, ?_⟩
  · intro h
    obtain ⟨h1, h2, _⟩ := C15_index_of_sound b t pc i h
    cases hl : Spec.linearLookup b t pc with
    | none => exact absurd h2 (linearLookup_none hl i h1)
    | some j =>
      obtain ⟨g1, g2⟩ := linearLookup_some hl
      rw [covers_unique hs' g1 h1 g2 h2]
  · intro h
    cases hi : indexOf b t pc with
    | found i =>
      obtain ⟨h1, h2, _⟩ := C15_index_of_sound b t pc i hi
      exact absurd h2 (linearLookup_none h i h1)
    | notFound k => exact ⟨k, rfl⟩
  · rintro ⟨k, hk⟩
    cases hl : Spec.linearLookup b t pc with
    | none => rfl
    | some j => rw [fwd j hl] at hk; cases hk

/-- On sorted tables `index_of` is the textbook binary search with the closure of `index_of`. -/
theorem C15_index_of_eq_reference (b : Bytes) (t : Ref) (hs : checkSorted b t = true) (pc : Nat) :
    indexOf b t pc = Spec.bsearchRef (rfCmp b t pc) 0 (excCount t) := by
  have hs' := (checkSorted_iff b t).1 hs
  apply (C15_bsearch_eq_reference _ _ (rfCmp_mono hs' pc)).2.2
  intro i j hi hj ci cj
  exact covers_unique hs' hi hj ((rfCmp_eq_iff b t pc i).1 ci) ((rfCmp_eq_iff b t pc j).1 cj)

/-- The sortedness hypothesis is needed: on an unsorted table a covered address can be missed
(records `[10,20)`, `[0,5)`; `pc = 12` lies in record 0, the search answers `Err(2)`). -/
theorem C15_index_of_unsorted_may_miss :
    let b : Bytes := #[10, 0, 0, 0, 20, 0, 0, 0, 0, 0, 0, 0, 0, 0, 0, 0, 5, 0, 0, 0, 0, 0, 0, 0]
    let t : Ref := ⟨0, 24, 4⟩
    checkSorted b t = false ∧ Spec.Covers b t 0 12 ∧ indexOf b t 12 = .notFound 2 := by
  decide +kernel

/-- `lookup_function_entry` never panics (the index handed to `&self.image[index]` is in range) and
returns the record `index_of` found; the reference lies inside the table. -/
theorem C15_lookup_function_entry (b : Bytes) (t : Ref) (pc : Nat) :
    (∀ i, indexOf b t pc = .found i → lookupFunctionEntry b t pc = .ok (some ⟨t.off + 12 * i, 12, 4⟩) ∧
      t.off + 12 * i + 12 ≤ t.off + t.len) ∧
    (∀ k, indexOf b t pc = .notFound k → lookupFunctionEntry b t pc = .ok none) := by
  unfold lookupFunctionEntry
  refine ⟨fun i h => ?_, fun k h => by rw [h]⟩
  obtain ⟨h1, _⟩ := bsearchBy_found _ _ i h
  rw [h]
  simp only
  rw [if_pos h1]
  unfold excCount at h1
  exact ⟨rfl, by omega⟩

/-- `Function::bytes`: `End − Begin` bytes at RVA `Begin`; `Overflow` when `Begin > End`. -/
theorem C15_function_bytes (v : View) (t : Ref) (i : Nat) :
    (∀ r, fnBytes v t i = .ok r ↔ rfBegin v.b t i ≤ rfEnd v.b t i ∧
      ∃ s, v.at (.rva (rfBegin v.b t i)) (rfEnd v.b t i - rfBegin v.b t i) 1 = .ok s ∧
        r = ⟨s.off, rfEnd v.b t i - rfBegin v.b t i, 1⟩) ∧
    (rfBegin v.b t i > rfEnd v.b t i → fnBytes v t i = .err .overflow) := by
  unfold fnBytes
  refine ⟨fun r => ?_, fun h => by rw [if_pos h]⟩
  by_cases h : rfBegin v.b t i > rfEnd v.b t i
  · rw [if_pos h]
    constructor
    · intro hh; cases hh
    · intro hh; omega
  · rw [if_neg h, C05_derva_slice]
    have hl := le32_lt v.b (rfOff t i + 4)
    unfold rfEnd at *
    simp only [Nat.one_mul]
    constructor
    · rintro ⟨_, s, h1, h2⟩; exact ⟨by omega, s, h1, h2⟩
    · rintro ⟨_, s, h1, h2⟩; exact ⟨by omega, s, h1, h2⟩

/-- `Function::unwind_info` + `UnwindInfo::unwind_codes`: the 4-byte UNWIND_INFO at RVA `UnwindData`
followed by `CountOfCodes` 2-byte codes, all inside the buffer; the `from_raw_parts` of `unwind_codes`
is covered by the size check of `unwind_info` (no `ub`). -/
theorem C15_unwind_info (v : View) (t : Ref) (i : Nat) :
    OkOrErr (unwindInfo v t i) ∧
    ∀ im, unwindInfo v t i = .ok im → RefOK v.img im ∧ im.len = 4 ∧
      unwindCodes v im = .ok ⟨im.off + 4, 2 * byteAt v.b (im.off + 2), 1⟩ ∧
      RefOK v.img ⟨im.off + 4, 2 * byteAt v.b (im.off + 2), 1⟩ :=
  unwindInfo_safe v t i

/-- **`Function::unwind_info`, exactly.**  With `s` the readable bytes at RVA `UnwindData` (`Pe::slice` with minimum
4 and alignment 1 = `align_of::<UNWIND_INFO>()`; `View.at`, C04 / C05): the answer is `Ok` iff that window exists and
holds the 4-byte header plus `CountOfCodes` (the byte at +2) 2-byte codes, and the UNWIND_INFO handed out is the
FIRST 4 bytes of the window; a window too short for the declared codes is `Bounds`; when the RVA does not resolve, the
error of the resolution (`Null` for `UnwindData = 0`). -/
theorem C15_unwind_info_iff (v : View) (t : Ref) (i : Nat) :
    (∀ im, unwindInfo v t i = .ok im ↔
      ∃ s, v.at (.rva (rfUnwind v.b t i)) 4 1 = .ok s ∧ im = ⟨s.off, 4, 1⟩ ∧
        4 + 2 * byteAt v.b (s.off + 2) ≤ s.len) ∧
    (∀ s, v.at (.rva (rfUnwind v.b t i)) 4 1 = .ok s → s.len < 4 + 2 * byteAt v.b (s.off + 2) →
      unwindInfo v t i = .err .bounds) ∧
    (∀ e, v.at (.rva (rfUnwind v.b t i)) 4 1 = .err e → unwindInfo v t i = .err e) ∧
    (rfUnwind v.b t i = 0 → unwindInfo v t i = .err .null) := by
  refine ⟨unwindInfo_ok_iff v t i, (unwindInfo_errors v t i).1, (unwindInfo_errors v t i).2, fun h0 => ?_⟩
  apply (unwindInfo_errors v t i).2
  rw [h0]
  exact (C05_null v 4 1).1

/-- … in a MAPPED view the window starts at buffer offset `UnwindData` and runs to the end of the image: the
UNWIND_INFO is at offset `UnwindData`, and it is returned iff header and codes end inside the image. -/
theorem C15_unwind_info_mapped (v : View) (hk : v.kind = .view) (t : Ref) (i : Nat) (im : Ref) :
    unwindInfo v t i = .ok im ↔
      rfUnwind v.b t i ≠ 0 ∧
      rfUnwind v.b t i + 4 + 2 * byteAt v.b (rfUnwind v.b t i + 2) ≤ v.b.size ∧
      im = ⟨rfUnwind v.b t i, 4, 1⟩ := by
  rw [unwindInfo_ok_iff]
  have e : v.at (.rva (rfUnwind v.b t i)) 4 1 = sliceSection v.img (rfUnwind v.b t i) 4 1 := by
    unfold View.at View.slice; rw [hk]
  rw [e, sliceSection_eq]
  have hsz : v.b.size = v.img.bytes.size := rfl
  by_cases h0 : rfUnwind v.b t i = 0
  · rw [if_pos h0]
    constructor
    · rintro ⟨s, hs, _⟩; cases hs
    · rintro ⟨h, _⟩; exact absurd h0 h
  · rw [if_neg h0, if_pos isPow2_1, if_pos (Nat.mod_one _)]
    by_cases hb : rfUnwind v.b t i ≤ v.img.bytes.size ∧ v.img.bytes.size - rfUnwind v.b t i ≥ 4
    · rw [if_pos hb]
      constructor
      · rintro ⟨s, hs, rfl, hle⟩
        cases hs
        simp only at hle
        exact ⟨h0, by omega, rfl⟩
      · rintro ⟨_, hle, rfl⟩
        exact ⟨_, rfl, rfl, by simp only; omega⟩
    · rw [if_neg hb]
      constructor
      · rintro ⟨s, hs, _⟩; cases hs
      · rintro ⟨_, hle, _⟩; omega

/-- The bit fields of UNWIND_INFO against the byte values: `version` / `flags` are the low 3 / high 5 bits of byte 0
(`VersionFlags & 0b111`, `>> 3`), `size_of_prolog` is byte 1, `CountOfCodes` byte 2, `frame_register` / `frame_offset`
the low / high nibble of byte 3 (`FrameRegisterOffset & 0b1111`, `>> 4`); the two bytes are recovered from their
fields. -/
theorem C15_unwind_bitfields (b : Bytes) (im : Ref) :
    uwVersion b im = byteAt b im.off &&& 0b00000111 ∧
    uwFlags b im = byteAt b im.off >>> 3 ∧
    uwSizeOfProlog b im = byteAt b (im.off + 1) ∧
    uwCountOfCodes b im = byteAt b (im.off + 2) ∧
    uwFrameRegister b im = byteAt b (im.off + 3) &&& 0b00001111 ∧
    uwFrameOffset b im = byteAt b (im.off + 3) >>> 4 ∧
    byteAt b im.off = uwVersion b im + 8 * uwFlags b im ∧ uwVersion b im < 8 ∧ uwFlags b im < 32 ∧
    byteAt b (im.off + 3) = uwFrameRegister b im + 16 * uwFrameOffset b im ∧
    uwFrameRegister b im < 16 ∧ uwFrameOffset b im < 16 := by
  have h0 := byteAt_lt b im.off
  have h3 := byteAt_lt b (im.off + 3)
  have a3 : byteAt b im.off &&& 0b00000111 = byteAt b im.off % 8 := Nat.and_two_pow_sub_one_eq_mod _ 3
  have a4 : byteAt b (im.off + 3) &&& 0b00001111 = byteAt b (im.off + 3) % 16 := Nat.and_two_pow_sub_one_eq_mod _ 4
  have s3 : byteAt b im.off >>> 3 = byteAt b im.off / 8 := by rw [Nat.shiftRight_eq_div_pow]
  have s4 : byteAt b (im.off + 3) >>> 4 = byteAt b (im.off + 3) / 16 := by rw [Nat.shiftRight_eq_div_pow]
  unfold uwVersion uwFlags uwSizeOfProlog uwCountOfCodes uwFrameRegister uwFrameOffset
  rw [a3, a4, s3, s4]
  refine ⟨rfl, rfl, rfl, rfl, rfl, rfl, ?_, ?_, ?_, ?_, ?_, ?_⟩ <;> omega

/-- Instances: PE32 and PE32+ mapped views (`UnwindData` 312 / 328, one unwind code each); `VersionFlags = 0x19` is
version 1 with flags 3, `FrameRegisterOffset = 0x35` register 5 with offset 3; with the image ending 304 bytes after the
header, `CountOfCodes = 150` (4 + 300 bytes) still fits and 151 is `Bounds`. -/
example :
    demoView.at (.rva (rfUnwind demoView.b ⟨320, 36, 4⟩ 0)) 4 1 = .ok ⟨312, 304, 1⟩ ∧
    unwindInfo demoView ⟨320, 36, 4⟩ 0 = .ok ⟨312, 4, 1⟩ ∧ uwCountOfCodes demoBytes ⟨312, 4, 1⟩ = 1 ∧
    demoView64.at (.rva (rfUnwind demoView64.b ⟨336, 24, 4⟩ 0)) 4 1 = .ok ⟨328, 336, 1⟩ ∧
    unwindInfo demoView64 ⟨336, 24, 4⟩ 0 = .ok ⟨328, 4, 1⟩ ∧
    (let b := (demoBytes.set! 312 0x19).set! 315 0x35
     uwVersion b ⟨312, 4, 1⟩ = 1 ∧ uwFlags b ⟨312, 4, 1⟩ = 3 ∧ uwSizeOfProlog b ⟨312, 4, 1⟩ = 2 ∧
     uwFrameRegister b ⟨312, 4, 1⟩ = 5 ∧ uwFrameOffset b ⟨312, 4, 1⟩ = 3) ∧
    unwindInfo ⟨⟨demoBytes.set! 314 150, 0⟩, .pe32, .view, 0x400000⟩ ⟨320, 36, 4⟩ 0 = .ok ⟨312, 4, 1⟩ ∧
    unwindInfo ⟨⟨demoBytes.set! 314 151, 0⟩, .pe32, .view, 0x400000⟩ ⟨320, 36, 4⟩ 0 = .err .bounds ∧
    -- the hypothesis of `C15_unwind_info_mapped`; record 1 has `UnwindData` = 0: `Null`; and the same bytes as a FILE
    -- view (no section maps RVA 312): the error of the resolution
    demoView.kind = .view ∧ demoView64.kind = .view ∧
    rfUnwind demoBytes ⟨320, 36, 4⟩ 1 = 0 ∧ unwindInfo demoView ⟨320, 36, 4⟩ 1 = .err .null ∧
    demoFile.kind = .file ∧ demoFile.at (.rva 312) 4 1 = .err .bounds ∧
    unwindInfo demoFile ⟨320, 36, 4⟩ 0 = .err .bounds := by
  decide +kernel

/-! ## debug directory -/

/-- The directory is `Size / 28` IMAGE_DEBUG_DIRECTORY records at the directory's RVA; `Invalid` when
`Size` is not a multiple of 28, `Null` without a data-directory slot and for a zero RVA. -/
theorem C15_debug_entries (v : View) :
    (∀ t, debugTryFrom v = .ok t ↔
      ∃ va size, v.dataDir 6 = some (va, size) ∧ Spec.recordCount size 28 = .ok (debugCount t) ∧
        ∃ s, v.at (.rva va) size 4 = .ok s ∧ t = ⟨s.off, size, 4⟩) ∧
    (v.dataDir 6 = none → debugTryFrom v = .err .null) ∧
    (∀ va size, v.dataDir 6 = some (va, size) → size % 28 ≠ 0 → debugTryFrom v = .err .invalid) ∧
    (∀ size, v.dataDir 6 = some (0, size) → size % 28 = 0 → debugTryFrom v = .err .null) := by
  rw [debugTryFrom_eq]
  refine ⟨fun t => ?_, tableTryFrom_errors v 6 28⟩
  rw [tableTryFrom_ok_iff v 6 28 (by decide) t]
  unfold Spec.recordCount debugCount
  constructor
  · rintro ⟨va, size, h1, h2, s, h3, rfl⟩
    exact ⟨va, size, h1, by rw [if_pos h2], s, h3, rfl⟩
  · rintro ⟨va, size, h1, h2, s, h3, rfl⟩
    refine ⟨va, size, h1, ?_, s, h3, rfl⟩
    by_cases hm : size % 28 = 0
    · exact hm
    · rw [if_neg hm] at h2; cases h2

/-- `Dir::data`: `SizeOfData` bytes at `PointerToRawData` (file view) / `AddressOfRawData` (mapped view),
`None` when that window leaves the buffer. -/
theorem C15_debug_data (v : View) (d : Nat) :
    dirData v d = (Spec.rawDataWindow v.kind v.b d).map (fun w => (⟨w.1, w.2, 1⟩ : Ref)) :=
  dirData_eq_spec v d

/-- FILE view: the raw data of the entry is found through `PointerToRawData` (352), not `AddressOfRawData`
(0x1000); the same bytes taken as a mapped view have no raw data for that entry (0x1000 + 22 is past the buffer). -/
example :
    demoFile32.kind = .file ∧ debugTryFrom demoFile32 = .ok ⟨376, 28, 4⟩ ∧
    ddAddressOfRawData demoFileBytes 376 = 0x1000 ∧ ddPointerToRawData demoFileBytes 376 = 352 ∧
    dirData demoFile32 376 = some ⟨352, 22, 1⟩ ∧ Spec.rawDataWindow .file demoFileBytes 376 = some (352, 22) ∧
    dirData demoFileAsView 376 = none ∧
    dirEntry demoFile32 376 = .ok (.codeView (.cv20 ⟨352, 16, 4⟩ ⟨368, 6, 1⟩)) ∧
    pdbFileName demoFile32 ⟨376, 28, 4⟩ = some ⟨368, 6, 1⟩ := by
  decide +kernel

/-- A CodeView 2.0 record ("NB10", Offset, TimeDateStamp, Age, NUL-terminated path of `n` bytes) in a
dword-aligned raw-data window decodes to the 16-byte header at the window start and the path including
its NUL; the accessors read the documented offsets: signature, age, TIMESTAMP (and Offset); there is no GUID. -/
theorem C15_codeview_nb10 (v : View) (d : Nat) (data : Ref) (hd : dirData v d = some data)
    (hal : (v.img.base + data.off) % 4 = 0) (n : Nat) (h : Spec.IsNB10 v.b data.off data.len n) :
    ∃ cv, codeView v d = .ok cv ∧ cv = .cv20 ⟨data.off, 16, 4⟩ ⟨data.off + 16, n + 1, 1⟩ ∧
      cv.age v.b = Spec.nb10Age v.b data.off ∧ cv.format = ⟨data.off, 4, 1⟩ ∧
      cv.name = ⟨data.off + 16, n + 1, 1⟩ ∧
      cv.timestamp v.b = some (Spec.nb10TimeDateStamp v.b data.off) ∧
      cv.offset v.b = some (Spec.nb10Offset v.b data.off) ∧
      cv.guidRef = none ∧ cv.cvSignature v.b = sigNB10 :=
  ⟨_, codeView_of_nb10 v d data hd hal n h, rfl, rfl, rfl, rfl, rfl, rfl, rfl, sig_nb10 h.sig⟩

/-- NB10 instances: the second debug entry of the PE32+ mapped view `demoView64` ("c.pdb") and the entry of the
FILE view `demoFile32` ("d.pdb", reached through `PointerToRawData`); the theorem applied to them -/
example : Spec.IsNB10 demoBytes64 392 22 5 :=
  ⟨by decide +kernel, by decide, ⟨by decide, by decide +kernel, by decide +kernel⟩⟩

example : Spec.IsNB10 demoFileBytes 352 22 5 :=
  ⟨by decide +kernel, by decide, ⟨by decide, by decide +kernel, by decide +kernel⟩⟩

example :
    codeView demoView64 444 = .ok (.cv20 ⟨392, 16, 4⟩ ⟨408, 6, 1⟩) ∧
    (CodeView.cv20 ⟨392, 16, 4⟩ ⟨408, 6, 1⟩).timestamp demoBytes64 = some 0x5F112233 ∧
    (CodeView.cv20 ⟨392, 16, 4⟩ ⟨408, 6, 1⟩).age demoBytes64 = 3 ∧
    codeView demoFile32 376 = .ok (.cv20 ⟨352, 16, 4⟩ ⟨368, 6, 1⟩) ∧
    (CodeView.cv20 ⟨352, 16, 4⟩ ⟨368, 6, 1⟩).timestamp demoFileBytes = some 0x5F445566 ∧
    (CodeView.cv20 ⟨352, 16, 4⟩ ⟨368, 6, 1⟩).age demoFileBytes = 4 := by
  have h64 := C15_codeview_nb10 demoView64 444 ⟨392, 22, 1⟩ (by decide +kernel) (by decide) 5
    ⟨by decide +kernel, by decide, ⟨by decide, by decide +kernel, by decide +kernel⟩⟩
  have hf := C15_codeview_nb10 demoFile32 376 ⟨352, 22, 1⟩ (by decide +kernel) (by decide) 5
    ⟨by decide +kernel, by decide, ⟨by decide, by decide +kernel, by decide +kernel⟩⟩
  obtain ⟨cv, a1, rfl, _⟩ := h64
  obtain ⟨cv', b1, rfl, _⟩ := hf
  exact ⟨a1, by decide +kernel, by decide +kernel, b1, by decide +kernel, by decide +kernel⟩

/-- A CodeView 7.0 record ("RSDS", 16-byte GUID, Age, NUL-terminated path): signature, age, the GUID — the
16 bytes at +4 of the record, inside the buffer and dword aligned — and the path; there is no timestamp. -/
theorem C15_codeview_rsds (v : View) (d : Nat) (data : Ref) (hd : dirData v d = some data)
    (hal : (v.img.base + data.off) % 4 = 0) (n : Nat) (h : Spec.IsRSDS v.b data.off data.len n) :
    ∃ cv, codeView v d = .ok cv ∧ cv = .cv70 ⟨data.off, 24, 4⟩ ⟨data.off + 24, n + 1, 1⟩ ∧
      cv.age v.b = Spec.rsdsAge v.b data.off ∧ cv.format = ⟨data.off, 4, 1⟩ ∧
      cv.name = ⟨data.off + 24, n + 1, 1⟩ ∧
      cv.guidRef = some (Spec.rsdsGuid data.off) ∧ RefOK v.img (Spec.rsdsGuid data.off) ∧
      cv.timestamp v.b = none ∧ cv.offset v.b = none ∧ cv.cvSignature v.b = sigRSDS := by
  refine ⟨_, codeView_of_rsds v d data hd hal n h, rfl, rfl, rfl, rfl, rfl, ?_, rfl, rfl, sig_rsds h.sig⟩
  obtain ⟨hin, _⟩ := dirData_sound hd
  have hfit := h.fits
  unfold Spec.rsdsGuid RefOK
  simp only
  exact ⟨by omega, by omega⟩

/-- RSDS instances: the first debug entry of the PE32 view `demoView` ("a.pdb") and of the PE32+ view `demoView64`
("b.pdb"); the GUID is the 16 bytes 0x11 … 0x20 at 364 -/
example : Spec.IsRSDS demoBytes64 360 30 5 :=
  ⟨by decide +kernel, by decide, ⟨by decide, by decide +kernel, by decide +kernel⟩⟩

example :
    dirData demoView64 416 = some ⟨360, 30, 1⟩ ∧ (demoView64.img.base + 360) % 4 = 0 ∧
    codeView demoView64 416 = .ok (.cv70 ⟨360, 24, 4⟩ ⟨384, 6, 1⟩) ∧
    (CodeView.cv70 ⟨360, 24, 4⟩ ⟨384, 6, 1⟩).guidRef = some ⟨364, 16, 4⟩ ∧ Spec.rsdsGuid 360 = ⟨364, 16, 4⟩ ∧
    (List.range 16).map (fun i => byteAt demoBytes64 (364 + i)) = (List.range 16).map (fun i => 0x11 + i) ∧
    (CodeView.cv70 ⟨360, 24, 4⟩ ⟨384, 6, 1⟩).age demoBytes64 = 9 ∧
    (CodeView.cv70 ⟨360, 24, 4⟩ ⟨384, 6, 1⟩).timestamp demoBytes64 = none ∧
    codeView demoView 428 = .ok (.cv70 ⟨356, 24, 4⟩ ⟨380, 6, 1⟩) ∧
    (CodeView.cv70 ⟨356, 24, 4⟩ ⟨380, 6, 1⟩).guidRef = some ⟨360, 16, 4⟩ := by
  decide +kernel

/-- Conversely whatever `code_view` returns IS such a record: the signature is "NB10" / "RSDS", the header
is the first 16 / 24 bytes of the raw data and the name is the path up to and including its FIRST NUL,
inside the raw data (a path without terminator inside `SizeOfData` is never completed from what follows). -/
theorem C15_codeview_sound (v : View) (d : Nat) (cv : CodeView) (h : codeView v d = .ok cv) :
    ∃ data, dirData v d = some data ∧ (v.img.base + data.off) % 4 = 0 ∧
      ((∃ n, cv = .cv20 ⟨data.off, 16, 4⟩ ⟨data.off + 16, n + 1, 1⟩ ∧ le32 v.b data.off = sigNB10 ∧ 16 ≤ data.len ∧
          Spec.IsCStr v.b (data.off + 16) (data.len - 16) n) ∨
       (∃ n, cv = .cv70 ⟨data.off, 24, 4⟩ ⟨data.off + 24, n + 1, 1⟩ ∧ le32 v.b data.off = sigRSDS ∧ 24 ≤ data.len ∧
          Spec.IsCStr v.b (data.off + 24) (data.len - 24) n)) := by
  unfold codeView at h
  cases hd : dirData v d with
  | none => rw [hd] at h; cases h
  | some bytes =>
    obtain ⟨hin, _⟩ := dirData_sound hd
    rw [hd] at h
    simp only at h
    refine ⟨bytes, rfl, ?_⟩
    by_cases h16 : bytes.len < 16
    · rw [if_pos h16] at h; cases h
    rw [if_neg h16] at h
    by_cases hm : (v.img.base + bytes.off) % 4 ≠ 0
    · rw [if_pos hm] at h; cases h
    rw [if_neg hm] at h
    have hm' : (v.img.base + bytes.off) % 4 = 0 := by omega
    refine ⟨hm', ?_⟩
    rw [rawRef_eq_ok (by omega) (Nat.mod_one _)] at h
    simp only [Out.bind_ok] at h
    by_cases hnb : le32 v.b bytes.off = sigNB10
    · rw [if_pos hnb, if_neg h16, rawRef_eq_ok (by omega) hm'] at h
      simp only [Out.bind_ok] at h
      unfold cstrTail at h
      rw [if_neg (by omega)] at h
      cases hc : cstrFromBytes v.b (bytes.off + 16) (bytes.len - 16) with
      | none => rw [hc] at h; cases h
      | some c =>
        rw [hc] at h
        simp only [Out.bind_ok] at h
        cases h
        obtain ⟨g1, g2, g3, g4, g5⟩ := cstrFromBytes_some hc
        refine .inl ⟨c.len - 1, ?_, hnb, by omega, g5⟩
        have : c = ⟨bytes.off + 16, c.len - 1 + 1, 1⟩ := by
          cases c; simp only at g1 g2 g4 ⊢; subst g1 g4; congr 1; omega
        rw [← this]
    · rw [if_neg hnb] at h
      by_cases hrs : le32 v.b bytes.off = sigRSDS
      · rw [if_pos hrs] at h
        by_cases h24 : bytes.len < 24
        · rw [if_pos h24] at h; cases h
        rw [if_neg h24, rawRef_eq_ok (by omega) hm'] at h
        simp only [Out.bind_ok] at h
        unfold cstrTail at h
        rw [if_neg (by omega)] at h
        cases hc : cstrFromBytes v.b (bytes.off + 24) (bytes.len - 24) with
        | none => rw [hc] at h; cases h
        | some c =>
          rw [hc] at h
          simp only [Out.bind_ok] at h
          cases h
          obtain ⟨g1, g2, g3, g4, g5⟩ := cstrFromBytes_some hc
          refine .inr ⟨c.len - 1, ?_, hrs, by omega, g5⟩
          have : c = ⟨bytes.off + 24, c.len - 1 + 1, 1⟩ := by
            cases c; simp only at g1 g2 g4 ⊢; subst g1 g4; congr 1; omega
          rw [← this]
      · rw [if_neg hrs] at h; cases h

/-- The GUID / timestamp accessors of WHATEVER `code_view` returns (any bytes): a `Cv70` has the GUID at +4 of
its header, inside the raw data, and no timestamp; a `Cv20` has the timestamp dword at +8 and no GUID. -/
theorem C15_codeview_accessors (v : View) (d : Nat) (cv : CodeView) (h : codeView v d = .ok cv) :
    cv.cvSignature v.b = le32 v.b cv.image.off ∧ cv.format = ⟨cv.image.off, 4, 1⟩ ∧
    ((∃ i nm, cv = .cv20 i nm ∧ cv.cvSignature v.b = sigNB10 ∧ cv.guidRef = none ∧
        cv.offset v.b = some (le32 v.b (i.off + 4)) ∧ cv.timestamp v.b = some (le32 v.b (i.off + 8)) ∧
        cv.age v.b = le32 v.b (i.off + 12)) ∨
     (∃ i nm, cv = .cv70 i nm ∧ cv.cvSignature v.b = sigRSDS ∧ cv.timestamp v.b = none ∧ cv.offset v.b = none ∧
        cv.guidRef = some ⟨i.off + 4, 16, 4⟩ ∧ RefOK v.img ⟨i.off + 4, 16, 4⟩ ∧
        cv.age v.b = le32 v.b (i.off + 20))) := by
  refine ⟨rfl, rfl, ?_⟩
  obtain ⟨data, hd, hal, hcases⟩ := C15_codeview_sound v d cv h
  obtain ⟨hin, _⟩ := dirData_sound hd
  rcases hcases with ⟨n, rfl, hsig, h16, _⟩ | ⟨n, rfl, hsig, h24, _⟩
  · exact .inl ⟨_, _, rfl, hsig, rfl, rfl, rfl, rfl⟩
  · refine .inr ⟨_, _, rfl, hsig, rfl, rfl, rfl, ?_, rfl⟩
    unfold RefOK
    simp only
    exact ⟨by omega, by omega⟩

/-- POGO data: records (rva, size, NUL-terminated name padded to a dword boundary) laid out back to back
after the signature dword and filling the data up to less than one minimal record are yielded exactly,
in order, with their names referenced in place. -/
theorem C15_pogo_records (b : Bytes) (image : Ref) (recs : List (Nat × Nat × Nat)) (stop : Nat)
    (h4 : 4 ≤ image.len) (hl : Spec.PogoLayout b (image.off + 4) recs stop)
    (h1 : stop ≤ image.off + 4 * (image.len / 4)) (h2 : image.off + 4 * (image.len / 4) < stop + 12) :
    pgoItems b image = .ok (Spec.pogoExpected (image.off + 4) recs) := by
  unfold pgoItems pgoItemsFrom pgoIterStart
  simp only
  rw [if_pos (by omega)]
  simp only
  have hlen : recs.length < image.len / 4 - 1 + 1 := by
    -- every record takes at least 12 bytes
    have key : ∀ {off stop : Nat} {recs : List (Nat × Nat × Nat)}, Spec.PogoLayout b off recs stop →
        off + 12 * recs.length ≤ stop := by
      intro off stop recs h
      induction h with
      | nil off => simp
      | cons off rva size n rest stop _ _ _ _ _ ih => simp only [List.length_cons]; omega
    have := key hl
    omega
  exact pgoLoop_layout hl (image.len / 4 - 1) _ (by omega) (by omega) hlen

/-- For ANY bytes the POGO iterator terminates without panic (the `&self.image[2 + len + 1..]` reslice is
always in range) and every yielded name lies inside the POGO data. -/
theorem C15_pogo_total (b : Bytes) (image : Ref) :
    ∃ l, pgoItems b image = .ok l ∧
      ∀ it ∈ l, image.off ≤ it.name.off ∧ it.name.off + it.name.len ≤ image.off + 4 * (image.len / 4) ∧
        it.name.align = 1 :=
  pgoItems_safe b image

/-- `Debug::pdb_file_name`: the path of the FIRST entry that decodes as a CodeView record. -/
theorem C15_pdb_file_name (v : View) (t : Ref) (r : Ref) (h : pdbFileName v t = some r) :
    ∃ j cv, j < debugCount t ∧ dirEntry v (debugEntryOff t j) = .ok (.codeView cv) ∧ r = cv.name ∧
      ∀ j', j' < j → ∀ cv', dirEntry v (debugEntryOff t j') ≠ .ok (.codeView cv') := by
  obtain ⟨j, cv, _, h2, h3, h4, h5⟩ := pdbFileNameFrom_some v t _ _ r h
  exact ⟨j, cv, by omega, h3, h4, fun j' hj' => h5 j' (Nat.zero_le _) hj'⟩

/-- `Dir::entry` dispatches on `Type` (2 CodeView, 4 MISC, 13 POGO, anything else the raw data) and, for ANY
entry bytes, answers a value or a typed error whose references are all inside the buffer and aligned:
the manual casts in `code_view`, `dbg` and `pgo` are covered by the preceding length / alignment checks. -/
theorem C15_debug_entry_safe (v : View) (d : Nat) :
    OkOrErr (dirEntry v d) ∧ (∀ e, dirEntry v d = .ok e → Spec.entryRefsOK v.img e) ∧
    (ddType v.b d ≠ 2 → ddType v.b d ≠ 4 → ddType v.b d ≠ 13 → dirEntry v d = .ok (.unknown (dirData v d))) := by
  refine ⟨(dirEntry_safe v d).1, (dirEntry_safe v d).2, ?_⟩
  intro h1 h2 h3
  unfold dirEntry
  simp only
  rw [if_neg h1, if_neg h2, if_neg h3]

/-- **`Dir::entry` dispatches on `Type`, exactly** (`src/pe64/debug.rs`): `IMAGE_DEBUG_TYPE_CODEVIEW` (2) is what
`code_view` answers, wrapped as `Entry::CodeView`; `IMAGE_DEBUG_TYPE_MISC` (4) what `dbg` answers, as `Entry::Dbg`;
`IMAGE_DEBUG_TYPE_POGO` (13) what `pgo` answers, as `Entry::Pgo` — value or error alike (`Spec.wrapEntry`) —; every
other `Type` is `Entry::Unknown` of the raw data, never an error. -/
theorem C15_debug_entry_dispatch (v : View) (d : Nat) :
    (ddType v.b d = Spec.typeCodeView → dirEntry v d = Spec.wrapEntry .codeView (codeView v d)) ∧
    (ddType v.b d = Spec.typeMisc → dirEntry v d = Spec.wrapEntry .dbg (dbgEntry v d)) ∧
    (ddType v.b d = Spec.typePogo → dirEntry v d = Spec.wrapEntry .pgo (pgoEntry v d)) ∧
    (ddType v.b d ≠ Spec.typeCodeView → ddType v.b d ≠ Spec.typeMisc → ddType v.b d ≠ Spec.typePogo →
      dirEntry v d = .ok (.unknown (dirData v d))) := by
  unfold Spec.typeCodeView Spec.typeMisc Spec.typePogo dirEntry
  simp only
  refine ⟨fun h => ?_, fun h => ?_, fun h => ?_, fun h1 h2 h3 => ?_⟩
  · rw [if_pos h]; exact wrapEntry_eq_bind _ _
  · rw [if_neg (by omega), if_pos h]; exact wrapEntry_eq_bind _ _
  · rw [if_neg (by omega), if_neg (by omega), if_pos h]; exact wrapEntry_eq_bind _ _
  · rw [if_neg h1, if_neg h2, if_neg h3]

/-- **`pgo`, exactly** (`Entry::Pgo`): `Ok` iff the raw data exists, is at least one dword long and dword aligned in
memory; the `Pgo` image is then the WHOLE dwords of the raw data (`SizeOfData / 4` of them, a ragged tail dropped),
starting at the raw data.  Otherwise: no raw data or fewer than 4 bytes ⇒ `Bounds`, misplaced ⇒ `Misaligned`. -/
theorem C15_pgo_entry_iff (v : View) (d : Nat) :
    (∀ r, pgoEntry v d = .ok r ↔
      ∃ data, dirData v d = some data ∧ 4 ≤ data.len ∧ (v.img.base + data.off) % 4 = 0 ∧
        r = ⟨data.off, 4 * (data.len / 4), 4⟩) ∧
    (dirData v d = none → pgoEntry v d = .err .bounds) ∧
    (∀ data, dirData v d = some data → data.len < 4 → pgoEntry v d = .err .bounds) ∧
    (∀ data, dirData v d = some data → 4 ≤ data.len → (v.img.base + data.off) % 4 ≠ 0 →
      pgoEntry v d = .err .misaligned) :=
  ⟨pgoEntry_ok_iff v d, pgoEntry_errors v d⟩

/-- **`dbg`, exactly** (`Entry::Dbg`, IMAGE_DEBUG_MISC): `Ok` iff the raw data exists, holds the 12-byte header
(`size_of::<IMAGE_DEBUG_MISC>()`) and is dword aligned in memory; the image is the first 12 bytes of the raw data, whose
`DataType` / `Length` / `Unicode` fields are the dwords at +0 / +4 and the byte at +8. -/
theorem C15_dbg_entry_iff (v : View) (d : Nat) :
    (∀ r, dbgEntry v d = .ok r ↔
      ∃ data, dirData v d = some data ∧ 12 ≤ data.len ∧ (v.img.base + data.off) % 4 = 0 ∧ r = ⟨data.off, 12, 4⟩) ∧
    (dirData v d = none → dbgEntry v d = .err .bounds) ∧
    (∀ data, dirData v d = some data → data.len < 12 → dbgEntry v d = .err .bounds) ∧
    (∀ data, dirData v d = some data → 12 ≤ data.len → (v.img.base + data.off) % 4 ≠ 0 →
      dbgEntry v d = .err .misaligned) ∧
    (∀ m, miscDataType v.b m = le32 v.b m ∧ miscLength v.b m = le32 v.b (m + 4) ∧ miscUnicode v.b m = byteAt v.b (m + 8)) :=
  ⟨dbgEntry_ok_iff v d, (dbgEntry_errors v d).1, (dbgEntry_errors v d).2.1, (dbgEntry_errors v d).2.2,
    fun _ => ⟨rfl, rfl, rfl⟩⟩

/-- **From the directory entry to the records.**  A debug entry of `Type` POGO whose raw data (`Dir::data`: `SizeOfData`
bytes at `PointerToRawData` / `AddressOfRawData`, `C15_debug_data`) is dword aligned and holds, after the signature
dword, records (rva, size, NUL-terminated name padded to a dword boundary) laid out back to back and filling the whole
dwords of the data up to less than one minimal record: `entry()` is `Entry::Pgo` over the whole dwords of the raw data
and iterating it yields exactly those records, in order — their rva, size and name (referenced in place). -/
theorem C15_debug_entry_pogo_records (v : View) (d : Nat) (data : Ref) (recs : List (Nat × Nat × Nat)) (stop : Nat)
    (hty : ddType v.b d = Spec.typePogo) (hd : dirData v d = some data) (h4 : 4 ≤ data.len)
    (hal : (v.img.base + data.off) % 4 = 0)
    (hl : Spec.PogoLayout v.b (data.off + 4) recs stop)
    (h1 : stop ≤ data.off + 4 * (data.len / 4)) (h2 : data.off + 4 * (data.len / 4) < stop + 12) :
    dirEntry v d = .ok (.pgo ⟨data.off, 4 * (data.len / 4), 4⟩) ∧
    pgoItems v.b ⟨data.off, 4 * (data.len / 4), 4⟩ = .ok (Spec.pogoExpected (data.off + 4) recs) ∧
    (Spec.pogoExpected (data.off + 4) recs).map (fun it => (it.rva, it.size, it.name.len - 1)) = recs := by
  have he : pgoEntry v d = .ok ⟨data.off, 4 * (data.len / 4), 4⟩ :=
    (pgoEntry_ok_iff v d _).2 ⟨data, hd, h4, hal, rfl⟩
  refine ⟨?_, ?_, ?_⟩
  · rw [(C15_debug_entry_dispatch v d).2.2.1 hty, he]; rfl
  · apply C15_pogo_records v.b ⟨data.off, 4 * (data.len / 4), 4⟩ recs stop
    · simp only; omega
    · exact hl
    · simp only; omega
    · simp only; omega
  · -- the expected items carry the records' (rva, size, name length)
    have key : ∀ (recs : List (Nat × Nat × Nat)) (off : Nat),
        (Spec.pogoExpected off recs).map (fun it => (it.rva, it.size, it.name.len - 1)) = recs := by
      intro recs
      induction recs with
      | nil => intro off; rfl
      | cons r rest ih =>
        intro off
        obtain ⟨rva, size, n⟩ := r
        simp only [Spec.pogoExpected, List.map_cons, Nat.add_sub_cancel, ih]
    exact key recs _

/-- … and the same for `Type` MISC: the IMAGE_DEBUG_MISC header at the start of the raw data. -/
theorem C15_debug_entry_misc (v : View) (d : Nat) (data : Ref)
    (hty : ddType v.b d = Spec.typeMisc) (hd : dirData v d = some data) (h12 : 12 ≤ data.len)
    (hal : (v.img.base + data.off) % 4 = 0) :
    dirEntry v d = .ok (.dbg ⟨data.off, 12, 4⟩) ∧ RefOK v.img ⟨data.off, 12, 4⟩ := by
  have he : dbgEntry v d = .ok ⟨data.off, 12, 4⟩ := (dbgEntry_ok_iff v d _).2 ⟨data, hd, h12, hal, rfl⟩
  refine ⟨?_, (dbgEntry_safe v d).2 _ he |>.1⟩
  rw [(C15_debug_entry_dispatch v d).2.1 hty, he]; rfl

/-- Instances of the hypotheses of `C15_debug_entry_pogo_records` / `_misc`.  PE32 mapped view `demoView`: the second
entry (at 456) is POGO data at 388 (40 bytes: "LTCG", two records).  PE32+ mapped view and PE32 FILE view: the NB10
entry of `demoBytes64` (at 444) / `demoFileBytes` (at 376, raw data through `PointerToRawData` = 352) with its `Type`
rewritten to 13 and to 4 — the 22 raw bytes read as POGO data are five whole dwords: a signature and one record
(rva = the old `Offset`, size = the old `TimeDateStamp`, the one-character name "\x03" = the old `Age`). -/
example :
    ddType demoView.b 456 = Spec.typePogo ∧ dirData demoView 456 = some ⟨388, 40, 1⟩ ∧
    (demoView.img.base + 388) % 4 = 0 ∧
    dirEntry demoView 456 = .ok (.pgo ⟨388, 40, 4⟩) ∧
    pgoItems demoView.b ⟨388, 40, 4⟩ = .ok (Spec.pogoExpected 392 [(4096, 16, 5), (8192, 32, 9)]) := by
  have h := C15_debug_entry_pogo_records demoView 456 ⟨388, 40, 1⟩ [(4096, 16, 5), (8192, 32, 9)] 428
    (by decide +kernel) (by decide +kernel) (by decide) (by decide)
    (.cons 392 4096 16 5 _ 428 (by decide +kernel) (by decide +kernel) (by decide +kernel) (by decide +kernel)
      (.cons 408 8192 32 9 _ 428 (by decide +kernel) (by decide +kernel) (by decide +kernel) (by decide +kernel)
        (.nil 428)))
    (by decide) (by decide)
  exact ⟨by decide +kernel, by decide +kernel, by decide, h.1, h.2.1⟩

example :
    let v64 : View := ⟨⟨demoBytes64.set! 456 13, 0⟩, .pe64, .view, 0x140000000⟩
    let f32 : View := ⟨⟨demoFileBytes.set! 388 13, 0⟩, .pe32, .file, 0x400000⟩
    (dirEntry v64 444 = .ok (.pgo ⟨392, 20, 4⟩) ∧
      pgoItems v64.b ⟨392, 20, 4⟩ = .ok [⟨0, 0x5F112233, ⟨404, 2, 1⟩⟩]) ∧
    (f32.kind = .file ∧ ddPointerToRawData f32.b 376 = 352 ∧ dirEntry f32 376 = .ok (.pgo ⟨352, 20, 4⟩) ∧
      pgoItems f32.b ⟨352, 20, 4⟩ = .ok [⟨0, 0x5F445566, ⟨364, 2, 1⟩⟩]) := by
  intro v64 f32
  have h64 := C15_debug_entry_pogo_records v64 444 ⟨392, 22, 1⟩ [(0, 0x5F112233, 1)] 408
    (by decide +kernel) (by decide +kernel) (by decide) (by decide)
    (.cons 396 0 0x5F112233 1 _ 408 (by decide +kernel) (by decide +kernel) (by decide +kernel) (by decide +kernel)
      (.nil 408))
    (by decide) (by decide)
  have hf := C15_debug_entry_pogo_records f32 376 ⟨352, 22, 1⟩ [(0, 0x5F445566, 1)] 368
    (by decide +kernel) (by decide +kernel) (by decide) (by decide)
    (.cons 356 0 0x5F445566 1 _ 368 (by decide +kernel) (by decide +kernel) (by decide +kernel) (by decide +kernel)
      (.nil 368))
    (by decide) (by decide)
  exact ⟨⟨h64.1, h64.2.1⟩, by decide, by decide +kernel, hf.1, hf.2.1⟩

example :
    let v64 : View := ⟨⟨demoBytes64.set! 456 4, 0⟩, .pe64, .view, 0x140000000⟩
    let f32 : View := ⟨⟨demoFileBytes.set! 388 4, 0⟩, .pe32, .file, 0x400000⟩
    dirEntry v64 444 = .ok (.dbg ⟨392, 12, 4⟩) ∧ miscDataType v64.b 392 = 0x3031424E ∧
    dirEntry f32 376 = .ok (.dbg ⟨352, 12, 4⟩) ∧
    -- the same entries in a buffer at an address that is 2 mod 4: `Misaligned`; with `SizeOfData` cut to 11 / 3: `Bounds`
    dbgEntry ⟨⟨demoBytes64.set! 456 4, 2⟩, .pe64, .view, 0x140000000⟩ 444 = .err .misaligned ∧
    pgoEntry ⟨⟨demoBytes64.set! 456 13, 2⟩, .pe64, .view, 0x140000000⟩ 444 = .err .misaligned ∧
    dbgEntry ⟨⟨demoBytes64.set! 460 11, 0⟩, .pe64, .view, 0x140000000⟩ 444 = .err .bounds ∧
    pgoEntry ⟨⟨demoBytes64.set! 460 3, 0⟩, .pe64, .view, 0x140000000⟩ 444 = .err .bounds := by
  intro v64 f32
  have h64 := C15_debug_entry_misc v64 444 ⟨392, 22, 1⟩ (by decide +kernel) (by decide +kernel) (by decide) (by decide)
  have hf := C15_debug_entry_misc f32 376 ⟨352, 22, 1⟩ (by decide +kernel) (by decide +kernel) (by decide) (by decide)
  exact ⟨h64.1, by decide +kernel, hf.1, by decide +kernel, by decide +kernel, by decide +kernel, by decide +kernel⟩

/-! ## TLS directory -/

/-- The IMAGE_TLS_DIRECTORY (24 bytes / align 4 for PE32, 40 bytes / align 8 for PE32+) at the directory RVA. -/
theorem C15_tls_image (v : View) (t : Ref) :
    tlsTryFrom v = .ok t ↔
      ∃ va size, v.dataDir 9 = some (va, size) ∧
        ∃ s, v.at (.rva va) (tlsSize v.fmt) (tlsAlign v.fmt) = .ok s ∧ t = ⟨s.off, tlsSize v.fmt, tlsAlign v.fmt⟩ := by
  unfold tlsTryFrom
  cases hd : v.dataDir 9 with
  | none =>
    simp only
    constructor
    · intro h; cases h
    · rintro ⟨va, size, h, _⟩; cases h
  | some p =>
    obtain ⟨va, size⟩ := p
    simp only
    rw [C05_derva]
    constructor
    · rintro ⟨s, h1, h2⟩; exact ⟨va, size, rfl, s, h1, h2⟩
    · rintro ⟨va', size', h, s, h1, h2⟩; cases h; exact ⟨s, h1, h2⟩

/-- `raw_data`: `End − Start` bytes at virtual address `Start`; `Invalid` when `End < Start`. -/
theorem C15_tls_raw_data (v : View) (t : Ref) :
    (∀ r, tlsRawData v t = .ok r ↔ tlsStart v t ≤ tlsEnd v t ∧
      ∃ s, v.at (.va (tlsStart v t)) (tlsEnd v t - tlsStart v t) 1 = .ok s ∧
        r = ⟨s.off, tlsEnd v t - tlsStart v t, 1⟩) ∧
    (tlsEnd v t < tlsStart v t → tlsRawData v t = .err .invalid) := by
  unfold tlsRawData
  refine ⟨fun r => ?_, fun h => by rw [if_pos h]⟩
  by_cases h : tlsStart v t > tlsEnd v t
  · rw [if_pos h]
    constructor
    · intro hh; cases hh
    · intro hh; omega
  · rw [if_neg h, C05_derva_slice]
    have hl : tlsEnd v t < 18446744073709551616 := by
      unfold tlsEnd ptrAt leN
      cases v.fmt
      · have := le32_lt v.b (t.off + Fmt.ptrSize .pe32); simp only [Fmt.ptrSize] at *; omega
      · have := le64_lt v.b (t.off + Fmt.ptrSize .pe64); simp only [Fmt.ptrSize] at *; omega
    simp only [Nat.one_mul]
    constructor
    · rintro ⟨_, s, h1, h2⟩; exact ⟨by omega, s, h1, h2⟩
    · rintro ⟨_, s, h1, h2⟩; exact ⟨by omega, s, h1, h2⟩

/-- `slot`: the aligned dword at virtual address `AddressOfIndex`. -/
theorem C15_tls_slot (v : View) (t : Ref) (r : Ref) :
    tlsSlot v t = .ok r ↔ ∃ s, v.at (.va (tlsIndex v t)) 4 4 = .ok s ∧ r = ⟨s.off, 4, 4⟩ := by
  unfold tlsSlot
  exact C05_derva v _ 4 4 r

/-- `callbacks`: the pointer-sized entries at virtual address `AddressOfCallBacks` up to (not including)
the FIRST zero entry; if the readable bytes end before a zero entry: `Bounds` — never a truncated list,
never a read past the section / image. -/
theorem C15_tls_callbacks (v : View) (t : Ref) (s : Ref)
    (hat : v.at (.va (tlsCallBacks v t)) 0 v.fmt.ptrSize = .ok s) :
    (∀ r, tlsCallbacks v t = .ok r →
      ∃ l, Spec.vaListUntilZero v.b s.off v.fmt.ptrSize (s.len / v.fmt.ptrSize) = some l ∧
        r = ⟨s.off, l.length * v.fmt.ptrSize, v.fmt.ptrSize⟩ ∧
        l = (List.range l.length).map fun j => leN v.b (s.off + j * v.fmt.ptrSize) v.fmt.ptrSize) ∧
    (Spec.vaListUntilZero v.b s.off v.fmt.ptrSize (s.len / v.fmt.ptrSize) = none →
      tlsCallbacks v t = .err .bounds) := by
  have hps : 1 ≤ v.fmt.ptrSize := by cases v.fmt <;> decide
  obtain ⟨h1, h2, _⟩ := C05_derva_slice_s v (.va (tlsCallBacks v t)) v.fmt.ptrSize v.fmt.ptrSize 0 hps s hat
  refine ⟨?_, ?_⟩
  · intro r hr
    obtain ⟨n, rfl, g1, g2, g3⟩ := h1 r hr
    have ha : n + 1 ≤ s.len / v.fmt.ptrSize := (Nat.le_div_iff_mul_le (by omega)).2 g1
    refine ⟨_, vaListUntilZero_eq v.b v.fmt.ptrSize n s.off _ ha g2 g3, by simp, by simp⟩
  · intro hn
    apply h2
    intro j hj hz
    -- a zero entry inside the window would terminate the specification's list
    have ha : j + 1 ≤ s.len / v.fmt.ptrSize := (Nat.le_div_iff_mul_le (by omega)).2 hj
    -- take the first zero entry ≤ j
    have key : ∀ m, m ≤ j → (∀ i, i < m → leN v.b (s.off + i * v.fmt.ptrSize) v.fmt.ptrSize ≠ 0) → False := by
      intro m
      induction hm : j - m generalizing m with
      | zero =>
        intro hmj hall
        have : m = j := by omega
        subst this
        rw [vaListUntilZero_eq v.b v.fmt.ptrSize m s.off _ ha hz hall] at hn
        cases hn
      | succ k ih =>
        intro hmj hall
        by_cases hzm : leN v.b (s.off + m * v.fmt.ptrSize) v.fmt.ptrSize = 0
        · rw [vaListUntilZero_eq v.b v.fmt.ptrSize m s.off _ (by omega) hzm hall] at hn
          cases hn
        · exact ih (m + 1) (by omega) (by omega) (fun i hi => by
            by_cases him : i = m
            · subst him; exact hzm
            · exact hall i (by omega))
    exact key 0 (Nat.zero_le _) (fun i hi => by omega)

/-- Completeness of `callbacks`: the answer is DETERMINED by the bytes.  With `s` the readable bytes at virtual
address `AddressOfCallBacks`: when the specification's list exists (a zero pointer among the whole pointers of
`s`) the answer is exactly that list — `l.length` pointers at the start of `s`, whose values are `l` —; when it
does not, `Bounds`; when the address does not resolve, the error of the resolution (`Null` for a zero address).
So a decoder that gave up on a well-formed list (or returned a shorter / longer one) would contradict this. -/
theorem C15_tls_callbacks_complete (v : View) (t : Ref) :
    (∀ s, v.at (.va (tlsCallBacks v t)) 0 v.fmt.ptrSize = .ok s →
      tlsCallbacks v t =
        (match Spec.vaListUntilZero v.b s.off v.fmt.ptrSize (s.len / v.fmt.ptrSize) with
         | some l => .ok ⟨s.off, l.length * v.fmt.ptrSize, v.fmt.ptrSize⟩
         | none => .err .bounds) ∧
      ∀ l, Spec.vaListUntilZero v.b s.off v.fmt.ptrSize (s.len / v.fmt.ptrSize) = some l →
        l.length * v.fmt.ptrSize + v.fmt.ptrSize ≤ s.len ∧
        l = (List.range l.length).map fun j => leN v.b (s.off + j * v.fmt.ptrSize) v.fmt.ptrSize) ∧
    (∀ e, v.at (.va (tlsCallBacks v t)) 0 v.fmt.ptrSize = .err e → tlsCallbacks v t = .err e) ∧
    (tlsCallBacks v t = 0 → tlsCallbacks v t = .err .null) := by
  have hps : 1 ≤ v.fmt.ptrSize := by cases v.fmt <;> decide
  refine ⟨fun s hat => ?_, fun e he => dervaSliceS_at_err v _ _ _ 0 e he, fun h0 => ?_⟩
  · have key : ∀ l, Spec.vaListUntilZero v.b s.off v.fmt.ptrSize (s.len / v.fmt.ptrSize) = some l →
        (l.length + 1) * v.fmt.ptrSize ≤ s.len ∧
        leN v.b (s.off + l.length * v.fmt.ptrSize) v.fmt.ptrSize = 0 ∧
        (∀ j, j < l.length → leN v.b (s.off + j * v.fmt.ptrSize) v.fmt.ptrSize ≠ 0) ∧
        l = (List.range l.length).map fun j => leN v.b (s.off + j * v.fmt.ptrSize) v.fmt.ptrSize := by
      intro l hl
      obtain ⟨g1, g2, g3, g4⟩ := vaListUntilZero_some v.b v.fmt.ptrSize _ s.off l hl
      exact ⟨(Nat.le_div_iff_mul_le (by omega)).1 g1, g2, g3, g4⟩
    refine ⟨?_, fun l hl => ?_⟩
    · cases hspec : Spec.vaListUntilZero v.b s.off v.fmt.ptrSize (s.len / v.fmt.ptrSize) with
      | none => exact (C15_tls_callbacks v t s hat).2 hspec
      | some l =>
        obtain ⟨g1, g2, g3, _⟩ := key l hspec
        exact (C05_derva_slice_s_determined v (.va (tlsCallBacks v t)) v.fmt.ptrSize v.fmt.ptrSize 0 hps s hat).1
          l.length g1 g2 g3
    · obtain ⟨g1, _, _, g4⟩ := key l hl
      rw [Nat.succ_mul] at g1
      exact ⟨g1, g4⟩
  · unfold tlsCallbacks
    rw [h0]
    exact (C05_null_typed v v.fmt.ptrSize v.fmt.ptrSize 0 0).2.2.2.2.1.2

/-- Instances of the hypothesis `v.at … = .ok s` of `C15_tls_callbacks` / `_complete`, with the specification's
list: PE32 mapped (two 4-byte callbacks), PE32+ mapped (two 8-byte callbacks), PE32 FILE view (one callback, the
VA resolved through the section table to file offset 408); and a PE32+ image whose `AddressOfCallBacks` points
at the last 8 bytes of the image (non-zero): no zero pointer before the bytes end ⇒ `Bounds`. -/
example :
    demoView.at (.va (tlsCallBacks demoView ⟨504, 24, 4⟩)) 0 4 = .ok ⟨492, 124, 4⟩ ∧
    Spec.vaListUntilZero demoBytes 492 4 (124 / 4) = some [0x400064, 0x400084] ∧
    tlsCallbacks demoView ⟨504, 24, 4⟩ = .ok ⟨492, 2 * 4, 4⟩ ∧
    tlsTryFrom demoView64 = .ok ⟨512, 40, 8⟩ ∧
    demoView64.at (.va (tlsCallBacks demoView64 ⟨512, 40, 8⟩)) 0 8 = .ok ⟨488, 176, 8⟩ ∧
    Spec.vaListUntilZero demoBytes64 488 8 (176 / 8) = some [0x140000064, 0x140000078] ∧
    tlsCallbacks demoView64 ⟨512, 40, 8⟩ = .ok ⟨488, 2 * 8, 8⟩ ∧
    tlsTryFrom demoFile32 = .ok ⟨416, 24, 4⟩ ∧
    demoFile32.at (.va (tlsCallBacks demoFile32 ⟨416, 24, 4⟩)) 0 4 = .ok ⟨408, 72, 4⟩ ∧
    Spec.vaListUntilZero demoFileBytes 408 4 (72 / 4) = some [0x401010] ∧
    tlsCallbacks demoFile32 ⟨416, 24, 4⟩ = .ok ⟨408, 1 * 4, 4⟩ := by
  decide +kernel

example :
    let v : View := ⟨⟨(demoBytes64.set! 536 0x90).set! 537 0x02, 0⟩, .pe64, .view, 0x140000000⟩
    tlsTryFrom v = .ok ⟨512, 40, 8⟩ ∧ tlsCallBacks v ⟨512, 40, 8⟩ = 0x140000290 ∧
    v.at (.va (tlsCallBacks v ⟨512, 40, 8⟩)) 0 8 = .ok ⟨656, 8, 8⟩ ∧
    Spec.vaListUntilZero v.b 656 8 (8 / 8) = none ∧
    tlsCallbacks v ⟨512, 40, 8⟩ = .err .bounds := by
  decide +kernel

/-- Absent directories: an image whose data-directory array is too short for the TLS (9) / load-config (10)
slot — `NumberOfRvaAndSizes` (capped at 16) `≤` the slot — or whose slot holds RVA 0 reports `Null`. -/
theorem C15_tls_lc_absent (v : View) :
    (v.dataDir 9 = none → tlsTryFrom v = .err .null) ∧
    (∀ size, v.dataDir 9 = some (0, size) → tlsTryFrom v = .err .null) ∧
    (v.dataDir 10 = none → lcTryFrom v = .err .null) ∧
    (∀ size, v.dataDir 10 = some (0, size) → lcTryFrom v = .err .null) ∧
    (∀ i, v.dataDir i = none ↔ min (numberOfRvaAndSizes v.fmt v.b) 16 ≤ i) := by
  unfold tlsTryFrom lcTryFrom
  refine ⟨fun h => by rw [h], fun size h => ?_, fun h => by rw [h], fun size h => ?_, fun i => ?_⟩
  · rw [h]; exact (C05_null_typed v _ _ 0 0).1.1
  · rw [h]; exact (C05_null_typed v _ _ 0 0).1.1
  · unfold View.dataDir numDataDirs
    by_cases hi : i < min (numberOfRvaAndSizes v.fmt v.b) 16
    · rw [if_pos hi]; constructor
      · intro hh; cases hh
      · intro hh; omega
    · rw [if_neg hi]; exact ⟨fun _ => by omega, fun _ => rfl⟩

/-- Instances: `demoBytes` with `NumberOfRvaAndSizes` lowered to 9 (the array ends before the TLS slot) — TLS and
load config absent, the debug directory (slot 6) still there; `demoFile32` has sixteen slots with slot 10 all
zero (RVA 0): load config absent. -/
example :
    let v : View := ⟨⟨demoBytes.set! 180 9, 0⟩, .pe32, .view, 0x400000⟩
    Accept .pe32 v.img ∧ numberOfRvaAndSizes .pe32 v.b = 9 ∧ v.dataDir 9 = none ∧ v.dataDir 10 = none ∧
    tlsTryFrom v = .err .null ∧ lcTryFrom v = .err .null ∧ debugTryFrom v = .ok ⟨428, 56, 4⟩ ∧
    demoFile32.dataDir 10 = some (0, 0) ∧ lcTryFrom demoFile32 = .err .null ∧
    excTryFrom demoFile32 = .err .null ∧ securityTryFrom demoFile32 = .err .null := by
  decide +kernel

/-- In a mapped view the three TLS pointers resolve to `pointer − image base`: the template is the
`End − Start` bytes at buffer offset `Start − base`. -/
theorem C15_tls_raw_data_mapped (v : View) (hk : v.kind = .view) (t : Ref)
    (h1 : v.imageBase < tlsStart v t) (h2 : tlsStart v t ≤ tlsEnd v t)
    (h3 : tlsStart v t - v.imageBase ≤ sizeOfImage v.b)
    (h4 : tlsEnd v t - v.imageBase ≤ v.img.bytes.size) :
    tlsRawData v t = .ok ⟨tlsStart v t - v.imageBase, tlsEnd v t - tlsStart v t, 1⟩ := by
  apply ((C15_tls_raw_data v t).1 _).2
  refine ⟨h2, ⟨tlsStart v t - v.imageBase, v.img.bytes.size - (tlsStart v t - v.imageBase), 1⟩, ?_, rfl⟩
  unfold View.at View.read
  rw [hk]
  simp only
  rw [readSection_eq, if_neg (by omega), if_neg (by omega), if_pos isPow2_1, if_pos (Nat.mod_one _),
    if_pos ⟨by omega, by omega⟩]

/-- hypotheses of `C15_tls_raw_data_mapped` on the PE32 and the PE32+ mapped view -/
example :
    demoView.kind = .view ∧ demoView.imageBase < tlsStart demoView ⟨504, 24, 4⟩ ∧
    tlsStart demoView ⟨504, 24, 4⟩ ≤ tlsEnd demoView ⟨504, 24, 4⟩ ∧
    tlsStart demoView ⟨504, 24, 4⟩ - demoView.imageBase ≤ sizeOfImage demoView.b ∧
    tlsEnd demoView ⟨504, 24, 4⟩ - demoView.imageBase ≤ demoView.img.bytes.size ∧
    demoView64.kind = .view ∧ demoView64.imageBase < tlsStart demoView64 ⟨512, 40, 8⟩ ∧
    tlsStart demoView64 ⟨512, 40, 8⟩ ≤ tlsEnd demoView64 ⟨512, 40, 8⟩ ∧
    tlsStart demoView64 ⟨512, 40, 8⟩ - demoView64.imageBase ≤ sizeOfImage demoView64.b ∧
    tlsEnd demoView64 ⟨512, 40, 8⟩ - demoView64.imageBase ≤ demoView64.img.bytes.size ∧
    tlsRawData demoView64 ⟨512, 40, 8⟩ = .ok ⟨472, 8, 1⟩ ∧ tlsSlot demoView64 ⟨512, 40, 8⟩ = .ok ⟨480, 4, 4⟩ ∧
    tlsRawData demoFile32 ⟨416, 24, 4⟩ = .ok ⟨352, 4, 1⟩ ∧ tlsSlot demoFile32 ⟨416, 24, 4⟩ = .ok ⟨356, 4, 4⟩ := by
  decide +kernel

/-! ## load config directory -/

/-- The IMAGE_LOAD_CONFIG_DIRECTORY prefix the crate declares (72 bytes / align 4 for PE32, 112 bytes /
align 8 for PE32+) at the directory RVA — whatever size the directory itself declares. -/
theorem C15_load_config_image (v : View) (t : Ref) :
    lcTryFrom v = .ok t ↔
      ∃ va size, v.dataDir 10 = some (va, size) ∧
        ∃ s, v.at (.rva va) (lcSize v.fmt) (lcAlign v.fmt) = .ok s ∧ t = ⟨s.off, lcSize v.fmt, lcAlign v.fmt⟩ := by
  unfold lcTryFrom
  cases hd : v.dataDir 10 with
  | none =>
    simp only
    constructor
    · intro h; cases h
    · rintro ⟨va, size, h, _⟩; cases h
  | some p =>
    obtain ⟨va, size⟩ := p
    simp only
    rw [C05_derva]
    constructor
    · rintro ⟨s, h1, h2⟩; exact ⟨va, size, rfl, s, h1, h2⟩
    · rintro ⟨va', size', h, s, h1, h2⟩; cases h; exact ⟨s, h1, h2⟩

/-- `security_cookie`: the aligned dword at virtual address `SecurityCookie`; `se_handler_table`:
`SEHandlerCount` pointer-sized entries at virtual address `SEHandlerTable` (`Overflow` when the byte
count does not fit a `usize`, `Null` first when the table address is zero). -/
theorem C15_load_config_fields (v : View) (t : Ref) (r : Ref) :
    (lcSecurityCookie v t = .ok r ↔ ∃ s, v.at (.va (lcCookieVa v t)) 4 4 = .ok s ∧ r = ⟨s.off, 4, 4⟩) ∧
    (lcSeHandlerTable v t = .ok r ↔ v.fmt.ptrSize * lcCount v t < 18446744073709551616 ∧
      ∃ s, v.at (.va (lcTableVa v t)) (v.fmt.ptrSize * lcCount v t) v.fmt.ptrSize = .ok s ∧
        r = ⟨s.off, v.fmt.ptrSize * lcCount v t, v.fmt.ptrSize⟩) ∧
    (v.fmt.ptrSize * lcCount v t ≥ 18446744073709551616 →
      lcSeHandlerTable v t = .err (if lcTableVa v t = 0 then .null else .overflow)) := by
  unfold lcSecurityCookie lcSeHandlerTable
  refine ⟨C05_derva v _ 4 4 r, C05_derva_slice v _ _ _ _ r, fun h => ?_⟩
  rw [dervaSlice_unfold]
  rw [if_pos h]
  simp [Addr.isZero]

/-- PE32+ load config (112 bytes, align 8; cookie / table / count at +88 / +96 / +104) and exception directory -/
example :
    lcTryFrom demoView64 = .ok ⟨552, 112, 8⟩ ∧ lcDeclaredSize demoView64 ⟨552, 112, 8⟩ = 112 ∧
    lcCookieVa demoView64 ⟨552, 112, 8⟩ = 0x1400001E0 ∧ lcCount demoView64 ⟨552, 112, 8⟩ = 2 ∧
    lcSecurityCookie demoView64 ⟨552, 112, 8⟩ = .ok ⟨480, 4, 4⟩ ∧
    lcSeHandlerTable demoView64 ⟨552, 112, 8⟩ = .ok ⟨488, 16, 8⟩ ∧
    excTryFrom demoView64 = .ok ⟨336, 24, 4⟩ ∧ checkSorted demoBytes64 ⟨336, 24, 4⟩ = true ∧
    indexOf demoBytes64 ⟨336, 24, 4⟩ 100 = .found 0 ∧ indexOf demoBytes64 ⟨336, 24, 4⟩ 118 = .notFound 1 ∧
    fnBytes demoView64 ⟨336, 24, 4⟩ 1 = .ok ⟨120, 10, 1⟩ ∧ unwindInfo demoView64 ⟨336, 24, 4⟩ 0 = .ok ⟨328, 4, 1⟩ ∧
    debugTryFrom demoView64 = .ok ⟨416, 56, 4⟩ ∧ pdbFileName demoView64 ⟨416, 56, 4⟩ = some ⟨384, 6, 1⟩ ∧
    securityTryFrom demoView64 = .err .unmapped := by
  decide +kernel

/-! ## security directory -/

/-- For a file view (buffer at a dword-aligned address, as every constructed view is) the certificate
table is decoded iff the directory is well formed: non-zero 8-aligned FILE OFFSET, 8-aligned size ≥ 8,
inside the file.  The type is the word at +6 of the WIN_CERTIFICATE header; for a directory holding one
certificate of the directory's size (`dwLength = Size`) the data is exactly the stored certificate bytes. -/
theorem C15_security_file (v : View) (hb : v.img.base % 4 = 0) (r : Ref) :
    (securityTryFrom v = .ok r ↔
      v.kind = .file ∧ ∃ va size, v.dataDir 4 = some (va, size) ∧ Spec.CertWellFormed v.b.size va size ∧
        r = ⟨va, size, 1⟩) ∧
    (securityTryFrom v = .ok r →
      secImage v r = .ok ⟨r.off, 8, 4⟩ ∧ RefOK v.img ⟨r.off, 8, 4⟩ ∧
      secCertType v r = .ok (Spec.certType v.b r.off) ∧
      (Spec.SingleCert v.b r.off r.len →
        secCertData v r = .ok (Spec.certBytes v.b r.off) ∧ RefOK v.img (Spec.certBytes v.b r.off))) := by
  refine ⟨securityTryFrom_ok_iff v hb r, ?_⟩
  intro h
  obtain ⟨_, va, size, hd, ⟨w1, w2, w3, w4, w5⟩, rfl⟩ := (securityTryFrom_ok_iff v hb r).1 h
  have w5' : va + size ≤ v.img.bytes.size := w5
  have hal : (v.img.base + va) % 4 = 0 := by omega
  unfold secCertType secCertData secImage Spec.certType Spec.certBytes Spec.SingleCert
  simp only
  rw [rawRef_eq_ok (by omega) hal, if_neg (by omega), rawRef_eq_ok (by omega) (Nat.mod_one _)]
  simp only [Out.bind_ok]
  refine ⟨trivial, ⟨by simp only; omega, hal⟩, trivial, ?_⟩
  intro hsingle
  rw [hsingle]
  exact ⟨rfl, ⟨by simp only; omega, Nat.mod_one _⟩⟩

/-- Without `dwLength = Size` only this holds: `certificate_data` is everything after the first 8-byte
header up to the END OF THE DIRECTORY, whatever `dwLength` says (padding and any further certificates
included, a `dwLength` larger than the directory ignored). -/
theorem C15_security_data_partial (v : View) (hb : v.img.base % 4 = 0) (r : Ref) (h : securityTryFrom v = .ok r) :
    secCertData v r = .ok ⟨r.off + 8, r.len - 8, 1⟩ ∧ RefOK v.img ⟨r.off + 8, r.len - 8, 1⟩ := by
  obtain ⟨_, va, size, hd, ⟨w1, w2, w3, w4, w5⟩, rfl⟩ := (securityTryFrom_ok_iff v hb r).1 h
  have w5' : va + size ≤ v.img.bytes.size := w5
  unfold secCertData
  simp only
  rw [if_neg (by omega), rawRef_eq_ok (by omega) (Nat.mod_one _)]
  exact ⟨rfl, ⟨by simp only; omega, Nat.mod_one _⟩⟩

/-- Mapped views have no certificate table: `Unmapped`, whatever the directory says. -/
theorem C15_security_view (v : View) (hk : v.kind = .view) : securityTryFrom v = .err .unmapped := by
  unfold securityTryFrom
  rw [if_pos (by rw [hk]; decide)]

/-- The remaining error kinds of the security directory, in the order the code tests them. -/
theorem C15_security_errors (v : View) (hk : v.kind = .file) :
    (v.dataDir 4 = none → securityTryFrom v = .err .null) ∧
    (∀ size, v.dataDir 4 = some (0, size) → securityTryFrom v = .err .null) ∧
    (∀ va size, v.dataDir 4 = some (va, size) → va ≠ 0 → (va % 8 ≠ 0 ∨ size % 8 ≠ 0) →
      securityTryFrom v = .err .misaligned) ∧
    (∀ va size, v.dataDir 4 = some (va, size) → va ≠ 0 → va % 8 = 0 → size % 8 = 0 → size ≠ 0 →
      v.b.size < va + size → securityTryFrom v = .err .bounds) := by
  unfold securityTryFrom
  rw [if_neg (by rw [hk]; decide)]
  refine ⟨fun h => by rw [h], fun size h => by rw [h]; simp, fun va size h h0 hm => ?_, fun va size h h0 h1 h2 h3 h4 => ?_⟩
  · rw [h]; simp only; rw [if_neg h0, if_pos hm]
  · obtain ⟨l1, l2⟩ := dataDir_lt h
    rw [h]; simp only
    rw [if_neg h0, if_neg (by omega), if_neg h3]
    unfold cadd64
    rw [if_pos (by omega)]
    simp only
    rw [if_neg (by omega)]

/-- Absent directories, all five: no data-directory slot ⇒ `Null`; RVA 0 ⇒ `Null` (for the two record tables when the
size passes the record-multiple check that comes first, for the certificate table in file views — mapped
views answer `Unmapped` before looking, `C15_security_view`). -/
theorem C15_absent_null (v : View) :
    (v.dataDir 6 = none → debugTryFrom v = .err .null) ∧
    (v.dataDir 3 = none → excTryFrom v = .err .null) ∧
    (v.dataDir 9 = none → tlsTryFrom v = .err .null) ∧
    (v.dataDir 10 = none → lcTryFrom v = .err .null) ∧
    (v.kind = .file → v.dataDir 4 = none → securityTryFrom v = .err .null) ∧
    (∀ size, v.dataDir 6 = some (0, size) → size % 28 = 0 → debugTryFrom v = .err .null) ∧
    (∀ size, v.dataDir 3 = some (0, size) → size % 12 = 0 → excTryFrom v = .err .null) ∧
    (∀ size, v.dataDir 9 = some (0, size) → tlsTryFrom v = .err .null) ∧
    (∀ size, v.dataDir 10 = some (0, size) → lcTryFrom v = .err .null) ∧
    (∀ size, v.kind = .file → v.dataDir 4 = some (0, size) → securityTryFrom v = .err .null) := by
  obtain ⟨t1, t2, l1, l2, _⟩ := C15_tls_lc_absent v
  exact ⟨(C15_debug_entries v).2.1, (C15_exception_entries v).2.1, t1, l1,
    fun hk => (C15_security_errors v hk).1,
    (C15_debug_entries v).2.2.2, (C15_exception_entries v).2.2.2, t2, l2,
    fun size hk => (C15_security_errors v hk).2.1 size⟩

/-! ## C01 / C02 / C03 for every decoder of the module: ANY view, ANY bytes -/

/-- Directory constructors: a value or a typed error; returned references are inside the buffer and aligned
for their type. -/
theorem C15_constructors_safe (v : View) :
    (OkOrErr (debugTryFrom v) ∧ ∀ t, debugTryFrom v = .ok t → RefOK v.img t ∧ t.align = 4) ∧
    (OkOrErr (excTryFrom v) ∧ ∀ t, excTryFrom v = .ok t → RefOK v.img t ∧ t.align = 4) ∧
    (OkOrErr (tlsTryFrom v) ∧ ∀ t, tlsTryFrom v = .ok t → RefOK v.img t ∧ t.len = tlsSize v.fmt ∧ t.align = tlsAlign v.fmt) ∧
    (OkOrErr (lcTryFrom v) ∧ ∀ t, lcTryFrom v = .ok t → RefOK v.img t ∧ t.len = lcSize v.fmt ∧ t.align = lcAlign v.fmt) ∧
    (v.img.base % 4 = 0 → OkOrErr (securityTryFrom v) ∧ ∀ t, securityTryFrom v = .ok t → RefOK v.img t) := by
  refine ⟨?_, ?_, ?_, ?_, ?_⟩
  · rw [debugTryFrom_eq]; exact tableTryFrom_safe v 6 28
  · rw [excTryFrom_eq]; exact tableTryFrom_safe v 3 12
  · unfold tlsTryFrom
    cases v.dataDir 9 with
    | none => exact ⟨okOrErr_err _, fun _ h => by cases h⟩
    | some p => exact derva_safe v _ _ _ (isPow2_tls v.fmt)
  · unfold lcTryFrom
    cases v.dataDir 10 with
    | none => exact ⟨okOrErr_err _, fun _ h => by cases h⟩
    | some p => exact derva_safe v _ _ _ (isPow2_lc v.fmt)
  · intro hb
    refine ⟨securityTryFrom_okOrErr v hb, fun t ht => ?_⟩
    obtain ⟨_, va, size, _, ⟨_, _, _, _, w5⟩, rfl⟩ := (securityTryFrom_ok_iff v hb t).1 ht
    exact ⟨w5, Nat.mod_one _⟩

/-- Accessors: a value or a typed error; returned references valid — for ANY directory reference `t`
(even one not produced by the constructors) and any bytes. -/
theorem C15_accessors_safe (v : View) (t : Ref) (i : Nat) :
    (OkOrErr (tlsRawData v t) ∧ ∀ r, tlsRawData v t = .ok r → RefOK v.img r) ∧
    (OkOrErr (tlsSlot v t) ∧ ∀ r, tlsSlot v t = .ok r → RefOK v.img r ∧ r.len = 4 ∧ r.align = 4) ∧
    (OkOrErr (tlsCallbacks v t) ∧ ∀ r, tlsCallbacks v t = .ok r → RefOK v.img r ∧ r.len % v.fmt.ptrSize = 0 ∧ r.align = v.fmt.ptrSize) ∧
    (OkOrErr (lcSecurityCookie v t) ∧ ∀ r, lcSecurityCookie v t = .ok r → RefOK v.img r ∧ r.len = 4 ∧ r.align = 4) ∧
    (OkOrErr (lcSeHandlerTable v t) ∧ ∀ r, lcSeHandlerTable v t = .ok r → RefOK v.img r ∧ r.align = v.fmt.ptrSize) ∧
    (OkOrErr (fnBytes v t i) ∧ ∀ r, fnBytes v t i = .ok r → RefOK v.img r) ∧
    OkOrErr (unwindInfo v t i) ∧
    OkOrErr (dirEntry v (debugEntryOff t i)) := by
  have hps : 1 ≤ v.fmt.ptrSize := by cases v.fmt <;> decide
  refine ⟨?_, derva_safe v _ 4 4 isPow2_4, dervaSliceS_safe v _ _ _ 0 hps (isPow2_ptr v.fmt),
    derva_safe v _ 4 4 isPow2_4, ?_, ?_, (unwindInfo_safe v t i).1, (dirEntry_safe v _).1⟩
  · unfold tlsRawData
    split
    · exact ⟨okOrErr_err _, fun _ h => by cases h⟩
    · obtain ⟨h1, h2⟩ := dervaSlice_safe v (.va (tlsStart v t)) 1 1 (tlsEnd v t - tlsStart v t) isPow2_1
      exact ⟨h1, fun r hr => (h2 r hr).1⟩
  · obtain ⟨h1, h2⟩ := dervaSlice_safe v (.va (lcTableVa v t)) v.fmt.ptrSize v.fmt.ptrSize (lcCount v t) (isPow2_ptr v.fmt)
    exact ⟨h1, fun r hr => ⟨(h2 r hr).1, (h2 r hr).2.2⟩⟩
  · unfold fnBytes
    split
    · exact ⟨okOrErr_err _, fun _ h => by cases h⟩
    · obtain ⟨h1, h2⟩ := dervaSlice_safe v (.rva (rfBegin v.b t i)) 1 1 (rfEnd v.b t i - rfBegin v.b t i) isPow2_1
      exact ⟨h1, fun r hr => (h2 r hr).1⟩

/-- Every view the crate can construct sits at a dword-aligned address (the hypothesis of the security
theorems): format-specific and format-agnostic constructors, with or without an overridden base. -/
theorem C15_constructed_views_aligned (k : Kind) (img : Img) (v : View) :
    ((∃ f, fromBytes f k img = .ok v) ∨ wrapFromBytes k img = .ok v) →
    ∀ base, (v.setBase base).img.base % 4 = 0 ∧ v.img.base % 4 = 0 := by
  intro h base
  have key : ∀ f, fromBytes f k img = .ok v → v.img.base % 4 = 0 := by
    intro f hf
    obtain ⟨ha, rfl⟩ := (fromBytes_ok_iff f k img v).1 hf
    unfold Accept at ha
    exact ha.2.1
  rcases h with ⟨f, hf⟩ | hw
  · exact ⟨key f hf, key f hf⟩
  · have := wrap_ok_imp k img v hw
    exact ⟨key _ this, key _ this⟩

/-! ## non-vacuity: a 616-byte PE32 image (no sections) with all five directories (`Lemmas/DirsExamples.lean`, where
the PE32+ image `demoBytes64` and the one-section FILE image `demoFileBytes` used above are defined, too)

exception table at 320 (records [100,116) with unwind info at 312, [116,116), [132,148)), CodeView RSDS
record at 356 ("a.pdb"), POGO data at 388 (".text", ".rdata$zz"), debug directory at 428 (2 entries), TLS
template / slot / callbacks at 484 / 488 / 492, TLS directory at 504, load config at 528, certificate at 600. -/

example : fromBytes .pe32 .view ⟨demoBytes, 0⟩ = .ok demoView ∧ fromBytes .pe32 .file ⟨demoBytes, 0⟩ = .ok demoFile ∧
    fromBytes .pe64 .view ⟨demoBytes64, 0⟩ = .ok demoView64 ∧ fromBytes .pe32 .file ⟨demoFileBytes, 0⟩ = .ok demoFile32 :=
  ⟨demo_views_constructed.1, demo_views_constructed.2.1, demo_views_constructed.2.2.1, demo_views_constructed.2.2.2.1⟩

/-- exception directory: three records, sorted (with an empty range in the middle); hits, the exclusive end,
the gap, before the first and after the last; function bytes and unwind codes -/
example :
    excTryFrom demoView = .ok ⟨320, 36, 4⟩ ∧ excCount ⟨320, 36, 4⟩ = 3 ∧
    checkSorted demoBytes ⟨320, 36, 4⟩ = true ∧
    indexOf demoBytes ⟨320, 36, 4⟩ 99 = .notFound 0 ∧
    indexOf demoBytes ⟨320, 36, 4⟩ 100 = .found 0 ∧
    indexOf demoBytes ⟨320, 36, 4⟩ 115 = .found 0 ∧
    indexOf demoBytes ⟨320, 36, 4⟩ 116 = .notFound 2 ∧
    indexOf demoBytes ⟨320, 36, 4⟩ 120 = .notFound 2 ∧
    indexOf demoBytes ⟨320, 36, 4⟩ 132 = .found 2 ∧
    indexOf demoBytes ⟨320, 36, 4⟩ 148 = .notFound 3 ∧
    lookupFunctionEntry demoBytes ⟨320, 36, 4⟩ 147 = .ok (some ⟨344, 12, 4⟩) ∧
    fnBytes demoView ⟨320, 36, 4⟩ 0 = .ok ⟨100, 16, 1⟩ ∧
    unwindInfo demoView ⟨320, 36, 4⟩ 0 = .ok ⟨312, 4, 1⟩ ∧
    unwindCodes demoView ⟨312, 4, 1⟩ = .ok ⟨316, 2, 1⟩ := by
  decide +kernel

/-- debug directory: two entries; the first a CodeView RSDS record satisfying `IsRSDS`, the second POGO data
satisfying `PogoLayout` with two records -/
example :
    debugTryFrom demoView = .ok ⟨428, 56, 4⟩ ∧ debugCount ⟨428, 56, 4⟩ = 2 ∧
    dirData demoView 428 = some ⟨356, 30, 1⟩ ∧
    dirEntry demoView 428 = .ok (.codeView (.cv70 ⟨356, 24, 4⟩ ⟨380, 6, 1⟩)) ∧
    (CodeView.cv70 ⟨356, 24, 4⟩ ⟨380, 6, 1⟩).age demoBytes = 7 ∧
    pdbFileName demoView ⟨428, 56, 4⟩ = some ⟨380, 6, 1⟩ ∧
    dirEntry demoView 456 = .ok (.pgo ⟨388, 40, 4⟩) ∧
    pgoItems demoBytes ⟨388, 40, 4⟩ = .ok [⟨4096, 16, ⟨400, 6, 1⟩⟩, ⟨8192, 32, ⟨416, 10, 1⟩⟩] := by
  decide +kernel

example : Spec.IsRSDS demoBytes 356 30 5 :=
  ⟨by decide +kernel, by decide, ⟨by decide, by decide +kernel, by decide +kernel⟩⟩

example : Spec.PogoLayout demoBytes 392 [(4096, 16, 5), (8192, 32, 9)] 428 :=
  .cons 392 4096 16 5 _ 428 (by decide +kernel) (by decide +kernel) (by decide +kernel) (by decide +kernel)
    (.cons 408 8192 32 9 _ 428 (by decide +kernel) (by decide +kernel) (by decide +kernel) (by decide +kernel)
      (.nil 428))

/-- TLS, load config (mapped view) and the certificate table (file view only) -/
example :
    tlsTryFrom demoView = .ok ⟨504, 24, 4⟩ ∧
    tlsRawData demoView ⟨504, 24, 4⟩ = .ok ⟨484, 4, 1⟩ ∧
    tlsSlot demoView ⟨504, 24, 4⟩ = .ok ⟨488, 4, 4⟩ ∧
    tlsCallbacks demoView ⟨504, 24, 4⟩ = .ok ⟨492, 8, 4⟩ ∧
    Spec.vaListUntilZero demoBytes 492 4 31 = some [0x400064, 0x400084] ∧
    lcTryFrom demoView = .ok ⟨528, 72, 4⟩ ∧
    lcSecurityCookie demoView ⟨528, 72, 4⟩ = .ok ⟨488, 4, 4⟩ ∧
    lcSeHandlerTable demoView ⟨528, 72, 4⟩ = .ok ⟨492, 8, 4⟩ ∧
    securityTryFrom demoView = .err .unmapped ∧
    securityTryFrom demoFile = .ok ⟨600, 16, 1⟩ ∧
    Spec.CertWellFormed demoBytes.size 600 16 ∧
    secCertType demoFile ⟨600, 16, 1⟩ = .ok 2 ∧
    Spec.SingleCert demoBytes 600 16 ∧
    secCertData demoFile ⟨600, 16, 1⟩ = .ok ⟨608, 8, 1⟩ := by
  decide +kernel

/-- The hypothesis `dwLength = Size` of `C15_security_file` is needed: for a stored certificate of 12 bytes
(4 data bytes) padded to a 16-byte directory, `certificate_data` returns 8 bytes — the 4 stored bytes plus
the padding (`C15_security_data_partial` is what holds in general). -/
theorem C15_security_data_ignores_dwLength :
    let v : View := ⟨⟨demoBytes.set! 600 12, 0⟩, .pe32, .file, 0x400000⟩
    securityTryFrom v = .ok ⟨600, 16, 1⟩ ∧ Spec.certLength v.b 600 = 12 ∧
    secCertData v ⟨600, 16, 1⟩ = .ok ⟨608, 8, 1⟩ ∧ Spec.certBytes v.b 600 = ⟨608, 4, 1⟩ := by
  decide +kernel

end Pelite.Dirs
