import PeliteModel.Model.JsonDirs
/-!
C15 / C19: the text of a CodeView 7.0 signature (`util/guid.rs:lower_dashed`, behind `Display`, `Debug` and the
serializer of `image::GUID`) loses nothing: it has the fixed shape `{8-4-4-4-12}` of lower-case hex digits
(38 bytes), and an independent reader of that shape (`guidParse`, written from the registry notation of a GUID:
Data1, Data2, Data3 as numbers, Data4 byte by byte) returns exactly the 16 stored bytes — so two records print the
same signature only if they store the same GUID.
-/
namespace Pelite.Pe

/-- value of a lower-case hex digit -/
def unhexDigitL (c : Nat) : Option Nat :=
  if 48 ≤ c ∧ c ≤ 57 then some (c - 48) else if 97 ≤ c ∧ c ≤ 102 then some (c - 87) else none

/-- two hex digits → one byte -/
def unhex2 (hi lo : Nat) : Option Nat :=
  match unhexDigitL hi, unhexDigitL lo with
  | some h, some l => some (h * 16 + l)
  | _, _ => none

/-- the reader: `{d1-d2-d3-d4a-d4b}`; Data1/2/3 are printed as numbers (most significant digit first) and stored
little endian, Data4 is printed in memory order.  Returns the 16 bytes in memory order. -/
def guidParse (l : List Nat) : Option (List Nat) :=
  if l.length = 38 ∧ l.getD 0 0 = 123 ∧ l.getD 9 0 = 45 ∧ l.getD 14 0 = 45 ∧ l.getD 19 0 = 45 ∧ l.getD 24 0 = 45 ∧ l.getD 37 0 = 125 then
    let at2 (i : Nat) := unhex2 (l.getD i 0) (l.getD (i + 1) 0)
    (at2 7).bind fun x0 => (at2 5).bind fun x1 => (at2 3).bind fun x2 => (at2 1).bind fun x3 =>
    (at2 12).bind fun x4 => (at2 10).bind fun x5 => (at2 17).bind fun x6 => (at2 15).bind fun x7 =>
    (at2 20).bind fun x8 => (at2 22).bind fun x9 =>
    (at2 25).bind fun x10 => (at2 27).bind fun x11 => (at2 29).bind fun x12 => (at2 31).bind fun x13 =>
    (at2 33).bind fun x14 => (at2 35).bind fun x15 =>
    some [x0, x1, x2, x3, x4, x5, x6, x7, x8, x9, x10, x11, x12, x13, x14, x15]
  else none

theorem unhex2_hex2 : ∀ x, x < 256 → (match hex2 x with | [h, l] => unhex2 h l | _ => none) = some x := by
  decide +kernel

theorem unhex2_hex2' (x : Nat) (h : x < 256) : unhex2 (Pelite.Json.hexDigitL (x / 16)) (Pelite.Json.hexDigitL (x % 16)) = some x := by
  have := unhex2_hex2 x h
  simpa [hex2] using this

theorem guidText_length (b : Bytes) (o : Nat) : (guidText b o).length = 38 := by
  unfold guidText
  simp only [hex2, List.length_append, List.length_cons, List.length_nil]

/-- the reader on a list of the right shape -/
theorem guidParse_lit (a0 a1 a2 a3 a4 a5 a6 a7 b0 b1 b2 b3 c0 c1 c2 c3 d0 d1 d2 d3 e0 e1 e2 e3 e4 e5 e6 e7 e8 e9 f0 f1 : Nat) :
    guidParse [123, a0, a1, a2, a3, a4, a5, a6, a7, 45, b0, b1, b2, b3, 45, c0, c1, c2, c3, 45, d0, d1, d2, d3, 45,
      e0, e1, e2, e3, e4, e5, e6, e7, e8, e9, f0, f1, 125] =
    (unhex2 a6 a7).bind fun x0 => (unhex2 a4 a5).bind fun x1 => (unhex2 a2 a3).bind fun x2 => (unhex2 a0 a1).bind fun x3 =>
    (unhex2 b2 b3).bind fun x4 => (unhex2 b0 b1).bind fun x5 => (unhex2 c2 c3).bind fun x6 => (unhex2 c0 c1).bind fun x7 =>
    (unhex2 d0 d1).bind fun x8 => (unhex2 d2 d3).bind fun x9 =>
    (unhex2 e0 e1).bind fun x10 => (unhex2 e2 e3).bind fun x11 => (unhex2 e4 e5).bind fun x12 => (unhex2 e6 e7).bind fun x13 =>
    (unhex2 e8 e9).bind fun x14 => (unhex2 f0 f1).bind fun x15 =>
    some [x0, x1, x2, x3, x4, x5, x6, x7, x8, x9, x10, x11, x12, x13, x14, x15] := by
  rfl

/-- **the signature text determines the stored GUID** (round trip through an independent reader) -/
theorem C15_guid_text_round_trip (b : Bytes) (o : Nat) :
    guidParse (guidText b o) = some ((List.range 16).map fun i => byteAt b (o + i)) := by
  have hb : ∀ i, byteAt b i < 256 := fun i => byteAt_lt b i
  unfold guidText
  simp only [hex2, List.cons_append, List.nil_append]
  rw [guidParse_lit]
  simp only [unhex2_hex2' _ (hb _), Option.bind_some]
  rfl

theorem C15_guid_text_injective (b b' : Bytes) (o o' : Nat) (h : guidText b o = guidText b' o') :
    ∀ i, i < 16 → byteAt b (o + i) = byteAt b' (o' + i) := by
  have h1 := C15_guid_text_round_trip b o
  have h2 := C15_guid_text_round_trip b' o'
  rw [h, h2] at h1
  have := Option.some.inj h1
  intro i hi
  have hh := congrArg (fun l => l[i]?) this
  simp [hi] at hh
  exact hh.symm

-- the documentation's example: IID_IUnknown `{00000000-0000-0000-c000-000000000046}`
example : guidText (#[0,0,0,0, 0,0, 0,0, 0xC0,0,0,0,0,0,0,0x46] : Bytes) 0 =
    "{00000000-0000-0000-c000-000000000046}".toList.map Char.toNat := by decide +kernel
-- a GUID whose fourth group begins with a zero digit keeps it (`{:04x}`)
example : ((guidText (#[1,2,3,4, 5,6, 7,8, 0x0B,0x07,1,2,3,4,5,6] : Bytes) 0).drop 20).take 4 = [48, 98, 48, 55] := by decide +kernel

end Pelite.Pe
