import PeliteModel.Model.Dirs
import PeliteModel.Generated.ImageLayout
/-!
C15 — the literal sizes, alignments and offsets of `Model/Dirs.lean` are the layouts of the *current source*
(`Generated/ImageLayout.lean`, rewritten on every check run from `size_of` / `align_of` / `offset_of!` of the structs
of `src/image.rs`): `IMAGE_DEBUG_DIRECTORY`, `IMAGE_DEBUG_CV_INFO_PDB20/70`, `GUID`, `IMAGE_DEBUG_MISC`,
`IMAGE_TLS_DIRECTORY32/64`, `IMAGE_LOAD_CONFIG_DIRECTORY32/64`, `RUNTIME_FUNCTION`, `UNWIND_INFO`, `UNWIND_CODE`,
`WIN_CERTIFICATE`.  Where the model has a named definition the definition is tied; where it writes the number inline
the tie is stated through the function that contains it (the function equals, on every input, its transcription over
the named constants).

Literals that are literals in the Rust code too are stated as the struct quantity they stand for: `code_view`'s
`bytes.len() < 16` / `&bytes[16..]` / `< 24` / `&bytes[24..]` (= `size_of` of the two CodeView structs = the offset
of their `PdbFileName`), its `aligned_to(4)` (their alignment), `Security::new`'s `image.len() >= 8` and
`get_unchecked(8..)` (= `size_of::<WIN_CERTIFICATE>()` = offset of `bCertificate`).

Not tied (no struct of `image.rs` behind them): the POGO payload (`pgoEntry`, `pgoIterStart`, `pgoNext`: `u32` words
— signature, then `rva, size, name…` — decoded by index in `wrap/debug.rs`); the `u32`s behind
`Tls::slot` / `LoadConfig::security_cookie` (`derva::<u32>`: 4 / 4); `IMAGE_VERSION<u16>` (generic, not in the table:
`ddMinor` reads 2 bytes after `ddMajor`); the quadword alignment `8` of the security directory entry (`aligned_to(8)`,
a rule of the format); the data directory indices 3, 4, 6, 9, 10 and the debug types 2, 4, 13 (constants); the bit
fields of `UNWIND_INFO` (`% 8`, `/ 8`, `% 16`, `/ 16`).
-/
namespace Pelite.Dirs
open Pelite Pelite.Pe Pelite.Generated.Layout

/-! names for the quantities of the two-format structs, by format -/
namespace Src
def tlsStart : Fmt → Nat
  | .pe32 => IMAGE_TLS_DIRECTORY32__StartAddressOfRawData | .pe64 => IMAGE_TLS_DIRECTORY64__StartAddressOfRawData
def tlsEnd : Fmt → Nat
  | .pe32 => IMAGE_TLS_DIRECTORY32__EndAddressOfRawData | .pe64 => IMAGE_TLS_DIRECTORY64__EndAddressOfRawData
def tlsIndex : Fmt → Nat
  | .pe32 => IMAGE_TLS_DIRECTORY32__AddressOfIndex | .pe64 => IMAGE_TLS_DIRECTORY64__AddressOfIndex
def tlsCallBacks : Fmt → Nat
  | .pe32 => IMAGE_TLS_DIRECTORY32__AddressOfCallBacks | .pe64 => IMAGE_TLS_DIRECTORY64__AddressOfCallBacks
def tlsZeroFill : Fmt → Nat
  | .pe32 => IMAGE_TLS_DIRECTORY32__SizeOfZeroFill | .pe64 => IMAGE_TLS_DIRECTORY64__SizeOfZeroFill
def tlsChars : Fmt → Nat
  | .pe32 => IMAGE_TLS_DIRECTORY32__Characteristics | .pe64 => IMAGE_TLS_DIRECTORY64__Characteristics
def lcSizeField : Fmt → Nat
  | .pe32 => IMAGE_LOAD_CONFIG_DIRECTORY32__Size | .pe64 => IMAGE_LOAD_CONFIG_DIRECTORY64__Size
end Src

/-- **The named layout constants of the directory model are the source's.** -/
theorem C15_model_offsets :
    tlsSize .pe32 = IMAGE_TLS_DIRECTORY32__size ∧ tlsSize .pe64 = IMAGE_TLS_DIRECTORY64__size ∧
    tlsAlign .pe32 = IMAGE_TLS_DIRECTORY32__align ∧ tlsAlign .pe64 = IMAGE_TLS_DIRECTORY64__align ∧
    lcSize .pe32 = IMAGE_LOAD_CONFIG_DIRECTORY32__size ∧ lcSize .pe64 = IMAGE_LOAD_CONFIG_DIRECTORY64__size ∧
    lcAlign .pe32 = IMAGE_LOAD_CONFIG_DIRECTORY32__align ∧ lcAlign .pe64 = IMAGE_LOAD_CONFIG_DIRECTORY64__align ∧
    lcOffCookie .pe32 = IMAGE_LOAD_CONFIG_DIRECTORY32__SecurityCookie ∧
    lcOffCookie .pe64 = IMAGE_LOAD_CONFIG_DIRECTORY64__SecurityCookie ∧
    lcOffTable .pe32 = IMAGE_LOAD_CONFIG_DIRECTORY32__SEHandlerTable ∧
    lcOffTable .pe64 = IMAGE_LOAD_CONFIG_DIRECTORY64__SEHandlerTable ∧
    lcOffCount .pe32 = IMAGE_LOAD_CONFIG_DIRECTORY32__SEHandlerCount ∧
    lcOffCount .pe64 = IMAGE_LOAD_CONFIG_DIRECTORY64__SEHandlerCount ∧
    cv20OffOffset = IMAGE_DEBUG_CV_INFO_PDB20__Offset ∧
    cv20OffTimeDateStamp = IMAGE_DEBUG_CV_INFO_PDB20__TimeDateStamp ∧
    cv20OffAge = IMAGE_DEBUG_CV_INFO_PDB20__Age ∧
    cv70OffSignature = IMAGE_DEBUG_CV_INFO_PDB70__Signature ∧
    cv70OffAge = IMAGE_DEBUG_CV_INFO_PDB70__Age :=
  ⟨rfl, rfl, rfl, rfl, rfl, rfl, rfl, rfl, rfl, rfl, rfl, rfl, rfl, rfl, rfl, rfl, rfl, rfl, rfl⟩

/-- **Debug directory**: the array is cut into `size_of::<IMAGE_DEBUG_DIRECTORY>()` records of that struct's alignment,
every field is read at its offset, and the three typed payloads (`CodeView` PDB 2.0 / 7.0, `IMAGE_DEBUG_MISC`) are
cast with the size and alignment of their structs, the file name starting at the struct's `PdbFileName`. -/
theorem C15_model_debug_offsets (v : View) (t : Ref) (b : Bytes) (d i : Nat) (cv : CodeView) :
    debugTryFrom v =
      (match v.dataDir 6 with
       | none => .err .null
       | some (va, size) =>
         if size % IMAGE_DEBUG_DIRECTORY__size ≠ 0 then .err .invalid
         else v.dervaSlice (.rva va) IMAGE_DEBUG_DIRECTORY__size IMAGE_DEBUG_DIRECTORY__align
                (size / IMAGE_DEBUG_DIRECTORY__size)) ∧
    debugCount t = t.len / IMAGE_DEBUG_DIRECTORY__size ∧
    debugEntryOff t i = t.off + IMAGE_DEBUG_DIRECTORY__size * i ∧
    ddCharacteristics b d = le32 b (d + IMAGE_DEBUG_DIRECTORY__Characteristics) ∧
    ddTimeDateStamp b d = le32 b (d + IMAGE_DEBUG_DIRECTORY__TimeDateStamp) ∧
    ddMajor b d = le16 b (d + IMAGE_DEBUG_DIRECTORY__Version) ∧           -- `IMAGE_VERSION<u16>`: Major, then Minor
    ddMinor b d = le16 b (d + IMAGE_DEBUG_DIRECTORY__Version + 2) ∧
    ddType b d = le32 b (d + IMAGE_DEBUG_DIRECTORY__Type) ∧
    ddSizeOfData b d = le32 b (d + IMAGE_DEBUG_DIRECTORY__SizeOfData) ∧
    ddAddressOfRawData b d = le32 b (d + IMAGE_DEBUG_DIRECTORY__AddressOfRawData) ∧
    ddPointerToRawData b d = le32 b (d + IMAGE_DEBUG_DIRECTORY__PointerToRawData) ∧
    -- `code_view`
    codeView v d =
      (match dirData v d with
       | none => .err .bounds
       | some bytes =>
         if bytes.len < IMAGE_DEBUG_CV_INFO_PDB20__size then .err .bounds
         else if (v.img.base + bytes.off) % IMAGE_DEBUG_CV_INFO_PDB20__align ≠ 0 then .err .misaligned
         else
           rawRef "code_view:cv_signature" v.img bytes.off
             (IMAGE_DEBUG_CV_INFO_PDB20__Offset - IMAGE_DEBUG_CV_INFO_PDB20__CvSignature) 1 >>= fun sig =>
           if le32 v.b sig.off = sigNB10 then
             if bytes.len < IMAGE_DEBUG_CV_INFO_PDB20__size then .err .bounds
             else
               rawRef "code_view:IMAGE_DEBUG_CV_INFO_PDB20" v.img bytes.off IMAGE_DEBUG_CV_INFO_PDB20__size
                 IMAGE_DEBUG_CV_INFO_PDB20__align >>= fun image =>
               cstrTail v bytes IMAGE_DEBUG_CV_INFO_PDB20__PdbFileName "code_view:bytes[16..]" >>= fun name =>
               .ok (.cv20 image name)
           else if le32 v.b sig.off = sigRSDS then
             if bytes.len < IMAGE_DEBUG_CV_INFO_PDB70__size then .err .bounds
             else
               rawRef "code_view:IMAGE_DEBUG_CV_INFO_PDB70" v.img bytes.off IMAGE_DEBUG_CV_INFO_PDB70__size
                 IMAGE_DEBUG_CV_INFO_PDB70__align >>= fun image =>
               cstrTail v bytes IMAGE_DEBUG_CV_INFO_PDB70__PdbFileName "code_view:bytes[24..]" >>= fun name =>
               .ok (.cv70 image name)
           else .err .badMagic) ∧
    -- the fields of the two CodeView structs
    cv.cvSignature b = le32 b (cv.image.off + IMAGE_DEBUG_CV_INFO_PDB20__CvSignature) ∧
    IMAGE_DEBUG_CV_INFO_PDB70__CvSignature = IMAGE_DEBUG_CV_INFO_PDB20__CvSignature ∧
    cv.format = ⟨cv.image.off + IMAGE_DEBUG_CV_INFO_PDB20__CvSignature,
                 IMAGE_DEBUG_CV_INFO_PDB20__Offset - IMAGE_DEBUG_CV_INFO_PDB20__CvSignature, 1⟩ ∧
    cv.age b = (match cv with
      | .cv20 im _ => le32 b (im.off + IMAGE_DEBUG_CV_INFO_PDB20__Age)
      | .cv70 im _ => le32 b (im.off + IMAGE_DEBUG_CV_INFO_PDB70__Age)) ∧
    cv.guidRef = (match cv with
      | .cv20 _ _ => none
      | .cv70 im _ => some ⟨im.off + IMAGE_DEBUG_CV_INFO_PDB70__Signature, GUID__size, GUID__align⟩) ∧
    cv.timestamp b = (match cv with
      | .cv20 im _ => some (le32 b (im.off + IMAGE_DEBUG_CV_INFO_PDB20__TimeDateStamp))
      | .cv70 _ _ => none) ∧
    cv.offset b = (match cv with
      | .cv20 im _ => some (le32 b (im.off + IMAGE_DEBUG_CV_INFO_PDB20__Offset))
      | .cv70 _ _ => none) ∧
    -- `dbg`
    dbgEntry v d =
      (match dirData v d with
       | none => .err .bounds
       | some data =>
         if data.len < IMAGE_DEBUG_MISC__size then .err .bounds
         else if (v.img.base + data.off) % IMAGE_DEBUG_MISC__align ≠ 0 then .err .misaligned
         else rawRef "dbg:IMAGE_DEBUG_MISC" v.img data.off IMAGE_DEBUG_MISC__size IMAGE_DEBUG_MISC__align) := by
  refine ⟨rfl, rfl, rfl, rfl, rfl, rfl, rfl, rfl, rfl, rfl, rfl, rfl, ?_, rfl, ?_, ?_, ?_, ?_, ?_, rfl⟩ <;>
    cases cv <;> rfl

/-- the GUID of a PDB 7.0 record fills the gap between `Signature` and `Age`; the dword fields are 4 bytes wide -/
theorem C15_model_debug_widths :
    IMAGE_DEBUG_CV_INFO_PDB70__Age - IMAGE_DEBUG_CV_INFO_PDB70__Signature = GUID__size ∧
    IMAGE_DEBUG_CV_INFO_PDB70__PdbFileName - IMAGE_DEBUG_CV_INFO_PDB70__Age = 4 ∧
    IMAGE_DEBUG_CV_INFO_PDB20__PdbFileName - IMAGE_DEBUG_CV_INFO_PDB20__Age = 4 ∧
    IMAGE_DEBUG_CV_INFO_PDB20__PdbFileName = IMAGE_DEBUG_CV_INFO_PDB20__size ∧
    IMAGE_DEBUG_CV_INFO_PDB70__PdbFileName = IMAGE_DEBUG_CV_INFO_PDB70__size ∧
    IMAGE_DEBUG_DIRECTORY__size - IMAGE_DEBUG_DIRECTORY__PointerToRawData = 4 ∧
    IMAGE_DEBUG_DIRECTORY__Type - IMAGE_DEBUG_DIRECTORY__Version = 2 * 2 := by decide

/-- **TLS and load config**: every field is read at the offset of the struct of the view's format
(`IMAGE_TLS_DIRECTORY32/64`, `IMAGE_LOAD_CONFIG_DIRECTORY32/64`), pointer-sized where it is a `Va`. -/
theorem C15_model_tls_lc_offsets (v : View) (t : Ref) :
    tlsTryFrom v = (match v.dataDir 9 with
      | none => .err .null
      | some (va, _) => v.derva (.rva va) (tlsSize v.fmt) (tlsAlign v.fmt)) ∧
    tlsStart v t = ptrAt v (t.off + Src.tlsStart v.fmt) ∧
    tlsEnd v t = ptrAt v (t.off + Src.tlsEnd v.fmt) ∧
    tlsIndex v t = ptrAt v (t.off + Src.tlsIndex v.fmt) ∧
    tlsCallBacks v t = ptrAt v (t.off + Src.tlsCallBacks v.fmt) ∧
    tlsZeroFill v t = le32 v.b (t.off + Src.tlsZeroFill v.fmt) ∧
    tlsChars v t = le32 v.b (t.off + Src.tlsChars v.fmt) ∧
    lcTryFrom v = (match v.dataDir 10 with
      | none => .err .null
      | some (va, _) => v.derva (.rva va) (lcSize v.fmt) (lcAlign v.fmt)) ∧
    lcDeclaredSize v t = le32 v.b (t.off + Src.lcSizeField v.fmt) ∧
    lcCookieVa v t = ptrAt v (t.off + lcOffCookie v.fmt) ∧
    lcTableVa v t = ptrAt v (t.off + lcOffTable v.fmt) ∧
    lcCount v t = ptrAt v (t.off + lcOffCount v.fmt) ∧
    -- a `Va` field is as wide as the gap to the next field
    Src.tlsEnd v.fmt - Src.tlsStart v.fmt = v.fmt.ptrSize ∧
    lcOffTable v.fmt - lcOffCookie v.fmt = v.fmt.ptrSize ∧ lcOffCount v.fmt - lcOffTable v.fmt = v.fmt.ptrSize ∧
    lcSize v.fmt - lcOffCount v.fmt = v.fmt.ptrSize := by
  obtain ⟨img, f, k, ib⟩ := v
  cases f <;> exact ⟨rfl, rfl, rfl, rfl, rfl, rfl, rfl, rfl, rfl, rfl, rfl, rfl, rfl, rfl, rfl, rfl⟩

/-- **Exception directory and unwind info**: `RUNTIME_FUNCTION` records of the struct's size and alignment with
the three fields at their offsets; `UNWIND_INFO` of its size and alignment, `CountOfCodes` at its offset, followed at
`UnwindCode` by that many `UNWIND_CODE`s. -/
theorem C15_model_exception_offsets (v : View) (t image : Ref) (b : Bytes) (i pc : Nat) :
    excTryFrom v =
      (match v.dataDir 3 with
       | none => .err .null
       | some (va, size) =>
         if size % RUNTIME_FUNCTION__size ≠ 0 then .err .invalid
         else v.dervaSlice (.rva va) RUNTIME_FUNCTION__size RUNTIME_FUNCTION__align (size / RUNTIME_FUNCTION__size)) ∧
    excCount t = t.len / RUNTIME_FUNCTION__size ∧
    rfOff t i = t.off + RUNTIME_FUNCTION__size * i ∧
    rfBegin b t i = le32 b (rfOff t i + RUNTIME_FUNCTION__BeginAddress) ∧
    rfEnd b t i = le32 b (rfOff t i + RUNTIME_FUNCTION__EndAddress) ∧
    rfUnwind b t i = le32 b (rfOff t i + RUNTIME_FUNCTION__UnwindData) ∧
    lookupFunctionEntry b t pc =
      (match indexOf b t pc with
       | .found i =>
         if i < excCount t then .ok (some ⟨rfOff t i, RUNTIME_FUNCTION__size, RUNTIME_FUNCTION__align⟩)
         else .panic "lookup_function_entry:image[index]"
       | .notFound _ => .ok none) ∧
    unwindInfo v t i =
      (match v.slice (rfUnwind v.b t i) UNWIND_INFO__size UNWIND_INFO__align with
       | .ok bytes =>
         rawRef "unwind_info:UNWIND_INFO" v.img bytes.off UNWIND_INFO__size UNWIND_INFO__align >>= fun image =>
         let minSize := UNWIND_INFO__size + UNWIND_CODE__size * byteAt v.b (image.off + UNWIND_INFO__CountOfCodes)
         if bytes.len < minSize then .err .bounds else .ok image
       | .err e => .err e | .panic s => .panic s | .ub s => .ub s | .diverge => .diverge) ∧
    unwindCodes v image =
      rawRef "unwind_codes:from_raw_parts" v.img (image.off + UNWIND_INFO__UnwindCode)
        (UNWIND_CODE__size * byteAt v.b (image.off + UNWIND_INFO__CountOfCodes)) UNWIND_CODE__align ∧
    uwVersion b image = byteAt b (image.off + UNWIND_INFO__VersionFlags) % 8 ∧
    uwFlags b image = byteAt b (image.off + UNWIND_INFO__VersionFlags) / 8 ∧
    uwSizeOfProlog b image = byteAt b (image.off + UNWIND_INFO__SizeOfProlog) ∧
    uwFrameRegister b image = byteAt b (image.off + UNWIND_INFO__FrameRegisterOffset) % 16 ∧
    uwFrameOffset b image = byteAt b (image.off + UNWIND_INFO__FrameRegisterOffset) / 16 :=
  ⟨rfl, rfl, rfl, rfl, rfl, rfl, rfl, rfl, rfl, rfl, rfl, rfl, rfl, rfl⟩

/-- **Security directory**: the certificate header is a `WIN_CERTIFICATE` (size, alignment, fields at their
offsets), the certificate bytes start at its `bCertificate`. -/
theorem C15_model_security_offsets (v : View) (s : Ref) (b : Bytes) :
    securityTryFrom v =
      (if v.kind ≠ .file then .err .unmapped
       else match v.dataDir 4 with
         | none => .err .null
         | some (va, size) =>
           if va = 0 then .err .null
           else if va % 8 ≠ 0 ∨ size % 8 ≠ 0 then .err .misaligned
           else if size = 0 then .err .bounds
           else match cadd64 va size with
             | none => .err .overflow
             | some stop =>
               if va ≤ stop ∧ stop ≤ v.b.size then
                 if (v.img.base + va) % WIN_CERTIFICATE__align ≠ 0 then .panic "Security::new:aligned"
                 else if stop - va < WIN_CERTIFICATE__size then .panic "Security::new:len"
                 else .ok ⟨va, stop - va, 1⟩
               else .err .bounds) ∧
    secImage v s = rawRef "Security::image" v.img s.off WIN_CERTIFICATE__size WIN_CERTIFICATE__align ∧
    secLength b s = le32 b (s.off + WIN_CERTIFICATE__dwLength) ∧
    secRevision b s = le16 b (s.off + WIN_CERTIFICATE__wRevision) ∧
    secCertType v s = (secImage v s >>= fun im => .ok (le16 v.b (im.off + WIN_CERTIFICATE__wCertificateType))) ∧
    secCertData v s =
      (if s.len < WIN_CERTIFICATE__bCertificate then .ub "certificate_data:get_unchecked(8..)"
       else rawRef "certificate_data:get_unchecked(8..)" v.img (s.off + WIN_CERTIFICATE__bCertificate)
              (s.len - WIN_CERTIFICATE__bCertificate) 1) ∧
    WIN_CERTIFICATE__bCertificate = WIN_CERTIFICATE__size :=
  ⟨rfl, rfl, rfl, rfl, rfl, rfl, rfl⟩

/-- non-vacuity of the tie: a few of the constants by value -/
example : IMAGE_DEBUG_DIRECTORY__size = 28 ∧ IMAGE_TLS_DIRECTORY64__size = 40 ∧
    IMAGE_LOAD_CONFIG_DIRECTORY64__SEHandlerCount = 104 ∧ RUNTIME_FUNCTION__size = 12 ∧ UNWIND_INFO__UnwindCode = 4 ∧
    WIN_CERTIFICATE__wCertificateType = 6 ∧ IMAGE_DEBUG_CV_INFO_PDB70__Age = 20 := by decide

end Pelite.Dirs
