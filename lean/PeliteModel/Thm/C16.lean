import PeliteModel.Lemmas.Rich
import PeliteModel.Lemmas.RichBytes
/-!
C16 — Rich header decode, checksum and encode are mutually consistent.
Property theorems only; helper lemmas are in Lemmas/Rich.lean.

Vocabulary: an image is the list of its dwords (`words` of the bytes, each `< 2^32`; conversely
`words (bytesOf ws ++ tail) = ws`, `C16_words_bytesOf`, so every dword-level statement is a statement
about the byte buffer the Rust code is handed: `C16_round_trip_bytes_partial`);
`areaOf image` = the dwords before `e_lfanew` (dword 15 of the image, divided by 4);
`Spec.layout stub k rs pad = stub ++ [DanS^k,k,k,k] ++ records^k ++ [Rich,k] ++ zeros pad`;
`Spec.checksum` = the documented byte-wise rotate-and-add sum (Spec/Rich.lean).
-/
namespace Pelite.Rich
open Spec

/-! ## (a) the record codec -/

/-- decode ∘ encode = id, for every key (no range condition on the key at all). -/
theorem C16_decode_encode (k : Nat) (r : Record) (hr : r.WF) :
    Record.decode k (r.encode k).1 (r.encode k).2 = r :=
  decode_encode k r hr

/-- encode ∘ decode = id on every pair of dwords, for every 32-bit key. -/
theorem C16_encode_decode (k w0 w1 : Nat) (hk : k < 4294967296) (h0 : w0 < 4294967296) :
    (Record.decode k w0 w1).encode k = (w0, w1) :=
  encode_decode k w0 w1 hk h0

/-- The code's codec is the documented one: comp.id = product·2^16 + build, both dwords xor key. -/
theorem C16_codec_is_documented (k : Nat) (r : Record) (hr : r.WF) (w0 w1 : Nat)
    (hk : k < 4294967296) (h0 : w0 < 4294967296) (h1 : w1 < 4294967296) :
    [(r.encode k).1, (r.encode k).2] = encRecord k r ∧
    Record.decode k w0 w1 = decRecord k w0 w1 ∧ (Record.decode k w0 w1).WF :=
  ⟨encode_eq_spec k r hr.1, decode_eq_spec k w0 w1 hk h0, decode_wf k w0 w1 hk h1⟩

/-! ## the checksum -/

/-- The code's dword loop with its running byte offset (`rotate_left(i + j)`, e_lfanew zeroed by
`i == 0x3c`, wrapping adds) computes the documented checksum, and does not overflow its `u32`
offset for any stub below 4 GiB. -/
theorem C16_checksum_is_documented (stub : List Nat) (rs : List Record)
    (hlen : 4 * stub.length < 4294967296) (hwf : ∀ r ∈ rs, r.WF) :
    checksumOf stub rs = .ok (Spec.checksum stub rs) :=
  checksumOf_eq stub rs hlen hwf

/-- `u32::rotate_left` as modelled is the arithmetic rotation of the specification. -/
theorem C16_rotate_is_rotation (x n : Nat) (hx : x < 4294967296) :
    rotl32 x n = rol32 x n ∧ rol32 x n < 4294967296 :=
  ⟨rotl32_eq_spec x n hx, rol32_lt x n hx⟩

/-! ## (b) round trip -/

-- `Admissible` and `RoundTrips` (what is claimed for one input) are defined in Spec/Rich.lean.

/-- **Round trip, conditional form.**  It holds whenever the checksum is not zero and no two
consecutive records read `(product 0x536e, build 0x6144, count 0), (0, 0, 0)` (on disk: `DanS^k, k, k, k`). -/
theorem C16_round_trip_partial (stub : List Nat) (rs : List Record) (pad : Nat) (rest : List Nat)
    (ha : Admissible stub rs pad)
    (hk : Spec.checksum stub rs ≠ 0) (him : imitates rs = false) :
    RoundTrips stub rs pad rest := by
  obtain ⟨h16, hb, hwf, he⟩ := ha
  have hlen : 4 * stub.length < 4294967296 := by
    have h15 : stub.getD 15 0 < 4294967296 := by
      rw [List.getD_eq_getElem?_getD, List.getElem?_eq_getElem (by omega)]
      exact hb _ (List.getElem_mem _)
    omega
  have hn : rs.length < 536870906 := by
    have h15 : stub.getD 15 0 < 4294967296 := by
      rw [List.getD_eq_getElem?_getD, List.getElem?_eq_getElem (by omega)]
      exact hb _ (List.getElem_mem _)
    omega
  refine ⟨⟨stub, hdrWords (Spec.checksum stub rs) rs⟩, ?_, rfl, xorKey_hdr _ _ _, ?_, ?_, ?_⟩
  · rw [layout_eq _ _ _ _ hwf]
    exact tryFrom_layout stub _ rs pad rest h16 he hk hwf him
  · exact ⟨_, records_hdr _ _ _, collect_hdr _ rs hwf⟩
  · exact checksum_hdr stub _ rs hlen hwf
  · rw [encode_eq _ rs _ hlen hwf hn]
    simp only
    rw [if_neg (by omega), header_eq _ rs hwf]
    refine ⟨((Spec.checksum stub rs / 32) % 3 + rs.length) * 2 + 8, ?_⟩
    congr 4
    omega

/-- **dwords ∘ bytes = id.**  The little-endian bytes of any list of 32-bit values, followed by up to
three bytes that do not fill a dword, are seen by `Pe::rich_structure` (`words`: the `&[u8]` → `&[u32]`
reinterpretation) as exactly these values.  Together with `words_lt` (bytes ↦ dwords are 32-bit values,
`C16_rich_structure_no_ub`) this makes "list of dwords `< 2^32`" and "byte buffer" interchangeable. -/
theorem C16_words_bytesOf (ws : List Nat) (tail : Bytes) (h : ∀ w ∈ ws, w < 4294967296)
    (ht : tail.size < 4) : words (bytesOf ws ++ tail) = ws :=
  words_bytesOf_append ws tail h ht

example : words (bytesOf [23117, 0xfffffffe, 7] ++ #[1, 2, 3]) = [23117, 0xfffffffe, 7] := by decide +kernel
/-- the range hypothesis is needed: a value `≥ 2^32` does not fit a dword -/
example : words (bytesOf [4294967296]) = [0] := by decide +kernel

/-- **Round trip on the byte buffer, conditional form.**  `C16_round_trip_partial` for the buffer the
Rust code sees: the little-endian BYTES of the image (documented layout, then any 32-bit dwords `rest`,
then up to three stray bytes), at any 4-aligned address, read through `Pe::rich_structure`. -/
theorem C16_round_trip_bytes_partial (stub : List Nat) (rs : List Record) (pad : Nat) (rest : List Nat)
    (tail : Bytes) (base : Nat)
    (ha : Admissible stub rs pad)
    (hk : Spec.checksum stub rs ≠ 0) (him : imitates rs = false)
    (hrest : ∀ w ∈ rest, w < 4294967296) (ht : tail.size < 4) (hbase : base % 4 = 0) :
    RoundTripsBytes stub rs pad rest tail base := by
  obtain ⟨r, h1, h2⟩ := C16_round_trip_partial stub rs pad rest ha hk him
  refine ⟨r, ?_, h2⟩
  rw [ofImage_eq _ hbase]
  show tryFrom (words (bytesOf _ ++ tail)) = .ok r
  rw [words_bytesOf_append _ tail ?_ ht]
  · exact h1
  · intro w hw
    rcases List.mem_append.1 hw with hw | hw
    · exact layout_lt stub _ rs pad ha.2.1 (checksum_lt stub rs) ha.2.2.1 w hw
    · exact hrest w hw

/-- At an address that is not a multiple of 4 the reinterpretation itself is undefined behaviour (no
constructed view has such an address: `validate_headers`), so the alignment hypothesis is needed. -/
example : ofImage ⟨bytesOf [23117, 0, 0, 0, 0, 0, 0, 0, 0, 0, 0, 0, 0, 0, 0, 112], 2⟩
    = .ub "pe.rs:473 from_raw_parts(image as *const u32)" := by decide +kernel

/-- Witness 1 (zero key): a 64-byte stub `MZ 00…` and the one record `(0xffff, 0xfebf, 0)` have
checksum 0.  The trailer `Rich, 0` then ends in a zero dword, which `try_from` strips as padding:
it looks for `Rich` one dword too early and answers `BadMagic`.
Replay: `rich_rt 4d5a<62 zero bytes> 0xffff:0xfebf:0 0`. -/
theorem C16_round_trip_fails_for_zero_key :
    Admissible [23117, 0, 0, 0, 0, 0, 0, 0, 0, 0, 0, 0, 0, 0, 0, 96] [⟨0xfebf, 0xffff, 0⟩] 0 ∧
    Spec.checksum [23117, 0, 0, 0, 0, 0, 0, 0, 0, 0, 0, 0, 0, 0, 0, 96] [⟨0xfebf, 0xffff, 0⟩] = 0 ∧
    tryFrom (Spec.layout [23117, 0, 0, 0, 0, 0, 0, 0, 0, 0, 0, 0, 0, 0, 0, 96] 0 [⟨0xfebf, 0xffff, 0⟩] 0)
      = .err .badMagic := by
  refine ⟨?_, ?_, ?_⟩
  · unfold Admissible; decide
  · decide +kernel
  · decide +kernel

/-- Witness 2 (imitation): the records `(0x536e, 0x6144, 0), (0, 0, 0)` are written as
`DanS^k, k, k, k`; the backward scan stops at them, so the real header block is handed out as part
of the DOS stub and no record is returned.
Replay: `rich_rt 4d5a<62 zero bytes> 0x536e:0x6144:0,0:0:0 0`. -/
theorem C16_round_trip_fails_for_imitating_records :
    Admissible [23117, 0, 0, 0, 0, 0, 0, 0, 0, 0, 0, 0, 0, 0, 0, 104] [⟨0x6144, 0x536e, 0⟩, ⟨0, 0, 0⟩] 0 ∧
    Spec.checksum [23117, 0, 0, 0, 0, 0, 0, 0, 0, 0, 0, 0, 0, 0, 0, 104] [⟨0x6144, 0x536e, 0⟩, ⟨0, 0, 0⟩] = 1399743109 ∧
    tryFrom (Spec.layout [23117, 0, 0, 0, 0, 0, 0, 0, 0, 0, 0, 0, 0, 0, 0, 104] 1399743109
        [⟨0x6144, 0x536e, 0⟩, ⟨0, 0, 0⟩] 0)
      = .ok ⟨[23117, 0, 0, 0, 0, 0, 0, 0, 0, 0, 0, 0, 0, 0, 0, 104, 961, 1399743109, 1399743109, 1399743109],
             [961, 1399743109, 1399743109, 1399743109, 1751345490, 1399743109]⟩ := by
  refine ⟨?_, ?_, ?_⟩
  · unfold Admissible; decide
  · decide +kernel
  · decide +kernel

/-- **Round trip, unconditional form: false.**  (Both witnesses above refute it; the zero key is used.) -/
theorem C16_round_trip_full_false :
    ¬ (∀ stub rs pad rest, Admissible stub rs pad → RoundTrips stub rs pad rest) := by
  intro h
  obtain ⟨ha, hk, ht⟩ := C16_round_trip_fails_for_zero_key
  obtain ⟨r, h1, _⟩ := h _ _ 0 [] ha
  rw [hk, List.append_nil, ht] at h1
  cases h1

/-! ## (c) rejection: what an `Ok` guarantees -/

/-- If `try_from` yields a structure then the DOS area *is* the documented layout of exactly the
stub, key and records it hands out, followed by `pad` zero dwords up to `e_lfanew`; the stub has at
least the 16 dwords of the DOS header and the key is not zero.  (`image` = dwords of a byte buffer.) -/
theorem C16_ok_means_documented_layout (image : List Nat) (hb : ∀ w ∈ image, w < 4294967296)
    (r : RichS) (h : tryFrom image = .ok r) :
    ∃ k it pad, r.xorKey = .ok k ∧ k ≠ 0 ∧ r.records = .ok it ∧ it.Inv ∧ (∀ x ∈ it.collect, x.WF) ∧
      16 ≤ r.dosStub.length ∧
      areaOf image = Spec.layout r.dosStub k it.collect pad ∧
      r.image = Spec.header k it.collect ∧
      r.checksum = .ok (Spec.checksum r.dosStub it.collect) := by
  obtain ⟨h16, hn, s, e, k, hr, hwf, hk, _⟩ := tryFrom_sound image r h
  have hba : ∀ w ∈ areaOf image, w < 4294967296 := fun w hw => hb w (List.mem_of_mem_take hw)
  obtain ⟨rs, hrs, he, hM, hA⟩ := parsed_layout (areaOf image) s e k hwf hba
  have hs : ((areaOf image).take s).length = s := (parsed_shape _ s e k hwf).1
  have hlen : 4 * ((areaOf image).take s).length < 4294967296 := by
    have h15 : image.getD 15 0 < 4294967296 := by
      rw [List.getD_eq_getElem?_getD, List.getElem?_eq_getElem (by omega)]
      exact hb _ (List.getElem_mem _)
    have : (areaOf image).length ≤ image.getD 15 0 / 4 := by unfold areaOf; rw [List.length_take]; omega
    have := hwf.2.2.1; have := hwf.2.1
    omega
  subst hr
  simp only
  rw [hM]
  refine ⟨k, ⟨encodeAll k rs, k⟩, (areaOf image).length - e, xorKey_hdr _ _ _, hk, records_hdr _ _ _, ?_, ?_, ?_, ?_, ?_, ?_⟩
  · refine ⟨?_, ?_⟩
    · show (encodeAll k rs).length % 2 = 0
      rw [encodeAll_length]; omega
    · show (encodeAll k rs).length < USZ
      rw [encodeAll_length]; unfold USZ
      have := hwf.2.2.1
      have h15 : image.getD 15 0 < 4294967296 := by
        rw [List.getD_eq_getElem?_getD, List.getElem?_eq_getElem (by omega)]
        exact hb _ (List.getElem_mem _)
      have : (areaOf image).length ≤ image.getD 15 0 / 4 := by unfold areaOf; rw [List.length_take]; omega
      omega
  · rw [collect_hdr k rs hrs]; exact hrs
  · rw [hs]; exact hwf.1
  · rw [collect_hdr k rs hrs, layout_eq _ _ _ _ hrs]; exact hA
  · rw [collect_hdr k rs hrs, header_eq k rs hrs]
  · rw [collect_hdr k rs hrs]; exact checksum_hdr _ k rs hlen hrs

/-- The same in positions: `DanS^key, key, key, key` at `start ≥ 16`, `Rich, key` right before `end`,
an even number of dwords between, only zero dwords from `end` to `e_lfanew`; and the image has its
`e_lfanew` dword and is at least `e_lfanew` long. -/
theorem C16_ok_means_well_formed_trailer (image : List Nat) (r : RichS) (h : tryFrom image = .ok r) :
    16 ≤ image.length ∧ image.getD 15 0 / 4 ≤ image.length ∧
    ∃ k, k ≠ 0 ∧ WellFormedAt (areaOf image) r.start r.end_ k ∧
      r.dosStub = (areaOf image).take r.start ∧ r.image = ((areaOf image).take r.end_).drop r.start := by
  obtain ⟨h16, hn, s, e, k, hr, hwf, hk, _⟩ := tryFrom_sound image r h
  obtain ⟨h1, h2, _⟩ := parsed_shape (areaOf image) s e k hwf
  have hs : r.start = s := by subst hr; exact h1
  have he : r.end_ = e := by
    subst hr; unfold RichS.end_; simp only; rw [h1, h2]; have := hwf.2.1; omega
  refine ⟨h16, hn, k, hk, by rw [hs, he]; exact hwf, by rw [hs, hr], by rw [hs, he, hr]⟩

/-- Hence: a DOS area without a well-formed `DanS … Rich key` trailer never yields records. -/
theorem C16_no_trailer_no_records (image : List Nat)
    (hno : ¬ ∃ s e k, WellFormedAt (areaOf image) s e k) : ∀ r, tryFrom image ≠ .ok r := by
  intro r h
  obtain ⟨_, _, k, _, hwf, _⟩ := C16_ok_means_well_formed_trailer image r h
  exact hno ⟨_, _, k, hwf⟩

/-- Conversely the exact acceptance condition: a well-formed trailer with a non-zero key and no
imitation of the header block between header and trailer is found exactly. -/
theorem C16_well_formed_trailer_is_found (image : List Nat) (s e k : Nat) (h16 : 16 ≤ image.length)
    (hn : image.getD 15 0 / 4 ≤ image.length)
    (hwf : WellFormedAt (areaOf image) s e k) (hk : k ≠ 0) (hno : NoFake (areaOf image) s e k) :
    tryFrom image = .ok ⟨(areaOf image).take s, ((areaOf image).take e).drop s⟩ := by
  rw [tryFrom_eq, if_pos ⟨h16, hn⟩]
  exact parseArea_complete _ s e k hwf hk hno

/-! ## (d) no panic, no out-of-bounds access, termination (C02 / C03 obligations of this module) -/

/-- `try_from` on *any* dword list answers a structure, `Invalid` or `BadMagic`: every `image[..]`
and every subtraction of the two scans is in range, both loops terminate. -/
theorem C16_try_from_total (image : List Nat) :
    (∃ r, tryFrom image = .ok r) ∨ tryFrom image = .err .invalid ∨ tryFrom image = .err .badMagic :=
  tryFrom_total image

/-- `Pe::rich_structure`: the `u32` reinterpretation is in bounds and aligned for every image whose
address is a multiple of 4 (which `validate_headers` has checked for every constructed view). -/
theorem C16_rich_structure_no_ub (img : Img) (h : img.base % 4 = 0) :
    ofImage img = tryFrom (words img.bytes) ∧ ∀ w ∈ words img.bytes, w < 4294967296 :=
  ⟨ofImage_eq img h, words_lt img.bytes⟩

/-- Every call of every `RichIter` method on an iterator over any slice (even one with a dangling
odd dword) returns; in particular `nth(n)` returns for every `n` (the `n * 2 + 2` of the guard
was removed by commit ed9f3f7; the products under the new guard cannot overflow). -/
theorem C16_iter_total (it : Iter) (hlen : it.iter.length < USZ) (op : Op) : ∃ p, it.step op = .ok p :=
  step_total it hlen op

/-- C18 for `RichIter`: on an iterator as handed out by `records()` every finite history of
`next / next_back / nth k / len / size_hint / count / clone` gives exactly the answers of a deque
holding the decoded records (so size hints are exact and the iterator is fused). -/
theorem C16_iter_is_deque (it : Iter) (h : it.Inv) (ops : List Op) :
    it.run ops = .ok (runDeque it.collect ops) :=
  run_refines ops it h

/-- `collect` (used above for "the records") is `next` run to exhaustion. -/
theorem C16_collect_is_next (it it' : Iter) :
    (∀ r, it.next = .ok (some r, it') → it.collect = r :: it'.collect) ∧
    (it.next = .ok (none, it') → it.collect = [] ∧ it' = it) :=
  ⟨fun r h => collect_next_some it it' r h, collect_next_none it it'⟩

/-- `encode` never panics for fewer than 536 870 906 records and writes exactly the documented header
with the checksum of the structure's stub and the new records as key, then zero padding; a too
small destination is reported with the length MSVC would have used.
(From 536 870 906..908 records on — 4 GiB of `RichRecord`s — `(.. + n as u32) * 8 + 0x20` overflows `u32`.) -/
theorem C16_encode_total (r : RichS) (rs : List Record) (destLen : Nat)
    (hlen : 4 * r.dosStub.length < 4294967296) (hwf : ∀ x ∈ rs, x.WF) (hn : rs.length < 536870906) :
    r.encode rs destLen = .ok (
      let k := Spec.checksum r.dosStub rs
      let total := ((k / 32) % 3 + rs.length) * 2 + 8
      if destLen < rs.length * 2 + 6 then .tooSmall total
      else .done total (Spec.header k rs ++ List.replicate (destLen - (rs.length * 2 + 6)) 0)) := by
  rw [encode_eq r rs destLen hlen hwf hn]
  simp only [header_eq _ rs hwf]

/-! ## non-vacuity -/

/-- the hypotheses of the conditional round trip are satisfiable, and its conclusion computes -/
example : Admissible [23117, 0, 0, 0, 0, 0, 0, 0, 0, 0, 0, 0, 0, 0, 0, 112] [⟨0x6fc4, 0x105, 77⟩, ⟨0, 1, 3⟩] 2 ∧
    Spec.checksum [23117, 0, 0, 0, 0, 0, 0, 0, 0, 0, 0, 0, 0, 0, 0, 112] [⟨0x6fc4, 0x105, 77⟩, ⟨0, 1, 3⟩] = 2919268705 ∧
    imitates [⟨0x6fc4, 0x105, 77⟩, ⟨0, 1, 3⟩] = false := by
  refine ⟨by unfold Admissible; decide, by decide +kernel, by decide⟩

/-- the byte-level hypotheses on the same instance (two PE dwords after the DOS area, one stray byte) -/
example : (∀ w ∈ [0x4550, 0x14c], w < 4294967296) ∧ (#[0x90] : Bytes).size < 4 ∧ 0x140000000 % 4 = 0 := by decide

example : tryFrom ([23117, 0, 0, 0, 0, 0, 0, 0, 0, 0, 0, 0, 0, 0, 0, 112,
      4251901989, 2919268705, 2919268705, 2919268705, 2936401573, 2919268652, 2919334241, 2919268706,
      1751345490, 2919268705, 0, 0] ++ [0x4550, 0x14c])
    = .ok ⟨[23117, 0, 0, 0, 0, 0, 0, 0, 0, 0, 0, 0, 0, 0, 0, 112],
           [4251901989, 2919268705, 2919268705, 2919268705, 2936401573, 2919268652, 2919334241, 2919268706,
            1751345490, 2919268705]⟩ := by
  decide +kernel

/-- … and the same image as bytes, with a stray byte, through `Pe::rich_structure` -/
example : ofImage ⟨bytesOf ([23117, 0, 0, 0, 0, 0, 0, 0, 0, 0, 0, 0, 0, 0, 0, 112,
      4251901989, 2919268705, 2919268705, 2919268705, 2936401573, 2919268652, 2919334241, 2919268706,
      1751345490, 2919268705, 0, 0] ++ [0x4550, 0x14c]) ++ #[0x90], 0x140000000⟩
    = .ok ⟨[23117, 0, 0, 0, 0, 0, 0, 0, 0, 0, 0, 0, 0, 0, 0, 112],
           [4251901989, 2919268705, 2919268705, 2919268705, 2936401573, 2919268652, 2919334241, 2919268706,
            1751345490, 2919268705]⟩ := by
  decide +kernel

/-- an area that is rejected: the trailer key differs from the header key -/
example : tryFrom [23117, 0, 0, 0, 0, 0, 0, 0, 0, 0, 0, 0, 0, 0, 0, 88, DANS ^^^ 5, 5, 5, 5, RICH, 6]
    = .err .invalid := by
  decide +kernel

/-- a deque history on a real iterator -/
example : (Iter.mk [1, 2, 3, 4, 5, 6] 0).run [.nth 1, .len, .nextBack, .next] =
    .ok [.item (some ⟨3, 0, 4⟩), .num 1, .item (some ⟨5, 0, 6⟩), .item none] := by
  decide +kernel

end Pelite.Rich
