import PeliteModel.Lemmas.Rich
/-! C16 — Rich header decode, checksum and encode are mutually consistent. -/
namespace Pelite.Rich
end Pelite.Rich
