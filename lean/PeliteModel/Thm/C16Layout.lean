import PeliteModel.Model.Rich
import PeliteModel.Generated.ImageLayout
/-!
C16 — the two places where `Model/Rich.lean` refers to a field of a struct of `image.rs`: `e_lfanew` of
`IMAGE_DOS_HEADER`, as dword index `15` (`image.get(15)` in `RichStructure::try_from`) and as byte offset `0x3c`
("Zero the e_lfanew field" in `_checksum`).  Both are literals in the Rust code as well; they are stated here as the
offset of the field in the *current source* (`Generated/ImageLayout.lean`, rewritten on every check run), so the
statement breaks if the field moves.

Nothing else in the module is a struct of `image.rs`: `RichRecord { build: u16, product: u16, count: u32 }` is
declared in `rich_structure.rs` and is decoded from two dwords by shifts and masks, not by layout.
-/
namespace Pelite.Rich
open Pelite Pelite.Generated.Layout

/-- `try_from` takes the length of the DOS stub area from the dword that holds `e_lfanew`, and the checksum treats
the four bytes at the offset of `e_lfanew` as zero. -/
theorem C16_model_offsets (image : List Nat) (w : Nat) (ws : List Nat) (i csum : Nat) :
    tryFrom image =
      (match image[IMAGE_DOS_HEADER__e_lfanew / 4]? with
       | none => .err .invalid
       | some eLfanew =>
         if eLfanew / 4 > image.length then .err .invalid else parseArea (image.take (eLfanew / 4))) ∧
    IMAGE_DOS_HEADER__e_lfanew % 4 = 0 ∧ IMAGE_DOS_HEADER__size - IMAGE_DOS_HEADER__e_lfanew = 4 ∧
    csumStub (w :: ws) i csum =
      (if i + 3 ≥ 4294967296 then .panic "rich_structure.rs:98 i + k" else
       let z := i = IMAGE_DOS_HEADER__e_lfanew
       let b0 := if z then 0 else byte0 w
       let b1 := if z then 0 else byte1 w
       let b2 := if z then 0 else byte2 w
       let b3 := if z then 0 else byte3 w
       let csum := wadd32 csum (rotl32 b0 (i + 0))
       let csum := wadd32 csum (rotl32 b1 (i + 1))
       let csum := wadd32 csum (rotl32 b2 (i + 2))
       let csum := wadd32 csum (rotl32 b3 (i + 3))
       if i + 4 ≥ 4294967296 then .panic "rich_structure.rs:102 i += 4" else
       csumStub ws (i + 4) csum) :=
  ⟨rfl, rfl, rfl, rfl⟩

/-- non-vacuity: the dword at `e_lfanew` does not contribute to the checksum, its neighbours do -/
example : IMAGE_DOS_HEADER__e_lfanew = 60 ∧
    csumStub [0x12345678] 60 0 = csumStub [0] 60 0 ∧ csumStub [0x12345678] 56 0 ≠ csumStub [0] 56 0 := by
  decide +kernel

end Pelite.Rich
