import PeliteModel.Lemmas.Pattern
/-!
C17 — the compile-time macro `pelite::pattern!` and the run-time parser produce the same pattern.

Model (Model/Pattern.lean): `unescape` = `parse_str_literal` on the chars of `Literal::to_string()`;
`macroAtoms lit` = `unescape`, then `String::push` every char (`utf8`), then THE SAME `parse` (the proc
macro crate `include`s the very file `pattern.rs` as a module), then a compile error if that fails.
The code-generation step (`format!("{:?}")` of the atoms, re-parsed by rustc) is trusted and
validated by the batch correspondence check (`vlib/macrocase.py`).

`escapeWith choices cs` is the reference escaper: a Rust string literal for the chars `cs`, where
`choices` selects per char between the verbatim form and the backslash form for `'`, TAB, CR, LF
(`"` and `\` are always escaped).  The supported escapes are exactly `\\ \' \" \t \r \n`.
-/
namespace Pelite.Pattern

/-- **Unescape ∘ escape = id**, for every string and every mix of escape styles — also when the
literal token carries trailing junk after its closing quote (a literal suffix), which
`parse_str_literal` ignores. -/
theorem C17_unescape_escape (choices : List Bool) (cs junk : List Char) :
    unescape (escapeWith choices cs ++ junk) = .ok cs :=
  unescape_escapeWith choices cs junk

/-- **C17, first half.** For every pattern string `cs` and every way of writing it as a string
literal, the macro expands to exactly the atoms the run-time parser returns for `cs`. -/
theorem C17_macro_eq_parse (choices : List Bool) (cs : List Char) (atoms : List Atom)
    (h : parse (utf8 cs) = .ok atoms) : macroAtoms (escapeWith choices cs) = .ok atoms := by
  have := unescape_escapeWith choices cs []
  simp only [List.append_nil] at this
  unfold macroAtoms
  rw [this]
  dsimp only
  rw [h]

/-- **C17, second half.** A string the run-time parser rejects does not compile: the macro panics
with the parser's error (kind and position). -/
theorem C17_rejected_does_not_compile (choices : List Bool) (cs : List Char) (k : PatErr) (pos : Nat)
    (h : parse (utf8 cs) = .err k pos) :
    macroAtoms (escapeWith choices cs) = .error (.invalidPattern k pos) := by
  have := unescape_escapeWith choices cs []
  simp only [List.append_nil] at this
  unfold macroAtoms
  rw [this]
  dsimp only
  rw [h]

/-- The two cases above are exhaustive (the parser neither panics nor diverges inside the macro):
the macro's outcome on an escaped literal is a function of the run-time parser's outcome. -/
theorem C17_macro_total (choices : List Bool) (cs : List Char) :
    (∃ atoms, parse (utf8 cs) = .ok atoms ∧ macroAtoms (escapeWith choices cs) = .ok atoms) ∨
    (∃ k pos, parse (utf8 cs) = .err k pos ∧ macroAtoms (escapeWith choices cs) = .error (.invalidPattern k pos)) := by
  have := parse_good (utf8 cs)
  cases h : parse (utf8 cs) with
  | ok atoms => exact Or.inl ⟨atoms, rfl, C17_macro_eq_parse choices cs atoms h⟩
  | err k pos => exact Or.inr ⟨k, pos, rfl, C17_rejected_does_not_compile choices cs k pos h⟩
  | panic site => rw [h] at this; exact this.elim
  | diverge => rw [h] at this; exact this.elim

/-- Conversely the macro never accepts more than the parser: whatever literal text it is given, if it
expands to atoms then these are the run-time parser's atoms for the unescaped string. -/
theorem C17_macro_sound (lit : List Char) (atoms : List Atom) (h : macroAtoms lit = .ok atoms) :
    ∃ cs, unescape lit = .ok cs ∧ parse (utf8 cs) = .ok atoms := by
  unfold macroAtoms at h
  cases hu : unescape lit with
  | error e => rw [hu] at h; cases h
  | ok cs =>
    rw [hu] at h
    dsimp only at h
    cases hp : parse (utf8 cs) with
    | ok a => rw [hp] at h; cases h; exact ⟨cs, rfl, hp⟩
    | err k pos => rw [hp] at h; cases h
    | panic site => rw [hp] at h; cases h
    | diverge => rw [hp] at h; cases h

/-! ## What the unescaper does with everything else (non-vacuity and the unsupported forms) -/

/-- the repository's macro test (tests/patterns.rs style): escaped quotes inside the literal -/
example : macroAtoms "\"*{\\\"hello\\\"00}\"".toList = .ok
    [.save 0, .push 0, .ptr, .byte 104, .byte 101, .byte 108, .byte 108, .byte 111, .byte 0] := by decide +kernel
example : escape "*{\"hello\"00}".toList = "\"*{\\\"hello\\\"00}\"".toList := by decide +kernel
/-- tab / newline / CR inside the literal, escaped or verbatim, are the parser's whitespace -/
example : macroAtoms "\"12\\t34\\n56\\r78\n9a\t\"".toList =
    .ok [.save 0, .byte 0x12, .byte 0x34, .byte 0x56, .byte 0x78, .byte 0x9a] := by decide +kernel
example : macroAtoms "\"b9 \\' 37\"".toList = .ok [.save 0, .byte 0xb9, .save 1, .byte 0x37] := by decide +kernel
/-- a rejected pattern: compile error carrying the parser's kind and position -/
example : macroAtoms "\"AB {}\"".toList = .error (.invalidPattern .stackInvalid 3) := by decide +kernel
/-- unsupported escapes do not compile: `\0`, `\x41`, `\u{41}`, a line continuation, a trailing `\` -/
example : macroAtoms "\"12\\0\"".toList = .error (.unknownEscape '0') := by decide +kernel
example : macroAtoms "\"\\x41\"".toList = .error (.unknownEscape 'x') := by decide +kernel
example : macroAtoms "\"\\u{41}\"".toList = .error .unicodeEscape := by decide +kernel
example : macroAtoms "\"12 \\\n 34\"".toList = .error (.unknownEscape '\n') := by decide +kernel
example : macroAtoms "\"12\\".toList = .error .truncated := by decide +kernel
/-- raw / byte string literals and non-string tokens do not compile -/
example : macroAtoms "r\"12 34\"".toList = .error .notStringLiteral := by decide +kernel
example : macroAtoms "b\"12\"".toList = .error .notStringLiteral := by decide +kernel
/-- a literal suffix is ignored (leniency of the macro, harmless for C17) -/
example : macroAtoms "\"12 34\"suffix".toList = .ok [.save 0, .byte 0x12, .byte 0x34] := by decide +kernel

end Pelite.Pattern
