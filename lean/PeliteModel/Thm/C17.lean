import PeliteModel.Lemmas.Pattern
import PeliteModel.Lemmas.RustLiteral
/-!
C17 — the compile-time macro `pelite::pattern!` and the run-time parser produce the same pattern.

Model (Model/Pattern.lean): `unescape` = `parse_str_literal` on the chars of `Literal::to_string()`;
`macroAtoms lit` = `unescape`, then `String::push` every char (`utf8`), then THE SAME `parse` (the proc
macro crate `include`s the very file `pattern.rs` as a module), then a compile error if that fails.
The code-generation step (`format!("{:?}")` of the atoms, re-parsed by rustc) is trusted and
validated by the batch correspondence check (`vlib/macrocase.py`).

`escapeWith choices cs` (Spec/RustLiteral.lean) is the reference escaper: a Rust string literal for
the chars `cs`, where `choices` selects per char between the verbatim form and the backslash form for
`'`, TAB, CR, LF (`"` and `\` are always escaped).  The supported escapes are exactly `\\ \' \" \t \r \n`.

Second part of the file: the same statements against `Spec.rustLitValue` (Spec/RustLiteral.lean), the
meaning of a string literal token written from the Rust Reference independently of the model: for
EVERY well-formed literal, not only the image of `escapeWith`.
-/
namespace Pelite.Pattern

/-- **Unescape ∘ escape = id**, for every string and every mix of escape styles — also when the
literal token carries trailing junk after its closing quote (a literal suffix), which
`parse_str_literal` ignores. -/
theorem C17_unescape_escape (choices : List Bool) (cs junk : List Char) :
    unescape (escapeWith choices cs ++ junk) = .ok cs :=
  unescape_escapeWith choices cs junk

/-- **C17, first half.** For every pattern string `cs` and every way of writing it as a string
literal, the macro expands to exactly the atoms the run-time parser returns for `cs`. -/
theorem C17_macro_eq_parse (choices : List Bool) (cs : List Char) (atoms : List Atom)
    (h : parse (utf8 cs) = .ok atoms) : macroAtoms (escapeWith choices cs) = .ok atoms := by
  have := unescape_escapeWith choices cs []
  simp only [List.append_nil] at this
  unfold macroAtoms
  rw [this]
  dsimp only
  rw [h]

/-- **C17, second half.** A string the run-time parser rejects does not compile: the macro panics
with the parser's error (kind and position). -/
theorem C17_rejected_does_not_compile (choices : List Bool) (cs : List Char) (k : PatErr) (pos : Nat)
    (h : parse (utf8 cs) = .err k pos) :
    macroAtoms (escapeWith choices cs) = .error (.invalidPattern k pos) := by
  have := unescape_escapeWith choices cs []
  simp only [List.append_nil] at this
  unfold macroAtoms
  rw [this]
  dsimp only
  rw [h]

/-- The two cases above are exhaustive (the parser neither panics nor diverges inside the macro):
the macro's outcome on an escaped literal is a function of the run-time parser's outcome. -/
theorem C17_macro_total (choices : List Bool) (cs : List Char) :
    (∃ atoms, parse (utf8 cs) = .ok atoms ∧ macroAtoms (escapeWith choices cs) = .ok atoms) ∨
    (∃ k pos, parse (utf8 cs) = .err k pos ∧ macroAtoms (escapeWith choices cs) = .error (.invalidPattern k pos)) := by
  have := parse_good (utf8 cs)
  cases h : parse (utf8 cs) with
  | ok atoms => exact Or.inl ⟨atoms, rfl, C17_macro_eq_parse choices cs atoms h⟩
  | err k pos => exact Or.inr ⟨k, pos, rfl, C17_rejected_does_not_compile choices cs k pos h⟩
  | panic site => rw [h] at this; exact this.elim
  | diverge => rw [h] at this; exact this.elim

/-- Conversely the macro never accepts more than the parser: whatever literal text it is given, if it
expands to atoms then these are the run-time parser's atoms for the unescaped string. -/
theorem C17_macro_sound (lit : List Char) (atoms : List Atom) (h : macroAtoms lit = .ok atoms) :
    ∃ cs, unescape lit = .ok cs ∧ parse (utf8 cs) = .ok atoms := by
  unfold macroAtoms at h
  cases hu : unescape lit with
  | error e => rw [hu] at h; cases h
  | ok cs =>
    rw [hu] at h
    dsimp only at h
    cases hp : parse (utf8 cs) with
    | ok a => rw [hp] at h; cases h; exact ⟨cs, rfl, hp⟩
    | err k pos => rw [hp] at h; cases h
    | panic site => rw [hp] at h; cases h
    | diverge => rw [hp] at h; cases h

/-! ## What the unescaper does with everything else (non-vacuity and the unsupported forms) -/

/-- the repository's macro test (tests/patterns.rs style): escaped quotes inside the literal -/
example : macroAtoms "\"*{\\\"hello\\\"00}\"".toList = .ok
    [.save 0, .push 0, .ptr, .byte 104, .byte 101, .byte 108, .byte 108, .byte 111, .byte 0] := by decide +kernel
example : escape "*{\"hello\"00}".toList = "\"*{\\\"hello\\\"00}\"".toList := by decide +kernel
/-- tab / newline / CR inside the literal, escaped or verbatim, are the parser's whitespace -/
example : macroAtoms "\"12\\t34\\n56\\r78\n9a\t\"".toList =
    .ok [.save 0, .byte 0x12, .byte 0x34, .byte 0x56, .byte 0x78, .byte 0x9a] := by decide +kernel
example : macroAtoms "\"b9 \\' 37\"".toList = .ok [.save 0, .byte 0xb9, .save 1, .byte 0x37] := by decide +kernel
/-- a rejected pattern: compile error carrying the parser's kind and position -/
example : macroAtoms "\"AB {}\"".toList = .error (.invalidPattern .stackInvalid 3) := by decide +kernel
/-- unsupported escapes do not compile: `\0`, `\x41`, `\u{41}`, a line continuation, a trailing `\` -/
example : macroAtoms "\"12\\0\"".toList = .error (.unknownEscape '0') := by decide +kernel
example : macroAtoms "\"\\x41\"".toList = .error (.unknownEscape 'x') := by decide +kernel
example : macroAtoms "\"\\u{41}\"".toList = .error .unicodeEscape := by decide +kernel
example : macroAtoms "\"12 \\\n 34\"".toList = .error (.unknownEscape '\n') := by decide +kernel
example : macroAtoms "\"12\\".toList = .error .truncated := by decide +kernel
/-- raw / byte string literals and non-string tokens do not compile -/
example : macroAtoms "r\"12 34\"".toList = .error .notStringLiteral := by decide +kernel
example : macroAtoms "b\"12\"".toList = .error .notStringLiteral := by decide +kernel
/-- a literal suffix is ignored (leniency of the macro, harmless for C17) -/
example : macroAtoms "\"12 34\"suffix".toList = .ok [.save 0, .byte 0x12, .byte 0x34] := by decide +kernel


/-! ## Against the independent meaning of string literals (`Spec.rustLitValue`)

`Spec.rustLitValue lit = some s`: the text `lit` is a well-formed Rust string literal token (any
suffix) and `s` is the `str` it denotes according to the Rust Reference — all escapes included
(`\0`, `\xNN`, `\u{…}`, line continuation), a bare CR rejected. -/

/-- The unconditional soundness statement "`unescape lit = .ok cs → rustLitValue lit = some cs`" is
FALSE: `parse_str_literal` passes a bare CR through, rustc's lexer rejects it ("bare CR not allowed
in string").  Harmless for C17 — such a token never reaches a compiled program — but it is why the
next theorem has a hypothesis. -/
theorem C17_unescape_sound_false :
    ¬ ∀ lit cs, unescape lit = .ok cs → Spec.rustLitValue lit = some cs := by
  intro h
  have := h "\"12\r34\"".toList "12\r34".toList (by decide +kernel)
  revert this
  decide +kernel

/-- **Whenever the macro accepts a literal, the string it hands to the parser IS the literal's
value** — for every token text without a CR char (the only divergence, see above). -/
theorem C17_unescape_sound_partial (lit cs : List Char) (hcr : '\r' ∉ lit)
    (h : unescape lit = .ok cs) : Spec.rustLitValue lit = some cs :=
  unescape_sound lit cs hcr h

example : '\r' ∉ "\"12 \\r\\n\t'\\' \\\"a\\\" \\\\\"".toList ∧
    unescape "\"12 \\r\\n\t'\\' \\\"a\\\" \\\\\"".toList = .ok "12 \r\n\t'' \"a\" \\".toList := by decide +kernel

/-- **The macro rejects a well-formed literal only for an escape it does not implement**: `\0`,
`\xNN`, `\u{…}` or a line continuation; every other well-formed literal is unescaped to its value. -/
theorem C17_unescape_rejects_only_unsupported (lit cs : List Char)
    (h : Spec.rustLitValue lit = some cs) : unescape lit = .ok cs ∨ Spec.UsesUnsupportedEscape lit :=
  unescape_complete lit cs h

/-- … and those it does reject, with `parse_str_literal`'s panic for the first such escape. -/
theorem C17_unsupported_rejected (lit cs : List Char) (h : Spec.rustLitValue lit = some cs)
    (hu : Spec.UsesUnsupportedEscape lit) :
    unescape lit = .error .unicodeEscape ∨ unescape lit = .error (.unknownEscape '0') ∨
    unescape lit = .error (.unknownEscape 'x') ∨ unescape lit = .error (.unknownEscape '\n') :=
  unescape_unsupported lit cs h hu

/-- On a well-formed literal the macro's string is never a *different* string than the literal's
value (no hypothesis on CR needed: the literal is well-formed). -/
theorem C17_unescape_agrees (lit v cs : List Char) (hv : Spec.rustLitValue lit = some v)
    (h : unescape lit = .ok cs) : cs = v := by
  rcases unescape_complete lit v hv with h' | hu
  · rw [h'] at h; cases h; rfl
  · rcases unescape_unsupported lit v hv hu with h' | h' | h' | h' <;> (rw [h'] at h; cases h)

/-- **C17, first half, for every literal.** If `lit` is a well-formed string literal denoting `s`
and uses no unsupported escape, the macro expands to exactly the atoms the run-time parser returns
for `s`. -/
theorem C17_macro_eq_parse_lit (lit s : List Char) (atoms : List Atom)
    (hv : Spec.rustLitValue lit = some s) (hs : ¬ Spec.UsesUnsupportedEscape lit)
    (h : parse (utf8 s) = .ok atoms) : macroAtoms lit = .ok atoms := by
  have hu : unescape lit = .ok s := (unescape_complete lit s hv).resolve_right hs
  unfold macroAtoms
  rw [hu]
  dsimp only
  rw [h]

/-- **C17, second half, for every literal.** If the run-time parser rejects the literal's value, the
invocation does not compile: the macro panics with the parser's error (kind and position). -/
theorem C17_rejected_does_not_compile_lit (lit s : List Char) (k : PatErr) (pos : Nat)
    (hv : Spec.rustLitValue lit = some s) (hs : ¬ Spec.UsesUnsupportedEscape lit)
    (h : parse (utf8 s) = .err k pos) : macroAtoms lit = .error (.invalidPattern k pos) := by
  have hu : unescape lit = .ok s := (unescape_complete lit s hv).resolve_right hs
  unfold macroAtoms
  rw [hu]
  dsimp only
  rw [h]

/-- the hypotheses on a literal with mixed verbatim / escaped forms, a suffix, and non-ASCII text -/
example : Spec.rustLitValue "\"e8 ${'} \\\"é\\\" \\t\n?\"suffix".toList = some "e8 ${'} \"é\" \t\n?".toList ∧
    ¬ Spec.UsesUnsupportedEscape "\"e8 ${'} \\\"é\\\" \\t\n?\"suffix".toList := by decide +kernel

/-- A well-formed literal that does use an unsupported escape never compiles (so the macro accepts
nothing the run-time parser would not be asked about). -/
theorem C17_unsupported_does_not_compile (lit s : List Char) (hv : Spec.rustLitValue lit = some s)
    (hu : Spec.UsesUnsupportedEscape lit) : ∃ e, macroAtoms lit = .error e := by
  unfold macroAtoms
  rcases unescape_unsupported lit s hv hu with h' | h' | h' | h' <;> (rw [h']; exact ⟨_, rfl⟩)

example : Spec.rustLitValue "\"12 \\x41\"".toList = some "12 A".toList ∧
    Spec.UsesUnsupportedEscape "\"12 \\x41\"".toList := by decide +kernel

/-- The macro's outcome on ANY well-formed string literal is a function of the run-time parser's
outcome on the literal's value, or the literal uses an unsupported escape and does not compile. -/
theorem C17_macro_total_lit (lit s : List Char) (hv : Spec.rustLitValue lit = some s) :
    (∃ atoms, parse (utf8 s) = .ok atoms ∧ macroAtoms lit = .ok atoms) ∨
    (∃ k pos, parse (utf8 s) = .err k pos ∧ macroAtoms lit = .error (.invalidPattern k pos)) ∨
    (Spec.UsesUnsupportedEscape lit ∧ ∃ e, macroAtoms lit = .error e) := by
  by_cases hs : Spec.UsesUnsupportedEscape lit
  · exact Or.inr (Or.inr ⟨hs, C17_unsupported_does_not_compile lit s hv hs⟩)
  · have := parse_good (utf8 s)
    cases h : parse (utf8 s) with
    | ok atoms => exact Or.inl ⟨atoms, rfl, C17_macro_eq_parse_lit lit s atoms hv hs h⟩
    | err k pos => exact Or.inr (Or.inl ⟨k, pos, rfl, C17_rejected_does_not_compile_lit lit s k pos hv hs h⟩)
    | panic site => rw [h] at this; exact this.elim
    | diverge => rw [h] at this; exact this.elim

/-- Soundness of the macro in terms of the literal's value: on a well-formed literal, atoms the macro
expands to are the run-time parser's atoms for the VALUE of the literal. -/
theorem C17_macro_sound_lit (lit s : List Char) (atoms : List Atom)
    (hv : Spec.rustLitValue lit = some s) (h : macroAtoms lit = .ok atoms) :
    parse (utf8 s) = .ok atoms := by
  obtain ⟨cs, hu, hp⟩ := C17_macro_sound lit atoms h
  rw [← C17_unescape_agrees lit s cs hv hu]
  exact hp

/-! ### The reference writer produces literals with the intended value -/

/-- the all-backslash form is a well-formed literal denoting `s`, with any suffix -/
theorem C17_escape_value (s junk : List Char) :
    Spec.rustLitLex (escape s ++ junk) = some (s, junk) :=
  rustLitLex_escapeWith [] s junk (cr_not_mem_escape s)

/-- every mix of styles that does not write a CR verbatim is a well-formed literal denoting `s` -/
theorem C17_escapeWith_value_partial (sty : List Bool) (s junk : List Char)
    (h : '\r' ∉ escapeWith sty s) : Spec.rustLitLex (escapeWith sty s ++ junk) = some (s, junk) :=
  rustLitLex_escapeWith sty s junk h

example : '\r' ∉ escapeWith [false, true, false] "'\r\n\t".toList ∧
    escapeWith [false, true, false] "'\r\n\t".toList = "\"'\\r\n\\t\"".toList := by decide +kernel

/-- … and the hypothesis is needed: the verbatim style on a CR is the bare CR rustc rejects (the model's
`unescape` accepts it, `C17_unescape_escape`). -/
theorem C17_escapeWith_value_false :
    ¬ ∀ sty s, Spec.rustLitValue (escapeWith sty s) = some s := by
  intro h
  have := h [false] ['\r']
  revert this
  decide +kernel

/-- what the new escapes mean (none of them compiles through the macro, see the examples above) -/
example : Spec.rustLitValue "\"\\x41\\u{1F6_00_}\\0 \\\n   \t x\"".toList =
    some ['A', Char.ofNat 0x1F600, Char.ofNat 0, ' ', 'x'] := by decide +kernel
example : Spec.rustLitValue "\"\\x80\"".toList = none ∧ Spec.rustLitValue "\"\\u{D800}\"".toList = none ∧
    Spec.rustLitValue "\"\\u{_41}\"".toList = none ∧ Spec.rustLitValue "\"\\u{0000041}\"".toList = none ∧
    Spec.rustLitValue "\"\\u{}\"".toList = none ∧ Spec.rustLitValue "\"\\q\"".toList = none ∧
    Spec.rustLitValue "\"12".toList = none ∧ Spec.rustLitValue "r\"12\"".toList = none ∧
    Spec.rustLitValue "b\"12\"".toList = none := by decide +kernel

end Pelite.Pattern
