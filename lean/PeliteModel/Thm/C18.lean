import PeliteModel.Thm.C16
import PeliteModel.Thm.C14
import PeliteModel.Thm.C20
/-!
C18 — iterators behave as faithful sequences under any interleaving of calls.

Hand-written iterators with content of their own:
* `RichIter` (next / next_back / nth / len / size_hint / count / clone): full refinement to the deque
  specification for every history, `C16_iter_is_deque` (restated here);
* `IterBlocks` (relocation blocks, forward only, fused): below;
* `strings::Enumerator` (forward only, idempotent at the end): below;
* `PgoIter`: in the debug-directory module (C15).
The remaining iterators (`imports::Iter`, `debug::Iter`, export / resource entry iterators,
`Wrap<I32, I64>`) delegate every method to `std::slice::Iter` / `Range` / the wrapped iterator; that
they really do is what the correspondence run checks (every call history is executed on the real
iterator and on a `VecDeque` of its items, in the harness).
-/
namespace Pelite

open Rich Rich.Spec in
/-- `RichIter`: every finite history over {next, next_back, nth k, len, size_hint, count, clone}
answers exactly like a deque of the decoded records; hints are exact; fused. -/
theorem C18_rich_iter_is_deque (it : Rich.Iter) (h : it.Inv) (ops : List Op) :
    it.run ops = .ok (runDeque it.collect ops) :=
  Rich.C16_iter_is_deque it h ops

namespace Relocs

/-- `IterBlocks::next` on the state "remaining data starts at `off`" -/
def nextBlock (data : Bytes) (off : Nat) : Option (Block × Nat) :=
  match peek data off with
  | none => none
  | some b => some (b, off + step b.size (data.size - off))

/-- The block iterator is the plain front-to-back sequence `blocksFrom`: `next` pops its head … -/
theorem C18_blocks_next_some (data : Bytes) (off : Nat) (b : Block) (off' : Nat)
    (h : nextBlock data off = some (b, off')) :
    blocksFrom data off = b :: blocksFrom data off' := by
  unfold nextBlock at h
  cases hp : peek data off with
  | none => rw [hp] at h; cases h
  | some b0 =>
    rw [hp] at h
    simp only [Option.some.injEq, Prod.mk.injEq] at h
    obtain ⟨rfl, rfl⟩ := h
    rw [blocksFrom]
    split
    · rename_i h2; rw [hp] at h2; cases h2
    · rename_i b1 h2; rw [hp] at h2; cases h2; rfl

/-- … and it is fused: `None` exactly when the sequence is empty, and then the state is unchanged,
so every later call answers `None` again. -/
theorem C18_blocks_next_none (data : Bytes) (off : Nat) :
    nextBlock data off = none ↔ blocksFrom data off = [] := by
  unfold nextBlock
  cases hp : peek data off with
  | none =>
    simp only [true_iff]
    rw [blocksFrom]
    split
    · rfl
    · rename_i b1 h2; rw [hp] at h2; cases h2
  | some b0 =>
    simp only [reduceCtorEq, false_iff]
    rw [blocksFrom]
    split
    · rename_i h2; rw [hp] at h2; cases h2
    · simp

/-- `count`, `size_hint` (default implementations over `next`) and `clone` (the state is the slice)
therefore see exactly `blocksFrom`; its length is bounded by the input (C14 / C03). -/
theorem C18_blocks_finite (data : Bytes) : (blocks data).length ≤ data.size / 8 :=
  C14_blocks_count data

end Relocs

namespace Strings

/-- The string enumerator is the front-to-back sequence of qualifying runs: `next` from a run
boundary yields the first qualifying run at or after the offset and moves behind it (C20), and once
the offset reached the end of the buffer it keeps returning `None` (idempotent at the end). -/
theorem C18_strings_fused (bytes : Bytes) (cfg : Config) : next bytes cfg bytes.size = none :=
  C20_next_at_end bytes cfg

theorem C18_strings_sequence (bytes : Bytes) (cfg : Config) (hm : 1 ≤ cfg.minLen) (hn : 1 ≤ cfg.minLenNul) :
    ∃ fs, enumAll bytes cfg (bytes.size + 2) 0 = .ok fs ∧ (∀ g, g ∈ fs ↔ Qualifies bytes cfg g) ∧
      fs.Pairwise (fun a b => a.start + a.len < b.start) :=
  C20_enumerate_exact bytes cfg hm hn

end Strings

/-! Delegating iterators: the deque specification itself, for any item type — the statement that a
`slice::Iter`-backed iterator answers like a deque is the contract of `std` (trusted, see DESIGN.md);
what can be proved is that the specification is self-consistent: exact size hints and fusedness. -/
namespace DequeSpec

def next {α} (q : List α) : Option α × List α := (q.head?, q.tail)
def nextBack {α} (q : List α) : Option α × List α := (q.getLast?, q.dropLast)
def nth {α} (q : List α) (n : Nat) : Option α × List α := (q[n]?, q.drop (n + 1))

/-- after any call the remaining length is what an exact size hint must report -/
theorem C18_len_after {α} (q : List α) (n : Nat) :
    (next q).2.length = q.length - 1 ∧ (nextBack q).2.length = q.length - 1 ∧
    (nth q n).2.length = q.length - (n + 1) := by
  simp [next, nextBack, nth]

/-- fused: an exhausted sequence answers `none` to every call and stays exhausted -/
theorem C18_fused {α} (n : Nat) :
    next ([] : List α) = (none, []) ∧ nextBack ([] : List α) = (none, []) ∧ nth ([] : List α) n = (none, []) := by
  simp [next, nextBack, nth]

/-- `nth k` = `k` times `next`, then `next` -/
theorem C18_nth_is_iterated_next {α} (q : List α) (k : Nat) :
    nth q k = next (q.drop k) := by
  simp [nth, next, List.head?_drop, List.tail_drop]

end DequeSpec

/-- Non-vacuity: a concrete Rich iterator state and history. -/
example : (Rich.Iter.mk [1, 2, 3, 4] 0).iter.length = 4 := rfl

end Pelite
