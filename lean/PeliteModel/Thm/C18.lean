import PeliteModel.Thm.C16
import PeliteModel.Thm.C14
import PeliteModel.Thm.C20
import PeliteModel.Lemmas.IterSeq
import PeliteModel.Lemmas.RelocsFold
/-!
C18 — iterators behave as faithful sequences under any interleaving of calls.

Hand-written iterators with content of their own:
* `RichIter` (next / next_back / nth / len / size_hint / count / clone): full refinement to the deque
  specification for every history, `C16_iter_is_deque` (restated here);
* `IterBlocks` (relocation blocks; `Iterator + Clone + FusedIterator`, only `next` hand-written, the
  rest are the provided methods): every history over {next, nth k, size_hint, count, clone} answers
  like the plain list of the blocks, `C18_blocks_is_seq` (model of the iterator object in
  Model/Relocs.lean, `runOps` in Spec/Relocs.lean, sequence specification in Lemmas/IterSeq.lean);
* `strings::Enumerator` (`Iterator + Clone`, only `next` hand-written): `None` is absorbing from every
  state, `C18_strings_fused_from`; every history answers like the list of the runs, `C18_strings_is_seq`;
* `PgoIter`: in the debug-directory module (C15).
The remaining iterators (`imports::Iter`, `debug::Iter`, export / resource entry iterators,
`Wrap<I32, I64>`) delegate every method to `std::slice::Iter` / `Range` / the wrapped iterator; that
they really do is what the correspondence run checks (every call history is executed on the real
iterator and on a `VecDeque` of its items, in the harness).
-/
namespace Pelite

open Rich Rich.Spec in
/-- `RichIter`: every finite history over {next, next_back, nth k, len, size_hint, count, clone}
answers exactly like a deque of the decoded records; hints are exact; fused. -/
theorem C18_rich_iter_is_deque (it : Rich.Iter) (h : it.Inv) (ops : List Op) :
    it.run ops = .ok (runDeque it.collect ops) :=
  Rich.C16_iter_is_deque it h ops

namespace Relocs

/-- The block iterator is the plain front-to-back sequence `blocksFrom`: `next` pops its head … -/
theorem C18_blocks_next_some (data : Bytes) (off : Nat) (b : Block) (off' : Nat)
    (h : nextBlock data off = some (b, off')) :
    blocksFrom data off = b :: blocksFrom data off' :=
  blocksFrom_of_next_some h

/-- … and it is fused: `None` exactly when the sequence is empty, and then the state is unchanged,
so every later call answers `None` again. -/
theorem C18_blocks_next_none (data : Bytes) (off : Nat) :
    nextBlock data off = none ↔ blocksFrom data off = [] :=
  ⟨blocksFrom_of_next_none, next_none_of_blocksFrom_nil⟩

open Pelite.Seq in
/-- **`IterBlocks` is a faithful sequence.**  For every directory, every iterator state `off` and
every finite history over {next, nth k, size_hint, count, clone} — all the calls `IterBlocks`
offers — the model of the iterator object answers exactly like the same calls on the plain list of
the remaining blocks. -/
theorem C18_blocks_is_seq (data : Bytes) (off : Nat) (ops : List Op) :
    runOps data off ops = runSeq Hint.unknown (blocksFrom data off) ops :=
  runOps_eq_runSeq data ops off

/-- The size hint `IterBlocks` gives (the provided `(0, None)`) is sound; it is not an exact-size
iterator, so nothing more is asked of it. -/
theorem C18_blocks_hint_sound : Seq.Hint.Sound Seq.Hint.unknown ∧
    ∀ data off, sizeHintBlocks data off = Seq.Hint.unknown (blocksFrom data off).length :=
  ⟨Seq.Hint.unknown_sound, fun _ _ => rfl⟩

open Pelite.Seq in
/-- Fused, for histories: once `next` has answered `None`, every later call of every kind sees the
empty sequence — items `None`, count 0, clone empty. -/
theorem C18_blocks_fused (data : Bytes) (off : Nat) (h : nextBlock data off = none) (ops : List Op) :
    ∀ r ∈ runOps data off ops, r = .item none ∨ r = .num 0 ∨ r = .hint 0 none ∨ r = .list [] := by
  rw [C18_blocks_is_seq, blocksFrom_of_next_none h]
  exact (runSeq_nil_fused Hint.unknown ops).2

/-- A concrete history on a two-block directory (the first block has a padding entry). -/
example :
    runOps (build [(0x1010, 3), (0x1020, 3), (0x1030, 10), (0x2001, 3)]) 0
        [.sizeHint, .count, .nth 1, .count, .next, .clone, .nth 0] =
      [.hint 0 none, .num 2, .item (some ⟨16, 0x2000, 12, 2⟩), .num 0, .item none, .list [], .item none] := by
  decide +kernel

/-- `count`, `size_hint` (default implementations over `next`) and `clone` (the state is the slice)
therefore see exactly `blocksFrom`; its length is bounded by the input (C14 / C03). -/
theorem C18_blocks_finite (data : Bytes) : (blocks data).length ≤ data.size / 8 :=
  C14_blocks_count data

end Relocs

namespace Strings

/-- The string enumerator is the front-to-back sequence of qualifying runs: `next` from a run
boundary yields the first qualifying run at or after the offset and moves behind it (C20), and once
the offset reached the end of the buffer it keeps returning `None` (idempotent at the end). -/
theorem C18_strings_fused (bytes : Bytes) (cfg : Config) : next bytes cfg bytes.size = none :=
  C20_next_at_end bytes cfg

/-- **Real fusedness**: from *any* state (offset), once `next` has answered `None` it answers `None`
to every further call — `None` does not move `self.offset`.  (AUDIT.md calls this statement
`C18_strings_fused'`; the audit tool's `#print axioms` parser cannot read a primed name.) -/
theorem C18_strings_fused_from (bytes : Bytes) (cfg : Config) (off : Nat)
    (h : next bytes cfg off = none) : ∀ n, nexts bytes cfg off n = List.replicate n none :=
  nexts_of_none h

/-- and the state a `for` loop (or `collect`) leaves behind is such a state: after at most
`len + 1` calls from offset 0 `next` has answered `None` -/
theorem C18_strings_drained (bytes : Bytes) (cfg : Config) :
    next bytes cfg (finalOff bytes cfg (bytes.size + 1) 0) = none :=
  next_finalOff bytes cfg (bytes.size + 1) 0 (Nat.zero_le _) (by omega)

/-- every `Some` makes progress, so the enumeration is finite -/
theorem C18_strings_progress (bytes : Bytes) (cfg : Config) (off : Nat) (hoff : off ≤ bytes.size)
    (f : Found) (off' : Nat) (h : next bytes cfg off = some (f, off')) :
    off < off' ∧ off' ≤ bytes.size :=
  next_progress hoff h

/-- a run followed by two unprintable bytes: one run, then `None` for good — and the state the
exhausted enumerator is left in is offset 4 (behind the terminator of the last run), not the end
of the buffer (6), which is the only state `C18_strings_fused` speaks about -/
example : nexts #[0x41, 0x42, 0x43, 0x00, 0x80, 0x81] ⟨3, 3, false⟩ 0 4 = [some ⟨0, 3, true⟩, none, none, none] ∧
    finalOff #[0x41, 0x42, 0x43, 0x00, 0x80, 0x81] ⟨3, 3, false⟩ 7 0 = 4 := by
  decide +kernel

open Pelite.Seq in
/-- **`strings::Enumerator` is a faithful sequence.**  For every buffer, configuration (thresholds of
zero included), iterator state and finite history over {next, nth k, size_hint, count, clone} the
model of the enumerator object answers like the same calls on the plain list of the runs it still
yields (`itemsFrom`, i.e. `it.clone().collect()`) … -/
theorem C18_strings_is_seq (bytes : Bytes) (cfg : Config) (off : Nat) (ops : List Op) :
    runOps bytes cfg off ops = runSeq Hint.unknown (itemsFrom bytes cfg off) ops :=
  runOps_eq_runSeq bytes cfg ops off

open Pelite.Seq in
/-- **… for the enumerator as written** (`self.offset: u32`, strings.rs:95,101,110), with the bound explicit: for
buffers below 4 GiB every history on the enumerator object whose `next` stores `(i + 1) as u32` (`runOpsW (nextT …)`,
Spec/Strings.lean; the loops of `count` / `collect` run within the fuel `len + 2`) answers like the same calls on the
plain list of the runs.  At 4 GiB it does not: `C20_offset_wraps_at_4GiB` (the enumerator never ends). -/
theorem C18_strings_is_seq_u32 (bytes : Bytes) (cfg : Config) (hsz : bytes.size < 2 ^ 32) (off : Nat)
    (hoff : off ≤ bytes.size) (ops : List Op) :
    runOpsW (nextT bytes cfg) (bytes.size + 2) off ops =
      .ok (runSeq Hint.unknown (itemsFrom bytes cfg off) ops) := by
  rw [(C20_offset_fits bytes cfg hsz).1, runOpsW_next bytes cfg (bytes.size + 2) (Nat.le_refl _) ops off hoff,
    C18_strings_is_seq]

/-- the history of the example below on the enumerator as written -/
example : runOpsW (nextT #[0x1f, 0x43, 0x2d, 0x53, 0x54, 0x00, 0x80, 0x41, 0x41, 0x41, 0xff] ⟨3, 3, false⟩) 13 0
      [.count, .sizeHint, .nth 1, .clone, .next] =
    .ok [.num 2, .hint 0 none, .item (some ⟨7, 3, false⟩), .list [], .item none] := by
  decide +kernel

/-- … and from offset 0 that list is the one C20 is about: `collect` terminates within the fuel
`len + 2` and, for thresholds ≥ 1, consists of exactly the qualifying maximal runs in ascending order. -/
theorem C18_strings_items (bytes : Bytes) (cfg : Config) :
    enumAll bytes cfg (bytes.size + 2) 0 = .ok (itemsFrom bytes cfg 0) ∧
    (1 ≤ cfg.minLen → 1 ≤ cfg.minLenNul →
      (∀ g, g ∈ itemsFrom bytes cfg 0 ↔ Qualifies bytes cfg g) ∧
      (itemsFrom bytes cfg 0).Pairwise (fun a b => a.start + a.len < b.start)) := by
  have h := enumAll_eq_itemsFrom bytes cfg (bytes.size + 2) 0 (Nat.zero_le _) (by omega)
  refine ⟨h, fun hm hn => ?_⟩
  obtain ⟨fs, h1, h2, h3⟩ := C20_enumerate_exact bytes cfg hm hn
  rw [h] at h1
  cases h1
  exact ⟨h2, h3⟩

/-- a concrete history on the repository's test vector -/
example : runOps #[0x1f, 0x43, 0x2d, 0x53, 0x54, 0x00, 0x80, 0x41, 0x41, 0x41, 0xff] ⟨3, 3, false⟩ 0
      [.count, .sizeHint, .nth 1, .clone, .next] =
    [.num 2, .hint 0 none, .item (some ⟨7, 3, false⟩), .list [], .item none] := by
  decide +kernel

theorem C18_strings_sequence (bytes : Bytes) (cfg : Config) (hm : 1 ≤ cfg.minLen) (hn : 1 ≤ cfg.minLenNul) :
    ∃ fs, enumAll bytes cfg (bytes.size + 2) 0 = .ok fs ∧ (∀ g, g ∈ fs ↔ Qualifies bytes cfg g) ∧
      fs.Pairwise (fun a b => a.start + a.len < b.start) :=
  C20_enumerate_exact bytes cfg hm hn

end Strings

/-! Delegating iterators: the deque specification itself, for any item type — the statement that a
`slice::Iter`-backed iterator answers like a deque is the contract of `std` (trusted, see DESIGN.md);
what can be proved is that the specification is self-consistent: exact size hints and fusedness. -/
namespace DequeSpec

-- `next`, `nextBack`, `nth` are defined in Lemmas/IterSeq.lean (the driver links them)

/-- after any call the remaining length is what an exact size hint must report -/
theorem C18_len_after {α} (q : List α) (n : Nat) :
    (next q).2.length = q.length - 1 ∧ (nextBack q).2.length = q.length - 1 ∧
    (nth q n).2.length = q.length - (n + 1) := by
  simp [next, nextBack, nth]

/-- fused: an exhausted sequence answers `none` to every call and stays exhausted -/
theorem C18_fused {α} (n : Nat) :
    next ([] : List α) = (none, []) ∧ nextBack ([] : List α) = (none, []) ∧ nth ([] : List α) n = (none, []) := by
  simp [next, nextBack, nth]

/-- `nth k` = `k` times `next`, then `next` -/
theorem C18_nth_is_iterated_next {α} (q : List α) (k : Nat) :
    nth q k = next (q.drop k) := by
  simp [nth, next, List.head?_drop, List.tail_drop]

end DequeSpec

/-! The forward sequence specification `Seq.runSeq` is the forward fragment of the double-ended
deque specification `Rich.Spec.runDeque` that C16 is stated against: with the exact hint policy the
two give the same answers to every forward history. -/
namespace Seq
open Rich Rich.Spec

def toDequeOp : Seq.Op → Rich.Spec.Op
  | .next => .next | .nth n => .nth n | .sizeHint => .sizeHint | .count => .count | .clone => .clone

def toDequeRes : Seq.Res Record → Rich.Spec.Res
  | .item r => .item r | .num n => .num n | .hint lo hi => .hint lo (hi.getD 0) | .list l => .list l

theorem C18_seq_is_deque_fragment (q : List Record) (ops : List Seq.Op) :
    runDeque q (ops.map toDequeOp) = (runSeq Hint.exact q ops).map toDequeRes := by
  induction ops generalizing q with
  | nil => rfl
  | cons o os ih =>
    cases o <;>
      simp [runDeque, runSeq, stepDeque, stepSeq, toDequeOp, toDequeRes, DequeSpec.next, DequeSpec.nth,
        Hint.exact, ih]

end Seq

/-- Non-vacuity: a concrete Rich iterator state (key 0x55, three records) satisfies the invariant and
a history mixing both ends, `nth`, `len` and `clone` answers like the deque of its records. -/
example :
    (Rich.Iter.mk [0x55 ^^^ 0x00010002, 0x55 ^^^ 7, 0x55 ^^^ 0x00030004, 0x55 ^^^ 8, 0x55 ^^^ 0x00050006, 0x55 ^^^ 9] 0x55).Inv ∧
    (Rich.Iter.mk [0x55 ^^^ 0x00010002, 0x55 ^^^ 7, 0x55 ^^^ 0x00030004, 0x55 ^^^ 8, 0x55 ^^^ 0x00050006, 0x55 ^^^ 9] 0x55).run
        [.len, .nextBack, .nth 1, .next, .clone] =
      .ok [.num 3, .item (some ⟨6, 5, 9⟩), .item (some ⟨4, 3, 8⟩), .item none, .list []] := by
  refine ⟨by unfold Rich.Iter.Inv; decide +kernel, by decide +kernel⟩

end Pelite
