import PeliteModel.Lemmas.Dirs
import PeliteModel.Lemmas.IterSeq
/-!
C18 (POGO records) — `PgoIter` behaves as the plain front-to-back sequence of its items.

`PgoIter` (src/wrap/debug.rs) implements `Iterator::next` only: `nth`, `count`, `size_hint`, `last`, … are
the defaults of `std`, defined through `next`; there is no `next_back`, no `len`; `clone` copies the state
(a `&[u32]`).  So a call history of a `PgoIter` is a number of calls of `next` on a state, and a clone is
the same state again.  `pgoNext` (Model/Dirs.lean) is ONE such call; `pgoItemsFrom b st` the sequence of
items a `for` loop over the iterator in state `st` yields (`pgoItems` = the same from `Pgo::iter()`).
`b` ranges over ALL byte buffers, `st` over ALL states (offset, number of words).
-/
namespace Pelite.Dirs
open Pelite Pelite.Pe

/-- `k` successive calls of `next` on an iterator in state `st`: the answers in call order and the final state -/
def pgoCalls (b : Bytes) : Nat → Nat × Nat → Out (List (Option PgoItem) × (Nat × Nat))
  | 0, st => .ok ([], st)
  | k+1, st => pgoNext b st >>= fun r => pgoCalls b k r.2 >>= fun rs => .ok (r.1 :: rs.1, rs.2)

/-- `Pgo::iter()` / `into_iter()` start the iterator behind the signature word. -/
theorem C18_pgo_iter_start (b : Bytes) (image : Ref) :
    pgoItems b image = pgoItemsFrom b (pgoIterStart image) := rfl

/-- One call of `next`, in ANY state: it never panics, answers the head of the sequence of remaining items
(`None` iff that sequence is empty) and leaves the iterator in a state whose remaining items are the tail. -/
theorem C18_pgo_next_is_head (b : Bytes) (st : Nat × Nat) :
    ∃ l r, pgoItemsFrom b st = .ok l ∧ pgoNext b st = .ok r ∧ r.1 = l.head? ∧ pgoItemsFrom b r.2 = .ok l.tail :=
  pgoNext_is_head b st

/-- Fused: a `None` does not move the iterator, so every later call answers `None` again. -/
theorem C18_pgo_fused (b : Bytes) (st st' : Nat × Nat) (h : pgoNext b st = .ok (none, st')) :
    st' = st ∧ pgoNext b st' = .ok (none, st') ∧
    ∀ k, pgoCalls b k st' = .ok (List.replicate k none, st') := by
  obtain ⟨r, hr, hnone, _⟩ := pgoNext_ok b st
  rw [h] at hr
  cases hr
  have e : st' = st := hnone rfl
  subst e
  refine ⟨rfl, h, ?_⟩
  intro k
  induction k with
  | zero => rfl
  | succ k ih =>
    rw [pgoCalls, h]
    simp only [Out.bind_ok]
    rw [ih]
    rfl

/-- Every call history: `k` calls of `next` from ANY state answer the first `k` positions of the sequence
of items (`None` past its end — in particular all `None` once exhausted) and leave the iterator on the rest.
With `C18_pgo_iter_start`: the iterator handed out by `Pgo::iter()` is the front-to-back sequence `pgoItems`. -/
theorem C18_pgo_history (b : Bytes) (k : Nat) (st : Nat × Nat) :
    ∃ l st', pgoItemsFrom b st = .ok l ∧
      pgoCalls b k st = .ok ((List.range k).map (fun i => l[i]?), st') ∧
      pgoItemsFrom b st' = .ok (l.drop k) := by
  induction k generalizing st with
  | zero =>
    obtain ⟨l, _, hl, _⟩ := pgoNext_is_head b st
    exact ⟨l, st, hl, rfl, by simpa using hl⟩
  | succ k ih =>
    obtain ⟨l, r, hl, hr, hhead, htail⟩ := pgoNext_is_head b st
    obtain ⟨l2, st', h1, h2, h3⟩ := ih r.2
    rw [htail] at h1
    cases h1
    refine ⟨l, st', hl, ?_, ?_⟩
    · rw [pgoCalls, hr]
      simp only [Out.bind_ok]
      rw [h2]
      simp only [Out.bind_ok]
      rw [hhead, List.range_succ_eq_map, List.map_cons, List.map_map]
      cases l with
      | nil => simp
      | cons x xs => simp [Function.comp_def]
    · rw [h3]
      cases l with
      | nil => simp
      | cons x xs => simp

/-- The number of items is bounded by the window (`count`, `size_hint` terminate): every item takes at least
three words. -/
theorem C18_pgo_count_le (b : Bytes) (st : Nat × Nat) :
    ∃ l, pgoItemsFrom b st = .ok l ∧ 3 * l.length ≤ st.2 := by
  -- measure: the window length strictly decreases by ≥ 3 with every `Some`
  have key : ∀ (n : Nat) (st : Nat × Nat), st.2 = n → ∃ l, pgoItemsFrom b st = .ok l ∧ 3 * l.length ≤ st.2 := by
    intro n
    induction n using Nat.strongRecOn with
    | ind n ih =>
      intro st hn
      obtain ⟨l, r, hl, hr, hhead, htail⟩ := pgoNext_is_head b st
      refine ⟨l, hl, ?_⟩
      cases l with
      | nil => simp
      | cons x xs =>
        -- the step consumed at least 3 words
        obtain ⟨r', hr', _, hsome⟩ := pgoNext_ok b st
        rw [hr] at hr'
        cases hr'
        obtain ⟨hlt, hend, hoff⟩ := hsome x (by rw [hhead]; rfl)
        obtain ⟨l', hl', hle⟩ := ih r.2.2 (by omega) r.2 rfl
        rw [htail] at hl'
        cases hl'
        -- words consumed: st.2 - r.2.2 ≥ 3 because the offset moved by 4 * (2 + len + 1) ≥ 12
        have h3 : r.2.2 + 3 ≤ st.2 := by
          unfold pgoNext at hr
          simp only at hr
          by_cases hge : st.2 ≥ 3
          · rw [if_pos hge] at hr
            cases hc : cstrFromBytes b (st.1 + 8) (4 * (st.2 - 2)) with
            | none => rw [hc] at hr; cases hr; simp at hhead
            | some name =>
              rw [hc] at hr
              simp only at hr
              split at hr
              · cases hr
              · cases hr; simp only; omega
          · rw [if_neg hge] at hr; cases hr; simp at hhead
        simp only [List.length_cons, List.tail_cons] at hle ⊢
        omega
  exact key st.2 st rfl

/-! ### every call `PgoIter` offers: next, nth k, size_hint, count, clone (sequence specification of Lemmas/IterSeq.lean) -/
open Pelite.Seq

/-- one call on the model's iterator (state = window), result in the vocabulary of the sequence specification -/
def pgoStepOp (b : Bytes) (st : Nat × Nat) : Op → Out (Res PgoItem × (Nat × Nat))
  | .next => pgoNext b st >>= fun r => .ok (.item r.1, r.2)
  | .nth n => pgoNth b n st >>= fun r => .ok (.item r.1, r.2)
  | .sizeHint => .ok (.hint (pgoSizeHint st).1 (pgoSizeHint st).2, st)
  | .count => pgoCount b st >>= fun n => .ok (.num n, st)             -- `it.clone().count()`
  | .clone => pgoItemsFrom b st >>= fun l => .ok (.list l, st)        -- `it = it.clone()`: same window; its items

/-- the answers of a whole call history on the iterator in state `st` -/
def pgoRunOps (b : Bytes) : Nat × Nat → List Op → Out (List (Res PgoItem))
  | _, [] => .ok []
  | st, o :: os => pgoStepOp b st o >>= fun r => pgoRunOps b r.2 os >>= fun rs => .ok (r.1 :: rs)

/-- provided `nth`: element `k` of the remaining items, the iterator left behind it -/
theorem pgoNth_spec (b : Bytes) : ∀ (k : Nat) (st : Nat × Nat) (l : List PgoItem), pgoItemsFrom b st = .ok l →
    ∃ st', pgoNth b k st = .ok (l[k]?, st') ∧ pgoItemsFrom b st' = .ok (l.drop (k + 1)) := by
  intro k
  induction k with
  | zero =>
    intro st l hl
    obtain ⟨l', r, hl', hr, hhead, htail⟩ := pgoNext_is_head b st
    rw [hl] at hl'; cases hl'
    refine ⟨r.2, ?_, ?_⟩
    · rw [pgoNth, hr, hhead]; cases l <;> rfl
    · rw [htail]; cases l <;> rfl
  | succ k ih =>
    intro st l hl
    obtain ⟨l', r, hl', hr, hhead, htail⟩ := pgoNext_is_head b st
    rw [hl] at hl'; cases hl'
    rw [pgoNth, hr]
    simp only [Out.bind_ok]
    cases l with
    | nil =>
      have hn : r.1 = none := hhead
      rw [hn]
      exact ⟨r.2, rfl, by simpa using htail⟩
    | cons x xs =>
      have hs : r.1 = some x := hhead
      rw [hs]
      simp only
      obtain ⟨st', h1, h2⟩ := ih r.2 xs (by simpa using htail)
      exact ⟨st', by simpa using h1, by simpa using h2⟩

theorem pgoCountLoop_spec (b : Bytes) : ∀ (fuel : Nat) (st : Nat × Nat) (acc : Nat) (l : List PgoItem),
    pgoItemsFrom b st = .ok l → l.length < fuel → pgoCountLoop b fuel st acc = .ok (acc + l.length) := by
  intro fuel
  induction fuel with
  | zero => intro st acc l _ h; omega
  | succ fuel ih =>
    intro st acc l hl hf
    obtain ⟨l', r, hl', hr, hhead, htail⟩ := pgoNext_is_head b st
    rw [hl] at hl'; cases hl'
    rw [pgoCountLoop, hr]
    simp only [Out.bind_ok]
    cases l with
    | nil =>
      have hn : r.1 = none := hhead
      rw [hn]; rfl
    | cons x xs =>
      have hs : r.1 = some x := hhead
      rw [hs]
      simp only
      rw [ih r.2 (acc + 1) xs (by simpa using htail) (by simp at hf; omega)]
      simp only [List.length_cons]
      congr 1
      omega

/-- provided `count`: the number of remaining items (the loop terminates: `C18_pgo_count_le`) -/
theorem pgoCount_spec (b : Bytes) (st : Nat × Nat) (l : List PgoItem) (hl : pgoItemsFrom b st = .ok l) :
    pgoCount b st = .ok l.length := by
  obtain ⟨l', hl', hle⟩ := C18_pgo_count_le b st
  rw [hl] at hl'; cases hl'
  unfold pgoCount
  rw [pgoCountLoop_spec b (st.2 + 1) st 0 l hl (by omega)]
  simp

theorem pgoStepOp_spec (b : Bytes) (st : Nat × Nat) (l : List PgoItem) (hl : pgoItemsFrom b st = .ok l) (o : Op) :
    ∃ st', pgoStepOp b st o = .ok ((stepSeq Hint.unknown l o).1, st') ∧
      pgoItemsFrom b st' = .ok (stepSeq Hint.unknown l o).2 := by
  cases o with
  | next =>
    obtain ⟨l', r, hl', hr, hhead, htail⟩ := pgoNext_is_head b st
    rw [hl] at hl'; cases hl'
    refine ⟨r.2, ?_, htail⟩
    unfold pgoStepOp
    rw [hr]
    simp only [Out.bind_ok, stepSeq, DequeSpec.next, hhead]
  | nth n =>
    obtain ⟨st', h1, h2⟩ := pgoNth_spec b n st l hl
    refine ⟨st', ?_, h2⟩
    unfold pgoStepOp
    rw [h1]
    simp only [Out.bind_ok, stepSeq, DequeSpec.nth]
  | sizeHint => exact ⟨st, rfl, hl⟩
  | count =>
    refine ⟨st, ?_, hl⟩
    unfold pgoStepOp
    rw [pgoCount_spec b st l hl]
    simp only [Out.bind_ok, stepSeq]
  | clone =>
    refine ⟨st, ?_, hl⟩
    unfold pgoStepOp
    rw [hl]
    simp only [Out.bind_ok, stepSeq]

/-- **`PgoIter` is a faithful sequence.**  For ALL bytes, every iterator state and every finite history over
{next, nth k, size_hint, count, clone} — all the calls a `PgoIter` offers — the model of the iterator object
never panics and answers exactly like the same calls on the plain list of its remaining items. -/
theorem C18_pgo_is_seq (b : Bytes) (ops : List Op) (st : Nat × Nat) :
    ∃ l, pgoItemsFrom b st = .ok l ∧ pgoRunOps b st ops = .ok (runSeq Hint.unknown l ops) := by
  induction ops generalizing st with
  | nil =>
    obtain ⟨l, _, hl, _⟩ := pgoNext_is_head b st
    exact ⟨l, hl, rfl⟩
  | cons o os ih =>
    obtain ⟨l, _, hl, _⟩ := pgoNext_is_head b st
    obtain ⟨st', h1, h2⟩ := pgoStepOp_spec b st l hl o
    obtain ⟨l2, g1, g2⟩ := ih st'
    rw [h2] at g1; cases g1
    refine ⟨l, hl, ?_⟩
    rw [pgoRunOps, h1]
    simp only [Out.bind_ok]
    rw [g2]
    rfl

/-- … in particular for the iterator `Pgo::iter()` hands out, on the items `pgoItems` (what C15 decodes). -/
theorem C18_pgo_iter_is_seq (b : Bytes) (image : Ref) (ops : List Op) :
    ∃ l, pgoItems b image = .ok l ∧ pgoRunOps b (pgoIterStart image) ops = .ok (runSeq Hint.unknown l ops) :=
  C18_pgo_is_seq b ops (pgoIterStart image)

/-- The size hint is the provided `(0, None)`: sound, and nothing more is asked of an iterator that is not
exact-size. -/
theorem C18_pgo_hint_sound : Seq.Hint.Sound Seq.Hint.unknown ∧
    ∀ b st l, pgoItemsFrom b st = .ok l → pgoSizeHint st = Seq.Hint.unknown l.length :=
  ⟨Seq.Hint.unknown_sound, fun _ _ _ _ => rfl⟩

/-- Fused, for histories: once `next` has answered `None`, every later call of every kind sees the empty
sequence. -/
theorem C18_pgo_fused_history (b : Bytes) (st st' : Nat × Nat) (h : pgoNext b st = .ok (none, st')) (ops : List Op) :
    ∃ rs, pgoRunOps b st' ops = .ok rs ∧
      ∀ r ∈ rs, r = .item none ∨ r = .num 0 ∨ r = .hint 0 none ∨ r = .list [] := by
  obtain ⟨e, _, _⟩ := C18_pgo_fused b st st' h
  subst e
  obtain ⟨l, r, hl, hr, hhead, _⟩ := pgoNext_is_head b st'
  rw [h] at hr; cases hr
  have hnil : l = [] := by cases l with
    | nil => rfl
    | cons x xs => cases hhead
  subst hnil
  obtain ⟨l2, g1, g2⟩ := C18_pgo_is_seq b ops st'
  rw [hl] at g1; cases g1
  exact ⟨_, g2, (runSeq_nil_fused Hint.unknown ops).2⟩

/-! ### non-vacuity: the POGO data of the C15 demo image ("LTCG", then (0x1000, 16, ".text"), (0x2000, 32, ".rdata$zz")) -/

def demoPogo : Bytes := #[
    76, 84, 67, 71, 0, 16, 0, 0, 16, 0, 0, 0, 46, 116, 101, 120, 116, 0, 0, 0, 0, 32, 0, 0, 32, 0, 0, 0,
    46, 114, 100, 97, 116, 97, 36, 122, 122, 0, 0, 0]

/-- two items; four calls of `next` answer them and then `None` twice; the state after the second call is
the empty window at the end of the data -/
example :
    pgoIterStart ⟨0, 40, 4⟩ = (4, 9) ∧
    pgoItems demoPogo ⟨0, 40, 4⟩ = .ok [⟨4096, 16, ⟨12, 6, 1⟩⟩, ⟨8192, 32, ⟨28, 10, 1⟩⟩] ∧
    pgoNext demoPogo (4, 9) = .ok (some ⟨4096, 16, ⟨12, 6, 1⟩⟩, (20, 5)) ∧
    pgoItemsFrom demoPogo (20, 5) = .ok [⟨8192, 32, ⟨28, 10, 1⟩⟩] ∧
    pgoCalls demoPogo 4 (4, 9) =
      .ok ([some ⟨4096, 16, ⟨12, 6, 1⟩⟩, some ⟨8192, 32, ⟨28, 10, 1⟩⟩, none, none], (40, 0)) := by
  decide +kernel

/-- a history over every kind of call -/
example :
    pgoRunOps demoPogo (4, 9) [.sizeHint, .count, .nth 1, .count, .next, .clone, .nth 0] =
      .ok [.hint 0 none, .num 2, .item (some ⟨8192, 32, ⟨28, 10, 1⟩⟩), .num 0, .item none, .list [], .item none] ∧
    pgoRunOps demoPogo (4, 9) [.clone, .next, .nth 5, .next] =
      .ok [.list [⟨4096, 16, ⟨12, 6, 1⟩⟩, ⟨8192, 32, ⟨28, 10, 1⟩⟩], .item (some ⟨4096, 16, ⟨12, 6, 1⟩⟩), .item none,
        .item none] := by
  decide +kernel

/-- a name without terminator inside the data (the last record cut after "zz"): `next` answers `None`
WITHOUT consuming the record (`?` before the reslice) and keeps doing so -/
example :
    pgoItems demoPogo ⟨0, 36, 4⟩ = .ok [⟨4096, 16, ⟨12, 6, 1⟩⟩] ∧
    pgoNext demoPogo (20, 4) = .ok (none, (20, 4)) ∧
    pgoCalls demoPogo 3 (4, 8) = .ok ([some ⟨4096, 16, ⟨12, 6, 1⟩⟩, none, none], (20, 4)) := by
  decide +kernel

end Pelite.Dirs
