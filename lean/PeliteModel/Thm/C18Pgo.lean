import PeliteModel.Lemmas.Dirs
import PeliteModel.Lemmas.IterSeq
/-!
C18 (POGO records) — `PgoIter` behaves as the plain front-to-back sequence of its items.

`PgoIter` (src/wrap/debug.rs; `Iterator + Clone`) implements `Iterator::next` only: `nth`, `count`, `size_hint`
are the provided methods of `core`, loops over `next`; there is no `next_back`, no `len`; `clone` copies the
state (a `&[u32]`).  `pgoNext` (Model/Dirs.lean) is ONE call of `next`; `pgoItemsFrom b st` the sequence of
items a `for` loop over the iterator in state `st` yields (`pgoItems` = the same from `Pgo::iter()`).
First the histories of `next` alone (`C18_pgo_next_is_head`, `C18_pgo_history`, `C18_pgo_fused`), then every
history over all the calls the type offers (`C18_pgo_is_seq`).
`b` ranges over ALL byte buffers, `st` over ALL states (offset, number of words).
-/
namespace Pelite.Dirs
open Pelite Pelite.Pe

/-- `k` successive calls of `next` on an iterator in state `st`: the answers in call order and the final state -/
def pgoCalls (b : Bytes) : Nat → Nat × Nat → Out (List (Option PgoItem) × (Nat × Nat))
  | 0, st => .ok ([], st)
  | k+1, st => pgoNext b st >>= fun r => pgoCalls b k r.2 >>= fun rs => .ok (r.1 :: rs.1, rs.2)

/-- `Pgo::iter()` / `into_iter()` start the iterator behind the signature word. -/
theorem C18_pgo_iter_start (b : Bytes) (image : Ref) :
    pgoItems b image = pgoItemsFrom b (pgoIterStart image) := rfl

/-- One call of `next`, in ANY state: it never panics, answers the head of the sequence of remaining items
(`None` iff that sequence is empty) and leaves the iterator in a state whose remaining items are the tail. -/
theorem C18_pgo_next_is_head (b : Bytes) (st : Nat × Nat) :
    ∃ l r, pgoItemsFrom b st = .ok l ∧ pgoNext b st = .ok r ∧ r.1 = l.head? ∧ pgoItemsFrom b r.2 = .ok l.tail :=
  pgoNext_is_head b st

/-- Fused: a `None` does not move the iterator, so every later call answers `None` again. -/
theorem C18_pgo_fused (b : Bytes) (st st' : Nat × Nat) (h : pgoNext b st = .ok (none, st')) :
    st' = st ∧ pgoNext b st' = .ok (none, st') ∧
    ∀ k, pgoCalls b k st' = .ok (List.replicate k none, st') := by
  obtain ⟨r, hr, hnone, _⟩ := pgoNext_ok b st
  rw [h] at hr
  cases hr
  have e : st' = st := hnone rfl
  subst e
  refine ⟨rfl, h, ?_⟩
  intro k
  induction k with
  | zero => rfl
  | succ k ih =>
    rw [pgoCalls, h]
    simp only [Out.bind_ok]
    rw [ih]
    rfl

/-- Every call history: `k` calls of `next` from ANY state answer the first `k` positions of the sequence
of items (`None` past its end — in particular all `None` once exhausted) and leave the iterator on the rest.
With `C18_pgo_iter_start`: the iterator handed out by `Pgo::iter()` is the front-to-back sequence `pgoItems`. -/
theorem C18_pgo_history (b : Bytes) (k : Nat) (st : Nat × Nat) :
    ∃ l st', pgoItemsFrom b st = .ok l ∧
      pgoCalls b k st = .ok ((List.range k).map (fun i => l[i]?), st') ∧
      pgoItemsFrom b st' = .ok (l.drop k) := by
  induction k generalizing st with
  | zero =>
    obtain ⟨l, _, hl, _⟩ := pgoNext_is_head b st
    exact ⟨l, st, hl, rfl, by simpa using hl⟩
  | succ k ih =>
    obtain ⟨l, r, hl, hr, hhead, htail⟩ := pgoNext_is_head b st
    obtain ⟨l2, st', h1, h2, h3⟩ := ih r.2
    rw [htail] at h1
    cases h1
    refine ⟨l, st', hl, ?_, ?_⟩
    · rw [pgoCalls, hr]
      simp only [Out.bind_ok]
      rw [h2]
      simp only [Out.bind_ok]
      rw [hhead, List.range_succ_eq_map, List.map_cons, List.map_map]
      cases l with
      | nil => simp
      | cons x xs => simp [Function.comp_def]
    · rw [h3]
      cases l with
      | nil => simp
      | cons x xs => simp

/-- The number of items is bounded by the window (`count`, `size_hint` terminate): every item takes at least
three words. -/
theorem C18_pgo_count_le (b : Bytes) (st : Nat × Nat) :
    ∃ l, pgoItemsFrom b st = .ok l ∧ 3 * l.length ≤ st.2 :=
  pgoItemsFrom_length_le b st

/-! ### every call `PgoIter` offers: next, nth k, size_hint, count, clone

`pgoStepOp` / `pgoRunOps` (Spec/Dirs.lean) run a history on the model's iterator object — `pgoNext` and the provided
methods `pgoNth`, `pgoCount`, `pgoSizeHint` over it (Model/Dirs.lean) —, `Seq.runSeq` (Lemmas/IterSeq.lean) the same
history on a plain list.  The op `pogo_hist` runs the same histories on the real `PgoIter`. -/
open Pelite.Seq

/-- ONE call of any kind, in any state: the answer and the items left are those of the same call on the list of
the remaining items. -/
theorem C18_pgo_step_is_seq (b : Bytes) (st : Nat × Nat) (l : List PgoItem) (hl : pgoItemsFrom b st = .ok l) (o : Op) :
    ∃ st', pgoStepOp b st o = .ok ((stepSeq Hint.unknown l o).1, st') ∧
      pgoItemsFrom b st' = .ok (stepSeq Hint.unknown l o).2 := by
  cases o with
  | next =>
    obtain ⟨l', r, hl', hr, hhead, htail⟩ := pgoNext_is_head b st
    rw [hl] at hl'; cases hl'
    refine ⟨r.2, ?_, htail⟩
    simp only [pgoStepOp, hr, Out.bind_ok, stepSeq, DequeSpec.next, hhead]
  | nth n =>
    obtain ⟨st', h1, h2⟩ := pgoNth_spec b n st l hl
    refine ⟨st', ?_, h2⟩
    simp only [pgoStepOp, h1, Out.bind_ok, stepSeq, DequeSpec.nth]
  | sizeHint => exact ⟨st, rfl, hl⟩
  | count =>
    refine ⟨st, ?_, hl⟩
    simp only [pgoStepOp, pgoCount_spec b st l hl, Out.bind_ok, stepSeq]
  | clone =>
    refine ⟨st, ?_, hl⟩
    simp only [pgoStepOp, hl, Out.bind_ok, stepSeq]

/-- **`PgoIter` is a faithful sequence.**  For ALL bytes, every iterator state and every finite history over
{next, nth k, size_hint, count, clone} — all the calls a `PgoIter` offers — the model of the iterator object
never panics and answers exactly like the same calls on the plain list of its remaining items. -/
theorem C18_pgo_is_seq (b : Bytes) (ops : List Op) (st : Nat × Nat) :
    ∃ l, pgoItemsFrom b st = .ok l ∧ pgoRunOps b st ops = .ok (runSeq Hint.unknown l ops) := by
  induction ops generalizing st with
  | nil =>
    obtain ⟨l, _, hl, _⟩ := pgoNext_is_head b st
    exact ⟨l, hl, rfl⟩
  | cons o os ih =>
    obtain ⟨l, _, hl, _⟩ := pgoNext_is_head b st
    obtain ⟨st', h1, h2⟩ := C18_pgo_step_is_seq b st l hl o
    obtain ⟨l2, g1, g2⟩ := ih st'
    rw [h2] at g1; cases g1
    refine ⟨l, hl, ?_⟩
    rw [pgoRunOps, h1]
    simp only [Out.bind_ok]
    rw [g2]
    rfl

/-- … in particular for the iterator `Pgo::iter()` hands out, on the items `pgoItems` (what C15 decodes). -/
theorem C18_pgo_iter_is_seq (b : Bytes) (image : Ref) (ops : List Op) :
    ∃ l, pgoItems b image = .ok l ∧ pgoRunOps b (pgoIterStart image) ops = .ok (runSeq Hint.unknown l ops) :=
  C18_pgo_is_seq b ops (pgoIterStart image)

/-- The size hint is the provided `(0, None)`: sound, and nothing more is asked of an iterator that is not
exact-size. -/
theorem C18_pgo_hint_sound : Seq.Hint.Sound Seq.Hint.unknown ∧
    ∀ b st l, pgoItemsFrom b st = .ok l → pgoSizeHint st = Seq.Hint.unknown l.length :=
  ⟨Seq.Hint.unknown_sound, fun _ _ _ _ => rfl⟩

/-- Fused, for histories: once `next` has answered `None`, every later call of every kind sees the empty
sequence. -/
theorem C18_pgo_fused_history (b : Bytes) (st st' : Nat × Nat) (h : pgoNext b st = .ok (none, st')) (ops : List Op) :
    ∃ rs, pgoRunOps b st' ops = .ok rs ∧
      ∀ r ∈ rs, r = .item none ∨ r = .num 0 ∨ r = .hint 0 none ∨ r = .list [] := by
  obtain ⟨e, _, _⟩ := C18_pgo_fused b st st' h
  subst e
  obtain ⟨l, r, hl, hr, hhead, _⟩ := pgoNext_is_head b st'
  rw [h] at hr; cases hr
  have hnil : l = [] := by cases l with
    | nil => rfl
    | cons x xs => cases hhead
  subst hnil
  obtain ⟨l2, g1, g2⟩ := C18_pgo_is_seq b ops st'
  rw [hl] at g1; cases g1
  exact ⟨_, g2, (runSeq_nil_fused Hint.unknown ops).2⟩

/-! ### non-vacuity: the POGO data of the C15 demo image ("LTCG", then (0x1000, 16, ".text"), (0x2000, 32, ".rdata$zz")) -/

def demoPogo : Bytes := #[
    76, 84, 67, 71, 0, 16, 0, 0, 16, 0, 0, 0, 46, 116, 101, 120, 116, 0, 0, 0, 0, 32, 0, 0, 32, 0, 0, 0,
    46, 114, 100, 97, 116, 97, 36, 122, 122, 0, 0, 0]

/-- two items; four calls of `next` answer them and then `None` twice; the state after the second call is
the empty window at the end of the data -/
example :
    pgoIterStart ⟨0, 40, 4⟩ = (4, 9) ∧
    pgoItems demoPogo ⟨0, 40, 4⟩ = .ok [⟨4096, 16, ⟨12, 6, 1⟩⟩, ⟨8192, 32, ⟨28, 10, 1⟩⟩] ∧
    pgoNext demoPogo (4, 9) = .ok (some ⟨4096, 16, ⟨12, 6, 1⟩⟩, (20, 5)) ∧
    pgoItemsFrom demoPogo (20, 5) = .ok [⟨8192, 32, ⟨28, 10, 1⟩⟩] ∧
    pgoCalls demoPogo 4 (4, 9) =
      .ok ([some ⟨4096, 16, ⟨12, 6, 1⟩⟩, some ⟨8192, 32, ⟨28, 10, 1⟩⟩, none, none], (40, 0)) := by
  decide +kernel

/-- a history over every kind of call -/
example :
    pgoRunOps demoPogo (4, 9) [.sizeHint, .count, .nth 1, .count, .next, .clone, .nth 0] =
      .ok [.hint 0 none, .num 2, .item (some ⟨8192, 32, ⟨28, 10, 1⟩⟩), .num 0, .item none, .list [], .item none] ∧
    pgoRunOps demoPogo (4, 9) [.clone, .next, .nth 5, .next] =
      .ok [.list [⟨4096, 16, ⟨12, 6, 1⟩⟩, ⟨8192, 32, ⟨28, 10, 1⟩⟩], .item (some ⟨4096, 16, ⟨12, 6, 1⟩⟩), .item none,
        .item none] := by
  decide +kernel

/-- a name without terminator inside the data (the last record cut after "zz"): `next` answers `None`
WITHOUT consuming the record (`?` before the reslice) and keeps doing so -/
example :
    pgoItems demoPogo ⟨0, 36, 4⟩ = .ok [⟨4096, 16, ⟨12, 6, 1⟩⟩] ∧
    pgoNext demoPogo (20, 4) = .ok (none, (20, 4)) ∧
    pgoCalls demoPogo 3 (4, 8) = .ok ([some ⟨4096, 16, ⟨12, 6, 1⟩⟩, none, none], (20, 4)) := by
  decide +kernel

end Pelite.Dirs
