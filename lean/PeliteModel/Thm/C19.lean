import PeliteModel.Lemmas.Json
/-!
C19 — format-agnostic wrappers and JSON serialization mirror the format-specific API.
The wrappers are sum-type dispatch; in the model a wrapped view IS the view of the selected format,
so "every method returns what the selected API returns" is carried by the correspondence run
(every operation through `wf`/`wv` and through the specific constructor on the same image, compared
with each other and with the model).  What the theorems add: the selection itself, and the header
part of the serializer (headers, details, base relocations).  The serializer as a whole — all ten
members of the document, totality, per-member equalities, well-formedness of the printed text — is
`Thm/C19Json.lean`; the non-delegating wrapper methods are `Thm/C19Wrap.lean`.
-/
namespace Pelite.Pe

/-- The agnostic constructor returns exactly what the parser of the selected format returns, and
that format is the one named by the optional-header magic. -/
theorem C19_wrap_is_selected_parser (k : Kind) (img : Img) (v : View) (h : wrapFromBytes k img = .ok v) :
    fromBytes v.fmt k img = .ok v ∧ optMagic img.bytes = v.fmt.magic := by
  exact ⟨wrap_ok_imp k img v h, (C07_wrap_selects_magic k img v h).1⟩

/-- … and it fails exactly when the parser matching the magic fails (with that parser's error),
or when the magic is neither PE32 nor PE32+. -/
theorem C19_wrap_error (k : Kind) (img : Img) (e : Err) (h : wrapFromBytes k img = .err e) :
    fromBytes .pe64 k img = .err e ∨ (fromBytes .pe64 k img = .err .peMagic ∧ fromBytes .pe32 k img = .err e) := by
  exact wrap_err_imp k img e h

/-- Serialized header fields are the accessor values. -/
theorem C19_json_header_fields (v : View) :
    v.headerJson.eLfanew = eLfanew v.b ∧ v.headerJson.numberOfSections = numberOfSections v.b ∧
    v.headerJson.sizeOfImage = sizeOfImage v.b ∧ v.headerJson.sizeOfHeaders = sizeOfHeaders v.b ∧
    v.headerJson.imageBase = imageBaseField v.fmt v.b ∧ v.headerJson.checkSumField = checkSumField v.b ∧
    v.headerJson.sections = v.secs ∧ v.headerJson.detCheckSum = v.checkSum ∧
    v.headerJson.dataDirectory.length = numDataDirs v.fmt v.b ∧
    (∀ i, i < numDataDirs v.fmt v.b → v.headerJson.dataDirectory[i]? = v.dataDir i) := by
  have hdd := dataDirs_eq_map v
  refine ⟨rfl, rfl, rfl, rfl, rfl, rfl, rfl, rfl, ?_, ?_⟩
  · show ((List.range (numDataDirs v.fmt v.b)).filterMap v.dataDir).length = _
    rw [hdd, List.length_map, List.length_range]
  · intro i hi
    show ((List.range (numDataDirs v.fmt v.b)).filterMap v.dataDir)[i]? = _
    rw [hdd, dataDir_of_lt v hi, List.getElem?_map, List.getElem?_range hi]
    rfl

/-- "DataDirectory.Sections": index of the first section whose `[VirtualAddress, +VirtualSize)`
contains the directory's address (no overflow: the comparison is on the offset). -/
theorem C19_dd_section_first (secs : List Sec) (va : Nat) :
    ddSection secs va = secs.findIdx? (fun s => decide (s.va ≤ va ∧ va - s.va < s.vs)) := by
  exact ddSection_eq_findIdx secs va

/-- The serialized relocations are those of the directory `Pe::base_relocs` extracts: `Size` bytes
at the directory's address, inside the buffer and 4-aligned. -/
theorem C19_base_relocs_ref (f : Fmt) (k : Kind) (img : Img) (v : View) (hv : fromBytes f k img = .ok v)
    (r : Ref) (h : v.baseRelocsRef = .ok r) :
    RefOK v.img r ∧ r.align = 4 ∧ ∃ va, v.dataDir 5 = some (va, r.len) := by
  obtain ⟨va, size, s, hdd, hs, rfl⟩ := baseRelocsRef_ok h
  have hva : va < 4294967296 := by
    unfold View.dataDir at hdd
    split at hdd
    · cases hdd; exact le32_lt _ _
    · cases hdd
  have hat : v.at (.rva va) size 4 = .ok s := hs
  obtain ⟨hok, hlen, hal⟩ := C05_at_sound f k img v hv (.rva va) size 4 hva s hat
  refine ⟨?_, rfl, va, hdd⟩
  unfold RefOK at hok ⊢
  rw [hal] at hok
  exact ⟨by show s.off + size ≤ _; omega, hok.2⟩

/-- without the directory — fewer than 6 data directories, or rva 0 —: `Null`, never an empty table -/
theorem C19_base_relocs_absent (v : View) :
    (v.dataDir 5 = none → v.baseRelocsRef = .err .null) ∧
    (∀ size, v.dataDir 5 = some (0, size) → v.baseRelocsRef = .err .null) := by
  refine ⟨?_, ?_⟩
  · intro h
    unfold View.baseRelocsRef
    rw [h]
  · intro size h
    unfold View.baseRelocsRef
    rw [h]
    show (match v.slice 0 size 4 with
      | .ok r => Out.ok (⟨r.off, size, 4⟩ : Ref)
      | .err e => .err e | .panic s => .panic s | .ub s => .ub s | .diverge => .diverge) = .err .null
    have : v.slice 0 size 4 = .err .null := (C05_null v size 4).1
    rw [this]

/-! ### non-vacuity: the C05 demo image extended to 6 data directories, relocation directory at 232 (+12) -/

def relocImg : Img := ⟨
    #[77, 90, 0, 0, 0, 0, 0, 0, 0, 0, 0, 0, 0, 0, 0, 0, 0, 0, 0, 0, 0, 0, 0, 0, 0, 0, 0, 0, 0, 0, 0,
    0, 0, 0, 0, 0, 0, 0, 0, 0, 0, 0, 0, 0, 0, 0, 0, 0, 0, 0, 0, 0, 0, 0, 0, 0, 0, 0, 0, 0, 64, 0, 0,
    0, 80, 69, 0, 0, 0, 0, 0, 0, 0, 0, 0, 0, 0, 0, 0, 0, 0, 0, 0, 0, 96, 0, 0, 0, 11, 1, 0, 0, 0, 0,
    0, 0, 0, 0, 0, 0, 0, 0, 0, 0, 0, 0, 0, 0, 0, 0, 0, 0, 0, 0, 0, 0, 0, 0, 64, 0, 0, 0, 0, 0, 0, 0,
    0, 0, 0, 0, 0, 0, 0, 0, 0, 0, 0, 0, 0, 0, 0, 0, 0, 0, 200, 0, 0, 0, 184, 0, 0, 0, 0, 0, 0, 0, 0,
    0, 0, 0, 0, 0, 0, 0, 0, 0, 0, 0, 0, 0, 0, 0, 0, 0, 0, 0, 0, 0, 0, 0, 6, 0, 0, 0, 0, 0, 0, 0, 0,
    0, 0, 0, 0, 0, 0, 0, 0, 0, 0, 0, 0, 0, 0, 0, 0, 0, 0, 0, 0, 0, 0, 0, 0, 0, 0, 0, 0, 0, 0, 0, 0,
    0, 0, 0, 232, 0, 0, 0, 12, 0, 0, 0, 0, 0, 0, 0, 0, 0, 0, 0, 0, 0, 0, 0, 0, 0, 0, 0], 0⟩

def relocView : View := ⟨relocImg, .pe32, .view, 0x400000⟩

example : wrapFromBytes .view relocImg = .ok relocView ∧ fromBytes .pe32 .view relocImg = .ok relocView ∧
    fromBytes .pe64 .view relocImg = .err .peMagic ∧
    wrapFromBytes .file ⟨relocImg.bytes.extract 0 63, 0⟩ = .err .bounds ∧
    relocView.dataDir 5 = some (232, 12) ∧ relocView.baseRelocsRef = .ok ⟨232, 12, 4⟩ ∧
    relocView.headerJson.dataDirectory.length = 6 ∧ relocView.dataDir 6 = none ∧
    ddSection [⟨0, 0, 16, 4096, 0, 0, 0⟩, ⟨0, 0, 16, 8192, 0, 0, 0⟩] 8200 = some 1 := by
  have h32 : fromBytes .pe32 .view relocImg = .ok relocView :=
    (fromBytes_ok_iff _ _ _ _).2 ⟨by decide +kernel,
      by rw [show imageBaseField .pe32 relocImg.bytes = 0x400000 by decide +kernel]; rfl⟩
  have h64 : fromBytes .pe64 .view relocImg = .err .peMagic :=
    fromBytes_err_of_validate (by decide +kernel)
  have hshort : wrapFromBytes .file ⟨relocImg.bytes.extract 0 63, 0⟩ = .err .bounds := by
    have : fromBytes .pe64 .file ⟨relocImg.bytes.extract 0 63, 0⟩ = .err .bounds :=
      fromBytes_err_of_validate (by decide +kernel)
    unfold wrapFromBytes
    rw [this]
  refine ⟨C07_wrap_complete _ _ _ _ h32, h32, h64, hshort, ?_⟩
  decide +kernel

end Pelite.Pe
