import PeliteModel.Lemmas.JsonDirs
/-!
C19, serializer half — "serializing any accepted image succeeds, is well-formed JSON, and each field
equals what the corresponding accessor returns".

`View.serializePe` (Model/JsonDirs.lean; the structure of the document is written down at the top of
that file) composes the module models exactly as `serialize_pe` composes the accessors: `.ok()` is
`Out.okOpt` (a library error becomes `null`, a panic / unchecked access / hang of an accessor is one
of the serializer).  Here:

* `C19_json_total*`       — on every accepted image below 4 GiB the serializer returns: none of the
                            `.panic` / `.ub` / `.diverge` branches of any module model is reachable
                            from it (a proof about those branches, through the modules' safety lemmas);
* `C19_json_field_<name>` — each member of a returned document is the accessor's value
                            (`Out.toOption` = what `.ok()` gives), `null` exactly when the accessor fails;
* `C19_json_document`     — the members, their names and their order;
* `C19_json_wellformed`   — see the end of the file.

Trusted: `serde`'s derive output for plain structs / enums (field-by-field by construction) and
`serde_json` itself (its compact formatter is transcribed as `Json.print`).  The correspondence run
compares every member (`jsonsub <k> <field>`) of the real `serde_json` text with the model's value on
every image of the C19 generators.
-/
namespace Pelite.Pe
open Pelite Pelite.Json

/-! ## totality -/

/-- **Serializing an accepted image succeeds**: for every image a format-specific constructor accepts
(file or mapped view, PE32 or PE32+), shorter than 4 GiB (the model's global bound; it is needed, see
`C09_rva_plus_2_needs_bound`), `serialize_pe` returns a document — no accessor it calls panics,
reads outside the buffer or misaligned, or loops. -/
theorem C19_json_total (f : Fmt) (k : Kind) (img : Img) (v : View) (hv : fromBytes f k img = .ok v)
    (hsz : img.bytes.size < 4294967296) : ∃ j, v.serializePe = .ok j := by
  obtain ⟨ha, rfl⟩ := (fromBytes_ok_iff f k img v).1 hv
  exact serializePe_total _ ha.2.1 hsz

/-- … also through the format-agnostic constructors (`Wrap<..>` serializes the wrapped view: `untagged`) -/
theorem C19_json_total_wrap (k : Kind) (img : Img) (v : View) (hv : wrapFromBytes k img = .ok v)
    (hsz : img.bytes.size < 4294967296) : ∃ j, v.serializePe = .ok j :=
  C19_json_total v.fmt k img v (wrap_ok_imp k img v hv) hsz

/-- … and for a view whose base address was overridden (`PeView::set_base_address`) -/
theorem C19_json_total_rebased (f : Fmt) (k : Kind) (img : Img) (v : View) (hv : fromBytes f k img = .ok v)
    (hsz : img.bytes.size < 4294967296) (base : Nat) : ∃ j, (v.setBase base).serializePe = .ok j := by
  obtain ⟨ha, rfl⟩ := (fromBytes_ok_iff f k img v).1 hv
  exact serializePe_total _ ha.2.1 hsz

/-- The two facts about the image the proof uses: a dword-aligned buffer (checked by
`validate_headers`) and the size bound.  Nothing else about the bytes: every directory may be corrupt. -/
theorem C19_json_total_of_aligned (v : View) (hb : v.img.base % 4 = 0) (hsz : v.img.bytes.size < 4294967296) :
    ∃ j, v.serializePe = .ok j :=
  serializePe_total v hb hsz

/-- Seven of the nine directory members cannot fail on ANY view (no alignment, no size bound): -/
theorem C19_json_total_members (v : View) :
    (∃ o, v.exportsJson = .ok o) ∧ (∃ o, v.baseRelocsJson = .ok o) ∧ (∃ o, v.debugJson = .ok o) ∧
    (∃ o, v.tlsJson = .ok o) ∧ (∃ o, v.loadConfigJson = .ok o) ∧ (∃ j, v.resourcesJson = .ok j) ∧
    (v.img.bytes.size < 4294967296 → ∃ o, v.importsJson = .ok o) ∧
    (v.img.base % 4 = 0 → (∃ o, v.richJson = .ok o) ∧ (∃ o, v.securityJson = .ok o)) :=
  ⟨exportsJson_total v, baseRelocsJson_total v, debugJson_total v, tlsJson_total v, loadConfigJson_total v,
   resourcesJson_total v, importsJson_total v, fun hb => ⟨richJson_total v hb, securityJson_total v hb⟩⟩

/-! ## the members are the accessor values -/

/-- the ten members, their names and their order (`serialize_struct(.., 10)` + ten `serialize_field`) -/
theorem C19_json_document (p : PeJson) :
    p.toJson = .struct [
      ("headers", p.headersDoc),
      ("rich_structure", opt RichJson.toJson p.richStructure),
      ("exports", opt ExportsJson.toJson p.exports),
      ("imports", opt (fun l => .arr (l.map DescJson.toJson)) p.imports),
      ("base_relocs", opt RelocsJson.toJson p.baseRelocs),
      ("debug", opt (fun l => .arr (l.map DebugDirJson.toJson)) p.debug),
      ("tls", opt TlsJson.toJson p.tls),
      ("load_config", opt LoadConfigJson.toJson p.loadConfig),
      ("security", opt SecurityJson.toJson p.security),
      ("resources", p.resources)] := rfl

/-- "headers": the member is `View.headersJson` — the five sub-objects of `<Headers as Serialize>`, every
field read at its `repr(C)` offset — whose data directories, sections, checksum and
"DataDirectory.Sections" are those of the header model of `Thm/C19.lean` (`C19_json_header_fields`,
`C19_dd_section_first`). -/
theorem C19_json_field_headers (v : View) (j : PeJson) (h : v.serializePe = .ok j) :
    j.headers = v.headerJson ∧ j.headersDoc = v.headersJson ∧
    v.headersJson = .struct [
      ("DosHeader", dosHeaderJson v.b),
      ("NtHeaders", .struct [("Signature", .num (le32 v.b (eLfanew v.b))),
        ("FileHeader", fileHeaderJson v.b (eLfanew v.b + 4)),
        ("OptionalHeader", optionalHeaderJson v.fmt v.b (optOff v.b))]),
      ("DataDirectory", .arr (v.headerJson.dataDirectory.map fun d =>
        .struct [("VirtualAddress", .num d.1), ("Size", .num d.2)])),
      ("SectionHeaders", .arr ((List.range (numberOfSections v.b)).map fun i =>
        sectionHeaderJson v.b (secTable v.b + 40 * i))),
      ("details", v.detailsJson)] :=
  ⟨(serializePe_ok h).1.1, (serializePe_ok h).1.2, rfl⟩

/-- "rich_structure": `null` exactly when `Pe::rich_structure` fails; otherwise `xor_key()`,
`checksum()` and the records `records()` yields, in order (all three return for a structure
`try_from` accepted). -/
theorem C19_json_field_rich_structure (v : View) (j : PeJson) (h : v.serializePe = .ok j) :
    (j.richStructure = none ↔ (Rich.ofImage v.img).toOption = none) ∧
    (∀ r, Rich.ofImage v.img = .ok r →
      ∃ k c it, r.xorKey = .ok k ∧ r.checksum = .ok c ∧ r.records = .ok it ∧
        j.richStructure = some ⟨k, c, it.collect⟩) := by
  obtain ⟨h0, h1⟩ := richJson_ok (serializePe_ok h).2.1
  refine ⟨⟨fun hn => ?_, h0⟩, h1⟩
  cases hr : Rich.ofImage v.img with
  | ok r => obtain ⟨_, _, _, _, _, _, hj⟩ := h1 r hr; rw [hj] at hn; cases hn
  | _ => rfl

/-- "exports": `null` exactly when `Pe::exports` or `Exports::by` fails; otherwise `dll_name()`
(`null` when it fails, else the `Display` text of the C string), the directory's `TimeDateStamp` and
`Version`, `ordinal_base()`, the function table `functions()`, and for every hint below both
`names.len()` and `name_indices.len()` whose name decodes and is UTF-8 the pair
(name, `name_indices[hint]`), in hint order. -/
theorem C19_json_field_exports (v : View) (j : PeJson) (h : v.serializePe = .ok j) :
    j.exports = (Exports.tryFrom v).toOption.bind fun e => e.by.toOption.map fun y =>
      { dllName := y.exp.dllName.toOption.map (cstrText y.b),
        timeDateStamp := le32 y.b (y.exp.off + 4),
        version := (le16 y.b (y.exp.off + 8), le16 y.b (y.exp.off + 10)),
        ordinalBase := y.exp.ordinalBase,
        functions := (List.range y.fns.cnt).map y.fnAt,
        names := (List.range (min y.names.cnt y.idx.cnt)).filterMap fun hint =>
          (exportNameStr y.b (y.nameOfHint hint).toOption).map fun s => (s, y.idxAt hint) } :=
  exportsJson_ok (serializePe_ok h).2.2.1

/-- "imports": `null` exactly when `Pe::imports` fails; otherwise one object per descriptor of
`Imports::iter`, in order, with `dll_name()` and `int()` (each `null` when it fails); the INT lists the
entries that `import_from_va` decodes, in order, the others are dropped. -/
theorem C19_json_field_imports (v : View) (j : PeJson) (h : v.serializePe = .ok j) :
    j.imports = (Imports.tryFrom v).toOption.map fun image => (Imports.descs image).map fun d =>
      { dllName := (Imports.dllName v d).toOption.map (cstrText v.b),
        int := (Imports.int v d).toOption.map fun items =>
          items.filterMap fun it => it.toOption.map (importJson v.b) } :=
  importsJson_ok (serializePe_ok h).2.2.2.1

/-- "base_relocs": `null` exactly when `Pe::base_relocs` fails; otherwise the rvas and the types of
the entries the block iterator reports (`Relocs.flat`, C14), in order. -/
theorem C19_json_field_base_relocs (v : View) (j : PeJson) (h : v.serializePe = .ok j) :
    j.baseRelocs = v.baseRelocsBytes.toOption.map fun data =>
      ⟨(Relocs.flat data).map (·.1), (Relocs.flat data).map (·.2)⟩ :=
  baseRelocsJson_ok (serializePe_ok h).2.2.2.2.1

/-- "debug": `null` exactly when `Pe::debug` fails; otherwise one object per directory entry, in order:
the name of its `Type` constant (`null` for an unknown type), `TimeDateStamp`, `Version`, and
`entry()` — `null` when it fails, else the entry as `entryJson` (Model/JsonDirs.lean) renders it, which
cannot fail (`C19_json_debug_entry`). -/
theorem C19_json_field_debug (v : View) (j : PeJson) (h : v.serializePe = .ok j) :
    j.debug = (Dirs.debugTryFrom v).toOption.map fun t => (List.range (Dirs.debugCount t)).map fun i =>
      let d := Dirs.debugEntryOff t i
      { type := debugTypeName (Dirs.ddType v.b d), timeDateStamp := Dirs.ddTimeDateStamp v.b d,
        version := (Dirs.ddMajor v.b d, Dirs.ddMinor v.b d),
        entry := (Dirs.dirEntry v d).toOption.bind fun e => (entryJson v e).toOption } :=
  debugJson_ok (serializePe_ok h).2.2.2.2.2.1

/-- the rendering of a decoded debug entry, constructor by constructor: a CodeView record gives its four
signature bytes, the `Display` text of the pdb path, and timestamp + age (NB10) or GUID text + age
(RSDS); a misc record an empty object; POGO data the records `Pgo::iter` yields (always returns: C15);
anything else the raw data bytes (`null` when they are not inside the image). -/
theorem C19_json_debug_entry (v : View) :
    (∀ im nm, entryJson v (.codeView (.cv20 im nm)) =
      .ok (.cv20 (bytesOf v.b ⟨im.off, 4, 1⟩) (cstrText v.b nm) (le32 v.b (im.off + 8)) (le32 v.b (im.off + 12)))) ∧
    (∀ im nm, entryJson v (.codeView (.cv70 im nm)) =
      .ok (.cv70 (bytesOf v.b ⟨im.off, 4, 1⟩) (cstrText v.b nm) (guidText v.b (im.off + 4)) (le32 v.b (im.off + 20)))) ∧
    (∀ im, entryJson v (.dbg im) = .ok .dbg) ∧
    (∀ im, ∃ items, Dirs.pgoItems v.b im = .ok items ∧
      entryJson v (.pgo im) = .ok (.pgo (items.map fun it => (it.rva, it.size, cstrText v.b it.name)))) ∧
    (∀ data, entryJson v (.unknown data) = .ok (.unknown (data.map (bytesOf v.b)))) := by
  refine ⟨fun _ _ => rfl, fun _ _ => rfl, fun _ => rfl, fun im => ?_, fun _ => rfl⟩
  obtain ⟨l, hl, _⟩ := Dirs.pgoItems_safe v.b im
  refine ⟨l, hl, ?_⟩
  unfold entryJson
  simp only
  rw [hl, Out.bind_ok]

/-- "tls": `null` exactly when `Pe::tls` fails; otherwise the bytes of `raw_data()` and the values of
`callbacks()` (each `null` when it fails). -/
theorem C19_json_field_tls (v : View) (j : PeJson) (h : v.serializePe = .ok j) :
    j.tls = (Dirs.tlsTryFrom v).toOption.map fun t =>
      { rawData := (Dirs.tlsRawData v t).toOption.map (bytesOf v.b),
        callbacks := (Dirs.tlsCallbacks v t).toOption.map fun r => valsOf v.b r v.fmt.ptrSize } :=
  tlsJson_ok (serializePe_ok h).2.2.2.2.2.2.1

/-- "load_config": `null` exactly when `Pe::load_config` fails; otherwise the value of
`security_cookie()` and the values of `se_handler_table()` (each `null` when it fails). -/
theorem C19_json_field_load_config (v : View) (j : PeJson) (h : v.serializePe = .ok j) :
    j.loadConfig = (Dirs.lcTryFrom v).toOption.map fun t =>
      { securityCookie := (Dirs.lcSecurityCookie v t).toOption.map fun r => le32 v.b r.off,
        seHandlerTable := (Dirs.lcSeHandlerTable v t).toOption.map fun r => valsOf v.b r v.fmt.ptrSize } :=
  loadConfigJson_ok (serializePe_ok h).2.2.2.2.2.2.2.1

/-- "security": `null` exactly when `Pe::security` fails (always for a mapped view: C15); otherwise
`certificate_type()` and the bytes of `certificate_data()`. -/
theorem C19_json_field_security (v : View) (j : PeJson) (h : v.serializePe = .ok j) :
    (j.security = none ↔ (Dirs.securityTryFrom v).toOption = none) ∧
    (∀ s, Dirs.securityTryFrom v = .ok s →
      ∃ ty data, Dirs.secCertType v s = .ok ty ∧ Dirs.secCertData v s = .ok data ∧
        j.security = some ⟨ty, bytesOf v.b data⟩) := by
  obtain ⟨h0, h1⟩ := securityJson_ok (serializePe_ok h).2.2.2.2.2.2.2.2.1
  refine ⟨⟨fun hn => ?_, h0⟩, h1⟩
  cases hs : Dirs.securityTryFrom v with
  | ok s => obtain ⟨_, _, _, _, hj⟩ := h1 s hs; rw [hj] at hn; cases hn
  | _ => rfl

/-- "resources": `null` when `Pe::resources` or `Resources::root` fails; otherwise the tree
`serResDir` (Model/JsonDirs.lean) builds from the root with the depth limit `FSCK_MAX_DEPTH` and the
directory budget `fsck_budget()` (`C19_json_resources_dir` unfolds one level of it). -/
theorem C19_json_field_resources (v : View) (j : PeJson) (h : v.serializePe = .ok j) :
    ((Resources.ofView v).toOption = none → j.resources = .null) ∧
    (∀ r o, Resources.ofView v = .ok (r, o) →
      ((Resources.root r).toOption = none → j.resources = .null) ∧
      (∀ d, Resources.root r = .ok d →
        ∃ jb, serResDir r Resources.FSCK_MAX_DEPTH true d (Resources.fsckBudget r) = .ok jb ∧
          j.resources = jb.1)) :=
  resourcesJson_ok (serializePe_ok h).2.2.2.2.2.2.2.2.2

/-- one directory of the resource tree: cut off with `null` at depth 32 or when the budget is used
up; otherwise (one unit of budget spent) one object per entry of `Directory::entries`, in order. -/
theorem C19_json_resources_dir (r : Resources.Resources) (k : Nat) (named : Bool) (d : Resources.Dir) (b : Nat) :
    serResDir r 0 named d b = .ok (.null, b) ∧
    serResDir r (k + 1) named d 0 = .ok (.null, 0) ∧
    (∀ es, d.entries r = .ok es → serResDir r (k + 1) named d (b + 1) =
      (serResEntries (serResDir r k false) r named es b >>= fun lb => .ok (.arr lb.1, lb.2))) := by
  refine ⟨rfl, rfl, fun es hes => ?_⟩
  show (if b + 1 = 0 then _ else _) = _
  rw [if_neg (by omega), hes, Out.bind_ok]
  rfl

/-- one entry of a resource directory: the member "name" is `name()` (`null` when it fails), a
top-level id renamed to its `RSRC_TYPES` name; the second member is "directory" with the sub-tree (one
level deeper, never renamed) for a directory entry, "data" with address / size / code page for a data
entry, and `null` under the key `is_dir()` selects when `entry()` fails.  The budget left after a
sub-tree is what the following entries get. -/
theorem C19_json_resources_entry (rec : Resources.Dir → Nat → Out (Json × Nat)) (r : Resources.Resources)
    (named : Bool) (e : Resources.DirEntry) (rest : List Resources.DirEntry) (b : Nat)
    (lb : List Json × Nat) (h : serResEntries rec r named (e :: rest) b = .ok lb) :
    ∃ (second : String × Json) (b' : Nat) (tl : List Json × Nat),
      serResEntries rec r named rest b' = .ok tl ∧
      lb = (.struct [("name", opt (fun n => resNameJson (Resources.Name.renameId n
              (if named then Resources.rsrcTypes else []))) (e.getName r).toOption), second] :: tl.1, tl.2) ∧
      ((∃ d jb, e.entry r = .ok (.dir d) ∧ rec d b = .ok jb ∧ second = ("directory", jb.1) ∧ b' = jb.2) ∨
       (∃ de, e.entry r = .ok (.data de) ∧ second = ("data", resDataJson de) ∧ b' = b) ∨
       ((e.entry r).toOption = none ∧ second = (if e.isDir then "directory" else "data", .null) ∧ b' = b)) := by
  unfold serResEntries at h
  obtain ⟨name, hname, h⟩ := Out.bind_eq_ok h
  obtain ⟨en, hen, h⟩ := Out.bind_eq_ok h
  obtain ⟨fb, hfb, h⟩ := Out.bind_eq_ok h
  obtain ⟨tl, htl, h⟩ := Out.bind_eq_ok h
  cases h
  have hname' := Out.okOpt_eq_ok hname
  have hen' := Out.okOpt_eq_ok hen
  refine ⟨fb.1, fb.2, tl, htl, by rw [hname'], ?_⟩
  cases en with
  | none =>
    cases hfb
    exact .inr (.inr ⟨hen'.symm, rfl, rfl⟩)
  | some x =>
    cases x with
    | dir d =>
      obtain ⟨jb, hjb, hfb⟩ := Out.bind_eq_ok hfb
      cases hfb
      exact .inl ⟨d, jb, Out.toOption_eq_some.1 hen'.symm, hjb, rfl, rfl⟩
    | data de =>
      cases hfb
      exact .inr (.inl ⟨de, Out.toOption_eq_some.1 hen'.symm, rfl, rfl⟩)

/-! ## well-formedness of the printed text

`Json.print` (Model/Json.lean) transcribes what `serde_json`'s compact formatter writes for a value
tree: `null`, `true` / `false`, unsigned decimal integers, strings with the escapes of serde_json's
`ESCAPE` table, `[..]` and `{"key":value,..}` without white space.  `Json.parse` (same file) is a
strict reader for a SUBSET of RFC 8259 texts (no white space, unsigned integers without leading
zeros, the two-character escapes and `\u00XY` only, no raw control characters, no trailing commas), so
everything it accepts is well-formed JSON — up to the UTF-8 validity of the bytes ≥ 0x80 inside
strings, which it takes verbatim.  Trusted here: that `serde_json` prints what `Json.print` says (the
correspondence run compares the bytes: `jsontext <k> <field>`), and that the strings are UTF-8 (they
are Rust `str`s: export names that passed `from_utf8`, `Display` output, `from_utf16_lossy` output,
literals; the one `from_utf8_unchecked`, `CodeView::format`, is over the four bytes just compared with
`NB10` / `RSDS`). -/

/-- **The printed text of every value tree reads back to that tree**: it is well-formed JSON, and
nothing is lost or merged by the escaping (in particular for the document of any image). -/
theorem C19_json_wellformed (j : Json) : Json.parse j.print = some j := Json.parse_print j

/-- … instantiated at the document `serialize_pe` produces -/
theorem C19_json_document_wellformed (v : View) (p : PeJson) (_h : v.serializePe = .ok p) :
    Json.parse p.toJson.print = some p.toJson := Json.parse_print _

/-- the printer is injective: two different value trees never print the same text -/
theorem C19_json_print_injective (a b : Json) (h : a.print = b.print) : a = b := Json.print_injective h

/-- the one string the serializer makes with `from_utf8_unchecked` — "format" of a CodeView entry — is
the ASCII text `NB10` or `RSDS` for every record `code_view` accepts -/
theorem C19_json_codeview_format_ascii (v : View) (d : Nat) (cv : Dirs.CodeView) (h : Dirs.codeView v d = .ok cv) :
    bytesOf v.b ⟨cv.image.off, 4, 1⟩ = [78, 66, 49, 48] ∨ bytesOf v.b ⟨cv.image.off, 4, 1⟩ = [82, 83, 68, 83] :=
  codeView_format_ascii h

/-! ## non-vacuity

An 808-byte PE32 image without sections that has every directory the serializer looks at (bytes:
/verif/.work/c19json/mkdemo.py): Rich header (one record), export directory (`d.dll`, functions
[0x100, 0], one name `f`), one import descriptor (`k.dll`: `g` by name with hint 7, ordinal 9),
relocation block (page 0x1000: types 3 and 10), a CodeView RSDS record (`a.pdb`), TLS (4 template
bytes, one callback), load config (cookie, two SE handlers), a certificate (type 2), resources (named
entry `A` → sub-directory → data, id 16 → data).  As a mapped view every directory but the
certificate resolves; as a file (no sections: only the certificate, addressed by file offset). -/

def jsonDemoBytes : Bytes := #[
    77, 90, 0, 0, 0, 0, 0, 0, 0, 0, 0, 0, 0, 0, 0, 0, 0, 0, 0, 0, 0, 0, 0, 0, 0, 0, 0, 0, 0, 0, 0, 0,
    0, 0, 0, 0, 0, 0, 0, 0, 0, 0, 0, 0, 0, 0, 0, 0, 0, 0, 0, 0, 0, 0, 0, 0, 0, 0, 0, 0, 128, 0, 0, 0,
    0, 82, 76, 66, 68, 51, 34, 17, 68, 51, 34, 17, 68, 51, 34, 17, 112, 33, 127, 17, 71, 51, 34, 17, 82, 105, 99, 104, 68, 51, 34, 17,
    0, 0, 0, 0, 0, 0, 0, 0, 0, 0, 0, 0, 0, 0, 0, 0, 0, 0, 0, 0, 0, 0, 0, 0, 0, 0, 0, 0, 0, 0, 0, 0,
    80, 69, 0, 0, 76, 1, 0, 0, 0, 0, 0, 95, 0, 0, 0, 0, 0, 0, 0, 0, 224, 0, 2, 33, 11, 1, 14, 0, 0, 0, 0, 0,
    0, 0, 0, 0, 0, 0, 0, 0, 0, 0, 0, 0, 0, 0, 0, 0, 0, 0, 0, 0, 0, 0, 64, 0, 0, 16, 0, 0, 0, 2, 0, 0,
    6, 0, 0, 0, 0, 0, 0, 0, 6, 0, 0, 0, 0, 0, 0, 0, 40, 3, 0, 0, 40, 3, 0, 0, 0, 0, 0, 0, 3, 0, 0, 0,
    0, 0, 0, 0, 0, 0, 0, 0, 0, 0, 0, 0, 0, 0, 0, 0, 0, 0, 0, 0, 16, 0, 0, 0, 144, 1, 0, 0, 40, 0, 0, 0,
    208, 1, 0, 0, 40, 0, 0, 0, 188, 2, 0, 0, 92, 0, 0, 0, 0, 0, 0, 0, 0, 0, 0, 0, 24, 3, 0, 0, 16, 0, 0, 0,
    248, 1, 0, 0, 12, 0, 0, 0, 36, 2, 0, 0, 28, 0, 0, 0, 0, 0, 0, 0, 0, 0, 0, 0, 0, 0, 0, 0, 0, 0, 0, 0,
    80, 2, 0, 0, 24, 0, 0, 0, 116, 2, 0, 0, 72, 0, 0, 0, 0, 0, 0, 0, 0, 0, 0, 0, 0, 0, 0, 0, 0, 0, 0, 0,
    0, 0, 0, 0, 0, 0, 0, 0, 0, 0, 0, 0, 0, 0, 0, 0, 0, 0, 0, 0, 0, 0, 0, 0, 100, 46, 100, 108, 108, 0, 102, 0,
    0, 1, 0, 0, 0, 0, 0, 0, 126, 1, 0, 0, 0, 0, 0, 0, 0, 0, 0, 0, 1, 0, 0, 95, 1, 0, 2, 0, 120, 1, 0, 0,
    5, 0, 0, 0, 2, 0, 0, 0, 1, 0, 0, 0, 128, 1, 0, 0, 136, 1, 0, 0, 140, 1, 0, 0, 107, 46, 100, 108, 108, 0, 7, 0,
    103, 0, 0, 0, 190, 1, 0, 0, 9, 0, 0, 128, 0, 0, 0, 0, 196, 1, 0, 0, 0, 0, 0, 0, 0, 0, 0, 0, 184, 1, 0, 0,
    196, 1, 0, 0, 0, 0, 0, 0, 0, 0, 0, 0, 0, 0, 0, 0, 0, 0, 0, 0, 0, 0, 0, 0, 0, 16, 0, 0, 12, 0, 0, 0,
    4, 48, 8, 160, 82, 83, 68, 83, 1, 2, 3, 4, 5, 6, 7, 8, 9, 10, 11, 12, 13, 14, 15, 16, 7, 0, 0, 0, 97, 46, 112, 100,
    98, 0, 0, 0, 0, 0, 0, 0, 2, 0, 0, 95, 1, 0, 0, 0, 2, 0, 0, 0, 30, 0, 0, 0, 4, 2, 0, 0, 4, 2, 0, 0,
    170, 187, 204, 221, 0, 0, 0, 0, 0, 1, 64, 0, 0, 0, 0, 0, 64, 2, 64, 0, 68, 2, 64, 0, 68, 2, 64, 0, 72, 2, 64, 0,
    0, 0, 0, 0, 0, 0, 0, 0, 78, 230, 64, 187, 1, 1, 0, 0, 2, 1, 0, 0, 72, 0, 0, 0, 0, 0, 0, 0, 0, 0, 0, 0,
    0, 0, 0, 0, 0, 0, 0, 0, 0, 0, 0, 0, 0, 0, 0, 0, 0, 0, 0, 0, 0, 0, 0, 0, 0, 0, 0, 0, 0, 0, 0, 0,
    0, 0, 0, 0, 0, 0, 0, 0, 0, 0, 0, 0, 0, 0, 0, 0, 104, 2, 64, 0, 108, 2, 64, 0, 2, 0, 0, 0, 0, 0, 0, 0,
    0, 0, 0, 0, 0, 0, 0, 0, 1, 0, 1, 0, 88, 0, 0, 128, 32, 0, 0, 128, 16, 0, 0, 0, 72, 0, 0, 0, 0, 0, 0, 0,
    0, 0, 0, 0, 0, 0, 0, 0, 0, 0, 1, 0, 9, 4, 0, 0, 56, 0, 0, 0, 0, 32, 0, 0, 10, 0, 0, 0, 228, 4, 0, 0,
    0, 0, 0, 0, 0, 48, 0, 0, 20, 0, 0, 0, 0, 0, 0, 0, 0, 0, 0, 0, 1, 0, 65, 0, 12, 0, 0, 0, 0, 2, 2, 0,
    1, 2, 3, 4, 0, 0, 0, 0]

def jsonDemoImg : Img := ⟨jsonDemoBytes, 0⟩
def jsonDemoView : View := ⟨jsonDemoImg, .pe32, .view, 0x400000⟩
def jsonDemoFile : View := ⟨jsonDemoImg, .pe32, .file, 0x400000⟩

/-- the hypotheses of `C19_json_total` hold for the demo image, both ways of opening it -/
example : fromBytes .pe32 .view jsonDemoImg = .ok jsonDemoView ∧ fromBytes .pe32 .file jsonDemoImg = .ok jsonDemoFile ∧
    jsonDemoImg.bytes.size < 4294967296 := by
  refine ⟨(fromBytes_ok_iff _ _ _ _).2 ⟨by decide +kernel, ?_⟩, (fromBytes_ok_iff _ _ _ _).2 ⟨by decide +kernel, ?_⟩,
    by decide +kernel⟩
  · rw [show imageBaseField .pe32 jsonDemoImg.bytes = 0x400000 by decide +kernel]; rfl
  · rw [show imageBaseField .pe32 jsonDemoImg.bytes = 0x400000 by decide +kernel]; rfl

/-- the document of the mapped view: eight directory members are not `null`, with these values -/
example :
    (match jsonDemoView.serializePe with
     | .ok j =>
       j.richStructure == some ⟨0x11223344, 48796385, [⟨0x1234, 0x5d, 3⟩]⟩ &&
       j.exports == some ⟨some (asc "d.dll"), 0x5f000001, (1, 2), 5, [0x100, 0], [(asc "f", 0)]⟩ &&
       j.imports == some [⟨some (asc "k.dll"), some [.byName 7 (asc "g"), .byOrdinal 9]⟩] &&
       j.baseRelocs == some ⟨[0x1004, 0x1008], [3, 10]⟩ &&
       j.debug.map (·.map (·.type)) == some [some "IMAGE_DEBUG_TYPE_CODEVIEW"] &&
       j.tls == some ⟨some [0xAA, 0xBB, 0xCC, 0xDD], some [0x400100]⟩ &&
       j.loadConfig == some ⟨some 0xBB40E64E, some [0x101, 0x102]⟩ &&
       j.security == none &&
       (match j.resources with | .arr [_, _] => true | _ => false)
     | _ => false) = true := by
  decide +kernel

/-- the same bytes opened as a file: the certificate is serialized, the RVA-addressed directories are `null` -/
example :
    (match jsonDemoFile.serializePe with
     | .ok j => j.security == some ⟨2, [1, 2, 3, 4, 0, 0, 0, 0]⟩ && j.exports == none && j.richStructure.isSome
     | _ => false) = true := by
  decide +kernel

/-- the text of the "exports" and "imports" members of the demo view, as serde_json prints them -/
example :
    (match jsonDemoView.serializePe with
     | .ok j =>
       (j.toJson.field "exports").map (fun x => String.ofList (x.print.map Char.ofNat)) ==
         some "{\"dll_name\":\"d.dll\",\"time_date_stamp\":1593835521,\"version\":\"1.2\",\"ordinal_base\":5,\"functions\":[256,0],\"names\":{\"f\":0}}" &&
       (j.toJson.field "imports").map (fun x => String.ofList (x.print.map Char.ofNat)) ==
         some "[{\"dll_name\":\"k.dll\",\"int\":[{\"ByName\":{\"hint\":7,\"name\":\"g\"}},{\"ByOrdinal\":{\"ord\":9}}]}]"
     | _ => false) = true := by
  decide +kernel

end Pelite.Pe
