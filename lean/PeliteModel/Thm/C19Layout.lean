import PeliteModel.Model.JsonDirs
import PeliteModel.Generated.ImageLayout
/-!
C19 — the `(name, offset, width)` lists and the inline offsets of the serializer model (`Model/Json.lean`,
`Model/JsonDirs.lean`) are the struct layouts of the *current source* (`Generated/ImageLayout.lean`, rewritten on
every check run from `size_of` / `align_of` / `offset_of!` of the structs of `src/image.rs`).

`#[derive(Serialize)]` emits the fields of a struct in declaration order under their own names.  The model lists each
field as `(name, offset, width)`.  The theorems below state every such triple as

    fld! STRUCT field next   =   ("field", STRUCT__field, STRUCT__next - STRUCT__field)

where `next` is the field declared after it (`size` for the last one): the NAME string and the OFFSET constant are
produced from the same identifier by the macro, so a triple of the model whose name and offset belong to different
fields cannot satisfy the statement, and the WIDTH is the distance to the next field (the structs serialized here
have no padding: the widths add up to the struct's size, `C19_json_header_widths_cover`).

Widths not derived from the table: none for the header structs.  For `IMAGE_VERSION<T>` (generic, not in the table)
the member width is half the distance to the next field (`verField`), for `[u16; n]` the element count is half the
byte distance (`arrField`); `IMAGE_NT_HEADERS::Signature`, the data directory pairs and the section name are stated
through their offsets / the name's 8 bytes (`VirtualSize - Name`).
Not tied: `serializeLoadConfig`'s `le32 v.b r.off` is the `u32` behind the security cookie pointer (no struct).
-/
namespace Pelite.Pe
open Pelite Pelite.Json Pelite.Generated.Layout

open Lean in
/-- `fld! S f n` = `("f", S__f, S__n - S__f)`: name, offset and width of field `f` of struct `S`, `n` the field
declared after it (`size` after the last) -/
macro "fld!" s:ident f:ident n:ident : term =>
  let c (x : Name) := mkIdent (Name.mkSimple (s.getId.toString ++ "__" ++ x.toString))
  `(($(Syntax.mkStrLit f.getId.toString), $(c f.getId), $(c n.getId) - $(c f.getId)))

open Lean in
/-- `named! S f n` = `("f", S__f, S__n)`: name and offset of field `f`, offset of the field after it -/
macro "named!" s:ident f:ident n:ident : term =>
  let c (x : Name) := mkIdent (Name.mkSimple (s.getId.toString ++ "__" ++ x.toString))
  `(($(Syntax.mkStrLit f.getId.toString), $(c f.getId), $(c n.getId)))

example : (fld! IMAGE_DOS_HEADER e_lfanew size) = ("e_lfanew", 60, 4) := rfl
example : (named! IMAGE_DOS_HEADER e_res e_oemid) = ("e_res", 28, 36) := rfl

/-- an `IMAGE_VERSION<T>` member `(name, offset, offset of the next field)` at `o`: two `T`s, Major then Minor -/
def verField (b : Bytes) (o : Nat) (p : String × Nat × Nat) : String × Json :=
  (p.1, versionAt b (o + p.2.1) ((p.2.2 - p.2.1) / 2))
/-- a `[u16; n]` member `(name, offset, offset of the next field)` of the DOS header -/
def arrField (b : Bytes) (p : String × Nat × Nat) : String × Json :=
  (p.1, u16Array b p.2.1 ((p.2.2 - p.2.1) / 2))

/-- **Header structs**: every `(name, offset, width)` of `dosHeaderJson`, `fileHeaderJson`, `optionalHeaderJson`
(PE32 and PE32+) and `sectionHeaderJson` is `(field name, offset of that field in the source, distance to the next
field)`, in declaration order. -/
theorem C19_json_header_layout (b : Bytes) (o : Nat) :
    dosHeaderJson b =
      .struct (fieldsJson b 0 [fld! IMAGE_DOS_HEADER e_magic e_cblp, fld! IMAGE_DOS_HEADER e_cblp e_cp,
          fld! IMAGE_DOS_HEADER e_cp e_crlc, fld! IMAGE_DOS_HEADER e_crlc e_cparhdr,
          fld! IMAGE_DOS_HEADER e_cparhdr e_minalloc, fld! IMAGE_DOS_HEADER e_minalloc e_maxalloc,
          fld! IMAGE_DOS_HEADER e_maxalloc e_ss, fld! IMAGE_DOS_HEADER e_ss e_sp, fld! IMAGE_DOS_HEADER e_sp e_csum,
          fld! IMAGE_DOS_HEADER e_csum e_ip, fld! IMAGE_DOS_HEADER e_ip e_cs, fld! IMAGE_DOS_HEADER e_cs e_lfarlc,
          fld! IMAGE_DOS_HEADER e_lfarlc e_ovno, fld! IMAGE_DOS_HEADER e_ovno e_res] ++
        [arrField b (named! IMAGE_DOS_HEADER e_res e_oemid)] ++
        fieldsJson b 0 [fld! IMAGE_DOS_HEADER e_oemid e_oeminfo, fld! IMAGE_DOS_HEADER e_oeminfo e_res2] ++
        [arrField b (named! IMAGE_DOS_HEADER e_res2 e_lfanew)] ++
        fieldsJson b 0 [fld! IMAGE_DOS_HEADER e_lfanew size]) ∧
    fileHeaderJson b o =
      .struct (fieldsJson b o [fld! IMAGE_FILE_HEADER Machine NumberOfSections,
        fld! IMAGE_FILE_HEADER NumberOfSections TimeDateStamp, fld! IMAGE_FILE_HEADER TimeDateStamp PointerToSymbolTable,
        fld! IMAGE_FILE_HEADER PointerToSymbolTable NumberOfSymbols,
        fld! IMAGE_FILE_HEADER NumberOfSymbols SizeOfOptionalHeader,
        fld! IMAGE_FILE_HEADER SizeOfOptionalHeader Characteristics, fld! IMAGE_FILE_HEADER Characteristics size]) ∧
    optionalHeaderJson .pe32 b o =
      .struct (fieldsJson b o [fld! IMAGE_OPTIONAL_HEADER32 Magic LinkerVersion] ++
        [verField b o (named! IMAGE_OPTIONAL_HEADER32 LinkerVersion SizeOfCode)] ++
        fieldsJson b o [fld! IMAGE_OPTIONAL_HEADER32 SizeOfCode SizeOfInitializedData,
          fld! IMAGE_OPTIONAL_HEADER32 SizeOfInitializedData SizeOfUninitializedData,
          fld! IMAGE_OPTIONAL_HEADER32 SizeOfUninitializedData AddressOfEntryPoint,
          fld! IMAGE_OPTIONAL_HEADER32 AddressOfEntryPoint BaseOfCode, fld! IMAGE_OPTIONAL_HEADER32 BaseOfCode BaseOfData] ++
        fieldsJson b o [fld! IMAGE_OPTIONAL_HEADER32 BaseOfData ImageBase,
          fld! IMAGE_OPTIONAL_HEADER32 ImageBase SectionAlignment] ++
        (fieldsJson b o [fld! IMAGE_OPTIONAL_HEADER32 SectionAlignment FileAlignment,
          fld! IMAGE_OPTIONAL_HEADER32 FileAlignment OperatingSystemVersion] ++
        [verField b o (named! IMAGE_OPTIONAL_HEADER32 OperatingSystemVersion ImageVersion),
         verField b o (named! IMAGE_OPTIONAL_HEADER32 ImageVersion SubsystemVersion),
         verField b o (named! IMAGE_OPTIONAL_HEADER32 SubsystemVersion Win32VersionValue)] ++
        fieldsJson b o [fld! IMAGE_OPTIONAL_HEADER32 Win32VersionValue SizeOfImage,
          fld! IMAGE_OPTIONAL_HEADER32 SizeOfImage SizeOfHeaders, fld! IMAGE_OPTIONAL_HEADER32 SizeOfHeaders CheckSum,
          fld! IMAGE_OPTIONAL_HEADER32 CheckSum Subsystem, fld! IMAGE_OPTIONAL_HEADER32 Subsystem DllCharacteristics,
          fld! IMAGE_OPTIONAL_HEADER32 DllCharacteristics SizeOfStackReserve]) ++
        fieldsJson b o [fld! IMAGE_OPTIONAL_HEADER32 SizeOfStackReserve SizeOfStackCommit,
          fld! IMAGE_OPTIONAL_HEADER32 SizeOfStackCommit SizeOfHeapReserve,
          fld! IMAGE_OPTIONAL_HEADER32 SizeOfHeapReserve SizeOfHeapCommit,
          fld! IMAGE_OPTIONAL_HEADER32 SizeOfHeapCommit LoaderFlags,
          fld! IMAGE_OPTIONAL_HEADER32 LoaderFlags NumberOfRvaAndSizes,
          fld! IMAGE_OPTIONAL_HEADER32 NumberOfRvaAndSizes DataDirectory]) ∧
    optionalHeaderJson .pe64 b o =
      .struct (fieldsJson b o [fld! IMAGE_OPTIONAL_HEADER64 Magic LinkerVersion] ++
        [verField b o (named! IMAGE_OPTIONAL_HEADER64 LinkerVersion SizeOfCode)] ++
        fieldsJson b o [fld! IMAGE_OPTIONAL_HEADER64 SizeOfCode SizeOfInitializedData,
          fld! IMAGE_OPTIONAL_HEADER64 SizeOfInitializedData SizeOfUninitializedData,
          fld! IMAGE_OPTIONAL_HEADER64 SizeOfUninitializedData AddressOfEntryPoint,
          fld! IMAGE_OPTIONAL_HEADER64 AddressOfEntryPoint BaseOfCode, fld! IMAGE_OPTIONAL_HEADER64 BaseOfCode ImageBase] ++
        fieldsJson b o [fld! IMAGE_OPTIONAL_HEADER64 ImageBase SectionAlignment] ++
        (fieldsJson b o [fld! IMAGE_OPTIONAL_HEADER64 SectionAlignment FileAlignment,
          fld! IMAGE_OPTIONAL_HEADER64 FileAlignment OperatingSystemVersion] ++
        [verField b o (named! IMAGE_OPTIONAL_HEADER64 OperatingSystemVersion ImageVersion),
         verField b o (named! IMAGE_OPTIONAL_HEADER64 ImageVersion SubsystemVersion),
         verField b o (named! IMAGE_OPTIONAL_HEADER64 SubsystemVersion Win32VersionValue)] ++
        fieldsJson b o [fld! IMAGE_OPTIONAL_HEADER64 Win32VersionValue SizeOfImage,
          fld! IMAGE_OPTIONAL_HEADER64 SizeOfImage SizeOfHeaders, fld! IMAGE_OPTIONAL_HEADER64 SizeOfHeaders CheckSum,
          fld! IMAGE_OPTIONAL_HEADER64 CheckSum Subsystem, fld! IMAGE_OPTIONAL_HEADER64 Subsystem DllCharacteristics,
          fld! IMAGE_OPTIONAL_HEADER64 DllCharacteristics SizeOfStackReserve]) ++
        fieldsJson b o [fld! IMAGE_OPTIONAL_HEADER64 SizeOfStackReserve SizeOfStackCommit,
          fld! IMAGE_OPTIONAL_HEADER64 SizeOfStackCommit SizeOfHeapReserve,
          fld! IMAGE_OPTIONAL_HEADER64 SizeOfHeapReserve SizeOfHeapCommit,
          fld! IMAGE_OPTIONAL_HEADER64 SizeOfHeapCommit LoaderFlags,
          fld! IMAGE_OPTIONAL_HEADER64 LoaderFlags NumberOfRvaAndSizes,
          fld! IMAGE_OPTIONAL_HEADER64 NumberOfRvaAndSizes DataDirectory]) ∧
    sectionHeaderJson b o =
      .struct ([("Name", sectionNameJson b (o + IMAGE_SECTION_HEADER__Name))] ++
        fieldsJson b o [fld! IMAGE_SECTION_HEADER VirtualSize VirtualAddress,
          fld! IMAGE_SECTION_HEADER VirtualAddress SizeOfRawData, fld! IMAGE_SECTION_HEADER SizeOfRawData PointerToRawData,
          fld! IMAGE_SECTION_HEADER PointerToRawData PointerToRelocations,
          fld! IMAGE_SECTION_HEADER PointerToRelocations PointerToLinenumbers,
          fld! IMAGE_SECTION_HEADER PointerToLinenumbers NumberOfRelocations,
          fld! IMAGE_SECTION_HEADER NumberOfRelocations NumberOfLinenumbers,
          fld! IMAGE_SECTION_HEADER NumberOfLinenumbers Characteristics, fld! IMAGE_SECTION_HEADER Characteristics size]) ∧
    -- the section name is the 8 bytes before `VirtualSize`
    sectionNameJson b o =
      (let name := (List.range (IMAGE_SECTION_HEADER__VirtualSize - IMAGE_SECTION_HEADER__Name)).map fun i => byteAt b (o + i)
       if (Resources.utf8Chars (trimn name)).isSome then .str (trimn name) else nums name) :=
  ⟨rfl, rfl, rfl, rfl, rfl, rfl⟩

/-- the widths are complete: in each header struct the listed members (with the skipped `DataDirectory` of the
optional headers starting where the last one ends) fill the struct without gap — "distance to the next field" is
the width of the field, not the width plus padding.  Sum of the widths read = `size_of`. -/
theorem C19_json_header_widths_cover :
    14 * 2 + 4 * 2 + 2 * 2 + 10 * 2 + 4 = IMAGE_DOS_HEADER__size ∧
    2 + 2 + 4 + 4 + 4 + 2 + 2 = IMAGE_FILE_HEADER__size ∧
    2 + 2 * 1 + 5 * 4 + 2 * 4 + 2 * 4 + 3 * (2 * 2) + 4 * 4 + 2 * 2 + 6 * 4 = IMAGE_OPTIONAL_HEADER32__size ∧
    2 + 2 * 1 + 5 * 4 + 8 + 2 * 4 + 3 * (2 * 2) + 4 * 4 + 2 * 2 + 4 * 8 + 2 * 4 = IMAGE_OPTIONAL_HEADER64__size ∧
    8 + 6 * 4 + 2 * 2 + 4 = IMAGE_SECTION_HEADER__size ∧
    IMAGE_OPTIONAL_HEADER32__DataDirectory = IMAGE_OPTIONAL_HEADER32__size ∧
    IMAGE_OPTIONAL_HEADER64__DataDirectory = IMAGE_OPTIONAL_HEADER64__size := by decide

/-- **The rest of "headers"**: where the NT headers, the file header, the section table and the fields `details`
decodes are read. -/
theorem C19_json_headers_offsets (v : View) :
    v.headersJson =
      (let h := v.headerJson
       .struct [
        ("DosHeader", dosHeaderJson v.b),
        ("NtHeaders", .struct [("Signature", .num (le32 v.b (eLfanew v.b + IMAGE_NT_HEADERS32__Signature))),
          ("FileHeader", fileHeaderJson v.b (eLfanew v.b + IMAGE_NT_HEADERS32__FileHeader)),
          ("OptionalHeader", optionalHeaderJson v.fmt v.b (optOff v.b))]),
        ("DataDirectory", .arr (h.dataDirectory.map fun d => .struct [("VirtualAddress", .num d.1), ("Size", .num d.2)])),
        ("SectionHeaders", .arr ((List.range (numberOfSections v.b)).map fun i =>
          sectionHeaderJson v.b (secTable v.b + IMAGE_SECTION_HEADER__size * i))),
        ("details", v.detailsJson)]) ∧
    v.detailsJson =
      (let h := v.headerJson
       let fh := eLfanew v.b + IMAGE_NT_HEADERS32__FileHeader
       .struct [
        ("DosHeader.e_magic", lit "MZ"), ("NtHeaders.Signature", lit "PE"),
        ("FileHeader.Machine", opt lit (machineName (le16 v.b (fh + IMAGE_FILE_HEADER__Machine)))),
        ("FileHeader.Characteristics", flagNames fileCharNames (le16 v.b (fh + IMAGE_FILE_HEADER__Characteristics))),
        ("OptionalHeader.Magic", opt lit (optionalMagicName (optMagic v.b))),
        ("OptionalHeader.CheckSum", .num h.detCheckSum),
        ("OptionalHeader.Subsystem", opt lit (subsystemName (le16 v.b (optOff v.b + IMAGE_OPTIONAL_HEADER32__Subsystem)))),
        ("OptionalHeader.DllCharacteristics",
          flagNames dllCharNames (le16 v.b (optOff v.b + IMAGE_OPTIONAL_HEADER32__DllCharacteristics))),
        ("DataDirectory.Names", .arr ((List.range h.dataDirectory.length).map fun i => opt lit directoryEntryNames[i]?)),
        ("DataDirectory.Sections", .arr (h.detDdSections.map (opt .num))),
        ("SectionHeaders.Characteristics", .arr (h.sections.map fun s => flagNames sectionCharNames s.chars))]) ∧
    -- the offsets used for both formats are the same in both
    IMAGE_NT_HEADERS64__Signature = IMAGE_NT_HEADERS32__Signature ∧
    IMAGE_NT_HEADERS64__FileHeader = IMAGE_NT_HEADERS32__FileHeader ∧
    IMAGE_OPTIONAL_HEADER64__Subsystem = IMAGE_OPTIONAL_HEADER32__Subsystem ∧
    IMAGE_OPTIONAL_HEADER64__DllCharacteristics = IMAGE_OPTIONAL_HEADER32__DllCharacteristics ∧
    -- the data directory pairs are `IMAGE_DATA_DIRECTORY { VirtualAddress, Size }`, two `u32`s
    (∀ i, v.dataDir i = (if i < numDataDirs v.fmt v.b then
        some (le32 v.b (ntEnd v.fmt v.b + IMAGE_DATA_DIRECTORY__size * i + IMAGE_DATA_DIRECTORY__VirtualAddress),
              le32 v.b (ntEnd v.fmt v.b + IMAGE_DATA_DIRECTORY__size * i + IMAGE_DATA_DIRECTORY__Size))
      else none)) :=
  ⟨rfl, rfl, rfl, rfl, rfl, rfl, fun _ => rfl⟩

/-- **Directory serializers**: the struct fields `serialize_pe` reads directly (not through an accessor of the
directory models, whose offsets are tied in `C08/C09/C12/C14/C15_model_offsets`). -/
theorem C19_json_dirs_layout (v : View) (y : Exports.By) (b : Bytes) (o : Nat) (image name : Ref) :
    -- `Pe::base_relocs`: `slice(va, size, align_of::<IMAGE_BASE_RELOCATION>())`
    v.baseRelocsRef =
      (match v.dataDir 5 with
       | none => .err .null
       | some (va, size) =>
         match v.slice va size IMAGE_BASE_RELOCATION__align with
         | .ok r => .ok ⟨r.off, size, IMAGE_BASE_RELOCATION__align⟩
         | .err e => .err e | .panic s => .panic s | .ub s => .ub s | .diverge => .diverge) ∧
    -- exports: `image.TimeDateStamp`, `image.Version` (`IMAGE_VERSION<u16>`: Major, Minor)
    serializeBy y =
      (y.exp.dllName.okOpt >>= fun dll =>
       exportNames y y.iterNameIndices >>= fun names =>
       .ok { dllName := dll.map (cstrText y.b),
             timeDateStamp := le32 y.b (y.exp.off + IMAGE_EXPORT_DIRECTORY__TimeDateStamp),
             version := (le16 y.b (y.exp.off + IMAGE_EXPORT_DIRECTORY__Version),
                         le16 y.b (y.exp.off + IMAGE_EXPORT_DIRECTORY__Version +
                           (IMAGE_EXPORT_DIRECTORY__Name - IMAGE_EXPORT_DIRECTORY__Version) / 2)),
             ordinalBase := y.exp.ordinalBase,
             functions := (List.range y.fns.cnt).map y.fnAt,
             names := names }) ∧
    -- CodeView records
    codeViewJson b (.cv20 image name) =
      .cv20 (bytesOf b ⟨image.off + IMAGE_DEBUG_CV_INFO_PDB20__CvSignature,
                        IMAGE_DEBUG_CV_INFO_PDB20__Offset - IMAGE_DEBUG_CV_INFO_PDB20__CvSignature, 1⟩)
        (cstrText b name) (le32 b (image.off + IMAGE_DEBUG_CV_INFO_PDB20__TimeDateStamp))
        (le32 b (image.off + IMAGE_DEBUG_CV_INFO_PDB20__Age)) ∧
    codeViewJson b (.cv70 image name) =
      .cv70 (bytesOf b ⟨image.off + IMAGE_DEBUG_CV_INFO_PDB70__CvSignature,
                        IMAGE_DEBUG_CV_INFO_PDB70__Signature - IMAGE_DEBUG_CV_INFO_PDB70__CvSignature, 1⟩)
        (cstrText b name) (guidText b (image.off + IMAGE_DEBUG_CV_INFO_PDB70__Signature))
        (le32 b (image.off + IMAGE_DEBUG_CV_INFO_PDB70__Age)) ∧
    -- `GUID { Data1: u32, Data2: u16, Data3: u16, Data4: [u8; 8] }` printed `{Data1-Data2-Data3-D4[0..2]-D4[2..8]}`,
    -- the integers most significant byte first
    guidText b o =
      (let h (i : Nat) := hex2 (byteAt b (o + i))
       [123] ++ h (GUID__Data1 + 3) ++ h (GUID__Data1 + 2) ++ h (GUID__Data1 + 1) ++ h GUID__Data1 ++ [45] ++
         h (GUID__Data2 + 1) ++ h GUID__Data2 ++ [45] ++ h (GUID__Data3 + 1) ++ h GUID__Data3 ++ [45] ++
         h GUID__Data4 ++ h (GUID__Data4 + 1) ++ [45] ++
         h (GUID__Data4 + 2) ++ h (GUID__Data4 + 3) ++ h (GUID__Data4 + 4) ++ h (GUID__Data4 + 5) ++
         h (GUID__Data4 + 6) ++ h (GUID__Data4 + 7) ++ [125]) ∧
    GUID__Data2 - GUID__Data1 = 4 ∧ GUID__Data3 - GUID__Data2 = 2 ∧ GUID__Data4 - GUID__Data3 = 2 ∧
    GUID__size - GUID__Data4 = 8 :=
  ⟨rfl, rfl, rfl, rfl, rfl, rfl, rfl, rfl, rfl⟩

end Pelite.Pe
