import PeliteModel.Lemmas.Json
import PeliteModel.Model.JsonDirs
import PeliteModel.Lemmas.DirsExamples
import PeliteModel.Spec.JsonText
/-!
C19 — "the JSON rendering is well formed", stated against the grammar of RFC 8259 itself
(`Spec/JsonText.lean`, written from the RFC, imports nothing of the project) instead of the project's
own reader `Json.parse` (`C19_json_wellformed`, Thm/C19Json.lean, stays: it adds that nothing is lost).

* `C19_json_text`: for EVERY value tree `j` the text `Json.print j` — the model of what
  `serde_json::to_string` writes, compared byte for byte with the real output by the `jsontext` operations —
  is a `JSON-text` of the RFC;
* `C19_json_text_rfc`: for a tree whose strings and keys are byte strings the printed text is a byte string,
  so also within the RFC's alphabet bound;
* `C19_json_text_document`: instantiated at the document `serialize_pe` produces for any view;
* the grammar is not vacuous: `C19_json_text_rejects` (texts it refuses).
-/
namespace Pelite.Pe
open Pelite Pelite.Json Pelite.Spec

/-- **Every text the serializer's printer produces is a JSON text of RFC 8259** — for every value tree,
the grammar being the RFC's own (`Spec/JsonText.lean`), not the project's reader. -/
theorem C19_json_text (j : Json) : JsonText j.print :=
  value_jsonText (print_value j)

/-- … and for a tree of byte strings (what a `Serialize` implementation can describe: `&str`, `&[u8]`
keys and strings) the text is a byte string, hence inside the alphabet bound the RFC's `unescaped` names. -/
theorem C19_json_text_rfc (j : Json) (hb : j.BytesOK) : JsonTextRFC j.print ∧ ∀ c ∈ j.print, c < 256 := by
  have hlt := print_lt j hb
  exact ⟨⟨C19_json_text j, fun c hc => by have := hlt c hc; omega⟩, hlt⟩

-- the hypothesis is satisfiable on a tree with a nested object, an escape, a control character and a byte ≥ 0x80
example : (Json.obj [(Json.asc "k\"", .arr [.num 0, .num 1203, .str [0x41, 0x0A, 0x1F, 0xC3, 0xA9], .null, .bool true, .obj []])]).BytesOK := by
  simp [Json.BytesOK, Json.BytesOKElems, Json.BytesOKMembers, Json.asc]

/-- … instantiated at the document `serialize_pe` produces for any view (PE32 / PE32+, file / mapped) -/
theorem C19_json_text_document (v : View) (p : PeJson) (_h : v.serializePe = .ok p) :
    JsonText p.toJson.print :=
  C19_json_text _

-- the hypothesis holds on PE32 and PE32+ images, opened as mapped views and as files (Lemmas/DirsExamples.lean)
def demoFile64 : View := ⟨⟨Dirs.demoBytes64, 0⟩, .pe64, .file, 0x140000000⟩
example : Dirs.demoView.serializePe.toOption.isSome = true ∧ Dirs.demoFile32.serializePe.toOption.isSome = true ∧
    Dirs.demoView64.serializePe.toOption.isSome = true ∧ demoFile64.serializePe.toOption.isSome = true := by
  refine ⟨?_, ?_, ?_, ?_⟩ <;> decide +kernel

/-- **The grammar refuses**: the empty text, a text starting with `]`, `}`, `,`, `:` or any other character
that cannot start a value (so `C19_json_text` is not true of arbitrary printers). -/
theorem C19_json_text_rejects :
    ¬ JsonText [] ∧ ¬ JsonText [0x5D] ∧ ¬ JsonText [0x2C, 0x31] ∧ ¬ JsonText [0x7D, 0x7B] ∧
    ¬ JsonText [0x3A] ∧ ¬ JsonText [0x2B, 0x31] ∧ ¬ JsonText [0x2E, 0x35] ∧ ¬ JsonText [0x27, 0x61, 0x27] := by
  refine ⟨?_, ?_, ?_, ?_, ?_, ?_, ?_, ?_⟩ <;> intro h <;> obtain ⟨x, r, hx, hs⟩ := jsonText_head h <;>
    cases hx <;> (unfold ValueStart JsonText.IsWs JsonText.IsDigit at hs; omega)

end Pelite.Pe
