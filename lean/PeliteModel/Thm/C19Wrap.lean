import PeliteModel.Model.WrapExports
import PeliteModel.Lemmas.WrapExports
import PeliteModel.Thm.C08
/-!
C19 (wrappers) — the format agnostic export API (`src/wrap/exports.rs`) answers what the format
specific API answers, method by method, on every value.

`w : WBy` ranges over both variants of `Wrap<pe32::exports::By, pe64::exports::By>` around ANY value
of the model's `By`: any view (PE32 / PE32+, file / mapped, any bytes), any three tables — null
sub-tables (`isStatic`, count 0), `NumberOfNames` different from the length of the ordinal table,
offsets and counts that no image produces.  There is no hypothesis anywhere in this file.

Which methods of `wrap/exports.rs` are NOT a `match self { T32(x) => x.m(..), T64(x) => x.m(..) }`:

  * `By::iter`               re-implemented over `self.functions()` and `self.symbol_from_rva(..)`
  * `By::iter_names`         re-implemented over `self.names()`, `self.name_of_hint(..)`, `self.hint(..)`
  * `By::iter_name_indices`  re-implemented over `self.names()`, `self.name_indices()`, `self.name_of_hint(..)`
                             (Rust fix cd633e4: it indexed `name_indices()` by every hint below `names().len()`)

Everything else in the file — and everything in `wrap/imports.rs` — forwards in both arms.
`Model/WrapExports.lean` models every method as it is written; the driver answers `wf` / `wv`
operations through that model, so the correspondence check compares the twin code with the twin
model and the theorems below carry the twin model over to the theorems of C08.
-/
namespace Pelite.Exports
open Pelite.Pe

/-! ### the three hand-written iterators equal their format specific twins -/

/-- `Wrap<By32, By64>::iter` yields the items of `By::iter`, in order. -/
theorem C19_wrap_iter (w : WBy) : w.iter = w.get.iter := wIter_eq w

/-- `Wrap<By32, By64>::iter_names` yields the items of `By::iter_names`, in order. -/
theorem C19_wrap_iter_names (w : WBy) : w.iterNames = w.get.iterNames := wIterNames_eq w

/-- `Wrap<By32, By64>::iter_name_indices` yields the items of `By::iter_name_indices`, in order — the
checked indexing `self.name_indices()[hint]` included: neither twin ever reaches its panic. -/
theorem C19_wrap_iter_name_indices (w : WBy) : w.iterNameIndices = w.get.iterNameIndices :=
  wIterNameIndices_eq w

/-- … in closed form, on the wrapper's own accessors: one item per hint that both tables have. -/
theorem C19_wrap_iter_name_indices_items (w : WBy) :
    w.iterNameIndices =
      (List.range (min w.names.cnt w.nameIndices.cnt)).map
        (fun h => .ok (w.nameOfHint h, le16 w.b (w.nameIndices.off + 2 * h))) ∧
    w.iterNameIndices.length = min w.get.names.cnt w.get.idx.cnt ∧
    (w.nameIndices.cnt = 0 → w.iterNameIndices = []) := wIterNameIndices_items w

/-- No item of a wrapper iterator is a panic, an unchecked access or a divergence (C02 / C03 for the
twins), and every reference in an item lies inside the buffer when the `By` comes from `Exports::by`
(`By.WF`, C01 for the twins). -/
theorem C19_wrap_iter_total (w : WBy) :
    (∀ x ∈ w.iter, OkOrErr x) ∧ (∀ x ∈ w.iterNames, OkOrErr x.1 ∧ OkOrErr x.2) ∧
    (∀ x ∈ w.iterNameIndices, ∃ h, h < w.get.names.cnt ∧ h < w.get.idx.cnt ∧
      x = .ok (w.get.nameOfHint h, w.get.idxAt h)) := by
  rw [C19_wrap_iter, C19_wrap_iter_names, C19_wrap_iter_name_indices]
  exact C08_iter_total w.get

theorem C19_wrap_iter_refs_ok (w : WBy) (hw : w.get.WF) (x : Export) (c : Ref) :
    (.ok x ∈ w.iter → RefOK w.get.exp.v.img x.ref) ∧
    (∀ n, (n, .ok x) ∈ w.iterNames → RefOK w.get.exp.v.img x.ref) ∧
    (∀ e, (.ok c, e) ∈ w.iterNames → RefOK w.get.exp.v.img c) ∧
    (∀ i, .ok (.ok c, i) ∈ w.iterNameIndices → RefOK w.get.exp.v.img c) := by
  rw [C19_wrap_iter, C19_wrap_iter_names, C19_wrap_iter_name_indices]
  have h1 := C08_refs_ok w.get hw x
  have h2 := C08_name_refs_ok w.get c
  exact ⟨h1.2.2.2.2.2.2.2.1, h1.2.2.2.2.2.2.2.2, h2.2.2.1, h2.2.2.2⟩

/-! ### the forwarding methods -/

/-- Every other method of `Wrap<By32, By64>` answers what the wrapped `By` answers. -/
theorem C19_wrap_by_forwards (w : WBy) :
    w.b = w.get.b ∧ w.image = w.get.exp.image ∧ w.dllName = w.get.exp.dllName ∧
    w.ordinalBase = w.get.exp.ordinalBase ∧
    w.functions = w.get.fns ∧ w.names = w.get.names ∧ w.nameIndices = w.get.idx ∧
    w.checkSorted = w.get.checkSorted ∧
    (∀ o, w.ordinal o = w.get.ordinal o) ∧ (∀ i, w.index i = w.get.index i) ∧
    (∀ h, w.hint h = w.get.hint h) ∧ (∀ q, w.name q = w.get.name q) ∧
    (∀ q, w.nameLinear q = w.get.nameLinear q) ∧ (∀ h q, w.hintName h q = w.get.hintName h q) ∧
    (∀ i, w.import i = w.get.import i) ∧ (∀ h, w.nameOfHint h = w.get.nameOfHint h) ∧
    (∀ i, w.nameLookup i = w.get.nameLookup i) ∧ (∀ o, w.symbolFromRva o = w.get.exp.symbolFromRva o) := by
  cases w <;> exact ⟨rfl, rfl, rfl, rfl, rfl, rfl, rfl, rfl, fun _ => rfl, fun _ => rfl, fun _ => rfl,
    fun _ => rfl, fun _ => rfl, fun _ _ => rfl, fun _ => rfl, fun _ => rfl, fun _ => rfl, fun _ => rfl⟩

/-- Every method of `Wrap<Exports32, Exports64>` answers what the wrapped `Exports` answers; `by()`
wraps the `By` of the same variant. -/
theorem C19_wrap_exports_forwards (w : WExports) :
    w.image = w.get.image ∧ w.dllName = w.get.dllName ∧ w.ordinalBase = w.get.ordinalBase ∧
    w.functions = w.get.functions ∧ w.names = w.get.names ∧ w.nameIndices = w.get.nameIndices ∧
    mapOut Wrap.get w.by = w.get.by := by
  cases w <;> exact ⟨rfl, rfl, rfl, rfl, rfl, rfl, wExportsBy_get _⟩

/-- From the view: `Wrap<Pe32, Pe64>::exports()?.by()?` wraps exactly the `By` that the format
specific `exports()?.by()?` answers on the view the constructor selected (any view, any bytes). -/
theorem C19_wrap_exports_by (v : View) :
    mapOut Wrap.get (wExports (Wrap.ofView v)) = tryFrom v ∧
    mapOut Wrap.get ((wExports (Wrap.ofView v)).bind WExports.by) = (tryFrom v).bind Exports.by :=
  wExports_by v

/-- `get_export_by_name` / `_by_ordinal` / `_by_import` are the three `get_export`. -/
theorem C19_wrap_get_export (v : View) (q : Query) : wGetExport (Wrap.ofView v) q = getExport v q := by
  unfold wGetExport wGetExportByName wGetExportByOrdinal wGetExportByImport Wrap.ofView
  cases v.fmt <;> cases q <;> rfl

/-- `len() as u32` in the iterators is the identity on every `By` that `Exports::by` answers:
the tables have at most `NumberOfFunctions` / `NumberOfNames` (32-bit fields) elements. -/
theorem C19_wrap_len_fits_u32 (e : Exports) (y : By) (h : e.by = .ok y) :
    y.fns.cnt < 4294967296 ∧ y.names.cnt < 4294967296 ∧ y.idx.cnt < 4294967296 := by_cnt_lt h

/-! ### non-vacuity: the table shape of Rust fix cd633e4

`demoImg` of C08 with `AddressOfNameOrdinals` (offset 192 + 36) zeroed: three names, a null ordinal
table.  `Exports::by` answers it (names: 3 elements, name_indices: the static empty slice). -/

def nullIdxImg : Img := ⟨((demoImg.bytes.set! 228 0).set! 229 0), 0⟩
def nullIdxView : View := ⟨nullIdxImg, .pe32, .view, 0x400000⟩
def nullIdxBy : By := ⟨⟨nullIdxView, 192, 86, 192⟩, ⟨232, 4, false⟩, ⟨248, 3, false⟩, ⟨0, 0, true⟩⟩
def nullIdxW : WBy := .t32 nullIdxBy
def demoW32 : WBy := .t32 demoBy
def demoW64 : WBy := .t64 demoBy

/-- the agnostic view constructor accepts the image as PE32, and the wrapper's `exports()?.by()?`
yields `Wrap::T32` of `nullIdxBy` -/
example :
    (wrapFromBytes .view nullIdxImg).bind (fun v => .ok (v.fmt, v.kind, v.imageBase)) =
      .ok (nullIdxView.fmt, nullIdxView.kind, nullIdxView.imageBase) ∧
    ((wExports (Wrap.ofView nullIdxView)).bind WExports.by).bind
        (fun w => .ok (w.functions, w.names, w.nameIndices, w.get.exp.off,
          match w with | .t32 _ => 32 | .t64 _ => 64)) =
      .ok (⟨232, 4, false⟩, ⟨248, 3, false⟩, ⟨0, 0, true⟩, 192, 32) := by decide +kernel

/-- on it the three wrapper iterators answer: 4 entries (symbol, hole, forwarder, symbol); 3 names,
each with Bounds for its export (no ordinal table); no (name, index) pair at all -/
example :
    nullIdxW.iter = [.ok (.symbol ⟨232, 4, 4⟩), .err .null, .ok (.forward ⟨274, 4, 1⟩),
      .ok (.symbol ⟨244, 4, 4⟩)] ∧
    nullIdxW.iterNames = [(.ok ⟨268, 2, 1⟩, .err .bounds), (.ok ⟨270, 2, 1⟩, .err .bounds),
      (.ok ⟨272, 2, 1⟩, .err .bounds)] ∧
    nullIdxW.iterNameIndices = [] := by decide +kernel

/-- the wrapper as it was before cd633e4: every hint below `names().len()` indexes `name_indices()` -/
def WBy.iterNameIndicesPreFix (w : WBy) : List (Out (Out Ref × Nat)) :=
  (List.range w.names.cnt).map fun hint =>
    if hint < w.nameIndices.cnt then .ok (w.nameOfHint hint, le16 w.b (w.nameIndices.off + 2 * hint))
    else .panic "wrap iter_name_indices:self.name_indices()[hint]"

/-- … that twin differed from the format specific iterator exactly on this shape: its first item is a
panic.  (The equality theorems above are about the code as it is now, not true by construction.) -/
theorem C19_wrap_prefix_twin_differs :
    nullIdxW.iterNameIndicesPreFix.head? =
      some (.panic "wrap iter_name_indices:self.name_indices()[hint]") ∧
    nullIdxW.iterNameIndicesPreFix ≠ nullIdxBy.iterNameIndices := by decide +kernel

/-- and on the complete table `demoBy` of C08 (as either variant) the pairs are the three names with
their indices 0, 1, 3 -/
example :
    demoW32.iterNameIndices = [.ok (.ok ⟨268, 2, 1⟩, 0), .ok (.ok ⟨270, 2, 1⟩, 1), .ok (.ok ⟨272, 2, 1⟩, 3)] ∧
    demoW64.iterNameIndices = demoW32.iterNameIndices := by decide +kernel

end Pelite.Exports
