import PeliteModel.Lemmas.Strings
/-!
C20 — the string enumerator reports exactly the qualifying printable runs.
Property theorems only; helper lemmas are in Lemmas/Strings.lean.
-/
namespace Pelite.Strings

/-- The printable set the code uses (table regenerated from the source on every run) is exactly
TAB, LF, CR and space through tilde. -/
theorem C20_printable_set (b : Nat) (h : b < 256) : printable b = specPrintable b :=
  printable_table_eq_spec b h

/-- General form: enumeration from any offset `off` that is a run boundary. -/
theorem C20_enum_from {bytes : Bytes} {cfg : Config} (hm : 1 ≤ cfg.minLen) (hn : 1 ≤ cfg.minLenNul) :
    ∀ fuel off, off ≤ bytes.size → (off < bytes.size → Bnd bytes off) → bytes.size + 2 ≤ fuel + off →
    ∃ fs, enumAll bytes cfg fuel off = .ok fs ∧
      (∀ g, g ∈ fs ↔ (Qualifies bytes cfg g ∧ off ≤ g.start)) ∧
      fs.Pairwise (fun a b => a.start + a.len < b.start) := by
  intro fuel
  induction fuel with
  | zero => intro off h1 _ h3; omega
  | succ fuel ih =>
    intro off hoff hb hfuel
    unfold enumAll next
    by_cases hsz : off = bytes.size
    · -- at the end of the buffer `next` is `None`, forever
      have hnone : scan bytes cfg off off = none := by
        unfold scan; simp [hsz]
      rw [hnone]
      refine ⟨[], rfl, ?_, List.Pairwise.nil⟩
      intro g; constructor
      · intro h; cases h
      · rintro ⟨hq, hs⟩; have := hq.1; have := hq.2.1; omega
    · have hpost := scan_post hm hn off off (Nat.le_refl _) hoff (hb (by omega)) (AllP_empty _ _)
      cases hscan : scan bytes cfg off off with
      | none =>
        rw [hscan] at hpost
        refine ⟨[], rfl, ?_, List.Pairwise.nil⟩
        intro g; constructor
        · intro h; cases h
        · rintro ⟨hq, hs⟩; exact (hpost g hq hs).elim
      | some p =>
        obtain ⟨f, off'⟩ := p
        rw [hscan] at hpost
        obtain ⟨hq, hs, hle, hle1, hsz', hb', huniq⟩ := hpost
        have hlen := hq.1
        obtain ⟨fs, hfs, hmem, hsorted⟩ := ih off' hsz' hb' (by omega)
        simp only [hfs]
        refine ⟨f :: fs, rfl, ?_, ?_⟩
        · intro g; constructor
          · intro h
            rcases List.mem_cons.mp h with h | h
            · subst h; exact ⟨hq, hs⟩
            · have := (hmem g).mp h; exact ⟨this.1, by omega⟩
          · rintro ⟨hg, hgs⟩
            by_cases hlt : g.start < off'
            · exact List.mem_cons.mpr (Or.inl (huniq g hg hgs hlt))
            · exact List.mem_cons.mpr (Or.inr ((hmem g).mpr ⟨hg, by omega⟩))
        · refine List.Pairwise.cons ?_ hsorted
          intro g hgmem
          have ⟨hg, hgs⟩ := (hmem g).mp hgmem
          -- g starts at or after off' ≥ end of f; it cannot start exactly at the end of f
          by_cases heq : g.start = f.start + f.len
          · rcases hg.2.2.2.1 with h0 | hnp
            · omega
            · have := hq.2.2.1 (g.start - 1) (by omega) (by omega)
              rw [this] at hnp; cases hnp
          · omega

/-- **C20, main statement.**  For every byte string and every configuration with thresholds ≥ 1,
the enumerator (run to exhaustion from offset 0, with fuel `len + 2`) terminates and reports
exactly the qualifying maximal printable runs, strictly ascending and separated by at least the
terminator byte. -/
theorem C20_enumerate_exact (bytes : Bytes) (cfg : Config) (hm : 1 ≤ cfg.minLen) (hn : 1 ≤ cfg.minLenNul) :
    ∃ fs, enumAll bytes cfg (bytes.size + 2) 0 = .ok fs ∧
      (∀ g, g ∈ fs ↔ Qualifies bytes cfg g) ∧
      fs.Pairwise (fun a b => a.start + a.len < b.start) := by
  obtain ⟨fs, h1, h2, h3⟩ := C20_enum_from (bytes := bytes) (cfg := cfg) hm hn (bytes.size + 2) 0 (Nat.zero_le _) (fun _ => Or.inl rfl) (by omega)
  exact ⟨fs, h1, fun g => by rw [h2 g]; simp, h3⟩

/-- Each `next` resumes directly after the terminator of the previous run (or at the end of the
buffer when the run was ended by it), and the reported string lies at `start`. -/
theorem C20_next_resumes (bytes : Bytes) (cfg : Config) (hm : 1 ≤ cfg.minLen) (hn : 1 ≤ cfg.minLenNul)
    (off : Nat) (hoff : off < bytes.size) (hb : Bnd bytes off) (f : Found) (off' : Nat)
    (h : next bytes cfg off = some (f, off')) :
    Qualifies bytes cfg f ∧ off ≤ f.start ∧
    (off' = f.start + f.len + 1 ∨ (off' = f.start + f.len ∧ off' = bytes.size)) := by
  have hpost := scan_post hm hn off off (Nat.le_refl _) (by omega) hb (AllP_empty _ _)
  unfold next at h
  rw [h] at hpost
  obtain ⟨hq, hs, hle, hle1, hsz', _, _⟩ := hpost
  refine ⟨hq, hs, ?_⟩
  rcases scan_off bytes cfg off off f off' (Nat.le_refl _) h with h | h
  · exact Or.inl h.1
  · exact Or.inr ⟨h.1, by omega⟩

/-- Fused at the end: once the offset reached the end of the buffer, `next` is `none`. -/
theorem C20_next_at_end (bytes : Bytes) (cfg : Config) : next bytes cfg bytes.size = none := by
  unfold next scan; simp

/-- No reported run contains a byte outside the printable set (direct corollary, stated because the
property names it). -/
theorem C20_reported_bytes_printable (bytes : Bytes) (cfg : Config) (hm : 1 ≤ cfg.minLen) (hn : 1 ≤ cfg.minLenNul)
    (fs : List Found) (h : enumAll bytes cfg (bytes.size + 2) 0 = .ok fs) (f : Found) (hf : f ∈ fs)
    (j : Nat) (h1 : f.start ≤ j) (h2 : j < f.start + f.len) :
    j < bytes.size ∧ specPrintable (byteAt bytes j) = true := by
  obtain ⟨fs', h1', h2', _⟩ := C20_enumerate_exact bytes cfg hm hn
  rw [h] at h1'; cases h1'
  have hq := (h2' f).mp hf
  exact ⟨by have := hq.2.1; omega, hq.2.2.1 j h1 h2⟩

/-- **Address.**  The address reported with a run is `base + offset of the run` whenever that sum
is representable in the `u32` address field … -/
theorem C20_address (base : Nat) (f : Found) (h : base + f.start < 2 ^ 32) :
    address base f = base + f.start := by
  unfold address wadd32
  exact Nat.mod_eq_of_lt h

/-- … and wraps around modulo 2^32 otherwise (`wrapping_add`): for every base and run. -/
theorem C20_address_wraps (base : Nat) (f : Found) : address base f = (base + f.start) % 2 ^ 32 := rfl

/-- the hypothesis of `C20_address` is satisfiable (the repository's test: base 0x1000, run at 12)
and necessary (base 0xFFFFFFFE, run at offset 7 is reported at address 5) -/
example : (0x1000 + (⟨12, 10, false⟩ : Found).start < 2 ^ 32 ∧ address 0x1000 ⟨12, 10, false⟩ = 0x100c) ∧
    address 0xFFFFFFFE ⟨7, 3, false⟩ = 5 := by
  decide

/-- Non-vacuity: a concrete buffer with a qualifying run (the repository's own test vector). -/
example : enumAll #[0x1f, 0x43, 0x2d, 0x53, 0x54, 0x00, 0x80, 0x41, 0x41, 0x41, 0xff]
    ⟨3, 3, false⟩ 13 0 = .ok [⟨1, 4, true⟩, ⟨7, 3, false⟩] := by
  decide +kernel

end Pelite.Strings
