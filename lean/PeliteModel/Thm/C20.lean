import PeliteModel.Lemmas.Strings
/-!
C20 — the string enumerator reports exactly the qualifying printable runs.
Property theorems only; helper lemmas are in Lemmas/Strings.lean.
-/
namespace Pelite.Strings

/-- The printable set the code uses (table regenerated from the source on every run) is exactly
TAB, LF, CR and space through tilde. -/
theorem C20_printable_set (b : Nat) (h : b < 256) : printable b = specPrintable b :=
  printable_table_eq_spec b h

/-- General form: enumeration from any offset `off` that is a run boundary. -/
theorem C20_enum_from {bytes : Bytes} {cfg : Config} (hm : 1 ≤ cfg.minLen) (hn : 1 ≤ cfg.minLenNul) :
    ∀ fuel off, off ≤ bytes.size → (off < bytes.size → Bnd bytes off) → bytes.size + 2 ≤ fuel + off →
    ∃ fs, enumAll bytes cfg fuel off = .ok fs ∧
      (∀ g, g ∈ fs ↔ (Qualifies bytes cfg g ∧ off ≤ g.start)) ∧
      fs.Pairwise (fun a b => a.start + a.len < b.start) := by
  intro fuel
  induction fuel with
  | zero => intro off h1 _ h3; omega
  | succ fuel ih =>
    intro off hoff hb hfuel
    unfold enumAll next
    by_cases hsz : off = bytes.size
    · -- at the end of the buffer `next` is `None`, forever
      have hnone : scan bytes cfg off off = none := by
        unfold scan; simp [hsz]
      rw [hnone]
      refine ⟨[], rfl, ?_, List.Pairwise.nil⟩
      intro g; constructor
      · intro h; cases h
      · rintro ⟨hq, hs⟩; have := hq.1; have := hq.2.1; omega
    · have hpost := scan_post hm hn off off (Nat.le_refl _) hoff (hb (by omega)) (AllP_empty _ _)
      cases hscan : scan bytes cfg off off with
      | none =>
        rw [hscan] at hpost
        refine ⟨[], rfl, ?_, List.Pairwise.nil⟩
        intro g; constructor
        · intro h; cases h
        · rintro ⟨hq, hs⟩; exact (hpost g hq hs).elim
      | some p =>
        obtain ⟨f, off'⟩ := p
        rw [hscan] at hpost
        obtain ⟨hq, hs, hle, hle1, hsz', hb', huniq⟩ := hpost
        have hlen := hq.1
        obtain ⟨fs, hfs, hmem, hsorted⟩ := ih off' hsz' hb' (by omega)
        simp only [hfs]
        refine ⟨f :: fs, rfl, ?_, ?_⟩
        · intro g; constructor
          · intro h
            rcases List.mem_cons.mp h with h | h
            · subst h; exact ⟨hq, hs⟩
            · have := (hmem g).mp h; exact ⟨this.1, by omega⟩
          · rintro ⟨hg, hgs⟩
            by_cases hlt : g.start < off'
            · exact List.mem_cons.mpr (Or.inl (huniq g hg hgs hlt))
            · exact List.mem_cons.mpr (Or.inr ((hmem g).mpr ⟨hg, by omega⟩))
        · refine List.Pairwise.cons ?_ hsorted
          intro g hgmem
          have ⟨hg, hgs⟩ := (hmem g).mp hgmem
          -- g starts at or after off' ≥ end of f; it cannot start exactly at the end of f
          by_cases heq : g.start = f.start + f.len
          · rcases hg.2.2.2.1 with h0 | hnp
            · omega
            · have := hq.2.2.1 (g.start - 1) (by omega) (by omega)
              rw [this] at hnp; cases hnp
          · omega

/-- **C20, main statement.**  For every byte string and every configuration with thresholds ≥ 1,
the enumerator (run to exhaustion from offset 0, with fuel `len + 2`) terminates and reports
exactly the qualifying maximal printable runs, strictly ascending and separated by at least the
terminator byte. -/
theorem C20_enumerate_exact (bytes : Bytes) (cfg : Config) (hm : 1 ≤ cfg.minLen) (hn : 1 ≤ cfg.minLenNul) :
    ∃ fs, enumAll bytes cfg (bytes.size + 2) 0 = .ok fs ∧
      (∀ g, g ∈ fs ↔ Qualifies bytes cfg g) ∧
      fs.Pairwise (fun a b => a.start + a.len < b.start) := by
  obtain ⟨fs, h1, h2, h3⟩ := C20_enum_from (bytes := bytes) (cfg := cfg) hm hn (bytes.size + 2) 0 (Nat.zero_le _) (fun _ => Or.inl rfl) (by omega)
  exact ⟨fs, h1, fun g => by rw [h2 g]; simp, h3⟩

/-- **The executable reference is exact.**  `specAll` (Spec/Strings.lean: for every start position the maximal
printable run there, kept when it meets the threshold of its termination kind and the NUL policy) is what the driver
prints as `spec=` and what the oracle holds the implementation's answer against.  It lists exactly the qualifying runs
(for EVERY configuration), and for thresholds ≥ 1 the enumerator's answer is that very list — same runs, same order. -/
theorem C20_specAll_exact (bytes : Bytes) (cfg : Config) (hm : 1 ≤ cfg.minLen) (hn : 1 ≤ cfg.minLenNul) :
    (∀ g, g ∈ specAll bytes cfg ↔ Qualifies bytes cfg g) ∧
    enumAll bytes cfg (bytes.size + 2) 0 = .ok (specAll bytes cfg) := by
  refine ⟨mem_specAll bytes cfg, ?_⟩
  obtain ⟨fs, h1, h2, h3⟩ := C20_enumerate_exact bytes cfg hm hn
  rw [h1]
  congr 1
  apply sorted_ext (fun g => g.start) fs (specAll bytes cfg) (h3.imp (by intro a b h; omega))
    (specAll_sorted bytes cfg)
  intro g
  rw [h2, mem_specAll]

/-- … the membership half needs no hypothesis on the thresholds, and the reference is in ascending order -/
theorem C20_specAll_qualifies (bytes : Bytes) (cfg : Config) :
    (∀ g, g ∈ specAll bytes cfg ↔ Qualifies bytes cfg g) ∧
    (specAll bytes cfg).Pairwise (fun a b => a.start < b.start) :=
  ⟨mem_specAll bytes cfg, specAll_sorted bytes cfg⟩

/-- the repository's test vector (thresholds 3, not strict): reference and enumerator -/
example : specAll #[0x1f, 0x43, 0x2d, 0x53, 0x54, 0x00, 0x80, 0x41, 0x41, 0x41, 0xff] ⟨3, 3, false⟩ =
      [⟨1, 4, true⟩, ⟨7, 3, false⟩] ∧
    enumAll #[0x1f, 0x43, 0x2d, 0x53, 0x54, 0x00, 0x80, 0x41, 0x41, 0x41, 0xff] ⟨3, 3, false⟩ 13 0 =
      .ok (specAll #[0x1f, 0x43, 0x2d, 0x53, 0x54, 0x00, 0x80, 0x41, 0x41, 0x41, 0xff] ⟨3, 3, false⟩) := by
  decide +kernel

/-- The thresholds matter for the second half: with `min_length_nul = 0` the enumerator reports the EMPTY run in front
of a NUL (`Found { string: b"", .. }`), which is no run of printable bytes at all (`Qualifies` wants length ≥ 1) and
which the reference does not list. -/
example : enumAll #[0x00] ⟨1, 0, false⟩ 3 0 = .ok [⟨0, 0, true⟩] ∧ specAll #[0x00] ⟨1, 0, false⟩ = [] := by
  decide +kernel

/-- Each `next` resumes directly after the terminator of the previous run (or at the end of the
buffer when the run was ended by it), and the reported string lies at `start`. -/
theorem C20_next_resumes (bytes : Bytes) (cfg : Config) (hm : 1 ≤ cfg.minLen) (hn : 1 ≤ cfg.minLenNul)
    (off : Nat) (hoff : off < bytes.size) (hb : Bnd bytes off) (f : Found) (off' : Nat)
    (h : next bytes cfg off = some (f, off')) :
    Qualifies bytes cfg f ∧ off ≤ f.start ∧
    (off' = f.start + f.len + 1 ∨ (off' = f.start + f.len ∧ off' = bytes.size)) := by
  have hpost := scan_post hm hn off off (Nat.le_refl _) (by omega) hb (AllP_empty _ _)
  unfold next at h
  rw [h] at hpost
  obtain ⟨hq, hs, hle, hle1, hsz', _, _⟩ := hpost
  refine ⟨hq, hs, ?_⟩
  rcases scan_off bytes cfg off off f off' (Nat.le_refl _) h with h | h
  · exact Or.inl h.1
  · exact Or.inr ⟨h.1, by omega⟩

/-- Fused at the end: once the offset reached the end of the buffer, `next` is `none`. -/
theorem C20_next_at_end (bytes : Bytes) (cfg : Config) : next bytes cfg bytes.size = none := by
  unfold next scan; simp

/-- No reported run contains a byte outside the printable set (direct corollary, stated because the
property names it). -/
theorem C20_reported_bytes_printable (bytes : Bytes) (cfg : Config) (hm : 1 ≤ cfg.minLen) (hn : 1 ≤ cfg.minLenNul)
    (fs : List Found) (h : enumAll bytes cfg (bytes.size + 2) 0 = .ok fs) (f : Found) (hf : f ∈ fs)
    (j : Nat) (h1 : f.start ≤ j) (h2 : j < f.start + f.len) :
    j < bytes.size ∧ specPrintable (byteAt bytes j) = true := by
  obtain ⟨fs', h1', h2', _⟩ := C20_enumerate_exact bytes cfg hm hn
  rw [h] at h1'; cases h1'
  have hq := (h2' f).mp hf
  exact ⟨by have := hq.2.1; omega, hq.2.2.1 j h1 h2⟩

/-! ### `Enumerator.offset` is a `u32` (strings.rs:95,101,110: `self.offset = (i + 1) as u32`)

`next` / `enumAll` above keep the offset as a natural number; `nextT` / `enumAllT` / `addressT` (Model/Strings.lean) are
the code AS WRITTEN, casts included. -/

/-- **Below 4 GiB the casts change nothing**: the transition with `as u32` IS the transition without, as functions —
hence so is everything computed from it (`collect`, `nth`, `count`, clones: they are loops over `next`) — and the
address computed from `start as u32` is the address computed from `start` (for every buffer).  `bytes.size < 2^32` is
the model's global bound on buffers, stated here explicitly as C14 and C19 state theirs. -/
theorem C20_offset_fits (bytes : Bytes) (cfg : Config) (hsz : bytes.size < 2 ^ 32) :
    nextT bytes cfg = next bytes cfg ∧
    (∀ fuel off, enumAllT bytes cfg fuel off = enumAll bytes cfg fuel off) ∧
    (∀ base f, addressT base f = address base f) := by
  have h := nextT_eq_next bytes cfg hsz
  refine ⟨h, fun fuel off => ?_, addressT_eq⟩
  unfold enumAllT
  rw [h, enumAll_eq_itemsW]

/-- **C20, main statement, for the enumerator as written** (`u32` offset field), with the bound explicit. -/
theorem C20_enumerate_exact_u32 (bytes : Bytes) (cfg : Config) (hsz : bytes.size < 2 ^ 32)
    (hm : 1 ≤ cfg.minLen) (hn : 1 ≤ cfg.minLenNul) :
    ∃ fs, enumAllT bytes cfg (bytes.size + 2) 0 = .ok fs ∧
      (∀ g, g ∈ fs ↔ Qualifies bytes cfg g) ∧
      fs.Pairwise (fun a b => a.start + a.len < b.start) ∧ fs = specAll bytes cfg := by
  obtain ⟨fs, h1, h2, h3⟩ := C20_enumerate_exact bytes cfg hm hn
  refine ⟨fs, by rw [(C20_offset_fits bytes cfg hsz).2.1]; exact h1, h2, h3, ?_⟩
  have := (C20_specAll_exact bytes cfg hm hn).2
  rw [h1] at this
  cases this
  rfl

/-- `C20_next_resumes` for the transition as written, with the bound explicit. -/
theorem C20_next_resumes_u32 (bytes : Bytes) (cfg : Config) (hsz : bytes.size < 2 ^ 32)
    (hm : 1 ≤ cfg.minLen) (hn : 1 ≤ cfg.minLenNul)
    (off : Nat) (hoff : off < bytes.size) (hb : Bnd bytes off) (f : Found) (off' : Nat)
    (h : nextT bytes cfg off = some (f, off')) :
    Qualifies bytes cfg f ∧ off ≤ f.start ∧
    (off' = f.start + f.len + 1 ∨ (off' = f.start + f.len ∧ off' = bytes.size)) := by
  rw [(C20_offset_fits bytes cfg hsz).1] at h
  exact C20_next_resumes bytes cfg hm hn off hoff hb f off' h

/-- instance of the hypotheses (the repository's test vector; offset 6 is a run boundary: byte 5 is the NUL) -/
example :
    let b : Bytes := #[0x1f, 0x43, 0x2d, 0x53, 0x54, 0x00, 0x80, 0x41, 0x41, 0x41, 0xff]
    b.size < 2 ^ 32 ∧ 6 < b.size ∧ Bnd b 6 ∧ nextT b ⟨3, 3, false⟩ 6 = some (⟨7, 3, false⟩, 11) ∧
    enumAllT b ⟨3, 3, false⟩ 13 0 = .ok [⟨1, 4, true⟩, ⟨7, 3, false⟩] := by
  refine ⟨by decide, by decide, Or.inr (by decide +kernel), by decide +kernel, by decide +kernel⟩

/-- **The bound is needed: at 4 GiB the stored offset wraps.**  On ANY buffer of exactly 2^32 bytes that is one run
of 2^32 − 1 letters `A` ended by a NUL, the first `next` reports that run and stores `(i + 1) as u32` = 2^32 as u32 =
**0**: the enumerator as written is back at its initial state, reports the same run again on every call, and
`collect()` / `for` never terminate (`diverge` for every fuel) — while the transition without the cast moves to the
end of the buffer and the enumeration is the single run.  (Such a buffer exists — see the example below — but cannot
be sent through the line protocol; this is why C20, C03 and C18 are claimed for buffers below 4 GiB.) -/
theorem C20_offset_wraps_at_4GiB (bytes : Bytes) (cfg : Config) (hm : 1 ≤ cfg.minLen) (hn : 1 ≤ cfg.minLenNul)
    (hcfg : cfg.minLenNul ≤ 255) (hsz : bytes.size = 4294967296)
    (hrun : ∀ j, j < 4294967295 → byteAt bytes j = 0x41) (hnul : byteAt bytes 4294967295 = 0) :
    next bytes cfg 0 = some (⟨0, 4294967295, true⟩, 4294967296) ∧
    nextT bytes cfg 0 = some (⟨0, 4294967295, true⟩, 0) ∧
    (∀ fuel, enumAllT bytes cfg fuel 0 = .diverge) ∧
    enumAll bytes cfg (bytes.size + 2) 0 = .ok [⟨0, 4294967295, true⟩] := by
  have hq0 : Qualifies bytes cfg ⟨0, 4294967295, true⟩ := by
    refine ⟨by simp only; omega, by simp only; omega, ?_, .inl rfl, .inl ⟨by simp only; omega, ?_, rfl, by simp only; omega⟩⟩
    · intro j _ hj
      rw [hrun j (by simp only at hj; omega)]
      decide
    · simpa using hnul
  have hnext : next bytes cfg 0 = some (⟨0, 4294967295, true⟩, 4294967296) := by
    have hpost := scan_post hm hn 0 0 (Nat.le_refl _) (Nat.zero_le _) (.inl rfl) (AllP_empty bytes 0)
    unfold next
    cases hscan : scan bytes cfg 0 0 with
    | none =>
      rw [hscan] at hpost
      exact (hpost _ hq0 (Nat.zero_le _)).elim
    | some p =>
      obtain ⟨f, off'⟩ := p
      rw [hscan] at hpost
      obtain ⟨hq, _, hle, _, hle', _, huniq⟩ := hpost
      have hlen := hq.1
      have hf : (⟨0, 4294967295, true⟩ : Found) = f := huniq _ hq0 (Nat.zero_le _) (by simp only; omega)
      subst hf
      rcases scan_off bytes cfg 0 0 _ off' (Nat.le_refl _) hscan with h | h
      · simp only at h; rw [h.1]
      · simp only at h; omega
  have hT : nextT bytes cfg 0 = some (⟨0, 4294967295, true⟩, 0) := by
    unfold nextT
    rw [hnext]
    rfl
  refine ⟨hnext, hT, ?_, ?_⟩
  · intro fuel
    induction fuel with
    | zero => rfl
    | succ fuel ih =>
      unfold enumAllT at ih ⊢
      unfold itemsW
      rw [hT]
      simp only
      rw [ih]
  · have hend : next bytes cfg 4294967296 = none := by
      have := C20_next_at_end bytes cfg
      rwa [hsz] at this
    rw [enumAll_eq_itemsFrom bytes cfg (bytes.size + 2) 0 (Nat.zero_le _) (by omega), itemsFrom_of_some hnext,
      itemsFrom_of_none hend]

/-- the hypotheses of `C20_offset_wraps_at_4GiB` are satisfiable: 2^32 − 1 letters and a NUL, default thresholds -/
example :
    let bytes : Bytes := (Array.replicate 4294967295 0x41).push 0
    let cfg : Config := ⟨6, 3, true⟩
    1 ≤ cfg.minLen ∧ 1 ≤ cfg.minLenNul ∧ cfg.minLenNul ≤ 255 ∧ bytes.size = 4294967296 ∧
    (∀ j, j < 4294967295 → byteAt bytes j = 0x41) ∧ byteAt bytes 4294967295 = 0 := by
  refine ⟨by decide, by decide, by decide, by simp, ?_, ?_⟩
  · intro j hj
    have hne : j ≠ 4294967295 := by omega
    simp [byteAt, Array.getD_eq_getD_getElem?, Array.getElem?_push, hj, hne]
  · simp [byteAt, Array.getD_eq_getD_getElem?, Array.getElem_push]

/-- **Address.**  The address reported with a run is `base + offset of the run` whenever that sum
is representable in the `u32` address field … -/
theorem C20_address (base : Nat) (f : Found) (h : base + f.start < 2 ^ 32) :
    address base f = base + f.start := by
  unfold address wadd32
  exact Nat.mod_eq_of_lt h

/-- … and wraps around modulo 2^32 otherwise (`wrapping_add`): for every base and run. -/
theorem C20_address_wraps (base : Nat) (f : Found) : address base f = (base + f.start) % 2 ^ 32 := rfl

/-- the hypothesis of `C20_address` is satisfiable (the repository's test: base 0x1000, run at 12)
and necessary (base 0xFFFFFFFE, run at offset 7 is reported at address 5) -/
example : (0x1000 + (⟨12, 10, false⟩ : Found).start < 2 ^ 32 ∧ address 0x1000 ⟨12, 10, false⟩ = 0x100c) ∧
    address 0xFFFFFFFE ⟨7, 3, false⟩ = 5 := by
  decide

/-- Non-vacuity: a concrete buffer with a qualifying run (the repository's own test vector). -/
example : enumAll #[0x1f, 0x43, 0x2d, 0x53, 0x54, 0x00, 0x80, 0x41, 0x41, 0x41, 0xff]
    ⟨3, 3, false⟩ 13 0 = .ok [⟨1, 4, true⟩, ⟨7, 3, false⟩] := by
  decide +kernel

end Pelite.Strings
