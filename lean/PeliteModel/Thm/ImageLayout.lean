import PeliteModel.Generated.ImageLayout
import PeliteModel.Spec.ImageLayout

/-! # Struct layouts of `image.rs` = the PE/COFF layouts

`Generated.imageLayoutVals` is rewritten on every check run from the current source (the translator
`vlib/layoutgen.py` parses every struct of `src/image.rs`, the probe evaluates `size_of`, `align_of` and
`offset_of!` for each field); `Spec.imageLayout` is the golden table.  The theorem is part of the proof
obligations of every property whose statement is about structures read from the image (headers, exports,
imports, resources, version info, relocations, debug/TLS/load config/exception/security, the serializer):
a reordered, resized or retyped field breaks it on the next run. -/

namespace Pelite

theorem image_layout_matches_spec :
    Generated.imageLayoutVals = Spec.imageLayout ∧ Generated.imageLayoutExtra = 0 := by
  decide +kernel

/-- non-vacuity: the table is not empty and has one entry per quantity of the golden table -/
example : Spec.imageLayout.length = 674 ∧ Generated.imageLayoutVals.length = 674 := by decide +kernel

end Pelite
