import PeliteModel.Lemmas.LayoutWitnesses
import PeliteModel.Thm.C08
import PeliteModel.Thm.C09
import PeliteModel.Thm.C10Pos
import PeliteModel.Thm.C11Impl
import PeliteModel.Thm.C12Find
import PeliteModel.Thm.C13
/-!
PE32+ and file-view witnesses (second audit round).

The theorems of C08–C13 quantify over every `View` — both formats, both kinds — but the instances next to them were
mostly PE32 mapped views.  This file evaluates the models, by `decide +kernel`, on three hand-built PE32+ images
(`Lemmas/LayoutWitnesses.lean`; each accepted by `PeFile::from_bytes` / `PeView::from_bytes` of its format and by the
format-agnostic constructors) and instantiates the theorems named in the backlog on them:

* C08 — a PE32+ FILE whose export name strings lie in a SECOND section stored at a file offset that differs from its
  RVA: `C08_name_sorted`, `C08_refs_ok`, `C08_name_eq_linear`;
* C09 — a PE32+ mapped view with two 8-byte thunks (by name; by ordinal with bit 63): `Imports.int` / `iat`,
  `C09_int_table`, `C09_iat_table` with pointer size 8;
* C10 — `Scan.Hyp` on that PE32+ view (and on the PE32+ file, where `SecWF` is a condition on two sections) for a
  pattern with `Ptr` (absolute 8-byte pointer), non-empty `specMatches`, `C10_scan_complete`;
* C11 — `denoteImpl (Exec.ofView v) …` with a `*` item on the view AND on the file, agreeing with `run`;
  `C11_interfaces`, `C11_exec_compile_impl`;
* C12 / C13 — a PE32+ FILE with a resource section: `Resources.ofView v = .ok …`, `C12_resources_aligned`, the
  `/VERSION/#1/0x409` leaf, `version_info()` reaching a VS_VERSIONINFO whose fixed file info is handed out.

The real library gives the same answers on these bytes (`imports v64 dump`, `iat v64 dump`, `exports f64 dump`,
`export f64 name …`, `scan` / `pat_exec` with `Ptr`, `res f64 dump|version|fsck`, `ver … fixed|events`, replayed by
hand through `harness/target/debug/impl` and the model driver when the images were built).
-/

/-! ## the three images are accepted -/

namespace Pelite.Witness64
open Pelite Pelite.Pe

/-- each image is what the constructor of its format and kind builds from its bytes, the format-agnostic constructors
select PE32+ for them, and the PE32 constructor refuses the file (`PeMagic`) -/
theorem W64_views_constructed :
    fromBytes .pe64 .view view64.img = .ok view64 ∧ fromBytes .pe64 .file file64.img = .ok file64 ∧
    fromBytes .pe64 .file res64.img = .ok res64 ∧
    wrapFromBytes .view view64.img = .ok view64 ∧ wrapFromBytes .file file64.img = .ok file64 ∧
    wrapFromBytes .file res64.img = .ok res64 ∧
    fromBytes .pe32 .file file64.img = .err .peMagic := by
  have a1 : Accept .pe64 view64.img := by decide +kernel
  have a2 : Accept .pe64 file64.img := by decide +kernel
  have a3 : Accept .pe64 res64.img := by decide +kernel
  have b1 : imageBaseField .pe64 view64.img.bytes = 0x140000000 := by decide +kernel
  have b2 : imageBaseField .pe64 file64.img.bytes = 0x140000000 := by decide +kernel
  have b3 : imageBaseField .pe64 res64.img.bytes = 0x140000000 := by decide +kernel
  have o1 : fromBytes .pe64 .view view64.img = .ok view64 := (fromBytes_ok_iff _ _ _ _).2 ⟨a1, by rw [b1]; rfl⟩
  have o2 : fromBytes .pe64 .file file64.img = .ok file64 := (fromBytes_ok_iff _ _ _ _).2 ⟨a2, by rw [b2]; rfl⟩
  have o3 : fromBytes .pe64 .file res64.img = .ok res64 := (fromBytes_ok_iff _ _ _ _).2 ⟨a3, by rw [b3]; rfl⟩
  have e1 : validate .pe32 file64.img = .err .peMagic := by decide +kernel
  refine ⟨o1, o2, o3, ?_, ?_, ?_, ?_⟩
  · unfold wrapFromBytes; rw [o1]
  · unfold wrapFromBytes; rw [o2]
  · unfold wrapFromBytes; rw [o3]
  · unfold fromBytes; rw [e1]
end Pelite.Witness64


/-! ## C08 — exports of a PE32+ file, names in the second section -/

namespace Pelite.Exports
open Pelite Pelite.Pe Pelite.Witness64

/-- `exports()` of the file: data directory 0 = (0x1000, 0x3c), the directory is stored at file offset 408 -/
def wExp : Exports := ⟨file64, 0x1000, 0x3c, 408⟩
/-- its `by()`: the three tables at file offsets 448 / 456 / 464 (RVAs 0x1028 / 0x1030 / 0x1038) -/
def wBy : By := ⟨wExp, ⟨448, 2, false⟩, ⟨456, 2, false⟩, ⟨464, 2, false⟩⟩

/-- the section table (RVA, VirtualSize, PointerToRawData, SizeOfRawData): the second section is stored at 472, its RVA
is 0x2000; `exports()?.by()?` yields `wExp` / `wBy`; the two name pointers are RVAs INTO THE SECOND SECTION and the
strings are handed out where they are stored (file offsets 478 / 480 = 472 + 6 / 8, not the RVAs 0x2006 / 0x2008) -/
theorem W64_exports_in_second_section :
    (file64.secs.map fun s => (s.va, s.vs, s.prd, s.rs)) = [(0x1000, 0x40, 408, 0x40), (0x2000, 0x20, 472, 0x20)] ∧
    (tryFrom file64).bind (fun e => e.by.bind fun y => .ok (e.ddVA, e.ddSize, e.off, y.fns, y.names, y.idx)) =
      .ok (0x1000, 0x3c, 408, ⟨448, 2, false⟩, ⟨456, 2, false⟩, ⟨464, 2, false⟩) ∧
    wBy.nameAt 0 = 0x2006 ∧ wBy.nameAt 1 = 0x2008 ∧
    wBy.nameOfHint 0 = .ok ⟨478, 2, 1⟩ ∧ wBy.nameOfHint 1 = .ok ⟨480, 2, 1⟩ ∧
    wExp.dllName = .ok ⟨472, 6, 1⟩ ∧
    file64.rvaToFileOffset 0x2006 = .ok 478 := by decide +kernel

/-- hypothesis of `C08_refs_ok` -/
theorem W64_exports_wf : wBy.WF :=
  ⟨by unfold Tab.OK; decide +kernel, by unfold Tab.OK; decide +kernel, by unfold Tab.OK; decide +kernel⟩

/-- **`C08_name_sorted` instantiated**: the table is sorted; a stored name is found by the binary search as the hint's
entry, a name that is not stored answers Null -/
theorem W64_C08_name_sorted :
    wBy.checkSorted = .ok true ∧
    (∃ h, h < wBy.names.cnt ∧ wBy.nameStr h = .ok [98] ∧ wBy.name [98] = wBy.hint h) ∧
    wBy.name [98] = .ok (.symbol ⟨452, 4, 4⟩) ∧
    wBy.name [99] = .err .null := by
  have hs : wBy.checkSorted = .ok true := by decide +kernel
  refine ⟨hs, (C08_name_sorted wBy [98] hs).2 ⟨1, by decide +kernel⟩, by decide +kernel, ?_⟩
  refine (C08_name_sorted wBy [99] hs).1 fun h hq => ?_
  have hlt : h < 2 := nameStr_ok_lt hq
  have : h = 0 ∨ h = 1 := by omega
  rcases this with rfl | rfl <;> exact absurd hq (by decide +kernel)

/-- **`C08_refs_ok` instantiated**: the references handed out for a lookup by name and by ordinal lie inside the FILE
buffer, 4-aligned (they point into the first section, at file offsets 448 / 452) -/
theorem W64_C08_refs_ok :
    wBy.name [97] = .ok (.symbol ⟨448, 4, 4⟩) ∧ RefOK file64.img ⟨448, 4, 4⟩ ∧
    wBy.ordinal 2 = .ok (.symbol ⟨452, 4, 4⟩) ∧ RefOK file64.img ⟨452, 4, 4⟩ ∧
    -- `C08_name_refs_ok`: a name string of the SECOND section is handed out inside the file buffer
    wBy.nameOfHint 1 = .ok ⟨480, 2, 1⟩ ∧ RefOK file64.img ⟨480, 2, 1⟩ := by
  have h1 : wBy.name [97] = .ok (.symbol ⟨448, 4, 4⟩) := by decide +kernel
  have h2 : wBy.ordinal 2 = .ok (.symbol ⟨452, 4, 4⟩) := by decide +kernel
  have h3 : wBy.nameOfHint 1 = .ok ⟨480, 2, 1⟩ := by decide +kernel
  exact ⟨h1, (C08_refs_ok wBy W64_exports_wf _).2.2.2.2.1 [97] h1, h2, (C08_refs_ok wBy W64_exports_wf _).2.1 2 h2,
    h3, ((C08_name_refs_ok wBy _).1 1 h3).1⟩

/-- **`C08_name_eq_linear` instantiated**: sorted without duplicates, so binary and linear search agree and the
lookup is the specification's function of the tables -/
theorem W64_C08_name_eq_linear :
    Spec.nameDetermined (tablesOf wBy) (cstrOf file64) = true ∧
    wBy.name [98] = wBy.nameLinear [98] ∧
    Spec.name (tablesOf wBy) (cstrOf file64) [98] = .ok (.symbol 0x2800) := by
  have hd : Spec.nameDetermined (tablesOf wBy) (cstrOf wBy.exp.v) = true := by decide +kernel
  have h := C08_name_eq_linear wBy [98] hd
  exact ⟨hd, h.1, h.2.symm.trans (by decide +kernel)⟩
end Pelite.Exports

/-! ## C09 — 8-byte thunks of a PE32+ view -/

namespace Pelite.Imports
open Pelite Pelite.Pe Pelite.Witness64

/-- the one import descriptor of `view64` -/
def wDesc : Ref := ⟨328, 20, 4⟩

/-- `Imports.int` / `iat` / the image-wide IAT on 8-byte thunks: element references are 8 bytes apart and 8-aligned,
the thunk with bit 63 set decodes as ordinal 7, the other one as hint 5 + name "Fn", the zero terminator of the IAT
directory (Size 24 = 3 entries) as Null -/
theorem W64_imports_view :
    view64.dataDir 1 = some (328, 40) ∧ tryFrom view64 = .ok ⟨328, 20, 4⟩ ∧ descs ⟨328, 20, 4⟩ = [wDesc] ∧
    vaSize view64.fmt = 8 ∧
    dllName view64 wDesc = .ok ⟨422, 6, 1⟩ ∧
    intSlice view64 wDesc = .ok ⟨368, 16, 8⟩ ∧ iatSlice view64 wDesc = .ok ⟨392, 16, 8⟩ ∧
    thunkVal view64 ⟨368, 8, 8⟩ = 416 ∧ thunkVal view64 ⟨376, 8, 8⟩ = 0x8000000000000007 ∧
    int view64 wDesc = .ok [.ok (.byName 5 ⟨418, 3, 1⟩), .ok (.byOrdinal 7)] ∧
    iat view64 wDesc = .ok [⟨392, 8, 8⟩, ⟨400, 8, 8⟩] ∧
    view64.dataDir 12 = some (392, 24) ∧ iatTryFrom view64 = .ok ⟨392, 24, 8⟩ ∧
    iatIter view64 ⟨392, 24, 8⟩ = [(⟨392, 8, 8⟩, .ok (.byName 5 ⟨418, 3, 1⟩)),
      (⟨400, 8, 8⟩, .ok (.byOrdinal 7)), (⟨408, 8, 8⟩, .err .null)] := by decide +kernel

/-- `C09_int_table` / `C09_iat_table` read for a window and a table that are known: the answer is that table -/
theorem W64_C09_table_instance (v : View) (d w : Ref) (n : Nat) :
    (v.at (.rva (Desc.oft v d)) 0 (vaSize v.fmt) = .ok w → IsThunkTable v.b w.off w.len (vaSize v.fmt) n →
      intSlice v d = .ok ⟨w.off, n * vaSize v.fmt, vaSize v.fmt⟩) ∧
    (v.at (.rva (Desc.ft v d)) 0 (vaSize v.fmt) = .ok w → IsThunkTable v.b w.off w.len (vaSize v.fmt) n →
      iatSlice v d = .ok ⟨w.off, n * vaSize v.fmt, vaSize v.fmt⟩) := by
  constructor
  · intro hat ht
    have h := C09_int_table v d
    unfold ThunkTableAnswer at h
    rw [hat] at h
    exact h.1 n ht
  · intro hat ht
    have h := C09_iat_table v d
    unfold ThunkTableAnswer at h
    rw [hat] at h
    exact h.1 n ht

/-- **`C09_int_table` / `C09_iat_table` instantiated with pointer size 8**: both windows hold a zero-terminated table
of two 8-byte thunks (`IsThunkTable … 8 2`), so the answers are exactly those tables -/
theorem W64_C09_thunk_tables :
    vaSize view64.fmt = 8 ∧
    IsThunkTable view64.b 368 80 (vaSize view64.fmt) 2 ∧ IsThunkTable view64.b 392 56 (vaSize view64.fmt) 2 ∧
    intSlice view64 wDesc = .ok ⟨368, 2 * vaSize view64.fmt, vaSize view64.fmt⟩ ∧
    iatSlice view64 wDesc = .ok ⟨392, 2 * vaSize view64.fmt, vaSize view64.fmt⟩ := by
  have t1 : IsThunkTable view64.b 368 80 (vaSize view64.fmt) 2 := by
    refine ⟨by decide, ?_, by decide +kernel⟩
    intro i hi
    have : i = 0 ∨ i = 1 := by omega
    rcases this with rfl | rfl <;> decide +kernel
  have t2 : IsThunkTable view64.b 392 56 (vaSize view64.fmt) 2 := by
    refine ⟨by decide, ?_, by decide +kernel⟩
    intro i hi
    have : i = 0 ∨ i = 1 := by omega
    rcases this with rfl | rfl <;> decide +kernel
  exact ⟨by decide, t1, t2,
    (W64_C09_table_instance view64 wDesc ⟨368, 80, 8⟩ 2).1 (by decide +kernel) t1,
    (W64_C09_table_instance view64 wDesc ⟨392, 56, 8⟩ 2).2 (by decide +kernel) t2⟩
end Pelite.Imports

/-! ## C10 / C11 — `Ptr` on a PE32+ view and a PE32+ file -/

namespace Pelite.Scan
open Pelite Pelite.Pe Pelite.Witness64 Pelite.Pattern Pelite.Exec
/-- `e1 * aa ' bb`: a byte, then FOLLOW THE ABSOLUTE POINTER stored behind it (`Ptr`: 8 bytes in a PE32+ image), match
`aa`, bookmark, match `bb` at the destination -/
def wPtrPat : List Atom := [.save 0, .byte 0xE1, .ptr, .byte 0xAA, .save 1, .byte 0xBB]

/-- it is what the parser makes of that pattern string -/
example : parse "e1 * aa ' bb".toUTF8.toList = .ok wPtrPat := by decide +kernel

/-- **`Scan.Hyp` on an accepted PE32+ mapped view and a pattern containing `Ptr`**, with a non-empty reference list;
the scan reports exactly that list (slot 0 = match position 428, slot 1 = the bookmark at the pointer's target + 1) -/
theorem W64_C10_hyp_ptr_view :
    Hyp view64 wPtrPat 0 448 ∧ Atom.ptr ∈ wPtrPat ∧ view64.fmt.ptrSize = 8 ∧
    specMatches view64 wPtrPat 0 448 = [428] ∧
    scanAll (next view64 wPtrPat) 4 (matchesInit 0 448) #[0, 0] =
      .ok ⟨[(428, #[428, 441])], ⟨448, 448, 1⟩, #[428, 441], true⟩ := by decide +kernel

/-- the same on the PE32+ FILE, where `SecWF` constrains two sections and every address goes through the section table:
the match is at RVA 0x2010 (file offset 488), the pointer's target RVA 0x201a is file offset 498 -/
theorem W64_C10_hyp_ptr_file :
    Hyp file64 wPtrPat 0 0x3000 ∧ SecWF file64.secs ∧ file64.secs.length = 2 ∧
    specMatches file64 wPtrPat 0 0x3000 = [0x2010] ∧
    scanAll (next file64 wPtrPat) 4 (matchesInit 0 0x3000) #[0, 0] =
      .ok ⟨[(0x2010, #[0x2010, 0x201b])], ⟨0x2020, 0x3000, 1⟩, #[0x2010, 0x201b], true⟩ := by decide +kernel

/-- `C10_scan_complete` instantiated on both -/
theorem W64_C10_scan_complete :
    (∀ p ∈ specMatches view64 wPtrPat 0 448, p ∈ [428]) ∧
    (∀ p ∈ specMatches file64 wPtrPat 0 0x3000, p ∈ [0x2010]) :=
  ⟨C10_scan_complete view64 wPtrPat 0 448 W64_C10_hyp_ptr_view.1 4 #[0, 0] _ W64_C10_hyp_ptr_view.2.2.2.2 rfl,
   C10_scan_complete file64 wPtrPat 0 0x3000 W64_C10_hyp_ptr_file.1 4 #[0, 0] _ W64_C10_hyp_ptr_file.2.2.2.2 rfl⟩
end Pelite.Scan

namespace Pelite.PatSem
open Pelite Pelite.Pe Pelite.Witness64 Pelite.Pattern Pelite.Exec
def wPtrTree : Pat := [.byte 0xE1, .jump .ptr, .byte 0xAA, .save, .byte 0xBB]

/-- **`denoteImpl (Exec.ofView v)` with a `*` item on a real accepted image, mapped AND file, agrees with `run`**:
final cursor, bookmark and match position as specified; where the reference semantics rejects, so does the interpreter -/
theorem W64_C11_ofView_ptr :
    WF wPtrTree = true ∧ compile wPtrTree = Scan.wPtrPat ∧
    denoteImpl (ofView view64) wPtrTree 428 = some (442, [(1, 441), (0, 428)]) ∧
    run (ofView view64) (compile wPtrTree) 428 #[0, 0] = .ok (true, #[428, 441]) ∧
    denoteImpl (ofView file64) wPtrTree 0x2010 = some (0x201c, [(1, 0x201b), (0, 0x2010)]) ∧
    run (ofView file64) (compile wPtrTree) 0x2010 #[0, 0] = .ok (true, #[0x2010, 0x201b]) ∧
    -- one byte further the pattern does not match, on either side
    denoteImpl (ofView view64) wPtrTree 429 = none ∧
    run (ofView view64) (compile wPtrTree) 429 #[0, 0] = .ok (false, #[429, 0]) := by decide +kernel

/-- **`C11_interfaces` instantiated**: mapped view (size bound) and file view (size bound, disjoint sections) -/
theorem W64_C11_interfaces :
    ((ofView view64).WF ∧ Coherent (ofView view64)) ∧ ((ofView file64).WF ∧ Coherent (ofView file64)) :=
  ⟨C11_interfaces.2.1 view64 rfl (by decide +kernel),
   C11_interfaces.2.2 file64 rfl (by decide +kernel) (by decide +kernel)⟩

/-- `C11_exec_compile_impl` instantiated on the two views: the interpreter's verdict is `denoteImpl`'s -/
theorem W64_C11_exec_compile_impl (save0 : Array Nat) :
    (∃ save, run (ofView view64) (compile wPtrTree) 428 save0 = .ok ((denoteImpl (ofView view64) wPtrTree 428).isSome, save) ∧
      save.size = save0.size ∧ (0 < save0.size → save[0]? = some 428) ∧ (1 < save0.size → save[1]? = some 441)) ∧
    (∃ save, run (ofView file64) (compile wPtrTree) 0x2010 save0 =
        .ok ((denoteImpl (ofView file64) wPtrTree 0x2010).isSome, save) ∧
      save.size = save0.size ∧ (0 < save0.size → save[0]? = some 0x2010) ∧ (1 < save0.size → save[1]? = some 0x201b)) := by
  obtain ⟨s1, r1, z1, c1⟩ := C11_exec_compile_impl W64_C11_interfaces.1.1 W64_C11_interfaces.1.2 wPtrTree
    W64_C11_ofView_ptr.1 428 (by decide) save0
  obtain ⟨s2, r2, z2, c2⟩ := C11_exec_compile_impl W64_C11_interfaces.2.1 W64_C11_interfaces.2.2 wPtrTree
    W64_C11_ofView_ptr.1 0x2010 (by decide) save0
  have d1 := W64_C11_ofView_ptr.2.2.1
  have d2 := W64_C11_ofView_ptr.2.2.2.2.1
  exact ⟨⟨s1, r1, z1, c1 _ _ d1 0 428 (by simp), c1 _ _ d1 1 441 (by simp)⟩,
         ⟨s2, r2, z2, c2 _ _ d2 0 0x2010 (by simp), c2 _ _ d2 1 0x201b (by simp)⟩⟩
end Pelite.PatSem

/-! ## C12 / C13 — resources and version info of a PE32+ file -/

namespace Pelite.Resources
open Pelite Pelite.Pe Pelite.Witness64

/-- **`Pe::resources()` on a PE32+ FILE**: the section is found through the section table (RVA 0x1000 → file offset 368),
clamped to the directory Size 180; the tree is consistent, the `/VERSION/#1/0x409` leaf is the 92 bytes at +88, and
`version_info()` reaches them (as `u16` words: alignment 2) -/
theorem W64_C12_resources_of_file :
    (res64.secs.map fun s => (s.va, s.prd, s.rs)) = [(0x1000, 368, 184)] ∧ res64.dataDir 2 = some (0x1000, 180) ∧
    (ofView res64).bind (fun p => .ok (p.1.sec.size, p.1.dirVA, p.1.base, p.2)) = .ok (180, 0x1000, 368, 368) ∧
    (ofView res64).bind (fun p => fsck p.1) = .ok () ∧
    (ofView res64).bind (fun p => findResourceEx p.1 (.id RT_VERSION) (.id 1) (.id 0x409)) = .ok (.ok ⟨88, 92, 1⟩) ∧
    (ofView res64).bind (fun p => versionBytes p.1) = .ok (.ok ⟨88, 92, 1⟩) ∧
    (ofView res64).bind (fun p => versionInfo p.1) = .ok (.ok ⟨88, 92, 2⟩) := by decide +kernel

/-- `C12_resources_aligned` instantiated -/
theorem W64_C12_resources_aligned :
    ∃ r secOff, ofView res64 = .ok (r, secOff) ∧ secOff = 368 ∧ r.sec.size = 180 ∧ r.dirVA = 0x1000 ∧
      Aligned r ∧ secOff + r.sec.size ≤ res64.img.bytes.size ∧ r.base = res64.img.base + secOff ∧
      r.sec = res64.b.extract secOff (secOff + r.sec.size) := by
  have h0 := W64_C12_resources_of_file.2.2.1
  cases h : ofView res64 with
  | ok p =>
    rw [h] at h0
    obtain ⟨r, secOff⟩ := p
    have h1 : (r.sec.size, r.dirVA, r.base, secOff) = (180, 0x1000, 368, 368) := Out.ok.inj h0
    simp only [Prod.mk.injEq] at h1
    obtain ⟨ha, hb, hc, _, _, _, _, _, hd⟩ := C12_resources_aligned res64 r secOff h
    exact ⟨r, secOff, rfl, h1.2.2.2, h1.1, h1.2.1, ha, hb, hc, hd⟩
  | err e => rw [h] at h0; cases h0
  | panic s => rw [h] at h0; cases h0
  | ub s => rw [h] at h0; cases h0
  | diverge => rw [h] at h0; cases h0

end Pelite.Resources

namespace Pelite.Version
open Pelite Pelite.Pe Pelite.Witness64

/-- the version block `Resources::version_info` reaches in the file, parsed: the fixed info is handed out (26 words at
the even word offset 20 = byte 40 of the block = file offset 496), with the values that were laid out -/
theorem W64_C13_version_reached :
    ((versionWords res64).bind fun w => match w with | some w => fixed w | none => .ok none) =
      .ok (some ⟨20, [0x04BD, 0xFEEF, 0, 1, 2, 1, 4, 3, 6, 5, 8, 7, 0x3F, 0, 0, 0, 4, 4, 1, 0, 0, 0, 0, 0, 0, 0]⟩) ∧
    ((versionWords res64).bind fun w => match w with | some w => events w | none => .ok []) =
      .ok [.versionInfo ⟨3, [86, 83, 95, 86, 69, 82, 83, 73, 79, 78, 95, 73, 78, 70, 79]⟩
             (some ⟨20, [0x04BD, 0xFEEF, 0, 1, 2, 1, 4, 3, 6, 5, 8, 7, 0x3F, 0, 0, 0, 4, 4, 1, 0, 0, 0, 0, 0, 0, 0]⟩),
           .enter 0, .exit 0] ∧
    ((versionWords res64).bind fun w => match w with
      | some w => (sourceCode w).bind fun s => .ok (s.take 63)
      | none => .ok []) = .ok (str "1 VERSIONINFO\nFILEVERSION 1, 2, 3, 4\nPRODUCTVERSION 5, 6, 7, 8\n") := by
  decide +kernel
end Pelite.Version
