#!/usr/bin/env python3
"""usage: tools/confirm_mut.py <pid> <i> [check pids...]
Confirms a seeded change produced by a mutation sub-agent in its scratch worktree /tmp/wt_<pid>:
patch applies; crate builds; existing suite passes with it; demo fails with it and passes without.
Then runs the listed checks against the patched worktree (VERIF_REPO mode) and stores everything
under /verif/seeded/<pid>-<i>/ (patch.diff, demo.rs, meta.json incl. what was run and which checks caught it)."""
import json, os, shutil, subprocess, sys
pid, i = sys.argv[1], sys.argv[2]
checks = sys.argv[3:] or [pid]
rnd = os.environ.get("MUT_ROUND", "")           # "" = first round, "2" = second round (wt2_/mut2_ directories)
wt = "/tmp/wt%s_%s" % (rnd, pid)
src = "/tmp/mut%s_%s/%s" % (rnd, pid, i)
tag = "%s-%s" % (pid, i) if not rnd else "%s-r%s-%s" % (pid, rnd, i)
env = dict(os.environ, CARGO_NET_OFFLINE="true", RUST_BACKTRACE="0")
def sh(cmd, cwd=wt, timeout=1800):
    p = subprocess.run("set -o pipefail; " + cmd, shell=True, executable="/bin/bash", cwd=cwd, env=env, stdout=subprocess.PIPE, stderr=subprocess.STDOUT, timeout=timeout)
    return p.returncode, p.stdout.decode("utf-8", "replace")
ran = []
def step(name, cmd, want_rc0, cwd=wt):
    rc, out = sh(cmd, cwd)
    ok = (rc == 0) == want_rc0
    ran.append({"step": name, "cmd": cmd, "rc": rc, "as_expected": ok})
    if not ok:
        print("UNEXPECTED at %s (rc=%d):\n%s" % (name, rc, out[-1500:]))
    return ok
sh("git checkout -q -- . ; rm -f tests/mut_demo.rs; git checkout -q --detach $(git -C /repo rev-parse HEAD)")
ok = step("apply", "git apply %s/patch.diff" % src, True)
ok = ok and step("suite_with_patch", "cargo test --workspace --offline 2>&1 | tail -40", True)
shutil.copy(os.path.join(src, "demo.rs"), os.path.join(wt, "tests", "mut_demo.rs"))
try:
    _mf = json.load(open(os.path.join(src, "meta.json"))).get("demo_flags", "")
except Exception:
    _mf = ""
DF = os.environ.get("MUT_DEMO_FLAGS", "") or _mf
ok = ok and step("demo_with_patch_fails", "cargo test --offline %s --test mut_demo 2>&1 | tail -30" % DF, False)
caught = {}
if ok:
    for c in checks:
        p = subprocess.run("VERIF_FROZEN=1 VERIF_REPO=%s ./check %s quick" % (wt, c), shell=True, cwd=os.environ.get("VERIF_ROOT", "/verif"), stdout=subprocess.PIPE, stderr=subprocess.STDOUT)
        out = p.stdout.decode("utf-8", "replace")
        v = [l for l in out.split("\n") if l.startswith("VIOLATION")]
        caught[c] = {"rc": p.returncode, "violations": len(v), "first": v[0] if v else ""}
        if v:
            # keep the first replay file next to the seeded change
            path = v[0].split("replay=")[1].split(" ")[0]
            if os.path.exists(path):
                os.makedirs("/verif/seeded/%s" % tag, exist_ok=True)
                shutil.copy(path, "/verif/seeded/%s/replay_%s.txt" % (tag, c))
sh("git checkout -q -- .")
ok = ok and step("demo_without_patch_passes", "cargo test --offline %s --test mut_demo 2>&1 | tail -30" % DF, True)
sh("rm -f tests/mut_demo.rs; git checkout -q -- .")
print("confirmed" if ok else "NOT CONFIRMED", json.dumps(caught))
if ok:
    d = "/verif/seeded/%s" % tag
    os.makedirs(d, exist_ok=True)
    shutil.copy(os.path.join(src, "patch.diff"), d)
    shutil.copy(os.path.join(src, "demo.rs"), d)
    meta = json.load(open(os.path.join(src, "meta.json")))
    meta["confirmed_by_coordinator"] = ran
    meta["checks_run"] = caught
    meta["base_commit"] = subprocess.run("git -C /repo rev-parse --short HEAD", shell=True, stdout=subprocess.PIPE).stdout.decode().strip()
    json.dump(meta, open(os.path.join(d, "meta.json"), "w"), indent=1)
