#!/bin/bash
# usage: tools/coverage.sh [check ids...]      (default: C04..C20 without C17)
# Line coverage of CasualX/pelite under the operation streams of the quick tier: the harness is built with
# `-C instrument-coverage` (nightly toolchain: its llvm-profdata / llvm-cov are the only ones that read the profile
# format) against a scratch worktree of /repo (VERIF_REPO mode, own target directory; /repo and the registered checks
# are not touched), every check runs once, the profiles are merged and tools/coverage_report.py lists the lines no
# stream executed.  A development aid for AIMING generators (what it found is listed in DESIGN.md §9); never an oracle.
set -e
ROOT=$(cd "$(dirname "$0")/.." && pwd)
WT=/tmp/wt_cov; OUT=/tmp/cov
git -C /repo worktree remove --force $WT 2>/dev/null || true
git -C /repo worktree add -q --detach $WT HEAD
rm -rf $OUT; mkdir -p $OUT
export RUSTUP_TOOLCHAIN=nightly RUSTFLAGS="-C instrument-coverage" LLVM_PROFILE_FILE=$OUT/prof-%p-%m.profraw VERIF_REPO=$WT
cd "$ROOT"
for c in ${@:-C04 C05 C06 C07 C08 C09 C10 C11 C12 C13 C14 C15 C16 C18 C19 C20}; do
  ./check $c quick > $OUT/$c.log 2>&1 || true
done
T=$(dirname $(find ~/.rustup/toolchains/nightly-* -name llvm-cov | head -1))
BIN=$ROOT/.work/alt/tmp_wt_cov/harness/target/debug/impl
find $OUT -name '*.profraw' -size -1k -delete
$T/llvm-profdata merge --failure-mode=all -sparse $OUT/*.profraw -o $OUT/all.profdata 2>/dev/null
$T/llvm-cov export $BIN -instr-profile=$OUT/all.profdata --ignore-filename-regex='(registry|rustc|harness)' -format=lcov > $OUT/all.lcov 2>/dev/null
python3 "$ROOT/tools/coverage_report.py" $OUT/all.lcov
git -C /repo worktree remove --force $WT
rm -rf "$ROOT/.work/alt/tmp_wt_cov"
