#!/usr/bin/env python3
"""usage: tools/coverage_report.py <lcov file>: per source file of the crate, the lines no operation stream executed
(a line counts as executed when ANY instantiation of it ran: pe32 and pe64 share their sources)."""
import collections, sys
cur = None
miss, hit = collections.defaultdict(set), collections.defaultdict(set)
for l in open(sys.argv[1]):
    l = l.strip()
    if l.startswith("SF:"):
        cur = l[3:].replace("/pe32/../pe64/", "/pe64/")
    elif l.startswith("DA:"):
        ln, c = l[3:].split(",")[:2]
        (hit if int(c) > 0 else miss)[cur].add(int(ln))
tot = cov = 0
for f in sorted(set(miss) | set(hit)):
    if "/src/" not in f or "rustlib" in f:
        continue
    m = sorted(miss[f] - hit[f])
    tot += len(miss[f] | hit[f]); cov += len(hit[f])
    if not m:
        continue
    src = open(f).read().split("\n")
    print("== %s: %d line(s) never executed" % (f.split("/src/", 1)[1], len(m)))
    for ln in m:
        print("   %d: %s" % (ln, src[ln - 1].strip()[:110]))
print("lines executed: %d of %d (%.1f%%)" % (cov, tot, 100.0 * cov / max(tot, 1)))
