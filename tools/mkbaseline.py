#!/usr/bin/env python3
"""Records the sha256 of every library source file of /repo (source-baseline.json). A check run compares the
working tree with it: files that differ direct more of the generator budget at the properties anchored in
them (evidence: `changed_since_baseline`, `budget_escalated`). Run after every commit to /repo."""
import hashlib, json, os, subprocess
out = {}
for r, _, fs in os.walk("/repo/src"):
    for f in fs:
        p = os.path.join(r, f)
        out[os.path.relpath(p, "/repo")] = hashlib.sha256(open(p, "rb").read()).hexdigest()
head = subprocess.run("git -C /repo rev-parse --short HEAD", shell=True, stdout=subprocess.PIPE).stdout.decode().strip()
json.dump({"repo_head": head, "files": dict(sorted(out.items()))}, open("/verif/source-baseline.json", "w"), indent=0)
print("baseline of %d files at %s" % (len(out), head))
