#!/usr/bin/env python3
"""Writes lean/PeliteModel/Spec/ImageLayout.lean (the GOLDEN layout table) from the probe's output on the
pinned source.  Run by hand when the golden table itself is to be (re)created, never by a check: a check only
regenerates Generated/ImageLayout.lean and compares."""
import subprocess
out = subprocess.run(["/verif/harness/target/debug/probe"], stdout=subprocess.PIPE).stdout.decode()
lay = [l.split(" ") for l in out.split("---FILE ImageLayout---\n")[1].strip().split("\n")]
head = open("/verif/lean/PeliteModel/Spec/ImageLayout.lean").read().split("namespace Pelite.Spec")[0]
L = [head.rstrip("\n"), "namespace Pelite.Spec", "", "def imageLayout : List Nat := ["]
for i, (s, f, v) in enumerate(lay):
    L.append("  %s%s -- %s %s" % (v, "," if i < len(lay) - 1 else " ", s, f))
L += ["]", "",
      "/-- the same table by name, for the `fields` operation of the model driver: struct ↦ size and (field, offset, size) -/",
      "def imageLayoutFields : List (String × Nat × List (String × Nat × Nat)) := ["]
structs = []
off = {(s, f): int(v) for s, f, v in lay}
for s, f, v in lay:
    if s not in structs:
        structs.append(s)
rows = []
for s in structs:
    fs = [f for (s2, f, v) in lay if s2 == s and not f.startswith("#") and not f.endswith("#fsz")]
    rows.append('  ("%s", %d, [%s])' % (s, off[(s, "#size")], ", ".join('("%s", %d, %d)' % (f, off[(s, f)], off[(s, f + "#fsz")]) for f in fs)))
L.append(",\n".join(rows))
L += ["]", "", "end Pelite.Spec", ""]
open("/verif/lean/PeliteModel/Spec/ImageLayout.lean", "w").write("\n".join(L))
print(len(lay), "quantities,", len(structs), "structs")
