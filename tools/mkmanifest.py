#!/usr/bin/env python3
"""Regenerates MANIFEST.json from the table below (claimed properties) and properties.jsonl."""
import json, os
ROOT = os.path.dirname(os.path.dirname(os.path.abspath(__file__)))
NOTE = ("Trusted: Lean 4.33 kernel; axioms propext, Classical.choice, Quot.sound only (no native_decide, no sorry); "
        "the hand-written Lean model is tied to the Rust source by the differential correspondence run of every check "
        "(generator quality bounds it) and by tables/layout regenerated from the source (harness/probe) and re-proved; "
        "rustc/std/dependencies are modelled, not verified; buffers < 4 GiB, x86-64.")
TECH = "Lean 4 machine-checked proof over an executable model + model/implementation correspondence check"
CLAIMED = {
 "C04": ("Theorems (Lean 4, all section tables of any length with arbitrary u32 fields, all rvas/offsets, all images and placements): rva_to_file_offset/file_offset_to_rva equal the first-match specification with exactly the error classes the property names; slice on a file view succeeds iff non-null, aligned (rva and stored bytes), raw data of the first containing section inside the buffer and min bytes remain, and then returns [prd+(rva-va), end of raw data); returned refs are RefOK; slice start = r2f; inversion both ways on stored-and-mapped bytes of well-formed tables plus a witness that it fails without well-formedness; get_section_bytes. Correspondence: generated and adversarial section tables (overlap, wrap, outside buffer), every section edge +-1, (min,align) around the remaining length, file and wrapper constructors.", "DESIGN.md section 3 C04"),
 "C05": ("Theorems (all views of both formats and kinds, all overridden bases, all addresses/lengths): rva->va->rva and va->rva->va are the identity on (0, SizeOfImage) when the VA space does not wrap and rva_to_va reports Overflow otherwise; a mapped view slices the buffer at offset rva (exact iff); read(B+r) = slice(r) (same ref, same error class) for file and mapped views; every typed read (derva, copy, into, fixed array, sentinel array, C string, wide string) returns exactly what the untyped slice begins with under its length rule, fails with Bounds/Encoding when bytes/terminator are missing (never truncated, never over-read), terminates; zero address -> Null; slice/read results are RefOK; prefix monotonicity of the scans. Correspondence: planted strings/arrays at section ends, every section edge, both address paths, wrappers, bases near 2^32/2^64.", "DESIGN.md section 3 C05"),
 "C07": ("Theorems: validate = ok iff Accept (structural predicate written from the PE layout, both directions), totality, other-format images get PeMagic, the agnostic constructor selects the parser matching the magic and accepts whatever a specific parser accepts, all header accessor refs are inside the buffer/aligned at the prescribed offsets (data directories truncated to 16, section table through SizeOfOptionalHeader), by_name/by_rva = first match, check_sum = standard 16-bit PE checksum for lengths divisible by 4, struct layout regenerated from the source = PE/COFF spec (kernel decide). Correspondence: header-layout stream around every structure end and limit through all six constructors, the repository's binaries at four placements.", "DESIGN.md section 3 C07"),
 "C14": ("Theorems: block iterator terminates with <= len/8 blocks, blocks are consecutive (offset + min(align4(max(size,8)), remaining)), entry count clamped to the directory, all block refs inside the directory and aligned for any 4-aligned placement; build output blocks are page aligned, size multiple of 4 and >= 12; flat(build ps) = ps for every list of pairs with types 1..15 (no sortedness needed) under the global < 4 GiB bound, with a kernel-checked proof that the unbounded statement is false (size as u32 truncation at 2^31 entries). Correspondence: arbitrary 4-aligned directories incl. SizeOfBlock near 2^32, odd sizes, truncations; build + re-parse by the real parser on page-edge rvas.", "DESIGN.md section 3 C14"),
 "C20": ("Theorems C20_enumerate_exact etc. (all byte strings, all configurations with thresholds >= 1, no bound): the model of Enumerator::next reports exactly the qualifying maximal printable runs, ascending and separated, resumes after the terminator and is fused; the printable set is the table regenerated from the source on every run and proved equal to the documented set by the kernel. Correspondence: exhaustive small strings over byte classes, all 256 byte values, random long strings x configs x bases; the executable specification (brute-force maximal runs) is evaluated on every case.", "DESIGN.md section 3 C20"),
}
NA_REASON = "not yet claimed: model/theorems under construction in this round (DESIGN.md section 4 gives the order of work)"

def main():
    props = [json.loads(l) for l in open(os.path.join(ROOT, "properties.jsonl"))]
    checks = []
    for pid in sorted(CLAIMED):
        text, ref = CLAIMED[pid]
        checks.append({"property_id": pid, "quick_cmd": "./check %s quick" % pid, "thorough_cmd": "./check %s thorough" % pid,
                       "evidence_file": "evidence/%s.json" % pid, "replay_cmd_template": "./check replay {path}",
                       "engine": "lean4-model+correspondence",
                       "level_claimed": {"category": "proof", "text": text, "design_ref": ref},
                       "level_note": NOTE, "technique": TECH})
    na = [{"property_id": p["id"], "reason": NA_REASON} for p in props if p["id"] not in CLAIMED]
    m = {"version": 1, "setup_cmd": "./check setup",
         "hooks": {"guard": "pelite_verif", "enable": "RUSTFLAGS=--cfg pelite_verif (passed by vlib/build.py when building the harness; no hook exists in /repo so far)",
                   "baseline_off_cmd": "cd /repo && cargo test --workspace --no-fail-fast --offline", "source_commits": [], "add_only": True},
         "engines": [{"name": "lean4-model+correspondence", "path": "lean/ harness/ vlib/ check", "serves_properties": sorted(CLAIMED),
                      "kind_free_text": "Lean 4 theorems about a hand-written executable model; line-protocol differential check of the compiled model against the real Rust code built from /repo's working tree; finite tables and struct layout regenerated from the source by harness/probe"}],
         "checks": checks, "not_applicable": na,
         "notes": "See DESIGN.md. known-findings.txt lists fixed defects (fix: commits in /repo) and known findings."}
    json.dump(m, open(os.path.join(ROOT, "MANIFEST.json"), "w"), indent=1)

main()
