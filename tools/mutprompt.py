#!/usr/bin/env python3
"""Prints the prompt given to a mutation sub-agent for one property (only the property text, no /verif content)."""
import json, sys
pid = sys.argv[1]
n = int(sys.argv[2]) if len(sys.argv) > 2 else 3
rnd = sys.argv[3] if len(sys.argv) > 3 else ""          # "" first round, "2", "3": directories wt<rnd>_<pid>, mut<rnd>_<pid>
import glob, os
tried = []
if rnd:
    for d in sorted(glob.glob("/verif/seeded/%s-*/meta.json" % pid)):
        try:
            tried.append(" - " + " ".join(json.load(open(d)).get("summary", "").split())[:260])
        except Exception:
            pass
for l in open('/verif/properties.jsonl'):
    p = json.loads(l)
    if p['id'] == pid:
        break
extra = ""
if rnd:
    extra = ("Colleagues already produced the changes listed below; do NOT repeat their ideas (same function AND same mechanism). This round, look in other places: "
             "the less central code paths (format-agnostic wrappers under src/wrap, serde serializers, Display/Debug implementations, conversion helpers, iterator adaptors), "
             "effects that show in only one of the two formats (PE32 vs PE32+) or one view kind (file vs mapped), shared helpers and constants (src/util, src/image.rs, macros) "
             "whose change looks unrelated to the property, integer width / sign / truncation slips, and state carried between calls.\n" + "\n".join(tried) + "\n\n")
print(f"""You are a software engineer doing mutation testing of a Rust library. Your workspace is the git worktree /tmp/wt{rnd}_{pid} (a checkout of the crate `pelite`, a zero-allocation parser for PE32/PE32+ binaries; read its readme.md and src/). Work ONLY inside /tmp/wt{rnd}_{pid} and /tmp/mut{rnd}_{pid}; do not read or use anything under /verif or /repo. No network: always build with `CARGO_NET_OFFLINE=true cargo ... --offline`.

Semantic property {p['id']} — "{p['title']}":
{p['statement']}
It is meant to hold over: {p['quantifier']['text']}

Task: produce {n} different small changes ("mutants") to the library source (files under src/, never the tests) each of which
 (a) compiles,
 (b) still passes the crate's existing test suite, unedited: `CARGO_NET_OFFLINE=true cargo test --workspace --offline` (all tests pass),
 (c) BREAKS the property above — but only under something specific: an unusual or boundary input, a particular multi-step sequence of calls, a particular argument combination, or two cooperating sites that each look fine alone. Do NOT produce changes that ordinary use (parsing a normal DLL and calling the obvious accessors) would expose at once.
Mutants must be realistic slips a maintainer could make (off-by-one in a bound, `<` vs `<=`, wrong field or width, dropped or reordered check, swapped operands, wrapping vs checked arithmetic, stale state, wrong constant), small (1–6 changed lines), and distinct from each other (different functions / mechanisms).

For each mutant i = 1..{n} create the directory /tmp/mut{rnd}_{pid}/<i>/ containing:
 * patch.diff — output of `git diff` in the worktree with only this mutant applied;
 * demo.rs — a self-contained Rust integration test file (public API of the crate only; it must build its input bytes in code or use files shipped in the repository such as demo/Demo64.dll) that, when copied to tests/mut_demo.rs of the worktree and run with `CARGO_NET_OFFLINE=true cargo test --offline --test mut_demo`, FAILS with the patch applied and PASSES on the unmodified tree;
 * meta.json — {{"property": "{pid}", "summary": "...", "needs": "what it needs in order to manifest", "files_touched": [...], "how_verified": "the commands you ran and what you observed"}}.
Verify each mutant yourself exactly in this order: apply the patch; run the full existing suite (must pass); run the demo (must fail); `git checkout -- .`; run the demo again (must pass); delete tests/mut_demo.rs. Leave the worktree clean (`git status --short` empty) when you finish.

{extra}Final report: for each mutant one line: the file/function changed, the change, what input exposes it, and confirmation of the three verification results.""")
