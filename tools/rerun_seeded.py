#!/usr/bin/env python3
"""Re-runs every stored seeded change against the checks that caught it (scratch worktree /tmp/wt_re at
/repo's HEAD, VERIF_REPO mode). Prints regressions: a change that used to be caught and is now missed."""
import glob, json, os, subprocess, sys
wt = "/tmp/wt_re_%d" % os.getpid()
subprocess.run("git -C /repo worktree remove --force %s 2>/dev/null; git -C /repo worktree add -q --detach %s HEAD" % (wt, wt), shell=True)
only = sys.argv[1:]
bad = 0
for d in sorted(glob.glob("/verif/seeded/*/")):
    name = os.path.basename(d.rstrip("/"))
    if only and not any(name.startswith(o) for o in only):
        continue
    if name.startswith("harmless"):
        continue
    meta = json.load(open(d + "meta.json"))
    subprocess.run("git -C %s checkout -q -- ." % wt, shell=True)
    r = subprocess.run("git -C %s apply %spatch.diff" % (wt, d), shell=True, stderr=subprocess.PIPE)
    if r.returncode != 0:
        print(name, "patch no longer applies:", r.stderr.decode()[:100].strip()); continue
    res = []
    for c, old in meta.get("checks_run", {}).items():
        if not old.get("violations"):
            continue
        p = subprocess.run("VERIF_FROZEN=1 VERIF_REPO=%s ./check %s quick" % (wt, c), shell=True, cwd=os.environ.get("VERIF_ROOT", "/verif"), stdout=subprocess.PIPE, stderr=subprocess.STDOUT)
        n = sum(1 for l in p.stdout.decode("utf-8", "replace").split("\n") if l.startswith("VIOLATION"))
        res.append("%s:%s" % (c, "caught" if n else "MISSED"))
        if not n:
            bad += 1
    print(name, " ".join(res))
subprocess.run("git -C %s checkout -q -- . ; git -C /repo worktree remove --force %s" % (wt, wt), shell=True)
print("regressions:", bad)
