#!/usr/bin/env python3
"""usage: tools/retry_seeded.py <seeded name> <check pid>...
Runs the listed checks again against a stored seeded change (scratch worktree at /repo's HEAD, VERIF_REPO
mode; /repo itself is never touched) and records the new outcome in its meta.json (`checks_run`, with the
previous outcome kept under `history`)."""
import json, os, shutil, subprocess, sys
name, checks = sys.argv[1], sys.argv[2:]
d = "/verif/seeded/%s/" % name
wt = "/tmp/wt_retry_%d" % os.getpid()
subprocess.run("git -C /repo worktree add -q --detach %s HEAD" % wt, shell=True, check=True)
try:
    subprocess.run("git -C %s apply %spatch.diff" % (wt, d), shell=True, check=True)
    meta = json.load(open(d + "meta.json"))
    for c in checks:
        p = subprocess.run("VERIF_FROZEN=1 VERIF_REPO=%s ./check %s quick" % (wt, c), shell=True, cwd=os.environ.get("VERIF_ROOT", "/verif"), stdout=subprocess.PIPE, stderr=subprocess.STDOUT)
        out = p.stdout.decode("utf-8", "replace")
        v = [l for l in out.split("\n") if l.startswith("VIOLATION")]
        old = meta.setdefault("checks_run", {}).get(c)
        if old is not None:
            meta.setdefault("history", []).append({c: old})
        meta["checks_run"][c] = {"rc": p.returncode, "violations": len(v), "first": v[0] if v else ""}
        if v:
            path = v[0].split("replay=")[1].split(" ")[0]
            if os.path.exists(path):
                shutil.copy(path, d + "replay_%s.txt" % c)
        print(name, c, "caught" if v else "MISSED rc=%d" % p.returncode, (v[0] if v else out[-300:]).strip()[:200])
    json.dump(meta, open(d + "meta.json", "w"), indent=1)
finally:
    subprocess.run("git -C /repo worktree remove --force %s" % wt, shell=True)
    shutil.rmtree(os.environ.get("VERIF_ROOT", "/verif") + "/.work/alt/" + wt.strip("/").replace("/", "_"), ignore_errors=True)
