#!/usr/bin/env python3
"""Rewrites the tables of DESIGN.md section 9 (between the seeded-table markers) from seeded/*/meta.json:
property-breaking seeded changes with the checks that catch them, and behaviour-preserving changes with
the alarms they raised.  `--print` only prints."""
import glob, json, os, re, sys
rows, hrows = [], []
def short(s, n):
    s = " ".join((s or "").replace("|", "/").split())
    return s if len(s) <= n else s[:n - 1] + "…"
for d in sorted(glob.glob("/verif/seeded/*/")):
    m = json.load(open(os.path.join(d, "meta.json")))
    name = os.path.basename(d.rstrip("/"))
    if name.startswith("harmless"):
        al = m.get("alarms", {})
        hist = m.get("alarm_history", [])
        hrows.append("| %s | %s | %s | %s |" % (name, short(m.get("summary"), 140), ", ".join(sorted(al)) or "none",
                                                short("; ".join(hist), 120) or "-"))
        continue
    cr = m.get("checks_run", {})
    caught = [c for c, r in cr.items() if r.get("violations")]
    silent = [c for c, r in cr.items() if not r.get("violations")]
    first_missed = sorted(set(c for h in m.get("history", []) for c, r in h.items() if not r.get("violations") and c in caught))
    own = m.get("property", name[:3])
    note = ("first missed by " + ", ".join(first_missed)) if first_missed else ""
    rows.append("| %s | %s | %s | %s | %s |" % (name, short(m.get("summary"), 150), ", ".join(caught) or "**none**", ", ".join(silent) or "-", note or "-"))
out = ["| seeded change | what it changes | caught by (quick tier) | run but silent | note |", "|---|---|---|---|---|"] + rows
out += ["", "Behaviour-preserving changes (an alarm here is a false alarm to be removed):", "",
        "| change | what it changes | alarms (final run) | alarms of earlier runs, since removed |", "|---|---|---|---|"] + hrows
text = "\n".join(out)
if "--print" in sys.argv:
    print(text); sys.exit(0)
p = "/verif/DESIGN.md"
s = open(p).read()
a, b = "<!-- seeded-table-begin -->", "<!-- seeded-table-end -->"
if a in s and b in s:
    s = s[:s.index(a) + len(a)] + "\n" + text + "\n" + s[s.index(b):]
    open(p, "w").write(s)
    print("DESIGN.md table rewritten: %d seeded, %d harmless" % (len(rows), len(hrows)))
else:
    print("markers not found")
