#!/usr/bin/env python3
"""Prints the markdown table of seeded changes (DESIGN.md section 8) from seeded/*/meta.json."""
import glob, json, os
rows = []
for d in sorted(glob.glob("/verif/seeded/*/")):
    m = json.load(open(os.path.join(d, "meta.json")))
    name = os.path.basename(d.rstrip("/"))
    caught = [c for c, r in m.get("checks_run", {}).items() if r.get("violations")]
    missed = [c for c, r in m.get("checks_run", {}).items() if not r.get("violations")]
    rows.append("| %s | %s | %s | %s | %s |" % (name, m.get("summary", "").replace("|", "/")[:150], m.get("needs", "").replace("|", "/")[:130], ", ".join(caught) or "-", ", ".join(missed) or "-"))
print("| seeded change | what it changes | needs, to manifest | caught by (quick tier) | run but silent |")
print("|---|---|---|---|---|")
print("\n".join(rows))
