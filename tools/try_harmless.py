#!/usr/bin/env python3
"""usage: tools/try_harmless.py <group letter> [check ids...]
Applies each behaviour-preserving change /tmp/harmless_<g>/<i>/patch.diff to the scratch worktree
/tmp/wt_H<g> (moved to /repo's HEAD), runs the checks against it (VERIF_REPO mode) and reports every
alarm: an alarm on a harmless change is a false alarm to be analysed. Keeps the changes under
/verif/seeded/harmless-<g>-<i>/ with the outcome."""
import json, os, shutil, subprocess, sys
g = sys.argv[1]
checks = sys.argv[2:] or ["C%02d" % i for i in range(1, 21)]
wt = "/tmp/wt_H%s" % g
subprocess.run("git -C %s checkout -q -- . ; git -C %s checkout -q --detach $(git -C /repo rev-parse HEAD)" % (wt, wt), shell=True)
only = [int(x) for x in os.environ.get("ONLY", "").split(",") if x]
for i in range(1, 10):
    if only and i not in only:
        continue
    src = "/tmp/harmless_%s/%d" % (g, i)
    if not os.path.exists(src + "/patch.diff"):
        continue
    subprocess.run("git -C %s checkout -q -- ." % wt, shell=True)
    r = subprocess.run("git -C %s apply %s/patch.diff" % (wt, src), shell=True, stderr=subprocess.PIPE)
    if r.returncode:
        print("%s-%d: patch does not apply: %s" % (g, i, r.stderr.decode()[:120])); continue
    alarms = {}
    if os.environ.get("AUTO") == "1":
        # the checks anchored in a touched file, plus the cross-cutting ones that pull every module's generators
        touched = set(l[6:].strip() for l in open(src + "/patch.diff") if l.startswith("+++ b/"))
        props = [json.loads(l) for l in open("/verif/properties.jsonl")]
        anchored = set(x for d in props for x in d["anchors"]["files"])
        sel = set(["C01", "C02", "C03", "C18", "C19"])
        for d in props:
            if touched & set(d["anchors"]["files"]) or not (touched & anchored):
                sel.add(d["id"])
        checks = sorted(sel)
    for c in checks:
        # (the cross-cutting checks with the plain quick budget: the change-directed escalation multiplies their
        # 3 M operations by four again, which a campaign over dozens of changes cannot afford)
        pre = "VERIF_REPS=4 " if c in ("C01", "C02", "C03") and os.environ.get("FULL") != "1" else ""
        p = subprocess.run(pre + "VERIF_FROZEN=1 VERIF_REPO=%s ./check %s quick" % (wt, c), shell=True, cwd=os.environ.get("VERIF_ROOT", "/verif"), stdout=subprocess.PIPE, stderr=subprocess.STDOUT)
        out = p.stdout.decode("utf-8", "replace")
        v = [l for l in out.split("\n") if l.startswith("VIOLATION")]
        if v or p.returncode:
            first = v[0] if v else "rc=%d %s" % (p.returncode, out[-300:])
            detail = ""
            if v:
                path = v[0].split("replay=")[1].split(" ")[0]
                try:
                    detail = " | ".join(l.strip() for l in open(path).read().split("\n")[:5])[:600]
                except Exception:
                    pass
            alarms[c] = {"n": len(v), "first": first, "detail": detail}
    meta = json.load(open(src + "/meta.json"))
    d = "/verif/seeded/harmless-%s-%d" % (g, i)
    os.makedirs(d, exist_ok=True)
    shutil.copy(src + "/patch.diff", d)
    meta["checks_run"] = checks
    meta["alarms"] = alarms
    meta["base_commit"] = subprocess.run("git -C /repo rev-parse --short HEAD", shell=True, stdout=subprocess.PIPE).stdout.decode().strip()
    json.dump(meta, open(d + "/meta.json", "w"), indent=1)
    print("%s-%d kind=%s alarms=%s  :: %s" % (g, i, meta.get("kind"), {c: a["first"][-60:] + " // " + a["detail"][:300] for c, a in alarms.items()} or "none", meta.get("summary", "")[:100]))
subprocess.run("git -C %s checkout -q -- ." % wt, shell=True)
