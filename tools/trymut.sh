#!/bin/bash
# usage: tools/trymut.sh <worktree> <patch.diff> <property ids...>
# Applies a seeded change to a scratch worktree (never /repo), runs the listed checks against it
# (VERIF_REPO mode) and reverts. Prints one line per property: caught / missed.
wt=$1; patch=$2; shift 2
git -C "$wt" checkout -q -- . && git -C "$wt" apply "$patch" || { echo "patch does not apply"; exit 2; }
for pid in "$@"; do
  out=$(cd /verif && VERIF_REPO="$wt" ./check "$pid" quick 2>&1)
  rc=$?
  n=$(echo "$out" | grep -c '^VIOLATION')
  echo "$pid rc=$rc violations=$n $(echo "$out" | grep '^VIOLATION' | head -1)"
done
git -C "$wt" checkout -q -- .
