"""Build steps: cargo (harness against /repo's working tree), probe -> Generated/*.lean, lake, audit."""
import fcntl, hashlib, os, re, shutil, subprocess, time

ROOT = os.path.dirname(os.path.dirname(os.path.abspath(__file__)))
LEAN = os.path.join(ROOT, "lean")
WORK = os.path.join(ROOT, ".work")
# The registered checks always verify /repo.  VERIF_REPO points the same machinery at another
# checkout (a scratch worktree carrying a seeded change) without touching /repo or the shared build:
# the harness is copied with its path dependency rewritten and built in its own target directory,
# and regenerated tables are compared with the proved ones instead of being written.
REPO = os.path.abspath(os.environ.get("VERIF_REPO", "/repo"))
ALT = REPO != "/repo"
HARNESS_SRC = os.path.join(ROOT, "harness")
HARNESS = HARNESS_SRC if not ALT else os.path.join(WORK, "alt", re.sub(r"[^A-Za-z0-9]+", "_", REPO).strip("_"), "harness")
ENV = dict(os.environ, CARGO_NET_OFFLINE="true", RUST_BACKTRACE="0")
AXIOM_WHITELIST = {"propext", "Classical.choice", "Quot.sound"}


class Lock:
    def __init__(self, name):
        os.makedirs(WORK, exist_ok=True)
        self.path = os.path.join(WORK, name + ".lock")
    def __enter__(self):
        self.f = open(self.path, "w")
        fcntl.flock(self.f, fcntl.LOCK_EX)
        return self
    def __exit__(self, *a):
        fcntl.flock(self.f, fcntl.LOCK_UN)
        self.f.close()


def sh(cmd, cwd=None, timeout=3600):
    t = time.time()
    p = subprocess.run(cmd, cwd=cwd, env=ENV, stdout=subprocess.PIPE, stderr=subprocess.STDOUT, timeout=timeout)
    return p.returncode, p.stdout.decode("utf-8", "replace"), time.time() - t


def cargo_build(release=False):
    """Build the harness (and with it /repo's current working tree). Returns (ok, log, bindir)."""
    with Lock("cargo" if not ALT else "cargo_" + os.path.basename(os.path.dirname(HARNESS))):
        import shutil
        if ALT:
            os.makedirs(HARNESS, exist_ok=True)
            shutil.copytree(os.path.join(HARNESS_SRC, "src"), os.path.join(HARNESS, "src"), dirs_exist_ok=True)
            shutil.copytree(os.path.join(HARNESS_SRC, ".cargo"), os.path.join(HARNESS, ".cargo"), dirs_exist_ok=True)
            toml = open(os.path.join(HARNESS_SRC, "Cargo.toml")).read().replace('path = "/repo"', 'path = "%s"' % REPO)
            with open(os.path.join(HARNESS, "Cargo.toml"), "w") as f:
                f.write(toml)
        lock = os.path.join(HARNESS, "Cargo.lock")
        if not os.path.exists(lock):
            src_lock = os.path.join(REPO, "Cargo.lock")
            shutil.copy(src_lock if os.path.exists(src_lock) else "/repo/Cargo.lock", lock)
        cmd = ["cargo", "build", "--offline", "--bins"] + (["--release"] if release else [])
        env_flags = ENV.get("RUSTFLAGS", "")
        ENV["RUSTFLAGS"] = (env_flags + " --cfg pelite_verif -Awarnings").strip()
        rc, out, dt = sh(cmd, cwd=HARNESS)
        ENV["RUSTFLAGS"] = env_flags
    bindir = os.path.join(HARNESS, "target", "release" if release else "debug")
    return rc == 0, out, bindir


def regenerate(bindir):
    """Run the probe and rewrite Generated/Tables.lean when it differs. Returns dict(changed, sha)."""
    rc, out, dt = sh([os.path.join(bindir, "probe")], cwd=HARNESS, timeout=300)
    if rc != 0:
        return {"ok": False, "log": out}
    path = os.path.join(LEAN, "PeliteModel", "Generated", "Tables.lean")
    with Lock("lake"):
        old = open(path).read() if os.path.exists(path) else ""
        changed = old != out
        if changed and not ALT:
            with open(path, "w") as f:
                f.write(out)
        elif changed:
            with open(os.path.join(os.path.dirname(HARNESS), "Tables.lean"), "w") as f:
                f.write(out)
    return {"ok": True, "changed": changed, "alt_differs": bool(changed and ALT), "sha256": hashlib.sha256(out.encode()).hexdigest()}


GOOD_MODEL = os.path.join(ROOT, ".work", "good", "model")
# scratch-checkout runs of the mutation / harmless-change tools may pin the model to the last driver
# that a regular run built and audited (the Lean project may be mid-edit while they run); registered
# checks never set this
FROZEN = bool(ALT) and os.environ.get("VERIF_FROZEN") == "1" and os.path.exists(GOOD_MODEL)


def model_bin():
    return GOOD_MODEL if FROZEN else os.path.join(LEAN, ".lake", "build", "bin", "model")


def lake_build(targets):
    if FROZEN:
        return True, "frozen model snapshot", 0.0
    with Lock("lake"):
        rc, out, dt = sh(["lake", "build"] + targets, cwd=LEAN)
        if rc == 0 and "model" in targets and not ALT:
            src = os.path.join(LEAN, ".lake", "build", "bin", "model")
            try:
                if not os.path.exists(GOOD_MODEL) or os.environ.get("VERIF_SNAPSHOT") == "1":
                    os.makedirs(os.path.dirname(GOOD_MODEL), exist_ok=True)
                    shutil.copy2(src, GOOD_MODEL + ".tmp")
                    os.replace(GOOD_MODEL + ".tmp", GOOD_MODEL)
            except OSError:
                pass
    return rc == 0, out, dt


def theorem_names(pid):
    """Full names of the theorems declared in Thm/<pid>.lean (tracks `namespace` lines)."""
    path = os.path.join(LEAN, "PeliteModel", "Thm", pid + ".lean")
    names, ns = [], []
    for line in open(path):
        m = re.match(r"\s*namespace\s+(\S+)", line)
        if m:
            ns.append(m.group(1)); continue
        m = re.match(r"\s*end\s+(\S+)", line)
        if m and ns and ns[-1] == m.group(1):
            ns.pop(); continue
        m = re.match(r"\s*(?:@\[[^\]]*\]\s*)?(?:protected\s+|private\s+)?theorem\s+(\S+)", line)
        if m:
            names.append(".".join(ns + [m.group(1)]))
    return names


FORBIDDEN = re.compile(r"\bsorry\b|\badmit\b|^\s*axiom\s|native_decide|bv_decide|implemented_by|\bunsafe\s|maxHeartbeats\s+0\b")


def strip_comments(src):
    src = re.sub(r"/-.*?-/", lambda m: "\n" * m.group(0).count("\n"), src, flags=re.S)
    return re.sub(r"--.*", "", src)


def import_closure(pid, modules=None):
    """files of the project that the property's theorem modules transitively import (including themselves)"""
    todo = list(modules or ["PeliteModel.Thm." + pid])
    seen = []
    while todo:
        m = todo.pop()
        if m in seen:
            continue
        p = os.path.join(LEAN, *m.split(".")) + ".lean"
        if not os.path.exists(p):
            continue
        seen.append(m)
        for line in open(p):
            mm = re.match(r"\s*import\s+(PeliteModel\.\S+)", line)
            if mm:
                todo.append(mm.group(1))
    return [os.path.join(LEAN, *m.split(".")) + ".lean" for m in seen]


def grep_forbidden(pid, modules=None):
    hits = []
    for p in import_closure(pid, modules):
        for i, line in enumerate(strip_comments(open(p).read()).split("\n"), 1):
            if FORBIDDEN.search(line):
                hits.append("%s:%d: %s" % (os.path.relpath(p, LEAN), i, line.strip()))
    return hits


def audit(pid, modules=None):
    """#print axioms for every theorem of the property. Returns list of dict(name, axioms, ok)."""
    modules = modules or ["PeliteModel.Thm." + pid]
    names = []
    for m in modules:
        names += theorem_names(m.split(".")[-1])
    d = os.path.join(WORK, pid)
    os.makedirs(d, exist_ok=True)
    path = os.path.join(d, "Audit.lean")
    with open(path, "w") as f:
        for m in modules:
            f.write("import %s\n" % m)
        for n in names:
            f.write("#print axioms %s\n" % n)
    with Lock("lake"):
        rc, out, dt = sh(["lake", "env", "lean", path], cwd=LEAN)
    res = {}
    # messages: "'X' depends on axioms: [a, b]" (possibly wrapped) / "'X' does not depend on any axioms"
    flat = re.sub(r"\s+", " ", out)
    for m in re.finditer(r"'(\S+)' (does not depend on any axioms|depends on axioms: \[([^\]]*)\])", flat):
        axs = [a.strip() for a in (m.group(3) or "").split(",") if a.strip()]
        res[m.group(1)] = axs
    out_list = []
    for n in names:
        axs = res.get(n)
        ok = axs is not None and all(a in AXIOM_WHITELIST for a in axs)
        out_list.append({"name": n, "axioms": axs, "ok": ok})
    return out_list, out if rc != 0 else ""
