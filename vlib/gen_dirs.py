"""Generators for C15: debug, TLS, load config, exception and security directories inside vlib/pe.py images.
Nothing here is an oracle: the builders only make buffers that *look* like the directories (well formed
and broken in the ways the property statement lists); the answers come from the Lean model / spec."""
import struct
from .pe import PE, Section, rand_bytes
from .gen_img import img_line, load_view, corpus_files

U32 = 0xFFFFFFFF
DIR_EXCEPTION, DIR_SECURITY, DIR_DEBUG, DIR_TLS, DIR_LOADCFG = 3, 4, 6, 9, 10


class Region:
    """a section being filled: bump allocator with alignment; `tail()` places bytes flush with the end"""
    def __init__(self, name, va, prd, cap, fill=0):
        self.name, self.va, self.prd, self.cap = name, va, prd, cap
        self.buf = bytearray([fill]) * cap
        self.cur = 0
        self.end = cap

    def alloc(self, data, align=4, skew=0):
        pos = (self.cur + align - 1) // align * align + skew
        if pos + len(data) > self.end:
            return None
        self.buf[pos:pos + len(data)] = data
        self.cur = pos + len(data)
        return pos

    def tail(self, data, align=4):
        pos = (self.end - len(data)) // align * align
        if pos < self.cur:
            return None
        # flush with the end: shrink the usable area so that nothing follows
        self.buf[pos:pos + len(data)] = data
        self.end = pos
        return pos

    def rva(self, pos):
        return self.va + pos

    def ptr(self, pos):
        return self.prd + pos


class Layout:
    """three sections with fixed capacities so that addresses are known while the contents are written"""
    def __init__(self, rng, bits, fill_tail=False, rdata_last=False):
        self.rng, self.bits = rng, bits
        pe = self.pe = PE(bits)
        pe.e_lfanew = rng.choice([0x40, 0x40, 0x80, 0x48, 0xC8])
        sa = rng.choice([0x1000, 0x1000, 0x800])
        pe.section_align, pe.file_align = sa, 0x200
        pe.num_rva = 16
        hdr = 0x400
        skew = rng.choice([0, 0, 0, 0, 4, 8]) if rng.random() < 0.3 else 0     # raw data not congruent to the rva mod 8/16
        caps = [("text", 0x200), ("rdata", 0x800), ("data", 0x200)]
        if rdata_last:
            # the directory data is the last thing in the file: whatever runs past its section runs past the buffer
            caps = [caps[0], caps[2], caps[1]]
        self.order = [c[0] for c in caps]
        va, prd = max(sa, hdr), hdr + skew
        self.regs = {}
        for name, cap in caps:
            self.regs[name] = Region(name, va, prd, cap, fill=0)
            va += (cap + sa - 1) // sa * sa
            prd += cap
        self.size_of_image = va
        self.text, self.rdata, self.data = self.regs["text"], self.regs["rdata"], self.regs["data"]
        self.text.buf[:] = rand_bytes(rng, self.text.cap)
        self.trailer = b""
        # OVERLAY: bytes of the file after the raw data of the last section (no section maps them, a mapped image
        # does not have them); addressed by FILE OFFSET only (debug raw data of linkers that do not map it)
        self.overlay_base = prd
        self.overlay = bytearray()

    def overlay_alloc(self, data, align=4, skew=0):
        """-> file offset of `data` appended to the overlay"""
        pos = (self.overlay_base + len(self.overlay) + align - 1) // align * align + skew
        self.overlay += bytes(pos - self.overlay_base - len(self.overlay)) + data
        return pos

    def build(self):
        pe = self.pe
        pe.sections = []
        for name in self.order:
            r = self.regs[name]
            pe.sections.append(Section(name=b"." + name.encode(), va=r.va, vs=r.cap, prd=r.prd, rs=r.cap,
                                       chars=0x60000020 if name == "text" else 0x40000040, data=bytes(r.buf)))
        pe.base_of_code, pe.size_of_code = self.text.va, self.text.cap
        data = pe.build()
        if self.overlay:
            data = data + bytes(self.overlay_base - len(data)) + bytes(self.overlay)
        return data

    def sections_end(self):
        return self.overlay_base


def pad4(b):
    return b + bytes(-len(b) % 4)


# ---------------------------------------------------------------- debug

def cv_nb10(rng, path, terminated=True):
    return b"NB10" + struct.pack("<III", rng.choice([0, 1, 0x1000]), rng.getrandbits(32), rng.randrange(1, 50)) + path + (b"\0" if terminated else b"")


def cv_rsds(rng, path, terminated=True):
    return b"RSDS" + rand_bytes(rng, 16) + struct.pack("<I", rng.randrange(1, 50)) + path + (b"\0" if terminated else b"")


def rand_path(rng):
    n = rng.choice([0, 1, 2, 3, 4, 5, 7, 8, 11, 12, 31, 100, 259, 300])
    return bytes(rng.choice(b"abcdefXYZ0189_.\\:/ -") for _ in range(n))


def pogo_blob(rng):
    if rng.random() < 0.08:
        return rng.choice([b"", b"L", b"LT", b"LTC"])          # shorter than the signature dword
    out = rng.choice([b"LTCG", b"PGU\0", b"\0\0\0\0", b"PGI\0"])
    nrec = rng.choice([0, 1, 2, 3, 5, 9])
    for i in range(nrec):
        name = bytes(rng.choice(b".textdbgrCRT$XZa0_") for _ in range(rng.choice([0, 1, 2, 3, 4, 5, 6, 7, 8, 11, 12, 15])))
        out += struct.pack("<II", rng.getrandbits(32) if rng.random() < 0.3 else 0x1000 + 16 * i, rng.choice([0, 1, 16, 0x200, U32])) + pad4(name + b"\0")
    r = rng.random()
    if r < 0.15:
        out += struct.pack("<II", 0x5000, 4)                          # cut-off record: rva, size, no name
    elif r < 0.3:
        out += struct.pack("<II", 0x5000, 4) + b"abcdefgh"            # last name not terminated inside the data
    elif r < 0.4:
        out += struct.pack("<I", 0x5000)
    elif r < 0.5:
        out += b"\x01\x02"                                             # size not a multiple of 4
    return out


def build_debug(rng, L):
    """-> (rva, size) of the directory; entries and their data are written into rdata"""
    n = rng.choice([0, 1, 1, 2, 3, 4, 6])
    ents = []
    for i in range(n):
        kind = rng.choice(["nb10", "rsds", "rsds", "misc", "pogo", "pogo", "unk", "unk"])
        term = rng.random() > 0.15
        if kind == "nb10":
            ty, blob = 2, cv_nb10(rng, rand_path(rng), term)
        elif kind == "rsds":
            ty, blob = 2, cv_rsds(rng, rand_path(rng), term)
            if rng.random() < 0.08:
                blob = rng.choice([b"NB11", b"RSDT", b"\0\0\0\0", b"rsds"]) + blob[4:]
        elif kind == "misc":
            ty, blob = 4, struct.pack("<IIB3s", 1, 12 + 8, rng.choice([0, 1]), b"\0\0\0") + b"name.exe"
        elif kind == "pogo":
            ty, blob = 13, pogo_blob(rng)
        else:
            ty, blob = rng.choice([0, 1, 3, 5, 9, 12, 14, 16, 20, U32]), rand_bytes(rng, rng.choice([0, 1, 4, 20, 33]))
        size = len(blob)
        r = rng.random()
        if r < 0.06:
            size = rng.choice([0, 3, 4, 8, 12, 15, 16, 17, 23, 24, 25])            # cut into / just past the fixed part
            if size > len(blob):
                blob = blob + rand_bytes(rng, size - len(blob))
        elif r < 0.1:
            size = rng.choice([len(blob) + 0x10000, U32, 0x80000000])               # beyond the buffer
        skew = rng.choice([1, 2, 3]) if rng.random() < 0.06 else 0
        if rng.random() < 0.14:
            # raw data in the OVERLAY (past the last section, inside the file), not mapped: AddressOfRawData = 0.
            # File views read it through PointerToRawData; a mapped view looks at offset 0 of the image
            ptr = L.overlay_alloc(blob + (b"" if term else b"ZZZZ"), 4, skew)
            ents.append(struct.pack("<IIHHIIII", 0, rng.getrandbits(32), rng.randrange(4), rng.randrange(4), ty, size & U32, 0, ptr & U32))
            continue
        # unterminated strings must not be rescued by the neighbour's bytes: reading is confined to SizeOfData
        pos = L.rdata.alloc(blob + (b"" if term else b"ZZZZ"), 4, skew)
        if pos is None:
            break
        aord, ptr = L.rdata.rva(pos), L.rdata.ptr(pos)
        r = rng.random()
        if r < 0.08:
            aord = 0                                                                 # not mapped (common in real files)
        elif r < 0.12:
            ptr = rng.choice([0, U32, ptr + 0x100000])
        elif r < 0.15:
            aord = rng.choice([U32, aord + 0x100000])
        ents.append(struct.pack("<IIHHIIII", 0, rng.getrandbits(32), rng.randrange(4), rng.randrange(4), ty, size & U32, aord & U32, ptr & U32))
    table = b"".join(ents)
    r = rng.random()
    if r < 0.07 and L.rdata.tail(table, 4) is not None and ents:
        # table flush with the end of the section and one entry more declared than there is room for
        pos = L.rdata.end
        return L.rdata.rva(pos), len(table) + 28
    pos = L.rdata.alloc(table + bytes(28), 4, rng.choice([1, 2]) if rng.random() < 0.04 else 0)
    if pos is None:
        return 0, 0
    size = len(table)
    if r < 0.17:
        size += rng.choice([1, 4, 27, -1 if size else 13])                           # not a record multiple
    return L.rdata.rva(pos), size & U32


# ---------------------------------------------------------------- tls

def build_tls(rng, L, base):
    bits = L.bits
    ps = bits // 8
    M = (1 << bits) - 1
    tmpl = rand_bytes(rng, rng.choice([0, 1, 7, 16, 64]))
    tpos = L.data.alloc(tmpl + b"\xEE" * 4, 4)
    ipos = L.data.alloc(struct.pack("<I", rng.getrandbits(32)), 4, rng.choice([1, 2]) if rng.random() < 0.06 else 0)
    k = rng.choice([0, 0, 1, 2, 3, 5])
    cbs = [(base + L.text.va + rng.randrange(0, L.text.cap)) & M for _ in range(k)]
    cbs = [c if c else 1 for c in cbs]
    arr = b"".join(c.to_bytes(ps, "little") for c in cbs)
    r = rng.random()
    creg = L.rdata
    if r < 0.12:
        cpos = L.rdata.tail(arr + (1).to_bytes(ps, "little"), ps)                  # no terminator before the section ends
    elif r < 0.24:
        cpos = L.rdata.tail(arr + bytes(ps), ps)        # the zero terminator is the LAST slot of the section's raw data (file views)
    elif r < 0.34:
        creg = L.data
        cpos = L.data.tail(arr + bytes(ps), ps)         # … and of the last section, i.e. of the mapped image (mapped views)
    else:
        cpos = L.rdata.alloc(arr + bytes(ps), ps, 4 if (bits == 64 and rng.random() < 0.05) else 0)
    if tpos is None or ipos is None or cpos is None:
        return 0, 0
    start = (base + L.data.rva(tpos)) & M
    end = (start + len(tmpl)) & M
    index = (base + L.data.rva(ipos)) & M
    cbva = (base + creg.rva(cpos)) & M
    r = rng.random()
    if r < 0.05:
        start, end = end + 1, start                       # End < Start
    elif r < 0.09:
        end = (start + 0x100000) & M                      # template longer than the image
    elif r < 0.13:
        start = rng.choice([0, 1, M])
    elif r < 0.17:
        index = rng.choice([0, 1, M, (base - 1) & M])
    elif r < 0.21:
        cbva = rng.choice([0, 1, M, (base + L.size_of_image) & M])
    fmt = "<IIIIII" if bits == 32 else "<QQQQII"
    blob = struct.pack(fmt, start, end, index, cbva, rng.choice([0, 0x100]), rng.choice([0, 0x300000]))
    r = rng.random()
    if r < 0.06:
        dpos = L.rdata.tail(blob[:-4], 8)                 # the struct runs past the end of the section
    else:
        dpos = L.rdata.alloc(blob, 8, 4 if (bits == 64 and rng.random() < 0.06) else 0)
    if dpos is None:
        return 0, 0
    return L.rdata.rva(dpos), rng.choice([len(blob), len(blob), 0, 4])


# ---------------------------------------------------------------- load config

def build_loadcfg(rng, L, base):
    bits = L.bits
    ps = bits // 8
    M = (1 << bits) - 1
    full = 72 if bits == 32 else 112
    cpos = L.data.alloc(rand_bytes(rng, 8), 8, rng.choice([1, 2]) if rng.random() < 0.06 else 0)
    cnt = rng.choice([0, 0, 1, 2, 4])
    tbl = b"".join(((base + L.text.va + rng.randrange(L.text.cap)) & M).to_bytes(ps, "little") for _ in range(cnt))
    tpos = L.rdata.alloc(tbl + bytes(ps), ps)
    if cpos is None or tpos is None:
        return 0, 0
    cookie = (base + L.data.rva(cpos)) & M
    table = (base + L.rdata.rva(tpos)) & M
    r = rng.random()
    if r < 0.07:
        cnt = rng.choice([1 << 61, 1 << 62, M, 0x10000]) & M          # absurd counts: overflow / bounds
    elif r < 0.12:
        table = rng.choice([0, 1, M])
    elif r < 0.17:
        cookie = rng.choice([0, 1, M, (base + L.size_of_image + 4) & M])
    elif r < 0.2 and cnt:
        table = (table + 4) & M                                        # handler table not pointer aligned (pe64)
    declared = rng.choice([0x40, 0x48, 0x5C, 0x70, 0x94, 0x100, full, full, 0])
    if bits == 32:
        blob = struct.pack("<IIHHIIIIIIIIIIHHIIII", declared, 0, 0, 0, 0, 0, 0, 0, 0, 0, 0, 0, 0, 0, 0, 0, 0, cookie, table, cnt)
    else:
        blob = struct.pack("<IIHHIIIQQQQQQIHHQQQQ", declared, 0, 0, 0, 0, 0, 0, 0, 0, 0, 0, 0, 0, 0, 0, 0, 0, cookie, table, cnt)
    assert len(blob) == full
    r = rng.random()
    if r < 0.15:
        # an old, short load config at the very end of the section: the library's struct does not fit
        keep = rng.choice([0x40, 0x48, full - 8, full - 1])
        dpos = L.rdata.tail(blob[:min(keep, full)], 8)
    else:
        dpos = L.rdata.alloc(blob, 8, 4 if (bits == 64 and rng.random() < 0.06) else 0)
    if dpos is None:
        return 0, 0
    return L.rdata.rva(dpos), declared


# ---------------------------------------------------------------- exception

def build_exception(rng, L):
    """-> ((rva, size), list of (begin, end)) ; sorted tables with gaps / adjacency / empty ranges, and unsorted ones"""
    f = rng.choice([0, 1, 1, 2, 3, 4, 5, 7, 8, 12])
    lo = L.text.va
    fns = []
    cur = lo + rng.choice([0, 0, 1, 5])
    for i in range(f):
        ln = rng.choice([0, 0, 1, 1, 2, 3, 8, 16])                     # begin == end allowed
        fns.append([cur, cur + ln])
        cur += ln + rng.choice([0, 0, 1, 2, 7])                        # adjacent or a gap
    mode = rng.random()
    if f >= 2 and mode < 0.25:
        which = rng.random()
        i = rng.randrange(f - 1)
        if which < 0.35:
            fns[i], fns[i + 1] = fns[i + 1], fns[i]                    # unsorted
        elif which < 0.6:
            fns[i][1] = fns[i + 1][0] + rng.choice([1, 2])             # overlap
        elif which < 0.8:
            fns[i][0], fns[i][1] = fns[i][1] + 1, fns[i][0]            # begin > end
        else:
            rng.shuffle(fns)
    elif f == 1 and mode < 0.3:
        fns[0][0], fns[0][1] = fns[0][1] + 2, fns[0][0]                # single record with begin > end
    elif mode < 0.32 and f:
        fns[-1][1] = rng.choice([U32, 0x80000000, L.text.va + L.text.cap + 1])   # runs past the section / image
    recs = []
    for b, e in fns:
        r = rng.random()
        # (CountOfCodes is a u8: 128 and above is where a doubled count no longer fits one)
        cnt = rng.choice([0, 0, 1, 2, 5]) if rng.random() < 0.8 else rng.choice([127, 128, 129, 200, 255])
        uw = bytes([1 | (rng.randrange(4) << 3), rng.randrange(16), cnt, rng.randrange(256)]) + rand_bytes(rng, 2 * cnt)
        if r < 0.12:
            u = 0                                                      # absent
        elif r < 0.2:
            u = rng.choice([U32, L.size_of_image, L.size_of_image + 4, 1])   # dangling
        elif r < 0.3:
            keep = rng.choice([0, 0, 1, cnt - 1, cnt // 2, max(0, cnt - 128), rng.randrange(cnt)]) if cnt else 0
            pos = L.rdata.tail(uw[:4 + 2 * keep] if cnt else uw, 1)    # codes cut off by the end of the section
            u = L.rdata.rva(pos) if pos is not None else 0
        else:
            pos = L.rdata.alloc(uw, rng.choice([4, 4, 1, 2]))
            u = L.rdata.rva(pos) if pos is not None else 0
        recs.append(struct.pack("<III", b & U32, e & U32, u & U32))
    table = b"".join(recs)
    r = rng.random()
    if r < 0.05 and recs and L.rdata.tail(table, 4) is not None:
        return (L.rdata.rva(L.rdata.end), len(table) + 12), fns
    pos = L.rdata.alloc(table + bytes(12), 4, 2 if rng.random() < 0.04 else 0)
    if pos is None:
        return (0, 0), []
    size = len(table)
    if r < 0.15:
        size += rng.choice([1, 4, 11, 6, -1 if size else 5])
    return (L.rdata.rva(pos), size & U32), fns


def lookup_pcs(rng, fns, L):
    pcs = set([0, 1, U32, L.text.va - 1, L.text.va, L.text.va + L.text.cap])
    for b, e in fns:
        for x in (b, e):
            for d in (-1, 0, 1):
                pcs.add((x + d) & U32)
        if e > b:
            pcs.add((b + e) // 2 & U32)
    srt = sorted(x for f in fns for x in f)
    for a, b in zip(srt, srt[1:]):
        pcs.add(((a + b) // 2) & U32)
    return sorted(pcs)


# ---------------------------------------------------------------- security

def cert_blob(rng, size):
    body = rand_bytes(rng, max(0, size - 8))
    dwlen = size
    if rng.random() < 0.25:
        # padded certificate / several certificates / garbage length: dwLength differs from the directory size
        dwlen = rng.choice([max(0, size - 1), max(0, size - 5), 8, 0, size + 8, U32, size // 2])
    return (struct.pack("<IHH", dwlen & U32, rng.choice([0x0100, 0x0200]), rng.choice([1, 2, 9, 0xEF01])) + body)[:max(size, 0)]


# ---------------------------------------------------------------- cases

def one_image(rng, bits, tier):
    L = Layout(rng, bits, rdata_last=rng.random() < 0.3)
    pe = L.pe
    M = (1 << bits) - 1
    if rng.random() < 0.22:
        # (the last choice: ImageBase + SizeOfImage is exactly 2^bits, the image ends with the address space)
        pe.image_base = rng.choice([0x10000, 0xFFFF0000, 0x7FFE0000, M + 1 - L.size_of_image]) if bits == 32 else rng.choice([0x10000, 0xFFFFFFFFFFFF0000, 0x7FF000000000, M + 1 - L.size_of_image])
    base = pe.image_base
    vbase = None
    if rng.random() < 0.2:
        vbase = rng.choice([0x10000, 0x20000000, 0x7FF700000000 & M, 0])       # the view is relocated: VAs no longer match
    dirs = {}
    order = [DIR_DEBUG, DIR_TLS, DIR_LOADCFG, DIR_EXCEPTION]
    rng.shuffle(order)
    fns = []
    for d in order:
        if rng.random() < 0.12:
            continue                                                            # absent directory
        if d == DIR_DEBUG:
            dirs[d] = build_debug(rng, L)
        elif d == DIR_TLS:
            dirs[d] = build_tls(rng, L, base)
        elif d == DIR_LOADCFG:
            dirs[d] = build_loadcfg(rng, L, base)
        else:
            dirs[d], fns = build_exception(rng, L)
    for d, v in dirs.items():
        pe.dirs[d] = v
    r = rng.random()
    if r < 0.05:
        pe.num_rva = rng.choice([0, 3, 4, 6, 9, 10])                            # data directory array too short
    data = L.build()
    # certificate table: appended to the file, addressed by FILE OFFSET
    r = rng.random()
    if r < 0.8:
        flen = len(data)
        off = (flen + 7) // 8 * 8
        size = rng.choice([8, 16, 24, 0x48, 0x100, 0x208])
        q = rng.random()
        if q < 0.1:
            off += rng.choice([1, 2, 4])                                        # not 8 aligned
        elif q < 0.2:
            size += rng.choice([1, 2, 4, 7])
        elif q < 0.25:
            size = 0
        elif q < 0.32:
            size = rng.choice([4, 4, 1, 2, 6])                                  # shorter than the 8-byte WIN_CERTIFICATE header, flush with the end of the file
        blob = cert_blob(rng, size)
        decl_off, decl_size = off, size
        q = rng.random()
        if q < 0.08:
            decl_size = size + rng.choice([8, 0x1000])                          # beyond the end of the file
        elif q < 0.12:
            decl_off, decl_size = 0xFFFFFFF8, 0x10                              # VirtualAddress + Size wraps in u32
        elif q < 0.15:
            decl_off = 0
        elif q < 0.18:
            decl_off = flen + 0x1000
        pe.dirs[DIR_SECURITY] = (decl_off, decl_size)
        data = L.build()
        data = data + bytes(off - len(data)) + blob
    view = load_view(pe, data[:L.sections_end()])
    return L, data, view, fns, vbase


def ops_for(k, fns_pcs):
    ops = ["debug %s dump" % k, "tls %s dump" % k, "loadcfg %s dump" % k, "exc %s dump" % k, "security %s dump" % k]
    ops += ["exc %s lookup 0x%x" % (k, pc) for pc in fns_pcs]
    return ops


def gen_dirs(rng, tier):
    cases = [["dirs_layout"]]
    nimg = 70 if tier == "quick" else 2500
    for n in range(nimg):
        bits = rng.choice([32, 64])
        L, data, view, fns, vbase = one_image(rng, bits, tier)
        pcs = lookup_pcs(rng, fns, L)
        for mode, buf in (("file", data), ("view", view)):
            if buf is None:
                continue
            k = ("f%d" if mode == "file" else "v%d") % bits
            if mode == "view" and vbase is not None:
                k = "%s@0x%x" % (k, vbase)
            al = rng.choice([0, 0, 8, 8, 4, 12]) if bits == 64 else rng.choice([0, 4, 8, 12])
            case = [img_line(rng, buf, al), "from_bytes " + k.split("@")[0]]
            case += ops_for(k, pcs)
            if rng.random() < 0.35:
                kw = "wf" if mode == "file" else "wv"
                case += ops_for(kw, pcs[:6])
            cases.append(case)
    return cases


def gen_dirs_cv_bounds(rng, tier):
    """CodeView records whose SizeOfData moves byte by byte across the fixed parts (4 signature, 16 NB10,
    24 RSDS) and across the terminator of the path; one debug entry per image, file and view"""
    cases = []
    combos = [(bits, sig) for bits in (32, 64) for sig in ("NB10", "RSDS", "RSDT")]
    for bits, sig in combos:
        sizes = list(range(0, 34)) if tier != "quick" else sorted(set(rng.sample(range(0, 34), 10) + [15, 16, 17, 23, 24, 25]))
        for size in sizes:
            L = Layout(rng, bits)
            path = b"a.pdb"
            blob = (cv_nb10(rng, path) if sig == "NB10" else cv_rsds(rng, path))
            blob = sig.encode() + blob[4:]
            full = blob + b"ZZZZZZZZ"
            pos = L.rdata.alloc(full, 4, 0)
            ent = struct.pack("<IIHHIIII", 0, 0x5F000000, 0, 0, 2, size, L.rdata.rva(pos), L.rdata.ptr(pos))
            tpos = L.rdata.alloc(ent, 4, 0)
            L.pe.dirs[DIR_DEBUG] = (L.rdata.rva(tpos), 28)
            data = L.build()
            view = load_view(L.pe, data)
            for k, buf in (("f%d" % bits, data), ("v%d" % bits, view)):
                if buf is not None:
                    cases.append([img_line(rng, buf, rng.choice([0, 8])), "debug %s dump" % k])
    return cases


def gen_dirs_misc_bounds(rng, tier):
    """MISC (IMAGE_DEBUG_MISC, 12 fixed bytes) and POGO (4 signature bytes) records whose SizeOfData moves byte by byte
    across the fixed part, the data flush against the END of the buffer: in the overlay of a file (read through
    PointerToRawData) and at the end of a truncated mapped view (round-6 change C01-r6-2 accepted MISC records of 4..11
    bytes and handed out a 12-byte reference)"""
    cases = []
    for bits in (32, 64):
        for ty, full in ((4, struct.pack("<IIB3s", 1, 20, 0, b"\0\0\0") + b"name.exe"), (13, b"LTCG" + struct.pack("<II", 0x1000, 16) + b".text\0\0\0")):
            sizes = list(range(0, 22)) if tier != "quick" else [0, 3, 4, 5, 8, 11, 12, 13, 20]
            for size in sizes:
                # file: the record is the last `size` bytes of the file
                L = Layout(rng, bits, rdata_last=True)
                ent_off = L.rdata.alloc(bytes(28), 4, 0)
                L.pe.dirs[DIR_DEBUG] = (L.rdata.rva(ent_off), 28)
                data = bytearray(L.build())
                while len(data) % 4:
                    data.append(0)
                fo = len(data)
                ent = struct.pack("<IIHHIIII", 0, 0x5F000000, 0, 0, ty, size, 0, fo)
                o = L.rdata.ptr(ent_off)
                data[o:o + 28] = ent
                data += full[:size]
                cases.append([img_line(rng, bytes(data), rng.choice([0, 4, 8, 12]), "e"), "debug f%d dump" % bits, "debug wf dump"])
                # view: the record is mapped at the very end of the (truncated) image
                L = Layout(rng, bits, rdata_last=True)
                ent_off = L.rdata.alloc(bytes(28), 4, 0)
                pos = L.rdata.alloc(full + bytes(8), 4, 0)
                L.pe.dirs[DIR_DEBUG] = (L.rdata.rva(ent_off), 28)
                data = bytearray(L.build())
                o = L.rdata.ptr(ent_off)
                data[o:o + 28] = struct.pack("<IIHHIIII", 0, 0x5F000000, 0, 0, ty, size, L.rdata.rva(pos), L.rdata.ptr(pos))
                view = load_view(L.pe, bytes(data))
                if view is not None and L.rdata.rva(pos) + size <= len(view):
                    view = view[:L.rdata.rva(pos) + size]
                    al = (-len(view)) % 16
                    cases.append([img_line(rng, view, al if al % 4 == 0 else rng.choice([0, 8]), "e"), "debug v%d dump" % bits, "debug wv dump"])
    return cases


def gen_dirs_overlay(rng, tier):
    """debug entries whose raw data lies in the OVERLAY of the file (after the raw data of the last section, inside the
    file; `AddressOfRawData` = 0 — not mapped): every payload kind (NB10, RSDS, POGO, MISC, unknown type), dword aligned
    and not, `SizeOfData` ending exactly at / one byte past the end of the file, the certificate table behind it.
    File views read the data through `PointerToRawData`; a mapped view of the same image has no such bytes: with
    `AddressOfRawData` = 0 `Dir::data` is the first `SizeOfData` bytes of the IMAGE (what the model says, too)"""
    cases = []
    kinds = ["nb10", "rsds", "pogo", "misc", "unk"]
    variants = ["plain", "skew", "to_eof", "past_eof", "cert_after", "two", "big_view"]
    reps = 1 if tier == "quick" else 6
    for bits in (32, 64):
        for kind in kinds:
            for var in variants:
                for _ in range(reps):
                    L = Layout(rng, bits, rdata_last=rng.random() < 0.5)
                    def payload(kind):
                        if kind == "nb10":
                            return 2, cv_nb10(rng, rand_path(rng))
                        if kind == "rsds":
                            return 2, cv_rsds(rng, rand_path(rng))
                        if kind == "pogo":
                            return 13, pogo_blob(rng)
                        if kind == "misc":
                            return 4, struct.pack("<IIB3s", 1, 12 + 8, rng.choice([0, 1]), b"\0\0\0") + b"name.exe"
                        return rng.choice([0, 1, 3, 9, 12, 16, U32]), rand_bytes(rng, rng.choice([1, 4, 20, 33]))
                    ents = []
                    todo = [kind] + ([rng.choice(kinds)] if var == "two" else [])
                    for j, kd in enumerate(todo):
                        ty, blob = payload(kd)
                        last = j == len(todo) - 1
                        skew = rng.choice([1, 2, 3]) if var == "skew" else 0
                        ptr = L.overlay_alloc(blob if (last and var in ("to_eof", "past_eof")) else blob + b"ZZZZ", 4, skew)
                        size = len(blob)
                        if last and var == "past_eof":
                            size += 1
                        if var == "big_view":
                            size = max(size, 0x4000)        # more than the mapped image holds from offset 0: no data in the view
                            L.overlay += bytes(size - len(blob))
                        ents.append(struct.pack("<IIHHIIII", 0, rng.getrandbits(32), 1, 0, ty, size & U32, 0, ptr & U32))
                    table = b"".join(ents)
                    tpos = L.rdata.alloc(table, 4, 0)
                    L.pe.dirs[DIR_DEBUG] = (L.rdata.rva(tpos), len(table))
                    data = L.build()
                    view = load_view(L.pe, data[:L.sections_end()])
                    if var == "cert_after":
                        off = (len(data) + 7) // 8 * 8
                        L.pe.dirs[DIR_SECURITY] = (off, 16)
                        data = L.build()
                        data = data + bytes(off - len(data)) + cert_blob(rng, 16)
                    for k, buf in (("f%d" % bits, data), ("v%d" % bits, view)):
                        if buf is None:
                            continue
                        kw = "wf" if k[0] == "f" else "wv"
                        # flush against the guard page at the END: a read past the file faults
                        cases.append([img_line(rng, buf, rng.choice([0, 8]), "e"), "from_bytes " + k, "debug %s dump" % k, "debug %s dump" % kw,
                                      "security %s dump" % k])
    return cases


def gen_dirs_fuzz(rng, tier):
    """well-formed images with random bytes overwritten inside the directory data (robustness: C01-C03)"""
    cases = []
    nimg = 25 if tier == "quick" else 1200
    for n in range(nimg):
        bits = rng.choice([32, 64])
        L, data, view, fns, vbase = one_image(rng, bits, tier)
        pcs = lookup_pcs(rng, fns, L)[:12]
        for mode, buf in (("file", data), ("view", view)):
            if buf is None:
                continue
            b = bytearray(buf)
            reg = L.rdata
            lo = reg.prd if mode == "file" else reg.va
            for _ in range(rng.choice([1, 2, 4, 16, 64])):
                p = lo + rng.randrange(reg.cap)
                if p < len(b):
                    b[p] = rng.choice([0, 1, 0xFF, 0x80, rng.getrandbits(8)])
            if rng.random() < 0.3:
                # data directory entries themselves
                nt_end = L.pe.layout["nt_end"]
                d = rng.choice([DIR_EXCEPTION, DIR_SECURITY, DIR_DEBUG, DIR_TLS, DIR_LOADCFG])
                struct.pack_into("<II", b, nt_end + 8 * d, rng.choice([0, 1, reg.va, reg.va + reg.cap - 4, len(b) - 4, len(b), U32, rng.getrandbits(32)]),
                                 rng.choice([0, 1, 12, 28, 40, 0x1000, U32, rng.getrandbits(32)]))
            k = ("f%d" if mode == "file" else "v%d") % bits
            cases.append([img_line(rng, bytes(b))] + ops_for(k, pcs))
    return cases


POGO_HIST_OPS = ["next", "next", "nth:0", "nth:1", "nth:2", "nth:5", "hint", "count", "clone", "nth:0xffffffffffffffff", "nth:0x7fffffffffffffff"]


def gen_pogo_hist(rng, tier):
    """call histories over {next, nth k, size_hint, count, clone} on the POGO record iterator (C18 / C15): the model
    runs `pgoRunOps` (PgoIter::next and the provided methods over it), the specification the same calls on the plain
    list of the records; well-formed blobs, cut-off records, names without terminator, sizes that are not dwords"""
    cases = []
    two = b"LTCG" + struct.pack("<II", 0x1000, 16) + pad4(b".text\0") + struct.pack("<II", 0x2000, 32) + pad4(b".rdata$zz\0") + struct.pack("<II", 0x3000, 1) + pad4(b"\0")
    core = ["next", "nth:1", "count", "clone"]
    for a in core:
        for b in core:
            for c in core:
                cases.append(["pogo_hist %s %s" % (two.hex(), ",".join([a, b, c, "hint", "next", "next", "count"]))])
    for cut in range(0, len(two) + 1):
        cases.append(["pogo_hist %s %s" % (two[:cut].hex() or "-", "count,clone,next,next,nth:0,next")])
    n = 300 if tier == "quick" else 10000
    for _ in range(n):
        blob = pogo_blob(rng)
        if rng.random() < 0.15:
            blob = blob[:rng.randrange(0, len(blob) + 1)]
        elif rng.random() < 0.1:
            b = bytearray(blob)
            for _ in range(rng.choice([1, 2, 4])):
                if b:
                    b[rng.randrange(len(b))] = rng.choice([0, 0, 1, 0x41, 0xFF])
            blob = bytes(b)
        k = rng.choice([1, 2, 4, 8, 12])
        cases.append(["pogo_hist %s %s" % (blob.hex() or "-", ",".join(rng.choice(POGO_HIST_OPS) for _ in range(k)))])
    return cases


def lean_example_images():
    """the byte arrays of lean/PeliteModel/Lemmas/DirsExamples.lean: the images of the non-vacuity examples of
    Thm/C15.lean (so that what the examples say about the model is also compared with the library)"""
    import os, re
    p = os.path.join(os.path.dirname(os.path.dirname(os.path.abspath(__file__))), "lean", "PeliteModel", "Lemmas", "DirsExamples.lean")
    out = {}
    try:
        txt = open(p).read()
    except OSError:
        return out
    for m in re.finditer(r"def (\w+) : Bytes := #\[([^\]]*)\]", txt):
        out[m.group(1)] = bytes(int(x) for x in m.group(2).replace("\n", " ").split(",") if x.strip())
    return out


def gen_dirs_examples(rng, tier):
    """the example images of the theorems, every view kind they are used with, plus the two variants the examples
    derive (data-directory array cut before the TLS slot; callback list without terminator)"""
    imgs = lean_example_images()
    pcs = [0, 99, 100, 115, 116, 118, 119, 120, 129, 130, 132, 147, 148, U32]
    plan = [("demoBytes", ["v32", "f32", "wv", "wf"]), ("demoBytes64", ["v64", "wv", "f64"]), ("demoFileBytes", ["f32", "wf", "v32"])]
    variants = []
    if "demoBytes" in imgs:
        b = bytearray(imgs["demoBytes"]); b[180] = 9
        variants.append((bytes(b), ["v32", "wv"]))
    if "demoBytes64" in imgs:
        b = bytearray(imgs["demoBytes64"]); b[536] = 0x90; b[537] = 0x02
        variants.append((bytes(b), ["v64", "wv"]))
    cases = []
    for data, ks in [(imgs[n], ks) for n, ks in plan if n in imgs] + variants:
        for al in (0, 8):
            case = [img_line(rng, data, al)]
            for k in ks:
                case.append("from_bytes " + k)
                case += ops_for(k, pcs)
            cases.append(case)
    return cases


def gen_dirs_corpus(rng, tier):
    """the repository's own binaries (demo DLLs have debug, load config, exception (64), tls?)"""
    cases = []
    for fn, data in corpus_files():
        if len(data) < 0x100:
            continue
        try:
            e = struct.unpack_from("<I", data, 0x3C)[0]
            magic = struct.unpack_from("<H", data, e + 24)[0]
        except struct.error:
            continue
        bits = 64 if magic == 0x20B else 32
        case = [img_line(rng, data, 0, "e")]
        pcs = [0, 0x1000, 0x1001, 0x1010, 0x1100, 0x2000, U32]
        for k in ("f%d" % bits, "wf"):
            case += ops_for(k, pcs)
        if len(data) < (1 << 16):
            case += ["img_to_view f%d" % bits] + ops_for("v%d" % bits, pcs) + ops_for("wv", pcs[:3])
        cases.append(case)
    return cases
