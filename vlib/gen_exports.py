"""Generators for the export directory (C08): a python export-directory builder placed in a section
of a `vlib/pe.py` image (data directory 0), queried through `exports <k> dump` and
`export <k> <query> <args>`.  Nothing here is an oracle; the builder only knows which names,
ordinals and hints are worth asking for."""
import struct
from .pe import PE, Section, rand_bytes
from .gen_img import img_line, load_view, corpus_files

U32 = 0xFFFFFFFF
HDR_FIELDS = ("chars", "stamp", "ver", "name", "base", "nfn", "nnm", "afn", "anm", "aor")


class ExpDir:
    """Layout: [IMAGE_EXPORT_DIRECTORY 40][functions 4n][names 4m][name ordinals 2m][strings].
    `fns`  : int (rva) | ("fwd", bytes)  -- forwarder strings live inside the blob
    `names`: (bytes | ("rva", int), index)
    `over` : header fields forced after layout; `tail_cut`: drop that many bytes from the blob end"""

    def __init__(self):
        self.dll = b"demo.dll"
        self.base = 1
        self.fns = []
        self.names = []
        self.over = {}
        self.idx_gap = 0          # extra bytes between the name table and the ordinal table (2-alignment games)

    def build(self, rva0):
        n, m = len(self.fns), len(self.names)
        o_f = 40
        o_n = o_f + 4 * n
        o_i = o_n + 4 * m + self.idx_gap
        o_s = o_i + 2 * m
        strings = bytearray()

        def put(s, nul=True):
            r = rva0 + o_s + len(strings)
            strings.extend(s + (b"\0" if nul else b""))
            return r
        dll_rva = put(self.dll)
        name_rvas = []
        for nm, _ in self.names:
            if isinstance(nm, tuple):
                name_rvas.append(nm[1] & U32)
            else:
                name_rvas.append(put(nm))
        fn_rvas = []
        for f in self.fns:
            if isinstance(f, tuple):
                fn_rvas.append(put(f[1]))
            else:
                fn_rvas.append(f & U32)
        h = {"chars": 0, "stamp": 0x5F000000, "ver": 0, "name": dll_rva, "base": self.base, "nfn": n, "nnm": m,
             "afn": rva0 + o_f, "anm": rva0 + o_n, "aor": rva0 + o_i}
        h.update(self.over)
        blob = struct.pack("<IIIIIIIIII", *[h[k] & U32 for k in HDR_FIELDS])
        blob += b"".join(struct.pack("<I", x) for x in fn_rvas)
        blob += b"".join(struct.pack("<I", x) for x in name_rvas)
        blob += bytes(self.idx_gap)
        blob += b"".join(struct.pack("<H", i & 0xFFFF) for _, i in self.names)
        blob += bytes(strings)
        self.hdr, self.fn_rvas, self.name_rvas = h, fn_rvas, name_rvas
        return blob


NAME_POOL = [b"Alpha", b"Beta", b"Gamma", b"Delta", b"a", b"b", b"ab", b"abc", b"abd", b"B", b"Zeta", b"_init", b"?f@@YAXXZ",
             b"DllMain", b"Open", b"OpenA", b"OpenW", b"\x7f", b"\x80\xff", b"z", b"zz", b"", b"A", b"Al"]


def rand_name(rng):
    if rng.random() < 0.7:
        return rng.choice(NAME_POOL)
    return bytes(rng.choice(b"abAB_z\x01\xfe") for _ in range(rng.randrange(0, 6)))


def rand_dir(rng):
    d = ExpDir()
    d.dll = rng.choice([b"demo.dll", b"x", b"", b"KERNEL32.dll"])
    d.base = rng.choice([1, 1, 1, 0, 2, 5, 0x10, 100, 0xFFFF, 0xFFFE, 0xFFF8])
    n = rng.choice([0, 1, 2, 3, 4, 5, 6, 8, 12])
    for i in range(n):
        r = rng.random()
        if r < 0.15:
            d.fns.append(0)                                   # hole
        elif r < 0.35:
            d.fns.append(("fwd", rng.choice([b"NTDLL.RtlAllocateHeap", b"other.#12", b"", b"k.f"])))
        else:
            d.fns.append(0x1000 + 0x10 * rng.randrange(0, 0x20))
    # names
    mode = rng.choice(["sorted", "sorted", "unsorted", "unsorted", "dups", "dups_unsorted"])
    m = rng.choice([0, 1, max(0, n - 2), n, n, n + 1, min(n, 3)])
    pool = set()
    while len(pool) < m:
        pool.add(rand_name(rng) if len(pool) < 20 else bytes([len(pool)]) * 3)
    names = sorted(pool)          # (set order of bytes objects is per-process: sort before using the rng on it)
    if mode.startswith("dups") and names:
        for _ in range(rng.randrange(1, 3)):
            names[rng.randrange(len(names))] = rng.choice(names)
    names.sort()
    if mode.endswith("unsorted"):
        rng.shuffle(names)
    for nm in names:
        r = rng.random()
        if n == 0 or r < 0.08:
            ix = rng.choice([n, n + 1, 0xFFFF, 0])            # index outside the address table
        else:
            ix = rng.randrange(n)
        d.names.append((nm, ix))
    d.mode = mode
    return d


class Built:
    pass


def build_image(rng, d, bits=None, mut=None):
    """returns Built(pe, data, view, dir_rva, dir_size, d)"""
    bits = bits or rng.choice([32, 64])
    pe = PE(bits)
    pe.file_align, pe.section_align = 0x200, 0x1000
    pe.num_rva = 16
    text = Section(b".text", va=0x1000, vs=0x200, prd=0x200, rs=0x200, data=rand_bytes(rng, 0x200))
    off = rng.choice([0, 0, 4, 0x10, 0x24, 0x100])
    rva0 = 0x2000 + off
    m = mut or {}
    size = blob_size(d)
    # entries on the edges of the directory extent: the extent is known before the values are laid out
    e_rva = m["dir_rva"](rva0, size) & U32 if "dir_rva" in m else rva0
    e_size = m["dir_size"](rva0, size) & U32 if "dir_size" in m else size
    resolve_edges(d, e_rva, e_size)
    blob = d.build(rva0)
    assert len(blob) == size
    rs = (off + size + 0x1FF) // 0x200 * 0x200
    fill = rng.choice([0, 0x41, 0xCC])
    body = bytearray([fill]) * rs
    body[off:off + size] = blob
    vs = rs
    dir_rva, dir_size = rva0, size
    if m.get("end") == "flush":
        # the blob ends exactly at the end of the raw data: the last string keeps / loses its terminator
        rs2 = off + size - m.get("cut", 0)
        body = body[:rs2]
        rs, vs = rs2, rs2 + m.get("vtail", 0)
    elif m.get("end") == "short":
        # raw data ends inside the tables
        rs2 = max(0, off + m.get("keep", 44))
        body = body[:rs2]
        rs, vs = rs2, max(rs2, off + size) if m.get("vtail", 1) else rs2
    if "vsize" in m:
        vs = {"half": off + size // 2, "minus1": off + size - 1}.get(m["vsize"], m["vsize"] if m["vsize"] in (0, 1) else off + m["vsize"] if isinstance(m["vsize"], int) else 0)
        pe.size_of_image = 0x2000 + (max(rs, 1) + 0xFFF) // 0x1000 * 0x1000
    edata = Section(b".edata", va=0x2000, vs=vs, prd=0x400, rs=rs, data=bytes(body))
    pe.sections = [text, edata]
    pe.dirs = [(0, 0)] * 16
    if "dir_rva" in m:
        dir_rva = m["dir_rva"](rva0, size) & U32
    if "dir_size" in m:
        dir_size = m["dir_size"](rva0, size) & U32
    pe.dirs[0] = (dir_rva, dir_size)
    if "num_rva" in m:
        pe.num_rva = m["num_rva"]
    if "image_base" in m:
        pe.image_base = m["image_base"] & ((1 << bits) - 1)
    if "size_of_image" in m:
        pe.size_of_image = m["size_of_image"]
    data = pe.build()
    if m.get("file_cut"):
        pe.file_len = max(pe.layout["size_of_headers"], len(data) - m["file_cut"])
        data = pe.build()
    b = Built()
    b.pe, b.data, b.d, b.rva0, b.size, b.dir_rva, b.dir_size, b.bits = pe, data, d, rva0, size, dir_rva, dir_size, bits
    b.view = load_view(pe, data)
    if b.view is not None and m.get("view_cut"):
        b.view = b.view[:max(pe.layout["size_of_headers"], 0x2000 + off + m["view_cut"])]
    return b


def mutations(rng, d):
    """one random corruption: header fields (`d.over`) or placement (`mut`)"""
    n, m = len(d.fns), len(d.names)
    mut = {}
    r = rng.randrange(24)
    if r == 0:
        d.over["afn"] = 0
    elif r == 1:
        d.over["anm"] = 0
    elif r == 2:
        d.over["aor"] = 0
    elif r == 3:
        d.over["afn"] = 0; d.over["anm"] = 0; d.over["aor"] = 0
    elif r == 4:
        d.over["nfn"] = rng.choice([0, 1, n + 1, n + 0x80, 0x100, 0x10000, 0x40000000, 0x80000000, U32])
    elif r == 5:
        d.over["nnm"] = rng.choice([0, 1, m + 1, max(0, m - 1), 0x100, 0x10000, 0x40000000, 0x80000000, U32])
    elif r == 6:
        d.over["base"] = rng.choice([0x10000, 0x10001, U32, 0x80000000, 0xFFFF, 0xFFFF - n + 1 & U32, 0])
    elif r == 7:
        mut["dir_size"] = rng.choice([lambda a, s: 0, lambda a, s: 1, lambda a, s: 40, lambda a, s: s - 1, lambda a, s: s + 1,
                                      lambda a, s: U32, lambda a, s: (1 << 32) - a, lambda a, s: (1 << 32) - a - 1, lambda a, s: (1 << 32) - a + 1,
                                      lambda a, s: 0x80000000, lambda a, s: 40 + 4 * n])
    elif r == 8:
        mut["dir_rva"] = rng.choice([lambda a, s: 0, lambda a, s: a + 1, lambda a, s: a + 2, lambda a, s: a - 4, lambda a, s: a + 4,
                                     lambda a, s: U32, lambda a, s: 0x1000, lambda a, s: 0x40, lambda a, s: 0x10000000, lambda a, s: a + 40])
    elif r == 9:
        mut["end"] = "flush"; mut["cut"] = rng.choice([0, 0, 1, 2, 3]); mut["vtail"] = rng.choice([0, 0, 1, 0x100])
    elif r == 10:
        mut["end"] = "short"; mut["keep"] = rng.choice([0, 1, 39, 40, 41, 44, 40 + 4 * n - 1, 40 + 4 * n, 40 + 4 * n + 4 * m, 40 + 4 * n + 4 * m + 2 * m - 1, 40 + 4 * n + 6 * m]); mut["vtail"] = rng.choice([0, 1])
    elif r == 11:
        mut["num_rva"] = rng.choice([0, 0, 1, 5])
    elif r == 12 and m:
        i = rng.randrange(m)
        d.names[i] = (("rva", rng.choice([0, 1, U32, 0x3000, 0x2FFF, 0x1FFF, 0x11FF, 0x10000000])), d.names[i][1])
    elif r == 13:
        d.over["name"] = rng.choice([0, U32, 0x5000, 0x11FC])
    elif r == 14:
        d.idx_gap = rng.choice([1, 2, 3])
    elif r == 15:
        mut["file_cut"] = rng.choice([1, 2, 4, 0x10, 0x40, 0x100]); mut["view_cut"] = rng.choice([39, 40, 40 + 4 * n, 40 + 4 * n + 4 * m + m, 44])
    elif r == 16:
        mut["image_base"] = rng.choice([0, 0xFFFFF000, 0xFFFFFFFF, (1 << 64) - 0x1800, (1 << 64) - 1, 0x10000])
    elif r == 17 and n:
        # entries at the edges of the directory extent and of the image
        i = rng.randrange(n)
        d.fns[i] = rng.choice([("edge", -1), ("edge", 0), ("edge_end", -1), ("edge_end", 0), 1, U32, 0x2FFF, 0x3000, 0x11FF, 0x1200, 0x80000000])
    elif r == 18:
        d.over["afn"] = rng.choice([1, 0x2002, 0x2FFC, 0x2FFE, 0x3000, U32, 0x1FFE, 0x100])
    elif r == 19:
        d.over["anm"] = rng.choice([1, 0x2002, 0x2FFC, 0x3000, U32, 0x100])
    elif r == 20:
        d.over["aor"] = rng.choice([1, 0x2001, 0x2FFE, 0x3000, U32, 0x100, 0x1000])
    elif r == 21:
        mut["size_of_image"] = rng.choice([0x2000, 0x2004, 0x1000, 0x3000, 0x200])
    elif r in (22, 23):
        # VirtualSize smaller than the raw data that holds the tables (a file view resolves through
        # max(VirtualSize, SizeOfRawData); what a loader maps of it is another matter)
        mut["vsize"] = rng.choice([0, 0, 1, 40, "half", "minus1"])
    return mut


def resolve_edges(d, rva0, size_of):
    """("edge", k) = directory VA + k ; ("edge_end", k) = directory VA + Size + k (needs two passes)"""
    for i, f in enumerate(d.fns):
        if isinstance(f, tuple) and f[0] == "edge":
            d.fns[i] = (rva0 + f[1]) & U32
        elif isinstance(f, tuple) and f[0] == "edge_end":
            d.fns[i] = (rva0 + size_of + f[1]) & U32


def blob_size(d):
    n, m = len(d.fns), len(d.names)
    s = 40 + 4 * n + 4 * m + d.idx_gap + 2 * m + len(d.dll) + 1
    s += sum(len(nm) + 1 for nm, _ in d.names if not isinstance(nm, tuple))
    s += sum(len(f[1]) + 1 for f in d.fns if isinstance(f, tuple) and f[0] == "fwd")
    return s


def hx(b):
    return bytes(b).hex() if b else "-"


def name_queries(rng, d):
    """member names and their neighbours in sort order, prefixes, extensions, the empty string"""
    q = set([b"", b"\0", b"nonexistent", b"\xff\xff\xff\xff", b"a", b"A"])
    for nm, _ in d.names:
        if isinstance(nm, tuple):
            continue
        q.add(nm)
        q.add(nm + b"a"); q.add(nm + b"\0"); q.add(nm + b"\x01")
        if nm:
            q.add(nm[:-1])
            last = nm[-1]
            q.add(nm[:-1] + bytes([(last + 1) & 0xFF])); q.add(nm[:-1] + bytes([(last - 1) & 0xFF]))
            q.add(nm.swapcase())
    for f in d.fns:
        if isinstance(f, tuple) and f[0] == "fwd":
            q.add(f[1])
    q.add(d.dll)
    return sorted(q)


def queries(rng, d, k, kw, hdr, frac=1.0):
    """the query lines for one constructor `k` (+ a sample through the wrapper `kw`)"""
    n, m = len(d.fns), len(d.names)
    nfn = hdr.get("nfn", n)
    nnm = hdr.get("nnm", m)
    base = hdr.get("base", d.base) & U32
    out = []

    def add(line):
        out.append("export %s %s" % (k, line))
        if kw and rng.random() < 0.3 and not line.startswith("proc "):
            out.append("export %s %s" % (kw, line))
    ords = set([0, 1, 65535, 65534])
    for i in range(-2, min(nfn, n + 2) + 3):
        ords.add((base + i) & 0xFFFF)
    for o in sorted(ords):
        add("ordinal %d" % o)
        add("import byordinal %d" % o)
        if rng.random() < frac * 0.6:
            add("proc ordinal %d" % o)
            add("get ordinal %d" % o)
    idxs = set([0, 1, n - 1, n, n + 1, nfn - 1, nfn, nfn + 1, 0xFFFF, 0x10000, (1 << 32) - 1, 1 << 32, (1 << 32) + 1, (1 << 64) - 1]) | set(range(n))
    for i in sorted(x for x in idxs if 0 <= x < (1 << 64)):
        add("index %d" % i)
        add("name_lookup %d" % i)
    hints = set([0, 1, m - 1, m, m + 1, nnm - 1, nnm, nnm + 1, 0xFFFF, 1 << 32, (1 << 64) - 1]) | set(range(m))
    hints = sorted(x for x in hints if 0 <= x < (1 << 64))
    for h in hints:
        add("hint %d" % h)
        add("name_of_hint %d" % h)
    nq = name_queries(rng, d)
    for q in nq:
        add("name %s" % hx(q))
        add("name_linear %s" % hx(q))
        if rng.random() < frac * 0.7:
            add("proc name %s" % hx(q))
            add("get name %s" % hx(q))
    # hint + name: right hint, wrong hint, hint out of range
    members = [(h, nm) for h, (nm, _) in enumerate(d.names) if not isinstance(nm, tuple)]
    for h, nm in members:
        add("hint_name %d %s" % (h, hx(nm)))
        add("import byname %d %s" % (h, hx(nm)))
        other = rng.choice(hints)
        add("hint_name %d %s" % (other, hx(nm)))
        add("import byname %d %s" % (other, hx(nm)))
        if rng.random() < 0.5:
            add("proc byname %d %s" % (rng.choice([h, other]), hx(nm)))
            add("get byname %d %s" % (rng.choice([h, other]), hx(nm)))
    for q in rng.sample(nq, min(len(nq), 6)):
        h = rng.choice(hints)
        add("hint_name %d %s" % (h, hx(q)))
        if b"\0" not in q:
            add("import byname %d %s" % (h, hx(q)))
    # `Export::symbol()` / `Export::forward()` of a lookup's answer: every entry of the address table (symbols,
    # forwarders, holes, one beyond), every hint, the member names, the ordinals around the base
    for i in list(range(n)) + [n, nfn]:
        add("symfwd index %d" % i)
    for h in list(range(m)) + [m]:
        add("symfwd hint %d" % h)
    for o in sorted(set((base + i) & 0xFFFF for i in (-1, 0, 1, n - 1, n))):
        add("symfwd ordinal %d" % o)
    for h, nm in members:
        add("symfwd name %s" % hx(nm))
    add("symfwd name %s" % hx(b"nonexistent"))
    return out


def case_for(rng, b, frac=1.0):
    cases = []
    for mode in ("file", "view"):
        buf = b.data if mode == "file" else b.view
        if buf is None:
            continue
        k = ("f%d" if mode == "file" else "v%d") % b.bits
        kw = "wf" if mode == "file" else "wv"
        if mode == "view" and rng.random() < 0.25:
            base = rng.choice([0, 0x1000, 0xFFFFF000, 0xFFFFFFFF, (1 << 64) - 0x2000, (1 << 64) - 1]) & ((1 << b.bits) - 1)
            k = "%s@0x%x" % (k, base)
        case = [img_line(rng, buf), "exports %s dump" % k, "exports %s dump" % kw, "exports %s by" % k, "exports %s by" % kw]
        case += queries(rng, b.d, k, kw, b.d.hdr, frac)
        cases.append(case)
    return cases


def gen_exports(rng, tier):
    """random directories, each with at most two corruptions"""
    cases = []
    nimg = 250 if tier == "quick" else 4000
    for i in range(nimg):
        d = rand_dir(rng)
        mut = {}
        r = rng.random()
        nm = 0 if r < 0.35 else (1 if r < 0.8 else 2)
        for _ in range(nm):
            mut.update(mutations(rng, d))
        b = build_image(rng, d, mut=mut)
        cases += case_for(rng, b)
    return cases


def gen_exports_shapes(rng, tier):
    """the table shapes of the property statement, each explicitly (not left to chance)"""
    cases = []

    def mk(fns, names, base=1, over=None, mut=None, bits=None, dll=b"demo.dll"):
        d = ExpDir()
        d.fns, d.names, d.base, d.dll = list(fns), list(names), base, dll
        d.over = dict(over or {})
        d.mode = "explicit"
        b = build_image(rng, d, bits=bits, mut=dict(mut or {}))
        cases.extend(case_for(rng, b))

    F = [0x1010, 0, ("fwd", b"NTDLL.RtlFree"), 0x1020, 0x1030, ("fwd", b"x.#1")]
    sorted_names = [(b"Alpha", 0), (b"Beta", 2), (b"Delta", 3), (b"Gamma", 1), (b"Zeta", 5)]
    for bits in (32, 64):
        mk(F, sorted_names, bits=bits)
        mk([], [], bits=bits)                                               # empty directory
        mk(F, [], bits=bits)                                                # ordinals only
        mk(F, [(b"Gamma", 1), (b"Alpha", 0), (b"Zeta", 5), (b"Beta", 2)])   # unsorted
        mk(F, [(b"Alpha", 0), (b"Alpha", 3), (b"Beta", 2), (b"Beta", 4)])   # duplicates, sorted
        mk(F, [(b"Beta", 2), (b"Alpha", 0), (b"Beta", 4), (b"Alpha", 3)])   # duplicates, unsorted
        mk(F, [(b"", 0), (b"a", 3), (b"a\x01", 4), (b"ab", 5), (b"b", 2)])  # prefixes, empty name
        # --- lookups by name where the answer is NOT a function of the tables (acceptable-answer set) ---
        eight = [b"Alpha", b"Beta", b"Delta", b"Gamma", b"Kappa", b"Omega", b"Sigma", b"Zeta"]
        mk(F, [(nm, i % 6) for i, nm in enumerate(reversed(eight))], bits=bits)          # descending: the binary search misses most names
        mk(F, [(nm, i % 6) for i, nm in enumerate(eight[4:] + eight[:4])], bits=bits)    # rotated: one descent
        mk(F, [(nm, (i * 5) % 6) for i, nm in enumerate([eight[i] for i in (0, 2, 1, 3, 5, 4, 7, 6)])])   # neighbours swapped
        # a duplicated name, sorted: adjacent pair / triple; the copies denote a symbol, a forwarder, a hole, an index beyond the table
        mk(F, [(b"Alpha", 0), (b"Beta", 3), (b"Beta", 2), (b"Gamma", 4)], bits=bits)
        mk(F, [(b"Alpha", 0), (b"Beta", 1), (b"Beta", 3), (b"Beta", 5), (b"Gamma", 4)])  # hole, symbol, forwarder
        mk(F, [(b"Beta", 1), (b"Beta", 1), (b"Beta", 1)])                                # every copy a hole
        mk(F, [(b"Alpha", 6), (b"Alpha", 0), (b"Beta", 0xFFFF), (b"Beta", 2)])           # a copy with an index beyond the address table
        mk(F, [(b"a", 0), (b"a", 3), (b"a", 4), (b"a", 0), (b"a", 2), (b"a", 5), (b"a", 1)])   # one name seven times
        # duplicated AND out of order: the copies on both sides of the probe sequence
        mk(F, [(b"Gamma", 4), (b"Alpha", 0), (b"Gamma", 3), (b"Beta", 2), (b"Alpha", 5), (b"Gamma", 1)], bits=bits)
        mk(F, [(b"Zeta", 0), (b"Alpha", 3), (b"Zeta", 2), (b"Alpha", 4), (b"Zeta", 5)])
        # out of order with a name that cannot be read: the search may answer that read's failure
        mk(F, [(b"Gamma", 4), (("rva", 0x10000000), 0), (b"Alpha", 3), (b"Beta", 2)])
        mk(F, [(b"Beta", 2), (b"Alpha", 0), (("rva", 0), 3), (b"Gamma", 4), (b"Delta", 5)])
        # names outnumber the ordinal table / the ordinal table is null: a found name answers Bounds
        mk(F, [(b"Beta", 2), (b"Alpha", 0), (b"Beta", 4)], over={"aor": 0})
        for base in (0, 1, 0xFFFF, 0xFFFC, 0x10000, U32):
            mk(F, sorted_names, base=base)
        for key in ("afn", "anm", "aor"):
            mk(F, sorted_names, over={key: 0})                              # null sub-tables, counts kept
        mk(F, sorted_names, over={"afn": 0, "anm": 0, "aor": 0})
        mk(F, sorted_names, over={"anm": 0, "aor": 0})
        for key in ("nfn", "nnm"):
            for v in (0, 1, 0x200, 0x10000, 0x40000000, U32):
                mk(F, sorted_names, over={key: v})
        for ds in (lambda a, s: 0, lambda a, s: U32, lambda a, s: (1 << 32) - a, lambda a, s: (1 << 32) - a - 1, lambda a, s: 40):
            mk(F, sorted_names, mut={"dir_size": ds})
        # entries on the edges of the directory extent
        mk([("edge", -1), ("edge", 0), ("edge", 1), ("edge_end", -1), ("edge_end", 0), ("edge_end", 1)],
           [(b"a", 0), (b"b", 1), (b"c", 2), (b"d", 3), (b"e", 4), (b"f", 5)])
        # the last string of the blob at the very end of the raw data, with and without terminator
        for cut in (0, 1):
            for vt in (0, 0x40):
                mk(F, sorted_names + [(b"Zz", 4)], mut={"end": "flush", "cut": cut, "vtail": vt})
        for keep in (0, 39, 40, 44, 40 + 24, 40 + 24 + 20, 40 + 24 + 20 + 9):
            mk(F, sorted_names, mut={"end": "short", "keep": keep, "vtail": 1})
        mk(F, sorted_names, mut={"num_rva": 0})
        mk(F, sorted_names, mut={"dir_rva": lambda a, s: 0})
        mk(F, sorted_names, mut={"dir_rva": lambda a, s: a + 2})
        # many names: binary search depth
        many = sorted(set(bytes([65 + (i * 7) % 26, 97 + (i * 3) % 26]) + (b"x" * (i % 3)) for i in range(40)))
        mk([0x1000 + 4 * i for i in range(len(many))], [(nm, i) for i, nm in enumerate(many)])
    return cases


def gen_exports_big(rng, tier):
    """An export directory with 65536 / 65537 names (all name entries point at one string, the ordinal table is all
    zeros): table lengths at the 16-bit boundary, through the format-specific iterators and the wrapper twins of
    wrap/exports.rs (whose hand-written ranges must not narrow the count)."""
    import struct
    from .pe import PE, Section
    from .gen_img import img_line
    cases = []
    for bits, nnm in ((32, 0x10000), (64, 0x10001)) if tier == "quick" else ((32, 0x10000), (64, 0x10000), (32, 0x10001), (64, 0x10001), (32, 0xFFFF)):
        va = 0x1000
        o_dir, o_fn, o_nm = 0, 40, 48
        o_or = o_nm + 4 * nnm
        o_str = o_or + 2 * nnm
        blob = bytearray(o_str + 16)
        blob[o_str:o_str + 2] = b"A\0"
        blob[o_str + 2:o_str + 8] = b"d.dll\0"
        struct.pack_into("<IIHHIIIIIII", blob, 0, 0, 0x5F000000, 0, 0, va + o_str + 2, 1, 2, nnm, va + o_fn, va + o_nm, va + o_or)
        struct.pack_into("<II", blob, o_fn, 0x2000, 0x2004)
        for i in range(nnm):
            struct.pack_into("<I", blob, o_nm + 4 * i, va + o_str)
        size = (len(blob) + 0x1FF) & ~0x1FF
        blob += bytes(size - len(blob))
        pe = PE(bits)
        pe.file_align, pe.section_align = 0x200, 0x1000
        pe.sections = [Section(name=b".edata", va=va, vs=size, prd=0x400, rs=size, chars=0x40000040, data=bytes(blob))]
        pe.dirs[0] = (va, o_str + 16)
        data = pe.build()
        kf = "f%d" % bits
        case = [img_line(rng, data, 0, "e"), "from_bytes " + kf, "from_bytes wf"]
        for k, pre in ((kf, ""), ("wf", "w")):
            for so in ("exp_indices", "exp_names", "exports"):
                for h in ("count", "len,nth:0xfffe,next,next,next,count", "nth:0xffff,next,hint", "hint,next,hint"):
                    case.append("iter %s %s%s %s" % (k, pre, so, h))
        # (only the iterator histories: the model's lookups over 65536 names take a minute, the table lengths at the
        # 16-bit boundary matter for the iterators' ranges)
        cases.append(case)
    return cases


def parse_names(data):
    """names of a well-formed file's export directory (corpus only; used to pick queries)"""
    try:
        e = struct.unpack_from("<I", data, 0x3C)[0]
        magic = struct.unpack_from("<H", data, e + 24)[0]
        bits = 64 if magic == 0x20B else 32
        opt = e + 24
        dd = opt + (112 if bits == 64 else 96)
        nsec = struct.unpack_from("<H", data, e + 6)[0]
        soh = struct.unpack_from("<H", data, e + 20)[0]
        secs = [struct.unpack_from("<IIII", data, opt + soh + 40 * i + 8) for i in range(nsec)]

        def off(rva):
            for vs, va, rs, prd in secs:
                if va <= rva < va + max(vs, rs):
                    return rva - va + prd
            return None
        rva, size = struct.unpack_from("<II", data, dd)
        o = off(rva)
        if o is None:
            return bits, []
        nnm, anm = struct.unpack_from("<I", data, o + 24)[0], struct.unpack_from("<I", data, o + 32)[0]
        out = []
        for i in range(min(nnm, 64)):
            no = off(struct.unpack_from("<I", data, off(anm) + 4 * i)[0])
            end = data.index(b"\0", no)
            out.append(data[no:end])
        return bits, out
    except Exception:
        return 32, []


def gen_exports_corpus(rng, tier):
    """the repository's own binaries"""
    cases = []
    for fn, data in corpus_files():
        if len(data) > 200000 and tier == "quick":
            continue
        bits, names = parse_names(data)
        k = "f%d" % bits
        case = [img_line(rng, data, 0, "e"), "exports %s dump" % k, "exports wf dump", "exports %s by" % k, "exports wf by"]
        for h, nm in enumerate(names[:24]):
            for kk in (k, "wf"):
                case.append("export %s symfwd name %s" % (kk, hx(nm)))
                case.append("export %s symfwd hint %d" % (kk, h))
                case.append("export %s name %s" % (kk, hx(nm)))
                case.append("export %s name_linear %s" % (kk, hx(nm)))
                case.append("export %s hint_name %d %s" % (kk, h, hx(nm)))
                case.append("export %s hint_name 0 %s" % (kk, hx(nm)))
                case.append("export %s import byname %d %s" % (kk, h, hx(nm)))
                case.append("export %s get name %s" % (kk, hx(nm)))
            case.append("export %s proc name %s" % (k, hx(nm)))
            case.append("export %s name %s" % (k, hx(nm + b"x")))
            case.append("export %s name %s" % (k, hx(nm[:-1])))
        for i in range(0, 26):
            case.append("export %s ordinal %d" % (k, i))
            case.append("export %s index %d" % (k, i))
            case.append("export %s hint %d" % (k, i))
            case.append("export %s name_lookup %d" % (k, i))
            case.append("export %s name_of_hint %d" % (k, i))
            case.append("export %s proc ordinal %d" % (k, i))
            case.append("export %s symfwd index %d" % (k, i))
            case.append("export wf symfwd ordinal %d" % i)
        cases.append(case)
    return cases


def gen_exports_nulltables(rng, tier):
    """Null sub-tables next to absurd declared counts (a null table is an EMPTY table whatever the header's count
    says), through the format-specific iterators and the wrapper twins: the number of items an iterator yields
    is bounded by the tables that exist, never by the declared count."""
    from .gen_img import img_line
    cases = []
    F = [0x1010, 0, ("fwd", b"NTDLL.RtlFree"), 0x1020]
    names = [(b"Alpha", 0), (b"Beta", 2), (b"Gamma", 3)]
    overs = [{"anm": 0, "aor": 0, "nnm": U32}, {"anm": 0, "aor": 0, "nnm": 0x10000}, {"afn": 0, "nfn": U32},
             {"afn": 0, "anm": 0, "aor": 0, "nfn": 0x40000000, "nnm": U32}, {"anm": 0, "nnm": 0x80000000}, {"aor": 0, "nnm": U32}]
    for bits in (32, 64):
        for over in overs if tier != "quick" else rng.sample(overs, 4):
            d = ExpDir()
            d.fns, d.names, d.base, d.dll = list(F), list(names), 1, b"demo.dll"
            d.over = dict(over)
            d.mode = "explicit"
            b = build_image(rng, d, bits=bits, mut={})
            for kind, buf in (("f", b.data), ("v", b.view)):
                if buf is None:
                    continue
                k, w = "%s%d" % (kind, bits), "w" + kind
                case = [img_line(rng, buf), "from_bytes " + k, "from_bytes " + w]
                for kk, pre in ((k, ""), (w, "w")):
                    for so in ("exp_indices", "exp_names", "exports"):
                        for h in ("count", "hint,next,hint,next,len", "nth:0xfffe,next,count"):
                            case.append("iter %s %s%s %s" % (kk, pre, so, h))
                cases.append(case)
    return cases
