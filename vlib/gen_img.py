"""Generators for the image-based families (C04, C05, C07 ...)."""
import struct
from .pe import PE, Section, simple_pe, rand_bytes

U32 = 0xFFFFFFFF


def img_line(rng, data, al=None, flush=None):
    al = rng.choice([0, 4, 8, 12]) if al is None else al
    flush = rng.choice("se") if flush is None else flush
    return "img %d %s %s" % (al, flush, data.hex() if data else "-")


def adversarial_sections(rng, pe, file_len):
    """mutate the section table: overlaps, wrap-around, raw data outside the buffer, unaligned"""
    for s in pe.sections:
        r = rng.random()
        if r < 0.12:
            s.va = rng.choice([0, 1, U32, U32 - 0x100, 0xFFFFF000, s.va + 1, s.va - 1 if s.va else 0])
        elif r < 0.24:
            s.vs = rng.choice([0, 1, U32, U32 - s.va + 1 & U32, 0x80000000, s.vs + 1])
        elif r < 0.36:
            s.rs = rng.choice([0, 1, U32, 0x80000000, (U32 - s.prd + 1) & U32, file_len, max(0, file_len - s.prd), max(0, file_len - s.prd + 1), s.rs + 1])
        elif r < 0.48:
            s.prd = rng.choice([0, 1, U32, file_len, max(0, file_len - 1), max(0, file_len - s.rs), max(0, file_len - s.rs + 1), s.prd + 1, 3])
    if len(pe.sections) >= 2 and rng.random() < 0.3:
        a, b = pe.sections[0], pe.sections[1]
        which = rng.random()
        if which < 0.35:
            b.va = a.va + rng.choice([0, 1, max(a.vs, 1) - 1])          # overlapping virtual ranges
        elif which < 0.7:
            b.prd = a.prd + rng.choice([0, 1, max(a.rs, 1) - 1])        # overlapping raw ranges
        else:
            pe.sections[0], pe.sections[1] = b, a                        # unsorted table


def edge_points(pe, lay, file_len):
    rv, fo = set([0, 1, 2, U32, U32 - 1, 0x80000000]), set([0, 1, U32, file_len - 1, file_len, file_len + 1])
    for x in (lay["size_of_headers"], lay["size_of_image"]):
        for d in (-1, 0, 1):
            rv.add((x + d) & U32); fo.add((x + d) & U32)
    for s in pe.sections:
        for base, ext in ((s.va, (0, s.rs, s.vs, max(s.vs, s.rs))),):
            for e in ext:
                for d in (-1, 0, 1):
                    rv.add((base + e + d) & U32)
        for e in (0, s.rs, s.vs):
            for d in (-1, 0, 1):
                fo.add((s.prd + e + d) & U32)
    return sorted(rv), sorted(fo)


# `min_size_of` values beyond any buffer: 2^32, 2^63, 2^64 - 1 (usize::MAX) and their neighbours
BIG_MINS = (1 << 32, (1 << 32) + 1, 1 << 63, (1 << 63) - 1, (1 << 64) - 1, (1 << 64) - 2)


def big_offsets(rng, pe, lay, k):
    """`f2r` with file offsets >= 2^32 (the argument is a usize; NOT an RVA: the protocol lint leaves it alone)"""
    xs = [0, 1, lay["size_of_headers"] - 1, lay["size_of_headers"]]
    for s in pe.sections:
        xs += [s.prd, s.prd + 1, s.prd + max(s.rs, 1) - 1, s.prd + s.rs]
    xs = sorted(set(x & U32 for x in xs if x >= 0))
    out = []
    for x in xs:
        out.append("f2r %s 0x%x" % (k, (1 << 32) + x))
    for x in rng.sample(xs, min(3, len(xs))):
        out.append("f2r %s 0x%x" % (k, (rng.choice([2, 0x7FFFFFFF, 0xFFFFFFFF]) << 32) + x))
        out.append("f2r %s 0x%x" % (k, (1 << 63) + x))
    out.append("f2r %s 0x%x" % (k, (1 << 64) - 1))
    return out


def gen_c04(rng, tier):
    cases = []
    nimg = 40 if tier == "quick" else 1500
    for n in range(nimg):
        pe = simple_pe(rng)
        bss = make_bss(rng, pe) if rng.random() < 0.25 else None
        data = pe.build()
        if rng.random() < 0.55:
            adversarial_sections(rng, pe, len(data))
            if rng.random() < 0.3:
                pe.file_len = max(pe.layout["size_of_headers"], len(data) - rng.choice([0, 1, 0x10, 0x100, 0x200]))
            data = pe.build()
        lay = pe.layout
        kf = "f%d" % pe.bits
        ks = [kf] + (["wf"] if rng.random() < 0.3 else [])
        case = [img_line(rng, data), "from_bytes " + kf]
        rvas, offs = edge_points(pe, lay, len(data))
        rvas += [rng.randrange(0, max(lay["size_of_image"], 1) + 0x100) for _ in range(6)]
        offs += [rng.randrange(0, len(data) + 0x10) for _ in range(6)]
        for k in ks:
            for rva in rvas:
                case.append("r2f %s 0x%x" % (k, rva))
                case.append("slice %s 0x%x 1 1" % (k, rva))
                case.append("slice %s 0x%x 0 %d" % (k, rva, rng.choice([1, 2, 4, 8, 16])))
                case.append("slice_bytes %s 0x%x" % (k, rva & U32))
                if k == kf:
                    case.append("read_bytes %s 0x%x" % (k, (pe.image_base + rva) & ((1 << pe.bits) - 1)))
                    # the VA entry point with an alignment request (the buffer itself is skewed by the img line:
                    # what counts is the address of the byte, not the RVA), next to the RVA entry point
                    d = rng.choice([0, 1, 2, 4, 6])
                    for al in (2, 4, 8):
                        mn = rng.choice([0, 1, al])
                        case.append("read %s 0x%x %d %d" % (k, (pe.image_base + rva + d) & ((1 << pe.bits) - 1), mn, al))
                        case.append("slice %s 0x%x %d %d" % (k, (rva + d) & U32, mn, al))
            for fo in offs:
                case.append("f2r %s 0x%x" % (k, fo))
            # file offsets that do not fit 32 bits (`file_offset as Rva`, pe.rs:136 / 152, must never be reached
            # with a truncated offset): 2^32 + x, 2^63 + x, 2^64 - 1 with x inside the headers and inside raw data
            case += big_offsets(rng, pe, lay, k)
            # (min_size, align) requests around the remaining length of each section
            for s in pe.sections:
                for so in (0, 1, s.rs // 2, max(s.rs, 1) - 1, s.rs, s.rs + 1, s.vs):
                    rem = s.rs - so
                    for mn in (rem - 1, rem, rem + 1, 0, U32, 1 << 40) + (rng.choice(BIG_MINS),):
                        if mn >= 0:
                            case.append("slice %s 0x%x %d %d" % (k, (s.va + so) & U32, mn, rng.choice([1, 1, 2, 4, 8])))
                if k == kf:
                    for mn in BIG_MINS:
                        case.append("read %s 0x%x %d 1" % (k, (pe.image_base + s.va) & ((1 << pe.bits) - 1), mn))
            # a sentinel-terminated array whose terminator is the very last element of the stored bytes (the usable
            # extent ends WITH the last stored element, not one before it)
            for s in pe.sections:
                if s.data is not None and len(s.data) >= s.rs >= 16:
                    for w_ in (1, 2, 4, 8):
                        if s.rs % w_ == 0:
                            sent = int.from_bytes(s.data[s.rs - w_:s.rs], "little")
                            case.append("derva_slice_s %s u%d 0x%x %d" % (k, 8 * w_, (s.va + s.rs - w_ * rng.choice([1, 2, 3])) & U32, sent))
            for i in range(len(pe.sections) + 1):
                case.append("secbytes %s %d" % (k, i))
            # "a request for more bytes than that never succeeds": typed arrays whose elements are larger than
            # their alignment (8/4, 40/4, 16/1), requested a few bytes before the end of the stored bytes
            for s in pe.sections:
                for ty, sz in (("dd", 8), ("sh", 40), ("b16", 16)):
                    for ln in (1, 2, 3):
                        for back in (sz * ln, sz * ln - 4, sz * ln - sz // 2):
                            if 0 < back <= s.rs:
                                case.append("derva_slice %s %s 0x%x %d" % (k, ty, (s.va + s.rs - back) & U32, ln))
                    # the by-value copy of a composite type needs ALL its bytes (round-6 change C01-r6-3 asked `slice` for
                    # align_of bytes only and copied size_of): a few bytes before the end of the stored bytes
                    for back in (sz, sz - 1, sz - 4, sz // 2, 4, 1):
                        if 0 < back <= s.rs:
                            case.append("derva_copy %s %s 0x%x" % (k, ty, (s.va + s.rs - back) & U32))
                            case.append("deref_copy %s %s 0x%x" % (k, ty, (pe.image_base + s.va + s.rs - back) & ((1 << pe.bits) - 1)))
                    # element counts whose byte size does not fit a usize (the request must fail with Overflow, through the
                    # rva and through the va entry point; round-6 change C04-r6-2 let the product wrap to a few bytes)
                    if s.rs >= sz:
                        for ln in ((1 << 64) // sz + 1, (1 << 64) // sz + 2, (1 << 63) // sz * 2 + 1):
                            case.append("derva_slice %s %s 0x%x %d" % (k, ty, s.va & U32, ln))
                            case.append("deref_slice %s %s 0x%x %d" % (k, ty, (pe.image_base + s.va) & ((1 << pe.bits) - 1), ln))
        # the same table seen as a mapped view (get_section_bytes on views; the header-arithmetic conversions
        # `rva_to_file_offset` / `file_offset_to_rva` are offered by views as well)
        kv = "v%d" % pe.bits
        for i in range(len(pe.sections)):
            case.append("secbytes %s %d" % (kv, i))
        for rva in rvas:
            case.append("r2f %s 0x%x" % (kv, rva))
        for fo in offs:
            case.append("f2r %s 0x%x" % (kv, fo))
        case += big_offsets(rng, pe, lay, kv)[:4]
        for i in range(len(pe.sections)):
            case.append("secbytes wv %d" % i)
        cases.append(case)
        if bss is not None or rng.random() < 0.15:
            # the table over a MAPPED buffer: a view answers with the virtual extent of every section, zero bytes for
            # the part that has no raw data
            view = load_view(pe, data)
            if view is not None:
                case = [img_line(rng, view), "from_bytes " + kv]
                for k in (kv, "wv"):
                    for i in range(len(pe.sections) + 1):
                        case.append("secbytes %s %d" % (k, i))
                    for s in pe.sections:
                        case.append("slice_bytes %s 0x%x" % (k, s.va & U32))
                        case.append("slice %s 0x%x %d 1" % (k, s.va & U32, s.vs))
                cases.append(case)
    # public API argument outside its (undocumented) domain: alignment that is not a power of two
    pe = simple_pe(rng, nsec=2)
    data = pe.build()
    kf = "f%d" % pe.bits
    cases.append([img_line(rng, data, 0, "e"), "slice %s 0x%x 0 3" % (kf, pe.sections[0].va), "slice %s 0x%x 0 0" % (kf, pe.sections[0].va)])
    return cases


def gen_c04_firstmatch(rng, tier):
    """The first-match rule under stress: two or three sections whose virtual extents overlap (identical,
    nested either way, partial), the FIRST of them defective in one way (raw data outside the buffer by one
    byte / entirely / wrapping, no raw data, raw data shorter than the overlap) and a later one sane.  A
    lookup must answer for the first section containing the rva, whatever the later ones would say."""
    cases = []
    shapes = ["same", "b_in_a", "a_in_b", "partial", "three"]
    defects = ["none", "raw_past_1", "raw_past_all", "raw_wrap", "raw_zero", "raw_short", "vs_zero", "prd_in_headers"]
    combos = [(b, sh, df) for b in (32, 64) for sh in shapes for df in defects]
    if tier == "quick":
        combos = rng.sample(combos, 24)
    for bits, shape, defect in combos:
        pe = PE(bits)
        pe.file_align, pe.section_align = 0x200, 0x1000
        mk = lambda name, va, vs, prd, rs: Section(name=name, va=va, vs=vs, prd=prd, rs=rs, data=rand_bytes(rng, rs if rs < 0x1000 else 0x200))
        a = mk(b".a", 0x1000, 0x400, 0x400, 0x400)
        if shape == "same":
            others = [mk(b".b", 0x1000, 0x400, 0x800, 0x400)]
        elif shape == "b_in_a":
            others = [mk(b".b", 0x1100, 0x100, 0x800, 0x200)]
        elif shape == "a_in_b":
            a = mk(b".a", 0x1100, 0x100, 0x400, 0x200)
            others = [mk(b".b", 0x1000, 0x400, 0x800, 0x400)]
        elif shape == "partial":
            others = [mk(b".b", 0x1200, 0x400, 0x800, 0x400)]
        else:
            others = [mk(b".b", 0x1000, 0x300, 0x800, 0x400), mk(b".c", 0x1080, 0x600, 0xC00, 0x600)]
        pe.sections = [a] + others
        data = pe.build()
        L = len(data)
        if defect == "raw_past_1":
            a.prd, a.rs, a.data = L - a.rs + 1, a.rs, None
        elif defect == "raw_past_all":
            a.prd, a.data = L + 0x200, None
        elif defect == "raw_wrap":
            a.prd, a.rs, a.data = 0xFFFFFF00, 0x200, None
        elif defect == "raw_zero":
            a.rs, a.data = 0, None
        elif defect == "raw_short":
            a.rs, a.data = 0x80, a.data[:0x80]
        elif defect == "vs_zero":
            a.vs = 0
        elif defect == "prd_in_headers":
            a.prd, a.data = 0x10, None
        pe.file_len = L
        data = pe.build()
        lay = pe.layout
        kf = "f%d" % bits
        case = [img_line(rng, data), "from_bytes " + kf]
        rvas, offs = edge_points(pe, lay, len(data))
        for k in [kf] + (["wf"] if rng.random() < 0.3 else []):
            for rva in rvas:
                case.append("r2f %s 0x%x" % (k, rva))
                case.append("slice %s 0x%x 1 1" % (k, rva))
                case.append("slice_bytes %s 0x%x" % (k, rva & U32))
                if k == kf:
                    case.append("read %s 0x%x 1 1" % (k, pe.image_base + rva))
                    case.append("read_bytes %s 0x%x" % (k, pe.image_base + rva))
            for fo in offs:
                case.append("f2r %s 0x%x" % (k, fo))
            for i in range(len(pe.sections) + 1):
                case.append("secbytes %s %d" % (k, i))
        cases.append(case)
    return cases


def gen_c04_manysec(rng, tier):
    """Section tables at the limit `validate_headers` accepts (96): 95, 96 sections resolved through every
    entry — the first, the last, the last but one and a sample in between — and 97 (rejected).  Small
    sections (FileAlignment 0x20) keep the image a few KiB."""
    cases = []
    combos = [(b, n) for b in (32, 64) for n in (95, 96, 97)]
    for bits, nsec in combos:
        pe = PE(bits)
        fa, sa = 0x20, rng.choice([0x20, 0x40, 0x1000])
        pe.file_align, pe.section_align = fa, sa
        pe.e_lfanew = rng.choice([0x40, 0x48, 0x80])
        hdr_end = pe.e_lfanew + 24 + pe.opt_size() + 8 * 16 + 40 * nsec
        prd = (hdr_end + fa - 1) // fa * fa
        va = max(sa, (prd + sa - 1) // sa * sa)
        for i in range(nsec):
            rs = rng.choice([0, fa, fa, 2 * fa])
            vs = rng.choice([rs, rs, max(0, rs - 3), rs + 5, 0])
            pe.sections.append(Section(name=b".s%d" % i, va=va, vs=vs, prd=prd if rs else 0, rs=rs, data=rand_bytes(rng, rs)))
            prd += rs
            va += (max(vs, rs, 1) + sa - 1) // sa * sa
        if rng.random() < 0.5 and nsec >= 2:
            # the LAST entry shadowed by the first (first-match rule over the whole table)
            pe.sections[-1].va = pe.sections[0].va
        data = pe.build()
        lay = pe.layout
        kf, kv = "f%d" % bits, "v%d" % bits
        case = [img_line(rng, data), "from_bytes " + kf, "from_bytes wf", "from_bytes " + kv]
        pick = sorted(set([0, 1, nsec - 3, nsec - 2, nsec - 1] + rng.sample(range(nsec), 6)))
        for k in (kf, "wf"):
            for i in pick:
                s = pe.sections[i]
                for e in (0, 1, max(s.rs, 1) - 1, s.rs, s.vs, max(s.vs, s.rs)):
                    rva = (s.va + e) & U32
                    case.append("r2f %s 0x%x" % (k, rva))
                    case.append("slice %s 0x%x %d 1" % (k, rva, rng.choice([0, 1, fa])))
                    case.append("slice_bytes %s 0x%x" % (k, rva & U32))
                for e in (0, max(s.rs, 1) - 1, s.rs):
                    case.append("f2r %s 0x%x" % (k, (s.prd + e) & U32))
                case.append("secbytes %s %d" % (k, i))
                case.append("byrva %s 0x%x" % (k, s.va))
                case.append("byname %s %s" % (k, s.name.hex()))
            for i in (nsec - 1, nsec, nsec + 1):
                case.append("secbytes %s %d" % (k, i))
        case += ["hdr " + kf, "hdrw wf", "hdrw2 wf", "hdrw2 " + kf]
        cases.append(case)
    return cases


def header_variants(rng, tier):
    """images around every structure end and every limit validate_headers knows"""
    out = []
    n = 120 if tier == "quick" else 4000
    for _ in range(n):
        pe = simple_pe(rng, nsec=rng.choice([0, 1, 2, 3, 96, 97]) if rng.random() < 0.2 else None)
        base = pe.build()
        lay = pe.layout
        r = rng.random()
        if r < 0.12:
            pe.e_lfanew = rng.choice([4, 8, 0x3C, 0x40, 0x44, 0x100, 0x1000, 0x1000000, 0x1000004, 2, 6, 0x41, 0x42, 0xFFFFFFFC])
        elif r < 0.24:
            pe.size_of_optional = rng.choice([0, 1, 2, 3, 4, pe.opt_size(), pe.opt_size() + 8 * 16, pe.opt_size() + 4, pe.opt_size() + 2, 0xFFFC, 0xFFFF, 0x200])
        elif r < 0.34:
            pe.num_rva = rng.choice([0, 1, 15, 16, 17, 0x10000, 0xFFFFFFFF, 0x80000000])
        elif r < 0.44:
            pe.num_sections = rng.choice([0, 1, 95, 96, 97, 0xFFFF, len(pe.sections) + 1])
        elif r < 0.52:
            pe.magic = rng.choice([0x10B, 0x20B, 0x107, 0, 0x10C, 0x20A])
        elif r < 0.58:
            pe.signature = rng.choice([0x4550, 0x4551, 0x00004500, 0x50450000, 0])
        elif r < 0.63:
            pe.e_magic = rng.choice([0x5A4D, 0x4D5A, 0])
        elif r < 0.72:
            pe.size_of_headers = rng.choice([0, 1, lay["size_of_headers"] - 1, len(base), len(base) + 1, 0xFFFFFFFF, lay["size_of_image"], lay["size_of_image"] + 1])
        elif r < 0.78:
            pe.size_of_image = rng.choice([0, 1, lay["size_of_headers"] - 1, lay["size_of_headers"], 0xFFFFFFFF])
        data = pe.build()
        lay = pe.layout
        # lengths around every structure end
        ends = [64, pe.e_lfanew + 4, pe.e_lfanew + 24, pe.e_lfanew + 26, pe.e_lfanew + 120, pe.e_lfanew + 136, lay["nt_end"],
                lay["nt_end"] + 8 * min(pe.num_rva, 16), lay["sec_table"], lay["sec_table"] + 40 * len(pe.sections),
                lay["sec_table"] + 40 * (pe.num_sections if pe.num_sections is not None else len(pe.sections)), lay["size_of_headers"]]
        if rng.random() < 0.5:
            L = rng.choice(ends) + rng.choice([-1, 0, 1, -4, 4])
            if 0 <= L <= len(data) + 0x200 and L < (1 << 20):
                pe.file_len = L
                data = pe.build()
        out.append((pe, data))
    return out


def big_optional_cases(rng, sohs=(0x7FFC, 0x8000, 0x8004, 0xFFFC), both_bits=True):
    """ACCEPTED images whose SizeOfOptionalHeader is large (around the i16 sign bit and at the u16 maximum that keeps
    the table 4-aligned): the section table lies at e_lfanew + 24 + SizeOfOptionalHeader, far behind the optional
    header; the file is long enough for it, SizeOfHeaders stays small.  Every accessor that locates the table follows."""
    cases = []
    for soh_opt in sohs:
        for bits in ((32, 64) if both_bits else (rng.choice([32, 64]),)):
            pe = PE(bits)
            pe.e_lfanew = rng.choice([0x40, 0x80, 0xC8])
            pe.file_align, pe.section_align = 0x200, 0x1000
            pe.size_of_optional = soh_opt
            nsec = rng.choice([1, 2, 3])
            tab_end = pe.e_lfanew + 24 + soh_opt + 40 * nsec
            prd = (tab_end + 0x1FF) // 0x200 * 0x200
            va = (prd + 0xFFF) // 0x1000 * 0x1000
            names = rng.sample([b".text", b".rdata", b".data", b"12345678", b"a\0b", b".rsrc", b"UPX\x001", b"\0\0\0\0tail", b"\xff.bad", b"caf\xc3\xa9", b"1234567\xc3"], nsec)
            for i in range(nsec):
                rs = rng.choice([0x40, 0x200])
                pe.sections.append(Section(name=names[i], va=va, vs=rs + rng.choice([0, 5, 0x100]), prd=prd, rs=rs, data=rand_bytes(rng, rs)))
                prd += 0x200
                va += 0x1000
            pe.size_of_headers = rng.choice([0x200, 0x400, pe.e_lfanew + 24 + pe.opt_size() + 8 * 16])
            pe.base_of_code, pe.size_of_code = pe.sections[0].va, pe.sections[0].vs
            data = pe.build()
            kf, kv = "f%d" % bits, "v%d" % bits
            case = [img_line(rng, data, rng.choice([0, 4, 8, 12]), "e")]
            for k in ("f32", "f64", "v32", "v64", "wf", "wv"):
                case.append("from_bytes " + k)
            for k in (kf, "wf", kv, "wv"):
                case += ["hdr " + k, "hdrw " + k, "hdrw2 " + k]
                for i in range(nsec + 1):
                    case.append("secbytes %s %d" % (k, i))
                for i in range(nsec + 1):
                    case.append("secname %s %d" % (k, i))
                for sct in pe.sections:
                    case.append("byname %s %s" % (k, sct.name.hex()))
                    for d in (-1, 0, 1):
                        case.append("byrva %s 0x%x" % (k, (sct.va + d) & U32))
                        case.append("byrva %s 0x%x" % (k, (sct.va + max(sct.vs, sct.rs) + d) & U32))
                case.append("byname %s %s" % (k, b".none".hex()))
            for sct in pe.sections:
                for k in (kf, "wf"):
                    case += ["r2f %s 0x%x" % (k, sct.va + 1), "slice %s 0x%x 1 1" % (k, sct.va + 1), "f2r %s 0x%x" % (k, sct.prd + 1)]
            cases.append(case)
    return cases


def gen_c07(rng, tier):
    cases = big_optional_cases(rng, sohs=(rng.choice([0x7FFC, 0x8000, 0x8004, 0xFFFC]),), both_bits=False)
    for pe, data in header_variants(rng, tier):
        al = rng.choice([0, 4, 8, 12, 0, 4, 8, 12, 1, 2, 6])
        lay = pe.layout
        case = [img_line(rng, data, al)]
        for k in ("f32", "f64", "v32", "v64", "wf", "wv"):
            case.append("from_bytes " + k)
        ks = ["f%d" % pe.bits, "v%d" % pe.bits, "wf", "wv"]
        for k in ks:
            case.append("hdr " + k)
            case.append("hdrw " + k)
            case.append("hdrw2 " + k)
        # `image_base()` of a relocated view is the overridden base, every other accessor is unaffected
        M = (1 << pe.bits) - 1
        for b in rng.sample([0, 1, 0x1000, 0x10000, 0x7FFE0000, 0xFFFFF000, 0xFFFFFFFF, 0x100000000 & M, 0x7FF700000000 & M, M - 0xFFF, M], 3):
            case.append("hdr v%d@0x%x" % (pe.bits, b))
            case.append("hdrw2 v%d@0x%x" % (pe.bits, b))
        # `slice_bytes` through the specific constructor and through the wrapper on the same image (file and view kind)
        sb = set([0, 1, 0x3C, lay["size_of_headers"] - 1 & U32, lay["size_of_headers"] & U32, lay["size_of_image"] - 1 & U32, lay["size_of_image"] & U32, U32])
        for s in pe.sections[:2]:
            for e in (0, 1, s.rs - 1, s.rs, s.vs):
                sb.add((s.va + e) & U32)
        for r in sorted(sb):
            for k in ks:
                case.append("slice_bytes %s 0x%x" % (k, r & U32))
            case.append("read_bytes %s 0x%x" % (ks[0], (pe.image_base + r) & M))
            # (min, align) with min != align through the specific constructors and both arms of `Wrap::slice`
            mn_, al_ = rng.choice(MIN_ALIGN)
            for k in ks:
                case.append("slice %s 0x%x %d %d" % (k, r & U32, mn_, al_))
        k = ks[0]
        names = set([b".text", b".rsrc", b"12345678", b"123456789", b"", b"a", b"a\0b", b".text\0\0\0", b".tex"])
        for s in pe.sections[:4]:
            names.add(s.name); names.add(s.name[:3]); names.add(s.name + b"\0")
            for d in (-1, 0, 1):
                case.append("byrva %s 0x%x" % (k, (s.va + d) & U32))
                case.append("byrva %s 0x%x" % (k, (s.va + s.vs + d) & U32))
        for nm in sorted(names):
            case.append("byname %s %s" % (rng.choice(ks), nm.hex() if nm else "-"))
        # `name()` / `name_bytes()` of every entry (interior NULs stay, trailing ones go, no UTF-8: the raw bytes)
        for i in range(min(len(pe.sections), 6) + 1):
            case.append("secname %s %d" % (rng.choice(ks), i))
        cases.append(case)
    # section extents that reach or pass 2^32 (the range accessors wrap like the lookups do)
    for bits in (32, 64):
        pe = PE(bits)
        pe.file_align, pe.section_align = 0x200, 0x1000
        pe.sections = [Section(b".text", va=0x1000, vs=0x200, prd=0x200, rs=0x200, data=rand_bytes(rng, 0x200)),
                       Section(b".wrapv", va=0xFFFFF000, vs=0x2000, prd=0x400, rs=0, data=b""),
                       Section(b".wrapf", va=0x3000, vs=0x10, prd=0xFFFFFF00, rs=0x200, data=None),
                       Section(b".end", va=0xFFFFF000, vs=0x1000, prd=0xFFFFFE00, rs=0x200, data=None),
                       Section(b".max", va=rng.choice([0xFFFFFFFF, 0x80000000]), vs=0xFFFFFFFF, prd=0xFFFFFFFF, rs=0xFFFFFFFF, data=None)]
        pe.size_of_image = 0x4000
        data = pe.build()
        case = [img_line(rng, data)]
        for k in ("f%d" % bits, "v%d" % bits, "wf"):
            case.append("from_bytes " + k)
            for i in range(6):
                case.append("secname %s %d" % (k, i))
            for r in (0xFFFFF000, 0xFFFFFFFF, 0, 0xFFF, 0x1000, 0x3000, 0x300F, 0x3010, 0x80000000):
                case.append("byrva %s 0x%x" % (k, r))
        cases.append(case)
    # tiny buffers
    for L in (0, 1, 63, 64, 65):
        cases.append([img_line(rng, b"MZ" + bytes(max(0, L - 2)) if L >= 2 else bytes(L), 0), "from_bytes f32", "from_bytes f64", "from_bytes wf", "from_bytes wv"])
    return cases


def corpus_files():
    import os
    out = []
    for fn in ("/repo/demo/Demo.dll", "/repo/demo/Demo64.dll"):
        if os.path.exists(fn):
            out.append((fn, open(fn, "rb").read()))
    d = "/repo/tests/tiny"
    if os.path.isdir(d):
        for fn in sorted(os.listdir(d)):
            out.append((os.path.join(d, fn), open(os.path.join(d, fn), "rb").read()))
    return out


def gen_c07_corpus(rng, tier):
    """the repository's own binaries through all six constructors and the header accessors"""
    cases = []
    for fn, data in corpus_files():
        for al, fl in ((0, "e"), (4, "s"), (8, "e"), (12, "e")) if len(data) < 4096 or tier != "quick" else ((0, "e"), (4, "e")):
            case = [img_line(rng, data, al, fl)]
            for k in ("f32", "f64", "v32", "v64", "wf", "wv"):
                case += ["from_bytes " + k, "hdr " + k, "hdrw " + k, "hdrw2 " + k]
            case += ["hdr v32@0x10000", "hdr v64@0xffffffffffff0000", "hdrw2 v32@0xffffffff", "hdrw2 v64@0x1"]
            cases.append(case)
    # overlays / truncations that leave 1..3 non-zero bytes after the last whole dword (the checksum's tail)
    files = corpus_files()
    small = [(fn, d) for fn, d in files if len(d) < 4096] or files
    picks = small if tier != "quick" else rng.sample(small, min(6, len(small)))
    for fn, data in picks + [x for x in files if len(x[1]) >= 4096][:2]:
        for t in (1, 2, 3):
            tail = bytes(rng.choice([0x01, 0x80, 0xFF, rng.randrange(1, 256)]) for _ in range(t))
            body = data[:len(data) & ~3]
            case = [img_line(rng, body + tail, rng.choice([0, 4, 8]), "e")]
            for k in ("f32", "f64", "wf"):
                case += ["hdr " + k, "hdrw " + k, "hdrw2 " + k]
            cases.append(case)
    # the carry of the TAIL dword: a running sum whose low half is close to 2^32 when the 1..3 tail bytes are added
    # (the second fold in `check_sum`, never executed by real files: found by the line-coverage run of the streams)
    for fn, data in picks[:4]:
        body = data[:len(data) & ~3]
        low = _running_checksum(body) & 0xFFFFFFFF
        for t, tail in ((3, b"\xff\xff\xff"), (1, b"\xff"), (2, b"\x00\x80")):
            tv = int.from_bytes(tail, "little")
            for target in (0xFFFFFFFF, 0x100000000 - tv, 0xFFFFFFFF - tv, 0x100000000 - tv + 1):
                x = (target - low) % 0xFFFFFFFF or 1        # one more dword that brings the low half to `target` (mod 2^32-1 arithmetic)
                case = [img_line(rng, body + struct.pack("<I", x & 0xFFFFFFFF) + tail, rng.choice([0, 4, 8]), "e")]
                for k in ("f32", "f64", "wf"):
                    case += ["hdr " + k, "hdrw2 " + k]
                cases.append(case)
    return cases


def _running_checksum(body):
    """the 32-bit end-around-carry sum of the dwords of `body` except the CheckSum field (generator helper: only used
    to AIM the inputs, never as an oracle)"""
    e = struct.unpack_from("<I", body, 60)[0] if len(body) >= 64 else 0
    pos = (e + 24 + 64) // 4
    s = 0
    for i in range(len(body) // 4):
        if i == pos:
            continue
        s = (s & 0xFFFFFFFF) + struct.unpack_from("<I", body, 4 * i)[0] + (s >> 32)
        if s > 0xFFFFFFFF:
            s = (s & 0xFFFFFFFF) + (s >> 32)
    return s


def load_view(pe, data):
    """reference-free helper for the generators: lay the file out as a mapped image (sections at
    their virtual addresses); used only to have *some* mapped-looking buffers, never as an oracle"""
    lay = pe.layout
    soi = lay["size_of_image"]
    if soi > (1 << 22):
        return None
    out = bytearray(soi)
    n = min(lay["size_of_headers"], len(data), soi)
    out[:n] = data[:n]
    for s in pe.sections:
        k = min(s.vs, s.rs)
        if s.va + k <= soi and s.prd + k <= len(data):
            out[s.va:s.va + k] = data[s.prd:s.prd + k]
    return bytes(out)


def plant(rng, pe):
    """put interesting content into section data: C strings with and without terminator at the
    end of the raw data, sentinel-terminated arrays, length-prefixed wide strings"""
    for s in pe.sections:
        if not s.rs:
            continue
        d = bytearray(s.data)
        n = len(d)
        for _ in range(rng.randrange(1, 6)):
            pos = rng.randrange(0, n)
            kind = rng.random()
            if kind < 0.4:
                txt = bytes(rng.choice(b"abcXYZ09_.") for _ in range(rng.randrange(0, 12))) + b"\0"
                d[pos:pos + len(txt)] = txt[:max(0, n - pos)]
            elif kind < 0.7:
                w = rng.choice([1, 2, 4, 8])
                pos -= pos % w
                cnt = rng.randrange(0, 6)
                arr = b"".join((rng.randrange(1, 1 << (8 * w))).to_bytes(w, "little") for _ in range(cnt)) + bytes(w)
                d[pos:pos + len(arr)] = arr[:max(0, n - pos)]
            else:
                pos -= pos % 2
                cnt = rng.randrange(0, 5)
                ws = struct.pack("<H", cnt) + bytes(rng.randrange(256) for _ in range(2 * cnt))
                d[pos:pos + len(ws)] = ws[:max(0, n - pos)]
        # tail of the raw data: no terminator in half of the cases
        if rng.random() < 0.5 and n >= 4:
            d[n - 4:n] = b"wxyz" if rng.random() < 0.5 else b"wx\0\0"
        s.data = bytes(d[:n])


def _elems_at(pe, r, w, cnt=4):
    """(the first elements of width w planted at rva r, number of stored bytes from r to the end of its section)"""
    for s in pe.sections:
        if s.data and s.va <= r < s.va + len(s.data):
            o = r - s.va
            d = s.data[o:o + w * cnt]
            return [int.from_bytes(d[i:i + w], "little") for i in range(0, len(d) - w + 1, w)], max(0, min(s.rs, len(s.data)) - o)
    return [], 0


def slice_f_preds(rng, pe, r, w, k=2):
    """callables for `derva_slice_f` / `deref_slice_f` at rva r, element width w: the stateful `count:<n>` for n in
    0 .. window/w + 2 (window = the stored bytes from r on: the last values make the scan run off the end) and the
    stateless `ge:<x>` with x around the values planted there"""
    vals, window = _elems_at(pe, r, w)
    nmax = window // w
    counts = sorted(set([0, 1, 2, 3, max(nmax - 1, 0), nmax, nmax + 1, nmax + 2]))
    xs = set([0, 1, (1 << (8 * w)) - 1, 1 << (8 * w - 1)])
    for v in vals:
        xs.update([v, v + 1, max(v - 1, 0)])
    if vals:
        xs.add(max(vals) + 1)
    xs = sorted(x for x in xs if x < (1 << 64))
    return ["count:%d" % n for n in rng.sample(counts, min(k, len(counts)))] + ["ge:0x%x" % x for x in rng.sample(xs, min(k, len(xs)))]


# (min_size, align) with min != align: an implementation that confuses the two arguments answers differently
MIN_ALIGN = [(8, 1), (1, 8), (3, 2), (2, 4), (16, 2), (4, 1), (1, 4), (0, 8), (5, 4), (32, 16)]


def gen_partial_slot(rng, tier):
    """Unterminated sentinel arrays that end in a PARTIAL slot: the window's length is not a multiple of the
    element size while its start is aligned (stored bytes ending at an address that is size/2 mod size).  The
    buffer sits flush against the trailing guard page, so reading the partial slot as a whole element faults."""
    cases = []
    for n in range(12 if tier == "quick" else 200):
        pe = simple_pe(rng, nsec=rng.choice([1, 2]))
        for s in pe.sections:
            if s.rs:
                s.data = bytes(rng.randrange(1, 256) for _ in range(len(s.data or b"") or s.rs))   # no zero anywhere
        data = pe.build()
        view = load_view(pe, data)
        lay = pe.layout
        for w in (2, 4, 8):
            t = "u%d" % (8 * w)
            # mapped view cut so that its length is w/2 modulo w, the array starts one and a half slots before the end
            if view is not None:
                secs = [s for s in pe.sections if s.rs >= 64 and s.vs >= 64]
                if secs:
                    s = secs[-1]
                    L = s.va + 40
                    L = L - (L % w) + w // 2
                    if lay["size_of_headers"] < L <= len(view):
                        buf = bytearray(view[:L])
                        for i in range(L - 3 * w, L):
                            buf[i] = buf[i] or 0x5A
                        k = "v%d" % pe.bits
                        start = L - (w + w // 2)
                        cases.append([img_line(rng, bytes(buf), rng.choice([0, 8]), "e"), "from_bytes " + k,
                                      "derva_slice_s %s %s 0x%x 0" % (k, t, start), "deref_slice_s %s %s 0x%x 0" % (k, t, pe.image_base + start),
                                      "derva_slice_f %s %s 0x%x ge:0xffffffffffffffff" % (k, t, start), "deref_slice_f %s %s 0x%x count:5" % (k, t, pe.image_base + start),
                                      "derva_slice_s %s %s 0x%x 0" % (k, t, start - w), "deref_slice_s %s %s 0x%x 0" % (k, t, pe.image_base + start - w)])
            # file whose last section's raw data (= end of the file) ends w/2 modulo w
            s = pe.sections[-1]
            if s.rs >= 64 and s.vs >= s.rs and s.prd + s.rs == len(data):
                cut = s.rs - (s.rs % w) - w // 2
                pe2_len = s.prd + cut
                old_rs, old_len = s.rs, pe.file_len
                s.rs, pe.file_len = cut, pe2_len
                d2 = pe.build()
                s.rs, pe.file_len = old_rs, old_len
                k = "f%d" % pe.bits
                start = s.va + cut - (w + w // 2)
                if (s.prd + cut - (w + w // 2)) % w == 0 and start % w == 0:
                    cases.append([img_line(rng, d2, rng.choice([0, 8]), "e"), "from_bytes " + k,
                                  "derva_slice_s %s %s 0x%x 0" % (k, t, start), "deref_slice_s %s %s 0x%x 0" % (k, t, pe.image_base + start),
                                  "deref_slice_f %s %s 0x%x count:5" % (k, t, pe.image_base + start)])
    return cases


def gen_c05(rng, tier):
    cases = []
    nimg = 40 if tier == "quick" else 1500
    types = ["u8", "u16", "u32", "u64"]
    tsize = {"u8": 1, "u16": 2, "u32": 4, "u64": 8}
    for n in range(nimg):
        pe = simple_pe(rng)
        if not pe.sections or rng.random() < 0.1:
            pe = simple_pe(rng, nsec=rng.choice([1, 2, 3]))
        if rng.random() < 0.25:
            # image bases near the end of the address space
            pe.image_base = rng.choice([0xFFFF0000, 0xFFFFF000, 0xFFFFFFFF, 0x10000]) if pe.bits == 32 else rng.choice([0xFFFFFFFFFFFF0000, 0xFFFFFFFFFFFFFFFF, 0x7FFFFFFF0000, 0x10000])
        plant(rng, pe)
        data = pe.build()
        lay = pe.layout
        view = load_view(pe, data)
        soi = lay["size_of_image"]
        for mode in ("file", "view"):
            buf = data if mode == "file" else view
            if buf is None:
                continue
            k = ("f%d" if mode == "file" else "v%d") % pe.bits
            base = pe.image_base
            if mode == "view" and rng.random() < 0.4:
                base = rng.choice([0, 1, 0x1000, 0xFFFFF000, 0xFFFFFFFF, (1 << 64) - 0x2000, (1 << 64) - 1, 0x7FF000000000]) & ((1 << pe.bits) - 1)
                k = "%s@0x%x" % (k, base)
            kw = ("wf" if mode == "file" else "wv")
            case = [img_line(rng, buf), "from_bytes " + k.split("@")[0], "hdr " + k]
            if mode == "view":
                case += ["f2r %s 0x%x" % (k, (1 << 32) + lay["size_of_headers"] - 1), "f2r %s 0x%x" % (k, (1 << 64) - 1)]
            rvas = set([0, 1, soi - 1, soi, soi + 1, lay["size_of_headers"], lay["size_of_headers"] - 1, U32])
            for s in pe.sections:
                for e in (0, 1, 2, 3, 4, 8, s.rs - 8, s.rs - 4, s.rs - 2, s.rs - 1, s.rs, s.vs - 1, s.vs, s.vs + 1):
                    rvas.add((s.va + e) & U32)
                for _ in range(4):
                    rvas.add(s.va + rng.randrange(0, max(s.rs, 1)))
            rvas = sorted(rvas)
            M = (1 << pe.bits) - 1
            for r in rvas:
                va = (base + r) & M
                case.append("r2v %s 0x%x" % (k, r))
                case.append("v2r %s 0x%x" % (k, va))
                al = rng.choice([1, 2, 4, 8])
                mn = rng.choice([0, 1, 4, 16])
                case.append("slice %s 0x%x %d %d" % (k, r, mn, al))
                case.append("read %s 0x%x %d %d" % (k, va, mn, al))
                # the shorthands (`slice(rva, 0, 1)` / `read(va, 0, 1)`), again as a slice/read pair
                case.append("slice_bytes %s 0x%x" % (k, r & U32))
                case.append("read_bytes %s 0x%x" % (k, va))
                if rng.random() < 0.35:
                    mn = rng.choice(BIG_MINS)
                    al = rng.choice([1, 1, 2, 8])
                    case.append("slice %s 0x%x %d %d" % (k, r, mn, al))
                    case.append("read %s 0x%x %d %d" % (k, va, mn, al))
                # header arithmetic on whatever kind of object this is (views offer it too)
                case.append("r2f %s 0x%x" % (k, r)); case.append("f2r %s 0x%x" % (k, r))
                t = rng.choice(types)
                case.append("derva %s %s 0x%x" % (k, t, r)); case.append("deref %s %s 0x%x" % (k, t, va))
                case.append("derva_copy %s %s 0x%x" % (k, t, r)); case.append("deref_copy %s %s 0x%x" % (k, t, va))
                ln = rng.choice([0, 1, 2, 3, 4, 8, 8, 16, 17])
                case.append("derva_into %s %d 0x%x" % (k, ln, r)); case.append("deref_into %s %d 0x%x" % (k, ln, va))
                ln = rng.choice([0, 1, 2, 5, 0x100, 1 << 30, 1 << 61, 1 << 63])
                case.append("derva_slice %s %s 0x%x %d" % (k, t, r, ln)); case.append("deref_slice %s %s 0x%x %d" % (k, t, va, ln))
                se = rng.choice([0, 0, 0, 1, 0xFF])
                case.append("derva_slice_s %s %s 0x%x %d" % (k, t, r, se)); case.append("deref_slice_s %s %s 0x%x %d" % (k, t, va, se))
                case.append("derva_cstr %s 0x%x" % (k, r)); case.append("deref_cstr %s 0x%x" % (k, va))
                # predicate-terminated arrays: a stateless predicate on the element (`ge:<x>`: *e >= x; 0 = stop at once,
                # 2^64-1 on a narrow type = hardly ever) and a STATEFUL FnMut (`count:<n>`: true on its n-th call)
                w_ = tsize[t]
                prs = slice_f_preds(rng, pe, r, w_, 1)
                prs.append(rng.choice(["ge:0xffffffffffffffff", "count:7", "count:64", "count:0x%x" % rng.choice([1 << 20, 1 << 32, (1 << 63), (1 << 64) - 1])]))
                for pr in prs:
                    case.append("derva_slice_f %s %s 0x%x %s" % (k, t, r & U32, pr)); case.append("deref_slice_f %s %s 0x%x %s" % (k, t, va, pr))
                if rng.random() < 0.3:
                    st_ = rng.choice(["dd", "sh", "b16"])
                    n_ = rng.choice([0, 1, 2, 3, 13])
                    case.append("derva_slice_f %s %s 0x%x count:%d" % (k, st_, r & U32, n_)); case.append("deref_slice_f %s %s 0x%x count:%d" % (k, st_, va, n_))
                # element types whose size exceeds their alignment (data directory 8/4, section header 40/4, [u8;16] 16/1)
                st = rng.choice(["dd", "sh", "b16"])
                case.append("derva %s %s 0x%x" % (k, st, r)); case.append("deref %s %s 0x%x" % (k, st, va))
                ln = rng.choice([0, 1, 2, 3, 7, 12, 13, 31, 32, 33, 100, 289, 1 << 28, 1 << 60])
                case.append("derva_slice %s %s 0x%x %d" % (k, st, r, ln)); case.append("deref_slice %s %s 0x%x %d" % (k, st, va, ln))
                if pe.bits == 64:
                    # virtual addresses that differ from an in-image one by a multiple of 2^32
                    for hi in (1, 2, 0x7FFF):
                        far = (va + (hi << 32)) & M
                        case.append("v2r %s 0x%x" % (k, far)); case.append("read %s 0x%x 1 1" % (k, far)); case.append("deref_copy %s u8 0x%x" % (k, far))
                if rng.random() < 0.15:
                    case.append("derva %s %s 0x%x" % (kw, t, r)); case.append("derva_cstr %s 0x%x" % (kw, r))
                    case.append("derva_slice_s %s %s 0x%x 0" % (kw, t, r)); case.append("derva_copy %s %s 0x%x" % (kw, t, r))
                    case.append("derva_slice_f %s %s 0x%x %s" % (kw, t, r & U32, pr)); case.append("slice_bytes %s 0x%x" % (kw, r & U32))
                if "@" not in k and rng.random() < 0.5:
                    # the same (min, align) request, min != align, through the specific constructor and through the wrapper
                    # (PE32 and PE32+ arm of `Wrap::slice`); the VA twin exists on the specific API only
                    for mn_, al_ in rng.sample(MIN_ALIGN, 3):
                        case.append("slice %s 0x%x %d %d" % (k, r & U32, mn_, al_))
                        case.append("read %s 0x%x %d %d" % (k, va, mn_, al_))
                        case.append("slice %s 0x%x %d %d" % (kw, r & U32, mn_, al_))
            # va edge cases
            for va in (0, 1, base, (base - 1) & M, (base + soi) & M, (base + soi + 1) & M, M):
                case.append("v2r %s 0x%x" % (k, va)); case.append("read %s 0x%x 0 1" % (k, va)); case.append("deref_copy %s u32 0x%x" % (k, va))
            cases.append(case)
    return cases


def make_bss(rng, pe, keep=()):
    """turn one section into a bss-style one: no raw data, PointerToRawData = 0, VirtualSize > 0 (the later sections
    keep their file offsets: the file simply has a gap)"""
    cand = [s for s in pe.sections if not any(s is k[0] for k in keep)]
    if not cand:
        return None
    s = rng.choice(cand)
    s.rs, s.prd, s.data = 0, 0, b""
    s.vs = rng.choice([1, 4, 0x10, pe.file_align, max(s.vs, 1), pe.section_align])
    s.name = b".bss"
    return s


def gen_c06(rng, tier):
    """file -> view -> file conversions; the full address / typed-read stream on the file view and
    on the view over the converted buffer"""
    cases = []
    nimg = 40 if tier == "quick" else 1200
    for n in range(nimg):
        pe = simple_pe(rng, nsec=rng.choice([1, 2, 3, 4, 6]))
        plant(rng, pe)
        flush = []
        for s_ in pe.sections:
            if s_.data is not None and s_.rs >= 16 and len(s_.data) == s_.rs and rng.random() < 0.6:
                w_ = rng.choice([1, 2, 4, 8])
                s_.data = s_.data[:s_.rs - 2 * w_] + b"\xA5" * w_ + bytes(w_)    # one element, then the terminator in the last slot
                flush.append((s_, w_))
        if rng.random() < 0.35:
            make_bss(rng, pe, flush)
        data = pe.build()
        if rng.random() < 0.3:
            adversarial_sections(rng, pe, len(data))
            data = pe.build()
        lay = pe.layout
        kf, kv = "f%d" % pe.bits, "v%d" % pe.bits
        rvas = set([1, lay["size_of_headers"] - 1, lay["size_of_headers"], lay["size_of_image"] - 1])
        for s in pe.sections:
            for e in (0, 1, min(s.vs, s.rs) - 1, min(s.vs, s.rs), s.rs - 1, s.rs, s.vs - 1, s.vs):
                rvas.add((s.va + e) & U32)
            for _ in range(3):
                rvas.add(s.va + rng.randrange(0, max(min(s.rs, s.vs), 1)))
        rvas = sorted(r for r in rvas if 0 <= r <= U32)
        q = []
        for r in rvas:
            q.append(("derva_copy %s u32 0x%x", r)); q.append(("derva_cstr %s 0x%x", r)); q.append(("derva_into %s 8 0x%x", r))
            q.append(("derva_slice_s %s u16 0x%x 0", r)); q.append(("slice %s 0x%x 1 1", r))
            # where the file stores the byte of this RVA (the conversion both representations offer)
            q.append(("r2f %s 0x%x", r))
            if pe.bits == 64 and len(q) % 5 == 0:
                # a virtual address 2^32 (or a multiple) above one inside the image is outside it in both representations
                hi = (pe.image_base + (rng.choice([1, 1, 2, 0x7FFF]) << 32) + r) & ((1 << 64) - 1)
                q.append(("read %s 0x%x 1 1", hi)); q.append(("deref_copy %s u32 0x%x", hi))
            for pr in slice_f_preds(rng, pe, r, 2, 1):
                q.append(("derva_slice_f %%s u16 0x%%x %s" % pr, r))
            # the VA twins (same bytes through ImageBase + rva): sentinel arrays that end exactly where the
            # stored bytes end must read the same on the file and on the converted view
            va = (pe.image_base + r) & ((1 << pe.bits) - 1)
            q.append(("deref_copy %s u32 0x%x", va)); q.append(("deref_cstr %s 0x%x", va))
            t_ = rng.choice(["u8", "u16", "u32", "u64"])
            q.append(("deref_slice_s %%s %s 0x%%x 0" % t_, va))
            for pr in slice_f_preds(rng, pe, r, int(t_[1:]) // 8, 1):
                q.append(("deref_slice_f %%s %s 0x%%x %s" % (t_, pr), va))
        # sentinel-terminated arrays planted flush against the end of each section's stored bytes
        for s_, w_ in flush:
            q.append(("deref_slice_s %%s u%d 0x%%x 0" % (8 * w_), (pe.image_base + s_.va + s_.rs - 2 * w_) & ((1 << pe.bits) - 1)))
            q.append(("derva_slice_s %%s u%d 0x%%x 0" % (8 * w_), (s_.va + s_.rs - 2 * w_) & U32))
            # the same two slots through a callable: stop on the 1st / 2nd call (inside), on the 3rd (one past the stored
            # bytes: must fail on the file, may read on through the view), on the zero terminator (`ge:0` stops at once,
            # `ge:0xA6…` never does)
            for pr in ("count:1", "count:2", "count:3", "ge:0", "ge:0x%x" % int.from_bytes(b"\xA5" * w_, "little"), "ge:0x%x" % (int.from_bytes(b"\xA5" * w_, "little") + 1)):
                q.append(("derva_slice_f %%s u%d 0x%%x %s" % (8 * w_, pr), (s_.va + s_.rs - 2 * w_) & U32))
                q.append(("deref_slice_f %%s u%d 0x%%x %s" % (8 * w_, pr), (pe.image_base + s_.va + s_.rs - 2 * w_) & ((1 << pe.bits) - 1)))
        # the bytes a section header describes: raw data on the file, the virtual extent on the converted view (a
        # bss-style section — no raw data, PointerToRawData 0 — is VirtualSize zero bytes there, not a null error)
        sb = ["secbytes %%s %d" % i for i in range(len(pe.sections) + 1)]
        # ... and the inverse: which file offsets are mapped at all (raw bytes beyond VirtualSize are not)
        offs = set([lay["size_of_headers"] - 1, lay["size_of_headers"]])
        for s in pe.sections:
            for e in (0, min(s.vs, s.rs) - 1, min(s.vs, s.rs), s.rs - 1, s.rs, s.vs - 1, s.vs):
                offs.add(s.prd + e)
        q += [("f2r %s 0x%x", o) for o in sorted(offs) if 0 <= o <= U32]
        case = [img_line(rng, data), "from_bytes " + kf, "to_view " + kf]
        case += [fmt % (kf, r) for fmt, r in q] + [o % kf for o in sb] + [o % "wf" for o in sb]
        case += ["img_to_view " + kf, "from_bytes " + kv]
        case += [fmt % (kv, r) for fmt, r in q] + [o % kv for o in sb] + [o % "wv" for o in sb]
        case += ["hdr " + kv, "to_file " + kv, "img_to_file " + kv, "from_bytes " + kf, "hdr " + kf]
        case += [fmt % (kf, r) for fmt, r in q]
        cases.append(case)
    # the repository's own binaries
    for fn, data in corpus_files():
        bits = 64 if b"\x0b\x02" == data[data[0x3C] + 24:data[0x3C] + 26] else 32
        case = [img_line(rng, data, 0, "e"), "to_view f%d" % bits, "img_to_view f%d" % bits, "hdr v%d" % bits, "to_file v%d" % bits]
        cases.append(case)
    return cases


def _bits_of_file(data):
    try:
        e = struct.unpack_from("<I", data, 0x3C)[0]
        m = struct.unpack_from("<H", data, e + 24)[0]
    except struct.error:
        return None
    return {0x10B: 32, 0x20B: 64}.get(m)


def _strip_hints(line):
    """op line without the generator-side expectation tokens (`exp=` / `want=` / `tree=` / `canon=`)"""
    return " ".join(w for w in line.split(" ") if not w.startswith(("exp=", "want=", "tree=", "canon=")))


def dir_images(rng, tier):
    """(file bytes, bits, [op templates with %s for the constructor]) for images that carry the directories
    the property statement lists, built by the directory modules' own image builders (imported and called,
    not copied)"""
    from . import gen_exports, gen_imports, gen_dirs, gen_res, gen_rich, gen_pure
    q = 1 if tier == "quick" else 30
    out = []
    # export directory (C08 builder): clean directories and singly mutated ones
    for i in range(10 * q):
        d = gen_exports.rand_dir(rng)
        mut = gen_exports.mutations(rng, d) if rng.random() < 0.3 else None
        b = gen_exports.build_image(rng, d, mut=mut)
        out.append((b.data, b.bits, ["exports %s dump"]))
    # import directory and IAT (C09 builder): the file case of every image
    for i in range(10 * q):
        for c in gen_imports.one_image(rng, 32 if i % 2 == 0 else 64, tier):
            w = c[1].split(" ")
            if c[0].startswith("img ") and w[0] == "from_bytes" and w[1] in ("f32", "f64"):
                hx = c[0].split(" ")[3]
                out.append((bytes.fromhex(hx) if hx != "-" else b"", int(w[1][1:]), ["imports %s dump", "iat %s dump"]))
    # debug, TLS, load config, exception (C15 builder)
    for i in range(10 * q):
        bits = rng.choice([32, 64])
        L, data, view, fns, vbase = gen_dirs.one_image(rng, bits, tier)
        ops = ["debug %s dump", "tls %s dump", "loadcfg %s dump", "exc %s dump"]
        ops += ["exc %%s lookup 0x%x" % pc for pc in gen_dirs.lookup_pcs(rng, fns, L)[:6]]
        out.append((data, bits, ops))
    # resources (C12 writers + image builder)
    for i in range(6 * q):
        if rng.random() < 0.6:
            t, groups = gen_res.typical_tree(rng)
        else:
            t, groups = gen_res.rand_tree(rng, rng.choice([1, 2, 3])), []
        dir_va = rng.choice([0x2000, 0x3000, 0x10000])
        sec = gen_res.encode_canonical(t, dir_va) if rng.random() < 0.5 else gen_res.encode_classic(rng, t, dir_va)[0]
        pe = gen_res.pe_with_rsrc(rng, sec, None, dir_va)
        if rng.random() < 0.5:
            pe.sections[1].vs = pe.sections[1].rs           # every stored byte mapped
        ops = [_strip_hints(o) for o in gen_res.std_ops("res %s") + gen_res.helper_ops("res %s", groups)]
        ops += [_strip_hints(o) for o in gen_res.lookup_ops(rng, t, "res %s", tier)[:12]]
        out.append((pe.build(), pe.bits, ops))
    # base relocations (C14 directory writer) in a section of their own
    for i in range(6 * q):
        sec = gen_pure._rand_dir(rng, gen_pure.RAW_SIZES, wf=rng.random() < 0.7)
        sec = sec[:len(sec) & ~3] if rng.random() < 0.5 else sec
        pe = gen_res.pe_with_rsrc(rng, sec or bytes(8), None, rng.choice([0x2000, 0x3000]))
        pe.sections[1].name = b".reloc"
        pe.dirs[5], pe.dirs[2] = (pe.dirs[2][0], len(sec)), (0, 0)
        if rng.random() < 0.5:
            pe.sections[1].vs = pe.sections[1].rs
        out.append((pe.build(), pe.bits, ["relocs %s dump"]))
    # Rich header (C16 builder): the built images of its whole-image generator
    got = 0
    for c in gen_rich.gen_rich_img(rng, "quick"):
        hx = c[0].split(" ")[3]
        data = bytes.fromhex(hx) if hx != "-" else b""
        bits = _bits_of_file(data)
        if bits and len(data) >= 0x200 and not c[1].startswith("rich wf"):
            out.append((data, bits, ["rich %s"]))
            got += 1
            if got >= 6 * q:
                break
    # the repository's own binaries: every directory at once
    allops = ["exports %s dump", "imports %s dump", "iat %s dump", "relocs %s dump", "res %s dump", "res %s fsck", "res %s fmt", "res %s manifest",
              "res %s version", "res %s icons", "tls %s dump", "debug %s dump", "exc %s dump", "loadcfg %s dump", "rich %s"]
    for fn, data in corpus_files():
        bits = _bits_of_file(data)
        if bits and fn.endswith(".dll"):
            out.append((data, bits, allops))
    return out


def gen_c06_dirs(rng, tier):
    """"every directory query gives equal results on both": the directory dumps on the FILE view, then —
    after `img_to_view` — the same dumps on the VIEW over the converted buffer.  The file is placed
    16-aligned like the converted buffer, so that an alignment verdict cannot differ between the two."""
    cases = []
    for data, bits, ops in dir_images(rng, tier):
        kf, kv = "f%d" % bits, "v%d" % bits
        case = [img_line(rng, data, 0), "from_bytes " + kf, "to_view " + kf]
        case += [o % kf for o in ops]
        case += ["img_to_view " + kf, "from_bytes " + kv]
        case += [o % kv for o in ops]
        cases.append(case)
    return cases


def gen_c07_boundaries(rng, tier):
    """Boundary enumeration per conjunct of the acceptance predicate: starting from an image in which
    every other condition holds comfortably (small SizeOfHeaders, large SizeOfImage), the buffer
    length is moved across each structure end by -4..+4 bytes, and each limit field across its limit."""
    cases = big_optional_cases(rng)
    combos = []
    for bits in (32, 64):
        for e in (0x40, 0x80, 0xC8):
            for nsec in (0, 1, 3):
                for nrva in (0, 5, 16, 17):
                    combos.append((bits, e, nsec, nrva))
    if tier == "quick":
        combos = rng.sample(combos, 14)
    for bits, e, nsec, nrva in combos:
        def base():
            pe = PE(bits)
            pe.e_lfanew = e
            pe.num_rva = nrva
            pe.sections = [Section(name=b".s%d" % i, va=0x1000 * (i + 1), vs=0x10, prd=0, rs=0, data=b"") for i in range(nsec)]
            pe.size_of_image = 0x10000
            return pe
        pe = base()
        pe.build()
        lay = pe.layout
        sec_end = lay["sec_table"] + 40 * nsec
        bounds = sorted(set([64, e + 24, e + 26, lay["nt_end"], lay["nt_end"] + 8 * min(nrva, 16), lay["sec_table"], sec_end]))
        for B in bounds:
            for d in range(-4, 5):
                L = B + d
                if L < 0:
                    continue
                pe = base()
                pe.file_len = L
                pe.size_of_headers = rng.choice([0, min(L, 0x40), L, L & ~3])    # never the reason for rejection …
                data = pe.build()
                case = [img_line(rng, data, rng.choice([0, 4, 8, 12]), "e")]
                for k in ("f32", "f64", "v32", "v64", "wf", "wv"):
                    case.append("from_bytes " + k)
                case += ["hdr f%d" % bits, "hdrw wf", "hdr v%d" % bits, "hdrw2 wf", "hdrw2 f%d" % bits, "hdrw2 wv", "hdrw2 v%d" % bits,
                         "hdr v%d@0x%x" % (bits, rng.choice([0, 0x1000, (1 << bits) - 1]))]
                cases.append(case)
        # limit fields across their limits, buffer comfortably large
        for field, vals in (("num_sections", (95, 96, 97)), ("size_of_headers", None), ("e_lfanew_align", (e + 1, e + 2, e + 4)), ("size_of_optional", None)):
            pe = base()
            pe.build()
            lay = pe.layout
            big = lay["sec_table"] + 40 * 100 + 64
            if field == "num_sections":
                for v in vals:
                    pe = base(); pe.num_sections = v; pe.file_len = big; pe.size_of_headers = 0x40
                    cases.append([img_line(rng, pe.build(), 0, "e")] + ["from_bytes " + k for k in ("f32", "f64", "wf")])
            elif field == "size_of_headers":
                for v in (big - 1, big, big + 1, 0x10000 - 1, 0x10000, 0x10001):
                    pe = base(); pe.file_len = big; pe.size_of_headers = v
                    cases.append([img_line(rng, pe.build(), 0, "e")] + ["from_bytes " + k for k in ("f32", "f64", "wf")])
            elif field == "size_of_optional":
                std = pe.opt_size() + 8 * min(nrva, 16)
                for v in (std - 4, std - 2, std - 1, std, std + 1, std + 2, std + 3, std + 4, 0, 0xFFFC):
                    pe = base(); pe.size_of_optional = max(0, v); pe.file_len = max(big, e + 24 + max(0, v) + 40 * nsec + (4 if v < 0x1000 else -4)); pe.size_of_headers = 0x40
                    if pe.file_len < (1 << 20):
                        cases.append([img_line(rng, pe.build(), 0, "e")] + ["from_bytes " + k for k in ("f32", "f64", "wf")] + ["hdr f%d" % bits])
    return cases


def module_twin_cases(src_gen, limit_quick=60, limit_thorough=2000):
    """-> generator: the images of `src_gen` that are read as mapped views, through the unsafe constructor
    `PeView::module(base)` beside `from_bytes(..).set_base_address(base)` (`iter <k> module -`, answered by the harness
    alone: same bytes, same base, same address conversions, same get_proc_address answers)"""
    def g(rng, tier):
        import random
        r2 = random.Random()
        r2.setstate(rng.getstate())
        out = []
        for case in src_gen(r2, "quick"):
            img = [l for l in case if l.startswith("img ")]
            if not img or not any((" v32" in l or " v64" in l or " wv" in l) for l in case):
                continue
            out.append([img[-1], "iter v32 module -", "iter v64 module -"])
        lim = limit_quick if tier == "quick" else limit_thorough
        if len(out) > lim:
            out = [out[i] for i in sorted(rng.sample(range(len(out)), lim))]
        return out
    g.__name__ = "module_twin_" + src_gen.__name__
    g.__module__ = getattr(src_gen, "__module__", "")
    return g
