"""Generators for C09: import directory (data directory 1) and the image-wide IAT (data directory 12).

An import directory is described semantically (`Dll` objects), laid out into the raw data of an
`.idata` section of a `vlib.pe.PE` image, then optionally mutated: missing terminators flush against
the end of the section / buffer, missing OriginalFirstThunk, thunks pointing anywhere, misaligned
tables, IAT sizes that are no multiple of the pointer size, short data directory arrays.
For unmutated directories the generator's own expectation of the *semantic* content travels on the op
line (`exp=...`, ignored by both executables) and is checked by `props_imports.C09.oracle`; for
everything the executable specification printed by the Lean driver is the oracle."""
import struct
from .pe import PE, Section, rand_bytes
from .gen_img import img_line, load_view, corpus_files

U32 = 0xFFFFFFFF
NAMES = [b"KERNEL32.dll", b"USER32.dll", b"a.dll", b"", b"msvcrt.dll", b"x", b"ntdll", b"ADVAPI32.dll\xff"]
FUNCS = [b"ExitProcess", b"GetProcAddress", b"f", b"", b"LoadLibraryA", b"?x@@YAXXZ", b"_o_", b"VirtualAlloc", b"\x80\xfe"]


class Dll:
    def __init__(self, name, imports, has_oft=True):
        self.name, self.imports, self.has_oft = name, imports, has_oft   # import = ("n", hint, name) | ("o", ordinal)


def rand_dlls(rng, maxd=4, maxt=5):
    dlls = []
    for _ in range(rng.choice([0, 1, 1, 2, 2, 3, maxd])):
        imps = []
        for _ in range(rng.choice([0, 1, 2, 3, maxt])):
            if rng.random() < 0.35:
                imps.append(("o", rng.choice([0, 1, 7, 0x100, 0xFFFF, rng.randrange(0x10000)])))
            else:
                imps.append(("n", rng.choice([0, 1, 0x1234, 0xFFFF, rng.randrange(0x10000)]), rng.choice(FUNCS)))
        dlls.append(Dll(rng.choice(NAMES), imps, has_oft=rng.random() > 0.2))
    return dlls


class Layout:
    """byte layout of the tables inside the section blob; all offsets relative to the section start"""
    def __init__(self, bits, va):
        self.bits, self.va, self.w = bits, va, bits // 8
        self.blob = bytearray()
        self.flag = 1 << (bits - 1)

    def align(self, a, fill=0xCC):
        while len(self.blob) % a:
            self.blob.append(fill)

    def put(self, data):
        off = len(self.blob)
        self.blob += data
        return off


def lay_out(rng, bits, va, dlls, order=None, desc_term=True, pad_front=None):
    """returns (blob, info). info: desc_off, iat_off, iat_size, per dll offsets, end offsets of objects"""
    L = Layout(bits, va)
    w = L.w
    pad = rng.choice([0, 8, 16, 40]) if pad_front is None else pad_front
    L.put(bytes([0x90]) * pad)
    info = {"dll": [dict() for _ in dlls]}
    # hint/name entries and dll names first or last
    def put_strings():
        for d, di in zip(dlls, info["dll"]):
            di["hn"] = []
            for imp in d.imports:
                if imp[0] == "n":
                    L.align(2)
                    di["hn"].append(L.put(struct.pack("<H", imp[1]) + imp[2] + b"\0"))
                else:
                    di["hn"].append(None)
            di["name"] = L.put(d.name + b"\0")
    def thunk_vals(d, di):
        out = []
        for imp, hn in zip(d.imports, di["hn"]):
            out.append((L.flag | imp[1]) if imp[0] == "o" else va + hn)
        return out
    def put_iats():
        L.align(8)
        info["iat_off"] = len(L.blob)
        for d, di in zip(dlls, info["dll"]):
            di["iat"] = L.put(b"".join(x.to_bytes(w, "little") for x in thunk_vals(d, di)) + bytes(w))
        info["iat_size"] = len(L.blob) - info["iat_off"]
    def put_ilts():
        L.align(8)
        for d, di in zip(dlls, info["dll"]):
            di["ilt"] = L.put(b"".join(x.to_bytes(w, "little") for x in thunk_vals(d, di)) + bytes(w)) if d.has_oft else None
    stamps = [(rng.choice([0, 0, 0x5F000000, U32]), rng.choice([0, 0, U32])) for _ in dlls]
    def put_descs():
        L.align(4)
        info["desc_off"] = len(L.blob)
        L.put(bytes(20 * len(dlls)))               # patched below, once every table has its place
        if desc_term:
            L.put(bytes(20))
        info["desc_end"] = len(L.blob)
    order = order or rng.choice(["sitd", "sidt", "stid"])
    put_strings()
    for c in order[1:]:
        {"i": put_iats, "t": put_ilts, "d": put_descs}[c]()
    for i, (d, di) in enumerate(zip(dlls, info["dll"])):
        struct.pack_into("<IIIII", L.blob, info["desc_off"] + 20 * i, va + di["ilt"] if di["ilt"] is not None else 0,
                         stamps[i][0], stamps[i][1], va + di["name"], va + di["iat"])
    return L.blob, info


def expectation(bits, dlls, info, va):
    """semantic content of a clean directory, in the notation props_imports extracts from a dump"""
    flag = 1 << (bits - 1)
    parts = []
    for d, di in zip(dlls, info["dll"]):
        items = ["o%d" % imp[1] if imp[0] == "o" else "n%d:%s" % (imp[1], imp[2].hex() or "-") for imp in d.imports]
        vals = [str((flag | imp[1]) if imp[0] == "o" else va + hn) for imp, hn in zip(d.imports, di["hn"])]
        parts.append("%s:%s:%s" % (d.name.hex() or "-", "/".join(items) if d.has_oft else "!Null", "/".join(vals)))
    return ";".join(parts) or "-"


def base_pe(rng, bits, blob_len, extra_virtual=0, with_text=None):
    """a PE with an optional .text and an .idata section whose raw data will hold the blob"""
    pe = PE(bits)
    pe.e_lfanew = rng.choice([0x40, 0x80, 0x48])
    fa = rng.choice([0x200, 0x40, 0x20])
    sa = rng.choice([0x1000, 0x200])
    pe.file_align, pe.section_align = fa, max(sa, fa)
    sa = pe.section_align
    with_text = rng.random() < 0.6 if with_text is None else with_text
    nsec = 2 if with_text else 1
    hdr_end = pe.e_lfanew + 24 + pe.opt_size() + 8 * 16 + 40 * nsec
    prd = (hdr_end + fa - 1) // fa * fa
    va = max(sa, (prd + sa - 1) // sa * sa)
    if with_text:
        rs = fa
        pe.sections.append(Section(b".text", va=va, vs=rs, prd=prd, rs=rs, data=rand_bytes(rng, rs)))
        prd += rs
        va += (rs + sa - 1) // sa * sa
    pe.sections.append(Section(b".idata", va=va, vs=blob_len + extra_virtual, prd=prd, rs=blob_len, chars=0xC0000040, data=bytes(blob_len)))
    return pe, va


def wild_thunks(rng, bits, pe, sec, soi):
    """thunk values pointing anywhere"""
    end = sec.va + sec.rs
    c = [1, 2, 3, 0x3C, 0x40, soi - 2, soi - 1, soi, soi + 2, end - 1, end - 2, end - 3, end - 4, end, sec.va, sec.va + 1,
         sec.va + sec.vs - 2, sec.va + sec.vs, 0x7FFFFFFE, 0x7FFFFFFF, 0xFFFFFFFE, 0xFFFFFFFF, 0x80000000, 0x80000001, 0x8000FFFF, 0x80010005]
    if bits == 64:
        c += [0x100000000 + sec.va, 0x100000000 + sec.va + 2, 0x7FFFFFFF00000000 + sec.va, 0x80000000 + sec.va, 0xFFFFFFFE, 0xFFFFFFFF,
              0x8000000000000000, 0x8000000000000005, 0x8000000000010005, 0xFFFFFFFFFFFFFFFF, 0x7FFFFFFFFFFFFFFF, 0x8000000080001000]
    return [x & ((1 << bits) - 1) for x in c if x >= 0]


def ops_for(rng, ks, exp=None, expiat=None):
    out = []
    for k in ks:
        out.append("imports %s dump%s" % (k, " exp=" + exp if exp is not None else ""))
        out.append("iat %s dump%s" % (k, " exp=" + expiat if expiat is not None else ""))
    return out


def one_image(rng, bits, tier):
    """-> list of cases (file and view of the same image)"""
    dlls = rand_dlls(rng)
    mut = rng.choice(["clean", "clean", "clean", "no_desc_term", "no_thunk_term", "no_name_term", "wild", "oft0", "early_term",
                      "misalign_desc", "misalign_thunk", "iat_size", "dir_rva", "num_rva", "zero_fill", "tail_cut", "name0"])
    if mut in ("no_thunk_term", "no_name_term", "wild", "oft0", "early_term", "misalign_thunk", "name0") and not dlls:
        dlls = [Dll(b"k.dll", [("n", 3, b"Fn"), ("o", 9)])]
    if mut in ("no_thunk_term", "wild") and not any(d.imports for d in dlls):
        dlls[-1].imports = [("n", 1, b"g"), ("o", 2)]
    if mut == "no_name_term" and not any(i[0] == "n" for d in dlls for i in d.imports):
        dlls[-1].imports.append(("n", 5, b"last"))
    order = {"no_desc_term": "sitd", "no_thunk_term": rng.choice(["sdit", "sdti"]), "tail_cut": rng.choice(["sitd", "sdit", "sdti"])}.get(mut)
    order = order or rng.choice(["sitd", "sidt", "stid"])
    # two-pass: lay out once to learn the size, then with the final section address
    blob, info = lay_out(rng_clone(rng), bits, 0x1000, dlls, order=order, desc_term=(mut != "no_desc_term"), pad_front=8)
    pe, va = base_pe(rng, bits, len(blob), extra_virtual=rng.choice([0, 0, 0x10, 0x200]) if mut != "zero_fill" else 0x40)
    blob, info = lay_out(rng, bits, va, dlls, order=order, desc_term=(mut != "no_desc_term"), pad_front=8)
    blob = bytearray(blob)
    w = bits // 8
    sec = pe.sections[-1]
    clean = mut == "clean"
    cut = None                       # truncate the section / buffer right after this blob offset
    if mut == "no_desc_term":
        cut = info["desc_end"]
    elif mut == "no_thunk_term":
        # the last table of the blob loses its terminator and everything after it
        last = max((di["iat"] if order[-1] == "i" else (di["ilt"] if di["ilt"] is not None else -1), i) for i, di in enumerate(info["dll"]))
        off, i = last
        if off < 0:
            off, i = max((di["iat"], i) for i, di in enumerate(info["dll"]))
        cut = off + w * len(dlls[i].imports)
        if cut == off:
            cut = off + 0                      # empty table: the window is empty
    elif mut == "no_name_term":
        # move one hint/name entry to the very end, without its NUL
        for d, di in reversed(list(zip(dlls, info["dll"]))):
            hit = [(hn, imp) for hn, imp in zip(di["hn"], d.imports) if hn is not None]
            if hit:
                hn, imp = hit[-1]
                while len(blob) % 2:
                    blob.append(0xCC)
                new = len(blob)
                blob += struct.pack("<H", imp[1]) + imp[2]
                if not imp[2]:
                    blob += b"Z"
                # repoint every thunk that referenced the entry
                for base in (di["iat"], di["ilt"]):
                    if base is None:
                        continue
                    for j, imp2 in enumerate(d.imports):
                        if di["hn"][j] == hn:
                            blob[base + w * j:base + w * j + w] = (va + new).to_bytes(w, "little")
                break
        cut = len(blob)
    elif mut == "wild":
        cands = wild_thunks(rng, bits, pe, sec, 0x4000)
        for d, di in zip(dlls, info["dll"]):
            for j in range(len(d.imports)):
                if rng.random() < 0.6:
                    x = rng.choice(cands)
                    if x == 0:
                        x = 1
                    for base in (di["iat"], di["ilt"]):
                        if base is not None and rng.random() < 0.8:
                            blob[base + w * j:base + w * j + w] = x.to_bytes(w, "little")
    elif mut == "oft0":
        i = rng.randrange(len(dlls))
        struct.pack_into("<I", blob, info["desc_off"] + 20 * i, rng.choice([0, 0, U32, 1, va + info["dll"][i]["iat"]]))
    elif mut == "early_term":
        # FirstThunk = 0 in a descriptor that is otherwise alive: the scan stops there
        i = rng.randrange(len(dlls))
        struct.pack_into("<I", blob, info["desc_off"] + 20 * i + 16, 0)
    elif mut == "name0":
        # every field but FirstThunk zero (or a wild Name): still a live descriptor for the code
        i = rng.randrange(len(dlls))
        if rng.random() < 0.5:
            blob[info["desc_off"] + 20 * i:info["desc_off"] + 20 * i + 16] = bytes(16)
        else:
            struct.pack_into("<I", blob, info["desc_off"] + 20 * i + 12, rng.choice([0, 1, U32, va + len(blob) - 1, va + len(blob), 0x3C]))
    elif mut == "zero_fill":
        # the terminators live in the virtual-only tail (VirtualSize > SizeOfRawData): drop trailing zero bytes
        while blob and blob[-1] == 0 and len(blob) > info["desc_off"] + 1:
            blob.pop()
        cut = len(blob)
    elif mut == "tail_cut":
        cut = max(1, len(blob) - rng.choice([1, 2, 3, 4, 7, 8, 19, 20, 21]))
    if cut is not None:
        blob = blob[:cut]
    sec.rs = len(blob)
    sec.data = bytes(blob)
    if mut != "zero_fill":
        sec.vs = max(sec.rs + rng.choice([0, 0, 0x10]), 1)
    pe.file_len = sec.prd + sec.rs if (cut is not None or rng.random() < 0.5) else None
    desc_rva = va + info["desc_off"]
    iat_rva, iat_size = va + info["iat_off"], info["iat_size"]
    if mut == "misalign_desc":
        desc_rva += rng.choice([1, 2, 3])
    elif mut == "misalign_thunk":
        i = rng.randrange(len(dlls))
        fld = rng.choice([0, 16])
        old = struct.unpack_from("<I", sec.data, info["desc_off"] + 20 * i + fld)[0]
        d2 = bytearray(sec.data)
        struct.pack_into("<I", d2, info["desc_off"] + 20 * i + fld, (old + rng.choice([1, 2, 4, w // 2])) & U32)
        sec.data = bytes(d2)
        if rng.random() < 0.5:
            iat_rva += rng.choice([1, 2, 4])
    elif mut == "iat_size":
        iat_size = rng.choice([0, 1, w - 1, w, w + 1, iat_size + 1, iat_size + w - 1, iat_size - 1, max(0, sec.rs - info["iat_off"]),
                               max(0, sec.rs - info["iat_off"]) + 1, max(0, sec.rs - info["iat_off"]) + w, 4, 12, 0x10000, U32, U32 - 7]) & U32
    elif mut == "dir_rva":
        desc_rva = rng.choice([0, 0, 1, 4, 0x3C, sec.va + sec.rs, sec.va + sec.rs - 4, sec.va + sec.rs - 20, sec.va + sec.rs - 40, sec.va + sec.vs, 0x7FFFFFFC, U32 - 3, U32])
        iat_rva = rng.choice([0, 0, 8, sec.va + sec.rs, sec.va + sec.rs - w, U32 - 7, iat_rva])
    pe.dirs[1] = (desc_rva, rng.choice([0, 20 * (len(dlls) + 1), 0x28, U32]))
    pe.dirs[12] = (iat_rva, iat_size)
    if mut == "num_rva":
        pe.num_rva = rng.choice([0, 1, 2, 5, 12, 13, 17, U32])
    data = pe.build()
    exp = expectation(bits, dlls, info, va) if clean else None
    expiat = None
    if clean:
        flag = 1 << (bits - 1)
        ent = []
        for d, di in zip(dlls, info["dll"]):
            for imp, hn in zip(d.imports, di["hn"]):
                ent.append("%d>%s" % ((flag | imp[1], "o%d" % imp[1]) if imp[0] == "o" else (va + hn, "n%d:%s" % (imp[1], imp[2].hex() or "-"))))
            ent.append("0>!Null")
        expiat = "/".join(ent) or "-"
    cases = []
    kf, kv = "f%d" % bits, "v%d" % bits
    # file
    flush_al = (-len(data)) % 16
    al = flush_al if (pe.file_len is not None and flush_al % 4 == 0 and rng.random() < 0.8) else rng.choice([0, 0, 8, 8, 4, 12])
    # the expectation presumes naturally aligned tables: 64-bit thunks need the buffer at 0 mod 8
    ok_al = al % (bits // 8) == 0
    cases.append([img_line(rng, data, al, "e" if pe.file_len is not None else None), "from_bytes " + kf] +
                 ops_for(rng, [kf] + (["wf"] if rng.random() < 0.4 else []), exp if ok_al else None, expiat if ok_al else None))
    # mapped view (cut right after the tables when something was cut)
    view = load_view(pe, data)
    if view is not None:
        if cut is not None and rng.random() < 0.8:
            view = view[:sec.va + sec.rs]
        flush_al = (-len(view)) % 16
        al = flush_al if (flush_al % 4 == 0 and rng.random() < 0.7) else rng.choice([0, 0, 8, 8, 4, 12])
        ok_al = al % (bits // 8) == 0
        cases.append([img_line(rng, view, al, "e"), "from_bytes " + kv] +
                     ops_for(rng, [kv] + (["wv"] if rng.random() < 0.4 else []), exp if ok_al else None, expiat if ok_al else None))
    return cases


def rng_clone(rng):
    import random
    r = random.Random()
    r.setstate(rng.getstate())
    return r


def gen_imports(rng, tier):
    cases = []
    n = 70 if tier == "quick" else 2500
    for i in range(n):
        cases += one_image(rng, 32 if i % 2 == 0 else 64, tier)
    return cases


def gen_imports_smallvs(rng, tier):
    """clean directories whose tables are STORED beyond a small VirtualSize (0 < VirtualSize < SizeOfRawData, also 0):
    a file view resolves an rva through max(VirtualSize, SizeOfRawData), so names, hint/name entries, thunk tables and
    the IAT in the raw tail are all reported (round-5 change C09-r5-3: the loader's rule `VirtualSize or else
    SizeOfRawData` in range_file; the exports stream had this shape since round 4, the imports stream did not)"""
    cases = []
    n = 6 if tier == "quick" else 120
    for i in range(n):
        for bits in (32, 64):
            dlls = rand_dlls(rng) or [Dll(b"k.dll", [("n", 3, b"Fn"), ("o", 9)])]
            if not any(d.imports for d in dlls):
                dlls[-1].imports = [("n", 1, b"g"), ("o", 2)]
            order = rng.choice(["sitd", "sidt", "stid"])
            blob, info = lay_out(rng_clone(rng), bits, 0x1000, dlls, order=order, pad_front=8)
            pe, va = base_pe(rng, bits, len(blob))
            blob, info = lay_out(rng, bits, va, dlls, order=order, pad_front=8)
            sec = pe.sections[-1]
            sec.data = bytes(blob)
            sec.rs = len(blob)
            sec.vs = [1, 8, 40, len(blob) // 2, len(blob) - 1, 0][i % 6]
            pe.dirs[1] = (va + info["desc_off"], 20 * (len(dlls) + 1))
            pe.dirs[12] = (va + info["iat_off"], info["iat_size"])
            data = pe.build()
            exp = expectation(bits, dlls, info, va)
            flag = 1 << (bits - 1)
            ent = []
            for d, di in zip(dlls, info["dll"]):
                for imp, hn in zip(d.imports, di["hn"]):
                    ent.append("%d>%s" % ((flag | imp[1], "o%d" % imp[1]) if imp[0] == "o" else (va + hn, "n%d:%s" % (imp[1], imp[2].hex() or "-"))))
                ent.append("0>!Null")
            expiat = "/".join(ent) or "-"
            kf = "f%d" % bits
            cases.append([img_line(rng, data, rng.choice([0, 8]), None), "from_bytes " + kf] + ops_for(rng, [kf, "wf"], exp, expiat))
    return cases


def gen_imports_corpus(rng, tier):
    """the repository's own binaries (file, and mapped by load-free reading as a view where possible)"""
    cases = []
    for fn, data in corpus_files():
        if len(data) < 0x40:
            continue
        case = [img_line(rng, data, 0, "e")]
        for k in ("f32", "f64", "wf", "v32", "v64", "wv"):
            case += ["imports %s dump" % k, "iat %s dump" % k]
        cases.append(case)
    return cases


def gen_imports_edge(rng, tier):
    """hand-picked shapes: empty directory, terminator only, descriptor array ending exactly at the
    end of the buffer, thunk arrays of both widths read with the other format's flag bit"""
    cases = []
    for bits in (32, 64):
        w = bits // 8
        for variant in range(8):
            dlls = [Dll(b"e.dll", [("n", 2, b"A"), ("o", 3)])] if variant != 0 else []
            pe, va = base_pe(rng, bits, 0x100, with_text=False)
            blob, info = lay_out(rng, bits, va, dlls, order="sitd", pad_front=0)
            blob = bytearray(blob)
            sec = pe.sections[-1]
            if variant == 2:
                blob = blob[:info["desc_end"] - 20]        # no terminator, array flush at the end
            elif variant == 3:
                blob = blob[:info["desc_end"] - 1]         # terminator cut by one byte
            elif variant == 4:
                blob = blob[:info["desc_end"] - 4]         # FirstThunk of the terminator missing
            elif variant == 5:
                # ordinal flag of the *other* width
                other = (1 << 31) | 7 if bits == 64 else 7
                base = info["dll"][0]["ilt"]
                blob[base:base + w] = other.to_bytes(w, "little")
            elif variant == 6:
                # by-name thunk whose hint is the last two bytes of the section
                base = info["dll"][0]["ilt"]
                blob[base:base + w] = (va + len(blob) - 2).to_bytes(w, "little")
            elif variant == 7:
                base = info["dll"][0]["ilt"]
                blob[base:base + w] = (0xFFFFFFFE).to_bytes(w, "little")
            sec.rs = sec.vs = len(blob)
            sec.data = bytes(blob)
            pe.file_len = sec.prd + sec.rs
            pe.dirs[1] = (va + info["desc_off"], 0)
            pe.dirs[12] = (va + info["iat_off"], info["iat_size"] + (variant % 3))
            data = pe.build()
            al = (-len(data)) % 16
            cases.append([img_line(rng, data, al if al % 4 == 0 else 0, "e")] + ops_for(rng, ["f%d" % bits, "wf"]))
            view = load_view(pe, data)
            if view is not None:
                view = view[:sec.va + sec.rs]
                al = (-len(view)) % 16
                cases.append([img_line(rng, view, al if al % 4 == 0 else 0, "e")] + ops_for(rng, ["v%d" % bits, "wv"]))
    return cases
