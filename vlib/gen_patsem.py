"""Generators for C11, semantic half: `pat_sem` (pattern STRING on the current image) and `pat_ref`
(pattern string on a raw buffer, model only).

Three parts:
* a grammar directed generator of pattern TREES over the documented syntax
      Item ::= hh | "text" | ? | [n] | [a-b] | % | $ | * | ' | @n | i1|i2|i4 | u1|u2|u4 | z | j{ body } | ( b1 | .. | bn )
  (nesting depth 0..4, every operator, operators adjacent to closing brackets, empty text, [0], [256], [257] ?,
  empty alternatives, alternatives bookmarking different numbers of slots), rendered with white space
  from {"", " ", "  ", TAB, LF, CRLF} between tokens and a uniform case per string;
* a layout synthesiser (`Synth`): bytes that SATISFY a tree at a cursor (exact bytes placed, wildcards random,
  jump operands pointing at fresh regions, one alternative chosen, `@n` adjusted to the cursor);
* emitters: the exact layout plus single byte perturbations / truncations, on a file image (f32 / f64), on the
  mapped image of the same description (v32 / v64) and on a flat buffer (`pat_ref`).
The oracle is the model's `## spec=`: the synthesiser only has to hit matches often enough.

`python3 -m vlib.gen_patsem` prints coverage statistics and writes the deviation witnesses under .work/c11/.
"""
import copy, struct
from .gen_img import img_line
from .gen_scan import make_pe, mapped_image

U32 = 0xFFFFFFFF
WS_CHOICES = ["", " ", "  ", "\t", "\n", "\r\n"]
TEXT_ASCII = [chr(c) for c in range(0x20, 0x7F) if c != 0x22]
TEXT_2BYTE = ["é", "ß", "Ж", "Ω", " ", "߿"]

# pattern hex -> operators of the tree / operators on the path the synthesiser satisfied (statistics only)
TREE_OPS = {}
SAT_OPS = {}


def hx(b):
    return bytes(b).hex() if b else "-"


def jwidth(j, ptr):
    return 1 if j == "%" else 4 if j == "$" else ptr


# ================================================================================================
# trees

def rand_text(rng, alpha):
    n = rng.choice([0, 1, 1, 2, 3, 4, 6])
    s = ""
    for _ in range(n):
        r = rng.random()
        if alpha and r < 0.5:
            c = chr(rng.choice(alpha))
            s += c if (0x20 <= ord(c) < 0x7F and c != '"') else "k"
        elif r < 0.9:
            s += rng.choice(TEXT_ASCII)
        else:
            s += rng.choice(TEXT_2BYTE)
    return s.encode("utf-8")


def gen_item(rng, depth, maxdepth, P):
    kinds = [("byte", 30), ("str", 6), ("any", 9), ("skip", 6), ("range", 6), ("jump", 4), ("save", 9),
             ("aligned", 4), ("read", 7), ("zero", 2)]
    if depth < maxdepth:
        kinds += [("group", 13), ("alt", 13)]
    tot = sum(w for _, w in kinds)
    r = rng.randrange(tot)
    for k, w in kinds:
        if r < w:
            break
        r -= w
    al = P["alpha"]
    rb = lambda: rng.choice(al) if al else rng.getrandbits(8)
    if k == "byte":
        return ("byte", rb())
    if k == "str":
        return ("str", rand_text(rng, al))
    if k == "any":
        return ("any",)
    if k == "skip":
        if P["bigs"] > 0 and rng.random() < 0.25:
            P["bigs"] -= 1
            return ("skip", rng.choice([255, 256, 257, 256, 300]))
        return ("skip", rng.choice([0, 0, 1, 1, 2, 3, 4, 5, 8, 16]))
    if k == "range":
        if P["bigr"] > 0 and rng.random() < 0.4:
            P["bigr"] -= 1
            a = rng.choice([0, 0, 1, 3, 255, 256, 300])
            return ("range", a, a + rng.choice([255, 256, 257, 300, 512, 513]))
        a = rng.choice([0, 0, 0, 1, 2, 3, 5])
        return ("range", a, a + rng.choice([1, 1, 2, 3, 4, 4, 8, 16]))
    if k == "jump":
        return ("jump", rng.choice("%$*"))
    if k == "save":
        return ("save",)
    if k == "aligned":
        return ("aligned", rng.choice([0, 1, 2, 3, 4, 5, 0, 1, 2, 3, 4, 5, 10, 12, 32, 35]))
    if k == "read":
        return (rng.choice(["readI", "readU"]), rng.choice([1, 2, 4]))
    if k == "zero":
        return ("zero",)
    if k == "group":
        return ("group", rng.choice("%$*"), gen_seq(rng, depth + 1, maxdepth, P))
    # alternatives
    nb = rng.choice([1, 2, 2, 2, 3, 3, 4])
    bodies = [gen_seq(rng, depth + 1, maxdepth, P) for _ in range(nb)]
    shape = rng.random()
    firsts = rng.sample(al, nb) if al and len(al) >= nb else rng.sample(range(256), nb)
    if shape < 0.5:
        # the realistic shape: every non-empty alternative starts with its own literal byte
        for b, f in zip(bodies, firsts):
            if b or rng.random() < 0.5:
                b.insert(0, ("byte", f))
    elif shape < 0.75:
        # a common prefix (a literal or a wild card), then the distinguishing byte: a failed alternative has
        # already moved the cursor / bookmarked something when it fails
        pre = rng.choice([[("byte", rb())], [("byte", rb())], [("any",)], [("byte", rb()), ("save",)], [("readU", 1)], [("save",), ("byte", rb())]])
        for b, f in zip(bodies, firsts):
            b[0:0] = list(pre) + [("byte", f)]
    if rng.random() < 0.25:
        bodies[rng.randrange(nb)] = []                               # ( | ) empty alternative
    if rng.random() < 0.3:
        b = rng.choice(bodies)                                       # different numbers of bookmarks
        for _ in range(rng.choice([1, 2])):
            b.insert(rng.randrange(len(b) + 1), rng.choice([("save",), ("save",), ("zero",), ("readU", 1)]))
    # known deviation (1): a range directly inside the LAST alternative.  Mostly avoided (hyp=0 there).
    if len(bodies) > 1 and open_range(bodies[-1]) and rng.random() < P.get("avoid1", 0.8):
        ok = [i for i, b in enumerate(bodies) if not open_range(b)]
        if ok:
            i = rng.choice(ok)
            bodies[i], bodies[-1] = bodies[-1], bodies[i]
        else:
            bodies.append([("byte", rb())] if rng.random() < 0.7 else [])
    return ("alt", bodies)


def open_range(items):
    """a `[a-b]` whose retry scope is this very sequence (directly in it or in the last alternative of an alt in it)"""
    for it in items:
        if it[0] == "range":
            return True
        if it[0] == "alt" and it[1] and open_range(it[1][-1]):
            return True
    return False


def gen_seq(rng, depth, maxdepth, P):
    n = rng.choice([0, 1, 1, 2, 2, 3, 3, 4, 5]) if depth else rng.choice([1, 2, 3, 3, 4, 5, 6, 8])
    out = []
    for _ in range(n):
        if P["budget"] <= 0:
            break
        P["budget"] -= 1
        it = gen_item(rng, depth, maxdepth, P)
        out.append(it)
        # operators right behind a closing bracket
        if it[0] in ("group", "alt") and rng.random() < 0.4:
            out.append(rng.choice([("any",), ("any",), ("skip", rng.choice([0, 1, 2, 3])), ("range", 0, rng.choice([1, 2, 3])),
                                   ("save",), ("aligned", 0), ("any",)]))
    return out


def gen_tree(rng, big=False, maxdepth=None, avoid=True):
    """`avoid`: mostly stay inside the fragment of Thm/C11.lean (no `[a-b]` open in a last alternative that is
    followed by more pattern, no trailing `[a-b]`); `avoid=False`: no such care (judged against `impl=`)"""
    maxdepth = rng.choice([0, 1, 1, 2, 2, 3, 3, 4, 4]) if maxdepth is None else maxdepth
    alpha = rng.sample(range(256), rng.choice([3, 4, 6])) if rng.random() < 0.45 else None
    P0 = {"budget": rng.choice([6, 10, 14, 20, 28, 36]), "alpha": alpha,
         "bigs": (1 if rng.random() < 0.25 else 0), "bigr": (1 if big and rng.random() < 0.5 else 0),
         "avoid1": 0.8 if avoid else 0.0}
    want = min(maxdepth, rng.choice([0, 1, 1, 2, 2, 3]))
    for _ in range(8):
        P = dict(P0)
        t = gen_seq(rng, 0, maxdepth, P)
        if depth_of(t) >= want:
            break
    # known deviation (2): a `[a-b]` the parser trims from the end of the pattern.  Mostly avoided.
    if avoid and trailing_range(t) and rng.random() < 0.85:
        t.append(rng.choice([("byte", rng.choice(alpha) if alpha else rng.getrandbits(8)), ("save",), ("readU", 1)]))
    return t, alpha


def trailing_range(items):
    """does the pattern end (up to things the parser trims) in a range: skips, `?`, closing braces"""
    for it in reversed(items):
        k = it[0]
        if k == "range":
            return True
        if k in ("any", "skip") or (k == "str" and not it[1]):
            continue
        if k == "group":
            return trailing_range(it[2]) if it[2] else False
        if k == "alt":
            return bool(it[1]) and trailing_range(it[1][-1])
        return False
    return False


B = lambda *xs: [("byte", x) for x in xs]
SPECIAL_TREES = [
    # [0], "", [256], [257] ?
    [("byte", 0x11), ("skip", 0), ("byte", 0x22)],
    [("byte", 0x11), ("str", b""), ("any",), ("str", b""), ("any",), ("byte", 0x22)],
    [("str", b""), ("save",)],
    [("byte", 0x11), ("skip", 256), ("byte", 0x22), ("save",)],
    [("byte", 0x11), ("skip", 257), ("any",), ("byte", 0x22)],
    [("byte", 0x11), ("skip", 255), ("any",), ("any",), ("byte", 0x22)],
    [("any",)] * 3 + [("byte", 0x33), ("any",), ("skip", 2), ("any",), ("save",)],
    # empty alternatives
    [("byte", 0x11), ("alt", [[], []]), ("byte", 0x22)],
    [("byte", 0x11), ("alt", [[], B(0x22)]), ("byte", 0x22)],
    [("byte", 0x11), ("alt", [B(0x22), []]), ("byte", 0x33)],
    [("byte", 0x11), ("alt", [[]]), ("save",)],
    [("alt", [B(0x22)]), ("any",), ("byte", 0x44)],
    # wild cards / skips / ranges right behind closing brackets (the fixed C11 defect: `(6a ? | 68 ?) ? e8`)
    [("alt", [B(0x6A) + [("any",)], B(0x68) + [("any",)]]), ("any",), ("byte", 0xE8)],
    [("alt", [B(0x6A) + [("any",)], B(0x68) + [("any",)] * 4]), ("skip", 2), ("byte", 0xE8)],
    [("byte", 0xE8), ("group", "$", [("save",), ("any",)]), ("any",), ("byte", 0xC3)],
    [("byte", 0xE8), ("group", "$", [("save",), ("byte", 0x55)]), ("skip", 3), ("save",)],
    [("byte", 0x74), ("group", "%", [("byte", 0xC3)]), ("range", 0, 3), ("byte", 0x90), ("save",)],
    [("alt", [B(0x01), B(0x02)]), ("range", 0, 4), ("byte", 0x90), ("save",)],
    # alternatives bookmarking different numbers of slots
    [("alt", [[("save",), ("save",), ("byte", 0xAA)], [("byte", 0xBB), ("save",)], B(0xCC)]), ("save",), ("readU", 1)],
    [("save",), ("alt", [B(0x10) + [("readU", 2), ("zero",), ("save",)], B(0x20) + [("readI", 1)]]), ("save",), ("alt", [[("save",)], []]), ("save",)],
    # every read / store operator
    [("readI", 1), ("readI", 2), ("readI", 4), ("readU", 1), ("readU", 2), ("readU", 4), ("zero",), ("save",)],
    [("byte", 0xE8), ("readI", 1), ("byte", 0xA0), ("readU", 4)],
    # jumps with and without braces
    [("byte", 0x74), ("jump", "%"), ("save",), ("byte", 0xC3)],
    [("byte", 0xE8), ("jump", "$"), ("save",), ("byte", 0x31), ("byte", 0xC0), ("byte", 0xC3)],
    [("byte", 0x68), ("jump", "*"), ("save",), ("byte", 0x31), ("byte", 0xC0), ("byte", 0xC3)],
    [("byte", 0xB8), ("jump", "*"), ("str", b"STRING"), ("byte", 0x00)],
    [("byte", 0xE8), ("group", "$", [("save",)]), ("byte", 0x83), ("byte", 0xF0), ("byte", 0x5C), ("byte", 0xC3)],
    [("byte", 0x68), ("group", "*", [("str", b"text"), ("save",)]), ("byte", 0x90)],
    [("byte", 0xEB), ("group", "%", []), ("byte", 0x90)],
    [("group", "%", [("group", "$", [("group", "*", [("group", "%", [("save",), ("byte", 0x99)]), ("save",)]), ("save",)]), ("save",)]), ("save",)],
    [("alt", [[("alt", [[("alt", [[("alt", [B(1), B(2)]), ("save",)], B(3)]), ("save",)], B(4)]), ("save",)], B(5)]), ("save",)],
    [("byte", 0xE8), ("jump", "$"), ("jump", "%"), ("jump", "*"), ("save",), ("byte", 0x77)],
    # alignment
    [("byte", 0xE8), ("jump", "$"), ("aligned", 4)],
    [("aligned", 0), ("byte", 1), ("aligned", 1), ("byte", 2), ("aligned", 2), ("save",)],
    [("aligned", 3), ("byte", 1), ("skip", 7), ("aligned", 3), ("save",)],
    [("aligned", 5), ("save",)], [("aligned", 32), ("aligned", 35), ("any",), ("aligned", 33), ("save",)], [("aligned", 10), ("byte", 0x4D)],
    # ranges
    [("byte", 0xB8), ("skip", 16), ("byte", 0x50), ("range", 13, 42), ("byte", 0xFF)],
    [("byte", 0xB8), ("range", 0, 1), ("byte", 0x50)],
    [("byte", 0xB8), ("range", 2, 5), ("save",), ("byte", 0x50), ("range", 0, 3), ("save",), ("byte", 0x51)],
    [("byte", 0xE8), ("group", "$", [("byte", 0x55), ("range", 0, 6), ("save",), ("byte", 0xC3)]), ("byte", 0x90)],
    [("alt", [B(0x55) + [("range", 0, 4), ("save",), ("byte", 0xC3)], B(0x56)]), ("byte", 0x90)],
    # text
    [("str", b"MZ"), ("any",), ("str", "éЖ".encode("utf-8")), ("save",)],
    [("str", b"a|b)c}d{'?[1]%$*@1i1"), ("byte", 0x00)],
    # the documentation's own examples
    [("byte", 0x55), ("byte", 0x89), ("byte", 0xE5), ("byte", 0x83), ("any",), ("byte", 0xEC)],
    [("byte", 0xB9), ("save",), ("byte", 0x37), ("byte", 0x13), ("byte", 0), ("byte", 0)],
    [("byte", 0x83), ("byte", 0xC0), ("byte", 0x2A), ("alt", [B(0x6A) + [("any",)], B(0x68) + [("any",)] * 4]), ("byte", 0xE8)],
]


# -------------------------------------------------------------------------------- tree measures

def slots_item(k, it):
    t = it[0]
    if t in ("save", "readI", "readU", "zero"):
        return k + 1
    if t == "group":
        return slots_seq(k, it[2])
    if t == "alt":
        return max([slots_seq(k, b) for b in it[1]] or [k])
    return k


def slots_seq(k, items):
    for it in items:
        k = slots_item(k, it)
    return k


def save_len(tree):
    return slots_seq(1, tree)


def fp_item(it, ptr):
    """upper bound of the bytes the item occupies in the linear run it sits in"""
    t = it[0]
    if t == "byte" or t == "any":
        return 1
    if t == "str":
        return len(it[1])
    if t == "skip":
        return it[1]
    if t == "range":
        return it[2]                 # the synthesiser may overshoot the (exclusive) upper bound by one
    if t in ("jump", "group"):
        return jwidth(it[1], ptr)
    if t in ("readI", "readU"):
        return it[1]
    if t == "alt":
        return max([fp_seq(b, ptr) for b in it[1]] or [0])
    return 0


def fp_seq(items, ptr):
    return sum(fp_item(it, ptr) for it in items)


def total_fp(items, ptr):
    """all regions together (every alternative, every brace body)"""
    n = 0
    for it in items:
        if it[0] == "group":
            n += jwidth(it[1], ptr) + total_fp(it[2], ptr) + 1
        elif it[0] == "alt":
            n += sum(total_fp(b, ptr) for b in it[1])
        else:
            n += fp_item(it, ptr) + (1 if it[0] == "jump" else 0)
    return n


def item_ops(it):
    """labels of one item (not of what it contains)"""
    t = it[0]
    if t == "byte": return ["hh"]
    if t == "str": return ['""' if not it[1] else '"text"']
    if t == "any": return ["?"]
    if t == "skip": return ["[0]" if it[1] == 0 else "[n>=256]" if it[1] >= 256 else "[n]"]
    if t == "range": return ["[a-b]>=256" if it[2] - it[1] >= 256 or it[1] >= 256 else "[a-b]"]
    if t == "jump": return [it[1]]
    if t == "save": return ["'"]
    if t == "aligned": return ["@n>=32" if it[1] >= 32 else "@%d" % it[1] if it[1] <= 5 else "@n"]
    if t == "readI": return ["i%d" % it[1]]
    if t == "readU": return ["u%d" % it[1]]
    if t == "zero": return ["z"]
    if t == "group": return [it[1] + "{}"] + (["j{}empty"] if not it[2] else [])
    if t == "alt":
        r = ["(|)"]
        if len(set(slots_seq(0, b) for b in it[1])) > 1:
            r.append("(|)slots-differ")
        return r
    return []


def adjacency_op(prev, it):
    if prev in ("group", "alt") and it[0] in ("any", "skip", "range"):
        return ["%s-after-%s" % ("?" if it[0] == "any" else "[n]" if it[0] == "skip" else "[a-b]", ")" if prev == "alt" else "}")]
    return []


def tree_ops(items, acc=None):
    acc = set() if acc is None else acc
    prev = None
    for it in items:
        acc.update(item_ops(it))
        acc.update(adjacency_op(prev, it))
        if it[0] == "group":
            tree_ops(it[2], acc)
        elif it[0] == "alt":
            if any(not b for b in it[1]):
                acc.add("(|)empty")
            for b in it[1]:
                tree_ops(b, acc)
        prev = it[0]
    return acc


def depth_of(items):
    d = 0
    for it in items:
        if it[0] == "group":
            d = max(d, 1 + depth_of(it[2]))
        elif it[0] == "alt":
            d = max([d] + [1 + depth_of(b) for b in it[1]])
    return d


# ================================================================================================
# rendering

class Style:
    def __init__(self, rng, mixed=False):
        self.upper_hex = rng.random() < 0.5
        self.upper_align = rng.random() < 0.5
        self.mixed = mixed          # non-uniform case: outside `render`'s image, inside the reference grammar (Thm/C11Grammar.lean)
        self.ws = rng.choice(["none", "space", "space", "mixed", "mixed", "mixed"])
        self.rng = rng

    def hexpair(self, b):
        s = "%02x" % b
        if self.mixed:
            return "".join(c.upper() if self.rng.random() < 0.5 else c for c in s)
        return s.upper() if self.upper_hex else s

    def align(self, n):
        if n < 10:
            return chr(48 + n)
        c = chr(87 + n)
        if self.mixed:
            return c.upper() if self.rng.random() < 0.5 else c
        return c.upper() if self.upper_align else c

    def gap(self):
        if self.ws == "none":
            return ""
        if self.ws == "space":
            return " "
        return self.rng.choice(WS_CHOICES)


class FreeStyle(Style):
    """EVERY documented spelling (the reference grammar `readPat`, Thm/C11Grammar.lean): letter case chosen per hex
    digit and per `@` operand, decimal numbers with leading zeros, any of the admitted white space"""

    def __init__(self, rng):
        Style.__init__(self, rng, mixed=True)
        self.ws = rng.choice(["none", "space", "mixed", "mixed"])
        self.zeros = rng.choice([0, 1, 1, 2])

    def dec(self, n):
        return "0" * self.rng.choice([0, 0, self.zeros, 3 * self.zeros]) + str(n)


def tokens(items, sty):
    """flat token list; white space may go between any two tokens, never inside one"""
    out = []
    dec = getattr(sty, "dec", str)
    for it in items:
        t = it[0]
        if t == "byte": out.append(sty.hexpair(it[1]))
        elif t == "str": out.append('"' + it[1].decode("utf-8") + '"')
        elif t == "any": out.append("?")
        elif t == "skip": out.append("[%s]" % dec(it[1]))
        elif t == "range": out.append("[%s-%s]" % (dec(it[1]), dec(it[2])))
        elif t == "jump": out.append(it[1])
        elif t == "save": out.append("'")
        elif t == "aligned": out.append("@" + sty.align(it[1]))
        elif t == "readI": out.append("i%d" % it[1])
        elif t == "readU": out.append("u%d" % it[1])
        elif t == "zero": out.append("z")
        elif t == "group":
            out += [it[1], "{"] + tokens(it[2], sty) + ["}"]
        elif t == "alt":
            out.append("(")
            for i, b in enumerate(it[1]):
                if i:
                    out.append("|")
                out += tokens(b, sty)
            out.append(")")
    return out


def render(items, sty):
    toks = tokens(items, sty)
    s = sty.gap() if sty.rng.random() < 0.3 else ""
    for i, t in enumerate(toks):
        s += t
        if i + 1 < len(toks):
            s += sty.gap()
    if sty.rng.random() < 0.3:
        s += sty.gap()
    return s


def render_some(rng, tree, n, styler=None):
    """n spellings of the tree as hex of the UTF-8 bytes (mostly uniform case = inside the hypotheses of T3;
    `styler=FreeStyle`: any documented spelling)"""
    out = []
    for _ in range(n):
        s = render(tree, styler(rng) if styler else Style(rng, mixed=rng.random() < 0.05))
        h = hx(s.encode("utf-8"))
        if h not in out:
            out.append(h)
    return out


# ================================================================================================
# layout synthesiser

FREE, RES, EXACT, OPER, WILD, READ = range(6)


class Fail(Exception):
    pass


def first_lit(items):
    """the literal byte the sequence must see first, when that is evident"""
    for it in items:
        t = it[0]
        if t == "byte":
            return it[1]
        if t == "str":
            if it[1]:
                return it[1][0]
            continue
        if t in ("save", "zero", "aligned") or (t == "skip" and it[1] == 0):
            continue
        return None
    return None


def cant_fail(items):
    """matches at any cursor inside the data (nothing is compared)"""
    for it in items:
        t = it[0]
        if t in ("save", "zero", "any", "skip", "readI", "readU") or (t == "str" and not it[1]) or (t == "aligned" and it[1] >= 32):
            continue
        if t == "alt" and any(cant_fail(b) for b in it[1][:1]):
            continue
        return False
    return True


class Synth:
    """a memory region `[0, n)` standing for the rvas `base .. base+n`"""

    def __init__(self, rng, n, base, ptr, va_of, alpha):
        self.rng, self.n, self.base, self.ptr, self.va_of, self.alpha = rng, n, base, ptr, va_of, alpha
        self.val = [None] * n
        self.kind = [FREE] * n
        self.avoid = {}
        self.ops = set()
        self.sites = []          # (item list, index, kind, info): tokens on the satisfied path that variants change
        self.unsat = False       # a deliberately unsatisfied choice was made (range over / undershoot)

    # ---- memory
    def reserve(self, need, align=1, window=None):
        need = max(need, 1)
        lo, hi = 0, self.n - need
        if window:
            lo, hi = max(lo, window[0]), min(hi, window[1])
        if hi < lo:
            raise Fail("no room")
        pre = [0] * (self.n + 1)
        for i, k in enumerate(self.kind):
            pre[i + 1] = pre[i] + (k != FREE)
        cands = [s for s in range(lo, hi + 1) if pre[s + need] == pre[s] and (self.base + s) % align == 0]
        if not cands:
            raise Fail("no room")
        r = self.rng.random()
        s = cands[0] if r < 0.25 else cands[-1] if r < 0.45 else self.rng.choice(cands)
        for q in range(s, s + need):
            self.kind[q] = RES
        return s

    def put(self, off, b, kind):
        if not (0 <= off < self.n):
            raise Fail("outside")
        if self.val[off] is not None and self.val[off] != b:
            raise Fail("conflict")
        self.val[off], self.kind[off] = b, kind

    def wild(self, off):
        if 0 <= off < self.n and self.val[off] is None:
            self.kind[off] = WILD

    def rnd(self):
        return self.rng.choice(self.alpha) if self.alpha and self.rng.random() < 0.7 else self.rng.getrandbits(8)

    # ---- items
    def lay_jump(self, j, c, need, body):
        w = jwidth(j, self.ptr)
        align = self.rng.choice([1, 1, 1, 2, 4, 8, 16])
        for it in body[:2]:
            if it[0] == "aligned" and it[1] <= 5 and self.rng.random() < 0.8:
                align = max(align, 1 << it[1])
        if j == "%":
            t = self.reserve(need, align, (c + 1 - 128, c + 1 + 127))
            bs = [(t - (c + 1)) & 0xFF]
        elif j == "$":
            t = self.reserve(need, align)
            bs = list(struct.pack("<I", (t - (c + 4)) & U32))
        else:
            t = self.reserve(need, align)
            bs = list(self.va_of(t).to_bytes(w, "little"))
        for q, b in enumerate(bs):
            self.put(c + q, b, OPER)
        return t

    def lay_seq(self, items, c, tail):
        for i in range(len(items)):
            it = items[i]
            rest = items[i + 1:]
            t = it[0]
            self.ops.update(adjacency_op(items[i - 1][0] if i else None, it))
            if t != "aligned":
                self.ops.update(item_ops(it))
            if t == "byte":
                self.put(c, it[1], EXACT); c += 1
                self.sites.append((items, i, "byte", None))
            elif t == "str":
                for b in it[1]:
                    self.put(c, b, EXACT); c += 1
            elif t == "any":
                self.wild(c); c += 1
            elif t == "skip":
                for q in range(c, min(c + it[1], self.n)):
                    self.wild(q)
                c += it[1]
                self.sites.append((items, i, "skip", None))
            elif t == "range":
                a, b = it[1], it[2]
                r = self.rng.random()
                if r < 0.08:
                    s = b                          # one more than the (exclusive) upper bound allows: no match
                    self.unsat = True
                elif r < 0.12 and a >= 1:
                    s = a - 1                      # one less than the lower bound
                    self.unsat = True
                else:
                    s = self.rng.choice([a, a, b - 1, b - 1, min(a + 1, b - 1), self.rng.randrange(a, b)])
                    self.sites.append((items, i, "range", s))
                x = first_lit(rest)
                for q in range(c, min(c + max(s, b), self.n)):
                    if q < c + s:
                        self.wild(q)
                    if q >= c + a and q != c + s and x is not None and self.kind[q] in (RES, WILD):
                        self.avoid.setdefault(q, set()).add(x)      # the rest must not match at another candidate
                c += s
            elif t == "jump":
                c = self.lay_jump(it[1], c, fp_seq(rest, self.ptr) + tail, rest)
            elif t == "group":
                tgt = self.lay_jump(it[1], c, fp_seq(it[2], self.ptr), it[2])
                self.lay_seq(it[2], tgt, 0)
                c += jwidth(it[1], self.ptr)
            elif t == "aligned":
                n = it[1]
                rva = self.base + c
                tz = (rva & -rva).bit_length() - 1 if rva else 32
                if n < 32 and rva % (1 << n) != 0 and self.rng.random() < 0.9:
                    # adjust the tree to the cursor: the largest alignment that holds, or any smaller one
                    items[i] = ("aligned", tz if self.rng.random() < 0.4 else self.rng.randrange(0, min(tz, 5) + 1))
                self.ops.update(item_ops(items[i]))
                self.sites.append((items, i, "aligned", tz))
            elif t in ("readI", "readU"):
                for q in range(it[1]):
                    v = self.rnd() if self.rng.random() < 0.7 else self.rng.choice([0, 0x7F, 0x80, 0xFF])
                    self.put(c + q, v, READ)
                c += it[1]
                self.sites.append((items, i, "read", None))
            elif t == "alt":
                bodies = it[1]
                if not bodies:
                    raise Fail("no alternative")
                j = self.rng.choice([0] + list(range(len(bodies))) * 2)
                for q in range(j):
                    if cant_fail(bodies[q]):               # matches whatever the bytes are: it is the one taken
                        j = q
                        break
                c0 = c
                if not bodies[j]:
                    self.ops.add("(|)empty")
                if j > 0:
                    self.ops.add("(|)later-alternative")
                c = self.lay_seq(bodies[j], c, fp_seq(rest, self.ptr) + tail)
                for q in range(j):
                    x = first_lit(bodies[q])
                    if x is not None and 0 <= c0 < self.n and self.val[c0] is None:
                        self.avoid.setdefault(c0, set()).add(x)
            # save / zero: nothing to lay out
        return c

    def finish(self):
        out = bytearray(self.n)
        for q in range(self.n):
            if self.val[q] is not None:
                out[q] = self.val[q]
                continue
            av = self.avoid.get(q, ())
            v = self.rnd()
            for _ in range(12):
                if v not in av:
                    break
                v = self.rng.getrandbits(8)
            out[q] = v
        return out


def synth(rng, tree, size, base, ptr, va_of, alpha, tries=8):
    """-> (adjusted tree, Synth, start offset, bytes) or None"""
    for _ in range(tries):
        t = copy.deepcopy(tree)
        S = Synth(rng, size, base, ptr, va_of, alpha)
        try:
            al = 1
            for it in t[:2]:
                if it[0] == "aligned" and it[1] <= 12:
                    al = 1 << it[1]
            if al > 32 and base % al == 0:
                start = S.reserve(fp_seq(t, ptr), 1, (0, 0))           # `@a`: only the section start is that aligned
            else:
                start = S.reserve(fp_seq(t, ptr), max(min(al, 32), rng.choice([1, 1, 2, 4, 8, 16])))
            S.lay_seq(t, start, 0)
        except Fail:
            continue
        return t, S, start, S.finish()
    return None


def perturbations(rng, S, data, n):
    """single byte changes inside the used region: mostly exact bytes / jump operands, sometimes wildcards"""
    hard = [q for q in range(S.n) if S.kind[q] in (EXACT, OPER)]
    soft = [q for q in range(S.n) if S.kind[q] in (WILD, READ)]
    out = []
    for _ in range(n):
        pool = hard if (hard and (not soft or rng.random() < 0.75)) else soft
        if not pool:
            break
        q = rng.choice(pool)
        d = bytearray(data)
        d[q] ^= rng.choice([1, 1, 0x80, 0xFF, rng.randrange(1, 256)])
        out.append(bytes(d))
    return out


def pattern_variants(rng, S, tree, n):
    """single token changes of the pattern on the satisfied path (the bytes stay): the alignment at and just
    above what the cursor has, range bounds at and just beside the skip the layout uses, a literal changed,
    sign <-> zero extension, a fixed skip one longer / shorter -> list of pattern hex strings"""
    sharp = [x for x in S.sites if x[2] in ("aligned", "range")]
    other = [x for x in S.sites if x[2] not in ("aligned", "range")]
    rng.shuffle(sharp); rng.shuffle(other)
    out = []
    for (items, i, kind, info) in (sharp + other)[:n]:
        old = items[i]
        alts = []
        if kind == "byte":
            alts = [("byte", old[1] ^ rng.choice([1, 0x80, 0xFF, 0x20]))]
        elif kind == "aligned":
            tz = info
            alts = [("aligned", min(tz, 31))] + ([("aligned", tz + 1)] if tz + 1 < 32 else [("aligned", 35)])
        elif kind == "range":
            a, b, sk = old[1], old[2], info
            alts = [("range", a, sk + 1), ("range", sk, sk + rng.choice([1, 2, 5])), ("range", sk + 1, sk + 3)]
            if a < sk:
                alts.append(("range", a, sk))
            rng.shuffle(alts)
            alts = alts[:3]
        elif kind == "read":
            alts = [("readU" if old[0] == "readI" else "readI", old[1])]
        elif kind == "skip":
            alts = [("skip", old[1] + 1)] + ([("skip", old[1] - 1)] if old[1] else [])
        for new in alts:
            items[i] = new
            sty = Style(rng)
            h = hx(render(tree, sty).encode("utf-8"))
            TREE_OPS[h] = tree_ops(tree)
            SAT_OPS[h] = (set(S.ops) - set(item_ops(old))) | set(item_ops(new))
            out.append(h)
        items[i] = old
    return out


def used_end(S):
    u = [q for q in range(S.n) if S.kind[q] in (EXACT, OPER, WILD, READ)]
    return (max(u) + 1) if u else 0


def nsaves(rng, sl, full):
    c = [0, 1, sl - 1, sl, sl + 2]
    c = sorted(set(x for x in c if x >= 0))
    if full:
        return c
    return [rng.choice([sl, sl, sl, sl + 2, max(sl - 1, 0), 1])]


# ================================================================================================
# image based cases

def new_pe(rng, bits):
    pe = make_pe(rng, bits=bits, nsec=rng.choice([1, 1, 2, 3]), alpha=None, wf=True)
    pe.build()
    return pe


def set_data(rng, pe, data, vsmode):
    s = pe.sections[-1]
    n = len(data)
    s.rs = n
    s.vs = n if vsmode == 0 else n + vsmode if vsmode > 0 else max(1, n + vsmode)
    s.data = bytes(data)
    pe.size_of_image = None
    return pe.build()


def image_pair(rng, pe, data, vsmode, tight_view=False):
    """-> (img line of the file image, img line of the mapped image)"""
    f = set_data(rng, pe, data, vsmode)
    s = pe.sections[-1]
    cut = None
    if tight_view:
        cut = max(0, pe.layout["size_of_image"] - (s.va + len(data)))
    v = mapped_image(pe, f, cut=cut)
    al = lambda: rng.choice([0, 0, 8, 8, 0, 8, 0, 8, 4, 12])
    return img_line(rng, f, al()), img_line(rng, v, al())


def sem_op(k, ph, cursor, ns):
    return "pat_sem %s %s 0x%x %d" % (k, ph, cursor & U32, ns)


def note_ops(ph, tree, S):
    TREE_OPS[ph] = tree_ops(tree)
    SAT_OPS[ph] = set(S.ops) if S is not None else set()


def has_ptr(items):
    """does the tree contain a pointer jump (`*` / `*{..}`)?"""
    for it in items:
        if it[0] in ("jump", "group") and it[1] == "*":
            return True
        if it[0] == "group" and has_ptr(it[2]):
            return True
        if it[0] == "alt" and any(has_ptr(b) for b in it[1]):
            return True
    return False


def image_tree_cases(rng, tree, alpha, bits, nperturb, edge, nvar=4, styler=None):
    """all cases of one tree: exact layout, perturbations, truncations; file + view"""
    ptr = bits // 8
    need = total_fp(tree, ptr)
    if need > 0x500:
        return []
    size = min(0x700, max(0x40, 2 * need + rng.choice([16, 48, 96])))
    pe = new_pe(rng, bits)
    if tree and tree[0][0] == "aligned" and 6 <= tree[0][1] <= 12:
        for _ in range(40):                      # `@a` and the like: a data section that is aligned that much
            if pe.sections[-1].va % (1 << tree[0][1]) == 0:
                break
            pe = new_pe(rng, bits)
    sec = pe.sections[-1]
    base = sec.va
    ib = pe.image_base
    r = synth(rng, tree, size, base, ptr, lambda off: ib + base + off, alpha)
    if r is None:
        return []
    tree, S, start, data = r
    cur = base + start
    sl = save_len(tree)
    phs = render_some(rng, tree, 2, styler)
    for ph in phs:
        note_ops(ph, tree, S)
    kf, kv = "f%d" % bits, "v%d" % bits
    vsmode = rng.choice([0, 0, 0, 1, 5, 0x40, 0x40, -1])
    cases = []

    def both(d, fops, tight=False, vm=vsmode):
        fl, vl = image_pair(rng, pe, d, vm, tight_view=tight)
        cases.append([fl] + [o.replace("pat_sem K ", "pat_sem %s " % kf) for o in fops])
        cases.append([vl] + [o.replace("pat_sem K ", "pat_sem %s " % kv) for o in fops])

    # the exact layout: every save length, both spellings, cursors around
    ops = [sem_op("K", phs[0], cur, ns) for ns in nsaves(rng, sl, True)]
    for ph in phs[1:]:
        ops.append(sem_op("K", ph, cur, sl))
    for ph in pattern_variants(rng, S, tree, nvar):
        ops.append(sem_op("K", ph, cur, sl))
    if edge:
        end = base + len(data)
        for c in rng.sample([cur + 1, cur - 1, end, end - 1, base, 0x3C, 0, U32, base - 1, pe.layout["size_of_image"]], 4):
            ops.append(sem_op("K", phs[0], c, sl))
    both(data, ops)
    # a pointer operand (`*`) is translated against the base address OF THE VIEW: the same tree laid out with
    # pointers relative to another base, read through `set_base_address(that base)` (matches), and the original
    # layout through the rebased view / the rebased layout through the plain view (round-5 change C11-r5-3:
    # `va_to_rva` took the base from the optional header)
    if has_ptr(tree) and rng.random() < 0.6:
        mask = (1 << bits) - 1
        nb = (ib + rng.choice([8, 0x10, 0x1000, -0x1000, 0x10000, 1 << (bits - 1), -ib])) & mask
        r2 = synth(rng, tree, size, base, ptr, lambda off: (nb + base + off) & mask, alpha)
        if r2 is not None and r2[0] == tree:
            _t2, S2, start2, data2 = r2
            kb = "%s@0x%x" % (kv, nb)
            _fl, vl = image_pair(rng, pe, data2, vsmode)
            cases.append([vl, sem_op(kb, phs[0], base + start2, sl), sem_op(kv, phs[0], base + start2, sl)])
            _fl, vl = image_pair(rng, pe, data, vsmode)
            cases.append([vl, sem_op(kb, phs[0], cur, sl)])
    # single byte perturbations
    for d in perturbations(rng, S, data, nperturb):
        both(d, [sem_op("K", phs[-1], cur, ns) for ns in nsaves(rng, sl, False)])
    # the section / the mapped image ends right behind the last byte the layout uses, and one byte earlier
    if edge:
        ue = used_end(S)
        if ue > start:
            for cutn in (ue, ue - 1):
                if cutn >= 1:
                    both(data[:cutn], [sem_op("K", phs[0], cur, sl)], tight=True, vm=rng.choice([0, 0, 3]))
    return cases


def gen_sem_special(rng, tier):
    """the hand-written corner trees on images of both widths"""
    cases = []
    reps = 1 if tier == "quick" else 10
    for _ in range(reps):
        for i, tree in enumerate(SPECIAL_TREES):
            bits = 32 if (i + _) % 2 == 0 else 64
            if tier != "quick" or rng.random() < 0.5:
                cases += image_tree_cases(rng, tree, None, bits, 1 if tier == "quick" else 3, edge=(tier != "quick" and rng.random() < 0.5))
            else:
                cases += image_tree_cases(rng, tree, None, bits, 0, edge=False)
    return cases


def gen_sem_random(rng, tier):
    """random trees: exact layouts, perturbations, cursors off by one / at the section end / in the headers"""
    cases = []
    n = 60 if tier == "quick" else 3000
    made = 0
    guard = 0
    while made < n and guard < 20 * n:
        guard += 1
        tree, alpha = gen_tree(rng, big=False)
        cs = image_tree_cases(rng, tree, alpha, rng.choice([32, 64]), rng.choice([2, 3, 4]), edge=rng.random() < 0.5)
        if cs:
            made += 1
            cases += cs
    return cases


# ================================================================================================
# raw buffer cases (model vs. specification)

def ref_op(ph, data, cursor, ns, width):
    return "pat_ref %s %s %d %d %d" % (ph, hx(data), cursor, ns, width)


def raw_tree_case(rng, tree, alpha, width, nperturb):
    ptr = width // 8
    need = total_fp(tree, ptr)
    if need > 0x1400:
        return None
    size = max(0x20, 2 * need + rng.choice([8, 32, 64])) if need < 0x300 else need + need // 2 + 64
    hi = rng.getrandbits(32) if (ptr == 8 and rng.random() < 0.2) else 0      # `pointer` truncates to 32 bits

    r = synth(rng, tree, size, 0, ptr, lambda off: off | (hi << 32), alpha)
    if r is None:
        return None
    tree, S, start, data = r
    sl = save_len(tree)
    phs = render_some(rng, tree, 2)
    for ph in phs:
        note_ops(ph, tree, S)
    ops = [ref_op(phs[0], data, start, ns, width) for ns in nsaves(rng, sl, True)]
    for ph in phs[1:]:
        ops.append(ref_op(ph, data, start, sl, width))
    for ph in pattern_variants(rng, S, tree, 5):
        ops.append(ref_op(ph, data, start, sl, width))
    for c in rng.sample([start + 1, max(start - 1, 0), len(data), len(data) - 1, 0, len(data) + 1, U32], 3):
        ops.append(ref_op(phs[0], data, c, sl, width))
    for d in perturbations(rng, S, data, nperturb):
        ops.append(ref_op(phs[-1], d, start, sl, width))
    ue = used_end(S)
    if ue > start:
        ops.append(ref_op(phs[0], data[:ue], start, sl, width))            # buffer ends behind the last used byte
        if ue - 1 >= 1:
            ops.append(ref_op(phs[0], data[:ue - 1], start, sl, width))    # ... and one byte earlier
    return ops


def gen_ref(rng, tier):
    """flat buffers: rva = offset, pointer = identity; includes `[a-b]` with bounds >= 256"""
    cases = []
    for i, tree in enumerate(SPECIAL_TREES):
        c = raw_tree_case(rng, tree, None, 32 if i % 2 else 64, 2)
        if c:
            cases.append(c)
    n = 300 if tier == "quick" else 15000
    made = guard = 0
    while made < n and guard < 20 * n:
        guard += 1
        tree, alpha = gen_tree(rng, big=True)
        c = raw_tree_case(rng, tree, alpha, rng.choice([32, 64]), rng.choice([2, 3, 4, 5]))
        if c:
            made += 1
            cases.append(c)
    return cases


# ================================================================================================
# the two known deviations of the interpreter from the documented semantics, on the real code

def _plain(s):
    return hx(s.encode("utf-8"))


def deviation_cases(rng):
    """-> list of (label, kind, img line, op lines)"""
    out = []
    for bits in (32, 64):
        kf, kv = "f%d" % bits, "v%d" % bits
        # (1) `[a-b]` directly inside the LAST alternative retries over the rest of the enclosing group
        pe = new_pe(rng, bits)
        base = pe.sections[-1].va
        data = bytes([0xBB, 0xBB, 0xCC, 0x00, 0xAA, 0xCC, 0xBB, 0xCC, 0x11, 0x22, 0x33, 0x44, 0x55, 0x66, 0x77, 0x88])
        f = set_data(rng, pe, data, 0)
        v = mapped_image(pe, f)
        ops1 = lambda k: [
            sem_op(k, _plain("(aa|[0-3]bb)cc"), base, 1),            # documented: [0-3] commits to the first bb, cc fails; implemented: retried
            sem_op(k, _plain("([0-3]bb|aa)cc"), base, 1),            # same range in a non-last alternative: committed, as documented
            sem_op(k, _plain("( AA | [0-3] BB ' ) CC '"), base, 3),
            sem_op(k, _plain("(aa|[0-3]bb)cc"), base + 4, 1),        # first alternative: plain match
            sem_op(k, _plain("(aa|[0-3]bb)cc"), base + 6, 1),        # last alternative without retry: plain match
        ]
        out.append(("dev1", kf, img_line(rng, f, 0, "e"), ops1(kf)))
        out.append(("dev1", kv, img_line(rng, v, 0, "e"), ops1(kv)))
        # (2) a trailing `[a-b]` is trimmed by the parser: matches where an untrimmed range cannot
        pe = new_pe(rng, bits)
        base = pe.sections[-1].va
        data = bytes([0x10, 0x20, 0x30, 0x40, 0xAA, 0xAA, 0x00, 0xAA])            # `aa` = last byte of the raw data
        f = set_data(rng, pe, data, 0)
        cut = pe.layout["size_of_image"] - (base + len(data))
        v = mapped_image(pe, f, cut=cut)                                          # ... = last byte of the mapped image
        last = base + len(data) - 1
        ops2 = lambda k: [
            sem_op(k, _plain("aa [0-5]"), last, 1),                  # trimmed: matches; documented: no position to skip to
            sem_op(k, _plain("aa [0-5] '"), last, 2),                # not trimmed: the range is executed and fails
            sem_op(k, _plain("aa [0-5]"), last - 3, 1),              # away from the end both agree
            sem_op(k, _plain("AA [1-3] ? [2]"), last, 1),
            sem_op(k, _plain("% { aa [0-5] }"), last - 1, 1),        # the trimmed range sits in a trailing brace group
        ]
        out.append(("dev2", kf, img_line(rng, f, 0, "e"), ops2(kf)))
        out.append(("dev2", kv, img_line(rng, v, 0, "e"), ops2(kv)))
    return out


def gen_deviation_witnesses(rng, tier):
    """image based witnesses of the two known deviations (hyp=0: correspondence only)"""
    return [[img] + ops for (_, _, img, ops) in deviation_cases(rng)]


# ================================================================================================
# OUTSIDE the fragment of Thm/C11.lean: well-formed patterns judged against the second reference semantics
# (`## impl=`, Thm/C11Impl.lean: unconditional)

def _alts_in(items, acc):
    for it in items:
        if it[0] == "group":
            _alts_in(it[2], acc)
        elif it[0] == "alt":
            acc.append((items, it))
            for b in it[1]:
                _alts_in(b, acc)
    return acc


def push_outside(rng, tree, alpha):
    """make the tree leave the fragment: a `[a-b]` into the last alternative of some `( | )` that is followed by
    more pattern, and / or a trailing `[a-b]` (possibly behind `?` / `[n]`, inside a trailing brace body / last
    alternative)"""
    rb = lambda: rng.choice(alpha) if alpha else rng.getrandbits(8)
    rr = lambda: (lambda a: ("range", a, a + rng.choice([1, 2, 3, 4, 8])))(rng.choice([0, 0, 0, 1, 2]))
    alts = _alts_in(tree, [])
    if alts and rng.random() < 0.75:
        seq, alt = rng.choice(alts)
        last = alt[1][-1]
        last.insert(rng.randrange(len(last) + 1), rr())
        if rng.random() < 0.7:
            last.append(("byte", rb()))
        i = [j for j, x in enumerate(seq) if x is alt][0]
        if i + 1 >= len(seq) or rng.random() < 0.3:
            seq.insert(i + 1, rng.choice([("byte", rb()), ("byte", rb()), ("save",), ("readU", 1)]))
    if not alts or rng.random() < 0.4:
        # a trailing range: at the end of the innermost sequence that ends the pattern
        seq = tree
        while seq and seq[-1][0] in ("group", "alt") and rng.random() < 0.7:
            it = seq[-1]
            if it[0] == "group":
                seq = it[2]
            elif it[1]:
                seq = it[1][-1]
            else:
                break
        seq.append(rr())
        for _ in range(rng.choice([0, 0, 1, 2])):
            seq.append(rng.choice([("any",), ("skip", rng.choice([0, 1, 3])), ("str", b""), rr()]))
    return tree


def gen_sem_outside_random(rng, tier):
    """random trees pushed out of the fragment: layouts, perturbations, edges (file + view)"""
    cases = []
    n = 60 if tier == "quick" else 3000
    made = guard = 0
    while made < n and guard < 20 * n:
        guard += 1
        tree, alpha = gen_tree(rng, big=False, avoid=False)
        tree = push_outside(rng, tree, alpha)
        cs = image_tree_cases(rng, tree, alpha, rng.choice([32, 64]), rng.choice([2, 3, 4]), edge=rng.random() < 0.6)
        if cs:
            made += 1
            cases += cs
    return cases


def _hexs(bs, up):
    return " ".join(("%02X" if up else "%02x") % b for b in bs)


def retry_cases(rng, bits):
    """`pre ( A | [a-b] X ) Y` and relatives on data with a DECOY: at an earlier candidate the rest of the last
    alternative matches but what follows the `)` does not.  The implementation (and `denoteImpl`) retries, the
    committed-choice reading (`denote`) does not.  -> cases"""
    kf, kv = "f%d" % bits, "v%d" % bits
    up = rng.random() < 0.5
    a = rng.choice([0, 0, 1, 2])
    width = rng.choice([2, 3, 4, 6, 8])
    b = a + width
    pool = rng.sample(range(1, 256), 16)
    pre, A, Bb = [pool[0], pool[1]][:rng.choice([1, 2])], [pool[2]], [pool[3]]
    X = pool[4:4 + rng.choice([1, 2])]
    Y = pool[6:6 + rng.choice([1, 2])]
    Z = pool[8:8 + rng.choice([1, 2])]
    form = rng.choice(["flat", "flat", "nested", "group", "first", "three"])
    sv = rng.random() < 0.6
    q = "'" if sv else ""
    hs = lambda bs: _hexs(bs, up)
    if form == "flat":
        pat, R, ns = "%s ( %s | [%d-%d] %s %s) %s %s" % (hs(pre), hs(A), a, b, hs(X), q, hs(Y), q), X + Y, 1 + 2 * sv
    elif form == "three":
        pat, R, ns = "%s ( %s | %s | [%d-%d] %s %s) %s %s" % (hs(pre), hs(A), hs(Bb), a, b, hs(X), q, hs(Y), q), X + Y, 1 + 2 * sv
    elif form == "nested":
        pat, R, ns = "%s ( %s | ( %s | [%d-%d] %s %s) %s ) %s %s" % (hs(pre), hs(A), hs(Bb), a, b, hs(X), q, hs(Y), hs(Z), q), X + Y + Z, 1 + 2 * sv
    elif form == "first":     # the contrast: the range in a NON-last alternative is a committed choice in both readings
        pat, R, ns = "%s ( [%d-%d] %s %s| %s ) %s %s" % (hs(pre), a, b, hs(X), q, hs(A), hs(Y), q), X + Y, 1 + 2 * sv
    else:                     # inside a brace body: the retry stops at the `}`
        pat, R, ns = "%s $ { %s ( %s | [%d-%d] %s %s) %s } u1 %s" % (hs([0xE8]), hs(pre), hs(A), a, b, hs(X), q, hs(Y), hs(Z)), X + Y, 2 + sv
    fill = [x for x in pool[10:] if x != R[0]]
    s2 = rng.randrange(0, width + (1 if rng.random() < 0.15 else 0))       # sometimes one beyond the bound: no match
    mode = rng.choice(["decoy", "decoy", "decoy", "plain", "early"])
    n = a + width + len(R) + 8
    win = [rng.choice(fill) for _ in range(n)]
    win[a + s2:a + s2 + len(R)] = R
    if mode != "plain" and s2 >= 1:
        s1 = rng.randrange(0, s2)
        # the decoy agrees with the rest on `d` bytes: d >= len(X) passes the alternative and fails behind the `)`
        d = rng.randrange(len(X), len(R)) if mode == "decoy" else rng.randrange(0, len(X))
        for i in range(d):
            if a + s1 + i < a + s2:
                win[a + s1 + i] = R[i]
    body = pre + win
    head = [rng.getrandbits(8) for _ in range(rng.choice([1, 4, 9]))]
    if form == "group":
        # e8 rel32 <u1> <Z...> ... body
        gapn = rng.choice([3, 8])
        data = head + [0xE8] + list(struct.pack("<I", 1 + len(Z) + gapn)) + [rng.getrandbits(8)] + Z + \
            [rng.getrandbits(8) for _ in range(gapn)] + body
    else:
        data = head + body
    data = bytes(data + [rng.getrandbits(8) for _ in range(rng.choice([0, 0, 5]))])
    pe = new_pe(rng, bits)
    base = pe.sections[-1].va
    cur = base + len(head)
    fl, vl = image_pair(rng, pe, data, rng.choice([0, 0, 1, 0x40]))
    ph = _plain(pat)
    ops = lambda k: [sem_op(k, ph, cur, ns), sem_op(k, ph, cur, rng.choice([0, 1, ns + 2])), sem_op(k, ph, cur + 1, ns)]
    return [[fl] + ops(kf), [vl] + ops(kv)]


def trailing_cases(rng, bits):
    """a trailing `[a-b]` (plain, behind `?` / `[n]` / `""`, inside a trailing brace body or last alternative) with the
    literal part at the very END of the section / mapped image and in the middle; contrasts: `[a-b] '`, the range in a
    non-last alternative -> cases"""
    kf, kv = "f%d" % bits, "v%d" % bits
    up = rng.random() < 0.5
    hs = lambda bs: _hexs(bs, up)
    pool = rng.sample(range(1, 256), 8)
    Pb = pool[:rng.choice([1, 2, 3])]
    a = rng.choice([0, 0, 1, 2, 5])
    b = a + rng.choice([1, 2, 5, 16])
    tail = rng.choice(["", "", " ?", " [2]", ' ""', " ? [%d-%d]" % (a, b + 1), " [0]"])
    rngs = "[%d-%d]%s" % (a, b, tail)
    form = rng.choice(["plain", "plain", "save", "lastalt", "firstalt", "group", "altgroup"])
    pre, ns = [], 1
    if form == "plain":
        pat = "%s %s" % (hs(Pb), rngs)
    elif form == "save":
        pat, ns = "%s ' %s '" % (hs(Pb), rngs), 3                       # not trailing: a bookmark follows
    elif form == "lastalt":
        pat = "( %s | %s %s )%s" % (hs([pool[5]]), hs(Pb), rngs, rng.choice(["", " ?"]))
    elif form == "firstalt":
        pat = "( %s %s | %s )" % (hs(Pb), rngs, hs([pool[5]]))          # not trimmed: `Break` follows
    elif form == "group":
        pat, pre = "%s %% { %s %s }" % (hs([pool[6]]), hs(Pb), rngs), [pool[6], 0]
    else:
        pat, pre = "%s %% { ' ( %s | %s %s ) }" % (hs([pool[6]]), hs([pool[5]]), hs(Pb), rngs), [pool[6], 0]
        ns = 2
    head = [rng.getrandbits(8) for _ in range(rng.choice([2, 7]))]
    slack = rng.choice([0, 0, 0, 1, a, a + 1, b + 2])                   # bytes behind the literal part
    data = bytes(head + pre + Pb + [rng.getrandbits(8) for _ in range(slack)])
    pe = new_pe(rng, bits)
    base = pe.sections[-1].va
    cur = base + len(head)
    fl, vl = image_pair(rng, pe, data, rng.choice([0, 0, 0, 3]), tight_view=True)
    ph = _plain(pat)
    ops = lambda k: [sem_op(k, ph, cur, ns), sem_op(k, ph, cur, ns + 1), sem_op(k, ph, cur - 1, ns)]
    return [[fl] + ops(kf), [vl] + ops(kv)]


def gen_sem_outside_built(rng, tier):
    """constructions on which the two readings of the documentation differ (and their contrasts)"""
    cases = []
    n = 40 if tier == "quick" else 2000
    for i in range(n):
        cases += retry_cases(rng, 32 if i % 2 else 64)
        cases += trailing_cases(rng, 64 if i % 2 else 32)
    return cases


# ================================================================================================
# the DOCUMENTED upper bound of `[a-b]` (inclusive; Spec/PatternSemDoc.lean, Thm/C11Doc.lean): layouts that match
# ONLY with exactly `b` skipped bytes — the implementation tries a .. b-1 (known finding) — and their contrasts

def doc_bound_cases(rng, bits):
    """`pre [a-b] X` and relatives (bookmarks, brace body, first / last alternative, two ranges, bounds >= 256) on
    data where X follows after exactly s skipped bytes, s in {b (only the documented bound matches), b-1, a, b+1};
    the skipped bytes never contain X[0], so no other candidate matches -> cases"""
    kf, kv = "f%d" % bits, "v%d" % bits
    up = rng.random() < 0.5
    hs = lambda bs: _hexs(bs, up)
    pool = rng.sample(range(1, 256), 12)
    pre = pool[0:rng.choice([1, 2])]
    X = pool[2:2 + rng.choice([1, 2])]
    Y = pool[4:4 + rng.choice([1, 2])]
    A = [pool[6]]
    if rng.random() < 0.2:
        a = rng.choice([0, 1, 255, 256, 300])
        b = a + rng.choice([1, 255, 256, 257])
    else:
        a = rng.choice([0, 0, 1, 2, 5, 13])
        b = a + rng.choice([1, 1, 2, 3, 4, 8, 29])
    mode = rng.choice(["full", "full", "full", "below", "lower", "beyond"])
    s = {"full": b, "below": b - 1, "lower": a, "beyond": b + 1}[mode]
    fill = [x for x in pool[7:] if x != X[0]]
    skipped = [rng.choice(fill) for _ in range(s)]
    form = rng.choice(["flat", "flat", "save", "group", "firstalt", "lastalt", "two", "wild"])
    ns = 1
    head = [rng.choice(fill) for _ in range(rng.choice([1, 4, 9]))]
    if form == "flat":
        pat, body = "%s [%d-%d] %s" % (hs(pre), a, b, hs(X)), pre + skipped + X
    elif form == "save":
        pat, body, ns = "%s ' [%d-%d] ' %s u1" % (hs(pre), a, b, hs(X)), pre + skipped + X + [rng.getrandbits(8)], 4
    elif form == "wild":
        pat, body = "%s [%d-%d] %s ? [2] %s" % (hs(pre), a, b, hs(X), hs(Y)), pre + skipped + X + [rng.choice(fill) for _ in range(3)] + Y
    elif form == "firstalt":
        pat, body, ns = "( %s [%d-%d] %s ' | %s ) %s" % (hs(pre), a, b, hs(X), hs(A), hs(Y)), pre + skipped + X + Y, 2
    elif form == "lastalt":
        pat, body, ns = "( %s | %s [%d-%d] %s ' ) %s" % (hs(A), hs(pre), a, b, hs(X), hs(Y)), pre + skipped + X + Y, 2
    elif form == "two":
        # a second range behind the first: it sits at its own documented bound, too, or one below
        c = rng.choice([0, 1, 3])
        d = c + rng.choice([1, 2, 4])
        s2 = rng.choice([d, d, d - 1, c])
        fill2 = [x for x in fill if x != Y[0]] or [0]
        pat = "%s [%d-%d] %s [%d-%d] %s" % (hs(pre), a, b, hs(X), c, d, hs(Y))
        body = pre + skipped + X + [rng.choice(fill2) for _ in range(s2)] + Y
    else:
        # e8 rel32 { pre [a-b] X } u1 : the body sits behind the call
        pat, ns = "%s $ { %s [%d-%d] %s ' } u1" % (hs([0xE8]), hs(pre), a, b, hs(X)), 3
        gapn = rng.choice([1, 6])
        body = [0xE8] + list(struct.pack("<I", 1 + gapn)) + [rng.getrandbits(8)] + [rng.choice(fill) for _ in range(gapn)] + pre + skipped + X
    # the layout ends right behind the pattern (the candidate `b` is the last position of the slice) or has slack
    tailn = rng.choice([0, 0, 1, 5])
    data = bytes(head + body + [rng.choice(fill) for _ in range(tailn)])
    pe = new_pe(rng, bits)
    base = pe.sections[-1].va
    cur = base + len(head)
    fl, vl = image_pair(rng, pe, data, rng.choice([0, 0, 1, 0x40]), tight_view=(tailn == 0 and rng.random() < 0.5))
    ph = _plain(pat)
    ops = lambda k: [sem_op(k, ph, cur, ns), sem_op(k, ph, cur, rng.choice([0, 1, ns + 1])), sem_op(k, ph, cur + 1, ns)]
    return [[fl] + ops(kf), [vl] + ops(kv)]


def gen_doc_upper_bound(rng, tier):
    """layouts that need exactly the documented upper bound of a `[a-b]` (and b-1 / a / b+1 skipped bytes)"""
    cases = []
    # the witness of Thm/C11Doc.lean:C11_doc_upper_bound_differs and the documentation's own example
    for bits in (32, 64):
        kf, kv = "f%d" % bits, "v%d" % bits
        pe = new_pe(rng, bits)
        base = pe.sections[-1].va
        doc = [0xB8] + [0] * 16 + [0x50] + [0x11] * 42 + [0xFF]               # b8 [16] 50 [13-42] ff with 42 skipped bytes
        data = bytes([0x11, 0x50, 0, 0, 0, 0xFF, 0x50, 0, 0, 0xFF, 0x22] + doc + [0x33])
        fl, vl = image_pair(rng, pe, data, 0)
        ops = lambda k: [sem_op(k, _plain("50 [1-3] ff"), base + 1, 1), sem_op(k, _plain("50 [1-3] ff"), base + 6, 1),
                         sem_op(k, _plain("50 [1-4] ff"), base + 1, 1),
                         sem_op(k, _plain("b8 [16] 50 [13-42] ff"), base + 11, 1),
                         sem_op(k, _plain("b8 [16] 50 [13-43] ff"), base + 11, 1)]
        cases += [[fl] + ops(kf), [vl] + ops(kv)]
    n = 40 if tier == "quick" else 2000
    for i in range(n):
        cases += doc_bound_cases(rng, 32 if i % 2 else 64)
    return cases


def gen_sem_spellings(rng, tier):
    """documented spellings outside the four uniform styles: mixed-case hex (`4C 8b`, `aB`), `@` operands in either
    case per occurrence, leading-zero decimals (`[016]`, `[007-12]`), TAB / LF / CR — on satisfying layouts and their
    perturbations (file + view, both widths)"""
    cases = []
    for i, tree in enumerate(SPECIAL_TREES):
        if tier != "quick" or rng.random() < 0.4:
            cases += image_tree_cases(rng, tree, None, 32 if i % 2 else 64, 1, edge=False, nvar=0, styler=FreeStyle)
    n = 30 if tier == "quick" else 1500
    made = guard = 0
    while made < n and guard < 20 * n:
        guard += 1
        tree, alpha = gen_tree(rng, big=False, avoid=rng.random() < 0.6)
        cs = image_tree_cases(rng, tree, alpha, rng.choice([32, 64]), rng.choice([1, 2]), edge=rng.random() < 0.3, nvar=0, styler=FreeStyle)
        if cs:
            made += 1
            cases += cs
    # the audit's own examples
    for bits in (32, 64):
        kf, kv = "f%d" % bits, "v%d" % bits
        pe = new_pe(rng, bits)
        base = pe.sections[-1].va
        data = bytes([0x4C, 0x8B, 0xAB] + [0x11] * 16 + [0x50] + [0x22] * 9 + [0xFF, 0x33])
        fl, vl = image_pair(rng, pe, data, 0)
        ops = lambda k: [sem_op(k, _plain(p), base, 2) for p in
                         ("4C 8b aB [016] 50 [007-12] ' fF", "4c 8B Ab\t[0016]\n50 [7-0012]'Ff", "4C8baB[16]50[7-12]'ff @0 @A", "4c 8b ab [016] 50 [007-9] ' ff")]
        cases += [[fl] + ops(kf), [vl] + ops(kv)]
    return cases


SEM_GENS = [gen_sem_special, gen_sem_random, gen_ref, gen_deviation_witnesses]
# the documented (inclusive) upper bound: run after everything else (older random streams stay what they were)
DOC_GENS = [gen_doc_upper_bound, gen_sem_spellings]
# outside the fragment (kept apart and run LAST so that the random streams of the older generators stay what they were)
OUTSIDE_GENS = [gen_sem_outside_random, gen_sem_outside_built]


# ================================================================================================
# statistics

def _main():
    import os, random, sys, time
    from . import build, run
    tier = sys.argv[1] if len(sys.argv) > 1 else "quick"
    rng = random.Random(int(os.environ.get("VERIF_SEED", "20260926")))
    model_bin = build.model_bin()
    impl_bin = os.path.join(build.HARNESS, "target", "debug", "impl")
    work = os.path.join(build.ROOT, ".work", "c11")
    os.makedirs(work, exist_ok=True)
    allops = set()
    for g in SEM_GENS + OUTSIDE_GENS + DOC_GENS:
        t0 = time.time()
        cases = g(rng, tier)
        tg = time.time() - t0
        t0 = time.time()
        ma = run.run_cases([model_bin], cases, op_timeout=60, jobs=12)
        tm = time.time() - t0
        t0 = time.time()
        ia = run.run_cases([impl_bin], cases, op_timeout=10, jobs=12)
        ti = time.time() - t0
        nops = ok1 = ok0 = hyp = other = diff = specbad = hyp_ok1 = 0
        out_frag = out_ok1 = readings_differ = implbad = 0
        seen, seen_tree = set(), set()
        maxd = 0
        for c, m, im in zip(cases, ma, ia):
            for op, a, b in zip(c, m, im):
                if op.startswith("img "):
                    continue
                nops += 1
                a = a or "none"
                ans, _, spec = a.partition(" ## ")
                ph = op.split(" ")[2 if op.startswith("pat_sem") else 1]
                if ans.startswith("ok 1"):
                    ok1 += 1
                    seen |= SAT_OPS.get(ph, set())
                elif ans.startswith("ok 0"):
                    ok0 += 1
                else:
                    other += 1
                seen_tree |= TREE_OPS.get(ph, set())
                if " hyp=1" in spec:
                    hyp += 1
                    if ans.startswith("ok 1"):
                        hyp_ok1 += 1
                    want = spec.split("spec=")[1].split(" ")[0]
                    if want[0] != ans[3:4]:
                        specbad += 1
                if " hypi=1" in spec:
                    wanti = spec.split("impl=")[1].split(" ")[0]
                    if wanti[0] != ans[3:4]:
                        implbad += 1
                    if " frag=0" in spec:
                        out_frag += 1
                        if ans.startswith("ok 1"):
                            out_ok1 += 1
                        if wanti != spec.split("spec=")[1].split(" ")[0]:
                            readings_differ += 1
                if op.startswith("pat_sem") and (b or "none") != ans:
                    diff += 1
        allops |= seen
        print("%-24s cases=%d ops=%d  model: ok1=%.1f%% ok0=%.1f%% other=%.1f%%  hyp=1: %.1f%% (ok1 among them %.1f%%)  impl!=model: %d  model!=spec under hyp: %d  [gen %.1fs model %.1fs impl %.1fs]"
              % (g.__name__, len(cases), nops, 100.0 * ok1 / max(nops, 1), 100.0 * ok0 / max(nops, 1), 100.0 * other / max(nops, 1),
                 100.0 * hyp / max(nops, 1), 100.0 * hyp_ok1 / max(hyp, 1), diff, specbad, tg, tm, ti))
        print("   outside the fragment (hypi=1 frag=0): %d ops, %d matching, the two readings differ on %d; model!=impl-semantics under hypi: %d"
              % (out_frag, out_ok1, readings_differ, implbad))
        print("   operators in matching cases: %s" % " ".join(sorted(seen)))
        missing = sorted(seen_tree - seen)
        if missing:
            print("   generated but never in a matching case: %s" % " ".join(missing))
    print("all operators seen in matching cases: %s" % " ".join(sorted(allops)))
    # the deviation witnesses, with both answers
    rng = random.Random(11)
    for (label, k, img, ops) in deviation_cases(rng):
        fn = os.path.join(work, "%s_%s.img" % (label, k))
        with open(fn, "w") as f:
            f.write(img + "\n")
        m = run.run_stream([model_bin], [img] + ops, 60)
        im = run.run_stream([impl_bin], [img] + ops, 10)
        print("# %s  (img line: %s)" % (label, fn))
        for op, a, b in zip(ops, m[1:], im[1:]):
            print("  %s\n     impl : %s\n     model: %s" % (op, b, a))


if __name__ == "__main__":
    _main()
