"""Generators for the pattern parser family: `pat_parse <hex of the UTF-8 bytes of the pattern string>`.

Every generator is `gen_xxx(rng, tier) -> list of cases`, a case = [one op line].
`valid_pattern(rng, ...)` (grammar based, accepted by the parser by construction) and `ERROR_SAMPLES`
(per error kind a few strings the parser rejects with that kind) are reused by props_pattern.
"""

ERROR_KINDS = ["UnpairedHexDigit", "UnknownChar", "ManyOverflow", "ManyRange", "ManyInvalid", "SaveOverflow",
               "StackError", "StackInvalid", "UnclosedQuote", "AlignedOperand", "ReadOperand", "SubPattern", "SubOverflow"]
ATOM_KINDS = ["Byte", "Save", "Push", "Pop", "Skip", "Rangext", "Many", "Jump1", "Jump4", "Ptr", "Aligned",
              "ReadI8", "ReadU8", "ReadI16", "ReadU16", "ReadI32", "ReadU32", "Zero", "Case", "Break", "Nop"]

MAXLEN = 3000          # byte length bound of a generated pattern string


def hx(b):
    return b.hex() if b else "-"


def op(s):
    """case for a pattern given as str (encoded as UTF-8) or as raw bytes (possibly not UTF-8)"""
    b = s.encode("utf-8") if isinstance(s, str) else bytes(s)
    return ["pat_parse " + hx(b)]


def _n(tier, quick, thorough=None):
    return quick if tier == "quick" else (thorough if thorough is not None else quick * 10)


# ----------------------------------------------------------------------------------------------
# alphabets

WS_CHARS = " \n\r\t"
ALIGN_CHARS = "0123456789ABCDEFGHIJKLMNOPQRSTUVWXYZabcdefghijklmnopqrstuvwxyz"
OP_CHARS = "?[]-'\"@iuz%$*{}(|)"
PRINTABLE_NOQUOTE = [chr(c) for c in range(0x20, 0x7F) if c != 0x22]
QUOTE_OPS = list("?[]-'@iuz%$*{}(|)\\ 09afAFxX,.") + ["\\", "\\", "'"]
CTRL_CHARS = [chr(c) for c in list(range(0, 0x20)) + [0x7F]]
# 2-, 3- and 4-byte scalars including the encoding-length boundaries
NONASCII = ["\u0080", "\u00e9", "\u00df", "\u00a0", "\u07ff", "\u0800", "\u20ac", "\u4e2d", "\ud7ff", "\ue000",
            "\ufffd", "\uffff", "\U00010000", "\U0001d11e", "\U0001f600", "\U0010ffff", "\u0416", "\u03a9"]
# subset that is harmless inside a Rust source file (no bidi controls, no line separators)
NONASCII_SAFE = ["\u00e9", "\u00df", "\u00a0", "\u07ff", "\u0800", "\u20ac", "\u4e2d", "\ufffd",
                 "\U00010000", "\U0001d11e", "\U0001f600", "\u0416", "\u03a9"]
MANY_VALS = [0, 1, 2, 5, 254, 255, 256, 257, 258, 511, 512, 513, 16382, 16383]
Q_RUNS = [1, 1, 1, 1, 2, 2, 3, 4, 5, 8, 16, 254, 255, 256, 257, 300]
SAVE_TOKENS = ["'", "i1", "i2", "i4", "u1", "u2", "u4", "z"]


# ----------------------------------------------------------------------------------------------
# grammar of valid patterns

def _hexpair(rng, style):
    digs = {"u": "0123456789ABCDEF", "l": "0123456789abcdef", "m": "0123456789abcdefABCDEF"}[style]
    return rng.choice(digs) + rng.choice(digs)


def _quoted(rng, maxlen, safe):
    n = rng.choice([0, 1, 1, 2, 3, 4, 6, 8, 12])
    n = max(0, min(n, maxlen))
    out = []
    for _ in range(n):
        r = rng.random()
        if r < 0.40:
            out.append(rng.choice(PRINTABLE_NOQUOTE))
        elif r < 0.70:
            out.append(rng.choice(QUOTE_OPS))
        elif r < 0.85:
            out.append(rng.choice(NONASCII_SAFE if safe else NONASCII))
        elif r < 0.93:
            out.append(rng.choice(WS_CHARS))
        else:
            out.append(rng.choice("\t\n\x00\x01\x1f\x7f\x0b\x0c" if safe else CTRL_CHARS))
    return '"' + "".join(out) + '"'


def _atom_tok(rng, st, room, safe):
    """-> (tokens, upper bound of the number of atoms they produce)"""
    r = rng.random() * 19.2
    if r < 5:
        k = rng.choice([1, 1, 1, 2, 3, 4])
        k = max(1, min(k, room))
        style = rng.choice("ulm")
        pairs = [_hexpair(rng, style) for _ in range(k)]
        if rng.random() < 0.5:
            return ["".join(pairs)], k
        return pairs, k
    if r < 8:
        n = rng.choice(Q_RUNS) if rng.random() < 0.8 else rng.randrange(1, 301)
        if n <= 6 and rng.random() < 0.5:
            return ["?"] * n, 1 + n          # separated by the joiner's whitespace; may not coalesce after `)`
        return ["?" * n], 3
    if r < 9.5:
        n = rng.choice(MANY_VALS) if rng.random() < 0.7 else rng.randrange(0, 16384)
        z = "0" * rng.choice([0, 0, 0, 1, 3, 12])
        return ["[%s%d]" % (z, n)], 2
    if r < 11:
        a = rng.choice(MANY_VALS[:-1]) if rng.random() < 0.7 else rng.randrange(0, 16383)
        b = rng.choice([v for v in MANY_VALS if v > a]) if rng.random() < 0.7 else rng.randrange(a + 1, 16384)
        z = "0" * rng.choice([0, 0, 0, 2])
        return ["[%s%d-%s%d]" % (z, a, z, b)], 4
    if r < 13:
        if st["saves"] < 200:
            st["saves"] += 1
            return ["'"], 1
        return ["90"], 1
    if r < 15:
        q = _quoted(rng, room, safe)
        return [q], len(q.encode("utf-8")) - 2
    if r < 16:
        return ["@" + rng.choice(ALIGN_CHARS)], 1
    if r < 17.5:
        if st["saves"] < 200:
            st["saves"] += 1
            return [rng.choice(SAVE_TOKENS[1:7])], 1
        return ["c3"], 1
    if r < 18.2:
        if st["saves"] < 200:
            st["saves"] += 1
            return ["z"], 1
        return ["cc"], 1
    return [rng.choice("%$*")], 1


def _seq(rng, depth, maxdepth, budget, st, safe, top=False):
    """-> (tokens, upper bound of atoms); never more than `budget` atoms"""
    n = rng.randrange(1, 11) if top else rng.choice([0, 1, 1, 2, 2, 3, 4, 5, 6])
    toks, used = [], 0
    for _ in range(n):
        room = budget - used
        if room < 8:
            break
        k = rng.random()
        if depth < maxdepth and k < 0.14 and room > 12:
            nb = rng.choice([1, 1, 1, 1, 2, 3])
            inner, a = _seq(rng, depth + 1, maxdepth, room - 2 * nb - 2, st, safe)
            j = rng.choice("%$*")
            head = [j + "{"] if rng.random() < 0.5 else [j, "{"]
            toks += head + ["{"] * (nb - 1) + inner + ["}"] * nb
            used += a + 2 * nb + 1
        elif depth < maxdepth and k < 0.28 and room > 16:
            nalts = rng.choice([1, 1, 2, 2, 2, 3, 4])
            each = (room - 2 * nalts - 2) // nalts
            toks.append("(")
            used += 1
            for i in range(nalts):
                if i:
                    toks.append("|")
                    used += 2
                if each >= 8 and rng.random() > 0.15:
                    inner, a = _seq(rng, depth + 1, maxdepth, each, st, safe)
                    toks += inner
                    used += a
            toks.append(")")
        else:
            t, a = _atom_tok(rng, st, room - 4, safe)
            if a > room - 2:
                continue
            toks += t
            used += a
    return toks, used


WS_MODES = ["none", "space", "mixed", "mixed", "nl"]
_MIXED_SEPS = ["", "", " ", " ", "\n", "\r", "\t", "  ", "\r\n", " \t", "\n\n", "\t\t "]


def _join(rng, toks, ws):
    if ws == "none":
        return "".join(toks)
    if ws == "space":
        return " ".join(toks)
    if ws == "nl":
        return "\n".join(toks) + "\n"
    if ws == "safe":       # no CR (for texts that go verbatim into a source file)
        seps = [s for s in _MIXED_SEPS if "\r" not in s]
    else:
        seps = _MIXED_SEPS
    out = [rng.choice(seps)]
    for i, t in enumerate(toks):
        if i:
            out.append(rng.choice(seps))
        out.append(t)
    out.append(rng.choice(seps))
    return "".join(out)


TRAILERS = [["?"], ["?", "?"], ["[5]"], ["[1-2]"], ["[300]"], ["[2-700]"], ["????"], ["?", "[5]", "[1-2]"], ["[0]"], ['""']]


def valid_pattern(rng, maxdepth=None, ws=None, safe=False):
    """one pattern string accepted by the parser (counters are kept far from their limits by construction).
    safe=True: only characters that may appear verbatim in a Rust source file (apart from CR, which
    escape_literal always writes as \\r)"""
    if maxdepth is None:
        maxdepth = rng.choice([0, 0, 1, 1, 2, 2, 3, 4])
    if ws is None:
        ws = rng.choice(WS_MODES)
    while True:
        st = {"saves": 0}
        toks, _ = _seq(rng, 0, maxdepth, 230, st, safe, top=True)
        r = rng.random()
        if r < 0.25:
            toks = toks + rng.choice(TRAILERS)                 # trimmed at the end
        elif r < 0.35 and maxdepth > 0:
            toks = toks + ["$", "{"] + rng.choice(TRAILERS) + ["}"]   # Pop is trimmed as well
        s = _join(rng, toks, ws)
        if len(s.encode("utf-8")) <= MAXLEN:
            return s


# the documentation / unit test examples and a few hand-written ones covering every operator
BASE_VALID = [
    "12 34 56 ? ?",
    "B9'?? 68???? E8${'} 8B",
    "${%{${%{}}}}",
    "24 5A9e D0 AFBea3 fCdd",
    "\"string\"",
    "*{FF D8 42}",
    "*{\"hello\"00}",
    "b8 [16] 50 [13-42] ff",
    "e9 $ @4",
    "83 c0 2a ( 6a ? | 68 ? ? ? ? ) e8",
    "55 89 e5 83 ? ec",
    "b9 ' 37 13 00 00",
    "31 c0 74 % ' c3",
    "e8 $ ' 31 c0 c3",
    "68 * ' 31 c0 c3",
    "b8 * \"STRING\" 00",
    "e8 $ { ' } 83 f0 5c c3",
    "e8 i1 a0 u4",
    "${{ ' }} c3",
    "( 12 | ${ ' } | \"a|b)\" z ) [2-300] u2 @F i4\t[256]\n?? 0f",
    "\"\u00e9\u20ac\U0001f600\" ' \"\\\" 00 \"'\"",
    "(|)()(12)? c3",
    "*{ ( i1 | u2 ${ z } ) } [0-16383] 00",
    "i1i2i4u1u2u4z'@0@9@A@Z@a@z%$*90",
    "${(}|})} ($){'} (${) (${|${) 00",
    "[000000000005] [16383] [255] [256] [257] [5-261] [0-16383] [1-2] cc",
    "\r\n\t 12\r\n\t34 \r\n",
    "%{?}?${[5]}[5]*{[1-2]}[1-2](?)?([3])?(?|?)?'",
]


def gen_valid(rng, tier):
    """grammar based valid patterns: every operator, nesting 0..4, whitespace variants"""
    cases = [op(s) for s in BASE_VALID]
    cases.append(op(""))
    for w in [" ", "\n", "\r", "\t", " \n\r\t", "    "]:
        cases.append(op(w))
    # every hex pair in three spellings, every aligned operand, every read operand
    for v in range(256):
        m = "%02x" % v
        cases.append(op("%02X %02x%s%s" % (v, v, m[0].upper() + m[1], m[0] + m[1].upper())))
    for c in ALIGN_CHARS:
        cases.append(op("@" + c))
        cases.append(op("12@" + c + "34"))
    for t in SAVE_TOKENS:
        cases.append(op(t))
        cases.append(op(t + t + " " + t))
    # every ASCII character (operators, whitespace, controls) inside a quoted string
    for c in range(128):
        if c != 0x22:
            cases.append(op("12 \"" + chr(c) + "\" \"a" + chr(c) * 2 + "\"34"))
    cases.append(op("\"" + "".join(chr(c) for c in range(128) if c != 0x22) + "\""))
    # redundant atoms at the end are trimmed (Skip, Rangext, Many, Pop), also across closed groups
    for t in ["12 ?", "12 [5]", "12 [1-2]", "12 [300]", "12 [2-700]", "12 ${ }", "12 ${ ? [5] } [1-2]", "12 ${ 34 } ?", "12 ${${}}",
              "12 ( ? ) ?", "12 ( ? | [5] ) [1-2]", "12 ${ ' } ?", "12 ${ ? } ' ?", "12 %{ ${ *{ ? } } } ? [5] [1-2]", "? [5] [1-2]",
              "${ } ${ }", "12 ( ${ } ) ${ }", "12 ( 34 | ? ) ${ }", "12 [0] [0-1] ?", "' ?", "12 $ { { ? } }"]:
        cases.append(op(t))
        cases.append(op(t.replace(" ", "")))
    # `?` runs across the 255 coalescing limit, with and without whitespace
    for n in list(range(1, 8)) + [127, 128, 253, 254, 255, 256, 257, 258, 300, 509, 510, 511, 512, 765, 766]:
        cases.append(op("12" + "?" * n + "34"))
        cases.append(op("?" * n))
        if n <= 300:
            cases.append(op("12 " + "? " * n + "34"))
    for n in range(1, 301, 7):
        cases.append(op("?" * n + "'"))
    for d in range(0, 5):
        for ws in ["none", "space", "mixed", "nl"]:
            for _ in range(_n(tier, 60, 900)):
                cases.append(op(valid_pattern(rng, d, ws)))
    return cases


# ----------------------------------------------------------------------------------------------
# operator adjacency

def _closers(s):
    """`)` / `}` suffix balancing the text (the parser's depth / alternative bookkeeping; quoted strings skipped)"""
    depth, subs = 0, []
    i, n = 0, len(s)
    while i < n:
        c = s[i]
        if c == '"':
            j = s.find('"', i + 1)
            if j < 0:
                return ""
            i = j + 1
            continue
        if c == "@":
            i += 2
            continue
        if c == "{":
            depth += 1
        elif c == "}":
            depth = max(0, depth - 1)
        elif c == "(":
            subs.append(depth)
        elif c == "|":
            if subs:
                depth = subs[-1]
        elif c == ")":
            if subs:
                depth = subs.pop()
        i += 1
    out = ""
    if subs:
        out = ")" * len(subs)
        depth = subs[0]
    return out + "}" * depth


ADJ_KINDS = ["aB", "?", "[5]", "[0]", "[300]", "[1-2]", "[2-300]", "'", '"x?"', '""', "@4", "i1", "u2", "z",
             "%", "$", "*", "{", "}", "(", "|", ")"]
_NOPUSH = ("[0]", '""', ")")
ADJ_SEPS = ["", " ", "\n\t \r"]


def adjacent(tokens, sep, tail):
    """a pattern containing `tokens` adjacent (joined by sep), wrapped in the openers / closers that make
    it acceptable whenever the adjacency itself is legal"""
    prefix = ""
    depth, nsubs = 0, 0
    for t in tokens:
        if t == "{":
            depth += 1
        elif t == "}":
            if depth == 0:
                prefix = "${22" + prefix
            else:
                depth -= 1
        elif t == "(":
            nsubs += 1
        elif t in ("|", ")"):
            if nsubs == 0:
                prefix = "(11" + prefix
                nsubs = 1
            if t == ")":
                nsubs -= 1
    if tokens[0] == "{" or (len(tokens) > 1 and tokens[1] == "{" and tokens[0] in _NOPUSH):
        prefix += "$"
    body = prefix + sep.join(tokens)
    return body + sep + _closers(body) + tail


def gen_adjacency(rng, tier):
    """every ordered pair of token kinds adjacent, with and without whitespace, with and without a
    trailing byte (without: the end trimming sees the pair); thorough: every triple as well"""
    cases = []
    for a in ADJ_KINDS:
        for b in ADJ_KINDS:
            cases.append(op(adjacent([a, b], "", "")))
            cases.append(op(adjacent([a, b], "", " C3")))
            cases.append(op(adjacent([a, b], " ", "")))
            if tier != "quick":
                cases.append(op(adjacent([a, b], "\n\t \r", " C3")))
                cases.append(op(adjacent([a, b], " ", " C3")))
                cases.append(op(adjacent([a, b], "\n\t \r", "")))
                # the bare pair, no wrapping at all
                cases.append(op(a + b))
    # the cases named in the task, spelled out
    for s in ["(12)?", "(12|34)?", "(12|?)?", "(?)?", "(?|?)??", "()?", "(|)?", "${?}?", "${12}?", "${12} ?", "[5]?", "[5] ?",
              "[254]?", "[254]??", "[255]?", "[256]?", "[0]?", "[300]?", "[1-2]?", "[5-261]?", "\"a\"?", "\"\"?", "?\"\"?",
              "?[3]?", "?(?)?", "(?(?)?)?", "(?)12??", "(??|??)??", "((?)?)?", "${{ ' }}", "${{{{}}}}", "${ { ' } }", "$\n{\t{'}}",
              "(?", "(?)", "(?|?)", "( ?|? )", "(|?)", "(?|)", "12?}", "12?)", "12 ? [5] } [1-2]", "12 [1-2] [5] ? ?",
              "(|)", "()", "(12)", "(())", "((|)|(|))", "(()|())", "${}", "${}?", "${?}", "${[5]}", "${[1-2]}[1-2]",
              "$(){'}", "$[0]{'}", "$\"\"{'}", "($){'}", "($|%){'}", "(${)'}", "(${|${)'}}"]:
        for tail in ["", " 90", "?", " ?"]:
            cases.append(op(s + tail))
    if tier != "quick":
        for a in ADJ_KINDS:
            for b in ADJ_KINDS:
                for c in ADJ_KINDS:
                    sep = rng.choice(ADJ_SEPS)
                    cases.append(op(adjacent([a, b, c], sep, rng.choice(["", " C3"]))))
    return cases


# ----------------------------------------------------------------------------------------------
# malformed streams, one family per error kind

ERROR_SAMPLES = {
    "UnpairedHexDigit": ["1", "A", "f", "123", "1 2", "1?", "1g", "12 3", "1\"", "a'", "fG", "0x12", "EE BZ", "A?", "1\u00e9",
                         "12 34 5", "1\n2", "1[5]", "9}", "c|", "(1)", "1@", "1:", "1/", "1`", "1G", "ag", "a\x00"],
    "UnknownChar": ["g", "G", "x", "12 X", "\u00e9", "12 \u20ac", "\x00", "\x7f", "\x0b", "\x0c", "#", "&", "+", ",", "-", ".", "/",
                    ":", ";", "<", "=", ">", "\\", "]", "^", "_", "`", "~", "!", "h", "j", "t", "v", "y", "I", "U", "Z", "12 ] 34",
                    "5-6", "\U0001f600", "\u00a0", "\ufeff12"],
    "ManyOverflow": ["[16384]", "[16385]", "[99999]", "[0-16384]", "[1-16384]", "[16384-16385]", "[20000-40000]",
                     "[99999999999999999999]", "[0-99999999999999999999]", "[00000000000016384]", "[163840", "[16384",
                     "[5-16384", "[16384-", "[16384x]", "[1638400000-1]", "[4294967296]", "[0-4294967295]"],
    "ManyRange": ["[0-0]", "[5-5]", "[5-4]", "[0-]", "[5-]", "[16383-16383]", "[16383-1]", "[20-1]", "[1-0]", "[256-255]",
                  "[255-255]", "[1-01]", "[001-1]", "[16383-0]"],
    "ManyInvalid": ["[]", "[-]", "[-2]", "[ 5]", "[5 ]", "[5", "[5-", "[5-6", "[", "[a]", "[5-a]", "[5--6]", "[5-6-7]", "[+5]", "[5.]",
                    "[5\n]", "[0x5]", "[5,6]", "[-16384]", "[5-6 ]", "[5- 6]", "[ ]", "[[5]]", "[?]", "[5\u00e9]", "[\u00e9]", "[5-\u20ac]",
                    "[-", "[0", "[0-1"],
    "SaveOverflow": ["'" * 255, "'" * 254 + "z", "'" * 254 + "i1", "'" * 254 + "u4", "z" * 255, "i1" * 255, "'" * 300,
                     "'" * 254 + " i2", "'" * 254 + "\nu1", "'" * 250 + "(''''')", "'" * 250 + "('|''|''''')"],
    "StackError": ["}", "}}", "${", "${}}", "${${}", "12 }", "${12", "*{ ' ", "%{{}", "(})", "${(}|}))}", "${ } }", "$" + "{" * 256,
                   "${" * 256, "(${", "${(", "${ \"}\""],
    "StackInvalid": ["{", "12{", "'{", "?{", "({", "$ 12 {", "${}{", "AB {}", "[5]{", "[1-2]{", "\"a\"{", "@4{", "i1{", "z{",
                     "(|{", " {", "$'{", "(12){"],
    "UnclosedQuote": ["\"", "\"abc", "12 \"abc", "\"\"\"", "\"a\" \"b", "\"\u00e9", "${\"}", "(\"|)", "\"\\\"", "'\"'"],
    "AlignedOperand": ["@", "@ ", "@@", "@\u00e9", "@-", "@[", "@{", "@/", "@:", "@`", "12 @", "@\n4", "@\x00", "@\x7f", "@}",
                       "@|", "@_", "@?", "@'", "@\""],
    "ReadOperand": ["i", "i3", "i8", "i 1", "u", "u3", "u0", "iu", "i5", "u8", "ii1", "u\n2", "i\u00e9", "u}", "i'", "12 i", "u?",
                    "i0", "i9", "u16", "'" * 254 + "i3", "'" * 300 + "u"],
    "SubPattern": ["(", ")", "|", "(()", "())", "(|", "12|34", "${(}", "12 )", "(12", "((12)", "(12))", "(12)|", "()|", "(\")\"",
                   "( 12 | 34", ")(", "|()"],
    "SubOverflow": ["(" + "00" * 255 + "|00)", "(00|" + "00" * 255 + ")", "(" + "00|" * 86 + "00)", "(\"" + "a" * 255 + "\"|)",
                    "(|" + "'" * 250 + "90 90 90 90 90)", "((" + "00" * 251 + "|00)|00)", "(00|(" + "00" * 251 + "|00))"],
}


def gen_errors(rng, tier):
    cases = []
    ctx = [("", ""), ("12 ", " 34"), ("${ ", " }"), ("( 00 | ", " )"), ("\"q\" ' ?", "\n")]
    if tier != "quick":
        ctx += [("12 ", ""), ("", " 34"), ("?", ""), ("\n", "\n"), ("(", "|00)")]
    for kind in ERROR_KINDS:
        for s in ERROR_SAMPLES[kind]:
            for (a, b) in ctx:
                t = a + s + b
                if len(t.encode("utf-8")) <= MAXLEN:
                    cases.append(op(t))
    # every ASCII byte alone, between bytes, as the second hex digit, as operand of @ i u [
    for c in range(128):
        ch = chr(c)
        forms = [ch, "12 " + ch + " 34", "1" + ch, "@" + ch, "i" + ch, "u" + ch, "[" + ch + "]", "[1" + ch + "2]", "[1-" + ch + "]"]
        if tier != "quick":
            forms += ["a" + ch + "0", "12" + ch, "\"" + ch + "\"", "${" + ch + "}", "(" + ch + ")", "?" + ch, "[5]" + ch]
        for t in forms:
            cases.append(op(t))
    return cases


def gen_position_probes(rng, tier):
    """an error token right after a coalesced `?` / `[n]` (the reported position lags behind: the
    `continue` skips the bookkeeping) - implementation and model have to agree on the lagging value"""
    cases = []
    prefixes = ["??", "? ?", "???", "[5]", "[0]", "12[5]", "12 ???", "[5][6]", "??[7]", "[255]?", "[254]?", "[1-2]", "(?)?", "(?)??",
                "'?[3]", "[5] ", "?? ", "[16383]", "[5]?[6]?", "${?", "${??", "(??", "(?|??", "\"a\"??", "? [5]"]
    errtoks = ["X", "\u00e9", "1", "1g", "}", "{", ")", "|", "[", "[]", "[5-4]", "[16384]", "\"abc", "@", "@-", "i", "i3", "u", "u9",
               "12 34 }", "' )", "(", "${", "[0-0]", "[x]"]
    for p in prefixes:
        for k, e in enumerate(errtoks):
            cases.append(op(p + e))
            if k < 8 or tier != "quick":
                cases.append(op(p + " " + e))       # whitespace in between: the position catches up
        # errors detected at the very end (unbalanced stack / alternatives)
        cases.append(op("${" + p))
        cases.append(op("(" + p))
        cases.append(op("${(" + p))
    # SaveOverflow / SubOverflow behind a lagging position
    for p in ["??", "[5]", "[7]?"]:
        cases.append(op("'" * 254 + p + "'"))
        cases.append(op("'" * 254 + p + "z"))
        cases.append(op("(" + "00" * 255 + p + "|00)"))
        cases.append(op("(00|" + "00" * 255 + p + ")"))
        cases.append(op("$" + "{" * 255 + p + "{"))
    return cases


# ----------------------------------------------------------------------------------------------
# limits

def gen_limits(rng, tier):
    cases = []
    # `{` nesting around the u8 limit
    for n in [1, 2, 253, 254, 255, 256, 257, 300]:
        cases.append(op("${" * n))
        cases.append(op("${" * n + "}" * n))
        cases.append(op("${" * n + "'" + "}" * n))
        cases.append(op("${" * n + "}" * (n - 1)))
        cases.append(op("${" * n + "}" * (n + 1)))
        cases.append(op("$" + "{" * n + "}" * n))
        cases.append(op("$" + "{" * n))
        cases.append(op("%{ *{ " * (n // 2) + "' " + "} } " * (n // 2)))
    for n in [254, 255, 256]:
        # depth is restored at `|` and `)`
        cases.append(op("${" * n + "(}|${)"))
        cases.append(op("${" * n + "(}${|}${)" + "}" * n))
        cases.append(op("${" * n + "(}|})" + "}" * n))
        cases.append(op("(" + "${" * n + "|" + "${" * n + ")"))
        cases.append(op("(" + "${" * n + "|" + "${" * 3 + ")${"))
        cases.append(op("${" * (n - 1) + "(${|${${)"))
    # save counters around 255
    for n in range(250, 259):
        cases.append(op("'" * n))
        cases.append(op("' " * n))
        cases.append(op("z" * n))
        cases.append(op("i1" * n))
        cases.append(op("u4" * n + " 90"))
        for _ in range(_n(tier, 3, 12)):
            cases.append(op("".join(rng.choice(SAVE_TOKENS) for _k in range(n))))
            cases.append(op(" ".join(rng.choice(SAVE_TOKENS + ["12", "?", "@4"]) for _k in range(n))))
    for t in SAVE_TOKENS + ["i3", "u9", "i", "u", "12", "?", "@1", "(", "(')", "('|')", "${'}"]:
        for n in [253, 254, 255]:
            cases.append(op("'" * n + t))
            cases.append(op("z" * n + " " + t + " 90"))
    # the counter is reset at `|` and set to the maximum at `)`
    for k in range(82, 87):
        for j in range(0, 5):
            cases.append(op("('''|')" * k + "'" * j))
            cases.append(op("( ' | ''' )" * k + "'" * j))
            cases.append(op("('|'i1z|u2)" * k + "z" * j))
    for n0 in range(246, 256):
        for alts in [["'''''"], ["'", "'''''"], ["'''''", "'"], ["'", "''", "''''''"], ["''''''''", "", "'"], ["", ""], ["'''", "'''", "'''"]]:
            cases.append(op("'" * n0 + "(" + "|".join(alts) + ")"))
            cases.append(op("'" * n0 + "(" + "|".join(alts) + ")'"))
            cases.append(op("'" * n0 + "((" + "|".join(alts) + ")|')''"))
    for _ in range(_n(tier, 60, 1500)):
        n0 = rng.randrange(240, 256)
        nalt = rng.randrange(1, 5)
        alts = ["".join(rng.choice(SAVE_TOKENS) for _k in range(rng.randrange(0, 9))) for _a in range(nalt)]
        cases.append(op("".join(rng.choice(SAVE_TOKENS) for _k in range(n0)) + "(" + "|".join(alts) + ")" + "'" * rng.randrange(0, 6)))
    # many limits
    many = ["[16383]", "[16384]", "[0-16383]", "[1-16384]", "[255]", "[256]", "[257]", "[5-261]", "[99999999999999999999]",
            "[000000000005]", "[0]", "[1]", "[0-1]", "[0-255]", "[0-256]", "[0-257]", "[1-256]", "[1-257]", "[1-258]", "[255-256]",
            "[255-511]", "[255-512]", "[256-512]", "[256-511]", "[16382-16383]", "[16383-16384]", "[0-16384]", "[511]", "[512]",
            "[513]", "[8191]", "[8192]", "[16128]", "[16127]", "[000016383]", "[000016384]", "[0-000016383]", "[0000-0001]",
            "[1638]", "[16380]", "[1-99999999999999999999]", "[4294967295]", "[4294967296]", "[429496729]", "[65535]", "[65536]",
            "[10000-16383]", "[16383-16383]", "[0-0000]"]
    for m in many:
        for (a, b) in [("", ""), ("12 ", " 34"), ("12", "34"), ("?", "? 90"), ("${", "} 90"), ("(", "|" + m + ") 90")]:
            cases.append(op(a + m + b))
    for lo in MANY_VALS + [16384]:
        cases.append(op("12 [%d] 34" % lo))
        for hi in MANY_VALS + [16384]:
            cases.append(op("12 [%d-%d] 34" % (lo, hi)))
    for _ in range(_n(tier, 150, 3000)):
        lo = rng.choice([rng.randrange(0, 20000), rng.randrange(0, 600), rng.choice(MANY_VALS)])
        hi = rng.choice([rng.randrange(0, 20000), lo + rng.randrange(-2, 600), rng.choice(MANY_VALS)])
        cases.append(op("55 [%s%d-%d] ' " % ("0" * rng.randrange(0, 3), lo, max(0, hi))))
    # sub-pattern offsets around 256: the Case offset (first alternative) and the Break offset (the rest)
    for n in range(250, 260):
        big = "00" * n
        cases.append(op("(" + big + "|00)"))
        cases.append(op("(00|" + big + ")"))
        cases.append(op("( " + "90 " * n + "| 00 ) c3"))
        cases.append(op("(00|" + big + "|00)"))
        cases.append(op("(00|00|" + big + ")"))
        cases.append(op("(" + big + "|" + big + ")"))
        cases.append(op("(\"" + "a" * n + "\"|00)"))
        cases.append(op("(00|\"" + "\u00e9" * (n // 2) + "\"" + ("00" if n % 2 else "") + ")"))
        cases.append(op("(" + "'" * min(n, 254) + "00" * (n - min(n, 254)) + "|00)"))
        cases.append(op("(" + "?" * n + "|" + "?" * n + ")"))            # coalesced: two atoms only
        cases.append(op("(" + "? 00 " * (n // 2) + ("?" if n % 2 else "") + "|00)"))
    for n in range(243, 256):
        big = "00" * n
        cases.append(op("((" + big + "|00)|00)"))
        cases.append(op("(00|(" + big + "|00))"))
        cases.append(op("(00|(00|" + big + "))"))
        cases.append(op("((00|" + big + ")|00)"))
        cases.append(op("(((" + big + ")))"))
        cases.append(op("(${(" + big + "|00)}|00)"))
        cases.append(op("(00|${(00|" + big + ")})"))
    for k in range(82, 90):
        cases.append(op("(" + "00|" * (k - 1) + "00)"))
        cases.append(op("(" + "|" * k + ")"))
    for k in [126, 127, 128, 129, 130]:
        cases.append(op("(" + "|" * k + ")"))
    for _ in range(_n(tier, 80, 1500)):
        nalt = rng.randrange(2, 5)
        tot = rng.randrange(235, 275)
        cuts = sorted(rng.randrange(0, tot + 1) for _k in range(nalt - 1))
        sizes = [b - a for a, b in zip([0] + cuts, cuts + [tot])]
        cases.append(op("(" + "|".join("00" * s for s in sizes) + ")"))
    return cases


# ----------------------------------------------------------------------------------------------
# truncations, mutations, random strings

MUT_ALPHABET = OP_CHARS + "0123456789abcdefABCDEF" + " \n\r\t" + "gX\\\x00"


def _bases(rng, n):
    out = list(BASE_VALID)
    for _ in range(n):
        s = valid_pattern(rng)
        if len(s) <= 120:
            out.append(s)
    return out


def gen_truncations(rng, tier):
    """every byte prefix (and, thorough, every suffix) of a set of valid patterns"""
    cases = []
    for s in _bases(rng, _n(tier, 12, 150)):
        b = s.encode("utf-8")
        for i in range(len(b) + 1):
            cases.append(op(b[:i]))
        if tier != "quick":
            for i in range(1, len(b)):
                cases.append(op(b[i:]))
    return cases


def gen_mutations(rng, tier):
    """single byte substitutions / insertions / deletions of valid patterns"""
    cases = []
    bases = _bases(rng, _n(tier, 30, 300))
    for _ in range(_n(tier, 1000, 16000)):
        b = bytearray(rng.choice(bases).encode("utf-8"))
        for _k in range(rng.choice([1, 1, 1, 2])):
            kind = rng.randrange(3)
            new = ord(rng.choice(MUT_ALPHABET)) if rng.random() < 0.85 else rng.randrange(256)
            if kind == 0 and b:
                b[rng.randrange(len(b))] = new
            elif kind == 1:
                b.insert(rng.randrange(len(b) + 1), new)
            elif b:
                del b[rng.randrange(len(b))]
        cases.append(op(bytes(b)))
    return cases


def gen_random(rng, tier):
    """random ASCII strings and random strings over the operator alphabet"""
    cases = []
    for _ in range(_n(tier, 200, 6000)):
        n = rng.choice([0, 1, 2, 3, 5, 8, 13, 40])
        cases.append(op(bytes(rng.randrange(128) for _k in range(n))))
    alpha = list("0123456789abcdefABCDEF") + list("??''") + ["12", "[5]", "[1-2]", "[", "]", "-", "'", "\"", "\"ab\"", "@", "@4", "i", "u",
            "i1", "u4", "z", "%", "$", "*", "${", "{", "}", "}", "(", "|", ")", " ", " ", "\n", "\t", "\r"]
    for _ in range(_n(tier, 500, 14000)):
        n = rng.choice([1, 2, 3, 4, 6, 9, 14, 30])
        cases.append(op("".join(rng.choice(alpha) for _k in range(n))))
    # structural alphabet only: brackets, jumps, saves, skips
    alpha2 = ["$", "{", "}", "(", "|", ")", "?", "'", "${", "12", " "]
    for _ in range(_n(tier, 300, 8000)):
        n = rng.choice([2, 3, 4, 5, 7, 10, 16])
        cases.append(op("".join(rng.choice(alpha2) for _k in range(n))))
    return cases


def gen_unicode(rng, tier):
    """non-ASCII UTF-8 at top level and inside quotes; byte strings that are not UTF-8"""
    cases = []
    for ch in NONASCII + ["\u202e", "\u2028", "\ufeff"]:
        for t in [ch, "12 " + ch, ch + " 12", "\"" + ch + "\"", "12 \"" + ch + ch + "\" 34", "\"" + ch, ch + "\"", "1" + ch, "@" + ch,
                  "i" + ch, "[" + ch + "]", "[5-" + ch + "]", "?" + ch, "[5]" + ch, "(\"" + ch + "\"|" + ch + ")", "${\"" + ch + "\"}",
                  "\"a" + ch + "b\" ? \"" + ch + "\""]:
            cases.append(op(t))
    for _ in range(_n(tier, 150, 2000)):
        n = rng.randrange(1, 10)
        s = "".join(rng.choice(NONASCII) if rng.random() < 0.5 else rng.choice("12 ?'\"ab[]") for _k in range(n))
        cases.append(op(s))
        cases.append(op("\"" + s.replace("\"", "") + "\" c3"))
    bad = [b"\xff", b"\xfe", b"\x80", b"\xbf", b"\xc0\x80", b"\xc1\xbf", b"\xc2", b"\xe0\x80\x80", b"\xe0\x9f\xbf", b"\xe2\x82",
           b"\xed\xa0\x80", b"\xed\xbf\xbf", b"\xf0\x80\x80\x80", b"\xf0\x8f\xbf\xbf", b"\xf0\x9f\x98", b"\xf4\x90\x80\x80",
           b"\xf5\x80\x80\x80", b"\xf8\x88\x80\x80\x80", b"\xc3\x28", b"\xe2\x28\xa1", b"\xf0\x28\x8c\xbc", b"\xc3\xa9\xa9"]
    for b in bad:
        for (a, c) in [(b"", b""), (b"12 ", b" 34"), (b"\"", b"\""), (b"\"", b""), (b"g", b""), (b"", b"g"), (b"1", b""), (b"@", b""),
                       (b"[", b"]"), (b"${", b"}"), (b"'" * 255, b""), (b"}", b"")]:
            cases.append(op(a + b + c))
    for _ in range(_n(tier, 120, 2000)):
        n = rng.randrange(1, 12)
        cases.append(op(bytes(rng.choice([rng.randrange(256), rng.randrange(0x80, 0x100), ord(rng.choice("12 \"?'"))]) for _k in range(n))))
    return cases


PARSE_GENS = [gen_valid, gen_adjacency, gen_errors, gen_position_probes, gen_limits, gen_truncations, gen_mutations,
              gen_random, gen_unicode]
