"""Generators for the inline-bytes families: strings, relocs_raw, relocs_rawat, relocs_hist, relocs_build, and the
relocation directory extracted from images (`relocs <k> dump`)."""
import itertools, struct


def hx(b):
    return b.hex() if b else "-"


CLASS_BYTES = [0x41, 0x00, 0x7F, 0x09, 0x80, 0x1F, 0x20, 0x7E]


def gen_strings(rng, tier):
    cases = []
    cfgs = [(1, 1, 0), (2, 1, 0), (1, 2, 0), (2, 2, 1), (3, 2, 0), (1, 1, 1)]
    maxlen = 4 if tier == "quick" else 6
    alpha = CLASS_BYTES[:6]
    # exhaustive small scope over class representatives
    for n in range(0, maxlen + 1):
        for tup in itertools.product(alpha, repeat=n):
            b = bytes(tup)
            for (ml, mln, st) in (cfgs if n <= 3 else cfgs[:3]):
                cases.append(["strings %d %d %d 0x1000 %s" % (ml, mln, st, hx(b))])
    # every byte value alone and inside a run
    for v in range(256):
        cases.append(["strings 1 1 0 0 %s" % hx(bytes([v]))])
        cases.append(["strings 3 3 0 0x10 %s" % hx(bytes([0x41, v, 0x42, 0x43, 0x00]))])
    # random long strings
    nrand = 600 if tier == "quick" else 20000
    for _ in range(nrand):
        n = rng.choice([0, 1, 2, 5, 8, 16, 33, 64, 200, 1000]) + rng.randrange(0, 8)
        kind = rng.random()
        bs = bytearray()
        while len(bs) < n:
            if kind < 0.5:
                run = rng.randrange(0, 12)
                bs += bytes(rng.choice([0x41, 0x61, 0x20, 0x7E, 0x09, 0x0A, 0x0D, 0x30]) for _ in range(run))
                bs.append(rng.choice([0, 0, 0x7F, 0x80, 0x1F, 0xFF, 0x01, 0x08, 0x0B, 0x0C, 0x0E, 0x7F]))
            else:
                bs.append(rng.randrange(256))
        bs = bytes(bs[:n])
        ml = rng.choice([1, 2, 3, 4, 6, 10, 255, rng.randrange(1, 256)])
        mln = rng.choice([1, 2, 3, 4, 6, 10, 255, rng.randrange(1, 256)])
        st = rng.randrange(2)
        base = rng.choice([0, 0x1000, 0xFFFFFFFF, 0xFFFFFFF0, 0x80000000, rng.randrange(1 << 32)])
        cases.append(["strings %d %d %d 0x%x %s" % (ml, mln, st, base, hx(bs))])
    # runs around the 8-bit and 16-bit boundaries of the length (thresholds are u8: a length compared
    # after truncation to u8 / u16 drops or invents strings only here)
    for ln in (254, 255, 256, 257, 258, 259, 300, 356, 511, 512, 513, 515, 1024, 1027, 65535, 65536, 65537, 65539):
        if tier == "quick" and ln > 2000 and ln not in (65536, 65537, 65539):
            continue
        for (ml, mln, st) in ((6, 3, 1), (6, 3, 0), (200, 200, 0), (1, 1, 0), (255, 255, 0), (4, 2, 0)):
            for term in (b"\x00", b"\x80", b""):
                body = bytes(0x41 + (i % 26) for i in range(ln))
                cases.append(["strings %d %d %d 0x1000 %s" % (ml, mln, st, hx(b"\x01" + body + term))])
    # thresholds of zero (outside the theorem's hypothesis; compared against the model only): exhaustive
    # over the three byte classes up to length 4, plus random longer ones
    for ml in (0, 1):
        for mln in (0, 1):
            for st in (0, 1):
                if ml and mln:
                    continue
                for n in range(0, 5):
                    for tup in itertools.product((0x41, 0, 0x80), repeat=n):
                        cases.append(["strings %d %d %d 0 %s" % (ml, mln, st, hx(bytes(tup)))])
    for _ in range(40):
        bs = bytes(rng.choice([0x41, 0, 0x80]) for _ in range(rng.randrange(0, 10)))
        cases.append(["strings %d %d %d 0 %s" % (rng.randrange(2), rng.randrange(2), rng.randrange(2), hx(bs))])
    return cases


def gen_strings_hist(rng, tier):
    """call histories over {next, nth k, size_hint, count, clone} on the enumerator (C18 / C20): the
    model runs `Strings.runOps`, the specification the same calls on the list of the qualifying runs"""
    cases = []
    vec = bytes.fromhex("1f432d535452494e4700808141414141414141414141ff")        # the repository's test vector
    core = ["next", "nth:1", "count", "clone"]
    for a in core:
        for b in core:
            for c in core:
                cases.append(["strings_hist 3 3 0 0x1000 %s %s" % (hx(vec + b"\x00ab\x00abc\x00abcd\x01xyz"), ",".join([a, b, c, "hint", "next", "next", "count"]))])
    n = 300 if tier == "quick" else 10000
    for _ in range(n):
        ln = rng.choice([0, 1, 2, 5, 8, 16, 33, 64]) + rng.randrange(0, 8)
        bs = bytearray()
        while len(bs) < ln:
            bs += bytes(rng.choice([0x41, 0x61, 0x20, 0x7E, 0x09, 0x30]) for _ in range(rng.randrange(0, 7)))
            bs.append(rng.choice([0, 0, 0x7F, 0x80, 0x1F, 0xFF, 0x01]))
        bs = bytes(bs[:ln])
        ml, mln = rng.choice([1, 1, 2, 3, 4, 0]), rng.choice([1, 1, 2, 3, 0])
        base = rng.choice([0, 0x1000, 0xFFFFFFFF, 0xFFFFFFF0, rng.randrange(1 << 32)])
        k = rng.choice([1, 2, 4, 8, 12])
        cases.append(["strings_hist %d %d %d 0x%x %s %s" % (ml, mln, rng.randrange(2), base, hx(bs), ",".join(rng.choice(HIST_OPS) for _ in range(k)))])
    return cases


def _block(va, size, words, pad=b""):
    return struct.pack("<II", va & 0xFFFFFFFF, size & 0xFFFFFFFF) + b"".join(struct.pack("<H", w & 0xFFFF) for w in words) + pad


def gen_relocs_raw(rng, tier):
    cases = []
    n = 800 if tier == "quick" else 30000
    sizes = [0, 1, 2, 3, 4, 5, 7, 8, 9, 10, 11, 12, 13, 14, 15, 16, 0xFFFFFFFF, 0xFFFFFFFE, 0xFFFFFFFD, 0xFFFFFFFC, 0xFFFFFFF9, 0x80000000, 0x10000]
    # boundary: single block with every interesting SizeOfBlock x buffer length
    for sz in sizes:
        for buflen in [0, 4, 7, 8, 9, 10, 12, 16, 20, 24]:
            data = (_block(0x1000, sz, [0x3010, 0x3020, 0xA030, 0x0000, 0x3FFF, 0xF000, 0x1001, 0x3333]))[:buflen]
            cases.append(["relocs_raw %s" % hx(data)])
    for _ in range(n):
        data = b""
        nb = rng.randrange(0, 6)
        for _b in range(nb):
            nw = rng.choice([0, 1, 2, 3, 4, 5, 8])
            words = [rng.choice([0, 0x3000, 0xA000, 0x1000, 0xF000]) | rng.choice([0, 1, 0xFFF, 0x800, rng.randrange(4096)]) for _w in range(nw)]
            true_size = 8 + 2 * nw
            r = rng.random()
            if r < 0.6:
                size = true_size
            elif r < 0.8:
                size = rng.choice(sizes)
            else:
                size = max(0, true_size + rng.choice([-9, -8, -3, -2, -1, 1, 2, 3, 4, 6]))
            va = rng.choice([0x1000, 0x2000, 0xFFFFF000, 0xFFFFFFFF, 0, rng.randrange(1 << 32)])
            data += _block(va, size, words)
        cut = rng.random()
        if cut < 0.2 and data:
            data = data[:rng.randrange(len(data) + 1)]
        elif cut < 0.3:
            data += bytes(rng.randrange(256) for _ in range(rng.randrange(1, 9)))
        cases.append(["relocs_raw %s" % hx(data)])
    # well-formed directories (the hypothesis of C14_blocks_partition / C14_flat_eq_spec): here the
    # reported entries are judged by the format-side decoder
    for _ in range(n // 4):
        cases.append(["relocs_raw %s" % hx(_rand_dir(rng, RAW_SIZES, wf=True))])
    return cases


def _rand_dir(rng, sizes, wf=None):
    """a random directory: mostly well-formed blocks, some with a wrong SizeOfBlock, sometimes cut or padded;
    wf=True: every block well formed (SizeOfBlock a multiple of four, exact), at most a tail shorter than a header"""
    if wf is None:
        wf = rng.random() < 0.35
    data = b""
    for _b in range(rng.randrange(1 if wf else 0, 6)):
        nw = rng.choice([0, 1, 2, 3, 4, 5, 8])
        words = [rng.choice([0, 0x3000, 0xA000, 0x1000, 0xF000]) | rng.choice([0, 1, 0xFFF, 0x800, rng.randrange(4096)]) for _w in range(nw)]
        if wf and nw % 2:
            words.append(rng.choice([0, 0, 0x0123, 0x3004]))      # pad to a dword boundary (not always with a padding entry)
            nw += 1
        true_size = 8 + 2 * nw
        r = rng.random()
        if r < 0.7 or wf:
            size = true_size
        elif r < 0.85:
            size = rng.choice(sizes)
        else:
            size = max(0, true_size + rng.choice([-9, -8, -3, -2, -1, 1, 2, 3, 4, 6]))
        va = rng.choice([0x1000, 0x2000, 0xFFFFF000, 0xFFFFFFFF, 0, rng.randrange(1 << 32)])
        data += _block(va, size, words)
    cut = rng.random()
    if wf:
        if cut < 0.3:
            data += bytes(rng.randrange(256) for _ in range(rng.randrange(1, 8)))
    elif cut < 0.15 and data:
        data = data[:rng.randrange(len(data) + 1)]
    elif cut < 0.25:
        data += bytes(rng.randrange(256) for _ in range(rng.randrange(1, 9)))
    return data


RAW_SIZES = [0, 1, 2, 3, 4, 5, 7, 8, 9, 10, 11, 12, 13, 14, 15, 16, 0xFFFFFFFF, 0xFFFFFFFE, 0xFFFFFFFD, 0xFFFFFFFC, 0xFFFFFFF9, 0x80000000, 0x10000]
ALIGNS = [0, 1, 2, 4, 6, 8, 12]


def gen_relocs_rawat(rng, tier):
    """the directory at every residue class of its address: `parse` answers Misaligned unless the
    address is a multiple of four (the 4-aligned placements must answer exactly like relocs_raw)"""
    cases = []
    fixed = [b"", _block(0x1000, 12, [0x3010, 0]), _block(0x1000, 16, [0x3010, 0x3020, 0xA030, 0]) + _block(0x2000, 12, [0x3001, 0]),
             _block(0x1000, 10, [0x3010, 0xAABB]) + _block(0x2000, 8, []), _block(0x3000, 0xFFFFFFFF, [0x3010])[:9], bytes(7)]
    for data in fixed:
        for al in ALIGNS:
            cases.append(["relocs_rawat %d %s" % (al, hx(data))])
    n = 200 if tier == "quick" else 8000
    for _ in range(n):
        data = _rand_dir(rng, RAW_SIZES)
        cases.append(["relocs_rawat %d %s" % (rng.choice(ALIGNS), hx(data))])
    return cases


HIST_OPS = ["next", "next", "nth:0", "nth:1", "nth:2", "nth:5", "hint", "count", "clone", "nth:0xffffffffffffffff", "nth:0x7fffffffffffffff"]


def gen_relocs_hist(rng, tier):
    """call histories over {next, nth k, size_hint, count, clone} on the block iterator (C18): the
    model runs `Relocs.runOps`, the specification the same calls on the plain list of the blocks"""
    cases = []
    core = ["next", "nth:1", "count", "clone"]
    two = _block(0x1000, 16, [0x3010, 0x3020, 0xA030, 0]) + _block(0x2000, 12, [0x3001, 0]) + _block(0x3000, 8, []) + _block(0x4000, 12, [0x3004, 0x3008])
    for a in core:
        for b in core:
            for c in core:
                cases.append(["relocs_hist %s %s" % (hx(two), ",".join([a, b, c, "hint", "next", "next", "count"]))])
    n = 300 if tier == "quick" else 10000
    for _ in range(n):
        data = _rand_dir(rng, RAW_SIZES)
        k = rng.choice([1, 2, 4, 8, 12])
        cases.append(["relocs_hist %s %s" % (hx(data), ",".join(rng.choice(HIST_OPS) for _ in range(k)))])
    return cases


def gen_relocs_build(rng, tier):
    cases = [["relocs_build -"]]
    n = 600 if tier == "quick" else 20000
    edge_off = [0, 1, 2, 0x7FF, 0x800, 0xFFE, 0xFFF]
    pages = [0, 0x1000, 0x2000, 0x10000, 0xFFFFE000, 0xFFFFF000]
    for pg in pages:
        for o in edge_off:
            cases.append(["relocs_build 0x%x:3" % (pg + o)])
            cases.append(["relocs_build 0x%x:3,0x%x:10" % (pg + o, min(pg + o + 1, 0xFFFFFFFF))])
    for _ in range(n):
        k = rng.choice([1, 2, 3, 4, 5, 8, 17])
        mode = rng.random()
        rvas = []
        cur = rng.choice(pages) + rng.choice(edge_off)
        for _i in range(k):
            rvas.append(min(cur, 0xFFFFFFFF))
            cur += rng.choice([0, 1, 2, 4, 8, 0xFFF, 0x1000, 0x1001, rng.randrange(0, 0x3000)])
        if mode < 0.15:
            rng.shuffle(rvas)           # unsorted: round trip must still hold
        tys = [rng.choice([1, 2, 3, 10, 15, rng.randrange(1, 16)]) for _i in range(k)]
        if mode > 0.95:
            tys[rng.randrange(k)] = rng.choice([0, 16, 255])      # outside the documented precondition
        cases.append(["relocs_build " + ",".join("0x%x:%d" % (r, t) for r, t in zip(rvas, tys))])
    return cases


def gen_relocs_image(rng, tier):
    """EXTRACTION (`Pe::base_relocs`, src/pe64/base_relocs.rs): images whose data directory 5 points at a relocation
    directory inside a section, dumped through `relocs <k> dump` (the blocks with their references, the flattened
    entries, the window the directory occupies) on the file and on the mapped image, PE32 and PE32+, through the
    specific constructors and the wrappers.  Directory `Size`: exact, 0, odd, cut, reaching beyond the section / the
    file / the image; `VirtualAddress`: 0, not dword aligned, in the virtual-only tail of the section, beyond the image;
    data directory array too short for slot 5; raw data of the section not dword aligned in the file"""
    from .pe import PE, Section, rand_bytes
    from .gen_img import img_line, load_view
    cases = []
    variants = ["exact", "exact", "zero", "odd", "cut", "beyond_sec", "huge", "flush_end", "va0", "va_mis", "va_tail", "va_out",
                "short_dd", "prd_mis", "illformed", "illformed"]
    reps = 2 if tier == "quick" else 40
    for bits in (32, 64):
        for var in variants:
            for _ in range(reps):
                pe = PE(bits)
                pe.e_lfanew = rng.choice([0x40, 0x80, 0x48])
                pe.file_align = 0x200
                pe.section_align = rng.choice([0x1000, 0x200])
                cap = 0x200
                wf = var != "illformed"
                d = _rand_dir(rng, RAW_SIZES, wf=True if wf else None)
                if var == "flush_end":
                    pos = cap - len(d)
                    pos -= pos % 4
                    d = d + bytes(cap - pos - len(d))          # (a tail shorter than a header keeps the directory well formed)
                else:
                    pos = rng.choice([0, 4, 0x40, 0x100])
                body = bytearray(rand_bytes(rng, cap))
                body[pos:pos + len(d)] = d
                text_va = max(pe.section_align, 0x400)
                reloc_va = text_va + max(pe.section_align, 0x200)
                prd0 = 0x400
                rprd = prd0 + 0x200 + (2 if var == "prd_mis" else 0)
                vs = cap
                if var == "va_tail":
                    vs = cap + 0x100                             # virtual-only tail: zero fill in the file, zeros when mapped
                pe.sections = [Section(b".text", va=text_va, vs=0x200, prd=prd0, rs=0x200, data=rand_bytes(rng, 0x200)),
                               Section(b".reloc", va=reloc_va, vs=vs, prd=rprd, rs=cap, chars=0x42000040, data=bytes(body))]
                va, size = reloc_va + pos, len(d)
                if var == "zero":
                    size = 0
                elif var == "odd":
                    size = max(0, size + rng.choice([-1, 1, -3, 3, 2, -2])) if rng.random() < 0.7 else rng.choice([1, 3, 5, 7, 9, 11, 13])
                elif var == "cut":
                    size = rng.randrange(0, size + 1)
                elif var == "beyond_sec":
                    size = cap - pos + rng.choice([1, 4, 8, 0x100])
                elif var == "huge":
                    size = rng.choice([0x10000, 0x7FFFFFFF, U32_, U32_ - 3])
                elif var == "va0":
                    va = 0
                elif var == "va_mis":
                    va += rng.choice([1, 2, 3])
                elif var == "va_tail":
                    va = reloc_va + cap + rng.choice([0, 4, 0x80]); size = rng.choice([0, 8, 12])
                elif var == "va_out":
                    va = rng.choice([reloc_va + 0x10000, U32_ - 3, U32_ - 11, 0x80000000])
                elif var == "short_dd":
                    pe.num_rva = rng.choice([0, 1, 5])
                pe.dirs[5] = (va & U32_, size & U32_)
                data = pe.build()
                view = load_view(pe, data)
                for mode, buf in (("f", data), ("v", view)):
                    if buf is None:
                        continue
                    k, kw = "%s%d" % (mode, bits), "w" + mode
                    al = rng.choice([0, 4, 8, 12])
                    cases.append([img_line(rng, buf, al, rng.choice("se")), "from_bytes " + k, "relocs %s dump" % k, "relocs %s dump" % kw])
    # the images of the non-vacuity examples of C14_extraction (byte arrays read out of the Lean source)
    import os, re
    lean = os.path.join(os.path.dirname(os.path.dirname(os.path.abspath(__file__))), "lean", "PeliteModel", "Lemmas")
    imgs = {}
    for fn in ("RelocsFold.lean", "DirsExamples.lean"):
        try:
            txt = open(os.path.join(lean, fn)).read()
        except OSError:
            continue
        for m in re.finditer(r"def (\w+) : Bytes := #\[([^\]]*)\]", txt):
            imgs[m.group(1)] = bytes(int(x) for x in m.group(2).replace("\n", " ").split(",") if x.strip())

    def patched(b, slot):
        b = bytearray(b)
        b[100:112] = bytes([0, 0x10, 0, 0, 12, 0, 0, 0, 4, 0x30, 0, 0])
        b[slot:slot + 8] = struct.pack("<II", 100, 12)
        return bytes(b)
    plan = [("relocFile32", None, ["f32", "wf"]), ("relocFile64", None, ["f64", "wf"]), ("demoBytes", 224, ["v32", "wv"]), ("demoBytes64", 240, ["v64", "wv"])]
    for name, slot, ks in plan:
        if name in imgs:
            data = imgs[name] if slot is None else patched(imgs[name], slot)
            for al in (0, 8):
                cases.append([img_line(rng, data, al, "e"), "from_bytes " + ks[0]] + ["relocs %s dump" % k for k in ks])
    return cases


U32_ = 0xFFFFFFFF


def gen_fmt_cstr(rng, tier):
    """Debug / Display of C strings containing every byte value (the formatter loops are hand-written)"""
    cases = [["fmt_cstr -"]]
    for v in range(1, 256):
        cases.append(["fmt_cstr %02x" % v])
        cases.append(["fmt_cstr 41%02x42" % v])
        cases.append(["fmt_cstr %02x%02x" % (v, v)])
    reps = [0x41, 0x7F, 0x80, 0x1F, 0x22, 0x5C, 0x0A, 0x09, 0x0D, 0x7E, 0x20, 0xFF]
    for a in reps:
        for b in reps:
            for c in reps:
                cases.append(["fmt_cstr %02x%02x%02x" % (a, b, c)])
    n = 300 if tier == "quick" else 20000
    for _ in range(n):
        ln = rng.choice([1, 2, 5, 17, 64, 300])
        bs = bytes(rng.choice(reps + [rng.randrange(1, 256)]) for _ in range(ln))
        cases.append(["fmt_cstr %s" % bs.hex()])
    return cases


def gen_ptr(rng, tier):
    """typed addresses `pe32::Ptr<T>` / `pe64::Ptr<T>` (src/pe64/ptr.rs): element arithmetic, byte offsets,
    member offsets and the printed text.  Arguments whose checked arithmetic overflows are not generated (pointer
    arithmetic beyond the address space panics in checked builds, like the standard library's; it is not among the
    entry points C02 speaks of) — except 32-bit indices whose byte offset is truncated by `as Va`, which do not panic."""
    cases = []
    sizes = [1, 2, 3, 4, 8, 16, 20, 40]
    for w in (32, 64):
        top = 1 << w
        vas = [0, 1, 0x1000, 0x400000, 0x10000000, 0x7FFFFFFF, 0x80000000, 0xFFFFFFF0 if w == 32 else 0x140001000, top - 1, top - 41, top // 2]
        for va in vas:
            cases.append(["ptr %d text 0x%x" % (w, va)])
            for off in (0, 1, 4, top - 1, top - 4, top // 2, top - va if va else 0):
                cases.append(["ptr %d offset 0x%x 0x%x" % (w, va, off % top)])
            for off in (0, 1, 8, 0xFFFFFFFF):
                if va + off < top:
                    cases.append(["ptr %d member 0x%x 0x%x" % (w, va, off)])
            for size in sizes:
                room = (top - 1 - va) // size
                for i in sorted(set([0, 1, 2, min(7, room), room, max(room - 1, 0), room // 2])):
                    if va + i * size < top:
                        cases.append(["ptr %d at 0x%x %d %d" % (w, va, size, i)])
        # 32-bit: the element offset is truncated before the checked addition
        for size, i in ((4, 0x40000000), (8, 0x20000001), (16, 0x10000000), (2, 0x80000005)):
            va = 0x1000
            if va + (i * size) % top < top:
                cases.append(["ptr 32 at 0x%x %d %d" % (va, size, i)])
    n = 200 if tier == "quick" else 20000
    for _ in range(n):
        w = rng.choice([32, 64])
        top = 1 << w
        va = rng.choice([rng.randrange(top), rng.randrange(1 << 20), top - 1 - rng.randrange(1 << 12)])
        size = rng.choice(sizes)
        room = (top - 1 - va) // size
        i = rng.choice([rng.randrange(room + 1), min(room, rng.randrange(1 << 10))])
        cases.append(["ptr %d at 0x%x %d %d" % (w, va, size, i), "ptr %d offset 0x%x 0x%x" % (w, va, rng.randrange(top)), "ptr %d text 0x%x" % (w, va)])
    return cases
