"""Generators for C12 (resources): an independent python resource-tree writer, a corrupter and the
lookup / reassembly operations on the results, as inline sections (`res_raw`) and inside PE images
(`res <k>` on files and views of both formats).  Nothing here is an oracle except the `want=` tokens
(facts the writer knows by construction) and the abstract tree handed to the Lean specification as
`tree=`."""
import struct
from .pe import PE, Section
from .gen_img import img_line, load_view

U32 = 0xFFFFFFFF
HI = 0x80000000

RSRC_TYPES = {1: "#CURSOR", 2: "#BITMAP", 3: "#ICON", 4: "#MENU", 5: "#DIALOG", 6: "#STRING", 7: "#FONTDIR", 8: "#FONT",
              9: "#ACCELERATOR", 10: "#RCDATA", 11: "#MESSAGETABLE", 12: "#GROUP_CURSOR", 14: "#GROUP_ICON", 16: "#VERSION",
              17: "#DLGINCLUDE", 19: "#PLUGPLAY", 20: "#VXD", 21: "#ANICURSOR", 22: "#ANIICON", 23: "#HTML", 24: "#MANIFEST"}


def hx(b):
    return bytes(b).hex() if b else "-"


def hxw(ws):
    return "".join("%04x" % w for w in ws) if ws else "-"


# ---------------------------------------------------------------- abstract trees

class RData:
    def __init__(self, content=b"", cp=0):
        self.content, self.cp = bytes(content), cp


class RDir:
    """entries: list of (name, child); name = int (id) | tuple of utf-16 units; the first `nnamed`
    entries are counted as named in the header (whatever their names are)"""
    def __init__(self, entries=None, nnamed=None):
        self.entries = list(entries or [])
        self.nnamed = nnamed

    def named(self):
        if self.nnamed is not None:
            return self.nnamed
        n = 0
        for nm, _ in self.entries:
            if isinstance(nm, int):
                break
            n += 1
        return n


def tree_text(t):
    if isinstance(t, RData):
        return "F%d:%s" % (t.cp, hx(t.content))
    es = []
    for nm, ch in t.entries:
        n = ("i%d" % nm) if isinstance(nm, int) else ("w" + hxw(nm))
        es.append(n + "=" + tree_text(ch))
    return "D%d[%s]" % (t.named(), ";".join(es))


def pad4(n):
    return (n + 3) & ~3


def name_size(nm):
    return 0 if isinstance(nm, int) else pad4(2 + 2 * len(nm))


def node_size(t):
    if isinstance(t, RData):
        return 16 + pad4(len(t.content))
    return 16 + 8 * len(t.entries) + sum(name_size(nm) + node_size(ch) for nm, ch in t.entries)


def enc_name(nm):
    if isinstance(nm, int):
        return b""
    b = struct.pack("<H", len(nm) & 0xFFFF) + b"".join(struct.pack("<H", w) for w in nm)
    return b + bytes(pad4(len(b)) - len(b))


def encode_canonical(t, dir_va, base=0):
    """the layout of the Lean reference writer `Spec.encNode`: a node, then per entry its name string
    and its subtree, depth first"""
    if isinstance(t, RData):
        c = t.content
        return struct.pack("<IIII", (dir_va + base + 16) & U32, len(c), t.cp & U32, 0) + c + bytes(pad4(len(c)) - len(c))
    n = len(t.entries)
    nn = t.named()
    out = struct.pack("<IIHHHH", 0, 0, 0, 0, nn & 0xFFFF, (n - nn) & 0xFFFF)
    o = base + 16 + 8 * n
    table, blobs = b"", b""
    for nm, ch in t.entries:
        ns = name_size(nm)
        nf = nm if isinstance(nm, int) else (HI | o)
        of = (o + ns) | (HI if isinstance(ch, RDir) else 0)
        table += struct.pack("<II", nf & U32, of & U32)
        blobs += enc_name(nm) + encode_canonical(ch, dir_va, o + ns)
        o += ns + node_size(ch)
    return out + table + blobs


class Layout:
    """what the classic writer placed where (for the corrupter)"""
    def __init__(self):
        self.dirs = []        # (offset, RDir)
        self.entries = []     # offset of each 8-byte entry record
        self.strings = []     # offset of each name string
        self.datas = []       # offset of each data entry
        self.blobs = []       # (offset, len) of each data blob


def encode_classic(rng, t, dir_va, lay=None):
    """the layout linkers produce: all directory tables (breadth first), then the name strings, then
    the data entries, then the data; random header fields, 2-aligned strings, assorted blob alignment"""
    lay = lay or Layout()
    dirs, order = [], [t]
    while order:
        d = order.pop(0)
        dirs.append(d)
        for _, ch in d.entries:
            if isinstance(ch, RDir):
                order.append(ch)
    off, doff = 0, {}
    for d in dirs:
        doff[id(d)] = off
        off += 16 + 8 * len(d.entries)
    soff, strs = {}, b""
    for d in dirs:
        for nm, _ in d.entries:
            if not isinstance(nm, int) and nm not in soff:
                soff[nm] = off + len(strs)
                lay.strings.append(off + len(strs))
                strs += struct.pack("<H", len(nm) & 0xFFFF) + b"".join(struct.pack("<H", w) for w in nm)
    strs += bytes(pad4(len(strs)) - len(strs))
    off += len(strs)
    datas = []
    for d in dirs:
        for _, ch in d.entries:
            if isinstance(ch, RData):
                datas.append(ch)
    eoff = {}
    for i, e in enumerate(datas):
        eoff[id(e)] = off + 16 * i
        lay.datas.append(off + 16 * i)
    off += 16 * len(datas)
    blobs, boff = b"", {}
    for e in datas:
        al = rng.choice([4, 4, 8, 16])
        padn = (-(off + len(blobs))) % al
        if getattr(e, "odd", False):
            padn += 1                    # the data at an ODD offset (GroupResource::new: Misaligned; plain data: fine)
        blobs += bytes(padn)
        boff[id(e)] = off + len(blobs)
        lay.blobs.append((off + len(blobs), len(e.content)))
        blobs += e.content
    out = b""
    for d in dirs:
        n, nn = len(d.entries), d.named()
        lay.dirs.append((len(out), d))
        out += struct.pack("<IIHHHH", rng.choice([0, 0, 0xFFFFFFFF]), rng.randrange(1 << 32), rng.randrange(8), rng.randrange(8), nn & 0xFFFF, (n - nn) & 0xFFFF)
        for nm, ch in d.entries:
            lay.entries.append(len(out))
            nf = nm if isinstance(nm, int) else (HI | soff[nm])
            of = (HI | doff[id(ch)]) if isinstance(ch, RDir) else eoff[id(ch)]
            out += struct.pack("<II", nf & U32, of & U32)
    out += strs
    for e in datas:
        out += struct.pack("<IIII", (dir_va + boff[id(e)]) & U32, len(e.content), e.cp & U32, rng.choice([0, 0, 0xFFFFFFFF]))
    out += blobs
    return out, lay


# ---------------------------------------------------------------- names

def utf16(s):
    b = s.encode("utf-16-le")
    return tuple(struct.unpack("<%dH" % (len(b) // 2), b))


NAME_POOL = [utf16("MAIN"), utf16("icon"), utf16("ICON"), utf16("A"), utf16("a"), utf16(""), utf16("\U0001F600"), utf16("x\U0001F600yé"),
             utf16("été"), utf16("#1"), utf16("#ICON"), utf16("a/b"), utf16("."), utf16(".."), utf16("中文"),
             (0xD800,), (0xDC00, 0x41), (0x41, 0xD83D), (0xD83D, 0xD83D, 0xDE00), utf16("N" * 40), utf16("line\nbreak"), utf16("�")]


def rand_name(rng):
    if rng.random() < 0.8:
        return rng.choice(NAME_POOL)
    return tuple(rng.choice([0x41, 0x61, 0x30, 0x2F, 0x23, 0xE9, 0xD83D, 0xDE00, 0xFFFF, 0x20]) for _ in range(rng.randrange(0, 6)))


def rand_id(rng):
    return rng.choice([0, 1, 2, 3, 3, 7, 10, 14, 16, 24, 25, 100, 1033, 0xFFFF, 0x10000, 0x7FFFFFFF, rng.randrange(1, 30)])


def rand_data(rng):
    n = rng.choice([0, 1, 2, 3, 4, 5, 8, 16, 33, rng.randrange(0, 80)])
    return RData(bytes(rng.randrange(256) for _ in range(n)), rng.choice([0, 1252, 65001, 0xFFFFFFFF, rng.randrange(1 << 32)]))


def rand_tree(rng, depth, maxn=4):
    """a directory of `depth` levels below it at most"""
    nn = rng.choice([0, 0, 1, 2, maxn])
    ni = rng.choice([0, 1, 2, 3, maxn])
    if rng.random() < 0.08:
        nn = ni = 0
    es = []
    for i in range(nn + ni):
        nm = rand_name(rng) if i < nn else rand_id(rng)
        if rng.random() < 0.1:
            nm = rand_id(rng) if i < nn else rand_name(rng)       # kind does not match the header's split
        if depth > 1 and rng.random() < 0.7:
            ch = rand_tree(rng, depth - 1, maxn=3)
        else:
            ch = rand_data(rng)
        es.append((nm, ch))
    if rng.random() < 0.15 and len(es) >= 2:
        es[1] = (es[0][0], es[1][1])                               # duplicate name: the first one wins
    return RDir(es, nn)


# ---------------------------------------------------------------- icons

def ico_file(kind, images):
    """images: list of (12 header bytes, data) -> .ico / .cur bytes"""
    n = len(images)
    out = struct.pack("<HHH", 0, kind, n)
    off = 6 + 16 * n
    for hdr, data in images:
        out += hdr[:8] + struct.pack("<II", len(data), off)
        off += len(data)
    for _, data in images:
        out += data
    return out


def group_blob(kind, images, first_id, sizes=None):
    out = struct.pack("<HHH", 0, kind, len(images))
    for i, (hdr, data) in enumerate(images):
        sz = len(data) if sizes is None else sizes[i]
        out += hdr[:8] + struct.pack("<IH", sz & U32, (first_id + i) & 0xFFFF)
    return out


def rand_images(rng, k):
    out = []
    for _ in range(k):
        hdr = bytes([rng.choice([16, 32, 0]), rng.choice([16, 32, 0]), rng.choice([0, 16]), 0]) + struct.pack("<HH", 1, rng.choice([4, 8, 32]))
        n = rng.choice([0, 1, 2, 7, 40, rng.randrange(0, 64)])
        out.append((hdr, bytes(rng.randrange(256) for _ in range(n))))
    return out


LAST_ODD = [False]


def typical_tree(rng, allow_odd=False):
    """type / name / language tree with manifest, version, icon and cursor groups.
    Returns (tree, groups) with groups = list of (kind, name, ico file bytes or None)"""
    top, groups = [], []
    LAST_ODD[0] = False
    lang = lambda: rng.choice([1033, 0, 1031])
    next_id = [1]
    for kind, rt, rtg in ((1, 3, 14), (2, 1, 12)):
        if rng.random() < 0.25:
            continue
        imgs_dir, grp_dir = [], []
        seen = set()
        for g in range(rng.choice([1, 1, 2, 3])):
            k = rng.choice([0, 1, 2, 3, 5])
            images = rand_images(rng, k)
            first = next_id[0]
            next_id[0] += k
            for i, (hdr, data) in enumerate(images):
                imgs_dir.append((first + i, RDir([(lang(), RData(data, 0))], 0)))
            gname = rng.choice([g + 1, 100 + g, utf16("MAINICON"), utf16("app\U0001F600"), rand_name(rng)])
            sizes = None
            exact = True
            if k and rng.random() < 0.2:
                sizes = [rng.choice([len(d), len(d) + 1, 0, 0xFFFFFFFF, 0x80000000]) for _, d in images]
                exact = all(s == len(d) for s, (_, d) in zip(sizes, images))
            blob = group_blob(kind, images, first, sizes)
            gnode = RDir([(lang(), RData(blob, 0))], 0)
            if allow_odd and rng.random() < 0.15:
                # the group header stored at an odd offset (found uncovered by the line-coverage run of the streams);
                # the abstract tree does not know where data is stored: such cases carry no `tree=` specification
                gnode.entries[0][1].odd = True
                exact = False
                LAST_ODD[0] = True
            if rng.random() < 0.25:
                # group directories that are NOT of the resource compiler's shape (Spec: `Node.groups`, `parseGroup`)
                exact = False
                shape = rng.choice(["data", "empty", "nested", "two_langs", "magic", "reserved", "short", "long", "cut", "count"])
                if shape == "data":
                    gnode = RData(blob, 0)                                             # UnDataEntry
                elif shape == "empty":
                    gnode = RDir([], 0)                                                # NotFound
                elif shape == "nested":
                    gnode = RDir([(lang(), RDir([(1, RData(blob, 0))], 0))], 0)        # UnDirectory
                elif shape == "two_langs":
                    gnode = RDir([(1031, RData(blob, 0)), (1033, RData(b"not a group", 0))], 0)
                    exact = sizes is None or all(s == len(d) for s, (_, d) in zip(sizes, images))
                else:
                    bb = bytearray(blob)
                    if shape == "magic":
                        struct.pack_into("<H", bb, 2, rng.choice([0, 3, 0x101, 0xFFFF]))   # BadMagic
                    elif shape == "reserved":
                        struct.pack_into("<H", bb, 0, rng.choice([1, 0x100, 0xFFFF]))      # BadMagic
                    elif shape == "short":
                        bb = bb[:rng.choice([0, 1, 5])]                                    # Bounds
                    elif shape == "long":
                        bb += bytes(rng.choice([1, 2, 14]))                                # Bounds
                    elif shape == "cut":
                        bb = bb[:max(6, len(bb) - rng.choice([1, 2, 14]))]                 # Bounds unless nothing was cut
                    elif shape == "count":
                        struct.pack_into("<H", bb, 4, (k + rng.choice([1, 0xFFFF])) & 0xFFFF)   # Bounds
                    gnode = RDir([(lang(), RData(bytes(bb), 0))], 0)
            grp_dir.append((gname, gnode))
            # `grp_write <name>` takes the first group of that name: only that one has a known answer
            groups.append((kind, gname, ico_file(kind, images) if exact and gname not in seen else None))
            seen.add(gname)
        rng.shuffle(imgs_dir) if rng.random() < 0.3 else None
        top.append((rt, RDir(imgs_dir, 0)))
        named = [e for e in grp_dir if not isinstance(e[0], int)]
        ids = [e for e in grp_dir if isinstance(e[0], int)]
        top.append((rtg, RDir(named + ids, len(named))))
    if rng.random() < 0.8:
        man = rng.choice([b"<assembly/>", b"", "<a>é\U0001F600</a>".encode("utf-8"), b"\xff\xfe<bad utf8>", b"<x>\xc0\xaf</x>", b"\xed\xa0\x80"])
        top.append((24, RDir([(rng.choice([1, 2]), RDir([(lang(), RData(man, 65001))], 0))], 0)))
    if rng.random() < 0.8:
        ver = bytes(rng.randrange(256) for _ in range(rng.choice([0, 4, 52, 92, 93])))
        top.append((16, RDir([(rng.choice([1, 1, 1, 2]), RDir([(lang(), RData(ver, 0))], 0))], 0)))
    if rng.random() < 0.5:
        top.append((10, RDir([(utf16("BLOB"), RDir([(1033, rand_data(rng)), (1031, rand_data(rng))], 0)), (7, RDir([(1033, rand_data(rng))], 0))], 1)))
    if rng.random() < 0.3:
        top.insert(0, (utf16("CUSTOM"), RDir([(1, RDir([(1033, rand_data(rng))], 0))], 0)))
    if rng.random() < 0.5:
        ids = sorted([e for e in top if isinstance(e[0], int)], key=lambda e: e[0])
        top = [e for e in top if not isinstance(e[0], int)] + ids
    nn = 0
    for nm, _ in top:
        if isinstance(nm, int):
            break
        nn += 1
    return RDir(top, nn), groups


# ---------------------------------------------------------------- paths and names for lookups

def wide_to_str(ws):
    """the utf-8 text that matches the wide name exactly, or None (unpaired surrogate)"""
    try:
        return b"".join(struct.pack("<H", w) for w in ws).decode("utf-16-le", "strict")
    except UnicodeDecodeError:
        return None


def comp_variants(nm):
    """path components (bytes) that should select an entry with this name"""
    out = []
    if isinstance(nm, int):
        if nm >= 1:
            out.append(b"#%d" % nm)
        if nm in RSRC_TYPES:
            out.append(RSRC_TYPES[nm].encode())
    else:
        s = wide_to_str(nm)
        if s is not None:
            b = s.encode("utf-8")
            if b and b not in (b".", b"..") and b"/" not in b:
                out.append(b)
    return out


def near_miss(rng, nm):
    out = []
    if isinstance(nm, int):
        out += [b"#0%d" % nm, b"#+%d" % nm, b"#%d " % nm, b" #%d" % nm, b"#%dx" % nm, b"#%d" % (nm + (1 << 32)), b"#-%d" % nm, b"%d" % nm,
                b"#%d" % (nm + 1), b"#", b"#0", b"#00"]
        if nm in RSRC_TYPES:
            t = RSRC_TYPES[nm]
            out += [t.lower().encode(), t[1:].encode(), (t + "S").encode(), t[:-1].encode(), ("#" + t).encode()]
    else:
        s = wide_to_str(nm)
        if s:
            out += [s.swapcase().encode("utf-8"), (s + "x").encode("utf-8"), s[:-1].encode("utf-8"), s.encode("utf-8") + b"\0"]
        out += [b"#ICON", b"#3", b"\xf0\x9f\x98\x80", b"\xe9"]
    return out


def all_paths(t, prefix=(), out=None, cap=60):
    out = [] if out is None else out
    if isinstance(t, RDir):
        for nm, ch in t.entries:
            if len(out) >= cap:
                break
            out.append((prefix + (nm,), ch))
            all_paths(ch, prefix + (nm,), out, cap)
    return out


def name_arg(nm):
    return ("i:%d" % nm) if isinstance(nm, int) else ("w:" + hxw(nm))


def str_arg(b):
    return "s:" + hx(b)


def lookup_ops(rng, t, pre, tier):
    """find / get / find_resource lines for every path of the tree plus near misses"""
    ops = []
    paths = all_paths(t)
    budget = 40 if tier == "quick" else 120
    for comps, node in paths[:budget]:
        variants = [comp_variants(nm) for nm in comps]
        if all(variants):
            p = b"/" + b"/".join(rng.choice(v) for v in variants)
            ops.append("%s find %s" % (pre, hx(p)))
            r = rng.random()
            if r < 0.15:
                ops.append("%s find %s" % (pre, hx(p.replace(b"/", b"//") + b"/")))
            elif r < 0.3:
                ops.append("%s find %s" % (pre, hx(b"/." + p + b"/.")))
            elif r < 0.4:
                ops.append("%s find %s" % (pre, hx(b"\\" + p)))
            elif r < 0.5:
                ops.append("%s find %s" % (pre, hx(p[1:])))                       # no root
            elif r < 0.6:
                ops.append("%s find %s" % (pre, hx(p + b"/#1")))                  # below a data entry or one more level
            elif r < 0.7:
                ops.append("%s find %s" % (pre, hx(p + b"/\xff\xfe")))            # not utf-8
            # the same entry through `get` on its parent with the exact name and with a string
            if len(comps) >= 1:
                parent = b"/" + b"/".join(v[0] for v in variants[:-1])
                ops.append("%s get %s %s" % (pre, hx(parent), name_arg(comps[-1])))
                ops.append("%s get %s %s" % (pre, hx(parent), str_arg(rng.choice(variants[-1]))))
                if rng.random() < 0.5:
                    miss = rng.choice(near_miss(rng, comps[-1]))
                    try:
                        miss.decode("utf-8")
                        ops.append("%s get %s %s" % (pre, hx(parent), str_arg(miss)))
                    except UnicodeDecodeError:
                        pass
                    ops.append("%s find %s" % (pre, hx(parent.rstrip(b"/") + b"/" + miss)))
        if len(comps) == 2 and rng.random() < 0.7:
            ops.append("%s find_resource %s %s" % (pre, name_arg(comps[0]), name_arg(comps[1])))
        if len(comps) == 2 and all(variants) and rng.random() < 0.5:
            ops.append("%s find_resource %s %s" % (pre, str_arg(variants[0][-1]), str_arg(variants[1][0])))
        if len(comps) == 3 and rng.random() < 0.7:
            ops.append("%s find_resource %s %s %s" % (pre, name_arg(comps[0]), name_arg(comps[1]), name_arg(comps[2])))
            if rng.random() < 0.3:
                ops.append("%s find_resource %s %s i:%d" % (pre, name_arg(comps[0]), name_arg(comps[1]), rng.choice([0, 1033, 9])))
    # directory level operations
    dirs = [(c, n) for c, n in paths if isinstance(n, RDir)]
    for comps, node in dirs[:6 if tier == "quick" else 20]:
        variants = [comp_variants(nm) for nm in comps]
        if all(variants):
            p = b"/" + b"/".join(v[0] for v in variants)
            ops += ["%s get %s -" % (pre, hx(p)), "%s fmtdir %s" % (pre, hx(p)), "%s fsckdir %s" % (pre, hx(p))]
            sub = all_paths(node, cap=3)
            for sc, _ in sub[:2]:
                sv = [comp_variants(nm) for nm in sc]
                if all(sv):
                    ops.append("%s dfind %s %s" % (pre, hx(p), hx(b"/".join(v[0] for v in sv))))
                    ops.append("%s dfind %s %s" % (pre, hx(p), hx(b"/" + b"/".join(v[0] for v in sv))))
    ops += ["%s find -" % pre, "%s find %s" % (pre, hx(b"/")), "%s find %s" % (pre, hx(b"\\")), "%s find %s" % (pre, hx(b".")),
            "%s find %s" % (pre, hx(b"/..")), "%s find %s" % (pre, hx(b"//")), "%s find %s" % (pre, hx(b"/#0")), "%s find %s" % (pre, hx(b"/\xc3")),
            "%s get %s i:0" % (pre, hx(b"/")), "%s get %s w:-" % (pre, hx(b"/")), "%s get %s s:-" % (pre, hx(b"/")), "%s get %s -" % (pre, hx(b"/")),
            "%s get %s s:%s" % (pre, hx(b"/"), hx(b"#4294967296")), "%s get %s s:%s" % (pre, hx(b"/"), hx(b"#4294967295")),
            "%s get %s s:%s" % (pre, hx(b"/"), hx(b"#ICON")), "%s get %s s:%s" % (pre, hx(b"/"), hx(b"#3")), "%s get %s i:3" % (pre, hx(b"/")),
            "%s get %s s:%s" % (pre, hx(b"/"), hx(b"#MANIFEST")), "%s get %s s:%s" % (pre, hx(b"/"), hx(b"#24")),
            "%s find_resource i:16 i:1" % pre, "%s find_resource s:%s s:%s" % (pre, hx(b"#VERSION"), hx(b"#1"))]
    return ops


# bytes a short-writing sink accepts per `write` call (`grp_write_chunk`): GroupResource::write must deliver the
# same file into every sink that makes progress (it uses write_all since 1c97be5)
CHUNKS = [1, 3, 5, 16, 4096]
_chunk_turn = [0]


def helper_ops(pre, groups):
    ops = ["%s manifest" % pre, "%s version" % pre, "%s icons" % pre, "%s cursors" % pre]
    gp = pre.split(" ")
    for kind, gname, ico in groups:
        w = (" want=%s" % hx(ico)) if ico is not None else ""
        cur = " cursor" if kind == 2 else ""
        _chunk_turn[0] += 1
        ns = [CHUNKS[_chunk_turn[0] % 5], CHUNKS[(_chunk_turn[0] + 2) % 5]]
        if gp[0] == "res":
            ops.append("grp_write %s %s%s%s" % (gp[1], name_arg(gname), cur, w))
            ops += ["grp_write_chunk %s %s%s %d%s" % (gp[1], name_arg(gname), cur, n, w) for n in ns]
        else:
            ops.append("%s grp_write %s%s%s" % (pre, name_arg(gname), cur, w))
            ops += ["%s grp_write_chunk %s%s %d%s" % (pre, name_arg(gname), cur, n, w) for n in ns]
    return ops


# ---------------------------------------------------------------- images

def pe_with_rsrc(rng, sec, bits=None, dir_va=None, size=None):
    """a small image whose data directory 2 points at `sec` placed in a .rsrc section"""
    bits = bits or rng.choice([32, 64])
    pe = PE(bits)
    pe.file_align, pe.section_align = 0x200, 0x1000
    text = Section(b".text", va=0x1000, vs=0x20, prd=0x400, rs=0x200, data=bytes(0x200))
    raw = (len(sec) + 0x1FF) // 0x200 * 0x200
    va = 0x2000 if dir_va is None else dir_va
    rsrc = Section(b".rsrc", va=va, vs=max(len(sec), 1), prd=0x600, rs=raw, chars=0x40000040, data=sec + bytes(raw - len(sec)))
    pe.sections = [text, rsrc]
    pe.dirs = [(0, 0)] * 16
    pe.dirs[2] = (va, len(sec) if size is None else size)
    return pe


def image_cases(rng, sec, dir_va, mk_ops, size=None):
    """the section inside file and view images of both formats; `mk_ops(pre)` makes the op lines"""
    cases = []
    bits = rng.choice([32, 64])
    pe = pe_with_rsrc(rng, sec, bits, dir_va, size)
    data = pe.build()
    view = load_view(pe, data)
    for mode in rng.sample(["file", "view", "wfile", "wview"], 2):
        buf = data if "file" in mode else view
        if buf is None:
            continue
        k = {"file": "f%d" % bits, "view": "v%d" % bits, "wfile": "wf", "wview": "wv"}[mode]
        cases.append([img_line(rng, buf)] + mk_ops("res " + k))
    return cases


# ---------------------------------------------------------------- generators

def std_ops(pre, want_fsck=None, tree=None):
    t = (" tree=" + tree) if tree else ""
    w = (" want=" + want_fsck) if want_fsck else ""
    return ["%s dump%s" % (pre, t), "%s fsck%s%s" % (pre, w, t), "%s fmt%s" % (pre, t)]


def gen_wellformed(rng, tier):
    cases = []
    n = 24 if tier == "quick" else 600
    for i in range(n):
        typical = rng.random() < 0.5
        if typical:
            t, groups = typical_tree(rng, allow_odd=True)
        else:
            t, groups = rand_tree(rng, rng.choice([1, 2, 3, 4])), []
        odd = typical and LAST_ODD[0]
        dir_va = rng.choice([0, 0x2000, 0x3000, 0x10000])
        canonical = rng.random() < 0.5 and not odd
        sec = encode_canonical(t, dir_va) if canonical else encode_classic(rng, t, dir_va)[0]
        tt = tree_text(t)

        def mk(pre, t=t, groups=groups, tt=tt, canonical=canonical):
            ops = std_ops(pre, "ok") + lookup_ops(rng, t, pre, tier) + helper_ops(pre, groups)
            suffix = " tree=" + tt + (" canon=1" if canonical else "")
            if odd:
                return [o.replace(" want=ok", "") for o in ops]
            return [o + suffix for o in ops]
        if rng.random() < 0.5:
            cases.append(mk("res_raw 0x%x %s" % (dir_va, hx(sec))))
        else:
            cases += image_cases(rng, sec, dir_va if dir_va >= 0x2000 else 0x2000, mk) if dir_va >= 0x2000 else [mk("res_raw 0x%x %s" % (dir_va, hx(sec)))]
    # deep chains around the depth limit of fsck.  All of them are well-formed trees (every reference in bounds, nothing
    # contains itself), so by the statement fsck must succeed: `want=ok`.  The implementation gives up beyond 32 nested
    # directories (FSCK_MAX_DEPTH) — a known finding (Thm/C12.lean: C12_fsck_rejects_deep), `limit=depth` in the spec part.
    for depth in (30, 31, 32, 33, 34, 40):
        for width in (1, 2):
            t = RData(b"leaf", 0)
            for d in range(depth):
                t = RDir([(d + 1, t)] + [(1000 + w, RData(bytes([w, d & 0xFF]), 0)) for w in range(width - 1)], 0)
            tt = tree_text(t)
            if width == 1:
                sec = encode_canonical(t, 0)
                cases.append(std_ops("res_raw 0 %s" % hx(sec), "ok", tt))
            else:
                sec = encode_classic(rng, t, 0x2000)[0]
                cases += image_cases(rng, sec, 0x2000, lambda pre, tt=tt: std_ops(pre, "ok", tt))
    # the empty root, a root holding only data entries
    for t in (RDir([], 0), RDir([(1, RData(b"x", 0))], 0), RDir([(utf16("A"), RData(b"", 7))], 1)):
        sec = encode_canonical(t, 0x1000)
        pre = "res_raw 0x1000 %s" % hx(sec)
        cases.append([o + " tree=" + tree_text(t) + " canon=1" for o in std_ops(pre, "ok") + lookup_ops(rng, t, pre, tier) + helper_ops(pre, [])])
    return cases


def put32(b, off, v):
    if 0 <= off and off + 4 <= len(b):
        struct.pack_into("<I", b, off, v & U32)


def get32(b, off):
    return struct.unpack_from("<I", b, off)[0] if 0 <= off and off + 4 <= len(b) else 0


def put16(b, off, v):
    if 0 <= off and off + 2 <= len(b):
        struct.pack_into("<H", b, off, v & 0xFFFF)


def corrupt(rng, sec, lay, dir_va):
    """one mutation of a classic-layout section -> (bytes, description, fsck must fail?)"""
    b = bytearray(sec)
    n = len(b)
    kind = rng.choice(["selfloop", "cycle2", "share", "dangle_dir", "dangle_data", "dangle_name", "count0", "counthuge", "odd_dir",
                       "odd_data", "odd_name", "name_runs_off", "otd_below", "otd_beyond", "size_huge", "size_wrap", "truncate", "flip_kind",
                       "name_len_huge", "random_byte", "root_loop_all", "share_all"])
    must_fail = False
    if kind == "selfloop" and lay.entries:
        e = rng.choice(lay.entries)
        d = max(o for o, _ in lay.dirs if o <= e)          # the directory this entry belongs to
        put32(b, e + 4, HI | d); must_fail = True
    elif kind == "root_loop_all" and lay.entries:
        root_n = len(lay.dirs[0][1].entries)
        for e in lay.entries[:root_n]:
            put32(b, e + 4, HI | 0)
        must_fail = root_n > 0
    elif kind == "cycle2" and len(lay.dirs) >= 2:
        (o1, d1), (o2, d2) = lay.dirs[0], lay.dirs[-1]
        if d2.entries:
            put32(b, o2 + 16 + 4, HI | o1); must_fail = None
    elif kind == "share" and len(lay.dirs) >= 2 and lay.entries:
        tgt = rng.choice(lay.dirs[1:])[0]
        for e in rng.sample(lay.entries, min(len(lay.entries), rng.choice([1, 2, 3]))):
            put32(b, e + 4, HI | tgt)
        must_fail = None
    elif kind == "share_all" and len(lay.dirs) >= 2:
        tgt = lay.dirs[-1][0]
        root_n = len(lay.dirs[0][1].entries)
        for e in lay.entries[:root_n]:
            put32(b, e + 4, HI | tgt)
        must_fail = None
    elif kind == "dangle_dir" and lay.entries:
        put32(b, rng.choice(lay.entries) + 4, HI | rng.choice([n, n - 4, n - 8, n - 12, n - 16, n + 16, 0x7FFFFFFC, 0x7FFFFFFF])); must_fail = None
    elif kind == "dangle_data" and lay.entries:
        put32(b, rng.choice(lay.entries) + 4, rng.choice([n, n - 4, n - 12, n - 16, n + 16, 0x7FFFFFFC])); must_fail = None
    elif kind == "dangle_name" and lay.entries:
        put32(b, rng.choice(lay.entries), HI | rng.choice([n, n - 1, n - 2, n + 2, 0x7FFFFFFE])); must_fail = None
    elif kind == "count0" and lay.dirs:
        o = rng.choice(lay.dirs)[0]
        put16(b, o + 12, 0); put16(b, o + 14, 0)
    elif kind == "counthuge" and lay.dirs:
        o = rng.choice(lay.dirs)[0]
        put16(b, o + rng.choice([12, 14]), rng.choice([0xFFFF, 0x8000, (n - o - 16) // 8, (n - o - 16) // 8 + 1, 100])); must_fail = None
    elif kind == "odd_dir" and lay.entries:
        e = rng.choice(lay.entries)
        v = get32(b, e + 4)
        put32(b, e + 4, v + rng.choice([1, 2, 3])); must_fail = None
    elif kind == "odd_data" and lay.entries:
        e = rng.choice(lay.entries)
        v = get32(b, e + 4)
        put32(b, e + 4, v ^ rng.choice([1, 2, 3])); must_fail = None
    elif kind == "odd_name" and lay.entries:
        e = rng.choice(lay.entries)
        v = get32(b, e)
        put32(b, e, v | HI | 1); must_fail = None
    elif kind == "name_runs_off" and lay.strings:
        s = rng.choice(lay.strings)
        put16(b, s, rng.choice([(n - s - 2) // 2 + 1, (n - s - 2) // 2, 0xFFFF, 0x8000])); must_fail = None
    elif kind == "name_len_huge" and lay.strings:
        put16(b, rng.choice(lay.strings), 0xFFFF); must_fail = None
    elif kind == "otd_below" and lay.datas:
        put32(b, rng.choice(lay.datas), rng.choice([0, dir_va - 1, dir_va - 0x1000]) & U32); must_fail = None
    elif kind == "otd_beyond" and lay.datas:
        put32(b, rng.choice(lay.datas), (dir_va + rng.choice([n, n + 1, n - 1, 0x7FFFFFFF, U32 - dir_va])) & U32); must_fail = None
    elif kind == "size_huge" and lay.datas:
        put32(b, rng.choice(lay.datas) + 4, rng.choice([n, n + 1, U32, 0x80000000])); must_fail = None
    elif kind == "size_wrap" and lay.datas:
        d = rng.choice(lay.datas)
        otd = get32(b, d)
        put32(b, d + 4, (U32 + 1 - ((otd - dir_va) & U32) + rng.choice([0, 1, -1])) & U32); must_fail = None
    elif kind == "truncate":
        cut = rng.choice([0, 1, 4, 8, 15, 16, 17, 24, n - 1, n - 4, n - 16, rng.randrange(0, n + 1)])
        b = b[:max(0, cut)]; must_fail = None
    elif kind == "flip_kind" and lay.entries:
        e = rng.choice(lay.entries)
        v = get32(b, e + 4)
        put32(b, e + 4, v ^ HI); must_fail = None
    elif kind == "random_byte" and n:
        for _ in range(rng.choice([1, 2, 4])):
            b[rng.randrange(n)] = rng.randrange(256)
        must_fail = None
    return bytes(b), kind, must_fail


def gen_corrupt(rng, tier):
    cases = []
    n = 90 if tier == "quick" else 2500
    for i in range(n):
        if rng.random() < 0.4:
            t, groups = typical_tree(rng)
        else:
            t, groups = rand_tree(rng, rng.choice([1, 2, 3]), maxn=3), []
        dir_va = rng.choice([0, 0x2000, 0x2000, 0x10000, 0xFFFFF000])
        lay = Layout()
        sec, lay = encode_classic(rng, t, dir_va, lay)
        if len(sec) > 1500:
            continue
        sec, kind, must_fail = corrupt(rng, sec, lay, dir_va)
        if rng.random() < 0.3:
            sec, kind2, mf2 = corrupt(rng, sec, lay, dir_va)
            must_fail = None                                        # the second mutation may hide the first
        want = "fail" if must_fail else None

        def mk(pre, t=t, groups=groups, want=want):
            ops = std_ops(pre, want)
            lo = lookup_ops(rng, t, pre, tier)
            rng.shuffle(lo)
            return ops + lo[:25 if tier == "quick" else 60] + helper_ops(pre, [(k, g, None) for k, g, _ in groups])
        if rng.random() < 0.65 or dir_va < 0x2000 or dir_va > 0x100000:
            cases.append(mk("res_raw 0x%x %s" % (dir_va, hx(sec))))
        else:
            cases += image_cases(rng, sec, dir_va, mk)
    return cases


def subtree_dirs(t, out=None):
    out = [] if out is None else out
    if isinstance(t, RDir):
        out.append(t)
        for _, ch in t.entries:
            subtree_dirs(ch, out)
    return out


def gen_offpath(rng, tier):
    """Path locality (Thm/C12Find.lean: C12_find_local, C12_helpers_local, C12_lookup_off_cycle).
    A well-formed tree in the classic layout gets one more top-level directory, stored LAST (the victim), which is then
    broken inside: cycles to itself / to the root, dangling sub-directories, data entries and names, wild counts — only
    in the entry records of the victim's table and in the tables and headers of the directories below it (the victim's
    own header and the root's record for it stay intact).  The whole section represents no tree any more, `fsck`
    fails; yet every lookup whose path does not enter the victim must answer what the ORIGINAL tree says.
    `tree=` is the original tree, `local=1` tells the oracle to hold the implementation to its answer although the
    section does not represent it (`hyp=0`)."""
    cases = []
    n = 30 if tier == "quick" else 800
    for i in range(n):
        if rng.random() < 0.6:
            t0, groups = typical_tree(rng)
        else:
            t0, groups = rand_tree(rng, rng.choice([1, 2, 3]), maxn=3), []
        victim = rand_tree(rng, rng.choice([1, 2, 2, 3]), maxn=3)
        if not victim.entries:
            victim = RDir([(1, RData(b"v", 0))], 0)
        vname = rng.choice([4000 + rng.randrange(50), 0x7FFFFFF0 + rng.randrange(8)])
        t = RDir(t0.entries + [(vname, victim)], t0.named())
        dir_va = rng.choice([0, 0x2000, 0x10000])
        lay = Layout()
        sec, lay = encode_classic(rng, t, dir_va, lay)
        if len(sec) > 4000:
            continue
        b = bytearray(sec)
        size = len(b)
        where = {id(d): o for o, d in lay.dirs}
        vdirs = subtree_dirs(victim)
        voff = where[id(victim)]
        for _ in range(rng.choice([1, 1, 2, 4])):
            d = rng.choice(vdirs)
            o = where[id(d)]
            kinds = ["self", "root", "victim", "dangle_dir", "dangle_data", "dangle_name", "odd", "flip"]
            if d is not victim:
                kinds += ["counthuge", "count0"]
            kind = rng.choice(kinds)
            if kind in ("counthuge", "count0"):
                put16(b, o + rng.choice([12, 14]), 0xFFFF if kind == "counthuge" else 0)
                continue
            if not d.entries:
                continue
            e = o + 16 + 8 * rng.randrange(len(d.entries))
            if kind == "self":
                put32(b, e + 4, HI | o)
            elif kind == "root":
                put32(b, e + 4, HI | 0)
            elif kind == "victim":
                put32(b, e + 4, HI | voff)
            elif kind == "dangle_dir":
                put32(b, e + 4, HI | rng.choice([size, size - 8, size + 16, 0x7FFFFFFC, 0x1000]))
            elif kind == "dangle_data":
                put32(b, e + 4, rng.choice([size, size - 12, size + 16, 0x7FFFFFFC]))
            elif kind == "dangle_name":
                put32(b, e, HI | rng.choice([size, size - 1, size + 2, 0x7FFFFFFE]))
            elif kind == "odd":
                put32(b, e + 4, get32(b, e + 4) ^ rng.choice([1, 2, 3]))
            elif kind == "flip":
                put32(b, e + 4, get32(b, e + 4) ^ HI)
        sec2 = bytes(b)
        tt = tree_text(t)

        def mk(pre, t0=t0, groups=groups, tt=tt, vname=vname):
            ops = lookup_ops(rng, t0, pre, tier) + helper_ops(pre, [(k, g, None) for k, g, _ in groups])
            ops.append("%s get %s %s" % (pre, hx(b"/"), name_arg(vname)))          # the victim itself: its header is intact
            ops.append("%s find %s" % (pre, hx(b"/#%d" % vname)))
            # grp_write reassembles files: it has no `spec=` and is compared with the model only
            return [o + ("" if " grp_write " in o or o.startswith("grp_write") else " tree=" + tt + " local=1") for o in ops]
        if rng.random() < 0.7 or dir_va < 0x2000:
            cases.append(mk("res_raw 0x%x %s" % (dir_va, hx(sec2))))
        else:
            cases += image_cases(rng, sec2, dir_va, mk)
    # the witness of C12_lookup_off_cycle, byte for byte
    cyc = bytes([0,0,0,0, 0,0,0,0, 0,0,0,0, 0,0,2,0,   3,0,0,0, 32,0,0,0x80,   9,0,0,0, 80,0,0,0x80,
                 0,0,0,0, 0,0,0,0, 0,0,0,0, 0,0,1,0,   1,0,0,0, 56,0,0,0x80,
                 0,0,0,0, 0,0,0,0, 0,0,0,0, 0,0,1,0,   9,4,0,0, 112,0,0,0,
                 0,0,0,0, 0,0,0,0, 0,0,0,0, 0,0,2,0,   1,0,0,0, 80,0,0,0x80,   2,0,0,0, 0,0x10,0,0x80,
                 128,0,0,0, 4,0,0,0, 0,0,0,0, 0,0,0,0,
                 0xDE,0xAD,0xBE,0xEF])
    pre = "res_raw 0 %s" % hx(cyc)
    cases.append(std_ops(pre, "fail") + ["%s find %s" % (pre, hx(q)) for q in (b"/#3/#1/#1033", b"/#ICON/#1/#1033", b"/#3/#1", b"/#9/#1/#1/#1", b"/#9/#2")] +
                 ["%s find_resource i:3 i:1" % pre, "%s find_resource i:3 i:1 i:1033" % pre, "%s find_resource i:9 i:1" % pre, "%s icons" % pre])
    return cases


def encode_shared(rng, t, dir_va):
    """the classic layout for a tree in which the SAME python object may occur under several entries: a shared directory
    or data entry is stored once and referenced from every place it occurs (a DAG in the section, `tree_text(t)` is its
    unfolding — what a traversal reports)"""
    dirs, seen, order = [], set(), [t]
    while order:
        d = order.pop(0)
        if id(d) in seen:
            continue
        seen.add(id(d)); dirs.append(d)
        for _, ch in d.entries:
            if isinstance(ch, RDir):
                order.append(ch)
    off, doff = 0, {}
    for d in dirs:
        doff[id(d)] = off
        off += 16 + 8 * len(d.entries)
    soff, strs = {}, b""
    for d in dirs:
        for nm, _ in d.entries:
            if not isinstance(nm, int) and nm not in soff:
                soff[nm] = off + len(strs)
                strs += struct.pack("<H", len(nm) & 0xFFFF) + b"".join(struct.pack("<H", w) for w in nm)
    strs += bytes(pad4(len(strs)) - len(strs))
    off += len(strs)
    datas, dseen = [], set()
    for d in dirs:
        for _, ch in d.entries:
            if isinstance(ch, RData) and id(ch) not in dseen:
                dseen.add(id(ch)); datas.append(ch)
    eoff = {id(e): off + 16 * i for i, e in enumerate(datas)}
    off += 16 * len(datas)
    blobs, boff = b"", {}
    for e in datas:
        padn = (-(off + len(blobs))) % 4
        blobs += bytes(padn)
        boff[id(e)] = off + len(blobs)
        blobs += e.content
    out = b""
    for d in dirs:
        n, nn = len(d.entries), d.named()
        out += struct.pack("<IIHHHH", 0, rng.randrange(1 << 32), 0, 0, nn & 0xFFFF, (n - nn) & 0xFFFF)
        for nm, ch in d.entries:
            nf = nm if isinstance(nm, int) else (HI | soff[nm])
            of = (HI | doff[id(ch)]) if isinstance(ch, RDir) else eoff[id(ch)]
            out += struct.pack("<II", nf & U32, of & U32)
    out += strs
    for e in datas:
        out += struct.pack("<IIII", (dir_va + boff[id(e)]) & U32, len(e.content), e.cp & U32, 0)
    return out + blobs


def count_dirs(t):
    return 0 if isinstance(t, RData) else 1 + sum(count_dirs(ch) for _, ch in t.entries)


def shared_cases(rng, tier):
    """Well-formed sections whose stored graph is a DAG: several entries designate one child (a directory with data
    below it, a language directory shared by several names, a shared data entry).  Nothing is out of bounds, nothing
    contains itself, a traversal reports the unfolded tree `tree=`: by the statement fsck must succeed (`want=ok`).  The
    implementation counts directory VISITS against len / 16 and answers Insanity beyond that (`limit=budget`)."""
    cases = []
    n = 10 if tier == "quick" else 200
    for _ in range(n):
        leaf = rand_data(rng)
        lang = RDir([(rng.choice([1033, 0, 1031]), leaf)], 0)                          # shared language directory
        fan = rng.choice([2, 3, 4, 6, 9, 14])
        shape = rng.choice(["names", "types", "two_levels", "data_only"])
        if shape == "names":
            t = RDir([(rng.choice([3, 10, 24]), RDir([(i + 1, lang) for i in range(fan)], 0))], 0)
        elif shape == "types":
            name_dir = RDir([(1, lang), (utf16("MAIN"), lang)][::-1], 1)
            t = RDir([(i + 1, name_dir) for i in range(fan)], 0)
        elif shape == "two_levels":
            mid = RDir([(i + 1, lang) for i in range(rng.choice([2, 3]))], 0)
            t = RDir([(i + 1, mid) for i in range(fan)], 0)
        else:
            t = RDir([(10, RDir([(i + 1, RDir([(1033, leaf)], 0)) for i in range(fan)], 0))], 0)    # only the data entry is shared
        dir_va = rng.choice([0, 0x2000, 0x3000])
        sec = encode_shared(rng, t, dir_va)
        sec += bytes(rng.choice([0, 0, 16, 64, 16 * fan * 3]))
        tt = tree_text(t)

        def mk(pre, t=t, tt=tt):
            ops = std_ops(pre, "ok", tt)
            lo = lookup_ops(rng, t, pre, tier)
            rng.shuffle(lo)
            return ops + [o + " tree=" + tt for o in lo[:12]]
        if rng.random() < 0.6 or dir_va < 0x2000:
            cases.append(mk("res_raw 0x%x %s" % (dir_va, hx(sec))))
        else:
            cases += image_cases(rng, sec, dir_va, mk)
    return cases


def gen_small(rng, tier):
    """tiny and degenerate sections, directory placement in the image"""
    cases = []
    for n in list(range(0, 20)) + [23, 24, 31, 32, 40, 48]:
        cases.append(["res_raw 0 %s" % hx(bytes(n))])
        cases.append(["res_raw 0x1000 %s" % hx(bytes([0xFF]) * n)])
    # a root that is its own only child, its own two children, ... (work bound of fsck / Display)
    for k in (1, 2, 3, 7, 14):
        sec = bytearray(struct.pack("<IIHHHH", 0, 0, 0, 0, 0, k))
        for i in range(k):
            sec += struct.pack("<II", i + 1, HI | 0)
        for pad in (0, 16, 200):
            pre = "res_raw 0 %s" % hx(bytes(sec) + bytes(pad))
            cases.append(std_ops(pre, "fail") + ["%s find %s" % (pre, hx(b"/#1/#1/#1")), "%s find %s" % (pre, hx(b"/" + b"/".join([b"#1"] * 40))), "%s icons" % pre])
    # two directories containing each other
    sec = struct.pack("<IIHHHH", 0, 0, 0, 0, 0, 1) + struct.pack("<II", 1, HI | 24) + struct.pack("<IIHHHH", 0, 0, 0, 0, 0, 2) + struct.pack("<II", 2, HI | 0) + struct.pack("<II", 3, HI | 24)
    pre = "res_raw 0 %s" % hx(sec + bytes(64))
    cases.append(std_ops(pre, "fail") + ["%s find %s" % (pre, hx(b"/#1/#2/#1/#3"))])
    # k entries sharing one empty sub-directory: every reference is in bounds and nothing contains itself, so the section
    # is well formed and by the statement fsck must succeed (`want=ok`, `tree=` the unfolded tree).  The implementation
    # accepts it iff the unfolded count k + 1 fits the visit budget len / 16 — a known finding beyond that
    # (Thm/C12.lean: C12_fsck_rejects_shared is k = 3, pad = 0), `limit=budget` in the spec part.
    for k in (1, 2, 3, 5):
        sec = bytearray(struct.pack("<IIHHHH", 0, 0, 0, 0, 0, k))
        for i in range(k):
            sec += struct.pack("<II", i + 1, HI | (16 + 8 * k))
        sec += bytes(16)
        tt = tree_text(RDir([(i + 1, RDir([], 0)) for i in range(k)], 0))
        for pad in (0, 8, 16, 64):
            pre = "res_raw 0 %s" % hx(bytes(sec) + bytes(pad))
            cases.append(std_ops(pre, "ok", tt))
    cases += shared_cases(rng, tier)
    # `Resources::new` on a slice placed at every 4-aligned residue mod 16.  The constructor is public and takes any
    # slice, but an address that is not a multiple of 4 is NOT reachable from a constructed PeFile / PeView
    # (`Pe::resources` checks the alignment) and aborts the checked build inside the accessors: observed, outside the
    # statements (Thm/C12.lean: C12_unaligned_section_is_ub_partial) — generators issue 4-aligned placements only.
    t = RDir([(utf16("A"), RData(b"xy", 0)), (1, RDir([(1033, RData(b"z", 0))], 0))], 1)
    sec = encode_canonical(t, 0)
    for a16 in (0, 4, 8, 12):
        for sub in ("dump", "fsck", "find " + hx(b"/#1/#1033")):
            cases.append(["res_rawat %d 0 %s %s" % (a16, hx(sec), sub)])
        cases.append(["res_rawat %d 0 %s dump" % (a16, hx(bytes(8)))])
    # random bytes
    nrand = 60 if tier == "quick" else 3000
    for _ in range(nrand):
        n = rng.choice([16, 24, 32, 40, 64, 100, 200])
        b = bytearray(rng.choice([0, 0, 0, 1, 2, 0x80, 0xFF, rng.randrange(256)]) for _ in range(n))
        put16(b, 12, rng.choice([0, 1, 2])); put16(b, 14, rng.choice([0, 1, 2, 3]))
        pre = "res_raw 0x%x %s" % (rng.choice([0, 1, 0x1000]), hx(b))
        cases.append(std_ops(pre) + ["%s icons" % pre, "%s manifest" % pre, "%s version" % pre, "%s find %s" % (pre, hx(b"/#1")), "%s get %s -" % (pre, hx(b"/"))])
    # where the directory lies in the image: unaligned rva, size clamp, outside, null, no directory
    t, groups = typical_tree(rng)
    sec = encode_canonical(t, 0x2000)
    for dir_va, size in ((0x2000, None), (0x2000, 16), (0x2000, 0), (0x2000, len(sec) - 1), (0x2000, U32), (0x2004, None), (0x2002, None), (0x2001, None),
                         (0, 0), (0x1000, 0x20), (0x5000, 0x100), (U32, 4), (0x2000 + len(sec), 0)):
        pe = pe_with_rsrc(rng, sec, rng.choice([32, 64]), 0x2000, size)
        pe.dirs[2] = (dir_va, pe.dirs[2][1])
        data = pe.build()
        view = load_view(pe, data)
        for buf, k in ((data, "f%d" % pe.bits), (view, "v%d" % pe.bits), (data, "wf")):
            pre = "res " + k
            cases.append([img_line(rng, buf)] + std_ops(pre) + ["%s manifest" % pre, "%s icons" % pre, "%s find %s" % (pre, hx(b"/#24"))])
    # fewer than three data directories
    pe = pe_with_rsrc(rng, sec, 32)
    pe.num_rva = 2
    cases.append([img_line(rng, pe.build()), "res f32 dump", "res wf fsck"])
    # file view whose .rsrc raw data is misaligned in the file (rva aligned)
    pe = pe_with_rsrc(rng, sec, 32)
    pe.sections[1].prd = 0x602
    cases.append([img_line(rng, pe.build(), 0, "s"), "res f32 dump", "res f32 fsck", "res wf manifest"])
    return cases


def gen_res_big(rng, tier):
    """A root directory whose entry counts add up to 65536 / 65537 (the two 16-bit counts of the header are
    added as wider integers): every named entry shares one name string, every entry resolves to one data entry.
    Only the iterator histories over the three entry lists: the counts at the 16-bit boundary matter for the
    lengths the iterators are built with."""
    cases = []
    shapes = ((32, 0x8000, 0x8000), (64, 0xFFFF, 2)) if tier == "quick" else ((32, 0x8000, 0x8000), (64, 0xFFFF, 2), (64, 0xFFFF, 1), (32, 1, 0xFFFF), (32, 0xFFFF, 0xFFFF))
    for bits, nn, ni in shapes:
        n = nn + ni
        o_ent, o_name, o_data = 16, 16 + 8 * n, 16 + 8 * n + 8
        sec = bytearray(o_data + 16 + 16)
        struct.pack_into("<IIHHHH", sec, 0, 0, 0, 0, 0, nn, ni)
        for i in range(n):
            struct.pack_into("<II", sec, o_ent + 8 * i, (0x80000000 | o_name) if i < nn else (i - nn + 1) & 0xFFFF, o_data)
        struct.pack_into("<HH", sec, o_name, 1, 0x41)
        va = 0x2000
        struct.pack_into("<IIII", sec, o_data, va + o_data + 16, 4, 1252, 0)
        pe = pe_with_rsrc(rng, bytes(sec), bits, va)
        data = pe.build()
        kf = "f%d" % bits
        case = [img_line(rng, data, 0, "e"), "from_bytes " + kf]
        for so in ("res_all", "res_named", "res_id"):
            for h in ("count", "len,nth:0xfffe,next,next,next,count", "nth:0x7fff,next,hint", "hint,next,hint,back,len"):
                case.append("iter %s %s %s" % (kf, so, h))
        cases.append(case)
    return cases


def gen_nameeq(rng, tier):
    """the public comparisons of `resources::Name` — `==` in both orders, `== str`, `== u32`, the `From` conversions —
    on ids, UTF-16 names and Rust strings: `#<id>` and predefined `#TYPE` spellings, leading zeros and signs the integer
    parser treats differently, names that differ only in case, non-BMP characters, unpaired surrogates (the Str-on-the-left
    arms of `PartialEq for Name` are not reached by any lookup: found by the line-coverage run of the streams)"""
    ids = [0, 1, 3, 9, 10, 14, 16, 21, 22, 24, 25, 100, 0xFFFF, 0x10000, 0xFFFFFFFF]
    wides = [utf16(x) for x in ("", "A", "a", "#3", "#ICON", "MAINICON", "app\U0001F600", "é")] + [(0xD800,), (0x41, 0xDC00), (0xD83D, 0xDE00)]
    strs = [x.encode("utf-8") for x in ("", "#", "#0", "#1", "#3", "#03", "#+3", "#3 ", "#14", "#16", "#21", "#22", "#24", "#25", "#100", "#65535", "#65536",
                                        "#4294967295", "#4294967296", "#ICON", "#icon", "#CURSOR", "#VERSION", "#MANIFEST", "#ANICURSOR", "#ANIICON",
                                        "#HTML", "#GROUP_ICON", "#RCDATA", "A", "a", "MAINICON", "app\U0001F600", "é", "�")]
    names = [name_arg(i) for i in ids] + [name_arg(w) for w in wides] + [str_arg(s) for s in strs]
    pairs = [(a, b) for a in names for b in names]
    if tier == "quick":
        keep = [p for p in pairs if p[0].startswith("s:") or p[1].startswith("s:")]
        pairs = keep[::3] + rng.sample(pairs, 150)
    return [["nameeq %s %s" % p for p in pairs[i:i + 50]] for i in range(0, len(pairs), 50)]


def gen_selfref_big(rng, tier):
    """a directory that lists itself at the start of a LARGE, otherwise empty section: the directory budget of the
    consistency check and of the tree printer grows with the section (len/16), so only the depth limit keeps the
    recursion shallow (round-6 change C03-r6-1 stopped counting the depth: the walk then nests len/16 deep)"""
    cases = []
    for size in ((1 << 20),) if tier == "quick" else ((1 << 20), (1 << 21)):
        for nent in (1, 2):
            root = struct.pack("<IIHHHH", 0, 0, 0, 0, 0, nent)
            for i in range(nent):
                root += struct.pack("<II", i + 1, 0x80000000)          # id entry -> the directory at offset 0
            sec = root + bytes(size - len(root))
            pre = "res_raw 0 %s" % hx(sec)
            cases.append([pre + " fsck", pre + " fmt"])
    return cases


def gen_dangling(rng, tier):
    """resource directories with entries whose reference points OUTSIDE the resource section — a dangling
    sub-directory and a dangling data entry next to readable ones, at the root and one level down — inside images of both
    formats (file and view, specific and wrapper).  The traversal reports such an entry with its name and the error; the
    serializer writes the member its KIND announces (`"directory"` / `"data"`) as null (the arm of
    `Serialize for DirectoryEntry` the line-coverage run found unexecuted; round-6 change C19-r6-3 swapped the two names)"""
    cases = []
    n = 3 if tier == "quick" else 40
    for _ in range(n):
        for bits in (32, 64):
            leaf = b"DATA" + bytes(rng.randrange(256) for _ in range(4))
            far = rng.choice([0x1000, 0x7FFFFF00, 0x400])
            # root: 4 id entries: readable sub-directory, dangling sub-directory, dangling data, readable data
            root = struct.pack("<IIHHHH", 0, 0, 0, 0, 0, 4)
            sub_off = 16 + 4 * 8
            de_off = sub_off + 16 + 2 * 8
            blob_off = de_off + 16
            root += struct.pack("<II", 1, 0x80000000 | sub_off) + struct.pack("<II", 2, 0x80000000 | far) + struct.pack("<II", 3, far) + struct.pack("<II", 4, de_off)
            sub = struct.pack("<IIHHHH", 0, 0, 0, 0, 0, 2) + struct.pack("<II", 7, 0x80000000 | (far + 8)) + struct.pack("<II", 9, far + 16)
            dir_va = 0x2000
            de = struct.pack("<IIII", dir_va + blob_off, len(leaf), 1252, 0)
            sec = root + sub + de + leaf
            sec += bytes((-len(sec)) % 16)
            pe = pe_with_rsrc(rng, sec, bits, dir_va, None)
            data = pe.build()
            view = load_view(pe, data)
            for k, buf in (("f%d" % bits, data), ("v%d" % bits, view)):
                if buf is not None:
                    kw = "w" + k[0]
                    cases.append([img_line(rng, buf), "res %s dump" % k, "res %s fsck" % k, "res %s dump" % kw, "res %s fmt" % k])
    return cases
