"""Generators for the Rich header families (C16; rich_iter also serves C18).

Python knows how to lay a header out (needed to craft well-formed and corrupted DOS areas) but is not
an oracle: the expected answers come from the Lean specification (` ## spec=... hyp=...`)."""
import glob, itertools, os, struct

DANS, RICH, M32 = 0x536E6144, 0x68636952, 0xFFFFFFFF
DOS_TEXT = b"\x0e\x1f\xba\x0e\x00\xb4\x09\xcd\x21\xb8\x01\x4c\xcd\x21This program cannot be run in DOS mode.\r\r\n$"


def hx(b):
    return b.hex() if b else "-"


def rol(x, n):
    n %= 32
    return ((x << n) | (x >> (32 - n))) & M32 if n else x & M32


def checksum(stub, recs):
    """recs: (product, build, count)"""
    c = len(stub)
    for i, b in enumerate(stub):
        if 0x3C <= i < 0x40:
            continue
        c = (c + rol(b, i)) & M32
    for p, b, n in recs:
        c = (c + rol((p << 16 | b) & M32, n)) & M32
    return c


def header(key, recs):
    w = [DANS ^ key, key, key, key]
    for p, b, n in recs:
        w += [((p << 16 | b) ^ key) & M32, (n ^ key) & M32]
    return w + [RICH, key]


def words(ws):
    return b"".join(struct.pack("<I", w & M32) for w in ws)


def mk_stub(rng, nbytes, kind=None):
    """a DOS header + DOS program of `nbytes` bytes (multiple of 4, >= 64); e_lfanew is left zero"""
    nbytes = max(64, nbytes // 4 * 4)
    kind = kind or rng.choice(["text", "rand", "zero", "ff", "sparse"])
    if kind == "zero":
        b = bytearray(nbytes)
    elif kind == "ff":
        b = bytearray(b"\xff" * nbytes)
    elif kind == "rand":
        b = bytearray(rng.getrandbits(8) for _ in range(nbytes))
    elif kind == "sparse":
        b = bytearray(nbytes)
        for _ in range(rng.randrange(1, 9)):
            b[rng.randrange(nbytes)] = rng.choice([1, 0x80, 0xFF, rng.getrandbits(8)])
    else:
        b = bytearray(nbytes)
        b[2:64] = bytes([0x90, 0, 3, 0, 0, 0, 4, 0, 0, 0, 0xFF, 0xFF, 0, 0, 0xB8] + [0] * 47)
        t = DOS_TEXT[:max(0, nbytes - 64)]
        b[64:64 + len(t)] = t
    b[0:2] = b"MZ"
    b[60:64] = bytes(4)
    return bytes(b)


EXT16 = [0, 1, 0xFF, 0x100, 0x7FFF, 0x8000, 0xFFFF, 0x536E, 0x6144, 0x6863, 0x6952]
EXT32 = [0, 1, 31, 32, 33, 0xFF, 0xFFFF, 0x10000, 0x7FFFFFFF, 0x80000000, 0xFFFFFFFF, DANS, RICH]


def mk_rec(rng):
    r = rng.random()
    if r < 0.35:
        return (rng.choice([0x105, 0x104, 0x103, 0x102, 0x101, 0x93, 0x5D, 1]), rng.randrange(0x1000, 0x8000), rng.randrange(1, 300))
    if r < 0.7:
        return (rng.choice(EXT16), rng.choice(EXT16), rng.choice(EXT32))
    return (rng.getrandbits(16), rng.getrandbits(16), rng.getrandbits(32))


def mk_recs(rng, n):
    return [mk_rec(rng) for _ in range(n)]


def recs_s(recs):
    return ",".join("%d:%d:%d" % r for r in recs) if recs else "-"


def cancel_record(stub, recs):
    """a record that makes the checksum of stub + recs + [it] zero"""
    c = checksum(stub, recs)
    v = (-c) & M32
    return (v >> 16, v & 0xFFFF, 0)


STUB_LENS = [64, 68, 72, 76, 80, 96, 124, 128, 132, 160, 200, 256, 260, 512, 1000, 1024, 2048, 4092, 4096]


def gen_rich_rt(rng, tier):
    cases = []
    # every stub length class x small record counts x padding
    for ln in STUB_LENS:
        for n in [0, 1, 2, 3]:
            for pad in [0, 1, 2]:
                cases.append(["rich_rt %s %s %d" % (hx(mk_stub(rng, ln)), recs_s(mk_recs(rng, n)), pad)])
    # record counts 0..200
    for n in list(range(0, 24)) + [31, 32, 33, 50, 64, 100, 127, 128, 150, 199, 200]:
        cases.append(["rich_rt %s %s %d" % (hx(mk_stub(rng, rng.choice(STUB_LENS))), recs_s(mk_recs(rng, n)), rng.choice([0, 0, 1, 2, 3, 5, 8, 33]))])
    # all field extremes, one record
    stub = mk_stub(rng, 128, "text")
    for p in EXT16:
        for b in EXT16[:7]:
            cases.append(["rich_rt %s %s 0" % (hx(stub), recs_s([(p, b, rng.choice(EXT32))]))])
    for c in EXT32:
        cases.append(["rich_rt %s %s 1" % (hx(stub), recs_s([(0x105, 0x6FC4, c)]))])
    # outside the hypotheses: a record pair that imitates the header, a checksum of zero
    for pos in range(0, 4):
        for n in range(pos + 2, pos + 5):
            recs = mk_recs(rng, n)
            recs[pos] = (0x536E, 0x6144, 0)
            recs[pos + 1] = (0, 0, 0)
            cases.append(["rich_rt %s %s %d" % (hx(mk_stub(rng, rng.choice(STUB_LENS[:8]))), recs_s(recs), rng.choice([0, 1, 4]))])
    for _ in range(12):
        st = mk_stub(rng, rng.choice(STUB_LENS[:10]))
        recs = mk_recs(rng, rng.randrange(0, 5))
        recs.append(cancel_record(st, recs))
        cases.append(["rich_rt %s %s %d" % (hx(st), recs_s(recs), rng.choice([0, 1, 2, 7]))])
    # near misses of the imitation (must round trip)
    for recs in [[(0x536E, 0x6144, 0), (0, 0, 1)], [(0x536E, 0x6144, 1), (0, 0, 0)], [(0x536E, 0x6145, 0), (0, 0, 0)],
                 [(0, 0, 0), (0x536E, 0x6144, 0)], [(0x536E, 0x6144, 0)], [(0, 0, 0), (0, 0, 0), (0, 0, 0)],
                 [(0x6863, 0x6952, 0)], [(0x6863, 0x6952, 0), (0x6863, 0x6952, 0)], [(0x536E, 0x6144, 0), (0, 1, 0)]]:
        cases.append(["rich_rt %s %s 0" % (hx(stub), recs_s(recs))])
        cases.append(["rich_rt %s %s 3" % (hx(mk_stub(rng, 64, "zero")), recs_s(recs))])
    nrand = 500 if tier == "quick" else 20000
    for _ in range(nrand):
        ln = rng.choice(STUB_LENS + [64 + 4 * rng.randrange(0, 1009)])
        n = rng.choice([0, 1, 2, 3, 4, 5, 8, 13, rng.randrange(0, 201)])
        cases.append(["rich_rt %s %s %d" % (hx(mk_stub(rng, ln)), recs_s(mk_recs(rng, n)), rng.choice([0, 0, 1, 2, 3, 4, 6, 17, rng.randrange(0, 64)]))])
    return cases


def area(stub, ws, total=None):
    """DOS area: stub ++ dwords, e_lfanew = its own length (or `total`)"""
    b = bytearray(stub + words(ws))
    struct.pack_into("<I", b, 60, (len(b) if total is None else total) & M32)
    return bytes(b)


NT_HDR = bytes.fromhex("504500004c010000000000000000000000000000600002010b0100000000000000000000000000000000000000000000000000000000400000100000000200000400000000000000040000000000000000100000000000000000000003000000000010000010000000001000001000000000000000000000")


def gen_rich_raw(rng, tier):
    cases = []
    KEYS = [0, 1, 2, DANS, RICH, DANS ^ RICH, 0xFFFFFFFF, 0x80000000, 0x20, 0x40, 0x60]
    def add(b):
        cases.append(["rich_raw %s" % hx(b)])
    # well-formed layouts with arbitrary keys (the key need not be the checksum)
    for key in KEYS + [rng.getrandbits(32) for _ in range(8)]:
        for n in [0, 1, 2, 5]:
            for pad in [0, 1, 2, 5]:
                add(area(mk_stub(rng, rng.choice(STUB_LENS[:12])), header(key, mk_recs(rng, n)) + [0] * pad))
    nmut = 700 if tier == "quick" else 30000
    for _ in range(nmut):
        st = mk_stub(rng, rng.choice(STUB_LENS[:14]))
        recs = mk_recs(rng, rng.choice([0, 1, 2, 3, 4, 7, 20]))
        key = rng.choice([checksum(st, recs), checksum(st, recs), rng.choice(KEYS), rng.getrandbits(32)])
        h = header(key, recs)
        pad = [0] * rng.choice([0, 0, 1, 2, 3, 9])
        m = rng.randrange(16)
        if m == 0:
            h[-2] = rng.choice([0, RICH ^ 1, RICH ^ key, DANS, rng.getrandbits(32)])       # no Rich marker
        elif m == 1:
            h[-1] = rng.choice([0, key ^ 1, rng.getrandbits(32)])                           # trailer key differs
        elif m == 2:
            h[rng.randrange(0, 4)] ^= rng.choice([1, 0x80000000, 0xFFFFFFFF])               # broken DanS block
        elif m == 3:
            h.insert(rng.randrange(4, len(h) - 1), rng.getrandbits(32))                     # odd distance
        elif m == 4:
            pad = pad + [rng.choice([1, key, RICH, 0x80000000])] + [0] * rng.randrange(0, 3)  # junk after the trailer
        elif m == 5:
            h = h[4:]                                                                       # header block missing
        elif m == 6:
            h = h[:-2]                                                                      # trailer missing
        elif m == 7:
            h = h[:4] + header(key, mk_recs(rng, 1))[:6] + h[4:]                            # second DanS block inside
        elif m == 8:
            h = h + header(key, mk_recs(rng, rng.randrange(0, 3)))                          # two headers in a row
        elif m == 9:
            h = [RICH, key] + h                                                             # stray trailer before
        elif m == 10:
            h = [x for x in h] + [RICH, key]                                                # duplicated trailer
        elif m == 11:
            st = st[:64]; h = h[-rng.randrange(2, 6):]                                      # trailer right after the DOS header
        # else: leave well-formed
        add(area(st, h + pad))
    # header start below dword 16 is impossible for a parsed image, but the scan may run into the DOS header:
    for key in [1, 0x40, RICH]:
        b = bytearray(area(mk_stub(rng, 64, "zero"), [RICH, key]))
        add(bytes(b))
        b2 = bytearray(64); b2[0:2] = b"MZ"
        struct.pack_into("<4I", b2, 32, DANS ^ key, key, key, key)
        add(area(bytes(b2), [RICH, key]))
        add(area(bytes(b2), [1, 2, RICH, key]))
    # random DOS areas, all-zero areas, minimal areas
    nrand = 300 if tier == "quick" else 10000
    for _ in range(nrand):
        n = rng.choice([64, 68, 72, 88, 128, 256, 64 + 4 * rng.randrange(0, 200)])
        kind = rng.choice(["rand", "zero", "sparse", "ff", "markers"])
        if kind == "markers":
            ws = [rng.choice([0, 0, RICH, DANS, 1, DANS ^ 1, rng.getrandbits(32)]) for _ in range((n - 64) // 4)]
            add(area(mk_stub(rng, 64, "sparse"), ws))
        else:
            add(area(mk_stub(rng, n, kind), []))
    # e_lfanew pointing elsewhere: too large (rejected by from_bytes), not a multiple of 4, smaller than the area
    st = mk_stub(rng, 128, "text")
    h = header(0x1234, [(1, 2, 3)])
    for total in [0, 4, 60, 64, 128 + 4 * len(h) - 4, 128 + 4 * len(h) + 4, 128 + 4 * len(h) + 1, 0x1000, 0xFFFFFFFC, 0x01000000]:
        add(area(st, h, total))
    # NT headers inside the DOS area (e_lfanew = 64) and tiny images (e_lfanew < 64): the area is short
    for tail in [[], h, [RICH, 5]]:
        b = bytearray(mk_stub(rng, 64, "zero") + NT_HDR + words(tail))
        struct.pack_into("<I", b, 60, 64)
        add(bytes(b))
        b[56:60] = struct.pack("<I", RICH)
        add(bytes(b))
    for e in [4, 8, 12, 56]:
        b = bytearray(e) + bytearray(NT_HDR) + bytearray(64)
        b[0:2] = b"MZ"
        struct.pack_into("<I", b, 60, e)
        add(bytes(b))
    return cases


def gen_rich_img(rng, tier):
    """`rich <k>` on whole images: the repository's demo files (headers only) and built images, every constructor"""
    from .pe import simple_pe
    from .gen_img import img_line
    cases = []
    files = sorted(glob.glob("/repo/demo/*.dll") + glob.glob("/repo/demo/*.exe") + glob.glob("/repo/tests/**/*.dll", recursive=True) + glob.glob("/repo/tests/**/*.exe", recursive=True))
    for fn in files[:12]:
        data = open(fn, "rb").read()[:4096]
        cases.append([img_line(rng, data, 0, "s"), "rich wf", "rich f32", "rich f64"])
    n = 60 if tier == "quick" else 2000
    for _ in range(n):
        pe = simple_pe(rng)
        st = mk_stub(rng, rng.choice(STUB_LENS[:8]))
        recs = mk_recs(rng, rng.randrange(0, 6))
        key = rng.choice([checksum(st, recs), rng.getrandbits(32)])
        ws = header(key, recs) + [0] * rng.randrange(0, 4)
        if rng.random() < 0.2:
            ws[rng.randrange(len(ws))] ^= 1 << rng.randrange(32)
        pe.dos_stub = st[64:] + words(ws)
        pe.e_lfanew = 64 + len(pe.dos_stub)
        data = bytearray(pe.build())
        data[2:60] = st[2:60]
        k = rng.choice(["wf", "wv", "f32", "f64", "v32", "v64"])
        cases.append([img_line(rng, bytes(data)), "rich %s" % k])
    return cases


def gen_rich_codec(rng, tier):
    cases = []
    keys = [0, 1, 0xFFFF, 0x10000, 0xFFFFFFFF, DANS, 0x80000000, 0x7FFFFFFF]
    for key in keys:
        for p in [0, 1, 0x8000, 0xFFFF]:
            for b in [0, 1, 0x8000, 0xFFFF]:
                for c in [0, 1, 0x80000000, 0xFFFFFFFF]:
                    cases.append(["rich_codec %d %d %d %d" % (key, p, b, c)])
        for w0 in [0, 1, 0xFFFF, 0x10000, 0xFFFFFFFF, DANS]:
            for w1 in [0, 1, 0xFFFFFFFF]:
                cases.append(["rich_decode %d %d %d" % (key, w0, w1)])
    n = 400 if tier == "quick" else 20000
    for _ in range(n):
        cases.append(["rich_codec %d %d %d %d" % (rng.getrandbits(32), rng.getrandbits(16), rng.getrandbits(16), rng.getrandbits(32))])
        cases.append(["rich_decode %d %d %d" % (rng.getrandbits(32), rng.getrandbits(32), rng.getrandbits(32))])
    return cases


def gen_rich_encode(rng, tier):
    cases = []
    n = 150 if tier == "quick" else 5000
    for i in range(n):
        st = mk_stub(rng, rng.choice(STUB_LENS[:12]))
        nr = rng.choice([0, 1, 2, 3, 7, 30, rng.randrange(0, 201)]) if i > 30 else i % 6
        recs = mk_recs(rng, nr)
        total = ((checksum(st, recs) // 32) % 3 + nr) * 2 + 8
        for dl in set([0, 1, max(0, 2 * nr + 5), 2 * nr + 6, 2 * nr + 7, total - 1, total, total + 1, 2 * nr + 6 + rng.randrange(0, 40)]):
            cases.append(["rich_encode %s %s %d" % (hx(st), recs_s(recs), dl)])
    return cases


ITER_OPS = ["next", "next_back", "nth:0", "nth:1", "nth:2", "len", "size_hint", "count", "clone"]


def gen_rich_iter(rng, tier):
    cases = []
    areas = []
    for n in range(0, 9):
        st = mk_stub(rng, rng.choice([64, 80, 128]))
        recs = [(i + 1, 100 + i, 1000 + i) for i in range(n)]
        areas.append(hx(area(st, header(rng.choice([checksum(st, recs), 0xA5A5A5A5]), recs) + [0] * rng.randrange(0, 3))))
    # exhaustive short histories on 0..8 records
    depth = 2 if tier == "quick" else 3
    for a in areas:
        for d in range(1, depth + 1):
            for h in itertools.product(ITER_OPS, repeat=d):
                cases.append(["rich_iter %s %s" % (a, ",".join(h))])
    # long random histories, larger skips
    nrand = 600 if tier == "quick" else 20000
    for _ in range(nrand):
        a = rng.choice(areas)
        ln = rng.randrange(1, 16)
        h = [rng.choice(ITER_OPS + ["next", "next_back", "nth:%d" % rng.choice([3, 4, 7, 8, 9, 100, 1 << 32, (1 << 62), (1 << 63) - 2])]) for _ in range(ln)]
        cases.append(["rich_iter %s %s" % (a, ",".join(h))])
    # 200 records
    st = mk_stub(rng, 256)
    recs = mk_recs(rng, 200)
    big = hx(area(st, header(checksum(st, recs), recs)))
    for _ in range(20):
        h = [rng.choice(ITER_OPS + ["nth:%d" % rng.randrange(0, 120)]) for _ in range(rng.randrange(1, 10))]
        cases.append(["rich_iter %s %s" % (big, ",".join(h))])
    # a failing image
    cases.append(["rich_iter %s next" % hx(area(mk_stub(rng, 64, "zero"), []))])
    # `n * 2 + 2` used to overflow usize in RichIter::nth (fixed in ed9f3f7): must be `none` now
    for k in [(1 << 63) - 1, 1 << 63, (1 << 64) - 1]:
        cases.append(["rich_iter %s nth:%d" % (areas[3], k)])
        cases.append(["rich_iter %s next,nth:%d,next" % (areas[5], k)])
    return cases
