"""Generators for the pattern interpreter / scanner families (C10; C02/C03 of src/pe64/scanner.rs):
pat_exec, scan, scan_code, finds, finds_code on file images and on mapped images.

Images come from vlib/pe.py with 1-4 sections (VirtualSize <, =, > SizeOfRawData), both formats;
the mapped image lays the raw data of every section at its virtual address.  Section data is drawn
from a small alphabet (or fully random) and copies of the pattern's literal prefix / of a complete
match are planted at section starts, ends, across the end, adjacent and overlapping."""
import struct
from .pe import PE, Section
from .gen_img import img_line

U32 = 0xFFFFFFFF


def A(name, arg=None):
    return name if arg is None else "%s(%d)" % (name, arg)


def atoms_str(atoms):
    return ",".join(atoms) if atoms else "-"


def align_up(x, a):
    return (x + a - 1) // a * a


# ---------------------------------------------------------------- images

def fill(rng, n, alpha):
    if alpha is None:
        return bytearray(rng.getrandbits(8) for _ in range(n))
    return bytearray(rng.choice(alpha) for _ in range(n))


def make_pe(rng, bits=None, nsec=None, alpha=None, wf=True):
    """-> (pe, datas): sections sorted and disjoint when wf"""
    bits = bits or rng.choice([32, 64])
    pe = PE(bits)
    pe.e_lfanew = rng.choice([0x40, 0x40, 0x80, 0x48])
    fa = rng.choice([0x20, 0x40, 0x80, 0x100])
    sa = rng.choice([0x100, 0x100, 0x200, 0x400])
    if sa < fa:
        sa = fa
    pe.file_align, pe.section_align = fa, sa
    nsec = nsec or rng.choice([1, 2, 2, 3, 4])
    hdr_end = pe.e_lfanew + 24 + pe.opt_size() + 8 * 16 + 40 * nsec
    prd = align_up(hdr_end, fa)
    va = max(sa, align_up(prd, sa))
    for i in range(nsec):
        rs = rng.choice([fa, fa, 2 * fa, 3 * fa, fa + 8, 24, 7])
        rel = rng.random()
        if rel < 0.3:
            vs = rs
        elif rel < 0.55:
            vs = max(1, rs - rng.choice([1, 3, fa // 2, rs - 1]))      # VirtualSize < SizeOfRawData
        else:
            vs = rs + rng.choice([1, 5, fa, sa])                        # virtual-only tail
        s = Section(name=[b".text", b".rdata", b".data", b".rsrc"][i % 4], va=va, vs=vs, prd=prd, rs=rs, data=bytes(fill(rng, rs, alpha)))
        pe.sections.append(s)
        prd += align_up(rs, fa) if rng.random() < 0.8 else rs
        va += align_up(max(vs, rs, 1), sa)
    pe.base_of_code = pe.sections[0].va
    pe.size_of_code = rng.choice([pe.sections[0].vs, pe.sections[0].rs, pe.sections[0].rs + 5, 0, 0xFFFFFFF0])
    if not wf:
        r = rng.random()
        ss = pe.sections
        if r < 0.3 and len(ss) >= 2:
            i = rng.randrange(len(ss) - 1)
            ss[i], ss[i + 1] = ss[i + 1], ss[i]                          # unsorted table
        elif r < 0.55 and len(ss) >= 2:
            ss[1].va = ss[0].va + rng.choice([0, 1, max(ss[0].rs, 2) // 2])   # overlapping virtual ranges
        elif r < 0.7:
            s = rng.choice(ss); s.rs = rng.choice([U32, 0x80000000, U32 - s.prd + 1, s.rs + 0x10000])   # raw data outside the file / wrapping
        elif r < 0.85:
            s = rng.choice(ss); s.vs = rng.choice([U32, U32 - s.va + 1, 0x80000000, 0])          # wrapping / empty virtual size
        else:
            s = rng.choice(ss); s.va = rng.choice([0, 1, U32 - 0x10, 0xFFFFFF00])
    return pe


def mapped_image(pe, data, cut=None):
    lay = pe.layout
    soi = min(lay["size_of_image"], 0x8000)
    out = bytearray(soi)
    soh = min(lay["size_of_headers"], len(data), soi)
    out[:soh] = data[:soh]
    for s in pe.sections:
        if s.va >= soi or s.prd >= len(data):
            continue
        raw = data[s.prd:s.prd + min(s.rs, 0x10000)]
        n = min(len(raw), soi - s.va)
        out[s.va:s.va + n] = raw[:n]
    if cut is not None:
        out = out[:max(lay["size_of_headers"], soi - cut)]
    return bytes(out)


# ---------------------------------------------------------------- patterns

def prefix_bytes(rng, alpha, n):
    al = alpha or list(range(256))
    k = rng.random()
    if n == 0:
        return []
    if k < 0.2:
        return [rng.choice(al)] * n                                      # aaaa...
    if k < 0.4:
        a, b = rng.choice(al), rng.choice(al)
        return [a] * (n - 1) + [b]                                       # aaab
    if k < 0.55:
        a, b = rng.choice(al), rng.choice(al)
        return [b] + [a] * (n - 1)                                       # baaa
    if k < 0.75:
        per = [rng.choice(al) for _ in range(rng.choice([2, 3]))]
        return [per[i % len(per)] for i in range(n)]                     # abab / abcabc
    return [rng.choice(al) for _ in range(n)]


def prefix_atoms(rng, pb):
    """the literal prefix, optionally decorated with atoms `setup` looks through"""
    out = []
    if rng.random() < 0.8:
        out.append(A("Save", 0))
    for b in pb:
        r = rng.random()
        if r < 0.06:
            out.append(A("Nop"))
        elif r < 0.10:
            out.append(A("Aligned", 0))
        elif r < 0.14:
            out.append(A("Save", rng.choice([1, 2])))
        out.append(A("Byte", b))
    return out


def tail(rng, alpha, bits, ctx):
    """-> (atoms, bytes that make them match right after the prefix | None | ("PTR", width))"""
    al = alpha or list(range(256))
    rb = lambda: rng.choice(al)
    rnd = lambda n: bytes(rng.getrandbits(8) if alpha is None else rng.choice(al) for _ in range(n))
    t = rng.randrange(16)
    if t == 0:
        return [], b""
    if t == 1:
        n = rng.choice([0, 1, 2, 5]); x = rb()
        return [A("Save", 1), A("Skip", n), A("Byte", x)], rnd(n if n else bits // 8) + bytes([x])
    if t == 2:
        ats = [A("Skip", 0)] if rng.random() < 0.3 else [A("Skip", 1)]
        n = bits // 8 if ats[0] == "Skip(0)" else 1
        for nm, w in rng.sample([("ReadU8", 1), ("ReadI8", 1), ("ReadU16", 2), ("ReadI16", 2), ("ReadU32", 4), ("ReadI32", 4)], 3):
            ats.append(A(nm, rng.choice([1, 2, 3, 9]))); n += w
        return ats, rnd(n)
    if t == 3:
        lim = rng.choice([1, 2, 4, 16, 0]); x, y = rb(), rb()
        k = rng.randrange(0, max(lim, 1)) if lim else rng.randrange(0, 12)
        return [A("Skip", 1), A("Many", lim), A("Save", 1), A("Byte", x), A("Byte", y)], rnd(1) + rnd(k) + bytes([x, y])
    if t == 4:
        x = rb(); k = rng.randrange(0, 6)
        return [A("Skip", 1), A("Rangext", 1), A("Many", 4), A("ReadU8", 2), A("Byte", x)], rnd(2 + k) + bytes([x])
    if t == 5:
        d = rng.choice([0, 1, 3, 9]); z = rb()
        return [A("Jump1"), A("Save", 1), A("Byte", z)], bytes([d]) + rnd(d) + bytes([z])
    if t == 6:
        return [A("Jump1"), A("Save", 1), A("Byte", 0xFF)], bytes([0xFF])          # jump back onto itself
    if t == 7:
        d = rng.choice([1, 2, 6]); z, w = rb(), rb()
        return [A("Push", 1), A("Jump1"), A("Save", 1), A("Byte", z), A("Pop"), A("Byte", w)], bytes([d, w]) + rnd(d - 1) + bytes([z])
    if t == 8:
        a, b, c, d = rb(), rb(), rb(), rb()
        lay = bytes([a, b, d]) if rng.random() < 0.5 else bytes([c, d])
        return [A("Skip", 1), A("Case", 3), A("Byte", a), A("Byte", b), A("Break", 1), A("Byte", c), A("Save", 1), A("Byte", d)], rnd(1) + lay
    if t == 9:
        n = rng.choice([1, 2, 3]); x = rb()
        return [A("Aligned", n), A("Byte", x)] if rng.random() < 0.5 else [A("Skip", 1), A("Aligned", n), A("Save", 2)], None
    if t == 10:
        d = rng.choice([0, 2, 7]); z = rb()
        return [A("Jump4"), A("Save", 1), A("Byte", z)], struct.pack("<I", d) + rnd(d) + bytes([z])
    if t == 11:
        m = rng.choice([0xF0, 0x0F, 0x00, 0x81]); x = rb()
        return [A("Fuzzy", m), A("Byte", x), A("Save", 1)], bytes([(x & m) | (rng.getrandbits(8) & ~m & 0xFF)])
    if t == 12:
        x = rb()
        return [A("Skip", 3), A("Back", 2), A("Byte", x), A("Zero", 2)], rnd(1) + bytes([x])
    if t == 13:
        # absolute pointer back to the start of the match (needs the rva: patched by the planter)
        return [A("Ptr"), A("Save", 1), A("Nop")], ("PTR", bits // 8)
    if t == 14:
        x = rb()
        return [A("Skip", 1), A("Case", 2), A("Byte", x), A("Break", 3), A("Case", 2), A("Skip", 1), A("Break", 0), A("Save", 3)], rnd(2)
    x = rb()
    return [A("Skip", 1), A("Push", 2), A("Many", 3), A("Byte", x), A("Pop"), A("Save", 1)], rnd(1) + bytes([x]) + rnd(2)


def hostile_tail(rng):
    """atoms whose result depends on stale captures or that the parser never emits: outside the
    hypotheses of the completeness theorem, compared with the model only"""
    return rng.choice([
        [A("Skip", 1), A("Check", 0)],
        [A("Skip", 1), A("Pir", 0), A("Save", 1)],
        [A("Pir", 7)],
        [A("Save", 1), A("Skip", 2), A("Check", 1)],
        [A("Skip", 1), A("VTypeName")],
        [A("Break", 200)],
        [A("Pop"), A("Byte", 1)],
        [A("Skip", 1), A("Case", 255), A("Byte", 0), A("Break", 255)],
        [A("Skip", 1), A("Aligned", 32), A("Aligned", 255), A("Save", 1)],
        [A("Skip", 1), A("Push", 0), A("Save", 1)],
        [A("Rangext", 255), A("Back", 255), A("Save", 1)],
        [A("Skip", 1), A("Many", 0), A("Many", 0), A("Byte", 0x41)],
    ])


def plant_positions(rng, n, plen):
    """offsets inside a section of n stored bytes: start, flush with the end, across the end, adjacent, overlapping"""
    ps = set()
    ps.add(0)
    if n >= plen:
        ps.add(n - plen)
    for d in (1, 2, plen // 2):
        if 0 <= n - plen + d < n:
            ps.add(n - plen + d)                     # cut by the end of the section
    if n > 3 * plen + 4:
        p = rng.randrange(1, n - 3 * plen - 2)
        ps.update([p, p + plen])                     # adjacent
        q = rng.randrange(1, n - 2 * plen - 1)
        ps.update([q, q + max(1, plen // 2)])        # overlapping
        ps.update([q, q + 1])
    return sorted(ps)


def build_case_image(rng, wf=True, small_alpha=None):
    """-> dict(pe, file, view, alpha, pattern atoms, nsave, plants (rvas), plen)"""
    alpha = None
    if small_alpha if small_alpha is not None else rng.random() < 0.6:
        alpha = rng.sample(range(256), rng.choice([2, 3, 4]))
        if rng.random() < 0.3:
            alpha[0] = 0xFF
    pe = make_pe(rng, alpha=alpha, wf=wf)
    bits = pe.bits
    plen = rng.choice([0, 0, 1, 1, 2, 3, 4, 4, 5, 6, 8, 15, 16, 17, 20])
    pb = prefix_bytes(rng, alpha, plen)
    pat = prefix_atoms(rng, pb)
    tl = tail(rng, alpha, bits, None)
    ats, lay = tl
    if rng.random() < 0.12:
        ats, lay = hostile_tail(rng), None
    pat = pat + ats
    nsave = rng.choice([4, 4, 4, 1, 0, 2])
    # plant copies
    plants = []
    pe.build()
    image_base = pe.image_base
    for s in pe.sections:
        if rng.random() < 0.15 or s.data is None:
            continue
        d = bytearray(s.data)
        n = len(d)
        full_len = plen + (len(lay) if isinstance(lay, bytes) else lay[1] if lay else 0)
        for p in plant_positions(rng, n, max(full_len, 1)):
            if rng.random() < 0.25:
                continue
            blob = bytes(pb)
            if isinstance(lay, bytes) and rng.random() < 0.8:
                blob += lay
            elif isinstance(lay, tuple) and rng.random() < 0.8:
                va = image_base + s.va + p
                blob += struct.pack("<I" if bits == 32 else "<Q", va & (U32 if bits == 32 else 0xFFFFFFFFFFFFFFFF))
            m = min(len(blob), n - p)
            d[p:p + m] = blob[:m]
            plants.append(s.va + p)
        s.data = bytes(d)
    data = pe.build()
    return {"pe": pe, "file": data, "alpha": alpha, "pat": pat, "nsave": nsave, "plants": plants, "plen": plen, "pb": pb}


def scan_ranges(rng, pe, lay, plants, plen, file_len):
    soi, soh = lay["size_of_image"], lay["size_of_headers"]
    R = [(0, soi), (0, U32), (soh, soi), (soi, soi), (0, 0), (soi, 0), (5, 4)]
    ss = pe.sections
    for s in ss:
        R += [(s.va, (s.va + s.vs) & U32), (s.va, (s.va + s.rs) & U32), (s.va + 1, max(s.va + s.rs - 1, 0) & U32)]
        if s.vs > s.rs:                                # virtual-only tail
            R += [((s.va + s.rs + 1) & U32, (s.va + s.vs) & U32), ((s.va + s.rs) & U32, U32), ((s.va + s.rs + 1) & U32, U32), ((s.va + s.rs - 1) & U32, (s.va + s.vs + 0x40) & U32)]
    for i in range(len(ss) - 1):
        a, b = ss[i], ss[i + 1]
        R += [((a.va + a.rs // 2) & U32, (b.va + b.rs // 2) & U32), (a.va, (b.va + 1) & U32), ((a.va + a.rs - 1) & U32, (b.va + max(plen, 1)) & U32)]
    if ss:
        R.append((ss[0].va, (ss[-1].va + max(ss[-1].vs, ss[-1].rs)) & U32))
    R += [(soi, (soi + 0x1000) & U32), (max(soi - 4, 0), U32), (0xFFFFFF00, U32), (file_len - 3 if file_len > 3 else 0, file_len + 9)]
    for p in plants[:8]:
        for lo, hi in ((p, p + plen), (p, p + plen - 1), (p + 1, p + plen + 8), (p - 1, p + plen + 1), (p, p + 1), (p - plen, p + plen)):
            if 0 <= lo and hi >= 0:
                R.append((lo & U32, hi & U32))
    return R


def ops_for(rng, info, kinds, nranges):
    pe, pat, nsave = info["pe"], info["pat"], info["nsave"]
    lay = pe.layout
    R = scan_ranges(rng, pe, lay, info["plants"], info["plen"], len(info["file"]))
    rng.shuffle(R)
    R = R[:nranges]
    ops = []
    a = atoms_str(pat)
    for k in kinds:
        ops.append("scan_code %s %s %d" % (k, a, nsave))
        ops.append("finds_code %s %s %d" % (k, a, nsave))
    for (lo, hi) in R:
        k = rng.choice(kinds)
        ops.append("scan %s %s 0x%x 0x%x %d" % (k, a, lo, hi, nsave))
        if rng.random() < 0.5:
            ops.append("finds %s %s 0x%x 0x%x %d" % (k, a, lo, hi, nsave))
    # the interpreter alone at the planted positions and around the section edges
    cur = set(info["plants"][:6])
    for s in pe.sections[:4]:
        cur.update([s.va, (s.va + s.rs - 1) & U32, (s.va + s.rs) & U32, (s.va + s.vs) & U32, (s.va - 1) & U32])
    cur.update([0, 1, U32, lay["size_of_image"], lay["size_of_image"] - 1])
    for c in sorted(cur)[:14]:
        ops.append("pat_exec %s %s 0x%x %d" % (rng.choice(kinds), a, c & U32, nsave))
    return ops


def gen_scan(rng, tier):
    """files and mapped images x planted patterns x all range shapes"""
    cases = []
    n = 90 if tier == "quick" else 2500
    for i in range(n):
        wf = rng.random() < 0.8
        info = build_case_image(rng, wf=wf)
        pe = info["pe"]
        kf, kv = "f%d" % pe.bits, "v%d" % pe.bits
        nr = 10 if tier == "quick" else 16
        # file
        cases.append([img_line(rng, info["file"])] + ops_for(rng, info, [kf, "wf"] if rng.random() < 0.5 else [kf], nr))
        # mapped view of the same image (sometimes cut short, sometimes relocated)
        if rng.random() < 0.7:
            view = mapped_image(pe, info["file"], cut=rng.choice([None, None, 1, 7, 0x40]))
            kinds = [kv, "wv"] if rng.random() < 0.5 else [kv]
            if rng.random() < 0.2:
                kinds = ["%s@0x%x" % (kv, rng.choice([0x10000, 0x7FFF0000, pe.image_base + 0x1000]))]
            cases.append([img_line(rng, view)] + ops_for(rng, info, kinds, nr))
    return cases


# ---------------------------------------------------------------- Horspool stress

def gen_skiptable(rng, tier):
    """one mapped section of a two/three letter alphabet x every short periodic prefix of length 4..7:
    every occurrence of the prefix must be examined whatever the skip table says"""
    cases = []
    n = 25 if tier == "quick" else 600
    for i in range(n):
        alpha = rng.sample(range(256), 2) if rng.random() < 0.7 else rng.sample(range(256), 3)
        pe = make_pe(rng, nsec=rng.choice([1, 2]), alpha=alpha, wf=True)
        data = pe.build()
        kf, kv = "f%d" % pe.bits, "v%d" % pe.bits
        view = mapped_image(pe, data)
        lay = pe.layout
        fops, vops = [], []
        for _ in range(10 if tier == "quick" else 24):
            m = rng.choice([4, 4, 5, 6, 7, 9, 16, 17])
            pb = prefix_bytes(rng, alpha, m)
            pat = [A("Save", 0)] + [A("Byte", b) for b in pb]
            if rng.random() < 0.4:
                pat += [A("ReadU8", 1)]
            s = rng.choice(pe.sections)
            for (lo, hi) in ((s.va, s.va + s.rs), (s.va + rng.randrange(0, 5), s.va + s.rs - rng.randrange(0, 5)), (0, U32)):
                fops.append("scan %s %s 0x%x 0x%x 2" % (kf, atoms_str(pat), lo, max(hi, 0)))
                vops.append("scan %s %s 0x%x 0x%x 2" % (kv, atoms_str(pat), lo, max(hi, 0)))
            fops.append("finds %s %s 0x%x 0x%x 2" % (kf, atoms_str(pat), s.va, s.va + s.rs))
        cases.append([img_line(rng, data)] + fops)
        cases.append([img_line(rng, view)] + vops)
    return cases


# ---------------------------------------------------------------- interpreter on arbitrary atom lists

ARG_ATOMS = ["Byte", "Save", "Push", "Fuzzy", "Skip", "Back", "Rangext", "Many", "Pir", "Check", "Aligned", "ReadI8", "ReadU8",
             "ReadI16", "ReadU16", "ReadI32", "ReadU32", "Zero", "Case", "Break"]
NOARG_ATOMS = ["Pop", "Jump1", "Jump4", "Ptr", "VTypeName", "Nop"]

HOSTILE = [
    # nested Case
    ["Case(1)", "Case(1)", "Case(1)", "Byte(1)", "Byte(2)", "Save(0)"],
    ["Case(3)", "Case(1)", "Byte(0)", "Break(4)", "Case(1)", "Byte(1)", "Break(0)", "Save(1)"],
    ["Case(255)", "Case(255)", "Byte(0)"],
    ["Case(0)", "Case(0)", "Case(0)", "Case(0)", "Skip(1)"],
    # Break out of range
    ["Break(255)"], ["Skip(1)", "Break(200)", "Byte(0)"], ["Case(0)", "Break(255)", "Save(0)"], ["Push(1)", "Break(9)", "Pop", "Save(0)"],
    # Many with Rangext / nested Many / Many at the end
    ["Rangext(255)", "Many(255)", "Byte(0)"], ["Rangext(1)", "Many(0)", "Save(0)", "Byte(0)", "Byte(0)"], ["Many(0)"], ["Many(5)"],
    ["Many(3)", "Many(3)", "Many(3)", "Byte(7)"], ["Many(0)", "Many(0)", "Save(0)", "Save(1)", "Byte(0)"],
    ["Many(4)", "Save(0)", "Save(1)", "Fuzzy(0)", "Byte(9)"], ["Fuzzy(0)", "Many(2)", "Byte(1)"],
    ["Rangext(2)", "Rangext(1)", "Many(1)", "Nop", "Byte(0)"],
    # the peek shortcut looks through Save only: any other atom in front of the Byte selects the plain loop,
    # whose failed attempts leave their captures behind
    ["Many(6)", "Nop", "Save(1)", "Byte(7)"], ["Many(0)", "Aligned(0)", "Save(0)", "Byte(0)"], ["Many(8)", "Save(0)", "Nop", "Save(1)", "Byte(1)"],
    ["Many(9)", "Save(0)", "Save(1)", "Byte(255)", "Byte(254)"], ["Many(5)", "Zero(1)", "Save(0)", "Byte(65)"], ["Skip(1)", "Many(7)", "Fuzzy(255)", "Save(1)", "Byte(0)", "Byte(9)"],
    # Back, Pir, Check, Fuzzy
    ["Back(0)", "Save(0)"], ["Back(255)", "Save(0)", "Byte(0)"], ["Rangext(255)", "Back(255)", "Save(0)"], ["Skip(4)", "Back(4)", "Check(0)"],
    ["Save(0)", "Skip(1)", "Check(0)"], ["Save(0)", "Check(0)", "Check(9)"], ["Pir(0)", "Save(1)"], ["Save(0)", "Pir(0)", "Save(1)"], ["Pir(200)", "Save(1)"],
    ["Zero(0)", "Pir(0)", "Save(1)"], ["Fuzzy(0)", "Byte(255)", "Byte(0)"], ["Fuzzy(240)", "Fuzzy(15)", "Byte(0x41)".replace("0x41", "65")], ["Fuzzy(0)", "Skip(1)", "Byte(3)"],
    ["Fuzzy(0)", "Push(1)", "Pop", "Byte(3)"], ["Fuzzy(0)", "Case(0)", "Byte(3)"],
    # Aligned(>=32), Aligned small
    ["Aligned(32)", "Save(0)"], ["Aligned(255)", "Save(0)"], ["Aligned(31)", "Save(0)"], ["Aligned(1)", "Save(0)"], ["Aligned(0)", "Save(0)"], ["Aligned(12)", "Save(0)"],
    # Push without Pop, Pop without Push, Push(0)
    ["Push(1)", "Save(0)"], ["Push(0)", "Push(0)", "Save(0)"], ["Pop"], ["Pop", "Save(0)"], ["Push(3)", "Pop", "Pop", "Save(0)"], ["Rangext(1)", "Push(0)", "Pop", "Save(0)"],
    ["Push(1)", "Byte(0)", "Pop", "Save(0)"],
    # jumps, pointers, vtables
    ["Jump1", "Save(0)"], ["Jump4", "Save(0)"], ["Ptr", "Save(0)"], ["VTypeName", "Save(0)"], ["Jump1", "Jump1", "Jump1", "Save(0)"], ["Ptr", "Ptr", "Save(0)"],
    ["Skip(0)", "Save(0)"], ["Rangext(1)", "Skip(0)", "Save(0)"], ["Rangext(0)", "Skip(0)", "Save(0)"],
    # reads
    ["ReadU8(0)", "ReadI8(1)", "ReadU16(2)", "ReadI16(3)", "ReadU32(4)", "ReadI32(5)", "Zero(2)"], ["ReadI8(255)", "ReadU32(0)"], ["ReadU32(0)"], ["ReadI16(0)"],
    [], ["Nop"], ["Save(0)"], ["Save(255)"], ["Byte(0)"],
]


def random_atoms(rng, n):
    out = []
    for _ in range(n):
        if rng.random() < 0.75:
            nm = rng.choice(ARG_ATOMS)
            arg = rng.choice([0, 1, 2, 3, 4, 8, 31, 32, 255, rng.randrange(256)])
            if nm in ("Case", "Break") and rng.random() < 0.7:
                arg = rng.randrange(0, 5)
            if nm in ("Save", "Zero", "Check", "Pir") or nm.startswith("Read"):
                arg = rng.choice([0, 1, 2, 3, 200])
            out.append(A(nm, arg))
        else:
            out.append(rng.choice(NOARG_ATOMS))
    return out


def vtable_case(rng, bits):
    """an image holding an RTTI-like chain so that VTypeName / Ptr succeed"""
    pe = make_pe(rng, bits=bits, nsec=2, alpha=None, wf=True)
    s = pe.sections[0]
    s.rs = s.vs = 0x80
    d = bytearray(0x80)
    pe.sections[1].va = max(pe.sections[1].va, align_up(s.va + 0x80, pe.section_align))
    base = pe.image_base
    if bits == 32:
        # vtable at va+0x10 ; COL pointer at va+0x0c -> COL at va+0x20 ; COL+12 -> type descriptor at va+0x40
        struct.pack_into("<I", d, 0x0C, base + s.va + 0x20)
        struct.pack_into("<I", d, 0x20 + 12, base + s.va + 0x40)
        # a second vtable at va+0x14 (4 mod 8: legal in PE32, where pointers are 4 bytes) with its COL pointer at va+0x10
        # (round-6 change C10-r6-3 demanded 8-byte alignment of PE32 vtables)
        struct.pack_into("<I", d, 0x10, base + s.va + 0x20)
    else:
        struct.pack_into("<Q", d, 0x08, base + s.va + 0x20)
        struct.pack_into("<I", d, 0x20 + 12, s.va + 0x40)
    d[0x48:0x50] = b".?AVfoo@"
    d[0x50:0x58] = b".?AVbar@"
    s.data = bytes(d)
    return pe, s.va + 0x10


def gen_exec(rng, tier):
    """`pat_exec` on hand-built hostile atom lists and on random atom soups (not parser output)"""
    cases = []
    nimg = 14 if tier == "quick" else 200
    for i in range(nimg):
        alpha = rng.choice([None, [0, 1, 0xFF], [0, 0x41, 3, 7]])
        pe = make_pe(rng, alpha=alpha, wf=rng.random() < 0.8)
        data = pe.build()
        lay = pe.layout
        kf, kv = "f%d" % pe.bits, "v%d" % pe.bits
        view = mapped_image(pe, data)
        cursors = set([0, 1, 2, U32, U32 - 1, lay["size_of_image"], lay["size_of_image"] - 1, 0x3C, 0x80000000])
        for s in pe.sections:
            cursors.update([s.va, s.va + 1, s.va + 4, s.va + 8, (s.va + s.rs - 1) & U32, (s.va + s.rs) & U32, (s.va + s.vs) & U32, (s.va + s.rs - 4) & U32, (s.va - 1) & U32])
        cursors = sorted(c & U32 for c in cursors)
        pats = list(HOSTILE) if i % 2 == 0 else rng.sample(HOSTILE, 25)
        pats += [random_atoms(rng, rng.choice([1, 2, 3, 5, 8, 12])) for _ in range(40 if tier == "quick" else 120)]
        fops, vops = [], []
        for p in pats:
            for c in rng.sample(cursors, 3):
                ns = rng.choice([0, 1, 4, 6])
                fops.append("pat_exec %s %s 0x%x %d" % (rng.choice([kf, kf, "wf"]), atoms_str(p), c, ns))
                vops.append("pat_exec %s %s 0x%x %d" % (rng.choice([kv, kv, "wv"]), atoms_str(p), c, ns))
            if rng.random() < 0.25:
                s = rng.choice(pe.sections)
                fops.append("scan %s %s 0x%x 0x%x 4" % (kf, atoms_str(p), s.va, (s.va + min(s.rs, 0x30)) & U32))
                vops.append("scan %s %s 0x%x 0x%x 4" % (kv, atoms_str(p), s.va, (s.va + min(s.rs, 0x30)) & U32))
        cases.append([img_line(rng, data)] + fops)
        cases.append([img_line(rng, view)] + vops)
    for bits in (32, 64):
        pe, vt = vtable_case(rng, bits)
        data = pe.build()
        view = mapped_image(pe, data)
        ops = []
        for k, im in (("f%d" % bits, data), ("v%d" % bits, view), ("wf", data), ("wv", view)):
            o = []
            for c in (vt, vt + 4, vt + 8, vt - 4, vt + 1):
                o.append("pat_exec %s VTypeName,Save(0),Byte(46),Byte(63) 0x%x 2" % (k, c))
                o.append("pat_exec %s Back(%d),Ptr,Save(0),Skip(12),ReadU32(1) 0x%x 2" % (k, bits // 8, c))
                o.append("pat_exec %s Back(%d),Ptr,Save(0),Skip(12),Ptr,Save(1) 0x%x 2" % (k, bits // 8, c))
            cases.append([img_line(rng, im)] + o)
        # a gap of 256 bytes or more (`Rangext`) FOLLOWED by further skipping atoms: the range extension applies to the
        # one atom behind it only (round-6 change C10-r6-2 / C11-r6-2 lost the reset in the Skip arm)
        pe2 = make_pe(rng, bits=bits, nsec=2, alpha=None, wf=True)
        s2 = pe2.sections[0]
        s2.rs = s2.vs = 0x400
        pe2.sections[1].va = max(pe2.sections[1].va, align_up(s2.va + 0x400, pe2.section_align))
        d2 = bytearray([0x11] * 0x400)
        p0 = 0x10
        d2[p0] = 0xAA; d2[p0 + 1 + 300] = 0xCC; d2[p0 + 1 + 300 + 2] = 0xDD; d2[p0 + 1 + 300 + 2 + 1 + 3] = 0xEE
        s2.data = bytes(d2)
        data2 = pe2.build()
        view2 = mapped_image(pe2, data2)
        pats2 = ["Byte(170),Rangext(1),Skip(44),Byte(204),Skip(1),Byte(221)",
                 "Save(0),Byte(170),Rangext(1),Skip(44),Byte(204),Skip(1),Byte(221),Many(8),Byte(238)",
                 "Byte(170),Rangext(1),Skip(44),Byte(204),Skip(1),Byte(221),Skip(3),Byte(238)",
                 "Byte(170),Rangext(1),Many(60),Byte(204),Many(3),Byte(221)"]
        for k, im in (("f%d" % bits, data2), ("v%d" % bits, view2)):
            o = []
            for pt in pats2:
                o.append("pat_exec %s %s 0x%x 2" % (k, pt, s2.va + p0))
                o.append("scan %s %s 0x%x 0x%x 2" % (k, pt, s2.va, s2.va + 0x400))
            cases.append([img_line(rng, im)] + o)
        # the same chain through a view constructed with ANOTHER base address (`set_base_address`): a pointer
        # operand is translated against the base of the view, not against the ImageBase field of the header
        # (round-5 change C11-r5-3 took the base from the optional header in `va_to_rva`).  The stored pointers
        # are relative to the header's base, so under base + d they land d bytes earlier or are rejected.
        base = pe.image_base
        mask = (1 << bits) - 1
        o = []
        for nb in (base + 8, base + 0x10, base - 8, base + 0x1000, base - 0x1000, 0, (base + (1 << (bits - 1))) & mask, base):
            if nb < 0:
                continue
            k = "v%d@0x%x" % (bits, nb & mask)
            for c in (vt, vt + 8):
                o.append("pat_exec %s Back(%d),Ptr,Save(0),Skip(12),ReadU32(1) 0x%x 2" % (k, bits // 8, c))
                o.append("pat_exec %s Back(%d),Ptr,Save(0) 0x%x 1" % (k, bits // 8, c))
            o.append("scan %s Ptr,Save(1) 0x%x 0x%x 2" % (k, pe.sections[0].va, pe.sections[0].va + 0x40))
        cases.append([img_line(rng, view)] + o)
    return cases


# ---------------------------------------------------------------- the repository's own binaries

def parse_sections(data):
    e = struct.unpack_from("<I", data, 60)[0]
    nsec, = struct.unpack_from("<H", data, e + 6)
    soh, = struct.unpack_from("<H", data, e + 20)
    magic, = struct.unpack_from("<H", data, e + 24)
    soi, sohdr = struct.unpack_from("<II", data, e + 24 + 56)
    secs = []
    for i in range(nsec):
        o = e + 24 + soh + 40 * i
        vs, va, rs, prd = struct.unpack_from("<IIII", data, o + 8)
        secs.append((va, vs, prd, rs))
    return 64 if magic == 0x20B else 32, soi, sohdr, secs


def map_real(data):
    bits, soi, sohdr, secs = parse_sections(data)
    out = bytearray(soi)
    out[:sohdr] = data[:sohdr]
    for va, vs, prd, rs in secs:
        raw = data[prd:prd + rs]
        n = min(len(raw), soi - va)
        out[va:va + n] = raw[:n]
    return bytes(out)


def bytes_atoms(hexs):
    return [A("Byte", b) for b in bytes.fromhex(hexs)]


def gen_corpus(rng, tier):
    """demo/Demo.dll and demo/Demo64.dll, as files and mapped, with the patterns of tests/demo64.rs
    (hand-translated to atoms) and short code idioms whose matches overlap and repeat"""
    import os
    cases = []
    # tests/demo64.rs::scanner : "4C8B41'? 4C2BC2 ????????? 0FB60A 420FB60402 2BC8 75% 8B15${'} 85 C9"
    p1 = [A("Save", 0)] + bytes_atoms("4C8B41") + [A("Save", 1), A("Skip", 1)] + bytes_atoms("4C2BC2") + [A("Skip", 9)] + \
        bytes_atoms("0FB60A420FB604022BC875") + [A("Jump1")] + bytes_atoms("8B15") + [A("Push", 4), A("Jump4"), A("Save", 2), A("Pop")] + bytes_atoms("85C9")
    # "0F1002 488BC1 0F1101 F20F104A10 F20F114910 C3" : the pinned quick search edge
    p2 = [A("Save", 0)] + bytes_atoms("0F1002488BC10F1101F20F104A10F20F114910C3")
    idioms = [
        [A("Save", 0), A("Byte", 0xE8), A("Push", 4), A("Jump4"), A("Save", 1), A("Pop"), A("Save", 2)],            # scanner.rs::test
        [A("Jump1"), A("Save", 1), A("Byte", 0x0F), A("Byte", 0x0D)],
        [A("Save", 0)] + bytes_atoms("8B018B10FFD2"),
        [A("Save", 0)] + bytes_atoms("CCCCCCCC"),                                                                     # padding runs: overlapping matches
        [A("Save", 0)] + bytes_atoms("CCCC") + [A("Aligned", 4)],
        [A("Save", 0)] + bytes_atoms("4883EC") + [A("ReadU8", 1), A("Many", 32), A("Save", 2)] + bytes_atoms("4883C4") + [A("ReadU8", 3), A("Byte", 0xC3)],
        [A("Save", 0)] + bytes_atoms("488D") + [A("Fuzzy", 0xC7), A("Byte", 0x05), A("Push", 4), A("Jump4"), A("Save", 1), A("Pop")],
        [A("Save", 0), A("Byte", 0xC3), A("Case", 2), A("Byte", 0xCC), A("Break", 1), A("Byte", 0x90), A("Save", 1)],
        [A("Save", 0)] + bytes_atoms("0000000000000000"),
        [A("Save", 0), A("Ptr"), A("Save", 1), A("ReadU32", 2)],
    ]
    for fn in ("/repo/demo/Demo64.dll", "/repo/demo/Demo.dll"):
        if not os.path.exists(fn):
            continue
        data = open(fn, "rb").read()
        bits, soi, sohdr, secs = parse_sections(data)
        view = map_real(data)
        for im, ks in ((data, ["f%d" % bits, "wf"]), (view, ["v%d" % bits, "wv"])):
            ops = []
            for k in ks:
                for p in ([p1, p2] if k == ks[0] else [p1]):
                    ops.append("finds_code %s %s 8" % (k, atoms_str(p)))
                    ops.append("scan_code %s %s 8" % (k, atoms_str(p)))
                ops.append("finds %s %s 0x148f 0x14a3 8" % (k, atoms_str(p2)))
                ops.append("finds %s %s 0x1490 0x149f 8" % (k, atoms_str(p2)))
                ops.append("scan %s %s 0x1490 0x14a3 8" % (k, atoms_str(p2)))
                ops.append("scan %s %s 0x1490 0x14a4 8" % (k, atoms_str(p2)))
            k = ks[0]
            for p in idioms:
                ops.append("scan_code %s %s 4" % (k, atoms_str(p)))
                ops.append("scan %s %s 0 0x%x 4" % (k, atoms_str(p), soi))
                va, vs, prd, rs = rng.choice(secs)
                ops.append("scan %s %s 0x%x 0x%x 4" % (k, atoms_str(p), va + rng.randrange(0, 64), va + max(vs, rs)))
                ops.append("finds_code %s %s 4" % (k, atoms_str(p)))
            cases.append([img_line(rng, im, 0, "e")] + ops)
    return cases
